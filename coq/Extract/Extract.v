(* Extraction of the executable models to OCaml.  Directives in use (trusted base):
   ExtrOcamlBasic  : bool, option, unit, list, prod, sumbool, sumor -> OCaml natives
   ExtrOcamlZBigInt: positive, N, Z -> Zarith big integers (arbitrary precision)
   nat stays an inductive type (only small fuel values). *)
From Coq Require Import Extraction ExtrOcamlBasic ExtrOcamlZBigInt.
From Minter Require Import Dispatch.
Extraction Language OCaml.
Extraction "model.ml" dispatch.
