(* PunishFacts.v — lemmas about Model/Punish.v (C18). *)
From Minter Require Import Base Consts Punish.
From Coq Require Import ZArith List Bool Lia ZifyBool.
Import ListNotations.
Open Scope Z_scope.

Ltac Zify.zify_post_hook ::= Z.div_mod_to_equations.

(* ======================================================================================= *)
(* 0. specification-level notions, written with the literals of the property text            *)
(* ======================================================================================= *)

(* a vote history: (signed, grace) per consecutive height *)
Definition absences (votes : list (bool * bool)) : list bool := map (fun v => negb (fst v)) votes.

(* the number of blocks NOT signed among the last k blocks of the history *)
Definition missed_last (k : nat) (votes : list (bool * bool)) : Z :=
  Z.of_nat (length (filter (fun v => negb (fst v)) (skipn (length votes - k) votes))).

(* "no earlier block of the history had more than [limit] misses in its last k blocks" *)
Definition never_exceeded (k : nat) (limit : Z) (votes : list (bool * bool)) : Prop :=
  forall n, (0 < n <= length votes)%nat -> missed_last k (firstn n votes) <= limit.

(* ======================================================================================= *)
(* 1. lists                                                                                   *)
(* ======================================================================================= *)

Lemma sum_Z_app : forall a b, sum_Z (a ++ b) = sum_Z a + sum_Z b.
Proof. unfold sum_Z. induction a as [|x a IH]; intros b; cbn [app fold_right]; [lia|]. rewrite IH. lia. Qed.

Lemma set_nth_length : forall i b w, length (set_nth i b w) = length w.
Proof. induction i as [|i IH]; intros b [|x w]; cbn [set_nth length]; auto. Qed.

Lemma nth_set_nth_eq : forall i b w d, (i < length w)%nat -> nth i (set_nth i b w) d = b.
Proof.
  induction i as [|i IH]; intros b [|x w] d Hi; cbn [length] in Hi; try lia; cbn [set_nth nth]; auto.
  apply IH. lia.
Qed.

Lemma nth_set_nth_neq : forall i j b w d, i <> j -> nth j (set_nth i b w) d = nth j w d.
Proof.
  induction i as [|i IH]; intros [|j] b [|x w] d Hij; cbn [set_nth nth]; auto; try congruence.
Qed.

Lemma count_cons : forall b w, count_absent (b :: w) = b2z b + count_absent w.
Proof. reflexivity. Qed.

Lemma count_set_nth : forall i b w, (i < length w)%nat ->
  count_absent (set_nth i b w) = count_absent w - b2z (nth i w false) + b2z b.
Proof.
  induction i as [|i IH]; intros b [|x w] Hi; cbn [length] in Hi; try lia; cbn [set_nth nth].
  - rewrite !count_cons. lia.
  - rewrite !count_cons. rewrite IH by lia. lia.
Qed.

Lemma count_app : forall a b, count_absent (a ++ b) = count_absent a + count_absent b.
Proof. intros. unfold count_absent. rewrite map_app. apply sum_Z_app. Qed.

Lemma count_repeat_false : forall n, count_absent (repeat false n) = 0.
Proof. induction n as [|n IH]; [reflexivity|]. cbn [repeat]. rewrite count_cons, IH. reflexivity. Qed.

Lemma count_nonneg : forall w, 0 <= count_absent w.
Proof. induction w as [|b w IH]; [cbn; lia|]. rewrite count_cons. destruct b; cbn [b2z]; lia. Qed.

Lemma count_filter : forall l, count_absent l = Z.of_nat (length (filter (fun b => b) l)).
Proof.
  induction l as [|b l IH]; [reflexivity|]. rewrite count_cons. cbn [filter].
  destruct b; cbn [b2z length]; lia.
Qed.

Lemma nth_repeat_false : forall n i, nth i (repeat false n) false = false.
Proof. induction n as [|n IH]; intros [|i]; cbn [repeat nth]; auto. Qed.

(* the sliding list of the last absences: drop the oldest, append the newest *)
Definition slide (l : list bool) (b : bool) : list bool := tl l ++ [b].

Lemma slide_length : forall l b, l <> [] -> length (slide l b) = length l.
Proof. intros [|x l] b H; [congruence|]. unfold slide. cbn [tl]. rewrite app_length. cbn [length]. lia. Qed.

Lemma count_slide : forall l b, l <> [] -> count_absent (slide l b) = count_absent l - b2z (hd false l) + b2z b.
Proof.
  intros [|x l] b H; [congruence|]. unfold slide. cbn [tl hd]. rewrite count_app, !count_cons.
  change (count_absent []) with 0. lia.
Qed.

Lemma nth_slide_lt : forall l b i d, (S i < length l)%nat -> nth i (slide l b) d = nth (S i) l d.
Proof.
  intros [|x l] b i d H; cbn [length] in H; [lia|]. unfold slide. cbn [tl nth].
  apply app_nth1. lia.
Qed.

Lemma nth_slide_last : forall l b d, l <> [] -> nth (length l - 1) (slide l b) d = b.
Proof.
  intros [|x l] b d H; [congruence|]. unfold slide. cbn [tl length].
  replace (S (length l) - 1)%nat with (length l) by lia.
  rewrite app_nth2 by lia. rewrite Nat.sub_diag. reflexivity.
Qed.

Lemma fold_slide_skipn : forall l w, w <> [] -> fold_left slide l w = skipn (length l) (w ++ l).
Proof.
  induction l as [|a l IH]; intros w Hw.
  - cbn [fold_left length skipn]. rewrite app_nil_r. reflexivity.
  - cbn [fold_left length]. destruct w as [|x w]; [congruence|].
    rewrite IH.
    + unfold slide. cbn [tl]. cbn [app skipn]. rewrite <- app_assoc. reflexivity.
    + unfold slide. cbn [tl]. destruct w; cbn; congruence.
Qed.

Lemma fold_slide_length : forall l w, w <> [] -> length (fold_left slide l w) = length w.
Proof.
  induction l as [|a l IH]; intros w Hw; [reflexivity|]. cbn [fold_left].
  rewrite IH.
  - apply slide_length; auto.
  - destruct w as [|x w]; [congruence|]. unfold slide. cbn [tl]. destruct w; cbn; congruence.
Qed.

Lemma nth_skipn_add : forall {A} n (l : list A) i d, nth i (skipn n l) d = nth (n + i) l d.
Proof.
  induction n as [|n IH]; intros l i d; [reflexivity|].
  destruct l as [|x l]; cbn [skipn]; [destruct i; reflexivity|]. cbn [Nat.add nth]. apply IH.
Qed.

(* ======================================================================================= *)
(* 2. the window                                                                              *)
(* ======================================================================================= *)

Lemma win_len_24 : win_len = 24%nat.
Proof. reflexivity. Qed.

Lemma fresh_length : length fresh_window = 24%nat.
Proof. unfold fresh_window. rewrite repeat_length. reflexivity. Qed.

Lemma fresh_nonempty : fresh_window <> [].
Proof. intro H. pose proof fresh_length as L. rewrite H in L. cbn in L. lia. Qed.

Lemma widx_lt : forall h, (widx h < 24)%nat.
Proof.
  intros h. unfold widx. change validator_max_absent_window with 24.
  assert (0 <= h mod 24 < 24) by (apply Z.mod_pos_bound; lia). lia.
Qed.

Lemma widx_neq : forall a b, 0 < b - a < 24 -> widx a <> widx b.
Proof.
  intros a b H. unfold widx. change validator_max_absent_window with 24. intro E.
  apply Z2Nat.inj in E; try (apply Z.mod_pos_bound; lia). lia.
Qed.

Lemma widx_period : forall a, widx (a - 24) = widx a.
Proof.
  intros a. unfold widx. change validator_max_absent_window with 24. f_equal. lia.
Qed.

(* the invariant tying the window (indexed by height mod 24) at height h to the sliding list
   of the last 24 absences (oldest first) *)
Definition inv (h : Z) (w l : list bool) : Prop :=
  length w = 24%nat /\ length l = 24%nat /\ count_absent w = count_absent l /\
  forall i, (i < 24)%nat -> nth (widx (h - 23 + Z.of_nat i)) w false = nth i l false.

Lemma inv_fresh : forall h, inv h fresh_window fresh_window.
Proof.
  intros h. repeat split; try apply fresh_length.
  intros i Hi. unfold fresh_window. rewrite !nth_repeat_false. reflexivity.
Qed.

Lemma inv_step : forall h w l b, inv h w l -> inv (h + 1) (set_nth (widx (h + 1)) b w) (slide l b).
Proof.
  intros h w l b (Lw & Ll & Hc & Hn).
  assert (Hl : l <> []) by (destruct l; cbn in Ll; [lia|congruence]).
  repeat split.
  - rewrite set_nth_length. exact Lw.
  - rewrite slide_length; auto.
  - rewrite count_set_nth by (rewrite Lw; apply widx_lt).
    rewrite count_slide by auto.
    assert (E : nth (widx (h + 1)) w false = hd false l).
    { specialize (Hn 0%nat ltac:(lia)). replace (h - 23 + Z.of_nat 0) with ((h + 1) - 24) in Hn by lia.
      rewrite widx_period in Hn. rewrite Hn. destruct l; reflexivity. }
    rewrite E. lia.
  - intros i Hi. destruct (Nat.eq_dec i 23) as [->|Hne].
    + replace (h + 1 - 23 + Z.of_nat 23) with (h + 1) by lia.
      rewrite nth_set_nth_eq by (rewrite Lw; apply widx_lt).
      replace 23%nat with (length l - 1)%nat by lia. rewrite nth_slide_last; auto.
    + rewrite nth_set_nth_neq by (apply not_eq_sym, widx_neq; lia).
      rewrite nth_slide_lt by lia.
      specialize (Hn (S i) ltac:(lia)). rewrite <- Hn. f_equal. f_equal. lia.
Qed.

(* the sliding list along a history, and "calm": never more than 12 in the sliding list *)
Fixpoint calm_from (l : list bool) (votes : list (bool * bool)) : Prop :=
  match votes with
  | [] => True
  | v :: r => count_absent (slide l (negb (fst v))) <= 12 /\ calm_from (slide l (negb (fst v))) r
  end.

Definition last24 (votes : list (bool * bool)) : list bool := fold_left slide (absences votes) fresh_window.

Lemma run_votes_app : forall jp p q st h0,
  run_votes jp st h0 (p ++ q) = run_votes jp (run_votes jp st h0 p) (h0 + Z.of_nat (length p)) q.
Proof.
  induction p as [|[s g] p IH]; intros q st h0.
  - cbn [app run_votes length]. f_equal. lia.
  - cbn [app run_votes length]. rewrite IH. f_equal. lia.
Qed.

(* a calm history only moves the window; the window follows the sliding list *)
Lemma run_calm : forall jp votes st h0 l,
  inv (h0 - 1) (v_win st) l -> calm_from l votes ->
  let st' := run_votes jp st h0 votes in
  inv (h0 - 1 + Z.of_nat (length votes)) (v_win st') (fold_left slide (absences votes) l) /\
  v_drop st' = v_drop st /\ v_offline st' = v_offline st /\ v_jail st' = v_jail st.
Proof.
  intros jp. induction votes as [|[s g] votes IH]; intros st h0 l Hinv Hc.
  - cbn [run_votes length absences map fold_left]. replace (h0 - 1 + Z.of_nat 0) with (h0 - 1) by lia. auto.
  - cbn [calm_from fst] in Hc. destruct Hc as [Hle Hc].
    pose proof (inv_step (h0 - 1) (v_win st) l (negb s) Hinv) as Hs.
    replace (h0 - 1 + 1) with h0 in Hs by lia.
    cbn [run_votes absences map fold_left fst length].
    assert (Hst : let st1 := on_vote jp st h0 s g in
                  v_win st1 = set_nth (widx h0) (negb s) (v_win st) /\ v_drop st1 = v_drop st /\
                  v_offline st1 = v_offline st /\ v_jail st1 = v_jail st).
    { unfold on_vote. destruct s; cbn [negb].
      - cbn. auto.
      - unfold set_absent.
        destruct Hs as (_ & _ & Hcnt & _). cbn [negb] in Hcnt, Hle.
        change validator_max_absent_times with 12.
        destruct (12 <? count_absent (set_nth (widx h0) true (v_win st))) eqn:E; [lia|]. cbn. auto. }
    cbn zeta in Hst. destruct Hst as (Hw & Hd & Ho & Hj).
    specialize (IH (on_vote jp st h0 s g) (h0 + 1) (slide l (negb s))).
    replace (h0 + 1 - 1) with h0 in IH by lia. rewrite Hw in IH. specialize (IH Hs Hc).
    cbn zeta in IH. destruct IH as (I1 & I2 & I3 & I4).
    replace (h0 - 1 + Z.of_nat (S (length votes))) with (h0 + Z.of_nat (length votes)) by lia.
    repeat split; try congruence.
    + apply I1. + apply I1. + apply I1. + apply I1.
Qed.

(* ---- connecting the sliding list with the literal specification ---- *)

Lemma last24_skipn : forall votes, last24 votes = skipn (length votes) (fresh_window ++ absences votes).
Proof.
  intros. unfold last24. rewrite fold_slide_skipn by apply fresh_nonempty.
  unfold absences. rewrite map_length. reflexivity.
Qed.

Lemma absences_length : forall votes, length (absences votes) = length votes.
Proof. intros. unfold absences. apply map_length. Qed.

Lemma filter_absences : forall votes,
  length (filter (fun b => b) (absences votes)) = length (filter (fun v : bool * bool => negb (fst v)) votes).
Proof.
  induction votes as [|[s g] votes IH]; [reflexivity|]. cbn [absences map filter fst] in *.
  destruct (negb s); cbn [length]; auto.
Qed.

Lemma absences_skipn : forall n votes, absences (skipn n votes) = skipn n (absences votes).
Proof. intros. unfold absences. symmetry. apply skipn_map. Qed.

Lemma count_skipn_repeat : forall n m, count_absent (skipn n (repeat false m)) = 0.
Proof.
  induction n as [|n IH]; intros m; [apply count_repeat_false|].
  destruct m as [|m]; [reflexivity|]. cbn [repeat skipn]. apply IH.
Qed.

Lemma skipn_fresh_app : forall n l, (n <= 24)%nat ->
  count_absent (skipn n (fresh_window ++ l)) = count_absent l.
Proof.
  intros n l Hn. rewrite skipn_app. rewrite fresh_length.
  replace (n - 24)%nat with 0%nat by lia. cbn [skipn]. rewrite count_app.
  unfold fresh_window. rewrite count_skipn_repeat. lia.
Qed.

Lemma count_last24 : forall votes, count_absent (last24 votes) = missed_last 24 votes.
Proof.
  intros votes. rewrite last24_skipn. unfold missed_last.
  rewrite <- filter_absences, <- count_filter, absences_skipn.
  destruct (Nat.le_gt_cases (length votes) 24) as [Hle|Hgt].
  - rewrite skipn_fresh_app by lia. replace (length votes - 24)%nat with 0%nat by lia. reflexivity.
  - rewrite skipn_app, fresh_length.
    rewrite (skipn_all2 fresh_window) by (rewrite fresh_length; lia). reflexivity.
Qed.

Lemma absences_app : forall p q, absences (p ++ q) = absences p ++ absences q.
Proof. intros. unfold absences. apply map_app. Qed.

Lemma calm_from_app : forall p q l,
  calm_from l (p ++ q) <-> calm_from l p /\ calm_from (fold_left slide (absences p) l) q.
Proof.
  induction p as [|v p IH]; intros q l.
  - cbn [app calm_from absences map fold_left]. tauto.
  - cbn [app calm_from absences map fold_left]. rewrite IH. unfold absences. tauto.
Qed.

Lemma firstn_snoc_all : forall {A} (p : list A) v, firstn (length p) (p ++ [v]) = p.
Proof. intros. rewrite firstn_app, Nat.sub_diag, firstn_all. cbn [firstn]. apply app_nil_r. Qed.

Lemma calm_never_exceeded : forall votes, calm_from fresh_window votes <-> never_exceeded 24 12 votes.
Proof.
  intros votes. induction votes as [|v p IH] using rev_ind.
  - split; [|cbn; auto]. intros _ n Hn. cbn [length] in Hn. lia.
  - rewrite calm_from_app. cbn [calm_from]. fold (last24 p).
    assert (E : slide (last24 p) (negb (fst v)) = last24 (p ++ [v])).
    { unfold last24. rewrite absences_app, fold_left_app. reflexivity. }
    rewrite E, count_last24, IH. unfold never_exceeded. split.
    + intros (Hp & Hv & _) n Hn. rewrite app_length in Hn. cbn [length] in Hn.
      destruct (Nat.eq_dec n (length p + 1)) as [->|Hne].
      * rewrite firstn_all2 by (rewrite app_length; cbn [length]; lia). exact Hv.
      * rewrite firstn_app. replace (n - length p)%nat with 0%nat by lia. cbn [firstn]. rewrite app_nil_r.
        apply Hp. lia.
    + intros H. split; [|split; auto].
      * intros n Hn. specialize (H n). rewrite app_length in H. cbn [length] in H.
        rewrite firstn_app in H. replace (n - length p)%nat with 0%nat in H by lia. cbn [firstn] in H.
        rewrite app_nil_r in H. apply H. lia.
      * specialize (H (length (p ++ [v]))). rewrite firstn_all in H. apply H.
        rewrite app_length. cbn [length]. lia.
Qed.

(* ---- the window theorems ---- *)

(* bit (j mod 24) of the window, for the last 24 heights j *)
Lemma last24_nth : forall votes h0 j,
  let h := h0 - 1 + Z.of_nat (length votes) in
  h - 23 <= j <= h ->
  nth (Z.to_nat (j - (h - 23))) (last24 votes) false =
  if j <? h0 then false else nth (Z.to_nat (j - h0)) (absences votes) false.
Proof.
  intros votes h0 j h Hj. rewrite last24_skipn, nth_skipn_add.
  destruct (j <? h0) eqn:E.
  - rewrite app_nth1 by (rewrite fresh_length; lia). apply nth_repeat_false.
  - rewrite app_nth2 by (rewrite fresh_length; lia). rewrite fresh_length. f_equal. lia.
Qed.

Theorem window_exact : forall jp j0 h0 votes,
  never_exceeded 24 12 votes ->
  let st := run_votes jp (joined_with j0) h0 votes in
  let h := h0 - 1 + Z.of_nat (length votes) in
  (forall j, h - 23 <= j <= h ->
     nth (widx j) (v_win st) false =
     if j <? h0 then false else nth (Z.to_nat (j - h0)) (absences votes) false) /\
  count_absent (v_win st) = missed_last 24 votes /\
  length (v_win st) = 24%nat /\
  v_drop st = false /\ v_offline st = false /\ v_jail st = j0.
Proof.
  intros jp j0 h0 votes Hne st h. apply calm_never_exceeded in Hne.
  pose proof (run_calm jp votes (joined_with j0) h0 fresh_window (inv_fresh _) Hne) as H.
  cbn zeta in H. fold st in H. fold (last24 votes) in H. fold h in H.
  destruct H as ((Lw & Ll & Hc & Hn) & Hd & Ho & Hj).
  repeat split; auto.
  - intros j Hjr. rewrite <- (last24_nth votes h0 j Hjr). fold h.
    specialize (Hn (Z.to_nat (j - (h - 23))) ltac:(lia)). rewrite <- Hn. f_equal. f_equal. lia.
  - rewrite Hc. apply count_last24.
Qed.

(* signing a block never pushes the count above the limit *)
Lemma signed_no_increase : forall p g, missed_last 24 (p ++ [(true, g)]) <= missed_last 24 p.
Proof.
  intros p g. rewrite <- !count_last24. unfold last24. rewrite absences_app, fold_left_app.
  cbn [absences map fold_left fst negb]. fold (last24 p).
  assert (Hl : last24 p <> []).
  { intro E. pose proof (fold_slide_length (absences p) fresh_window fresh_nonempty) as L.
    fold (last24 p) in L. rewrite E, fresh_length in L. cbn in L. lia. }
  rewrite count_slide by exact Hl. cbn [b2z]. destruct (hd false (last24 p)); cbn [b2z]; lia.
Qed.

Theorem absent_punished : forall jp j0 h0 p s g,
  never_exceeded 24 12 p ->
  let votes := p ++ [(s, g)] in
  let h := h0 + Z.of_nat (length p) in          (* the height of the last vote *)
  let st := run_votes jp (joined_with j0) h0 votes in
  (12 < missed_last 24 votes ->
     s = false /\ v_drop st = true /\ v_offline st = true /\
     v_jail st = (if g then j0 else h + jp) /\ v_win st = fresh_window) /\
  (missed_last 24 votes <= 12 ->
     v_drop st = false /\ v_offline st = false /\ v_jail st = j0 /\
     count_absent (v_win st) = missed_last 24 votes).
Proof.
  intros jp j0 h0 p s g Hp votes h st. split.
  - intros Hgt.
    assert (Hs : s = false).
    { destruct s; auto. pose proof (signed_no_increase p g) as Hle. unfold votes in Hgt.
      pose proof (Hp (length p)) as Hq. destruct p as [|x p'].
      - change (missed_last 24 []) with 0 in Hle. lia.
      - rewrite firstn_all in Hq. specialize (Hq ltac:(cbn [length]; lia)). lia. }
    subst s. split; auto.
    pose proof (window_exact jp j0 h0 p Hp) as W. cbn zeta in W.
    destruct W as (_ & Hc & Lw & Hd & Ho & Hj).
    unfold st, votes. rewrite run_votes_app. cbn [run_votes].
    set (st0 := run_votes jp (joined_with j0) h0 p) in *. fold h.
    (* the window after set_absent counts exactly the misses of the last 24 *)
    apply calm_never_exceeded in Hp.
    pose proof (run_calm jp p (joined_with j0) h0 fresh_window (inv_fresh _) Hp) as R. cbn zeta in R. fold st0 in R.
    destruct R as (Hinv & _).
    pose proof (inv_step _ _ _ true Hinv) as Hs.
    replace (h0 - 1 + Z.of_nat (length p) + 1) with h in Hs by (unfold h; lia).
    destruct Hs as (_ & _ & Hcnt & _).
    assert (E : slide (fold_left slide (absences p) fresh_window) true = last24 (p ++ [(false, g)])).
    { unfold last24. rewrite absences_app, fold_left_app. reflexivity. }
    rewrite E, count_last24 in Hcnt. fold votes in Hcnt.
    unfold on_vote, set_absent. change validator_max_absent_times with 12.
    destruct (12 <? count_absent (set_nth (widx h) true (v_win st0))) eqn:Ec; [|lia].
    cbn. rewrite Hj. auto.
  - intros Hle.
    assert (Hv : never_exceeded 24 12 votes).
    { apply calm_never_exceeded. unfold votes. rewrite calm_from_app. apply calm_never_exceeded in Hp.
      split; auto. cbn [calm_from]. split; auto.
      fold (last24 p).
      assert (E : slide (last24 p) (negb (fst (s, g))) = last24 (p ++ [(s, g)])).
      { unfold last24. rewrite absences_app, fold_left_app. reflexivity. }
      rewrite E, count_last24. exact Hle. }
    pose proof (window_exact jp j0 h0 votes Hv) as W. cbn zeta in W. fold st in W.
    destruct W as (_ & Hc & _ & Hd & Ho & Hj). auto.
Qed.

(* ======================================================================================= *)
(* 3. the jail gate                                                                           *)
(* ======================================================================================= *)

Theorem jail_gate : forall jailed_until b,
  can_switch_on jailed_until b = false <-> b <= jailed_until.
Proof. intros. unfold can_switch_on, is_jailed. destruct (b <=? jailed_until) eqn:E; cbn; split; intros; try lia; congruence. Qed.

(* ======================================================================================= *)
(* 4. slashing arithmetic                                                                     *)
(* ======================================================================================= *)

Lemma slash_stake_ceil : forall v, slash_stake_value v = (5 * v + 99) / 100.
Proof. intros v. unfold slash_stake_value, keep_stake. change byz_stake_keep_num with 95. change byz_stake_keep_den with 100. lia. Qed.

Lemma slash_fund_ceil : forall v, slash_fund_value v = (5 * v + 99) / 100.
Proof. intros v. unfold slash_fund_value, keep_fund. change byz_fund_keep_num with 95. change byz_fund_keep_den with 100. lia. Qed.

(* (5v+99)/100 is the rounded-up 5 %: the least integer s with 100 s >= 5 v *)
Lemma ceil5_spec : forall v, let s := (5 * v + 99) / 100 in 5 * v <= 100 * s < 5 * v + 100.
Proof. intros v s. unfold s. lia. Qed.

Lemma keep_stake_floor : forall v, keep_stake v = 95 * v / 100.
Proof. intros. unfold keep_stake. change byz_stake_keep_num with 95. change byz_stake_keep_den with 100. f_equal. lia. Qed.

Lemma keep_fund_floor : forall v, keep_fund v = 95 * v / 100.
Proof. intros. unfold keep_fund. change byz_fund_keep_num with 95. change byz_fund_keep_den with 100. f_equal. lia. Qed.

Lemma keep_nonneg : forall v, 0 <= v -> 0 <= keep_stake v <= v /\ 0 <= keep_fund v <= v.
Proof. intros v Hv. rewrite keep_stake_floor, keep_fund_floor. lia. Qed.

(* per stake *)
Definition stake_spec (h unbond cid : Z) (sr : stake * Z) (f : fund) (s' : stake) : Prop :=
  let v := k_value (fst sr) in
  let slashed := (5 * v + 99) / 100 in
  f_value f + slashed = v /\ f_value f = 95 * v / 100 /\
  f_due f = h + unbond /\ f_owner f = k_owner (fst sr) /\ f_coin f = k_coin (fst sr) /\
  f_cand f = cid /\ f_move f = 0 /\
  k_value s' = 0 /\ k_bip s' = 0 /\ k_owner s' = k_owner (fst sr) /\ k_coin s' = k_coin (fst sr).

Lemma stake_spec_one : forall h u cid sr, stake_spec h u cid sr (stake_fund h u cid sr) (stake_zero sr).
Proof.
  intros h u cid [s ret]. unfold stake_spec, stake_fund, stake_zero. cbn [fst f_value f_due f_owner f_coin f_cand f_move k_value k_bip k_owner k_coin].
  rewrite keep_stake_floor. repeat split; auto. lia.
Qed.

Fixpoint Forall3 {A B C} (R : A -> B -> C -> Prop) (a : list A) (b : list B) (c : list C) : Prop :=
  match a, b, c with
  | [], [], [] => True
  | x :: a', y :: b', z :: c' => R x y z /\ Forall3 R a' b' c'
  | _, _, _ => False
  end.

Theorem slash_stakes_exact : forall h u cid ss,
  Forall3 (stake_spec h u cid) ss (punish_stakes_funds h u cid ss) (punish_stakes_left ss) /\
  punish_stakes_pool ss =
    sum_Z (map (fun sr => if k_coin (fst sr) =? 0 then (5 * k_value (fst sr) + 99) / 100 else snd sr) ss) /\
  punish_stakes_events ss = map (fun sr => (k_owner (fst sr), k_coin (fst sr), (5 * k_value (fst sr) + 99) / 100)) ss.
Proof.
  intros h u cid ss. induction ss as [|[s ret] ss (I1 & I2 & I3)].
  - cbn. auto.
  - split; [|split].
    + cbn [punish_stakes_funds punish_stakes_left map Forall3]. split; [apply stake_spec_one|exact I1].
    + unfold punish_stakes_pool in *. cbn [map sum_Z fold_right fst snd]. unfold sum_Z in I2. rewrite I2.
      f_equal. unfold stake_pool, to_pool. rewrite slash_stake_ceil. reflexivity.
    + unfold punish_stakes_events in *. cbn [map fst]. rewrite I3. f_equal.
      unfold stake_event. rewrite slash_stake_ceil. reflexivity.
Qed.

(* per frozen fund *)
Definition fund_spec (from to cid : Z) (fr : fund * Z) (f' : fund) : Prop :=
  let f := fst fr in
  if (from <=? f_due f) && (f_due f <=? to) && (f_cand f =? cid)
  then f_value f' = 95 * f_value f / 100 /\ f_value f' + (5 * f_value f + 99) / 100 = f_value f /\
       f_due f' = f_due f /\ f_owner f' = f_owner f /\ f_cand f' = f_cand f /\ f_coin f' = f_coin f /\ f_move f' = f_move f
  else f' = f.

Theorem punish_funds_exact : forall from to cid fs,
  Forall2 (fund_spec from to cid) fs (punish_funds from to cid fs) /\
  punish_funds_pool from to cid fs =
    sum_Z (map (fun fr => if fund_hit from to cid (fst fr)
                          then (if f_coin (fst fr) =? 0 then (5 * f_value (fst fr) + 99) / 100 else snd fr) else 0) fs).
Proof.
  intros from to cid fs. induction fs as [|[f ret] fs (I1 & I2)].
  - cbn. auto.
  - split.
    + cbn [punish_funds map]. constructor; [|exact I1].
      unfold fund_spec, punish_fund, fund_hit. cbn [fst].
      destruct ((from <=? f_due f) && (f_due f <=? to) && (f_cand f =? cid)) eqn:E; auto.
      cbn [f_value f_due f_owner f_cand f_coin f_move]. rewrite keep_fund_floor. repeat split; auto. lia.
    + unfold punish_funds_pool in *. cbn [map sum_Z fold_right fst snd]. unfold sum_Z in I2. rewrite I2. f_equal.
      unfold fund_pool. destruct (fund_hit from to cid f); auto. unfold to_pool. rewrite slash_fund_ceil. reflexivity.
Qed.

Corollary other_funds_untouched : forall from to cid fs n f ret,
  nth_error fs n = Some (f, ret) ->
  f_cand f <> cid \/ f_due f < from \/ to < f_due f ->
  nth_error (punish_funds from to cid fs) n = Some f.
Proof.
  intros from to cid fs n f ret Hn Ho. unfold punish_funds. rewrite nth_error_map, Hn. cbn [option_map].
  f_equal. unfold punish_fund, fund_hit.
  destruct ((from <=? f_due f) && (f_due f <=? to) && (f_cand f =? cid)) eqn:E; auto. lia.
Qed.

(* funds in flight at block h (created at h' <= h by an unbond or a stake move, not yet released)
   all fall into the punished range [h, h + unbond] *)
Theorem in_flight_in_range : forall chain h h' period cid f,
  period = unbond_period chain \/ period = move_period chain ->
  h' <= h -> f_due f = h' + period -> h <= f_due f -> f_cand f = cid ->
  fund_hit h (h + unbond_period chain) cid f = true.
Proof.
  intros chain h h' period cid f Hp Hh Hd Hl Hc. unfold fund_hit.
  assert (move_period chain <= unbond_period chain).
  { unfold move_period, unbond_period. destruct (chain =? 2); cbv; congruence. }
  lia.
Qed.

(* ======================================================================================= *)
(* 5. one piece of evidence                                                                   *)
(* ======================================================================================= *)

Lemma applies_iff : forall st,
  evidence_applies st = false <-> b_known st = false \/ b_status st = 1 \/ b_listed st = false.
Proof.
  intros st. unfold evidence_applies. change status_offline with 1.
  destruct (b_known st), (b_listed st), (b_status st =? 1) eqn:E; cbn; split; intros; try lia; try tauto; try congruence.
Qed.

Theorem evidence_skipped : forall h u rf rs st,
  b_known st = false \/ b_status st = 1 \/ b_listed st = false ->
  evidence h u rf rs st = st.
Proof. intros h u rf rs st H. apply applies_iff in H. unfold evidence. rewrite H. reflexivity. Qed.

Lemma with_oracle_length : forall {A} (l : list A) rets, length (with_oracle l rets) = length l.
Proof. intros. unfold with_oracle. rewrite combine_length, app_length, repeat_length. lia. Qed.

Lemma map_fst_combine : forall {A B} (l : list A) (r : list B), (length l <= length r)%nat -> map fst (combine l r) = l.
Proof.
  induction l as [|x l IH]; intros r H; [reflexivity|].
  destruct r as [|y r]; cbn [length] in H; [lia|]. cbn [combine map fst]. f_equal. apply IH. lia.
Qed.

Lemma with_oracle_fst : forall {A} (l : list A) rets, map fst (with_oracle l rets) = l.
Proof. intros. unfold with_oracle. apply map_fst_combine. rewrite app_length, repeat_length. lia. Qed.

Theorem evidence_applied : forall h u rf rs st,
  evidence_applies st = true ->
  let st' := evidence h u rf rs st in
  let fs := with_oracle (b_funds st) rf in
  let ss := with_oracle (b_stakes st) rs in
  b_status st' = 1 /\ b_listed st' = true /\ b_vdrop st' = true /\ b_vtotal st' = 0 /\
  b_stakes st' = punish_stakes_left ss /\
  b_funds st' = punish_funds h (h + u) (b_cid st) fs ++ punish_stakes_funds h u (b_cid st) ss /\
  b_pool st' = b_pool st + punish_funds_pool h (h + u) (b_cid st) fs + punish_stakes_pool ss.
Proof. intros h u rf rs st H. unfold evidence. rewrite H. cbn. auto 10. Qed.

(* the guard sees a punishment: afterwards the candidate is offline, so no evidence applies *)
Theorem evidence_closes_guard : forall h u rf rs st,
  evidence_applies (evidence h u rf rs st) = false.
Proof.
  intros h u rf rs st. unfold evidence. destruct (evidence_applies st) eqn:E; cbn [negb].
  - unfold evidence_applies. cbn [b_known b_status b_listed]. change (status_offline =? status_offline) with true. reflexivity.
  - exact E.
Qed.

(* only once: whatever evidence follows (same block: same h; a later block: another h'), with
   whatever oracle answers, changes nothing *)
Theorem evidence_only_once : forall h u rf rs h' u' rf' rs' st,
  evidence h' u' rf' rs' (evidence h u rf rs st) = evidence h u rf rs st.
Proof.
  intros. pose proof (evidence_closes_guard h u rf rs st) as H.
  unfold evidence at 1. rewrite H. reflexivity.
Qed.

Lemma evidence_n_fixed : forall k h u st, evidence_applies st = false -> evidence_n k h u st = st.
Proof.
  induction k as [|k IH]; intros h u st H; [reflexivity|]. cbn [evidence_n].
  assert (E : evidence h u [] [] st = st) by (unfold evidence; rewrite H; reflexivity).
  rewrite E. apply IH. exact H.
Qed.

(* k >= 1 pieces of evidence against one address in one block act like a single one *)
Theorem evidence_k_once : forall k h u rf rs st,
  evidence_k (S k) h u rf rs st = evidence h u rf rs st.
Proof. intros. cbn [evidence_k]. apply evidence_n_fixed, evidence_closes_guard. Qed.

Lemma sum_bip_zero : forall {A} (ss : list (stake * A)), sum_bip (map (fun sr => {| k_owner := k_owner (fst sr); k_coin := k_coin (fst sr); k_value := 0; k_bip := 0 |}) ss) = 0.
Proof. intros A ss. unfold sum_bip. induction ss as [|s ss IH]; [reflexivity|]. cbn [map k_bip sum_Z fold_right]. unfold sum_Z in IH. rewrite IH. reflexivity. Qed.

Lemma left_sum_bip : forall ss, sum_bip (punish_stakes_left ss) = 0.
Proof.
  intros ss. unfold punish_stakes_left, sum_bip. induction ss as [|[s r] ss IH]; [reflexivity|].
  cbn [map stake_zero k_bip sum_Z fold_right]. unfold sum_Z in IH. rewrite IH. reflexivity.
Qed.

(* the EndBlock of the punishing block never keeps the validator, whatever is pending *)
Theorem never_readmitted : forall h u rf rs st upd room,
  evidence_applies st = true -> readmitted (evidence h u rf rs st) upd room = false.
Proof.
  intros h u rf rs st upd room H. destruct (evidence_applied h u rf rs st H) as (Hs & _).
  unfold readmitted. rewrite Hs. reflexivity.
Qed.

(* ======================================================================================= *)
(* 6. for comparison only: the rule before the repair b9d9852 (the punishment left the         *)
(*    candidate's status alone)                                                                *)
(* ======================================================================================= *)

Definition with_status (s : Z) (st : bstate) : bstate :=
  {| b_known := b_known st; b_cid := b_cid st; b_status := s; b_listed := b_listed st;
     b_vtotal := b_vtotal st; b_vdrop := b_vdrop st; b_stakes := b_stakes st; b_funds := b_funds st;
     b_pool := b_pool st; b_events := b_events st |}.

Definition evidence_before_repair (h unbond : Z) (st : bstate) : bstate :=
  with_status (b_status st) (evidence h unbond [] [] st).
