(* LedgerProps.v — properties of DeliverTx / CheckTx on the ledger model (Model/Ledger.v),
   lifted to histories. *)
From Minter Require Import Base Ledger LedgerFacts LedgerTx.
From Coq Require Import ZArith List Bool Lia.
Import ListNotations.
Open Scope Z_scope.

(* every response code of the gate is a failure code *)
Lemma msig_total_code ws signers used acc c : msig_total ws signers used acc = inr c -> c <> 0.
Proof.
  revert used acc. induction signers as [|[a|] r IH]; intros used acc; cbn [msig_total]; [discriminate| |].
  - destruct (existsb _ used); [intros H; injection H as <-; discriminate|apply IH].
  - intros H; injection H as <-; discriminate.
Qed.

Ltac codes :=
  repeat match goal with
         | |- (if ?b then _ else _) = Some _ -> _ => destruct b
         | |- Some ?k = Some _ -> _ => is_var k; fail 1
         | |- Some _ = Some _ -> _ => let H := fresh in intros H; injection H as <-; discriminate
         | |- None = Some _ -> _ => discriminate
         end.

Lemma msig_gate_code s t c : msig_gate s t = Some c -> c <> 0.
Proof.
  unfold msig_gate. destruct (t_sig t) as [a|m signers]; [discriminate|].
  destruct (find_msig (s_msig s) m) as [[thr ws]|]; codes.
  destruct (msig_total ws signers [] 0) as [total|c0] eqn:E; codes.
  intros H; injection H as <-. exact (msig_total_code _ _ _ _ _ E).
Qed.

Lemma gate_code s t c : gate s t = Some c -> c <> 0.
Proof.
  unfold gate. codes. destruct (msig_gate s t) as [c0|] eqn:EM.
  - intros H; injection H as <-. exact (msig_gate_code _ _ _ EM).
  - codes. destruct (tx_price_r (s_prices s) t) as [v|c0] eqn:EP.
    + codes.
    + intros H; injection H as <-. exact (tx_price_r_code _ _ _ EP).
Qed.

Lemma run_code_nonzero s t c : run s t = inl c -> c <> 0.
Proof.
  unfold run; cbv beta zeta.
  repeat match goal with
         | |- (if ?b then _ else _) = inl _ -> _ => destruct b
         | |- inl _ = inl _ -> _ => let H := fresh in intros H; injection H as <-; discriminate
         | |- inr _ = inl _ -> _ => discriminate
         | |- (match ?x with _ => _ end) = inl _ -> _ => destruct x
         end.
Qed.

(* what the gate guarantees when it lets a transaction through *)
Lemma gate_pass s t : gate s t = None ->
  t_chain_ok t = true /\ coin_exists s (t_gas_coin t) = true /\ t_payload_len t <= max_payload_len /\
  t_service_len t <= max_service_len /\ msig_gate s t = None /\
  t_nonce t = get_nonce (s_nonce s) (sender_of t) + 1 /\ 0 <= tx_price (s_prices s) t.
Proof.
  unfold gate.
  destruct (t_chain_ok t); [|discriminate].
  destruct (coin_exists s (t_gas_coin t)); [|discriminate]. cbn [negb].
  destruct (Z.ltb_spec max_payload_len (t_payload_len t)); [discriminate|].
  destruct (Z.ltb_spec max_service_len (t_service_len t)); [discriminate|].
  destruct (msig_gate s t); [discriminate|].
  destruct (Z.eqb_spec (get_nonce (s_nonce s) (sender_of t) + 1) (t_nonce t)); [|discriminate]. cbn [negb].
  unfold tx_price. destruct (tx_price_r (s_prices s) t) as [v|c0] eqn:EP; [|discriminate].
  unfold tx_price_r in EP.
  destruct (Z.eqb_spec (table_price (s_prices s) t) 0); cbn [negb andb].
  - injection EP as <-. intros _. repeat split; auto; lia.
  - destruct (Z.ltb_spec 0 v); [|discriminate]. intros _. repeat split; auto; lia.
Qed.

Lemma payer_of_code t c : payer_of t = inr c -> c = cDecodeError.
Proof.
  unfold payer_of. destruct (t_data t); try discriminate.
  destruct (negb decodable); [intros H; injection H as <-; reflexivity|].
  destruct (negb issuer_ok); [intros H; injection H as <-; reflexivity|discriminate].
Qed.

(* the failed branch never turns a failure into a success *)
Lemma failed_branch_code s t c c' effs : failed_branch s t c = (c', effs) -> c <> 0 -> c' <> 0.
Proof.
  unfold failed_branch. intros H Hc.
  destruct (failed_price_r (s_prices s) t) as [fp|c0] eqn:EF; [|injection H as <- _; exact (failed_price_r_code _ _ _ EF)].
  destruct (calc_commission _ _); [|injection H as <- _; discriminate].
  destruct (payer_of t) as [p|c1] eqn:EP.
  - destruct (0 <? _); injection H as <- _; exact Hc.
  - injection H as <- _. rewrite (payer_of_code _ _ EP). discriminate.
Qed.

(* ---- C06: check mode and deliver mode agree ---------------------------------------------------- *)
Lemma check_iff_deliver s t : check s t = 0 <-> snd (deliver s t) = 0.
Proof.
  unfold check, deliver. destruct (gate s t) as [c|] eqn:EG; [cbn; tauto|].
  destruct (run s t) as [c|effs] eqn:ER.
  - pose proof (run_code_nonzero _ _ _ ER) as Hc.
    destruct (failed_branch s t c) as [c' effs'] eqn:EF. cbn [snd].
    pose proof (failed_branch_code _ _ _ _ _ EF Hc). tauto.
  - pose proof (symbol_branch_ok s t) as Hs. destruct (symbol_branch s t) as [c' effs']. cbn [fst snd] in *.
    subst c'. cbn. tauto.
Qed.

(* ---- C03: a rejected transaction changes nothing but the failure fee --------------------------- *)
Definition same_but_balances (s s' : st) : Prop :=
  s_nonce s' = s_nonce s /\ s_coins s' = s_coins s /\ s_symowner s' = s_symowner s /\ s_ncoins s' = s_ncoins s /\
  s_used s' = s_used s /\ s_msig s' = s_msig s /\ s_frozen s' = s_frozen s /\ s_height s' = s_height s /\
  s_prices s' = s_prices s /\ s_base_sym s' = s_base_sym s.

Lemma same_refl s : same_but_balances s s.
Proof. unfold same_but_balances. repeat split. Qed.

Lemma reject_frame s t s' c :
  deliver s t = (s', c) -> c <> 0 ->
  same_but_balances s s' /\
  exists payer fee,
    (fee <> 0 -> payer_of t = inl payer) /\
    (fee <> 0 -> exists com, calc_commission (t_gas_coin t) (failed_price (s_prices s) t) = Some com /\
                             0 < get_bal (s_bal s) payer (t_gas_coin t) /\ fee = Z.min (get_bal (s_bal s) payer (t_gas_coin t)) com) /\
    s_rpool s' = s_rpool s + fee /\
    forall a k, get_bal (s_bal s') a k = get_bal (s_bal s) a k - (if hit payer (t_gas_coin t) a k then fee else 0).
Proof.
  unfold deliver. destruct (gate s t) as [c0|] eqn:EG.
  - intros H _; injection H as <- <-. split; [apply same_refl|]. exists 0, 0.
    repeat split; try congruence; try lia. intros a k. destruct (hit _ _ _ _); lia.
  - destruct (run s t) as [c0|effs] eqn:ER.
    + destruct (failed_branch s t c0) as [c' effs'] eqn:EF. intros H _; injection H as <- <-.
      destruct (failed_branch_shape _ _ _ _ _ EF) as [->|(payer & com & EP & EC & Hb & _ & ->)].
      * split; [apply same_refl|]. exists 0, 0. repeat split; try congruence; try (cbn; lia).
        intros a k. cbn. destruct (hit _ _ _ _); lia.
      * split.
        { unfold same_but_balances. cbn. repeat split. }
        exists payer, (Z.min (get_bal (s_bal s) payer (t_gas_coin t)) com).
        split; [intros _; exact EP|]. split; [intros _; exists com; auto|].
        split; [cbn; lia|]. intros a k. rewrite apply_effs_bal. unfold bal_deltas. cbn [map bal_delta].
        rewrite !sumZ_cons. cbn [sum_Z fold_right]. destruct (hit _ _ _ _); lia.
    + pose proof (symbol_branch_ok s t) as Hs. destruct (symbol_branch s t) as [c' effs']. cbn [fst] in Hs. subst c'.
      intros H Hc; injection H as _ <-. contradiction.
Qed.

(* ---- C03 / C04: an accepted transaction had the next nonce and the right chain id, and advances
   exactly its sender's nonce by one ------------------------------------------------------------ *)
Lemma get_nonce_app_single l a n b : get_nonce ((a, n) :: l) b = if a =? b then n else get_nonce l b.
Proof. reflexivity. Qed.

Lemma symbol_effs_nonce s t : nonce_effs (snd (symbol_branch s t)) = [].
Proof. destruct (symbol_branch_effs s t) as (sp & _ & [[-> _]| ->]); reflexivity. Qed.

Lemma accept_nonce s t s' :
  deliver s t = (s', 0) ->
  t_chain_ok t = true /\ t_nonce t = get_nonce (s_nonce s) (sender_of t) + 1 /\
  get_nonce (s_nonce s') (sender_of t) = get_nonce (s_nonce s) (sender_of t) + 1 /\
  forall a, a <> sender_of t -> get_nonce (s_nonce s') a = get_nonce (s_nonce s) a.
Proof.
  unfold deliver. destruct (gate s t) as [c0|] eqn:EG.
  - intros H; injection H as _ Hc. exfalso. exact (gate_code _ _ _ EG Hc).
  - destruct (gate_pass _ _ EG) as (Hch & _ & _ & _ & _ & Hn & _).
    destruct (run s t) as [c0|effs] eqn:ER.
    + destruct (failed_branch s t c0) as [c' effs'] eqn:EF. intros H; injection H as _ Hc. exfalso.
      exact (failed_branch_code _ _ _ _ _ EF (run_code_nonzero _ _ _ ER) Hc).
    + pose proof (symbol_effs_nonce s t) as Hsn. destruct (symbol_branch s t) as [c' effs'] eqn:ES. cbn [snd] in Hsn.
      intros H; injection H as <- _.
      rewrite !apply_effs_nonce, Hsn, (run_nonce _ _ _ ER). cbn [rev app].
      split; [exact Hch|]. split; [exact Hn|]. split.
      * rewrite get_nonce_app_single, Z.eqb_refl. lia.
      * intros a Ha. rewrite get_nonce_app_single. destruct (Z.eqb_spec (sender_of t) a); [congruence|reflexivity].
Qed.

(* nonces never decrease, whatever happens *)
Lemma begin_block_nonce s h : s_nonce (begin_block s h) = s_nonce s.
Proof.
  unfold begin_block. rewrite apply_effs_nonce.
  assert (E : forall l : list (Z * Z * Z * Z), nonce_effs (map (fun f : Z * Z * Z * Z => let '(_, a, c, v) := f in EBal a c v) l) = []).
  { induction l as [|[[[d a] c] v] r IH]; [reflexivity|]. cbn [map]. unfold nonce_effs in *. cbn [flat_map]. exact IH. }
  rewrite E. reflexivity.
Qed.

Lemma step_nonce_mono s o a : get_nonce (s_nonce s) a <= get_nonce (s_nonce (step s o)) a.
Proof.
  destruct o as [t|h|]; cbn [step].
  - destruct (deliver s t) as [s' c] eqn:ED. cbn [fst]. destruct (Z.eq_dec c 0) as [->|Hc].
    + destruct (accept_nonce _ _ _ ED) as (_ & _ & H1 & H2).
      destruct (Z.eq_dec a (sender_of t)) as [->|Hne]; [lia|rewrite (H2 a Hne); lia].
    + destruct (reject_frame _ _ _ _ ED Hc) as ((E & _) & _). rewrite E. lia.
  - rewrite begin_block_nonce. lia.
  - cbn. lia.
Qed.

Lemma run_ops_nonce_mono ops : forall s a, get_nonce (s_nonce s) a <= get_nonce (s_nonce (run_ops s ops)) a.
Proof.
  induction ops as [|o ops IH]; intros s a; [cbn; lia|].
  unfold run_ops. cbn [fold_left]. fold (run_ops (step s o) ops).
  pose proof (step_nonce_mono s o a). pose proof (IH (step s o) a). lia.
Qed.

(* C04 / C26: once accepted, the same transaction (and any transaction of that sender with a nonce
   not above it) is rejected by the gate at every later point of any history, at no cost *)
Lemma stale_rejected s t : t_nonce t <= get_nonce (s_nonce s) (sender_of t) ->
  exists c, c <> 0 /\ deliver s t = (s, c) /\ check s t = c.
Proof.
  intros Hn. unfold deliver, check.
  destruct (gate s t) as [c|] eqn:EG.
  - exists c. split; [exact (gate_code _ _ _ EG)|]. split; reflexivity.
  - exfalso. destruct (gate_pass _ _ EG) as (_ & _ & _ & _ & _ & E & _). lia.
Qed.

Lemma no_replay s t s1 ops t' :
  deliver s t = (s1, 0) -> sender_of t' = sender_of t -> t_nonce t' <= t_nonce t ->
  let s2 := run_ops s1 ops in exists c, c <> 0 /\ deliver s2 t' = (s2, c).
Proof.
  intros HD Hs Hn s2. destruct (accept_nonce _ _ _ HD) as (_ & E1 & E2 & _).
  pose proof (run_ops_nonce_mono ops s1 (sender_of t)) as Hm. fold s2 in Hm.
  destruct (stale_rejected s2 t') as (c & Hc & HD' & _); [rewrite Hs; lia|].
  exists c. split; assumption.
Qed.

(* ---- C05: a balance only decreases for the sender (single signature, or a multisig account whose
   signature gate passed) or for the issuer of the redeemed check -------------------------------- *)
Lemma symbol_effs_bal s t a k : 0 <= bal_deltas (snd (symbol_branch s t)) a k.
Proof.
  destruct (symbol_branch_effs s t) as (sp & Hsp & [[-> _]| ->]); unfold bal_deltas; cbn [map bal_delta]; sums;
    cbn [sum_Z fold_right]; [lia|]. destruct (hit _ _ _ _); lia.
Qed.

Lemma debit_authorized s t s' c a k :
  deliver s t = (s', c) -> wf_data (t_data t) -> 0 <= failed_price (s_prices s) t ->
  get_bal (s_bal s') a k < get_bal (s_bal s) a k ->
  msig_gate s t = None /\ (a = sender_of t \/ issuer_of t = Some a).
Proof.
  intros HD Hwf Hfp Hlt. destruct (Z.eq_dec c 0) as [->|Hc].
  - revert HD. unfold deliver. destruct (gate s t) as [c0|] eqn:EG.
    { intros H; injection H as _ Hc. exfalso. exact (gate_code _ _ _ EG Hc). }
    destruct (gate_pass _ _ EG) as (_ & _ & _ & _ & Hm & _ & Hp).
    destruct (run s t) as [c0|effs] eqn:ER.
    + destruct (failed_branch s t c0) as [c' effs'] eqn:EF. intros H; injection H as <- _.
      split; [exact Hm|].
      destruct (failed_branch_shape _ _ _ _ _ EF) as [->|(payer & com & EP & EC & Hb & _ & ->)]; [cbn in Hlt; lia|].
      rewrite apply_effs_bal in Hlt. unfold bal_deltas in Hlt. cbn [map bal_delta] in Hlt. revert Hlt. sums. cbn [sum_Z fold_right].
      destruct (hit payer (t_gas_coin t) a k) eqn:Eh; [|lia]. apply hit_true in Eh. destruct Eh as [<- _]. intros _.
      unfold payer_of in EP. unfold issuer_of. destruct (t_data t); try (injection EP as <-; left; reflexivity).
      destruct (negb decodable); [discriminate|]. destruct (negb issuer_ok); [discriminate|]. injection EP as <-. right; reflexivity.
    + pose proof (symbol_effs_bal s t a k) as Hsb. destruct (symbol_branch s t) as [c' effs']. cbn [snd] in Hsb.
      intros H; injection H as <- _. split; [exact Hm|].
      rewrite !apply_effs_bal in Hlt. apply (run_debits _ _ _ a k ER Hwf Hp). lia.
  - destruct (reject_frame _ _ _ _ HD Hc) as (_ & payer & fee & HP & HF & _ & HB).
    rewrite HB in Hlt. destruct (hit payer (t_gas_coin t) a k) eqn:Eh; [|lia].
    apply hit_true in Eh. destruct Eh as [<- _]. assert (Hfee : fee <> 0) by lia.
    specialize (HP Hfee).
    (* a fee was charged: the gate let the transaction through *)
    revert HD. unfold deliver. destruct (gate s t) as [c0|] eqn:EG.
    { intros H; injection H as <- _. specialize (HB payer (t_gas_coin t)). unfold hit in HB. rewrite !Z.eqb_refl in HB. cbn [andb] in HB. lia. }
    destruct (gate_pass _ _ EG) as (_ & _ & _ & _ & Hm & _). intros _. split; [exact Hm|].
    unfold payer_of in HP. unfold issuer_of. destruct (t_data t); try (injection HP as <-; left; reflexivity).
    destruct (negb decodable); [discriminate|]. destruct (negb issuer_ok); [discriminate|]. injection HP as <-. right; reflexivity.
Qed.

