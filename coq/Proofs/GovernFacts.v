From Minter Require Import Base Govern.
From Coq Require Import ZArith Lia List Bool.
Import ListNotations.
Open Scope Z_scope.

Lemma more_than_two_thirds_spec voted total :
  more_than_two_thirds voted total = true <-> 3 * voted > 2 * total.
Proof. unfold more_than_two_thirds. rewrite Z.ltb_lt. lia. Qed.

(* nth proposal, 1-based *)
Definition prop_at (props : list Z) (i : Z) : option Z :=
  if i <=? 0 then None else nth_error props (Z.to_nat (i - 1)).

Lemma leader_from_spec : forall props idx bi bv i v,
  0 <= idx -> (forall x, In x props -> 0 <= x) -> 0 <= bv ->
  leader_from idx props (bi, bv) = (i, v) ->
  (* the result is at least every candidate and the incoming best *)
  bv <= v /\ (forall x, In x props -> x <= v) /\
  (* it is either the incoming best or one of the proposals, at its index *)
  ((i = bi /\ v = bv) \/ (idx <= i /\ nth_error props (Z.to_nat (i - idx)) = Some v)).
Proof.
  induction props as [|p rest IH]; intros idx bi bv i v Hidx Hpos Hbv; cbn [leader_from].
  - intros HH; injection HH as <- <-. split; [lia|]. split; [intros x []|]. left; auto.
  - intros HH. cbn [snd] in HH.
    destruct (Z.ltb_spec bv p) as [Hlt|Hge].
    + destruct (IH (idx + 1) idx p i v ltac:(lia) (fun x Hx => Hpos x (or_intror Hx)) ltac:(lia) HH) as (A & B & C).
      split; [lia|]. split.
      * intros x [<-|Hx]; [lia|auto].
      * right. destruct C as [[-> ->]|[C1 C2]].
        -- split; [lia|]. replace (idx - idx) with 0 by lia. reflexivity.
        -- split; [lia|]. replace (Z.to_nat (i - idx)) with (S (Z.to_nat (i - (idx + 1)))) by lia. exact C2.
    + destruct (IH (idx + 1) bi bv i v ltac:(lia) (fun x Hx => Hpos x (or_intror Hx)) Hbv HH) as (A & B & C).
      split; [lia|]. split.
      * intros x [<-|Hx]; [lia|auto].
      * destruct C as [C|[C1 C2]]; [left; exact C|right].
        split; [lia|]. replace (Z.to_nat (i - idx)) with (S (Z.to_nat (i - (idx + 1)))) by lia. exact C2.
Qed.

Lemma sum_ge_two : forall (props : list Z) (a b : nat) x y,
  (forall z, In z props -> 0 <= z) -> a <> b ->
  nth_error props a = Some x -> nth_error props b = Some y -> x + y <= sum_Z props.
Proof.
  induction props as [|p rest IH]; intros a b x y Hpos Hab Ha Hb; [destruct a; discriminate|].
  assert (Hrest : forall z, In z rest -> 0 <= z) by (intros z Hz; apply Hpos; right; exact Hz).
  assert (Hsum : forall n z, nth_error rest n = Some z -> z <= sum_Z rest).
  { clear - Hrest. induction rest as [|q r IHr]; intros n z Hn; [destruct n; discriminate|].
    cbn [sum_Z fold_right]. fold (sum_Z r).
    assert (0 <= sum_Z r).
    { clear - Hrest. induction r as [|w r IH]; cbn; [lia|]. fold (sum_Z r).
      assert (0 <= w) by (apply Hrest; right; left; reflexivity).
      assert (0 <= sum_Z r) by (apply IH; intros z [<-|Hz]; apply Hrest; [left; reflexivity|right; right; exact Hz]). lia. }
    assert (0 <= q) by (apply Hrest; left; reflexivity).
    destruct n as [|n]; cbn in Hn.
    - injection Hn as <-. lia.
    - assert (z <= sum_Z r) by (eapply IHr; [intros w Hw; apply Hrest; right; exact Hw|exact Hn]). lia. }
  assert (0 <= p) by (apply Hpos; left; reflexivity).
  cbn [sum_Z fold_right]. fold (sum_Z rest).
  destruct a as [|a], b as [|b]; cbn in Ha, Hb; try congruence.
  - injection Ha as <-. pose proof (Hsum b y Hb). lia.
  - injection Hb as <-. pose proof (Hsum a x Ha). lia.
  - assert (x + y <= sum_Z rest).
    { apply (IH a b x y Hrest); [intro E; apply Hab; f_equal; exact E|exact Ha|exact Hb]. }
    lia.
Qed.

(* the decision: accepted index k  <->  proposal k holds strictly more than 2/3; given that
   every validator votes for at most one proposal (sum of supports <= total) *)
Lemma decide_spec total props :
  0 < total -> (forall x, In x props -> 0 <= x) -> sum_Z props <= total ->
  forall k, 0 < k ->
  (decide total props = k <-> exists v, prop_at props k = Some v /\ 3 * v > 2 * total).
Proof.
  intros Ht Hpos Hsum k Hk. unfold decide, leader.
  destruct (leader_from 1 props (0, 0)) as [i v] eqn:E.
  destruct (leader_from_spec props 1 0 0 i v ltac:(lia) Hpos ltac:(lia) E) as (A & B & C).
  split.
  - destruct (more_than_two_thirds v total) eqn:M; [|lia].
    intros <-. apply more_than_two_thirds_spec in M.
    destruct C as [[-> ->]|[C1 C2]]; [lia|].
    exists v. split; [|exact M]. unfold prop_at. destruct (Z.leb_spec i 0); [lia|exact C2].
  - intros (w & Hw & Hgt). unfold prop_at in Hw. destruct (Z.leb_spec k 0); [lia|].
    assert (Hin : In w props) by (eapply nth_error_In; exact Hw).
    pose proof (B w Hin) as Hle.
    assert (M : more_than_two_thirds v total = true) by (apply more_than_two_thirds_spec; lia).
    rewrite M.
    destruct C as [[-> ->]|[C1 C2]]; [lia|].
    (* two different indices with > 2/3 each would exceed the total *)
    destruct (Z.eq_dec i k) as [|Hne]; [assumption|exfalso].
    assert (Z.to_nat (i - 1) <> Z.to_nat (k - 1)) by lia.
    pose proof (sum_ge_two props _ _ v w Hpos H0 C2 Hw). lia.
Qed.
