(* FeeRouteFacts.v — the commission in a custom coin is the cheaper of the two routes. *)
From Minter Require Import FeeRoute.
From Coq Require Import ZArith List Bool Lia.
Open Scope Z_scope.

Lemma choose_min r p a rt : choose_route (Some r) (Some p) = Some (a, rt) ->
  a = Z.min r p /\ (rt = RBancor <-> r < p).
Proof.
  cbn [choose_route]. destruct (Z.ltb_spec r p) as [Hlt|Hge]; intros H; injection H as <- <-.
  - split; [lia|]. split; intros _; [exact Hlt|reflexivity].
  - split; [lia|]. split; intros X; [discriminate X|lia].
Qed.

Lemma choose_le r p a rt : choose_route (Some r) (Some p) = Some (a, rt) -> a <= r /\ a <= p.
Proof. intros H. destruct (choose_min _ _ _ _ H) as [-> _]. lia. Qed.

Lemma choose_only_pool p : choose_route None (Some p) = Some (p, RPool).
Proof. reflexivity. Qed.

Lemma choose_only_reserve r : choose_route (Some r) None = Some (r, RBancor).
Proof. reflexivity. Qed.

Lemma choose_none rq pq : choose_route rq pq = None <-> rq = None /\ pq = None.
Proof.
  destruct rq as [r|], pq as [p|]; cbn [choose_route]; try (destruct (r <? p)); split; intros H;
    try discriminate; try (destruct H; discriminate); auto.
Qed.

(* the route taken is one of the available quotes *)
Lemma choose_is_a_quote rq pq a rt : choose_route rq pq = Some (a, rt) ->
  (rt = RBancor /\ rq = Some a) \/ (rt = RPool /\ pq = Some a).
Proof.
  destruct rq as [r|], pq as [p|]; cbn [choose_route]; try (destruct (r <? p)); intros H; try discriminate;
    injection H as <- <-; auto.
Qed.
