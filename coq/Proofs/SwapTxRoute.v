(* SwapTxRoute.v — check phase versus deliver phase of the pool routes of Model/SwapTx.v.

   The check phase evaluates every hop on the reserves as they are before the transaction (with the
   commission swap simulated on the commission pool); the deliver phase evaluates every hop on the
   reserves as they are when the hop is reached.  [inv] relates the two: every pool that the route
   has not visited yet holds, in the deliver world, exactly the reserves the check phase assumes
   for it.  The amount computed by the deliver phase at every hop is then the simulated one. *)
From Minter Require Import Base Consts Pool PoolFacts SwapTx SwapTxFacts.
From Coq Require Import ZArith List Bool Lia.
Import ListNotations.
Open Scope Z_scope.

Ltac in_solve := repeat (progress (cbn [In app]) || rewrite in_app_iff); auto 12.

Definition wf_pools (w : world) : Prop := forall a b r, get_pool w a b = Some r -> 0 < fst r /\ 0 < snd r.

(* deliver reserves rd against simulated reserves rs, both in the orientation of the hop *)
Definition conservative (rs rd : Z * Z) : Prop :=
  0 < fst rd /\ fst rd = fst rs /\ snd rd = snd rs /\ 0 < snd rd.

Lemma lastc_cons c r d : r <> [] -> lastc d (c :: r) = lastc c r.
Proof. reflexivity. Qed.

Section Route.
Variables (w0 : world) (gas commission : Z) (is_pool : bool) (sender : Z).

Definition inv (w : world) (seen : list (Z * Z)) : Prop :=
  forall a b r r', existsb (keq (pkey a b)) seen = false -> get_pool w0 a b = Some r ->
    sim_reserves w0 gas commission is_pool a b r = Ok r' ->
    exists rd, get_pool w a b = Some rd /\ conservative r' rd.

Lemma inv_step w seen a b l :
  inv w seen ->
  (forall e, In e l -> no_pool_eff e = false -> touches (pkey a b) e = true) ->
  inv (apply_effs w l) (pkey a b :: seen).
Proof.
  intros HI Hl x y r r' Hseen Hg Hs. cbn [existsb] in Hseen. apply orb_false_elim in Hseen. destruct Hseen as [Hk Hseen].
  destruct (HI x y r r' Hseen Hg Hs) as (rd & Hrd & Hc). exists rd. split; [|exact Hc].
  rewrite apply_effs_pool_other; [exact Hrd|].
  apply forallb_forall. intros e He. destruct (no_pool_eff e) eqn:En.
  - destruct e; cbn in *; try reflexivity. discriminate.
  - pose proof (Hl e He En) as Ht. destruct e as [| p q d0 d1 | | |]; cbn in En; try discriminate.
    cbn [touches] in *. apply keq_eq in Ht. rewrite Ht. rewrite keq_sym, Hk. reflexivity.
Qed.

(* ---- the sell direction ---------------------------------------------------------------------------------- *)
Lemma sell_hop_effs_ok cin cout d0 out vin (first : bool) (rest' : list Z) e :
  In e ([EPool cin cout d0 (- out); EBal burn_address cin (com1000 vin)]
        ++ (if first then [EBal sender cin (- vin)] else [])
        ++ (match rest' with [] => [EBal sender cout out] | _ => [] end)) ->
  no_pool_eff e = false -> touches (pkey cin cout) e = true.
Proof.
  intros HIn Hn. cbn [app] in HIn. destruct HIn as [<-|[<-|HIn]]; [cbn; apply keq_refl|discriminate|].
  apply in_app_or in HIn. destruct HIn as [HIn|HIn].
  - destruct first; [|contradiction]. destruct HIn as [<-|[]]. discriminate.
  - destruct rest'; [|contradiction]. destruct HIn as [<-|[]]. discriminate.
Qed.

Lemma sell_route_sound vmin : forall rest w seen cin vs vd first s effs d,
  inv w seen -> 0 <= vs -> vs = vd ->
  sell_route_check w0 gas commission is_pool seen cin vs rest vmin = Ok s ->
  sell_route_deliver w sender cin vd rest first = Val (effs, d) ->
  s = d /\ (rest <> [] -> vmin <= s).
Proof.
  induction rest as [|cout rest' IH]; intros w seen cin vs vd first s effs d HI Hvs Hle HC HD.
  - cbn in HC, HD. injection HC as <-. injection HD as _ <-. split; [lia|congruence].
  - cbn [sell_route_check] in HC. cbn [sell_route_deliver] in HD.
    destruct (get_pool w0 cin cout) as [r|] eqn:Eg0; [|discriminate].
    destruct (existsb (keq (pkey cin cout)) seen) eqn:Eseen; [discriminate|].
    destruct (sim_reserves w0 gas commission is_pool cin cout r) as [r'| |] eqn:Esim; try discriminate.
    destruct (check_swap_sell (fst r') (snd r') vs (match rest' with [] => vmin | _ :: _ => 0 end)) as [o| |] eqn:Ecs; try discriminate.
    destruct (Z.ltb_spec 0 o) as [Ho|]; cbn [negb] in HC; [|discriminate].
    destruct (HI cin cout r r' Eseen Eg0 Esim) as (rd & Hrd & Hc0 & Hc1 & Hc2 & Hc3).
    rewrite Hrd in HD. destruct rd as [r0 r1]. cbn [fst snd] in *.
    destruct (sell_wo r0 r1 vd 0) as [[d0 out]| |] eqn:Esw; try discriminate.
    set (hop := [EPool cin cout d0 (- out); EBal burn_address cin (com1000 vd)]
                ++ (if first then [EBal sender cin (- vd)] else [])
                ++ (match rest' with [] => [EBal sender cout out] | _ => [] end)) in *.
    destruct (sell_route_deliver (apply_effs w hop) sender cout out rest' false) as [[effs' res]| |] eqn:Erec; try discriminate.
    injection HD as _ <-.
    (* the simulated amount o and the delivered amount out *)
    assert (Hr'0 : 0 < fst r') by lia. assert (Hr'1 : 0 < snd r') by lia.
    unfold check_swap_sell in Ecs. rewrite bfs_wo_fun in Ecs by lia.
    destruct (bfs_fun (fst r') (snd r') (sub1000 vs) <? (if (match rest' with [] => vmin | _ :: _ => 0 end) =? 0 then 1 else (match rest' with [] => vmin | _ :: _ => 0 end))) eqn:Em; [discriminate|].
    injection Ecs as <-. apply Z.ltb_ge in Em.
    unfold sell_wo in Esw.
    destruct (Z.ltb_spec 0 vd) as [Hvd|]; cbn [negb] in Esw; [|discriminate].
    destruct (Z.ltb_spec 0 (vd - com1000 vd)) as [Hvd'|]; cbn [negb] in Esw; [|discriminate].
    rewrite bfs_core_fun in Esw by lia.
    destruct (Z.ltb_spec 0 (bfs_fun r0 r1 (vd - com1000 vd))); cbn [negb] in Esw; [|discriminate].
    destruct (bfs_fun r0 r1 (vd - com1000 vd) <? 0); [discriminate|]. injection Esw as <- <-.
    assert (Hmono : bfs_fun (fst r') (snd r') (sub1000 vs) = bfs_fun r0 r1 (vd - com1000 vd)).
    { rewrite <- (sub1000_pos vd Hvd), Hc2, Hc1, Hle. reflexivity. }
    assert (HI' : inv (apply_effs w hop) (pkey cin cout :: seen)).
    { apply inv_step; [exact HI|]. intros e He. eapply sell_hop_effs_ok; exact He. }
    destruct (IH _ _ _ _ _ _ _ _ _ HI' (Z.lt_le_incl _ _ Ho) Hmono HC Erec) as [IH1 IH2].
    split; [exact IH1|]. intros _.
    destruct rest' as [|c2 rest2].
    + cbn in HC. injection HC as <-. destruct (Z.eqb_spec vmin 0); lia.
    + apply IH2. discriminate.
Qed.

(* what the deliver phase of a sell route does to the sender's balances *)
Lemma sell_route_bal : forall rest w cin vd first effs d, sender <> burn_address -> rest <> [] ->
  sell_route_deliver w sender cin vd rest first = Val (effs, d) ->
  In (EBal sender (lastc cin rest) d) effs /\
  (first = true -> In (EBal sender cin (- vd)) effs) /\
  forall c, bal_deltas effs sender c =
            (if first && (cin =? c) then - vd else 0) + (if lastc cin rest =? c then d else 0).
Proof.
  induction rest as [|cout rest' IH]; intros w cin vd first effs d Hsb Hne HD; [congruence|].
  cbn [sell_route_deliver] in HD.
  destruct (get_pool w cin cout) as [[r0 r1]|]; [|discriminate].
  destruct (sell_wo r0 r1 vd 0) as [[d0 out]| |]; try discriminate.
  set (hop := [EPool cin cout d0 (- out); EBal burn_address cin (com1000 vd)]
              ++ (if first then [EBal sender cin (- vd)] else [])
              ++ (match rest' with [] => [EBal sender cout out] | _ => [] end)) in *.
  destruct (sell_route_deliver (apply_effs w hop) sender cout out rest' false) as [[effs' res]| |] eqn:Erec; try discriminate.
  injection HD as <- <-.
  assert (Hburn : forall c, hit burn_address cin sender c = false).
  { intros c. unfold hit. destruct (Z.eqb_spec burn_address sender); [congruence|reflexivity]. }
  assert (Hself : forall c c', hit sender c sender c' = (c =? c')).
  { intros. unfold hit. rewrite Z.eqb_refl. reflexivity. }
  destruct rest' as [|c2 rest2].
  - cbn in Erec. injection Erec as <- <-. rewrite app_nil_r. cbn [lastc]. unfold hop.
    split; [in_solve|].
    split; [intros ->; in_solve|].
    intros c. repeat (rewrite bal_deltas_cons || rewrite bal_deltas_app). cbn [bal_delta]. rewrite Hburn.
    destruct first; unfold bal_deltas; cbn [map bal_delta sum_Z fold_right andb]; rewrite ?Hself; destruct (cin =? c), (cout =? c); lia.
  - destruct (IH _ _ _ _ _ _ Hsb ltac:(discriminate) Erec) as (I1 & _ & I3).
    rewrite lastc_cons by discriminate.
    split; [in_solve|].
    split; [intros ->; unfold hop; in_solve|].
    intros c. try unfold hop. repeat (rewrite bal_deltas_cons || rewrite bal_deltas_app). rewrite I3. cbn [bal_delta]. rewrite Hburn.
    destruct first; unfold bal_deltas; cbn [map bal_delta sum_Z fold_right andb]; rewrite ?Hself; destruct (cin =? c); lia.
Qed.

Lemma sell_route_first_pos w cin vd cout rest' first effs d :
  sell_route_deliver w sender cin vd (cout :: rest') first = Val (effs, d) -> 0 < vd.
Proof.
  cbn [sell_route_deliver]. destruct (get_pool w cin cout) as [[r0 r1]|]; [|discriminate].
  unfold sell_wo. destruct (Z.ltb_spec 0 vd); [lia|discriminate].
Qed.

(* ---- the buy direction ------------------------------------------------------------------------------------ *)
Lemma buy_hop_effs_ok csell cbuy d0 vbuy ain (first : bool) (rest' : list Z) e :
  In e ([EPool csell cbuy d0 (- vbuy); EBal burn_address csell (com1000 ain)]
        ++ (if first then [EBal sender cbuy vbuy] else [])
        ++ (match rest' with [] => [EBal sender csell (- ain)] | _ => [] end)) ->
  no_pool_eff e = false -> touches (pkey csell cbuy) e = true.
Proof.
  intros HIn Hn. cbn [app] in HIn. destruct HIn as [<-|[<-|HIn]]; [cbn; apply keq_refl|discriminate|].
  apply in_app_or in HIn. destruct HIn as [HIn|HIn].
  - destruct first; [|contradiction]. destruct HIn as [<-|[]]. discriminate.
  - destruct rest'; [|contradiction]. destruct HIn as [<-|[]]. discriminate.
Qed.

Lemma buy_route_sound vmax : forall rest w seen cbuy vs vd first s effs d,
  inv w seen -> 0 <= vd -> vd = vs ->
  buy_route_check w0 gas commission is_pool seen cbuy vs rest vmax = Ok s ->
  buy_route_deliver w sender cbuy vd rest first = Val (effs, d) ->
  d = s /\ (rest <> [] -> s <= vmax).
Proof.
  induction rest as [|csell rest' IH]; intros w seen cbuy vs vd first s effs d HI Hvd Hle HC HD.
  - cbn in HC, HD. injection HC as <-. injection HD as _ <-. split; [lia|congruence].
  - cbn [buy_route_check] in HC. cbn [buy_route_deliver] in HD.
    destruct (get_pool w0 csell cbuy) as [r|] eqn:Eg0; [|discriminate].
    destruct (existsb (keq (pkey csell cbuy)) seen) eqn:Eseen; [discriminate|].
    destruct (sim_reserves w0 gas commission is_pool csell cbuy r) as [r'| |] eqn:Esim; try discriminate.
    destruct (check_swap_buy (fst r') (snd r') (match rest' with [] => vmax | _ :: _ => max_coin_supply end) vs) as [i| |] eqn:Ecs; try discriminate.
    destruct (Z.ltb_spec 0 i) as [Hi|]; cbn [negb] in HC; [|discriminate].
    destruct (HI csell cbuy r r' Eseen Eg0 Esim) as (rd & Hrd & Hc0 & Hc1 & Hc2 & Hc3).
    rewrite Hrd in HD. destruct rd as [r0 r1]. cbn [fst snd] in *.
    destruct (buy_wo r0 r1 max_coin_supply vd) as [[d0 ain]| |] eqn:Ebw; try discriminate.
    set (hop := [EPool csell cbuy d0 (- vd); EBal burn_address csell (com1000 ain)]
                ++ (if first then [EBal sender cbuy vd] else [])
                ++ (match rest' with [] => [EBal sender csell (- ain)] | _ => [] end)) in *.
    destruct (buy_route_deliver (apply_effs w hop) sender csell ain rest' false) as [[effs' res]| |] eqn:Erec; try discriminate.
    injection HD as _ <-.
    assert (Hr'0 : 0 < fst r') by lia. assert (Hr'1 : 0 < snd r') by lia.
    unfold buy_wo in Ebw.
    destruct (Z.ltb_spec 0 vd) as [Hvd0|]; cbn [negb] in Ebw; [|discriminate].
    unfold check_swap_buy in Ecs. rewrite sfb_wo_fun in Ecs by lia.
    destruct (Z.ltb_spec vs (snd r')) as [Hvs|]; [|discriminate].
    destruct (Z.ltb_spec (match rest' with [] => vmax | _ :: _ => max_coin_supply end) (add0999 (sfb_fun (fst r') (snd r') vs))) as [|Hm]; [discriminate|].
    injection Ecs as <-.
    rewrite sfb_core_fun in Ebw by lia.
    destruct (Z.ltb_spec vd r1); [|lia].
    destruct (Z.ltb_spec 0 (sfb_fun r0 r1 vd)) as [Hd0|]; cbn [negb] in Ebw; [|discriminate].
    destruct (max_coin_supply <? vd); [discriminate|]. injection Ebw as <- <-.
    assert (Hmono : sfb_fun r0 r1 vd + com0999 (sfb_fun r0 r1 vd) = add0999 (sfb_fun (fst r') (snd r') vs)).
    { replace (sfb_fun r0 r1 vd + com0999 (sfb_fun r0 r1 vd)) with (add0999 (sfb_fun r0 r1 vd))
        by (unfold add0999; destruct (Z.ltb_spec 0 (sfb_fun r0 r1 vd)); [reflexivity|lia]).
      rewrite Hc2, Hc1, Hle. reflexivity. }
    assert (HI' : inv (apply_effs w hop) (pkey csell cbuy :: seen)).
    { apply inv_step; [exact HI|]. intros e He. eapply buy_hop_effs_ok; exact He. }
    assert (Hain : 0 <= sfb_fun r0 r1 vd + com0999 (sfb_fun r0 r1 vd)).
    { rewrite com0999_eq by lia. Z.div_mod_to_equations. lia. }
    destruct (IH _ _ _ _ _ _ _ _ _ HI' Hain Hmono HC Erec) as [IH1 IH2].
    split; [exact IH1|]. intros _.
    destruct rest' as [|c2 rest2].
    + cbn in HC. injection HC as <-. lia.
    + apply IH2. discriminate.
Qed.

Lemma buy_route_bal : forall rest w cbuy vd first effs d, sender <> burn_address -> rest <> [] ->
  buy_route_deliver w sender cbuy vd rest first = Val (effs, d) ->
  In (EBal sender (lastc cbuy rest) (- d)) effs /\
  (first = true -> In (EBal sender cbuy vd) effs) /\
  forall c, bal_deltas effs sender c =
            (if first && (cbuy =? c) then vd else 0) - (if lastc cbuy rest =? c then d else 0).
Proof.
  induction rest as [|csell rest' IH]; intros w cbuy vd first effs d Hsb Hne HD; [congruence|].
  cbn [buy_route_deliver] in HD.
  destruct (get_pool w csell cbuy) as [[r0 r1]|]; [|discriminate].
  destruct (buy_wo r0 r1 max_coin_supply vd) as [[d0 ain]| |]; try discriminate.
  set (hop := [EPool csell cbuy d0 (- vd); EBal burn_address csell (com1000 ain)]
              ++ (if first then [EBal sender cbuy vd] else [])
              ++ (match rest' with [] => [EBal sender csell (- ain)] | _ => [] end)) in *.
  destruct (buy_route_deliver (apply_effs w hop) sender csell ain rest' false) as [[effs' res]| |] eqn:Erec; try discriminate.
  injection HD as <- <-.
  assert (Hburn : forall c, hit burn_address csell sender c = false).
  { intros c. unfold hit. destruct (Z.eqb_spec burn_address sender); [congruence|reflexivity]. }
  assert (Hself : forall c c', hit sender c sender c' = (c =? c')).
  { intros. unfold hit. rewrite Z.eqb_refl. reflexivity. }
  destruct rest' as [|c2 rest2].
  - cbn in Erec. injection Erec as <- <-. rewrite app_nil_r. cbn [lastc]. unfold hop.
    split; [in_solve|].
    split; [intros ->; in_solve|].
    intros c. repeat (rewrite bal_deltas_cons || rewrite bal_deltas_app). cbn [bal_delta]. rewrite Hburn.
    destruct first; unfold bal_deltas; cbn [map bal_delta sum_Z fold_right andb]; rewrite ?Hself; destruct (cbuy =? c), (csell =? c); lia.
  - destruct (IH _ _ _ _ _ _ Hsb ltac:(discriminate) Erec) as (I1 & _ & I3).
    rewrite lastc_cons by discriminate.
    split; [in_solve|].
    split; [intros ->; unfold hop; in_solve|].
    intros c. try unfold hop. repeat (rewrite bal_deltas_cons || rewrite bal_deltas_app). rewrite I3. cbn [bal_delta]. rewrite Hburn.
    destruct first; unfold bal_deltas; cbn [map bal_delta sum_Z fold_right andb]; rewrite ?Hself; destruct (cbuy =? c); lia.
Qed.

Lemma buy_route_first_pos w cbuy vd csell rest' first effs d :
  buy_route_deliver w sender cbuy vd (csell :: rest') first = Val (effs, d) -> 0 < vd.
Proof.
  cbn [buy_route_deliver]. destruct (get_pool w csell cbuy) as [[r0 r1]|]; [|discriminate].
  unfold buy_wo. destruct (Z.ltb_spec 0 vd); [lia|discriminate].
Qed.

End Route.
