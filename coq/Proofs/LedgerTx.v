(* LedgerTx.v — what Run produces for each transaction type (case analysis over Model/Ledger.run). *)
From Minter Require Import Base Ledger LedgerFacts.
From Coq Require Import ZArith List Bool Lia.
Import ListNotations.
Open Scope Z_scope.

(* destructs the outermost test of H : <tests> = inr effs until the effect list is reached *)
Ltac run_step H :=
  lazymatch type of H with
  | inl _ = inr _ => discriminate H
  | inr _ = inr _ => injection H as H
  | (if ?b then _ else _) = inr _ => let E := fresh "E" in destruct b eqn:E
  | (match ?x with _ => _ end) = inr _ => let E := fresh "E" in destruct x eqn:E
  end.
Ltac run_inv H := unfold run in H; cbv beta zeta in H; repeat run_step H.

Lemma flat_map_nonce_items (sender : Z) (items : list (Z * Z * Z)) :
  flat_map (fun e => match e with ENonce a n => [(a, n)] | _ => [] end)
           (flat_map (fun it : Z * Z * Z => let '(c, to, v) := it in [EBal sender c (- v); EBal to c v]) items) = [].
Proof. induction items as [|[[c to] v] r IH]; [reflexivity|]. cbn [flat_map]. rewrite flat_map_app, IH. reflexivity. Qed.

(* an accepted transaction sets exactly one nonce: its sender's, to the transaction's nonce *)
Lemma run_nonce s t effs : run s t = inr effs -> nonce_effs effs = [(sender_of t, t_nonce t)].
Proof.
  intros H. run_inv H; subst effs; unfold fee_effs, nonce_effs; cbn [flat_map app];
    rewrite ?flat_map_app, ?flat_map_nonce_items; reflexivity.
Qed.

(* normalises sum_Z (map f (x :: l ++ l')) *)
Ltac sums := repeat first [rewrite sumZ_cons | rewrite sumZ_app | rewrite map_app | progress cbn [map app]].

(* ---- the fee: an accepted transaction adds exactly its commission to the reward pool ----------- *)
Lemma flat_map_rpool_items (sender : Z) (items : list (Z * Z * Z)) :
  sum_Z (map rpool_delta (flat_map (fun it : Z * Z * Z => let '(c, to, v) := it in [EBal sender c (- v); EBal to c v]) items)) = 0.
Proof. induction items as [|[[c to] v] r IH]; [reflexivity|]. cbn [flat_map]. rewrite map_app, sumZ_app, IH. cbn. lia. Qed.

Lemma run_rpool s t effs : run s t = inr effs ->
  exists com, calc_commission (t_gas_coin t) (tx_price (s_prices s) t) = Some com /\ rpool_deltas effs = com.
Proof.
  intros H. run_inv H; subst effs; eexists; (split; [reflexivity|]);
    unfold fee_effs, rpool_deltas; sums; rewrite ?flat_map_rpool_items; cbn [rpool_delta sum_Z fold_right]; lia.
Qed.

(* ---- well-formed transactions: amounts decoded from RLP are never negative -------------------- *)
Definition wf_data (d : txdata) : Prop :=
  match d with
  | Send _ _ v => 0 <= v
  | Multisend items => Forall (fun it : Z * Z * Z => 0 <= snd it) items
  | CreateToken _ _ _ _ init _ _ _ => 0 <= init
  | RecreateToken _ _ init _ _ _ => 0 <= init
  | MintToken _ v => 0 <= v
  | BurnToken _ v => 0 <= v
  | Lock _ _ v => 0 <= v
  | RedeemCheck _ _ _ _ _ _ _ _ v _ _ _ => 0 <= v
  | CreateMultisig _ _ _ _ => True
  | EditCoinOwner _ _ => True
  end.

Lemma hit_true a c a' c' : hit a c a' c' = true -> a = a' /\ c = c'.
Proof. unfold hit. intros H. apply andb_prop in H. destruct H as [H1 H2]. apply Z.eqb_eq in H1, H2. auto. Qed.

Lemma items_debits sender a c (items : list (Z * Z * Z)) :
  Forall (fun it : Z * Z * Z => 0 <= snd it) items -> a <> sender ->
  0 <= sum_Z (map (bal_delta a c) (flat_map (fun it : Z * Z * Z => let '(c, to, v) := it in [EBal sender c (- v); EBal to c v]) items)).
Proof.
  intros Hf Hne. induction items as [|[[c0 to] v] r IH]; [cbn; lia|].
  inversion Hf as [|x l Hv Hr]; subst. cbn [snd] in Hv.
  cbn [flat_map]. sums. specialize (IH Hr). cbn [bal_delta sum_Z fold_right].
  destruct (hit (sender) c0 a c) eqn:E1; [apply hit_true in E1; destruct E1; congruence|].
  destruct (hit to c0 a c); lia.
Qed.

(* who is debited by an accepted transaction: only its sender, or the issuer of the redeemed check *)
Definition issuer_of (t : tx) : option Z :=
  match t_data t with RedeemCheck _ _ _ _ _ issuer _ _ _ _ _ _ => Some issuer | _ => None end.

Ltac hits :=
  repeat match goal with
         | |- context [if hit ?x ?y ?a ?c then _ else _] =>
           let E := fresh "Eh" in destruct (hit x y a c) eqn:E; [apply hit_true in E; destruct E|]
         end.

Lemma calc_commission_nonneg gc p com : 0 <= p -> calc_commission gc p = Some com -> 0 <= com.
Proof.
  unfold calc_commission. intros Hp. destruct (gc =? 0); [intros HH; injection HH as <-; exact Hp|].
  destruct (p =? 0); [intros HH; injection HH as <-; lia|discriminate].
Qed.

Lemma run_debits s t effs a c :
  run s t = inr effs -> wf_data (t_data t) -> 0 <= tx_price (s_prices s) t ->
  bal_deltas effs a c < 0 -> a = sender_of t \/ issuer_of t = Some a.
Proof.
  intros H Hwf Hp Hneg.
  destruct (Z.eq_dec a (sender_of t)) as [|Hne]; [left; assumption|right].
  unfold issuer_of.
  run_inv H; subst effs; cbn [wf_data] in Hwf;
    unfold bal_deltas, fee_effs in Hneg; revert Hneg; sums;
    try (match goal with Hw : Forall _ _ |- _ => pose proof (items_debits _ _ c _ Hw Hne) end);
    match goal with Ec : calc_commission _ _ = Some ?z |- _ => pose proof (calc_commission_nonneg _ _ _ Hp Ec) end;
    cbn [bal_delta sum_Z fold_right]; hits; intros; try congruence; try lia.
Qed.

(* ---- conservation: per coin, what the balances and frozen funds gain is what the coin's volume
   gains; for the base coin the reward pool is part of the holdings ----------------------------- *)
Definition frozen_delta (c : Z) (e : eff) : Z := match e with EFrozen _ _ c' v => if c' =? c then v else 0 | _ => 0 end.
Definition frozen_deltas (l : list eff) (c : Z) : Z := sum_Z (map (frozen_delta c) l).
Definition vol_delta (c : Z) (e : eff) : Z :=
  match e with EVol c' d => if c' =? c then d else 0 | ENewCoin r => if c_id r =? c then c_vol r else 0 | _ => 0 end.
Definition vol_deltas (l : list eff) (c : Z) : Z := sum_Z (map (vol_delta c) l).

Lemma items_conserve sender c (items : list (Z * Z * Z)) :
  sum_Z (map (coin_delta c) (flat_map (fun it : Z * Z * Z => let '(c, to, v) := it in [EBal sender c (- v); EBal to c v]) items)) = 0 /\
  sum_Z (map (frozen_delta c) (flat_map (fun it : Z * Z * Z => let '(c, to, v) := it in [EBal sender c (- v); EBal to c v]) items)) = 0 /\
  sum_Z (map (vol_delta c) (flat_map (fun it : Z * Z * Z => let '(c, to, v) := it in [EBal sender c (- v); EBal to c v]) items)) = 0.
Proof.
  induction items as [|[[c0 to] v] r (I1 & I2 & I3)]; [repeat split|].
  cbn [flat_map]. sums. rewrite I1, I2, I3. cbn [coin_delta frozen_delta vol_delta sum_Z fold_right].
  destruct (c0 =? c); repeat split; lia.
Qed.

Lemma calc_commission_cases gc p com :
  calc_commission gc p = Some com -> (gc = 0 /\ com = p) \/ (gc <> 0 /\ com = 0).
Proof.
  unfold calc_commission. destruct (Z.eqb_spec gc 0); [intros HH; injection HH as <-; left; auto|].
  destruct (p =? 0); [intros HH; injection HH as <-; right; auto|discriminate].
Qed.

Ltac eqbs := repeat match goal with |- context [?x =? ?y] => destruct (Z.eqb_spec x y) end.

(* an accepted transaction conserves every coin: what balances and frozen funds gain (plus, for
   the base coin, the reward pool) is what the coin's recorded volume gains; the base coin's
   volume is never touched by a transaction *)
Lemma run_conserves s t effs c :
  run s t = inr effs -> 0 <= s_ncoins s ->
  coin_deltas effs c + frozen_deltas effs c + (if c =? 0 then rpool_deltas effs else 0) = vol_deltas effs c
  /\ vol_deltas effs 0 = 0.
Proof.
  intros H Hn.
  run_inv H; subst effs;
    match goal with Ec : calc_commission _ _ = Some ?z |- _ => pose proof (calc_commission_cases _ _ _ Ec) end;
    unfold coin_deltas, frozen_deltas, rpool_deltas, vol_deltas, fee_effs; sums;
    try (match goal with |- context [flat_map _ ?items] =>
           destruct (items_conserve (sender_of t) c items) as (I1 & I2 & I3);
           destruct (items_conserve (sender_of t) 0 items) as (J1 & J2 & J3);
           rewrite ?I1, ?I2, ?I3, ?J1, ?J2, ?J3, ?flat_map_rpool_items end);
    cbn [coin_delta frozen_delta rpool_delta vol_delta sum_Z fold_right c_id c_vol];
    eqbs; split; lia.
Qed.
