(* SwapTxFacts.v — facts about the primitives of Model/SwapTx.v: the order commissions, the pool
   trade without orders as total functions, its monotonicity in the reserve and in the amount, the
   pool map, what an effect list does to balances and pools, and the tie to Model/Orders.v
   (empty book). *)
From Minter Require Import Base Consts Pool PoolFacts SwapTx.
From Coq Require Import ZArith List Bool Lia.
Import ListNotations.
Open Scope Z_scope.

(* ---- the order commissions ---------------------------------------------------------------------- *)
Lemma half_oc_1 : half_oc = 1. Proof. reflexivity. Qed.

Lemma com1000_eq a : 0 <= a -> com1000 a = (a + 999) / 1000.
Proof.
  intros Ha. unfold com1000, ceil_quo. rewrite half_oc_1, Z.mul_1_r.
  rewrite Z.quot_div_nonneg, Z.rem_mod_nonneg by lia.
  destruct (Z.ltb_spec 0 (a mod 1000)); Z.div_mod_to_equations; lia.
Qed.

Lemma com0999_eq a : 0 <= a -> com0999 a = (a + 998) / 999.
Proof.
  intros Ha. unfold com0999, ceil_quo. rewrite half_oc_1. change (1000 - 1) with 999.
  rewrite Z.quot_div_nonneg, Z.rem_mod_nonneg by lia.
  destruct (Z.ltb_spec 0 (a mod 999)); Z.div_mod_to_equations; lia.
Qed.

Lemma com1000_bounds a : 0 < a -> 0 < com1000 a <= a.
Proof. intros Ha. rewrite com1000_eq by lia. Z.div_mod_to_equations. lia. Qed.

Lemma sub1000_pos a : 0 < a -> sub1000 a = a - com1000 a.
Proof. intros Ha. unfold sub1000. destruct (Z.ltb_spec 0 a); [reflexivity|lia]. Qed.

Lemma sub1000_nonneg a : 0 <= a -> 0 <= sub1000 a <= a.
Proof.
  intros Ha. unfold sub1000. destruct (Z.ltb_spec 0 a); [|lia].
  pose proof (com1000_bounds a ltac:(lia)). lia.
Qed.

Lemma sub1000_mono a a' : 0 <= a -> a <= a' -> sub1000 a <= sub1000 a'.
Proof.
  intros Ha Hle. unfold sub1000.
  destruct (Z.ltb_spec 0 a), (Z.ltb_spec 0 a'); try lia.
  - rewrite !com1000_eq by lia. Z.div_mod_to_equations. lia.
  - pose proof (com1000_bounds a' ltac:(lia)). lia.
Qed.

Lemma add0999_mono d d' : 0 <= d -> d <= d' -> add0999 d <= add0999 d'.
Proof.
  intros Hd Hle. unfold add0999.
  destruct (Z.ltb_spec 0 d), (Z.ltb_spec 0 d'); try lia.
  - rewrite !com0999_eq by lia. Z.div_mod_to_equations. lia.
  - rewrite com0999_eq by lia. Z.div_mod_to_equations. lia.
Qed.

Lemma add0999_ge d : 0 <= d -> d <= add0999 d.
Proof.
  intros Hd. unfold add0999. destruct (Z.ltb_spec 0 d); [|lia].
  rewrite com0999_eq by lia. Z.div_mod_to_equations. lia.
Qed.

(* the commission is chosen so that what reaches the pool is exactly the net amount *)
Lemma sub1000_add0999 d : 0 < d -> sub1000 (add0999 d) = d.
Proof.
  intros Hd. unfold add0999. destruct (Z.ltb_spec 0 d); [|lia].
  rewrite com0999_eq by lia.
  assert (0 < d + (d + 998) / 999) by (Z.div_mod_to_equations; lia).
  rewrite sub1000_pos by lia. rewrite com1000_eq by lia. Z.div_mod_to_equations. lia.
Qed.

(* ---- floor division: cross-multiplication order --------------------------------------------------- *)
Lemma div_le_cross x y x' y' : 0 < y -> 0 < y' -> 0 <= x' -> x' * y <= x * y' -> x' / y' <= x / y.
Proof.
  intros Hy Hy' Hx' H. apply Z.div_le_lower_bound; [lia|].
  pose proof (Z.mul_div_le x' y' Hy').
  assert (0 <= x' / y') by (apply Z.div_pos; lia).
  nia.
Qed.

(* ---- CalculateBuyForSell as a total function -------------------------------------------------------- *)
Definition bfs_raw (r0 r1 a : Z) : Z := r1 - r0 * r1 * 1000000 / (((a + r0) * 1000 - a * 2) * 1000) - 1.

Lemma calc_bfs_raw r0 r1 a : 0 < r0 -> 0 < r1 -> 0 <= a ->
  calc_buy_for_sell r0 r1 a = if 0 <? bfs_raw r0 r1 a then Val (bfs_raw r0 r1 a) else Nil.
Proof.
  intros H0 H1 Ha. unfold calc_buy_for_sell, bfs_raw, swap_commission.
  rewrite quo_val by lia. cbn [obind]. rewrite quot_div_nonneg by nia. reflexivity.
Qed.

Lemma bfs_raw_lt r0 r1 a : 0 < r0 -> 0 < r1 -> 0 <= a -> bfs_raw r0 r1 a < r1.
Proof.
  intros H0 H1 Ha. unfold bfs_raw.
  assert (0 <= r0 * r1 * 1000000 / (((a + r0) * 1000 - a * 2) * 1000)) by (apply Z.div_pos; nia). lia.
Qed.

Lemma bfs_raw_mono r0 r0' r1 a a' : 0 < r0 -> r0 <= r0' -> 0 < r1 -> 0 <= a -> a <= a' ->
  bfs_raw r0' r1 a <= bfs_raw r0 r1 a'.
Proof.
  intros H0 Hle H1 Ha Haa. unfold bfs_raw.
  assert (r0 * r1 * 1000000 / (((a' + r0) * 1000 - a' * 2) * 1000) <= r0' * r1 * 1000000 / (((a + r0') * 1000 - a * 2) * 1000)); [|lia].
  apply div_le_cross; try nia.
  (* r0 (1000 r0' + 998 a) <= r0' (1000 r0 + 998 a') *)
  assert (r0 * a <= r0' * a') by nia.
  replace (r0 * r1 * 1000000 * (((a + r0') * 1000 - a * 2) * 1000)) with (r1 * 1000000000 * (r0 * (1000 * r0' + 998 * a))) by ring.
  replace (r0' * r1 * 1000000 * (((a' + r0) * 1000 - a' * 2) * 1000)) with (r1 * 1000000000 * (r0' * (1000 * r0 + 998 * a'))) by ring.
  apply Z.mul_le_mono_nonneg_l; [lia|]. nia.
Qed.

Definition bfs_fun (r0 r1 a : Z) : Z := if a =? 0 then 0 else Z.max 0 (bfs_raw r0 r1 a).

Lemma bfs_core_fun r0 r1 a : 0 < r0 -> 0 < r1 -> 0 <= a -> bfs_core r0 r1 a = Val (bfs_fun r0 r1 a).
Proof.
  intros H0 H1 Ha. unfold bfs_core, bfs_fun.
  destruct (Z.eqb_spec a 0) as [->|Hne]; [reflexivity|].
  destruct (calc_buy_for_sell r0 r1 a) as [o| |s] eqn:E.
  - rewrite (buy_for_sell_check r0 r1 H0 H1 a o ltac:(lia) E). cbn.
    rewrite calc_bfs_raw in E by lia. destruct (Z.ltb_spec 0 (bfs_raw r0 r1 a)); [|discriminate].
    injection E as <-. f_equal. lia.
  - rewrite calc_bfs_raw in E by lia. destruct (Z.ltb_spec 0 (bfs_raw r0 r1 a)); [discriminate|]. f_equal. lia.
  - rewrite calc_bfs_raw in E by lia. destruct (0 <? bfs_raw r0 r1 a); discriminate.
Qed.

Lemma bfs_fun_bounds r0 r1 a : 0 < r0 -> 0 < r1 -> 0 <= a -> 0 <= bfs_fun r0 r1 a < r1.
Proof.
  intros H0 H1 Ha. unfold bfs_fun. destruct (a =? 0); [lia|].
  pose proof (bfs_raw_lt r0 r1 a H0 H1 Ha). lia.
Qed.

Lemma bfs_fun_mono r0 r0' r1 a a' : 0 < r0 -> r0 <= r0' -> 0 < r1 -> 0 <= a -> a <= a' ->
  bfs_fun r0' r1 a <= bfs_fun r0 r1 a'.
Proof.
  intros H0 Hle H1 Ha Haa. unfold bfs_fun.
  destruct (Z.eqb_spec a 0); [destruct (a' =? 0); lia|].
  destruct (Z.eqb_spec a' 0); [lia|].
  pose proof (bfs_raw_mono r0 r0' r1 a a' H0 Hle H1 Ha Haa). lia.
Qed.

Lemma bfs_wo_fun r0 r1 a : 0 < r0 -> 0 < r1 -> 0 <= a -> bfs_wo r0 r1 a = Val (bfs_fun r0 r1 (sub1000 a)).
Proof. intros. unfold bfs_wo. apply bfs_core_fun; try assumption. apply sub1000_nonneg; assumption. Qed.

(* ---- CalculateSellForBuy as a total function ---------------------------------------------------------- *)
Definition sfb_raw (r0 r1 out : Z) : Z := (r0 * r1 * 1000000 / ((r1 - out) * 1000) - r0 * 1000) / 998 + 1.

Lemma sfb_num_nonneg r0 r1 out : 0 < r0 -> 0 <= out -> out < r1 -> r0 * 1000 <= r0 * r1 * 1000000 / ((r1 - out) * 1000).
Proof. intros. apply Z.div_le_lower_bound; [lia|]. nia. Qed.

Lemma calc_sfb_raw r0 r1 out : 0 < r0 -> 0 < r1 -> 0 <= out ->
  calc_sell_for_buy r0 r1 out = if out <? r1 then Val (sfb_raw r0 r1 out) else Nil.
Proof.
  intros H0 H1 Ho. unfold calc_sell_for_buy, sfb_raw, swap_commission.
  destruct (Z.ltb_spec r1 out); [destruct (Z.ltb_spec out r1); [lia|reflexivity]|].
  destruct (Z.ltb_spec out r1); cbn [negb]; [|reflexivity].
  rewrite quo_val by lia. cbn [obind]. rewrite quo_val by lia. cbn [obind].
  rewrite (quot_div_nonneg (r0 * r1 * 1000000)) by nia.
  pose proof (sfb_num_nonneg r0 r1 out H0 Ho ltac:(lia)).
  rewrite quot_div_nonneg by lia. reflexivity.
Qed.

Lemma sfb_raw_pos r0 r1 out : 0 < r0 -> 0 <= out -> out < r1 -> 0 < sfb_raw r0 r1 out.
Proof.
  intros H0 Ho Hlt. unfold sfb_raw. pose proof (sfb_num_nonneg r0 r1 out H0 Ho Hlt).
  assert (0 <= (r0 * r1 * 1000000 / ((r1 - out) * 1000) - r0 * 1000) / 998) by (apply Z.div_pos; lia). lia.
Qed.

Lemma sfb_raw_mono r0 r0' r1 out out' : 0 < r0 -> r0 <= r0' -> 0 <= out -> out <= out' -> out' < r1 ->
  sfb_raw r0 r1 out <= sfb_raw r0' r1 out'.
Proof.
  intros H0 Hle Ho Hoo Hlt. unfold sfb_raw.
  assert (r0 * r1 * 1000000 / ((r1 - out) * 1000) - r0 * 1000 <= r0' * r1 * 1000000 / ((r1 - out') * 1000) - r0' * 1000);
    [|apply Z.add_le_mono_r; apply Z.div_le_mono; lia].
  (* first the amount, then the reserve *)
  assert (S1 : r0 * r1 * 1000000 / ((r1 - out) * 1000) <= r0 * r1 * 1000000 / ((r1 - out') * 1000)).
  { apply Z.div_le_compat_l; [nia|lia]. }
  set (D := (r1 - out') * 1000) in *.
  assert (HD : 0 < D) by (unfold D; lia).
  assert (S2 : r0 * r1 * 1000000 / D + (r0' - r0) * 1000 <= r0' * r1 * 1000000 / D).
  { rewrite <- Z.div_add by lia. apply Z.div_le_mono; [lia|]. unfold D. nia. }
  lia.
Qed.

Definition sfb_fun (r0 r1 out : Z) : Z := if out =? 0 then 0 else sfb_raw r0 r1 out.

(* Val exactly when the wanted amount is below the reserve *)
Lemma sfb_core_fun r0 r1 out : 0 < r0 -> 0 < r1 -> 0 <= out ->
  sfb_core r0 r1 out = if out <? r1 then Val (sfb_fun r0 r1 out) else Nil.
Proof.
  intros H0 H1 Ho. unfold sfb_core, sfb_fun.
  destruct (Z.eqb_spec out 0) as [->|Hne]; [destruct (Z.ltb_spec 0 r1); [reflexivity|lia]|].
  destruct (calc_sell_for_buy r0 r1 out) as [d| |s] eqn:E.
  - rewrite (sell_for_buy_check r0 r1 H0 H1 out d ltac:(lia) E). cbn.
    rewrite calc_sfb_raw in E by lia. destruct (out <? r1); [|discriminate]. injection E as <-. reflexivity.
  - rewrite calc_sfb_raw in E by lia. destruct (Z.ltb_spec out r1); [discriminate|].
    destruct (Z.ltb_spec r0 1); cbn [orb]; [reflexivity|]. destruct (Z.ltb_spec (r1 - out) 1); [reflexivity|lia].
  - rewrite calc_sfb_raw in E by lia. destruct (out <? r1); discriminate.
Qed.

Lemma sfb_fun_mono r0 r0' r1 out out' : 0 < r0 -> r0 <= r0' -> 0 <= out -> out <= out' -> out' < r1 ->
  sfb_fun r0 r1 out <= sfb_fun r0' r1 out'.
Proof.
  intros H0 Hle Ho Hoo Hlt. unfold sfb_fun.
  destruct (Z.eqb_spec out 0); destruct (Z.eqb_spec out' 0); try lia.
  - pose proof (sfb_raw_pos r0' r1 out' ltac:(lia) ltac:(lia) Hlt). lia.
  - apply sfb_raw_mono; lia.
Qed.

Lemma sfb_fun_nonneg r0 r1 out : 0 < r0 -> 0 <= out -> out < r1 -> 0 <= sfb_fun r0 r1 out.
Proof.
  intros. unfold sfb_fun. destruct (out =? 0); [lia|]. pose proof (sfb_raw_pos r0 r1 out); lia.
Qed.

Lemma sfb_wo_fun r0 r1 out : 0 < r0 -> 0 < r1 -> 0 <= out ->
  sfb_wo r0 r1 out = if out <? r1 then Val (add0999 (sfb_fun r0 r1 out)) else Nil.
Proof. intros. unfold sfb_wo. rewrite sfb_core_fun by assumption. destruct (out <? r1); reflexivity. Qed.

(* selling the amount computed for a purchase buys at least the wanted amount: the commission
   swap of the deliver phase never yields less than the price it was computed for *)
Lemma sell_then_buy_ge r0 r1 out : 0 < r0 -> 0 < r1 -> 0 < out -> out < r1 ->
  out <= bfs_raw r0 r1 (sfb_raw r0 r1 out).
Proof.
  intros H0 H1 Ho Hlt. unfold bfs_raw, sfb_raw.
  set (D := (r1 - out) * 1000). assert (HD : 0 < D) by (unfold D; lia).
  set (q := r0 * r1 * 1000000 / D).
  pose proof (sfb_num_nonneg r0 r1 out H0 ltac:(lia) Hlt) as Hq. fold D q in Hq.
  set (x := (q - r0 * 1000) / 998).
  assert (Hx : q - r0 * 1000 < 998 * (x + 1)) by (apply div_hi; lia).
  assert (Hx0 : 0 <= x) by (apply Z.div_pos; lia).
  replace (((x + 1 + r0) * 1000 - (x + 1) * 2) * 1000) with ((998 * (x + 1) + r0 * 1000) * 1000) by ring.
  set (b0 := 998 * (x + 1) + r0 * 1000) in *.
  assert (Hb : q + 1 <= b0) by (unfold b0; lia).
  assert (Hlt2 : r0 * r1 * 1000000 < D * (q + 1)) by (apply div_hi; lia).
  (* K 10^6 / (b0 1000) < r1 - out *)
  assert (r0 * r1 * 1000000 / (b0 * 1000) < r1 - out); [|lia].
  apply Z.div_lt_upper_bound; [lia|]. unfold D in Hlt2. nia.
Qed.

(* ---- the pool map ------------------------------------------------------------------------------------------ *)
Lemma keq_refl k : keq k k = true.
Proof. unfold keq. rewrite !Z.eqb_refl. reflexivity. Qed.

Lemma keq_eq k k' : keq k k' = true -> k = k'.
Proof. destruct k, k'. unfold keq. cbn. intros H. apply andb_prop in H. destruct H as [A B]. apply Z.eqb_eq in A, B. congruence. Qed.

Lemma keq_sym k k' : keq k k' = keq k' k.
Proof. unfold keq. rewrite (Z.eqb_sym (fst k)), (Z.eqb_sym (snd k)). reflexivity. Qed.

Lemma pkey_sym a b : pkey a b = pkey b a.
Proof. unfold pkey. destruct (Z.ltb_spec a b), (Z.ltb_spec b a); try reflexivity; try lia. assert (a = b) by lia. subst. reflexivity. Qed.

Lemma find_upd_same l k v : find_pool (upd_pool l k v) k = Some v.
Proof.
  induction l as [|[k' r] t IH]; cbn [upd_pool find_pool].
  - rewrite keq_refl. reflexivity.
  - destruct (keq k' k) eqn:E; cbn [find_pool]; rewrite E; [reflexivity|exact IH].
Qed.

Lemma find_upd_other l k v k2 : keq k k2 = false -> find_pool (upd_pool l k v) k2 = find_pool l k2.
Proof.
  intros Hne. induction l as [|[k' r] t IH]; cbn [upd_pool find_pool].
  - rewrite Hne. reflexivity.
  - destruct (keq k' k) eqn:E; cbn [find_pool].
    + apply keq_eq in E. subst k'. rewrite Hne. reflexivity.
    + destruct (keq k' k2); [reflexivity|exact IH].
Qed.

Lemma orient_invol a b r : orient a b (orient a b r) = r.
Proof. unfold orient. destruct (a <? b); [reflexivity|]. destruct r; reflexivity. Qed.

Lemma orient_sym a b r : a <> b -> orient b a r = (snd (orient a b r), fst (orient a b r)).
Proof.
  intros Hne. unfold orient. destruct (Z.ltb_spec a b), (Z.ltb_spec b a); try lia; destruct r; reflexivity.
Qed.

(* the pool seen from the other side *)
Lemma get_pool_sym w a b : a <> b -> get_pool w b a = match get_pool w a b with Some (x, y) => Some (y, x) | None => None end.
Proof.
  intros Hne. unfold get_pool. rewrite (pkey_sym b a).
  destruct (find_pool (w_pools w) (pkey a b)) as [r|]; [|reflexivity].
  rewrite (orient_sym a b r Hne). destruct (orient a b r). reflexivity.
Qed.

(* ---- what effects do to pools and balances ------------------------------------------------------------------- *)
Lemma apply_effs_cons w e l : apply_effs w (e :: l) = apply_effs (apply_eff w e) l.
Proof. reflexivity. Qed.
Lemma apply_effs_app w l1 l2 : apply_effs w (l1 ++ l2) = apply_effs (apply_effs w l1) l2.
Proof. unfold apply_effs. apply fold_left_app. Qed.

Definition touches (k : Z * Z) (e : eff) : bool :=
  match e with EPool a b _ _ => keq (pkey a b) k | _ => false end.

Lemma apply_eff_pool_other w e a b : touches (pkey a b) e = false -> get_pool (apply_eff w e) a b = get_pool w a b.
Proof.
  destruct e as [x c d|x y d0 d1|c d|c d|d]; cbn [touches apply_eff]; intros H; try reflexivity.
  destruct (get_pool w x y) as [[r0 r1]|]; [|reflexivity].
  unfold get_pool, set_pools. cbn [w_pools]. rewrite find_upd_other by exact H. reflexivity.
Qed.

Lemma apply_effs_pool_other l : forall w a b, forallb (fun e => negb (touches (pkey a b) e)) l = true ->
  get_pool (apply_effs w l) a b = get_pool w a b.
Proof.
  induction l as [|e l IH]; intros w a b H; [reflexivity|].
  cbn [forallb] in H. apply andb_prop in H. destruct H as [H1 H2].
  rewrite apply_effs_cons, IH by exact H2. apply apply_eff_pool_other. destruct (touches (pkey a b) e); [discriminate|reflexivity].
Qed.

Lemma apply_eff_pool_same w a b d0 d1 r0 r1 : get_pool w a b = Some (r0, r1) ->
  get_pool (apply_eff w (EPool a b d0 d1)) a b = Some (r0 + d0, r1 + d1).
Proof.
  intros H. cbn [apply_eff]. rewrite H. unfold get_pool, set_pools. cbn [w_pools].
  rewrite find_upd_same, orient_invol. reflexivity.
Qed.

Definition hit (a c a' c' : Z) : bool := (a =? a') && (c =? c').

Lemma get_bal_cons a0 c0 v l a c :
  get_bal ((a0, c0, v) :: l) a c = (if hit a0 c0 a c then v else 0) + get_bal l a c.
Proof. reflexivity. Qed.

Lemma get_bal_add_bal l a c d a' c' :
  get_bal (add_bal l a c d) a' c' = get_bal l a' c' + (if hit a c a' c' then d else 0).
Proof.
  induction l as [|[[a0 c0] v] l IH]; cbn [add_bal].
  - rewrite get_bal_cons. unfold get_bal; cbn. lia.
  - destruct ((a0 =? a) && (c0 =? c)) eqn:E.
    + apply andb_prop in E. destruct E as [E1 E2]. apply Z.eqb_eq in E1, E2. subst a0 c0.
      rewrite !get_bal_cons. destruct (hit a c a' c'); lia.
    + rewrite !get_bal_cons, IH. lia.
Qed.

Definition bal_delta (a c : Z) (e : eff) : Z :=
  match e with EBal a' c' d => if hit a' c' a c then d else 0 | _ => 0 end.
Definition bal_deltas (l : list eff) (a c : Z) : Z := sum_Z (map (bal_delta a c) l).

Lemma sumZ_cons x l : sum_Z (x :: l) = x + sum_Z l. Proof. reflexivity. Qed.
Lemma sumZ_app a b : sum_Z (a ++ b) = sum_Z a + sum_Z b.
Proof. induction a as [|x a IH]; [reflexivity|]. rewrite <- app_comm_cons, !sumZ_cons, IH. lia. Qed.

Lemma bal_deltas_app l1 l2 a c : bal_deltas (l1 ++ l2) a c = bal_deltas l1 a c + bal_deltas l2 a c.
Proof. unfold bal_deltas. rewrite map_app, sumZ_app. reflexivity. Qed.
Lemma bal_deltas_cons e l a c : bal_deltas (e :: l) a c = bal_delta a c e + bal_deltas l a c.
Proof. reflexivity. Qed.

Lemma apply_eff_bal w e a c : bal (apply_eff w e) a c = bal w a c + bal_delta a c e.
Proof.
  destruct e as [x y d|x y d0 d1|y d|y d|d]; cbn [apply_eff bal_delta]; unfold bal; cbn [w_bal set_bals set_coins]; try lia.
  - apply get_bal_add_bal.
  - destruct (get_pool w x y) as [[r0 r1]|]; cbn [w_bal set_pools]; lia.
Qed.

Lemma apply_effs_bal l : forall w a c, bal (apply_effs w l) a c = bal w a c + bal_deltas l a c.
Proof.
  induction l as [|e l IH]; intros w a c; [unfold bal_deltas; cbn; lia|].
  rewrite apply_effs_cons, IH, apply_eff_bal, bal_deltas_cons. lia.
Qed.

(* effects that are not pool updates leave every pool alone *)
Definition no_pool_eff (e : eff) : bool := match e with EPool _ _ _ _ => false | _ => true end.
Lemma no_pool_touches k l : forallb no_pool_eff l = true -> forallb (fun e => negb (touches k e)) l = true.
Proof.
  induction l as [|e l IH]; [reflexivity|]. cbn [forallb]. intros H. apply andb_prop in H. destruct H as [H1 H2].
  rewrite IH by exact H2. destruct e; cbn in *; try reflexivity. discriminate.
Qed.
