(* BancorFacts.v — lemmas about Model/Bancor.v (all magnitudes, unbounded Z, every 10 <= c <= 100). *)
From Minter Require Import Base Bancor.
From Coq Require Import ZArith Lia Bool.
Open Scope Z_scope.

(* ================================================================================================ *)
(* 1. the generic search: largest integer in [lo, hi] satisfying a downward-closed predicate         *)
(* ================================================================================================ *)

Definition down_closed (P : Z -> bool) (lo hi : Z) : Prop :=
  forall x y, lo <= x -> x <= y -> y <= hi -> P y = true -> P x = true.

Lemma pow2_succ (f : nat) : 2 ^ Z.of_nat (S f) = 2 * 2 ^ Z.of_nat f.
Proof. rewrite Nat2Z.inj_succ, Z.pow_succ_r by lia. reflexivity. Qed.

Lemma mid_bounds lo hi : 1 < hi - lo -> lo < (lo + hi) / 2 < hi.
Proof. intros H. pose proof (Z.div_mod (lo + hi) 2 ltac:(lia)). pose proof (Z.mod_pos_bound (lo + hi) 2 ltac:(lia)). lia. Qed.

Lemma mid_width lo hi w : hi - lo <= 2 * w -> hi - (lo + hi) / 2 <= w /\ (lo + hi) / 2 - lo <= w.
Proof. intros H. pose proof (Z.div_mod (lo + hi) 2 ltac:(lia)). pose proof (Z.mod_pos_bound (lo + hi) 2 ltac:(lia)). lia. Qed.

Lemma bisect_spec P lo0 top (Hdc : down_closed P lo0 top) : forall fuel lo hi,
  lo0 <= lo -> lo < hi -> hi <= top + 1 -> hi - lo <= 2 ^ Z.of_nat fuel ->
  P lo = true -> (forall y, hi <= y -> y <= top -> P y = false) ->
  lo <= bisect P fuel lo hi < hi /\ P (bisect P fuel lo hi) = true /\
  (forall y, bisect P fuel lo hi < y -> y <= top -> P y = false).
Proof.
  induction fuel as [|f IH]; intros lo hi Hlo0 Hlt Htop Hw Hplo Hhi.
  - cbn [bisect]. change (2 ^ Z.of_nat 0) with 1 in Hw.
    split; [lia|]. split; [exact Hplo|]. intros y Hy Hyt. apply Hhi; lia.
  - cbn [bisect]. rewrite pow2_succ in Hw.
    destruct (Z.leb_spec (hi - lo) 1) as [Hsmall|Hbig].
    + split; [lia|]. split; [exact Hplo|]. intros y Hy Hyt. apply Hhi; lia.
    + pose proof (mid_bounds lo hi Hbig) as Hm.
      pose proof (mid_width lo hi _ Hw) as [Hw1 Hw2].
      set (mid := (lo + hi) / 2) in *.
      destruct (P mid) eqn:Hpm.
      * destruct (IH mid hi ltac:(lia) ltac:(lia) Htop Hw1 Hpm Hhi) as (Ha & Hb & Hc).
        split; [lia|]. split; assumption.
      * assert (Hhi' : forall y, mid <= y -> y <= top -> P y = false).
        { intros y Hy Hyt. destruct (P y) eqn:Hpy; [|reflexivity].
          rewrite (Hdc mid y ltac:(lia) Hy Hyt Hpy) in Hpm. discriminate. }
        destruct (IH lo mid Hlo0 ltac:(lia) ltac:(lia) Hw2 Hplo Hhi') as (Ha & Hb & Hc).
        split; [lia|]. split; assumption.
Qed.

(* fuel adequacy: log2_up of the interval length is enough *)
Lemma bisect_fuel_ok lo hi : lo <= hi -> hi + 1 - lo <= 2 ^ Z.of_nat (bisect_fuel lo hi).
Proof.
  intros H. unfold bisect_fuel. rewrite Z2Nat.id by apply Z.log2_up_nonneg.
  destruct (Z.eq_dec (hi + 1 - lo) 1) as [E|E].
  - rewrite E. cbn. lia.
  - apply Z.log2_up_spec. lia.
Qed.

(* the search returns exactly the largest integer of [lo, hi] satisfying P *)
Lemma largest_sat_spec P lo hi :
  lo <= hi -> down_closed P lo hi -> P lo = true ->
  lo <= largest_sat P lo hi <= hi /\ P (largest_sat P lo hi) = true /\
  (forall y, largest_sat P lo hi < y -> y <= hi -> P y = false).
Proof.
  intros Hle Hdc Hp. unfold largest_sat.
  destruct (bisect_spec P lo hi Hdc (bisect_fuel lo hi) lo (hi + 1) ltac:(lia) ltac:(lia) ltac:(lia)
              ltac:(pose proof (bisect_fuel_ok lo hi Hle); lia) Hp ltac:(intros; lia)) as (Ha & Hb & Hc).
  split; [lia|]. split; assumption.
Qed.

Lemma largest_sat_unique P lo hi v :
  lo <= hi -> down_closed P lo hi -> P lo = true ->
  lo <= v <= hi -> P v = true -> (forall y, v < y -> y <= hi -> P y = false) ->
  largest_sat P lo hi = v.
Proof.
  intros Hle Hdc Hp Hv Hpv Hmax.
  destruct (largest_sat_spec P lo hi Hle Hdc Hp) as (Ha & Hb & Hc).
  destruct (Z.lt_trichotomy (largest_sat P lo hi) v) as [Hlt|[Heq|Hgt]]; [|exact Heq|].
  - rewrite (Hc v Hlt ltac:(lia)) in Hpv. discriminate.
  - rewrite (Hmax _ Hgt ltac:(lia)) in Hb. discriminate.
Qed.

(* "v is at least x" and "v is at most x" in terms of P *)
Lemma largest_sat_ge P lo hi x :
  lo <= hi -> down_closed P lo hi -> P lo = true ->
  lo <= x <= hi -> P x = true -> x <= largest_sat P lo hi.
Proof.
  intros Hle Hdc Hp Hx Hpx.
  destruct (largest_sat_spec P lo hi Hle Hdc Hp) as (Ha & Hb & Hc).
  destruct (Z.le_gt_cases x (largest_sat P lo hi)) as [H|H]; [exact H|].
  rewrite (Hc x H ltac:(lia)) in Hpx. discriminate.
Qed.

Lemma largest_sat_lt P lo hi x :
  lo <= hi -> down_closed P lo hi -> P lo = true ->
  lo <= x <= hi -> P x = false -> largest_sat P lo hi < x.
Proof.
  intros Hle Hdc Hp Hx Hpx.
  destruct (largest_sat_spec P lo hi Hle Hdc Hp) as (Ha & Hb & Hc).
  destruct (Z.lt_ge_cases (largest_sat P lo hi) x) as [H|H]; [exact H|].
  rewrite (Hdc x _ ltac:(lia) H ltac:(lia) Hb) in Hpx. discriminate.
Qed.

(* a weaker predicate on a larger range has a larger (or equal) largest element *)
Lemma largest_sat_mono P P' lo hi hi' :
  lo <= hi -> hi <= hi' -> down_closed P lo hi -> down_closed P' lo hi' ->
  P lo = true -> P' lo = true ->
  (forall y, lo <= y <= hi -> P y = true -> P' y = true) ->
  largest_sat P lo hi <= largest_sat P' lo hi'.
Proof.
  intros Hle Hle' Hdc Hdc' Hp Hp' Himp.
  destruct (largest_sat_spec P lo hi Hle Hdc Hp) as (Ha & Hb & Hc).
  apply largest_sat_ge; try assumption; try lia.
  apply Himp; [lia|exact Hb].
Qed.

(* ================================================================================================ *)
(* 2. powers.  [pw] hides Z.pow from lia/nia (their preprocessing would expand x^100).              *)
(* ================================================================================================ *)
Definition pw (a k : Z) : Z := a ^ k.

Lemma pw_eq a k : a ^ k = pw a k.
Proof. reflexivity. Qed.

(* by rewriting, never by [change]: the kernel would re-check the conversion pw a 100 == a ^ 100 at Qed by
   evaluating the power *)
Ltac hide_pows :=
  repeat match goal with
         | |- context [Z.pow ?a ?k] => rewrite (pw_eq a k)
         | H : context [Z.pow ?a ?k] |- _ => rewrite (pw_eq a k) in H
         end.

Lemma pow_nn a k : 0 <= a -> 0 <= pw a k.
Proof. intros; unfold pw; apply Z.pow_nonneg; assumption. Qed.
Lemma pow_pos a k : 0 < a -> 0 <= k -> 0 < pw a k.
Proof. intros; unfold pw; apply Z.pow_pos_nonneg; assumption. Qed.
Lemma pow_le a b k : 0 <= a -> a <= b -> pw a k <= pw b k.
Proof. intros; unfold pw; apply Z.pow_le_mono_l; lia. Qed.
Lemma pow_lt a b k : 0 <= a -> a < b -> 0 < k -> pw a k < pw b k.
Proof. intros; unfold pw; apply Z.pow_lt_mono_l; lia. Qed.
Lemma pow_le_exp a j k : 0 < a -> 0 <= j -> j <= k -> pw a j <= pw a k.
Proof. intros; unfold pw; apply Z.pow_le_mono_r; lia. Qed.
Lemma pow_mul a b k : pw (a * b) k = pw a k * pw b k.
Proof. unfold pw; apply Z.pow_mul_l. Qed.
Lemma pow_pow a j k : 0 <= j -> 0 <= k -> pw (pw a j) k = pw a (j * k).
Proof. intros; unfold pw; symmetry; apply Z.pow_mul_r; assumption. Qed.
Lemma pow_one a : pw a 1 = a.
Proof. unfold pw; apply Z.pow_1_r. Qed.
Lemma pow_zero_base k : 0 < k -> pw 0 k = 0.
Proof. intros; unfold pw; apply Z.pow_0_l; assumption. Qed.

(* a <= b  <->  a^k <= b^k  for non-negative bases and k > 0 *)
Lemma pow_le_iff a b k : 0 <= a -> 0 <= b -> 0 < k -> (pw a k <= pw b k <-> a <= b).
Proof.
  intros Ha Hb Hk. split; intros H.
  - destruct (Z.le_gt_cases a b) as [G|G]; [exact G|].
    pose proof (pow_lt b a k Hb G Hk). lia.
  - apply pow_le; assumption.
Qed.

Lemma leb_true a b : (a <=? b) = true <-> a <= b.
Proof. apply Z.leb_le. Qed.
Lemma leb_false a b : (a <=? b) = false <-> b < a.
Proof. apply Z.leb_gt. Qed.

(* unfolding equations, in the orientation whose kernel check is syntactic (never [unfold] a predicate that
   contains x ^ 100: the conversion re-check at Qed may evaluate the power) *)
Lemma pr_ok_eq s r c d y : pr_ok s r c d y = ((y + s) ^ 100 * r ^ c <=? (r + d) ^ c * s ^ 100).
Proof. reflexivity. Qed.
Lemma pa_ok_eq s r c w x : pa_ok s r c w x = ((x + r) ^ c * s ^ 100 <=? r ^ c * (w + s) ^ 100).
Proof. reflexivity. Qed.
Lemma sr_ok_eq s r c a y : sr_ok s r c a y = (r ^ c * (s - a) ^ 100 <=? (r - y) ^ c * s ^ 100).
Proof. reflexivity. Qed.
Lemma sa_ok_eq s r c w x : sa_ok s r c w x = (s ^ 100 * (r - w) ^ c <=? (s - x) ^ 100 * r ^ c).
Proof. reflexivity. Qed.
Lemma pa_hi_eq r w : pa_hi r w = r * (1 + w) ^ 10.
Proof. reflexivity. Qed.

Ltac open_ok :=
  repeat first [ rewrite pr_ok_eq in * | rewrite pa_ok_eq in * | rewrite sr_ok_eq in * | rewrite sa_ok_eq in *
               | rewrite pa_hi_eq in * ];
  hide_pows.

(* ================================================================================================ *)
(* 3. the four inequalities: downward closed, true at 0, false above the search range               *)
(* ================================================================================================ *)
Section Curve.
Variables s r c : Z.
Hypothesis Hs : 0 < s.
Hypothesis Hr : 0 < r.
Hypothesis Hc : 10 <= c <= 100.
Set Default Proof Using "Hs Hr Hc".

(* --- purchase return ----------------------------------------------------------------------------- *)
Lemma pr_dc d hi : down_closed (pr_ok s r c d) 0 hi.
Proof.
  intros x y Hx Hxy _ Hy. open_ok. hide_pows. apply leb_true in Hy. apply leb_true.
  pose proof (pow_le (x + s) (y + s) 100 ltac:(lia) ltac:(lia)) as H1.
  pose proof (pow_nn r c ltac:(lia)) as H2.
  nia.
Qed.

Lemma pr_zero d : 0 <= d -> pr_ok s r c d 0 = true.
Proof.
  intros Hd. open_ok. rewrite Z.add_0_l. hide_pows. apply leb_true.
  pose proof (pow_le r (r + d) c ltac:(lia) ltac:(lia)) as H1.
  pose proof (pow_nn s 100 ltac:(lia)) as H2.
  nia.
Qed.

Lemma pr_above d y : 0 <= d -> pr_hi s d < y -> pr_ok s r c d y = false.
Proof.
  intros Hd Hy. unfold pr_hi in *. open_ok. apply leb_false.
  assert (H1 : pw (s * (1 + d)) 100 < pw (y + s) 100) by (apply pow_lt; nia).
  rewrite pow_mul in H1.
  assert (H3 : pw (1 + d) c <= pw (1 + d) 100) by (apply pow_le_exp; lia).
  assert (H4 : pw (r + d) c <= pw ((1 + d) * r) c) by (apply pow_le; nia).
  rewrite pow_mul in H4.
  pose proof (pow_pos s 100 Hs ltac:(lia)) as P1.
  pose proof (pow_pos r c Hr ltac:(lia)) as P2.
  pose proof (pow_pos (1 + d) c ltac:(lia) ltac:(lia)) as P3.
  assert (G1 : pw (r + d) c * pw s 100 <= pw (1 + d) c * pw r c * pw s 100) by nia.
  assert (G2 : pw (1 + d) c * pw r c * pw s 100 <= pw (1 + d) 100 * pw r c * pw s 100) by nia.
  assert (G3 : pw (1 + d) 100 * pw r c * pw s 100 < pw (y + s) 100 * pw r c) by nia.
  lia.
Qed.

(* --- purchase amount ----------------------------------------------------------------------------- *)
Lemma pa_dc w hi : down_closed (pa_ok s r c w) 0 hi.
Proof.
  intros x y Hx Hxy _ Hy. open_ok. hide_pows. apply leb_true in Hy. apply leb_true.
  pose proof (pow_le (x + r) (y + r) c ltac:(lia) ltac:(lia)) as H1.
  pose proof (pow_nn s 100 ltac:(lia)) as H2.
  nia.
Qed.

Lemma pa_zero w : 0 <= w -> pa_ok s r c w 0 = true.
Proof.
  intros Hw. open_ok. rewrite Z.add_0_l. hide_pows. apply leb_true.
  pose proof (pow_le s (w + s) 100 ltac:(lia) ltac:(lia)) as H1.
  pose proof (pow_nn r c ltac:(lia)) as H2.
  nia.
Qed.

Lemma pow10_ge a : 1 <= a -> a <= pw a 10.
Proof.
  intros Ha. rewrite <- (pow_one a) at 1. apply pow_le_exp; lia.
Qed.

Lemma pa_above w x : 0 <= w -> pa_hi r w < x -> pa_ok s r c w x = false.
Proof.
  intros Hw Hx. open_ok. apply leb_false.
  pose proof (pow_pos (1 + w) 10 ltac:(lia) ltac:(lia)) as P0.
  assert (H1 : pw (r * pw (1 + w) 10) c < pw (x + r) c) by (apply pow_lt; nia).
  rewrite pow_mul, pow_pow in H1 by lia.
  assert (H3 : pw (1 + w) 100 <= pw (1 + w) (10 * c)) by (apply pow_le_exp; lia).
  assert (H4 : pw (w + s) 100 <= pw ((1 + w) * s) 100) by (apply pow_le; nia).
  rewrite pow_mul in H4.
  pose proof (pow_pos s 100 Hs ltac:(lia)) as P1.
  pose proof (pow_pos r c Hr ltac:(lia)) as P2.
  pose proof (pow_pos (1 + w) 100 ltac:(lia) ltac:(lia)) as P3.
  assert (G1 : pw r c * pw (w + s) 100 <= pw r c * (pw (1 + w) 100 * pw s 100)) by nia.
  assert (G2 : pw r c * (pw (1 + w) 100 * pw s 100) <= pw r c * pw (1 + w) (10 * c) * pw s 100) by nia.
  assert (G3 : pw r c * pw (1 + w) (10 * c) * pw s 100 < pw (x + r) c * pw s 100) by nia.
  lia.
Qed.

(* --- sale return ------------------------------------------------------------------------------- *)
Lemma sr_dc a : down_closed (sr_ok s r c a) 0 r.
Proof.
  intros x y Hx Hxy Hyr Hy. open_ok. hide_pows. apply leb_true in Hy. apply leb_true.
  pose proof (pow_le (r - y) (r - x) c ltac:(lia) ltac:(lia)) as H1.
  pose proof (pow_nn s 100 ltac:(lia)) as H2.
  nia.
Qed.

Lemma sr_zero a : 0 <= a <= s -> sr_ok s r c a 0 = true.
Proof.
  intros Ha. open_ok. rewrite Z.sub_0_r. hide_pows. apply leb_true.
  pose proof (pow_le (s - a) s 100 ltac:(lia) ltac:(lia)) as H1.
  pose proof (pow_nn r c ltac:(lia)) as H2.
  nia.
Qed.

(* --- sale amount ------------------------------------------------------------------------------- *)
Lemma sa_dc w : down_closed (sa_ok s r c w) 0 s.
Proof.
  intros x y Hx Hxy Hys Hy. open_ok. hide_pows. apply leb_true in Hy. apply leb_true.
  pose proof (pow_le (s - y) (s - x) 100 ltac:(lia) ltac:(lia)) as H1.
  pose proof (pow_nn r c ltac:(lia)) as H2.
  nia.
Qed.

Lemma sa_zero w : 0 <= w <= r -> sa_ok s r c w 0 = true.
Proof.
  intros Hw. open_ok. rewrite Z.sub_0_r. hide_pows. apply leb_true.
  pose proof (pow_le (r - w) r c ltac:(lia) ltac:(lia)) as H1.
  pose proof (pow_nn s 100 ltac:(lia)) as H2.
  nia.
Qed.

Lemma pr_hi_nn d : 0 <= d -> 0 <= pr_hi s d.
Proof. intros; unfold pr_hi; nia. Qed.
Lemma pa_hi_nn w : 0 <= w -> 0 <= pa_hi r w.
Proof. intros; open_ok. pose proof (pow_nn (1 + w) 10 ltac:(lia)). nia. Qed.

(* ================================================================================================ *)
(* 4. the ideal functions are exactly "the largest integer satisfying the inequality"               *)
(* ================================================================================================ *)
Theorem ideal_purchase_return_spec d : 0 <= d ->
  0 <= ideal_purchase_return s r c d /\
  pr_ok s r c d (ideal_purchase_return s r c d) = true /\
  (forall y, ideal_purchase_return s r c d < y -> pr_ok s r c d y = false).
Proof.
  intros Hd. unfold ideal_purchase_return.
  destruct (largest_sat_spec _ 0 (pr_hi s d) (pr_hi_nn d Hd) (pr_dc d _) (pr_zero d Hd)) as (Ha & Hb & Hm).
  split; [lia|]. split; [exact Hb|].
  intros y Hy. destruct (Z.le_gt_cases y (pr_hi s d)) as [G|G]; [apply Hm; assumption|apply pr_above; assumption].
Qed.

Theorem ideal_purchase_amount_spec w : 0 <= w ->
  0 <= ideal_purchase_amount s r c w /\
  pa_ok s r c w (ideal_purchase_amount s r c w) = true /\
  (forall x, ideal_purchase_amount s r c w < x -> pa_ok s r c w x = false).
Proof.
  intros Hw. unfold ideal_purchase_amount.
  destruct (largest_sat_spec _ 0 (pa_hi r w) (pa_hi_nn w Hw) (pa_dc w _) (pa_zero w Hw)) as (Ha & Hb & Hm).
  split; [lia|]. split; [exact Hb|].
  intros y Hy. destruct (Z.le_gt_cases y (pa_hi r w)) as [G|G]; [apply Hm; assumption|apply pa_above; assumption].
Qed.

Theorem ideal_sale_return_spec a : 0 <= a <= s ->
  0 <= ideal_sale_return s r c a <= r /\
  sr_ok s r c a (ideal_sale_return s r c a) = true /\
  (forall y, ideal_sale_return s r c a < y -> y <= r -> sr_ok s r c a y = false).
Proof.
  intros Ha. unfold ideal_sale_return.
  exact (largest_sat_spec _ 0 r ltac:(lia) (sr_dc a) (sr_zero a Ha)).
Qed.

Theorem ideal_sale_amount_spec w : 0 <= w <= r ->
  0 <= ideal_sale_amount s r c w <= s /\
  sa_ok s r c w (ideal_sale_amount s r c w) = true /\
  (forall x, ideal_sale_amount s r c w < x -> x <= s -> sa_ok s r c w x = false).
Proof.
  intros Hw. unfold ideal_sale_amount.
  exact (largest_sat_spec _ 0 s ltac:(lia) (sa_dc w) (sa_zero w Hw)).
Qed.

End Curve.
Unset Default Proof Using.

(* ================================================================================================ *)
(* 5. properties of the exact curve                                                                  *)
(* ================================================================================================ *)
Section CurveProps.
Variables s r c : Z.
Hypothesis Hs : 0 < s.
Hypothesis Hr : 0 < r.
Hypothesis Hc : 10 <= c <= 100.
Set Default Proof Using "Hs Hr Hc".

(* --- monotone in the amount ---------------------------------------------------------------------- *)
Theorem ideal_purchase_return_mono d d' : 0 <= d -> d <= d' ->
  ideal_purchase_return s r c d <= ideal_purchase_return s r c d'.
Proof.
  intros Hd Hdd. unfold ideal_purchase_return.
  apply largest_sat_mono; try (apply pr_dc; assumption); try (apply pr_zero; try assumption; lia).
  - apply (pr_hi_nn s r c); assumption.
  - unfold pr_hi; nia.
  - intros y Hy Hp. open_ok. hide_pows. apply leb_true in Hp. apply leb_true.
    pose proof (pow_le (r + d) (r + d') c ltac:(lia) ltac:(lia)) as H1.
    pose proof (pow_nn s 100 ltac:(lia)) as H2. nia.
Qed.

Theorem ideal_purchase_amount_mono w w' : 0 <= w -> w <= w' ->
  ideal_purchase_amount s r c w <= ideal_purchase_amount s r c w'.
Proof.
  intros Hw Hww. unfold ideal_purchase_amount.
  apply largest_sat_mono; try (apply pa_dc; assumption); try (apply pa_zero; try assumption; lia).
  - apply (pa_hi_nn s r c); assumption.
  - open_ok. pose proof (pow_le (1 + w) (1 + w') 10 ltac:(lia) ltac:(lia)). nia.
  - intros y Hy Hp. open_ok. hide_pows. apply leb_true in Hp. apply leb_true.
    pose proof (pow_le (w + s) (w' + s) 100 ltac:(lia) ltac:(lia)) as H1.
    pose proof (pow_nn r c ltac:(lia)) as H2. nia.
Qed.

Theorem ideal_sale_return_mono a a' : 0 <= a -> a <= a' -> a' <= s ->
  ideal_sale_return s r c a <= ideal_sale_return s r c a'.
Proof.
  intros Ha Haa Has. unfold ideal_sale_return.
  apply largest_sat_mono; try (apply sr_dc; assumption); try (apply sr_zero; try assumption; lia); try lia.
  intros y Hy Hp. open_ok. hide_pows. apply leb_true in Hp. apply leb_true.
  pose proof (pow_le (s - a') (s - a) 100 ltac:(lia) ltac:(lia)) as H1.
  pose proof (pow_nn r c ltac:(lia)) as H2. nia.
Qed.

Theorem ideal_sale_amount_mono w w' : 0 <= w -> w <= w' -> w' <= r ->
  ideal_sale_amount s r c w <= ideal_sale_amount s r c w'.
Proof.
  intros Hw Hww Hwr. unfold ideal_sale_amount.
  apply largest_sat_mono; try (apply sa_dc; assumption); try (apply sa_zero; try assumption; lia); try lia.
  intros y Hy Hp. open_ok. hide_pows. apply leb_true in Hp. apply leb_true.
  pose proof (pow_le (r - w') (r - w) c ltac:(lia) ltac:(lia)) as H1.
  pose proof (pow_nn s 100 ltac:(lia)) as H2. nia.
Qed.

(* --- selling the entire supply returns exactly the reserve --------------------------------------- *)
Theorem ideal_sale_return_all : ideal_sale_return s r c s = r.
Proof.
  unfold ideal_sale_return.
  apply largest_sat_unique; try lia; try (apply sr_dc; assumption); try (apply sr_zero; try assumption; lia).
  open_ok. rewrite !Z.sub_diag. hide_pows. apply leb_true.
  rewrite (pow_zero_base 100), (pow_zero_base c) by lia. lia.
Qed.

(* --- amount 0 ------------------------------------------------------------------------------------- *)
Lemma ideal_purchase_return_zero : ideal_purchase_return s r c 0 = 0.
Proof.
  destruct (ideal_purchase_return_spec s r c Hs Hr Hc 0 ltac:(lia)) as (Ha & _ & _).
  unfold ideal_purchase_return in *.
  destruct (largest_sat_spec _ 0 (pr_hi s 0) (pr_hi_nn s r c Hs Hr Hc 0 ltac:(lia)) (pr_dc s r c Hs Hr Hc 0 _) (pr_zero s r c Hs Hr Hc 0 ltac:(lia))) as (Hb & _).
  unfold pr_hi in *. lia.
Qed.

Lemma ideal_purchase_amount_zero : ideal_purchase_amount s r c 0 = 0.
Proof.
  destruct (ideal_purchase_amount_spec s r c Hs Hr Hc 0 ltac:(lia)) as (Ha & _ & Hm).
  destruct (Z.eq_dec (ideal_purchase_amount s r c 0) 0) as [E|E]; [exact E|exfalso].
  destruct (ideal_purchase_amount_spec s r c Hs Hr Hc 0 ltac:(lia)) as (_ & Hb & _).
  set (v := ideal_purchase_amount s r c 0) in *.
  open_ok. rewrite Z.add_0_l in Hb. hide_pows. apply leb_true in Hb.
  pose proof (pow_lt r (v + r) c ltac:(lia) ltac:(lia) ltac:(lia)) as H1.
  pose proof (pow_pos s 100 Hs ltac:(lia)) as H2. nia.
Qed.

Lemma ideal_sale_return_zero : ideal_sale_return s r c 0 = 0.
Proof.
  destruct (ideal_sale_return_spec s r c Hs Hr Hc 0 ltac:(lia)) as (Ha & Hb & _).
  destruct (Z.eq_dec (ideal_sale_return s r c 0) 0) as [E|E]; [exact E|exfalso].
  set (v := ideal_sale_return s r c 0) in *.
  open_ok. rewrite Z.sub_0_r in Hb. hide_pows. apply leb_true in Hb.
  pose proof (pow_lt (r - v) r c ltac:(lia) ltac:(lia) ltac:(lia)) as H1.
  pose proof (pow_pos s 100 Hs ltac:(lia)) as H2. nia.
Qed.

Lemma ideal_sale_amount_zero : ideal_sale_amount s r c 0 = 0.
Proof.
  destruct (ideal_sale_amount_spec s r c Hs Hr Hc 0 ltac:(lia)) as (Ha & Hb & _).
  destruct (Z.eq_dec (ideal_sale_amount s r c 0) 0) as [E|E]; [exact E|exfalso].
  set (v := ideal_sale_amount s r c 0) in *.
  open_ok. rewrite Z.sub_0_r in Hb. hide_pows. apply leb_true in Hb.
  pose proof (pow_lt (s - v) s 100 ltac:(lia) ltac:(lia) ltac:(lia)) as H1.
  pose proof (pow_pos r c Hr ltac:(lia)) as H2. nia.
Qed.

(* --- round trip: selling what was bought never returns more than was paid ------------------------ *)
(* for ANY y that does not exceed the curve (pr_ok), in particular y = ideal_purchase_return *)
Lemma sale_of_purchase_le d y : 0 <= d -> 0 <= y -> pr_ok s r c d y = true ->
  ideal_sale_return (s + y) (r + d) c y <= d.
Proof.
  intros Hd Hy Hp.
  destruct (ideal_sale_return_spec (s + y) (r + d) c ltac:(lia) ltac:(lia) Hc y ltac:(lia)) as (Ha & Hb & _).
  set (z := ideal_sale_return (s + y) (r + d) c y) in *.
  destruct (Z.le_gt_cases z d) as [G|G]; [exact G|exfalso].
  open_ok.
  replace (s + y - y) with s in Hb by lia. replace (y + s) with (s + y) in Hp by lia.
  hide_pows. apply leb_true in Hb. apply leb_true in Hp.
  pose proof (pow_lt (r + d - z) r c ltac:(lia) ltac:(lia) ltac:(lia)) as H1.
  pose proof (pow_pos (s + y) 100 ltac:(lia) ltac:(lia)) as H2.
  nia.
Qed.

Theorem ideal_round_trip d : 0 <= d ->
  ideal_sale_return (s + ideal_purchase_return s r c d) (r + d) c (ideal_purchase_return s r c d) <= d.
Proof.
  intros Hd. destruct (ideal_purchase_return_spec s r c Hs Hr Hc d Hd) as (Ha & Hb & _).
  apply sale_of_purchase_le; assumption.
Qed.

End CurveProps.
Unset Default Proof Using.

(* ================================================================================================ *)
(* 6. crr = 100: the curve is linear, the floor divisions of formula.go are the exact values        *)
(* ================================================================================================ *)
Lemma div_lo a b : 0 < b -> b * (a / b) <= a.
Proof. intros; apply Z.mul_div_le; lia. Qed.
Lemma div_hi a b : 0 < b -> a < b * (a / b + 1).
Proof. intros Hb. pose proof (Z.mod_pos_bound a b Hb). pose proof (Z.div_mod a b). nia. Qed.
Lemma div_nn a b : 0 <= a -> 0 < b -> 0 <= a / b.
Proof. intros; apply Z.div_pos; lia. Qed.

Lemma pow_prod_le A B C D k : 0 <= A * B -> A * B <= C * D -> pw A k * pw B k <= pw C k * pw D k.
Proof. intros H0 H. rewrite <- !pow_mul. apply pow_le; assumption. Qed.
Lemma pow_prod_lt A B C D k : 0 < k -> 0 <= A * B -> A * B < C * D -> pw A k * pw B k < pw C k * pw D k.
Proof. intros Hk H0 H. rewrite <- !pow_mul. apply pow_lt; assumption. Qed.

Section Linear.
Variables s r : Z.
Hypothesis Hs : 0 < s.
Hypothesis Hr : 0 < r.
Set Default Proof Using "Hs Hr".

Theorem ideal_purchase_return_100 d : 0 <= d -> ideal_purchase_return s r 100 d = s * d / r.
Proof.
  intros Hd. unfold ideal_purchase_return.
  pose proof (div_lo (s * d) r Hr) as L. pose proof (div_hi (s * d) r Hr) as U.
  pose proof (div_nn (s * d) r ltac:(nia) Hr) as N.
  apply largest_sat_unique.
  - apply (pr_hi_nn s r 100); (assumption || lia).
  - apply pr_dc; (assumption || lia).
  - apply pr_zero; (assumption || lia).
  - unfold pr_hi. split; [exact N|]. apply Z.div_le_upper_bound; nia.
  - open_ok. apply leb_true. apply pow_prod_le; nia.
  - intros y Hy _. open_ok. apply leb_false. apply pow_prod_lt; nia.
Qed.

Theorem ideal_purchase_amount_100 w : 0 <= w -> ideal_purchase_amount s r 100 w = w * r / s.
Proof.
  intros Hw. unfold ideal_purchase_amount.
  pose proof (div_lo (w * r) s Hs) as L. pose proof (div_hi (w * r) s Hs) as U.
  pose proof (div_nn (w * r) s ltac:(nia) Hs) as N.
  apply largest_sat_unique.
  - apply (pa_hi_nn s r 100); (assumption || lia).
  - apply pa_dc; (assumption || lia).
  - apply pa_zero; (assumption || lia).
  - split; [exact N|]. rewrite pa_hi_eq. hide_pows.
    pose proof (pow10_ge s r 100 Hs Hr ltac:(lia) (1 + w) ltac:(lia)) as G.
    assert (G1 : w * r <= r * pw (1 + w) 10) by nia.
    assert (G2 : 0 <= r * pw (1 + w) 10) by nia.
    apply Z.div_le_upper_bound; [assumption|]. nia.
  - open_ok. apply leb_true. apply pow_prod_le; nia.
  - intros y Hy _. open_ok. apply leb_false. apply pow_prod_lt; nia.
Qed.

Theorem ideal_sale_return_100 a : 0 <= a <= s -> ideal_sale_return s r 100 a = r * a / s.
Proof.
  intros Ha. unfold ideal_sale_return.
  pose proof (div_lo (r * a) s Hs) as L. pose proof (div_hi (r * a) s Hs) as U.
  pose proof (div_nn (r * a) s ltac:(nia) Hs) as N.
  assert (Hle : r * a / s <= r) by (apply Z.div_le_upper_bound; nia).
  apply largest_sat_unique.
  - lia.
  - apply sr_dc; (assumption || lia).
  - apply sr_zero; (assumption || lia).
  - lia.
  - open_ok. apply leb_true. apply pow_prod_le; nia.
  - intros y Hy Hyr. open_ok. apply leb_false. apply pow_prod_lt; nia.
Qed.

Theorem ideal_sale_amount_100 w : 0 <= w <= r -> ideal_sale_amount s r 100 w = w * s / r.
Proof.
  intros Hw. unfold ideal_sale_amount.
  pose proof (div_lo (w * s) r Hr) as L. pose proof (div_hi (w * s) r Hr) as U.
  pose proof (div_nn (w * s) r ltac:(nia) Hr) as N.
  assert (Hle : w * s / r <= s) by (apply Z.div_le_upper_bound; nia).
  apply largest_sat_unique.
  - lia.
  - apply sa_dc; (assumption || lia).
  - apply sa_zero; (assumption || lia).
  - lia.
  - open_ok. apply leb_true. apply pow_prod_le; nia.
  - intros y Hy Hys. open_ok. apply leb_false. apply pow_prod_lt; nia.
Qed.

End Linear.
Unset Default Proof Using.

(* ================================================================================================ *)
(* 7. the integer branches of formula.go return exactly the curve value                             *)
(* ================================================================================================ *)
Lemma ediv_val a b : 0 < b -> ediv a b = Val (a / b).
Proof.
  intros Hb; unfold ediv.
  destruct (Z.eqb_spec b 0); [lia|].
  destruct (Z.ltb_spec 0 b); [reflexivity|lia].
Qed.

Section IntBranches.
Variables s r c : Z.
Hypothesis Hs : 0 < s.
Hypothesis Hr : 0 < r.
Hypothesis Hc : 10 <= c <= 100.
Set Default Proof Using "Hs Hr Hc".

Theorem code_purchase_return_int_exact d v : 0 <= d ->
  code_purchase_return_int s r c d = Some v -> v = Val (ideal_purchase_return s r c d).
Proof.
  intros Hd H. unfold code_purchase_return_int in H.
  destruct (Z.eqb_spec d 0) as [E|E].
  - injection H as <-. subst d. rewrite ideal_purchase_return_zero by assumption. reflexivity.
  - destruct (Z.eqb_spec c 100) as [E2|E2]; [|discriminate].
    injection H as <-. subst c. rewrite ediv_val by assumption.
    rewrite ideal_purchase_return_100 by assumption. reflexivity.
Qed.

Theorem code_purchase_amount_int_exact w v : 0 <= w ->
  code_purchase_amount_int s r c w = Some v -> v = Val (ideal_purchase_amount s r c w).
Proof.
  intros Hw H. unfold code_purchase_amount_int in H.
  destruct (Z.eqb_spec w 0) as [E|E].
  - injection H as <-. subst w. rewrite ideal_purchase_amount_zero by assumption. reflexivity.
  - destruct (Z.eqb_spec c 100) as [E2|E2]; [|discriminate].
    injection H as <-. subst c. rewrite ediv_val by assumption.
    rewrite ideal_purchase_amount_100 by assumption. reflexivity.
Qed.

Theorem code_sale_return_int_exact a v : 0 <= a <= s ->
  code_sale_return_int s r c a = Some v -> v = Val (ideal_sale_return s r c a).
Proof.
  intros Ha H. unfold code_sale_return_int in H.
  destruct (Z.eqb_spec a 0) as [E|E].
  - injection H as <-. subst a. rewrite ideal_sale_return_zero by assumption. reflexivity.
  - destruct (Z.eqb_spec a s) as [E1|E1].
    + injection H as <-. subst a. rewrite ideal_sale_return_all by assumption. reflexivity.
    + destruct (Z.eqb_spec c 100) as [E2|E2]; [|discriminate].
      injection H as <-. subst c. rewrite ediv_val by assumption.
      rewrite ideal_sale_return_100 by assumption. reflexivity.
Qed.

Theorem code_sale_amount_int_exact w v : 0 <= w <= r ->
  code_sale_amount_int s r c w = Some v -> v = Val (ideal_sale_amount s r c w).
Proof.
  intros Hw H. unfold code_sale_amount_int in H.
  destruct (Z.eqb_spec w 0) as [E|E].
  - injection H as <-. subst w. rewrite ideal_sale_amount_zero by assumption. reflexivity.
  - destruct (Z.eqb_spec c 100) as [E2|E2]; [|discriminate].
    injection H as <-. subst c. rewrite ediv_val by assumption.
    rewrite ideal_sale_amount_100 by assumption. reflexivity.
Qed.

End IntBranches.
Unset Default Proof Using.

(* ================================================================================================ *)
(* 8. the specifications with the inequalities written out                                          *)
(* ================================================================================================ *)
Section Formulas.
Variables s r c : Z.
Hypothesis Hs : 0 < s.
Hypothesis Hr : 0 < r.
Hypothesis Hc : 10 <= c <= 100.
Set Default Proof Using "Hs Hr Hc".

Theorem ideal_purchase_return_formula d : 0 <= d ->
  let y := ideal_purchase_return s r c d in
  0 <= y /\ (y + s) ^ 100 * r ^ c <= (r + d) ^ c * s ^ 100 /\
  (forall y', y < y' -> (r + d) ^ c * s ^ 100 < (y' + s) ^ 100 * r ^ c).
Proof.
  intros Hd y. destruct (ideal_purchase_return_spec s r c Hs Hr Hc d Hd) as (Ha & Hb & Hm). fold y in Ha, Hb, Hm.
  split; [exact Ha|]. split.
  - rewrite pr_ok_eq in Hb. apply leb_true in Hb. exact Hb.
  - intros y' Hy. specialize (Hm y' Hy). rewrite pr_ok_eq in Hm. apply leb_false in Hm. exact Hm.
Qed.

Theorem ideal_purchase_amount_formula w : 0 <= w ->
  let x := ideal_purchase_amount s r c w in
  0 <= x /\ (x + r) ^ c * s ^ 100 <= r ^ c * (w + s) ^ 100 /\
  (forall x', x < x' -> r ^ c * (w + s) ^ 100 < (x' + r) ^ c * s ^ 100).
Proof.
  intros Hw x. destruct (ideal_purchase_amount_spec s r c Hs Hr Hc w Hw) as (Ha & Hb & Hm). fold x in Ha, Hb, Hm.
  split; [exact Ha|]. split.
  - rewrite pa_ok_eq in Hb. apply leb_true in Hb. exact Hb.
  - intros x' Hx. specialize (Hm x' Hx). rewrite pa_ok_eq in Hm. apply leb_false in Hm. exact Hm.
Qed.

Theorem ideal_sale_return_formula a : 0 <= a <= s ->
  let y := ideal_sale_return s r c a in
  0 <= y <= r /\ r ^ c * (s - a) ^ 100 <= (r - y) ^ c * s ^ 100 /\
  (forall y', y < y' -> y' <= r -> (r - y') ^ c * s ^ 100 < r ^ c * (s - a) ^ 100).
Proof.
  intros Ha y. destruct (ideal_sale_return_spec s r c Hs Hr Hc a Ha) as (Hy & Hb & Hm). fold y in Hy, Hb, Hm.
  split; [exact Hy|]. split.
  - rewrite sr_ok_eq in Hb. apply leb_true in Hb. exact Hb.
  - intros y' Hlt Hle. specialize (Hm y' Hlt Hle). rewrite sr_ok_eq in Hm. apply leb_false in Hm. exact Hm.
Qed.

Theorem ideal_sale_amount_formula w : 0 <= w <= r ->
  let x := ideal_sale_amount s r c w in
  0 <= x <= s /\ s ^ 100 * (r - w) ^ c <= (s - x) ^ 100 * r ^ c /\
  (forall x', x < x' -> x' <= s -> (s - x') ^ 100 * r ^ c < s ^ 100 * (r - w) ^ c).
Proof.
  intros Hw x. destruct (ideal_sale_amount_spec s r c Hs Hr Hc w Hw) as (Hx & Hb & Hm). fold x in Hx, Hb, Hm.
  split; [exact Hx|]. split.
  - rewrite sa_ok_eq in Hb. apply leb_true in Hb. exact Hb.
  - intros x' Hlt Hle. specialize (Hm x' Hlt Hle). rewrite sa_ok_eq in Hm. apply leb_false in Hm. exact Hm.
Qed.

End Formulas.
Unset Default Proof Using.
