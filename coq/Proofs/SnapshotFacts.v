(* SnapshotFacts.v — state sync on the persistence model: the snapshot depends on the disk only,
   a restored node has the producer's appdb disk and tree version, and continues like it. *)
From Minter Require Import Base Persist PersistFacts PersistGen Crash CrashFacts CrashEvFacts CrashReplay CrashMain Snapshot.
From Coq Require Import ZArith Lia List Bool Arith.
Import ListNotations.
Open Scope Z_scope.

(* ---- restarts do not change the disk: histories ------------------------------------------------ *)
Lemma iter_crestart_good : forall k s, cgood s -> cgood (iter_crestart k s) /\ fst (iter_crestart k s) = fst s.
Proof.
  induction k as [|k IH]; intros s G; cbn [iter_crestart]; [split; [exact G|reflexivity]|].
  destruct (IH (crestart s) (cgood_restart s G)) as [G' E]. split; [exact G'|exact E].
Qed.

Section Hist.
Variable keep : Z.
Hypothesis keep_pos : 1 <= keep.

Lemma run_hist_same_disk : forall hs hl l s s' os,
  map fst hl = map fst hs -> cgood l -> cgood s -> fst l = fst s ->
  run_hist_c keep s hs = Val (s', os) ->
  exists l', run_hist_c keep l hl = Val (l', os) /\ fst l' = fst s' /\ cgood l' /\ cgood s'.
Proof.
  induction hs as [|[b k] r IH]; intros hl l s s' os EM Gl Gs E R.
  - destruct hl; [|discriminate]. cbn in *. inversion R. subst. exists l.
    split; [reflexivity|]. split; [exact E|]. split; assumption.
  - destruct hl as [|[b' k'] rl]; [discriminate|]. cbn [map fst] in EM. injection EM as Eb EM'. subst b'.
    cbn [run_hist_c] in *.
    destruct (run_block keep false s b) as [[[s1 o1] w1]| |] eqn:RB; cbn [obind] in R; try discriminate.
    cbn [fst snd] in R.
    destruct (run_hist_c keep (iter_crestart k s1) r) as [[s2 os2]| |] eqn:RH; cbn [obind] in R; try discriminate.
    injection R as R1 R2. subst s' os.
    destruct (run_block_prepare _ _ _ _ _ _ _ RB) as [ps P].
    destruct (block_sim keep false keep_pos l s b ps s1 o1 w1 Gs P RB (behind_same_disk keep l s ps Gl Gs E)) as (l1 & w1' & R1 & E1 & G1).
    rewrite R1. cbn [obind fst snd].
    pose proof (run_block_good keep false keep_pos _ _ _ _ _ Gs RB) as Gs1.
    destruct (iter_crestart_good k s1 Gs1) as [GsR EsR]. destruct (iter_crestart_good k' l1 G1) as [GlR ElR].
    destruct (IH rl (iter_crestart k' l1) (iter_crestart k s1) s2 os2 EM' GlR GsR ltac:(rewrite ElR, EsR; exact E1) RH) as (l2 & R2 & E2 & G2 & G2').
    rewrite R2. cbn [obind fst snd]. exists l2. split; [reflexivity|]. split; [exact E2|]. split; assumption.
Qed.
End Hist.

(* ---- the snapshot is a function of the disk ---------------------------------------------------- *)
Lemma snapshot_same_disk l s h : cgood l -> cgood s -> fst l = fst s -> snapshot l h = snapshot s h.
Proof.
  intros Gl Gs E. unfold snapshot.
  pose proof (same_disk_view l s Gl Gs E) as V. pose proof (f_equal v_height V) as VH.
  change (get_height (app_of l) = get_height (app_of s)) in VH. rewrite VH, E. reflexivity.
Qed.

(* ---- restore after snapshot ---------------------------------------------------------------------- *)
Lemma restore_items_app s a b : restore_items s (a ++ b) = obind (restore_items s a) (fun s' => restore_items s' b).
Proof.
  revert s. induction a as [|it r IH]; intros s; cbn [app restore_items obind]; [reflexivity|].
  destruct (restore_item s it); cbn [obind]; [apply IH|reflexivity|reflexivity].
Qed.

(* the appdb records of a snapshot, restored on an empty disk, give the producer's appdb disk back
   (emission 0 is stored as empty bytes and is therefore not transported) *)
Lemma restore_records_disk d m0 tr ev :
  d_emission d <> Some 0 ->
  restore_items ({| cd_app := empty_disk; cd_tree := tr; cd_ev := ev |}, m0)
                (flat_map (fun code => snap_record code d) snapshot_records) =
  Val ({| cd_app := d; cd_tree := tr; cd_ev := ev |}, m0).
Proof.
  intros HE. destruct d as [dh dha ds dv dt dve de dp]. cbn [d_emission] in HE.
  unfold snapshot_records. cbn [flat_map snap_record d_hash d_height d_start d_vals d_times d_versions d_emission d_price].
  destruct de as [e|].
  - destruct (Z.eqb_spec e 0) as [E0|N0]; [subst; contradiction HE; reflexivity|].
    destruct dh, dha, ds, dv, dt, dve, dp; reflexivity.
  - destruct dh, dha, ds, dv, dt, dve, dp; reflexivity.
Qed.

Lemma snapshot_restore s h items :
  cgood s -> d_emission (cd_app (fst s)) <> Some 0 -> snapshot s h = Val items ->
  exists c m,
    restore items = Val ({| cd_app := cd_app (fst s); cd_tree := [(h, c)]; cd_ev := empty_edisk |},
                         {| cm_app := m; cm_tree := None; cm_ev := None |}) /\
    m = cache_start empty_mem (get_start (cd_app (fst s), empty_mem)) /\
    aget h (cd_tree (fst s)) = Some c /\ h = get_height (app_of s) /\ h <> 0.
Proof.
  intros G HE S. unfold snapshot in S.
  destruct (Z.eqb_spec h (get_height (app_of s))) as [Eh|]; cbn [negb] in S; [|discriminate].
  destruct (Z.eqb_spec h 0) as [|N0]; [discriminate|].
  destruct (aget h (cd_tree (fst s))) as [c|] eqn:A; [|discriminate].
  remember (flat_map (fun code => snap_record code (cd_app (fst s))) snapshot_records) as recs eqn:ER.
  injection S as S. subst items. exists c. eexists. split; [|split; [reflexivity|split; [reflexivity|split; assumption]]].
  unfold restore, fresh_cst. rewrite restore_items_app. subst recs.
  rewrite (restore_records_disk _ empty_cmem [] empty_edisk HE). cbn [obind restore_items restore_item aset cd_app cd_tree cd_ev cm_app cm_tree cm_ev empty_cmem].
  reflexivity.
Qed.

(* ---- the restored node against the producer: equal appdb disk, the same current tree version,
   independent event tables ----------------------------------------------------------------------- *)
Definition rsim (l s : cst) : Prop :=
  cgood l /\ cgood s /\ cd_app (fst l) = cd_app (fst s) /\
  aget (get_height (app_of s)) (cd_tree (fst l)) = aget (get_height (app_of s)) (cd_tree (fst s)).

Lemma index_of_nth a : forall l i, index_of a l = Some i -> nth i l 0 = a /\ (i < length l)%nat.
Proof.
  induction l as [|x r IH]; intros i; cbn [index_of]; [discriminate|].
  destruct (Z.eqb_spec x a) as [E|N].
  - intros H. injection H as <-. cbn. split; [exact E|lia].
  - destruct (index_of a r) as [j|]; cbn [option_map]; [|discriminate].
    intros H. injection H as <-. destruct (IH j eq_refl) as [I1 I2]. cbn. split; [exact I1|lia].
Qed.

(* what LoadEvents gives back for the block just committed: the keys themselves *)
Lemma save_all_resolve : forall ms c c' ids ws,
  save_all c ms = (c', ids, ws) ->
  map (fun x : bool * nat => nth (snd x) (cget (fst x) c') 0) ids = map snd ms.
Proof.
  induction ms as [|[a0 a] r IH]; intros c c' ids ws Hs.
  - cbn in Hs. inversion Hs. reflexivity.
  - rewrite save_all_cons in Hs. unfold save_key in Hs.
    destruct (index_of a (cget a0 c)) as [i0|] eqn:Ei.
    + destruct (save_all c r) as [[c2 ids2] ws2] eqn:Er. injection Hs as E1 E2 E3. subst c' ids ws.
      cbn [map fst snd]. rewrite (IH _ _ _ _ Er). f_equal.
      destruct (save_all_prefix _ _ _ _ _ Er a0) as [extra Hx]. rewrite Hx.
      destruct (index_of_nth a _ _ Ei) as [N1 N2]. rewrite app_nth1 by exact N2. exact N1.
    + destruct (save_all (cset a0 (cget a0 c ++ [a]) c) r) as [[c2 ids2] ws2] eqn:Er. injection Hs as E1 E2 E3. subst c' ids ws.
      cbn [map fst snd]. rewrite (IH _ _ _ _ Er). f_equal.
      destruct (save_all_prefix _ _ _ _ _ Er a0) as [extra Hx]. rewrite cget_cset_same in Hx. rewrite Hx.
      rewrite <- app_assoc. rewrite app_nth2 by lia. rewrite Nat.sub_diag. reflexivity.
Qed.

Section Restored.
Variable keep : Z.
Hypothesis keep_pos : 1 <= keep.

Lemma events_resolved s b s' o ws :
  cgood s -> run_block keep false s b = Val (s', o, ws) ->
  exists ps, prepare s b = Val ps /\ o_events o = Some (map snd (p_ment ps)).
Proof.
  intros G R. destruct (run_block_facts keep false _ _ _ _ _ G R) as (ps & P & Wsh & PH & PV & OV & OH & FS).
  exists ps. split; [exact P|].
  destruct G as (AG & TG & EG). pose proof (egood_load _ EG) as ECL.
  assert (OE : o_events o = load_events (fst s') (p_h ps)).
  { unfold run_block in R. rewrite P in R. cbn [obind] in R.
    destruct (commit_writes keep false s ps) as [[w m]| |]; cbn [obind] in R; try discriminate.
    injection R as R1 R2 R3. subst s' o ws. reflexivity. }
  rewrite OE, FS, Wsh.
  assert (KT : forallb is_trw (tree_ws keep (cd_tree (fst s)) (get_start (p_app ps)) (p_ver ps) (p_content ps)) = true).
  { unfold tree_ws. destruct ((get_start (p_app ps) <=? p_ver ps - keep - 1) && is_some (aget (p_ver ps - keep - 1) (cd_tree (fst s)))); reflexivity. }
  rewrite (apply_three _ _ _ (fst s) (ev_writes_kind ps) KT (app_ws_kind false (snd (p_app ps)) (p_h ps) (p_content ps))).
  unfold load_events. cbn [cd_ev].
  assert (EVs : p_ev ps = load_ev s).
  { unfold prepare in P. destruct (load_tree s); cbn [obind] in P; try discriminate. injection P as <-. reflexivity. }
  unfold ev_writes. rewrite EVs.
  destruct (save_all (load_ev s) (p_ment ps)) as [[cE ids] wsE] eqn:ES. cbn [snd].
  destruct (ev_full _ _ _ O _ _ _ (p_h ps) ECL ES) as (_ & _ & _ & CL).
  set (e' := evs (wsE ++ [WEvHeight (p_h ps) ids]) (cd_ev (fst s))) in *.
  assert (HH : aget (p_h ps) (e_heights e') = Some ids).
  { unfold e'. rewrite evs_app. unfold evs at 1. cbn [fold_left apply_ev e_heights]. apply aget_aset_same. }
  rewrite HH. f_equal. rewrite <- (save_all_resolve _ _ _ _ _ ES).
  apply map_ext. intros [addr i]. unfold resolve. cbn [fst snd]. rewrite (CL addr), tload_mk. reflexivity.
Qed.

Lemma same_app_view l s : cgood l -> cgood s -> cd_app (fst l) = cd_app (fst s) -> view_of (app_of l) = view_of (app_of s).
Proof.
  intros ([[Cl _] _] & _) ([[Cs _] _] & _) E. unfold coherent, restart in Cl, Cs.
  rewrite <- Cl, <- Cs. unfold app_of. cbn [fst]. rewrite E. reflexivity.
Qed.

Lemma block_rsim l s b s' o ws :
  rsim l s -> run_block keep false s b = Val (s', o, ws) ->
  exists l' ws', run_block keep false l b = Val (l', o, ws') /\ rsim l' s'.
Proof.
  intros (Gl & Gs & EA & ET) R.
  pose proof (same_app_view l s Gl Gs EA) as V.
  assert (HH : get_height (app_of l) = get_height (app_of s)) by exact (f_equal v_height V).
  destruct (run_block_facts keep false _ _ _ _ _ Gs R) as (ps & P & Wsh & PH & PV & OV & OH & FS).
  (* the restored side prepares the same block *)
  assert (A : aeq (app_of l) (app_of s)).
  { destruct Gl as (AGl & _). destruct Gs as (AGs & _). apply agood_aeq; [exact AGl|exact AGs|exact EA]. }
  assert (LT : load_tree l = load_tree s).
  { destruct Gl as (_ & TGl & _). destruct Gs as (_ & TGs & _).
    destruct (tgood_load _ TGl) as (c1 & L1 & A1). destruct (tgood_load _ TGs) as (c2 & L2 & A2).
    rewrite L1, L2, HH. rewrite HH in A1. rewrite ET in A1. congruence. }
  destruct (prepare_sim l s b ps A LT P) as (pl & Ppl & (PA & PHl & PVl & PC & PM & PR) & EVl & FSl & TLl & FLl & HSl & STl & _ & _).
  (* its Commit is an ordinary one: the version is new *)
  assert (Hfresh : aget (p_ver pl) (cd_tree (fst l)) = None).
  { destruct Gl as (_ & (c & _ & _ & T3) & _). apply T3. rewrite PVl, PV, PH, HH. lia. }
  assert (RL : exists l' o' ws', run_block keep false l b = Val (l', o', ws')).
  { unfold run_block. rewrite Ppl. cbn [obind]. rewrite commit_writes_shape, (tree_writes_fresh keep _ _ _ Hfresh). cbn [obind].
    eexists. eexists. eexists. reflexivity. }
  destruct RL as (l' & o' & ws' & RL).
  pose proof (run_block_good keep false keep_pos _ _ _ _ _ Gl RL) as Gl'.
  pose proof (run_block_good keep false keep_pos _ _ _ _ _ Gs R) as Gs'.
  destruct (run_block_facts keep false _ _ _ _ _ Gl RL) as (pl2 & Ppl2 & Wshl & PHl2 & PVl2 & OVl & OHl & FSL).
  rewrite Ppl in Ppl2. injection Ppl2 as <-.
  assert (KTs : forallb is_trw (tree_ws keep (cd_tree (fst s)) (get_start (p_app ps)) (p_ver ps) (p_content ps)) = true).
  { unfold tree_ws. destruct ((get_start (p_app ps) <=? p_ver ps - keep - 1) && is_some (aget (p_ver ps - keep - 1) (cd_tree (fst s)))); reflexivity. }
  assert (KTl : forallb is_trw (tree_ws keep (cd_tree (fst l)) (get_start (p_app pl)) (p_ver pl) (p_content pl)) = true).
  { unfold tree_ws. destruct ((get_start (p_app pl) <=? p_ver pl - keep - 1) && is_some (aget (p_ver pl - keep - 1) (cd_tree (fst l)))); reflexivity. }
  assert (Ds : fst s' = {| cd_app := aps (app_ws false (snd (p_app ps)) (p_h ps) (p_content ps)) (cd_app (fst s));
                           cd_tree := trs (tree_ws keep (cd_tree (fst s)) (get_start (p_app ps)) (p_ver ps) (p_content ps)) (cd_tree (fst s));
                           cd_ev := evs (snd (ev_writes ps)) (cd_ev (fst s)) |}).
  { rewrite FS, Wsh. apply apply_three; [apply ev_writes_kind|exact KTs|apply app_ws_kind]. }
  assert (Dl : fst l' = {| cd_app := aps (app_ws false (snd (p_app pl)) (p_h pl) (p_content pl)) (cd_app (fst l));
                           cd_tree := trs (tree_ws keep (cd_tree (fst l)) (get_start (p_app pl)) (p_ver pl) (p_content pl)) (cd_tree (fst l));
                           cd_ev := evs (snd (ev_writes pl)) (cd_ev (fst l)) |}).
  { rewrite FSL, Wshl. apply apply_three; [apply ev_writes_kind|exact KTl|apply app_ws_kind]. }
  (* equal appdb disks after the block *)
  assert (EA' : cd_app (fst l') = cd_app (fst s')).
  { rewrite Dl, Ds. cbn [cd_app]. rewrite !aps_app_ws.
    assert (FSs : fst (p_app ps) = cd_app (fst s)).
    { destruct (prepare_sim s s b ps (aeq_refl _) eq_refl P) as (p2 & P2 & _ & _ & F & _). rewrite P in P2. injection P2 as <-. exact F. }
    assert (TLs : times_loaded (p_app ps)).
    { destruct (prepare_sim s s b ps (aeq_refl _) eq_refl P) as (p2 & P2 & _ & _ & _ & T & _). rewrite P in P2. injection P2 as <-. exact T. }
    rewrite <- FSl, <- FSs, <- !surjective_pairing, PHl, PC. apply aeq_commit; assumption. }
  pose proof (same_app_view l' s' Gl' Gs' EA') as V'.
  exists l', ws'. split.
  - (* the observations *)
    rewrite RL. f_equal. f_equal. f_equal.
    destruct (events_resolved l b l' o' ws' Gl RL) as (pl3 & Ppl3 & EVo'). rewrite Ppl in Ppl3. injection Ppl3 as <-.
    destruct (events_resolved s b s' o ws Gs R) as (ps3 & Pps3 & EVo). rewrite P in Pps3. injection Pps3 as <-.
    pose proof (run_block_obs keep false _ _ _ _ _ RL) as OVl'. pose proof (run_block_obs keep false _ _ _ _ _ R) as OVs'.
    assert (RESP : o_resp o' = p_resp pl /\ o_resp o = p_resp ps).
    { split.
      - unfold run_block in RL. rewrite Ppl in RL. cbn [obind] in RL.
        destruct (commit_writes keep false l pl) as [[w m]| |]; cbn [obind] in RL; try discriminate. injection RL as _ <- _. reflexivity.
      - unfold run_block in R. rewrite P in R. cbn [obind] in R.
        destruct (commit_writes keep false s ps) as [[w m]| |]; cbn [obind] in R; try discriminate. injection R as _ <- _. reflexivity. }
    destruct RESP as [RE1 RE2].
    destruct o' as [r1 h1 v1 e1]. destruct o as [r2 h2 v2 e2]. cbn [o_resp o_hash o_view o_events] in *.
    subst. rewrite PR, PC, PM, V'. reflexivity.
  - split; [exact Gl'|]. split; [exact Gs'|]. split; [exact EA'|].
    (* both trees hold the new version *)
    assert (GHs : get_height (app_of s') = p_h ps).
    { change (v_height (view_of (app_of s')) = p_h ps). rewrite <- (run_block_obs keep false _ _ _ _ _ R). exact OV. }
    rewrite GHs, Dl, Ds. cbn [cd_tree].
    rewrite !(tree_ws_after keep _ _ _ _ _ keep_pos).
    rewrite PVl, PV, Z.eqb_refl, PC. reflexivity.
Qed.

Lemma run_blocks_rsim : forall bs l s s' os,
  rsim l s -> run_blocks keep false s bs = Val (s', os) ->
  exists l', run_blocks keep false l bs = Val (l', os) /\ rsim l' s'.
Proof.
  induction bs as [|b r IH]; intros l s s' os RS R; cbn [run_blocks] in *.
  - injection R as <- <-. exists l. split; [reflexivity|exact RS].
  - destruct (run_block keep false s b) as [[[s1 o1] w1]| |] eqn:Eb; cbn [obind] in R; try discriminate.
    cbn [fst snd] in R.
    destruct (run_blocks keep false s1 r) as [[s2 os2]| |] eqn:E2; cbn [obind] in R; try discriminate.
    injection R as <- <-.
    destruct (block_rsim l s b s1 o1 w1 RS Eb) as (l1 & w1' & R1 & RS1).
    rewrite R1. cbn [obind fst snd].
    destruct (IH l1 s1 s2 os2 RS1 E2) as (l2 & R2 & RS2).
    rewrite R2. cbn [obind fst snd]. exists l2. split; [reflexivity|exact RS2].
Qed.
End Restored.

(* the restored node is in the relation with its producer *)
Lemma restored_rsim s h c :
  cgood s -> h = get_height (app_of s) -> aget h (cd_tree (fst s)) = Some c ->
  rsim ({| cd_app := cd_app (fst s); cd_tree := [(h, c)]; cd_ev := empty_edisk |},
        {| cm_app := cache_start empty_mem (get_start (cd_app (fst s), empty_mem)); cm_tree := None; cm_ev := None |}) s.
Proof.
  intros G Eh A.
  destruct G as ([[C [F H]] S] & TG & EG).
  assert (V : view_of (cd_app (fst s), empty_mem) = view_of (app_of s)) by exact C.
  set (m := cache_start empty_mem (get_start (cd_app (fst s), empty_mem))).
  assert (Vm : view_of (cd_app (fst s), m) = view_of (cd_app (fst s), empty_mem)).
  { unfold m, cache_start. apply view_eq_intro; cbn; try reflexivity.
    destruct (d_start (cd_app (fst s))) as [st|]; cbn; [|reflexivity].
    destruct (Z.eqb_spec st 0) as [E0|N0]; cbn; [subst; reflexivity|].
    destruct (Z.eqb_spec st 0); [contradiction|reflexivity]. }
  split; [|split; [exact (conj (conj (conj C (conj F H)) S) (conj TG EG))|split; [reflexivity|]]].
  - split; [|split].
    + unfold agood, app_of. cbn [fst snd cd_app cm_app]. split.
      * split; [|split].
        -- unfold coherent, restart. cbn [fst]. symmetry. exact Vm.
        -- unfold flags_ok, m, cache_start. cbn.
           destruct (d_start (cd_app (fst s))) as [st|]; cbn.
           ++ destruct (Z.eqb_spec st 0); cbn; repeat split; auto; discriminate.
           ++ repeat split; auto; discriminate.
        -- rewrite Vm, V. exact H.
      * unfold settled, m, cache_start. destruct (cd_app (fst s)); reflexivity.
    + unfold tgood, app_of. cbn [fst snd cd_app cm_app cd_tree cm_tree].
      assert (GH : get_height (cd_app (fst s), m) = h).
      { change (v_height (view_of (cd_app (fst s), m)) = h). rewrite Vm, V, Eh. reflexivity. }
      rewrite GH. exists c. cbn [aget]. rewrite Z.eqb_refl. split; [reflexivity|]. split; [left; reflexivity|].
      intros v Hv. destruct (Z.eqb_spec h v); [lia|reflexivity].
    + exists ([], []). cbn [fst snd cd_ev cm_ev]. split; [|left; reflexivity]. intros addr. destruct addr; reflexivity.
  - cbn [fst cd_tree]. rewrite <- Eh. cbn [aget]. rewrite Z.eqb_refl. symmetry. exact A.
Qed.
