(* GenesisFacts.v — lemmas about Model/Genesis.v (C11): canonical forms produced by Export, Import as
   their inverse, the observational equivalence of the ledger part, the stake recalculation at import. *)
From Minter Require Import Base Consts Ledger LedgerFacts LedgerCons Genesis.
From Minter Require Ranking RankingFacts.
From Coq Require Import ZArith List Bool Lia Permutation Sorted ZifyBool.
Import ListNotations.
Open Scope Z_scope.

(* ======================================================================================================== *)
(* 1. sorted duplicate-free integer lists                                                                     *)
(* ======================================================================================================== *)
Fixpoint ssorted (l : list Z) : Prop :=
  match l with [] => True | x :: r => (forall y, In y r -> x < y) /\ ssorted r end.

Lemma ins_uniq_in x l y : In y (ins_uniq x l) <-> y = x \/ In y l.
Proof.
  induction l as [|z r IH]; cbn [ins_uniq]; [cbn; intuition|].
  destruct (x <? z) eqn:E1; [cbn; intuition|].
  destruct (x =? z) eqn:E2.
  - apply Z.eqb_eq in E2. subst z. cbn. intuition.
  - cbn [In]. rewrite IH. intuition.
Qed.

Lemma ins_uniq_sorted x l : ssorted l -> ssorted (ins_uniq x l).
Proof.
  induction l as [|z r IH]; cbn [ins_uniq]; intros Hs; [cbn; intuition|].
  destruct Hs as [Hz Hr].
  destruct (x <? z) eqn:E1.
  - cbn [ssorted]. split; [|split; assumption]. intros y [<-|Hy]; [lia|]. specialize (Hz y Hy). lia.
  - destruct (x =? z) eqn:E2; [cbn [ssorted]; split; assumption|].
    cbn [ssorted]. split; [|apply IH; exact Hr].
    intros y Hy. apply ins_uniq_in in Hy. destruct Hy as [->|Hy]; [lia|apply Hz; exact Hy].
Qed.

Lemma set_of_in l y : In y (set_of l) <-> In y l.
Proof.
  induction l as [|x r IH]; cbn [set_of fold_right]; [tauto|].
  fold (set_of r). rewrite ins_uniq_in, IH. cbn. intuition.
Qed.

Lemma set_of_sorted l : ssorted (set_of l).
Proof.
  induction l as [|x r IH]; cbn [set_of fold_right]; [exact I|]. apply ins_uniq_sorted. exact IH.
Qed.

Lemma ssorted_ext l : forall l', ssorted l -> ssorted l' -> (forall x, In x l <-> In x l') -> l = l'.
Proof.
  induction l as [|x r IH]; intros [|y r'] Hs Hs' Hin.
  - reflexivity.
  - exfalso. apply (Hin y). left. reflexivity.
  - exfalso. apply (Hin x). left. reflexivity.
  - destruct Hs as [Hx Hr]. destruct Hs' as [Hy Hr'].
    assert (x = y).
    { destruct (proj1 (Hin x) (or_introl eq_refl)) as [E|Hx']; [congruence|].
      destruct (proj2 (Hin y) (or_introl eq_refl)) as [E|Hy']; [congruence|].
      specialize (Hx y Hy'). specialize (Hy x Hx'). lia. }
    subst y. f_equal. apply IH; [exact Hr|exact Hr'|].
    intros z. split; intros Hz.
    + destruct (proj1 (Hin z) (or_intror Hz)) as [E|H]; [|exact H]. subst z. specialize (Hx x Hz). lia.
    + destruct (proj2 (Hin z) (or_intror Hz)) as [E|H]; [|exact H]. subst z. specialize (Hy x Hz). lia.
Qed.

Lemma set_of_id l : ssorted l -> set_of l = l.
Proof. intros Hs. apply ssorted_ext; [apply set_of_sorted|exact Hs|apply set_of_in]. Qed.

Lemma set_of_absorb l m : ssorted l -> (forall x, In x m -> In x l) -> set_of (m ++ l) = l.
Proof.
  intros Hs Hsub. apply ssorted_ext; [apply set_of_sorted|exact Hs|].
  intros x. rewrite set_of_in, in_app_iff. intuition.
Qed.

Lemma ssorted_filter p l : ssorted l -> ssorted (filter p l).
Proof.
  induction l as [|x r IH]; cbn [filter]; intros Hs; [exact I|]. destruct Hs as [Hx Hr].
  destruct (p x); [|apply IH; exact Hr]. cbn [ssorted]. split; [|apply IH; exact Hr].
  intros y Hy. apply filter_In in Hy. apply Hx. tauto.
Qed.

Lemma ssorted_nodup l : ssorted l -> NoDup l.
Proof.
  induction l as [|x r IH]; intros Hs; [constructor|]. destruct Hs as [Hx Hr].
  constructor; [|apply IH; exact Hr]. intros Hin. specialize (Hx x Hin). lia.
Qed.

Lemma nodup_z_spec l : NoDup l -> nodup_z l = true.
Proof.
  induction 1 as [|x r Hni Hnd IH]; [reflexivity|]. cbn [nodup_z]. rewrite IH, andb_true_r.
  apply negb_true_iff. apply not_true_is_false. intros H. apply existsb_exists in H.
  destruct H as (y & Hy & E). apply Z.eqb_eq in E. subst y. contradiction.
Qed.

(* ======================================================================================================== *)
(* 2. the stable insertion sort on a key                                                                      *)
(* ======================================================================================================== *)
Section KeySort.
Context {A : Type}.
Variable key : A -> Z.
Variable less : A -> A -> bool.
Hypothesis less_key : forall a b, less a b = (key a <? key b).

Fixpoint ksorted (l : list A) : Prop :=
  match l with [] => True | x :: r => (forall y, In y r -> key x <= key y) /\ ksorted r end.

Lemma insert_sorted_head x l : (forall y, In y l -> key x <= key y) -> Ranking.insert_stable less x l = x :: l.
Proof.
  destruct l as [|y r]; intros H; [reflexivity|]. cbn [Ranking.insert_stable].
  rewrite less_key. specialize (H y (or_introl eq_refl)). destruct (key y <? key x) eqn:E; [lia|reflexivity].
Qed.

Lemma sort_sorted_id l : ksorted l -> Ranking.sort_stable less l = l.
Proof.
  induction l as [|x r IH]; intros Hs; [reflexivity|]. destruct Hs as [Hx Hr].
  unfold Ranking.sort_stable. cbn [fold_right]. fold (Ranking.sort_stable less r). rewrite (IH Hr).
  apply insert_sorted_head. exact Hx.
Qed.

Lemma insert_in x l y : In y (Ranking.insert_stable less x l) <-> y = x \/ In y l.
Proof.
  induction l as [|z r IH]; cbn [Ranking.insert_stable]; [cbn; intuition|].
  destruct (less z x); cbn [In]; [rewrite IH|]; intuition.
Qed.

Lemma sort_in l y : In y (Ranking.sort_stable less l) <-> In y l.
Proof.
  induction l as [|x r IH]; [tauto|]. unfold Ranking.sort_stable. cbn [fold_right]. fold (Ranking.sort_stable less r).
  rewrite insert_in, IH. cbn. intuition.
Qed.

Lemma insert_ksorted x l : ksorted l -> ksorted (Ranking.insert_stable less x l).
Proof.
  induction l as [|z r IH]; cbn [Ranking.insert_stable]; intros Hs; [cbn; intuition|]. destruct Hs as [Hz Hr].
  rewrite less_key. destruct (key z <? key x) eqn:E.
  - cbn [ksorted]. split; [|apply IH; exact Hr]. intros y Hy. apply insert_in in Hy. destruct Hy as [->|Hy]; [lia|apply Hz; exact Hy].
  - cbn [ksorted]. split; [|split; assumption]. intros y [<-|Hy]; [lia|]. specialize (Hz y Hy). lia.
Qed.

Lemma sort_ksorted l : ksorted (Ranking.sort_stable less l).
Proof.
  induction l as [|x r IH]; [exact I|]. unfold Ranking.sort_stable. cbn [fold_right]. apply insert_ksorted. exact IH.
Qed.

Lemma sort_idem l : Ranking.sort_stable less (Ranking.sort_stable less l) = Ranking.sort_stable less l.
Proof. apply sort_sorted_id. apply sort_ksorted. Qed.

Lemma ksorted_filter p l : ksorted l -> ksorted (filter p l).
Proof.
  induction l as [|x r IH]; cbn [filter]; intros Hs; [exact I|]. destruct Hs as [Hx Hr].
  destruct (p x); [|apply IH; exact Hr]. cbn [ksorted]. split; [|apply IH; exact Hr].
  intros y Hy. apply filter_In in Hy. apply Hx. tauto.
Qed.

(* sums do not see the order *)
Lemma sum_insert (f : A -> Z) x l : sum_Z (map f (Ranking.insert_stable less x l)) = f x + sum_Z (map f l).
Proof.
  induction l as [|z r IH]; cbn [Ranking.insert_stable map]; [reflexivity|].
  destruct (less z x); cbn [map]; rewrite ?sumZ_cons, ?IH; lia.
Qed.
Lemma sum_sort (f : A -> Z) l : sum_Z (map f (Ranking.sort_stable less l)) = sum_Z (map f l).
Proof.
  induction l as [|x r IH]; [reflexivity|]. unfold Ranking.sort_stable. cbn [fold_right]. fold (Ranking.sort_stable less r).
  rewrite sum_insert, IH. reflexivity.
Qed.

(* stability: the elements with one key keep their order *)
Lemma filter_key_insert k x l :
  filter (fun y => key y =? k) (Ranking.insert_stable less x l) = filter (fun y => key y =? k) (x :: l).
Proof.
  apply RankingFacts.insert_stable_filter. intros y _ Hy Hx. rewrite less_key. lia.
Qed.
Lemma filter_key_sort k l :
  filter (fun y => key y =? k) (Ranking.sort_stable less l) = filter (fun y => key y =? k) l.
Proof.
  induction l as [|x r IH]; [reflexivity|]. unfold Ranking.sort_stable. cbn [fold_right]. fold (Ranking.sort_stable less r).
  rewrite filter_key_insert. cbn [filter]. rewrite IH. reflexivity.
Qed.
End KeySort.

Lemma filter_all {A} (p : A -> bool) l : (forall x, In x l -> p x = true) -> filter p l = l.
Proof.
  induction l as [|x r IH]; intros H; [reflexivity|]. cbn [filter]. rewrite (H x (or_introl eq_refl)).
  f_equal. apply IH. intros y Hy. apply H. right. exact Hy.
Qed.

Lemma filter_map_comm {A B} (f : A -> B) (p : B -> bool) l : filter p (map f l) = map f (filter (fun x => p (f x)) l).
Proof. induction l as [|x r IH]; [reflexivity|]. cbn [map filter]. destruct (p (f x)); cbn [map]; rewrite IH; reflexivity. Qed.

Lemma filter_none {A} (p : A -> bool) l : (forall x, In x l -> p x = false) -> filter p l = [].
Proof.
  induction l as [|x r IH]; intros H; [reflexivity|]. cbn [filter]. rewrite (H x (or_introl eq_refl)).
  apply IH. intros y Hy. apply H. right. exact Hy.
Qed.

Lemma set_of_ext l m : ssorted l -> (forall x, In x m <-> In x l) -> set_of m = l.
Proof. intros Hs H. apply ssorted_ext; [apply set_of_sorted|exact Hs|]. intros x. rewrite set_of_in. apply H. Qed.

(* ======================================================================================================== *)
(* 3. accounts: Export produces a canonical list, Import followed by Export gives it back                     *)
(* ======================================================================================================== *)
Definition canon_acct (x : aacct) : Prop :=
  ssorted (map fst (aa_bal x)) /\ (forall cv, In cv (aa_bal x) -> 0 < snd cv) /\ acct_empty x = false.
Definition canon_accts (l : list aacct) : Prop := ssorted (map aa_addr l) /\ forall x, In x l -> canon_acct x.

Lemma export_accts_canon s : canon_accts (export_accts s).
Proof.
  unfold export_accts. rewrite filter_map_comm. split.
  - rewrite map_map. cbn [acct_of aa_addr]. rewrite map_id. apply ssorted_filter. apply set_of_sorted.
  - intros x Hx. apply in_map_iff in Hx. destruct Hx as (a & <- & Ha). apply filter_In in Ha. destruct Ha as [_ Hne].
    refine (conj _ (conj _ _)).
    + cbn [acct_of aa_bal]. rewrite map_map. cbn [fst]. rewrite map_id. apply ssorted_filter. apply set_of_sorted.
    + cbn [acct_of aa_bal]. intros cv Hcv. apply in_map_iff in Hcv. destruct Hcv as (c & <- & Hc).
      apply filter_In in Hc. cbn [snd]. lia.
    + apply negb_true_iff in Hne. exact Hne.
Qed.

Lemma in_import_bal l e :
  In e (import_bal l) <-> exists x cv, In x l /\ In cv (aa_bal x) /\ e = (aa_addr x, fst cv, snd cv).
Proof.
  unfold import_bal. rewrite in_flat_map. split.
  - intros (x & Hx & He). apply in_map_iff in He. destruct He as (cv & <- & Hcv). eauto.
  - intros (x & cv & Hx & Hcv & ->). exists x. split; [exact Hx|]. apply in_map_iff. eauto.
Qed.

Lemma filter_import_bal l : ssorted (map aa_addr l) -> forall x, In x l ->
  filter (fun e : Z * Z * Z => fst (fst e) =? aa_addr x) (import_bal l) = map (fun cv : Z * Z => (aa_addr x, fst cv, snd cv)) (aa_bal x).
Proof.
  induction l as [|x0 r IH]; intros Hs x Hx; [contradiction|]. cbn [map ssorted] in Hs. destruct Hs as [H0 Hr].
  unfold import_bal. cbn [flat_map]. fold (import_bal r). rewrite filter_app.
  destruct Hx as [<-|Hx].
  - rewrite filter_all, filter_none, app_nil_r; [reflexivity| |].
    + intros e He. apply in_import_bal in He. destruct He as (y & cv & Hy & _ & ->). cbn [fst].
      specialize (H0 (aa_addr y) (in_map aa_addr _ _ Hy)). lia.
    + intros e He. apply in_map_iff in He. destruct He as (cv & <- & _). cbn [fst]. lia.
  - rewrite filter_none; [cbn [app]; apply IH; assumption|].
    intros e He. apply in_map_iff in He. destruct He as (cv & <- & _). cbn [fst].
    specialize (H0 (aa_addr x) (in_map aa_addr _ _ Hx)). lia.
Qed.

Lemma get_bal_filter l a c : get_bal l a c = get_bal (filter (fun e : Z * Z * Z => fst (fst e) =? a) l) a c.
Proof.
  induction l as [|[[a0 c0] v] r IH]; [reflexivity|]. cbn [filter fst]. rewrite get_bal_cons.
  destruct (a0 =? a) eqn:E; [rewrite get_bal_cons, IH; reflexivity|].
  unfold hit. rewrite E. cbn [andb]. rewrite IH. lia.
Qed.

Definition look (bal : list (Z * Z)) (c : Z) : Z := sum_Z (map (fun cv : Z * Z => if fst cv =? c then snd cv else 0) bal).

Lemma get_bal_entries a bal c : get_bal (map (fun cv : Z * Z => (a, fst cv, snd cv)) bal) a c = look bal c.
Proof.
  unfold get_bal, look. rewrite map_map. f_equal. apply map_ext. intros [c' v]. cbn [fst snd]. rewrite Z.eqb_refl. reflexivity.
Qed.

Lemma look_notin bal c : ~ In c (map fst bal) -> look bal c = 0.
Proof.
  induction bal as [|[c' v] r IH]; intros H; [reflexivity|]. unfold look in *. cbn [map fst snd]. rewrite sumZ_cons.
  cbn [map fst In] in H. destruct (c' =? c) eqn:E; [exfalso; apply H; left; lia|]. rewrite IH; [lia|]. intros Hin. apply H. right. exact Hin.
Qed.

Lemma look_in bal : ssorted (map fst bal) -> forall cv, In cv bal -> look bal (fst cv) = snd cv.
Proof.
  induction bal as [|[c' v] r IH]; intros Hs cv Hcv; [contradiction|]. cbn [map fst ssorted] in Hs. destruct Hs as [H0 Hr].
  unfold look. cbn [map fst snd]. rewrite sumZ_cons. fold (look r (fst cv)). destruct Hcv as [<-|Hcv].
  - cbn [fst snd]. rewrite Z.eqb_refl. rewrite look_notin; [lia|]. intros Hin. specialize (H0 _ Hin). lia.
  - specialize (H0 (fst cv) (in_map fst _ _ Hcv)). destruct (c' =? fst cv) eqn:E; [lia|]. rewrite (IH Hr cv Hcv). lia.
Qed.

Lemma get_nonce_notin l a : ~ In a (map fst l) -> get_nonce l a = 0.
Proof.
  induction l as [|[a0 n] r IH]; intros H; [reflexivity|]. cbn [get_nonce]. cbn [map fst In] in H.
  destruct (a0 =? a) eqn:E; [exfalso; apply H; left; lia|]. apply IH. intros Hin. apply H. right. exact Hin.
Qed.

Lemma get_nonce_import l : ssorted (map aa_addr l) -> forall x, In x l -> get_nonce (import_nonce l) (aa_addr x) = aa_nonce x.
Proof.
  induction l as [|x0 r IH]; intros Hs x Hx; [contradiction|]. cbn [map ssorted] in Hs. destruct Hs as [H0 Hr].
  unfold import_nonce. cbn [map get_nonce]. fold (import_nonce r). destruct Hx as [<-|Hx]; [rewrite Z.eqb_refl; reflexivity|].
  specialize (H0 (aa_addr x) (in_map aa_addr _ _ Hx)). destruct (aa_addr x0 =? aa_addr x) eqn:E; [lia|]. apply IH; assumption.
Qed.

Lemma find_msig_notin l a : ~ In a (map fst l) -> find_msig l a = None.
Proof.
  induction l as [|[a0 m] r IH]; intros H; [reflexivity|]. cbn [find_msig]. cbn [map fst In] in H.
  destruct (a0 =? a) eqn:E; [exfalso; apply H; left; lia|]. apply IH. intros Hin. apply H. right. exact Hin.
Qed.

Lemma in_import_msig l a : In a (map fst (import_msig l)) -> In a (map aa_addr l).
Proof.
  intros H. apply in_map_iff in H. destruct H as ([a' m] & <- & H). unfold import_msig in H. apply in_flat_map in H.
  destruct H as (x & Hx & He). destruct (aa_msig x); [|contradiction]. destruct He as [E|[]]. rewrite <- E. cbn [fst].
  apply in_map. exact Hx.
Qed.

Lemma find_msig_import l : ssorted (map aa_addr l) -> forall x, In x l -> find_msig (import_msig l) (aa_addr x) = aa_msig x.
Proof.
  induction l as [|x0 r IH]; intros Hs x Hx; [contradiction|]. cbn [map ssorted] in Hs. destruct Hs as [H0 Hr].
  unfold import_msig. cbn [flat_map]. fold (import_msig r). destruct Hx as [<-|Hx].
  - destruct (aa_msig x0) as [m|]; cbn [app find_msig]; [rewrite Z.eqb_refl; reflexivity|].
    apply find_msig_notin. intros Hin. apply in_import_msig in Hin. specialize (H0 _ Hin). lia.
  - specialize (H0 (aa_addr x) (in_map aa_addr _ _ Hx)).
    destruct (aa_msig x0) as [m|]; cbn [app find_msig]; [destruct (aa_addr x0 =? aa_addr x) eqn:E; [lia|]|]; apply IH; assumption.
Qed.

Lemma acct_of_import h b a : canon_accts (a_accts a) -> forall x, In x (a_accts a) -> acct_of (import_led h b a) (aa_addr x) = x.
Proof.
  intros [Hs Hc] x Hx. destruct (Hc x Hx) as (Hb & Hp & _).
  assert (Ecoins : coins_of (import_led h b a) (aa_addr x) = map fst (aa_bal x)).
  { unfold coins_of. cbn [import_led s_bal]. rewrite (filter_import_bal _ Hs x Hx), map_map. cbn [fst snd].
    apply set_of_id. exact Hb. }
  assert (Ebal : forall cv, In cv (aa_bal x) -> get_bal (s_bal (import_led h b a)) (aa_addr x) (fst cv) = snd cv).
  { intros cv Hcv. cbn [import_led s_bal]. rewrite get_bal_filter, (filter_import_bal _ Hs x Hx), get_bal_entries. apply look_in; assumption. }
  unfold acct_of. rewrite Ecoins.
  rewrite filter_all by (intros c Hc'; apply in_map_iff in Hc'; destruct Hc' as (cv & <- & Hcv); rewrite (Ebal cv Hcv); specialize (Hp cv Hcv); lia).
  rewrite map_map.
  rewrite (map_ext_in _ (fun cv => cv)) by (intros cv Hcv; rewrite (Ebal cv Hcv); destruct cv; reflexivity).
  rewrite map_id. cbn [import_led s_nonce s_msig]. rewrite (get_nonce_import _ Hs x Hx), (find_msig_import _ Hs x Hx).
  destruct x; reflexivity.
Qed.

Lemma addr_universe_import h b a : ssorted (map aa_addr (a_accts a)) -> addr_universe (import_led h b a) = map aa_addr (a_accts a).
Proof.
  intros Hs. unfold addr_universe. apply set_of_ext; [exact Hs|]. intros y. cbn [import_led s_bal s_nonce s_msig].
  rewrite !in_app_iff. unfold import_nonce at 1. rewrite map_map. cbn [fst]. split; [|tauto].
  intros [H|[H|H]]; [|exact H|apply in_import_msig; exact H].
  apply in_map_iff in H. destruct H as (e & <- & He). apply in_import_bal in He. destruct He as (x & cv & Hx & _ & ->).
  cbn [fst]. apply in_map. exact Hx.
Qed.

Lemma export_accts_import h b a : canon_accts (a_accts a) -> export_accts (import_led h b a) = a_accts a.
Proof.
  intros Hc. unfold export_accts. rewrite (addr_universe_import h b a (proj1 Hc)), map_map.
  rewrite (map_ext_in _ (fun x => x)) by (intros x Hx; apply acct_of_import; assumption).
  rewrite map_id. apply filter_all. intros x Hx. destruct (proj2 Hc x Hx) as (_ & _ & E). rewrite E. reflexivity.
Qed.

(* ======================================================================================================== *)
(* 4. coins, frozen funds, used checks                                                                        *)
(* ======================================================================================================== *)
Definition canon_coins (l : list acoin) : Prop :=
  ssorted (map ac_id l) /\
  (forall c, In c l -> ac_owner c = get_owner (import_owners l) (ac_sym c)) /\
  (forall c, In c l -> ac_crr c = 0 -> ac_res c = 0).

Lemma get_owner_import_none l sym : (forall c, In c l -> ac_sym c <> sym) -> get_owner (import_owners l) sym = None.
Proof.
  induction l as [|c0 r IH]; intros H; [reflexivity|]. unfold import_owners. cbn [flat_map]. fold (import_owners r).
  assert (Hr : get_owner (import_owners r) sym = None) by (apply IH; intros c Hc; apply H; right; exact Hc).
  destruct (ac_owner c0) as [o|]; cbn [app get_owner]; [|exact Hr].
  destruct (ac_sym c0 =? sym) eqn:E; [|exact Hr]. exfalso. apply (H c0 (or_introl eq_refl)). lia.
Qed.

Lemma get_owner_import_owners (F : Z -> option Z) l : (forall c, In c l -> ac_owner c = F (ac_sym c)) ->
  forall sym, (exists c, In c l /\ ac_sym c = sym) -> get_owner (import_owners l) sym = F sym.
Proof.
  induction l as [|c0 r IH]; intros HF sym (c & Hc & Es); [contradiction|].
  unfold import_owners. cbn [flat_map]. fold (import_owners r).
  assert (HFr : forall c, In c r -> ac_owner c = F (ac_sym c)) by (intros c' Hc'; apply HF; right; exact Hc').
  pose proof (HF c0 (or_introl eq_refl)) as H0.
  destruct (existsb (fun c' => ac_sym c' =? sym) r) eqn:Ex.
  - apply existsb_exists in Ex. destruct Ex as (c' & Hc' & E'). apply Z.eqb_eq in E'.
    pose proof (IH HFr sym (ex_intro _ c' (conj Hc' E'))) as Hr.
    destruct (ac_owner c0) as [o|]; cbn [app get_owner]; [|exact Hr].
    destruct (ac_sym c0 =? sym) eqn:E; [|exact Hr]. apply Z.eqb_eq in E. rewrite <- E. exact H0.
  - assert (Hnone : forall c', In c' r -> ac_sym c' <> sym).
    { intros c' Hc' E'. assert (existsb (fun c' => ac_sym c' =? sym) r = true); [|congruence].
      apply existsb_exists. exists c'. split; [exact Hc'|lia]. }
    destruct Hc as [<-|Hc]; [|exfalso; exact (Hnone c Hc Es)]. subst sym.
    destruct (ac_owner c0) as [o|]; cbn [app get_owner]; [rewrite Z.eqb_refl; exact H0|].
    rewrite get_owner_import_none by exact Hnone. exact H0.
Qed.

Lemma find_res_notin l id : ~ In id (map fst l) -> find_res l id = None.
Proof.
  induction l as [|[i p] r IH]; intros H; [reflexivity|]. cbn [find_res]. cbn [map fst In] in H.
  destruct (i =? id) eqn:E; [exfalso; apply H; left; lia|]. apply IH. intros Hin. apply H. right. exact Hin.
Qed.

Lemma in_import_res l id : In id (map fst (import_res l)) -> In id (map ac_id l).
Proof.
  intros H. apply in_map_iff in H. destruct H as ([i p] & <- & H). unfold import_res in H. apply in_flat_map in H.
  destruct H as (c & Hc & He). destruct (ac_crr c =? 0); [contradiction|]. destruct He as [E|[]]. rewrite <- E. cbn [fst]. apply in_map. exact Hc.
Qed.

Lemma find_res_import l : ssorted (map ac_id l) -> forall c, In c l ->
  find_res (import_res l) (ac_id c) = if ac_crr c =? 0 then None else Some (ac_crr c, ac_res c).
Proof.
  induction l as [|c0 r IH]; intros Hs c Hc; [contradiction|]. cbn [map ssorted] in Hs. destruct Hs as [H0 Hr].
  unfold import_res. cbn [flat_map]. fold (import_res r). destruct Hc as [<-|Hc].
  - destruct (ac_crr c0 =? 0); cbn [app find_res]; [|rewrite Z.eqb_refl; reflexivity].
    apply find_res_notin. intros Hin. apply in_import_res in Hin. specialize (H0 _ Hin). lia.
  - specialize (H0 (ac_id c) (in_map ac_id _ _ Hc)).
    destruct (ac_crr c0 =? 0); cbn [app find_res]; [|destruct (ac_id c0 =? ac_id c) eqn:E; [lia|]]; apply IH; assumption.
Qed.

Lemma coin_lt_key a b : coin_lt a b = (c_id a <? c_id b). Proof. reflexivity. Qed.

Lemma ksorted_of_ssorted {A} (key : A -> Z) l : ssorted (map key l) -> ksorted key l.
Proof.
  induction l as [|x r IH]; intros Hs; [exact I|]. cbn [map ssorted] in Hs. destruct Hs as [Hx Hr].
  split; [|apply IH; exact Hr]. intros y Hy. specialize (Hx (key y) (in_map key _ _ Hy)). lia.
Qed.

Lemma export_coins_import h b a : canon_coins (a_coins a) ->
  export_coins (import_led h b a) (import_res (a_coins a)) = a_coins a.
Proof.
  intros (Hs & Ho & Hr). unfold export_coins. cbn [import_led s_coins].
  rewrite (sort_sorted_id c_id coin_lt coin_lt_key)
    by (apply ksorted_of_ssorted; rewrite map_map; exact Hs).
  rewrite map_map. rewrite (map_ext_in _ (fun c => c)); [apply map_id|].
  intros c Hc. unfold export_coin. cbn [import_coin c_id c_sym c_ver c_vol c_max c_mint c_burn import_led s_symowner].
  rewrite (find_res_import _ Hs c Hc), <- (Ho c Hc).
  destruct (ac_crr c =? 0) eqn:E; cbn [fst snd]; [|destruct c; reflexivity].
  apply Z.eqb_eq in E. pose proof (Hr c Hc E) as Er. destruct c; cbn in *; subst; reflexivity.
Qed.

Definition wf_res (res : list (Z * (Z * Z))) : Prop := forall e, In e res -> fst (snd e) <> 0.

Lemma find_res_in l id p : find_res l id = Some p -> In (id, p) l.
Proof.
  induction l as [|[i q] r IH]; cbn [find_res]; [discriminate|]. destruct (i =? id) eqn:E.
  - intros H. injection H as <-. left. f_equal. lia.
  - intros H. right. apply IH. exact H.
Qed.

Lemma export_coins_canon s res : ssorted (map c_id (s_coins s)) -> wf_res res -> canon_coins (export_coins s res).
Proof.
  intros Hs Hres. unfold export_coins.
  rewrite (sort_sorted_id c_id coin_lt coin_lt_key) by (apply ksorted_of_ssorted; exact Hs).
  refine (conj _ (conj _ _)).
  - rewrite map_map. cbn [export_coin ac_id]. exact Hs.
  - intros c Hc. rewrite (get_owner_import_owners (get_owner (s_symowner s))).
    + apply in_map_iff in Hc. destruct Hc as (r & <- & _). reflexivity.
    + intros c' Hc'. apply in_map_iff in Hc'. destruct Hc' as (r & <- & _). reflexivity.
    + exists c. split; [exact Hc|reflexivity].
  - intros c Hc E. apply in_map_iff in Hc. destruct Hc as (r & <- & _). unfold export_coin in *. cbn [ac_crr ac_res] in *.
    destruct (find_res res (c_id r)) as [p|] eqn:F; [|reflexivity].
    apply find_res_in in F. specialize (Hres _ F). cbn [snd] in Hres. contradiction.
Qed.

(* frozen funds *)
Lemma due_lt_key a b : due_lt a b = (due_of a <? due_of b). Proof. reflexivity. Qed.

Definition canon_frozen (h : Z) (l : list (Z * Z * Z * Z)) : Prop :=
  ksorted due_of l /\ forall f, In f l -> h <= due_of f.

Lemma export_frozen_canon s : canon_frozen (s_height s) (export_frozen s).
Proof.
  unfold export_frozen. split; [apply (sort_ksorted due_of due_lt due_lt_key)|].
  intros f Hf. apply (proj1 (sort_in due_lt _ _)) in Hf. apply filter_In in Hf. lia.
Qed.

Lemma export_frozen_import h b a : canon_frozen h (a_frozen a) -> export_frozen (import_led h b a) = a_frozen a.
Proof.
  intros [Hs Hh]. unfold export_frozen. cbn [import_led s_frozen s_height].
  rewrite filter_all by (intros f Hf; specialize (Hh f Hf); lia).
  apply (sort_sorted_id due_of due_lt due_lt_key). exact Hs.
Qed.

(* the waitlist order *)
Lemma wl_gt_key a b : wl_gt a b = (- wl_owner a <? - wl_owner b).
Proof. unfold wl_gt. lia. Qed.

(* ======================================================================================================== *)
(* 5. observational equivalence of ledger states, respected by every ledger step                              *)
(* ======================================================================================================== *)
Definition due_is (h : Z) (f : Z * Z * Z * Z) : bool := due_of f =? h.

Record sim (s s' : st) : Prop := {
  sim_bal : forall a c, get_bal (s_bal s) a c = get_bal (s_bal s') a c;
  sim_nonce : forall a, get_nonce (s_nonce s) a = get_nonce (s_nonce s') a;
  sim_coins : s_coins s = s_coins s';
  sim_owner : forall sym, get_owner (s_symowner s) sym = get_owner (s_symowner s') sym;
  sim_ncoins : s_ncoins s = s_ncoins s';
  sim_rpool : s_rpool s = s_rpool s';
  sim_used : forall id, existsb (Z.eqb id) (s_used s) = existsb (Z.eqb id) (s_used s');
  sim_msig : forall a, find_msig (s_msig s) a = find_msig (s_msig s') a;
  sim_frozen : forall h, filter (due_is h) (s_frozen s) = filter (due_is h) (s_frozen s');
  sim_height : s_height s = s_height s';
  sim_prices : s_prices s = s_prices s';
  sim_base : s_base_sym s = s_base_sym s'
}.

Lemma sim_refl s : sim s s.
Proof. constructor; reflexivity. Qed.

Lemma forallb_ext {A} (f g : A -> bool) l : (forall x, f x = g x) -> forallb f l = forallb g l.
Proof. intros H. induction l as [|x r IH]; [reflexivity|]. cbn [forallb]. rewrite H, IH. reflexivity. Qed.

Lemma gate_sim s s' t : sim s s' -> gate s t = gate s' t.
Proof.
  intros H. unfold gate, coin_exists, msig_gate.
  rewrite (sim_coins _ _ H), (sim_prices _ _ H), (sim_nonce _ _ H).
  destruct (t_sig t) as [a|m signers]; [reflexivity|]. rewrite (sim_msig _ _ H). reflexivity.
Qed.

Lemma bal_forallb_sim s s' a (L : list (Z * Z)) : (forall a c, get_bal (s_bal s) a c = get_bal (s_bal s') a c) ->
  forallb (fun cv : Z * Z => negb (get_bal (s_bal s) a (fst cv) <? snd cv)) L =
  forallb (fun cv : Z * Z => negb (get_bal (s_bal s') a (fst cv) <? snd cv)) L.
Proof. intros H. apply forallb_ext. intros cv. rewrite H. reflexivity. Qed.

Ltac sim_rw H s s' :=
  repeat first [ rewrite (sim_bal _ _ H) | rewrite (sim_owner _ _ H) | rewrite (sim_used _ _ H) | rewrite (sim_msig _ _ H)
               | rewrite (bal_forallb_sim s s' _ _ (sim_bal _ _ H)) ].

Lemma run_sim s s' t : sim s s' -> run s t = run s' t.
Proof.
  intros H. unfold run, coin_exists, sym_exists.
  rewrite (sim_coins _ _ H), (sim_prices _ _ H), (sim_base _ _ H), (sim_height _ _ H), (sim_ncoins _ _ H).
  destruct (t_data t); cbv zeta beta; sim_rw H s s'; try reflexivity.
  all: repeat (match goal with
       | |- context [match find_coin ?l ?c with _ => _ end] => destruct (find_coin l c)
       | |- context [match calc_commission ?a ?b with _ => _ end] => destruct (calc_commission a b)
       | |- context [match find_sym ?l ?a ?b with _ => _ end] => destruct (find_sym l a b)
       end; sim_rw H s s'; try reflexivity).
Qed.

Lemma failed_branch_sim s s' t c : sim s s' -> failed_branch s t c = failed_branch s' t c.
Proof. intros H. unfold failed_branch. rewrite (sim_prices _ _ H). destruct (payer_of t); rewrite ?(sim_bal _ _ H); reflexivity. Qed.

Lemma symbol_branch_sim s s' t : sim s s' -> symbol_branch s t = symbol_branch s' t.
Proof. intros H. unfold symbol_branch. rewrite (sim_prices _ _ H). reflexivity. Qed.

Lemma apply_eff_sim s s' e : sim s s' -> sim (apply_eff s e) (apply_eff s' e).
Proof.
  intros H. destruct H. destruct e; constructor; cbn [apply_eff set_coins s_bal s_nonce s_coins s_symowner s_ncoins s_rpool s_used s_msig s_frozen s_height s_prices s_base_sym]; try assumption; try congruence; intros.
  - rewrite !get_bal_add_bal, sim_bal0. reflexivity.
  - cbn [get_nonce]. rewrite sim_nonce0. reflexivity.
  - cbn [get_owner]. rewrite sim_owner0. reflexivity.
  - cbn [existsb]. rewrite sim_used0. reflexivity.
  - cbn [find_msig]. rewrite sim_msig0. reflexivity.
  - rewrite !filter_app, sim_frozen0. reflexivity.
Qed.

Lemma apply_effs_sim l : forall s s', sim s s' -> sim (apply_effs s l) (apply_effs s' l).
Proof.
  induction l as [|e l IH]; intros s s' H; [exact H|]. rewrite !apply_effs_cons. apply IH. apply apply_eff_sim. exact H.
Qed.

Lemma deliver_sim s s' t : sim s s' ->
  sim (fst (deliver s t)) (fst (deliver s' t)) /\ snd (deliver s t) = snd (deliver s' t).
Proof.
  intros H. unfold deliver. rewrite <- (gate_sim _ _ t H), <- (run_sim _ _ t H).
  destruct (gate s t) as [c|]; [split; [exact H|reflexivity]|].
  destruct (run s t) as [c|effs].
  - rewrite <- (failed_branch_sim _ _ t c H). destruct (failed_branch s t c) as [c' effs]. cbn [fst snd].
    split; [apply apply_effs_sim; exact H|reflexivity].
  - rewrite <- (symbol_branch_sim _ _ t H). destruct (symbol_branch s t) as [c' effs']. cbn [fst snd].
    split; [apply apply_effs_sim; apply apply_effs_sim; exact H|reflexivity].
Qed.

Lemma filter_comm {A} (p q : A -> bool) l : filter p (filter q l) = filter q (filter p l).
Proof.
  induction l as [|x r IH]; [reflexivity|]. cbn [filter].
  destruct (p x) eqn:P, (q x) eqn:Q; cbn [filter]; rewrite ?P, ?Q, IH; reflexivity.
Qed.

Lemma begin_block_sim s s' h : sim s s' -> sim (begin_block s h) (begin_block s' h).
Proof.
  intros H. unfold begin_block.
  assert (Edue : forall l, filter (fun f : Z * Z * Z * Z => let '(d, _, _, _) := f in d =? h) l = filter (due_is h) l)
    by (intros l; apply filter_ext; intros [[[d a] c] v]; reflexivity).
  rewrite !Edue, (sim_frozen _ _ H h). apply apply_effs_sim.
  destruct H. constructor; cbn [set_frozen set_height s_bal s_nonce s_coins s_symowner s_ncoins s_rpool s_used s_msig s_frozen s_height s_prices s_base_sym]; try assumption; try reflexivity.
  intros h'. rewrite !(filter_comm (due_is h')), sim_frozen0. reflexivity.
Qed.

Lemma step_sim s s' o : sim s s' -> sim (step s o) (step s' o).
Proof.
  intros H. destruct o as [t|h|]; cbn [step].
  - apply deliver_sim. exact H.
  - apply begin_block_sim. exact H.
  - destruct H. constructor; cbn [end_block s_bal s_nonce s_coins s_symowner s_ncoins s_rpool s_used s_msig s_frozen s_height s_prices s_base_sym]; try assumption; reflexivity.
Qed.

Lemma gstep_sim g g' o : sim (g_led g) (g_led g') ->
  sim (g_led (fst (gstep g o))) (g_led (fst (gstep g' o))) /\ snd (gstep g o) = snd (gstep g' o).
Proof.
  intros H. destruct o as [t|h|]; cbn [gstep].
  - destruct (deliver_sim _ _ t H) as [A B]. destruct (deliver (g_led g) t), (deliver (g_led g') t). cbn [fst snd set_led g_led] in *. split; assumption.
  - cbn [fst snd set_led g_led]. split; [apply (step_sim _ _ (OpBegin h) H)|reflexivity].
  - cbn [fst snd set_led g_led]. split; [apply (step_sim _ _ OpEnd H)|reflexivity].
Qed.

Lemma grun_sim ops : forall g g', sim (g_led g) (g_led g') ->
  sim (g_led (fst (grun g ops))) (g_led (fst (grun g' ops))) /\ snd (grun g ops) = snd (grun g' ops).
Proof.
  induction ops as [|o r IH]; intros g g' H; [split; [exact H|reflexivity]|]. cbn [grun].
  destruct (gstep_sim g g' o H) as [A B]. destruct (gstep g o) as [g1 c], (gstep g' o) as [g1' c']. cbn [fst snd] in A, B. subst c'.
  destruct (IH g1 g1' A) as [A' B']. destruct (grun g1 r) as [g2 cs], (grun g1' r) as [g2' cs']. cbn [fst snd] in *. subst cs'.
  split; [exact A'|reflexivity].
Qed.

(* ======================================================================================================== *)
(* 6. a well-formed ledger state is observationally equal to the import of its export                         *)
(* ======================================================================================================== *)
Definition wf_led (s : st) : Prop :=
  (forall a c, 0 <= get_bal (s_bal s) a c) /\
  ssorted (map c_id (s_coins s)) /\
  s_ncoins s = Z.of_nat (length (s_coins s)) /\
  (forall sym, get_owner (s_symowner s) sym <> None -> exists r, In r (s_coins s) /\ c_sym r = sym) /\
  (forall f, In f (s_frozen s) -> s_height s <= due_of f) /\
  s_rpool s = 0.

Lemma get_bal_no_entry l a c : (forall e, In e l -> ~ (fst (fst e) = a /\ snd (fst e) = c)) -> get_bal l a c = 0.
Proof.
  induction l as [|[[a0 c0] v] r IH]; intros H; [reflexivity|]. rewrite get_bal_cons, IH by (intros e He; apply H; right; exact He).
  unfold hit. destruct ((a0 =? a) && (c0 =? c)) eqn:E; [|lia]. exfalso. apply (H (a0, c0, v) (or_introl eq_refl)). cbn. lia.
Qed.

Lemma coins_of_in s a c : In c (coins_of s a) <-> exists e, In e (s_bal s) /\ fst (fst e) = a /\ snd (fst e) = c.
Proof.
  unfold coins_of. rewrite set_of_in, in_map_iff. split.
  - intros (e & <- & He). apply filter_In in He. exists e. split; [tauto|]. split; [lia|reflexivity].
  - intros (e & He & <- & <-). exists e. split; [reflexivity|]. apply filter_In. split; [exact He|lia].
Qed.

Lemma look_acct_of s a c : 0 <= get_bal (s_bal s) a c -> look (aa_bal (acct_of s a)) c = get_bal (s_bal s) a c.
Proof.
  intros Hn. cbn [acct_of aa_bal].
  set (pos := filter (fun c0 => 0 <? get_bal (s_bal s) a c0) (coins_of s a)).
  assert (Hs : ssorted (map fst (map (fun c0 => (c0, get_bal (s_bal s) a c0)) pos)))
    by (rewrite map_map; cbn [fst]; rewrite map_id; apply ssorted_filter, set_of_sorted).
  destruct (in_dec Z.eq_dec c pos) as [Hin|Hni].
  - apply (look_in _ Hs (c, get_bal (s_bal s) a c)). apply in_map_iff. exists c. split; [reflexivity|exact Hin].
  - rewrite look_notin by (rewrite map_map; cbn [fst]; rewrite map_id; exact Hni).
    destruct (in_dec Z.eq_dec c (coins_of s a)) as [Hc|Hc].
    + assert (~ (0 <? get_bal (s_bal s) a c) = true) by (intros E; apply Hni; apply filter_In; split; assumption). lia.
    + symmetry. apply get_bal_no_entry. intros e He [E1 E2]. apply Hc. apply coins_of_in. exists e. tauto.
Qed.

Lemma get_bal_import_in l : ssorted (map aa_addr l) -> forall x, In x l -> forall c, get_bal (import_bal l) (aa_addr x) c = look (aa_bal x) c.
Proof. intros Hs x Hx c. rewrite get_bal_filter, (filter_import_bal _ Hs x Hx), get_bal_entries. reflexivity. Qed.

Lemma get_bal_import_notin l a c : ~ In a (map aa_addr l) -> get_bal (import_bal l) a c = 0.
Proof.
  intros H. apply get_bal_no_entry. intros e He [E _]. apply in_import_bal in He. destruct He as (x & cv & Hx & _ & ->).
  cbn [fst] in E. apply H. rewrite <- E. apply in_map. exact Hx.
Qed.

Lemma in_export_accts s a : In a (map aa_addr (export_accts s)) <-> In a (addr_universe s) /\ acct_empty (acct_of s a) = false.
Proof.
  unfold export_accts. rewrite filter_map_comm, map_map. cbn [acct_of aa_addr]. rewrite map_id, filter_In, negb_true_iff. reflexivity.
Qed.

Lemma export_accts_member s a : In a (map aa_addr (export_accts s)) -> In (acct_of s a) (export_accts s).
Proof.
  intros H. pose proof (proj1 (in_export_accts s a) H) as [Hu He]. unfold export_accts. apply filter_In.
  split; [apply in_map; exact Hu|rewrite He; reflexivity].
Qed.

Lemma universe_in s a : In a (addr_universe s) <->
  (exists e, In e (s_bal s) /\ fst (fst e) = a) \/ In a (map fst (s_nonce s)) \/ In a (map fst (s_msig s)).
Proof.
  unfold addr_universe. rewrite set_of_in, !in_app_iff, in_map_iff. split.
  - intros [(e & <- & He)|H]; [left; eauto|right; exact H].
  - intros [(e & He & <-)|H]; [left; eauto|right; exact H].
Qed.

Lemma acct_empty_inv x : acct_empty x = true -> aa_bal x = [] /\ aa_msig x = None /\ aa_nonce x = 0.
Proof. unfold acct_empty. destruct (aa_bal x), (aa_msig x); try discriminate. intros H. repeat split; lia. Qed.

Lemma existsb_set_of id l : existsb (Z.eqb id) (set_of l) = existsb (Z.eqb id) l.
Proof.
  apply eq_true_iff_eq. rewrite !existsb_exists. split; intros (y & Hy & E); exists y; (split; [|exact E]); apply set_of_in; exact Hy.
Qed.

Lemma import_export_coin s res r : import_coin (export_coin s res r) = r.
Proof. destruct r; reflexivity. Qed.

Lemma sim_import g : wf_led (g_led g) ->
  sim (g_led g) (import_led (s_height (g_led g)) (s_base_sym (g_led g)) (export g)).
Proof.
  set (s := g_led g). intros (Hn & Hs & Hk & Ho & Hf & Hr).
  pose proof (export_accts_canon s) as [Hsa Hca].
  assert (Esort : Ranking.sort_stable coin_lt (s_coins s) = s_coins s)
    by (apply (sort_sorted_id c_id coin_lt coin_lt_key), ksorted_of_ssorted, Hs).
  constructor; cbn [import_led export s_bal s_nonce s_coins s_symowner s_ncoins s_rpool s_used s_msig s_frozen s_height s_prices s_base_sym
                    a_accts a_coins a_used a_frozen a_comm]; fold s.
  - (* balances *)
    intros a c. destruct (in_dec Z.eq_dec a (map aa_addr (export_accts s))) as [Hin|Hni].
    + pose proof (export_accts_member s a Hin) as Hx.
      change a with (aa_addr (acct_of s a)) at 2. rewrite (get_bal_import_in _ Hsa _ Hx), look_acct_of by apply Hn. reflexivity.
    + rewrite get_bal_import_notin by exact Hni.
      destruct (in_dec Z.eq_dec a (addr_universe s)) as [Hu|Hu].
      * destruct (acct_empty (acct_of s a)) eqn:Ee; [|exfalso; apply Hni, in_export_accts; tauto].
        apply acct_empty_inv in Ee. destruct Ee as (Eb & _ & _). rewrite <- (look_acct_of s a c) by apply Hn. rewrite Eb. reflexivity.
      * apply get_bal_no_entry. intros e He [E _]. apply Hu, universe_in. left. eauto.
  - (* nonces *)
    intros a. destruct (in_dec Z.eq_dec a (map aa_addr (export_accts s))) as [Hin|Hni].
    + pose proof (export_accts_member s a Hin) as Hx. change a with (aa_addr (acct_of s a)) at 2.
      rewrite (get_nonce_import _ Hsa _ Hx). reflexivity.
    + rewrite (get_nonce_notin (import_nonce _)) by (unfold import_nonce; rewrite map_map; exact Hni).
      destruct (in_dec Z.eq_dec a (addr_universe s)) as [Hu|Hu].
      * destruct (acct_empty (acct_of s a)) eqn:Ee; [|exfalso; apply Hni, in_export_accts; tauto].
        apply acct_empty_inv in Ee. destruct Ee as (_ & _ & En). exact En.
      * apply get_nonce_notin. intros H. apply Hu, universe_in. tauto.
  - (* coins *)
    unfold export_coins. rewrite Esort, map_map. rewrite (map_ext _ (fun r => r)) by apply import_export_coin. symmetry. apply map_id.
  - (* symbol owners *)
    intros sym. unfold export_coins. rewrite Esort.
    destruct (existsb (fun r => c_sym r =? sym) (s_coins s)) eqn:Ex.
    + apply existsb_exists in Ex. destruct Ex as (r & Hr' & E). apply Z.eqb_eq in E. symmetry.
      apply (get_owner_import_owners (get_owner (s_symowner s))).
      * intros c Hc. apply in_map_iff in Hc. destruct Hc as (r0 & <- & _). reflexivity.
      * exists (export_coin s (g_res g) r). split; [apply in_map; exact Hr'|exact E].
    + rewrite get_owner_import_none.
      * destruct (get_owner (s_symowner s) sym) eqn:Eo; [|reflexivity]. exfalso.
        destruct (Ho sym) as (r & Hr' & E); [congruence|].
        assert (existsb (fun r => c_sym r =? sym) (s_coins s) = true); [|congruence].
        apply existsb_exists. exists r. split; [exact Hr'|lia].
      * intros c Hc E. apply in_map_iff in Hc. destruct Hc as (r & <- & Hr'). cbn [export_coin ac_sym] in E.
        assert (existsb (fun r => c_sym r =? sym) (s_coins s) = true); [|congruence].
        apply existsb_exists. exists r. split; [exact Hr'|lia].
  - unfold export_coins. rewrite map_length, Esort. exact Hk.
  - exact Hr.
  - intros id. symmetry. apply existsb_set_of.
  - (* multisigs *)
    intros a. destruct (in_dec Z.eq_dec a (map aa_addr (export_accts s))) as [Hin|Hni].
    + pose proof (export_accts_member s a Hin) as Hx. change a with (aa_addr (acct_of s a)) at 2.
      rewrite (find_msig_import _ Hsa _ Hx). reflexivity.
    + rewrite (find_msig_notin (import_msig _)) by (intros H; apply Hni, in_import_msig, H).
      destruct (in_dec Z.eq_dec a (addr_universe s)) as [Hu|Hu].
      * destruct (acct_empty (acct_of s a)) eqn:Ee; [|exfalso; apply Hni, in_export_accts; tauto].
        apply acct_empty_inv in Ee. destruct Ee as (_ & Em & _). exact Em.
      * apply find_msig_notin. intros H. apply Hu, universe_in. tauto.
  - (* frozen funds *)
    intros h. unfold export_frozen. unfold due_is. rewrite (filter_key_sort due_of due_lt due_lt_key), filter_comm.
    rewrite (filter_all (fun f => s_height s <=? due_of f)); [reflexivity|].
    intros f Hf'. apply filter_In in Hf'. destruct Hf' as [Hf' _]. specialize (Hf f Hf'). lia.
  - reflexivity.
  - reflexivity.
  - reflexivity.
Qed.

(* ======================================================================================================== *)
(* 7. the staking part: slots, the recalculation at import, the waitlist                                      *)
(* ======================================================================================================== *)
Lemma somes_app {A} (a b : list (option A)) : Ranking.somes (a ++ b) = Ranking.somes a ++ Ranking.somes b.
Proof. induction a as [|[x|] r IH]; cbn; [reflexivity| |exact IH]. f_equal. exact IH. Qed.
Lemma somes_map_Some {A} (l : list A) : Ranking.somes (map Some l) = l.
Proof. induction l as [|x r IH]; cbn; [reflexivity|]. f_equal. exact IH. Qed.
Lemma somes_repeat_None {A} n : Ranking.somes (repeat (@None A) n) = [].
Proof. induction n as [|n IH]; cbn; [reflexivity|exact IH]. Qed.

Lemma somes_import_slots l : (length l <= slot_cap)%nat -> Ranking.somes (import_slots l) = l.
Proof.
  intros H. unfold import_slots. rewrite somes_app, somes_map_Some, somes_repeat_None, app_nil_r. apply firstn_all2. exact H.
Qed.

Definition wkey (w : Z * Z * Z * Z) : Z * Z * Z := fst w.
Definition wl_get (l : list (Z * Z * Z * Z)) (o k c : Z) : Z :=
  sum_Z (map (fun w : Z * Z * Z * Z => let '(o', k', c', v) := w in if (o' =? o) && (k' =? k) && (c' =? c) then v else 0) l).

Lemma wl_get_app a b o k c : wl_get (a ++ b) o k c = wl_get a o k c + wl_get b o k c.
Proof. unfold wl_get. rewrite map_app, sumZ_app. reflexivity. Qed.

Lemma wl_get_add_wait l o k c v o' k' c' :
  wl_get (add_wait l o k c v) o' k' c' = wl_get l o' k' c' + (if (o =? o') && (k =? k') && (c =? c') then v else 0).
Proof.
  induction l as [|[[[o0 k0] c0] v0] r IH]; cbn [add_wait].
  - unfold wl_get. cbn. lia.
  - destruct ((o0 =? o) && (k0 =? k) && (c0 =? c)) eqn:E.
    + assert (o0 = o /\ k0 = k /\ c0 = c) as (-> & -> & ->) by lia.
      unfold wl_get. cbn [map]. rewrite !sumZ_cons. destruct ((o =? o') && (k =? k') && (c =? c')); lia.
    + unfold wl_get in *. cbn [map]. rewrite !sumZ_cons, IH. lia.
Qed.

Lemma wl_get_add_waits ws : forall l o k c, wl_get (add_waits l ws) o k c = wl_get l o k c + wl_get ws o k c.
Proof.
  induction ws as [|[[[o0 k0] c0] v0] r IH]; intros l o k c; unfold add_waits; cbn [fold_left].
  - unfold wl_get at 3. cbn. lia.
  - fold (add_waits (add_wait l o0 k0 c0 v0) r). rewrite IH, wl_get_add_wait. unfold wl_get at 4. cbn [map]. rewrite sumZ_cons.
    fold (wl_get r o k c). lia.
Qed.

Lemma wl_get_sort l o k c : wl_get (export_wait l) o k c = wl_get l o k c.
Proof. unfold wl_get, export_wait. apply sum_sort. Qed.

Lemma add_wait_fresh l o k c v : (forall w, In w l -> wkey w <> (o, k, c)) -> add_wait l o k c v = l ++ [(o, k, c, v)].
Proof.
  induction l as [|[[[o0 k0] c0] v0] r IH]; intros H; [reflexivity|]. cbn [add_wait].
  destruct ((o0 =? o) && (k0 =? k) && (c0 =? c)) eqn:E.
  - exfalso. apply (H _ (or_introl eq_refl)). unfold wkey. cbn [fst]. assert (o0 = o /\ k0 = k /\ c0 = c) as (-> & -> & ->) by lia. reflexivity.
  - cbn [app]. f_equal. apply IH. intros w Hw. apply H. right. exact Hw.
Qed.

Lemma add_waits_nodup ws : forall l, NoDup (map wkey (l ++ ws)) -> add_waits l ws = l ++ ws.
Proof.
  induction ws as [|[[[o k] c] v] r IH]; intros l H; unfold add_waits; cbn [fold_left]; [rewrite app_nil_r; reflexivity|].
  fold (add_waits (add_wait l o k c v) r).
  rewrite add_wait_fresh.
  - rewrite IH; rewrite <- app_assoc; [reflexivity|exact H].
  - intros w Hw E. rewrite map_app in H. apply NoDup_remove_2 in H. apply H. apply in_or_app. left.
    change (o, k, c) with (wkey (o, k, c, v)) in E. rewrite <- E. apply in_map. exact Hw.
Qed.

Section Stk.
Variable bipf : Z -> Z -> Z.

(* a candidate on which the recalculation has nothing to do *)
Definition cand_fix (k : cand) : Prop :=
  k_updates k = [] /\
  (forall s, In s (Ranking.somes (k_slots k)) -> Ranking.s_bip s = bipf (Ranking.s_coin s) (Ranking.s_value s)) /\
  k_total k = sum_Z (map Ranking.s_bip (Ranking.somes (k_slots k))) /\
  (length (Ranking.somes (k_slots k)) <= slot_cap)%nat.

Lemma recalc_slots_nil slots :
  Ranking.recalc_slots bipf slots [] =
  Val {| Ranking.r_slots := Ranking.rebip_slots bipf slots; Ranking.r_kicked := [];
         Ranking.r_total := Ranking.total_bip (Ranking.rebip_slots bipf slots) |}.
Proof. reflexivity. Qed.

Lemma rebip_fresh_slots slots :
  (forall s, In s (Ranking.somes slots) -> Ranking.s_bip s = bipf (Ranking.s_coin s) (Ranking.s_value s)) ->
  Ranking.rebip_slots bipf slots = slots.
Proof.
  induction slots as [|[s|] r IH]; intros H; [reflexivity| |].
  - unfold Ranking.rebip_slots. cbn [map option_map]. fold (Ranking.rebip_slots bipf r).
    rewrite IH by (intros s' Hs'; apply H; right; exact Hs'). f_equal. f_equal.
    pose proof (H s (or_introl eq_refl)) as E. unfold Ranking.rebip. destruct s; cbn in *. subst. reflexivity.
  - unfold Ranking.rebip_slots. cbn [map option_map]. fold (Ranking.rebip_slots bipf r). rewrite IH by exact H. reflexivity.
Qed.

Lemma recalc_cand_fix k : cand_fix k ->
  exists k', recalc_cand bipf (import_cand_raw (export_cand k)) = Val (k', []) /\ export_cand k' = export_cand k.
Proof.
  intros (Hu & Hf & Ht & Hl). unfold recalc_cand, import_cand_raw. cbn [export_cand ak_id ak_pub ak_owner ak_status ak_total ak_stakes ak_updates
    k_id k_pub k_owner k_status k_total k_slots k_updates].
  rewrite Hu, skipn_all2, app_nil_r by exact Hl. rewrite recalc_slots_nil. cbn [obind Ranking.r_slots Ranking.r_kicked Ranking.r_total map].
  eexists. split; [reflexivity|]. unfold export_cand. cbn [k_id k_pub k_owner k_status k_total k_slots k_updates].
  rewrite rebip_fresh_slots by (rewrite somes_import_slots by exact Hl; exact Hf).
  unfold Ranking.total_bip. rewrite somes_import_slots by exact Hl. rewrite Hu, <- Ht. reflexivity.
Qed.

Lemma recalc_cands_fix l : (forall k, In k l -> cand_fix k) ->
  exists l', recalc_cands bipf (map import_cand_raw (map export_cand l)) = Val (l', []) /\ map export_cand l' = map export_cand l.
Proof.
  induction l as [|k r IH]; intros H; [exists []; split; reflexivity|].
  destruct (recalc_cand_fix k (H k (or_introl eq_refl))) as (k' & E1 & E2).
  destruct IH as (r' & E3 & E4); [intros k0 Hk0; apply H; right; exact Hk0|].
  exists (k' :: r'). cbn [map recalc_cands]. rewrite E1. cbn [obind]. rewrite E3. cbn [obind fst snd app map].
  split; [reflexivity|]. rewrite E2, E4. reflexivity.
Qed.
End Stk.

(* ======================================================================================================== *)
(* 8. the round trip                                                                                           *)
(* ======================================================================================================== *)
(* what the export-level round trip needs of the state *)
Definition wf_g (g : gst) : Prop :=
  ssorted (map c_id (s_coins (g_led g))) /\ wf_res (g_res g) /\ NoDup (map wkey (g_wait g)).

Lemma export_wait_nodup l : NoDup (map wkey l) -> NoDup (map wkey (export_wait l)).
Proof.
  intros H. unfold export_wait. eapply Permutation_NoDup; [|exact H].
  apply Permutation_map. symmetry. apply RankingFacts.sort_stable_perm.
Qed.

(* the ledger sections of export (import a) are those of a, for a canonical a *)
Lemma export_import_led_sections h b a :
  canon_accts (a_accts a) -> canon_coins (a_coins a) -> canon_frozen h (a_frozen a) -> ssorted (a_used a) ->
  export_accts (import_led h b a) = a_accts a /\
  export_coins (import_led h b a) (import_res (a_coins a)) = a_coins a /\
  export_frozen (import_led h b a) = a_frozen a /\
  set_of (s_used (import_led h b a)) = a_used a /\
  s_prices (import_led h b a) = a_comm a.
Proof.
  intros H1 H2 H3 H4. refine (conj _ (conj _ (conj _ (conj _ _)))).
  - apply export_accts_import. exact H1.
  - apply export_coins_import. exact H2.
  - apply export_frozen_import. exact H3.
  - apply set_of_id. exact H4.
  - reflexivity.
Qed.

Lemma export_canonical g : wf_g g ->
  canon_accts (a_accts (export g)) /\ canon_coins (a_coins (export g)) /\
  canon_frozen (s_height (g_led g)) (a_frozen (export g)) /\ ssorted (a_used (export g)).
Proof.
  intros (Hs & Hr & _). cbn [export a_accts a_coins a_frozen a_used]. refine (conj _ (conj _ (conj _ _))).
  - apply export_accts_canon.
  - apply export_coins_canon; assumption.
  - apply export_frozen_canon.
  - apply set_of_sorted.
Qed.

Lemma del_lt_key a b : del_lt a b = (fst a <? fst b). Proof. reflexivity. Qed.

Lemma appstate_eta a : a = {| a_vals := a_vals a; a_cands := a_cands a; a_deleted := a_deleted a; a_wait := a_wait a; a_pools := a_pools a; a_accts := a_accts a;
  a_coins := a_coins a; a_frozen := a_frozen a; a_halts := a_halts a; a_comm := a_comm a; a_cvotes := a_cvotes a; a_uvotes := a_uvotes a;
  a_used := a_used a; a_maxgas := a_maxgas a; a_slashed := a_slashed a; a_reward := a_reward a |}.
Proof. destruct a; reflexivity. Qed.

(* Import, spelled out *)
Definition import_result (h b : Z) (a : appstate) (p : list cand * list (Z * Z * Z * Z)) : gst :=
  {| g_led := import_led h b a; g_res := import_res (a_coins a); g_vals := a_vals a; g_cands := fst p; g_deleted := a_deleted a;
     g_maxid := Z.max (fold_right Z.max 0 (map ak_id (a_cands a))) (fold_right Z.max 0 (map fst (a_deleted a)));
     g_wait := add_waits (add_waits [] (snd p)) (a_wait a);
     g_pools := a_pools a; g_halts := a_halts a; g_cvotes := a_cvotes a; g_uvotes := a_uvotes a; g_maxgas := a_maxgas a;
     g_slashed := a_slashed a; g_reward := a_reward a; g_safe := a_reward a |}.

Lemma import_val bipf h b a :
  import bipf h b a = obind (recalc_cands bipf (map import_cand_raw (a_cands a))) (fun p => Val (import_result h b a p)).
Proof.
  unfold import, recalc_all. cbn [import_pre g_cands]. destruct (recalc_cands bipf (map import_cand_raw (a_cands a))); reflexivity.
Qed.

Lemma export_import_result h b a p :
  export (import_result h b a p) =
  {| a_vals := a_vals a; a_cands := map export_cand (fst p); a_deleted := Ranking.sort_stable del_lt (a_deleted a);
     a_wait := export_wait (add_waits (add_waits [] (snd p)) (a_wait a));
     a_pools := a_pools a; a_accts := export_accts (import_led h b a); a_coins := export_coins (import_led h b a) (import_res (a_coins a));
     a_frozen := export_frozen (import_led h b a); a_halts := a_halts a; a_comm := a_comm a; a_cvotes := a_cvotes a; a_uvotes := a_uvotes a;
     a_used := set_of (a_used a); a_maxgas := a_maxgas a; a_slashed := a_slashed a; a_reward := a_reward a |}.
Proof. reflexivity. Qed.

Theorem roundtrip_partial bipf g : wf_g g -> (forall k, In k (g_cands g) -> cand_fix bipf k) ->
  exists g2, import bipf (s_height (g_led g)) (s_base_sym (g_led g)) (export g) = Val g2 /\ export g2 = export g.
Proof.
  intros Hwf Hfix. destruct (export_canonical g Hwf) as (C1 & C2 & C3 & C4).
  destruct (export_import_led_sections (s_height (g_led g)) (s_base_sym (g_led g)) (export g) C1 C2 C3 C4) as (E1 & E2 & E3 & E4 & E5).
  destruct (recalc_cands_fix bipf (g_cands g) Hfix) as (l' & R1 & R2).
  rewrite import_val. change (a_cands (export g)) with (map export_cand (g_cands g)). rewrite R1. cbn [obind].
  eexists. split; [reflexivity|]. rewrite export_import_result. cbn [fst snd].
  rewrite E1, E2, E3. etransitivity; [|symmetry; apply appstate_eta]. f_equal.
  - exact R2.
  - cbn [export a_deleted]. apply (sort_idem fst del_lt del_lt_key).
  - change (a_wait (export g)) with (export_wait (g_wait g)). unfold add_waits at 2. cbn [fold_left].
    rewrite (add_waits_nodup (export_wait (g_wait g)) []) by (apply export_wait_nodup; apply Hwf).
    cbn [app]. unfold export_wait. apply (sort_idem (fun w => - wl_owner w) wl_gt wl_gt_key).
  - apply set_of_id. exact C4.
Qed.

(* slots in the shape Import builds: the occupied slots first, the free ones behind, 1000 in all *)
Definition cand_packed (k : cand) : Prop :=
  k_slots k = import_slots (Ranking.somes (k_slots k)) /\ (length (Ranking.somes (k_slots k)) <= slot_cap)%nat.

Lemma import_export_cand k : cand_packed k -> import_cand_raw (export_cand k) = k.
Proof.
  intros [Hs Hl]. unfold import_cand_raw, export_cand. cbn [ak_id ak_pub ak_owner ak_status ak_total ak_stakes ak_updates].
  rewrite <- Hs, skipn_all2, app_nil_r by exact Hl. destruct k; reflexivity.
Qed.

(* everything but candidates and waitlist *)
Definition same_rest (a a' : appstate) : Prop :=
  a_deleted a = a_deleted a' /\ a_halts a = a_halts a' /\
  a_vals a = a_vals a' /\ a_pools a = a_pools a' /\ a_accts a = a_accts a' /\ a_coins a = a_coins a' /\
  a_frozen a = a_frozen a' /\ a_comm a = a_comm a' /\ a_cvotes a = a_cvotes a' /\ a_uvotes a = a_uvotes a' /\
  a_used a = a_used a' /\ a_maxgas a = a_maxgas a' /\ a_slashed a = a_slashed a' /\ a_reward a = a_reward a'.

(* in general the chain started from an export is where the exporting chain will be after the stake
   recalculation of its next update block *)
Theorem roundtrip_general bipf g g1 : wf_g g -> (forall k, In k (g_cands g) -> cand_packed k) ->
  recalc_all bipf g = Val g1 ->
  exists g2, import bipf (s_height (g_led g)) (s_base_sym (g_led g)) (export g) = Val g2 /\
    a_cands (export g2) = a_cands (export g1) /\
    (forall o k c, wl_get (a_wait (export g2)) o k c = wl_get (a_wait (export g1)) o k c) /\
    same_rest (export g2) (export g1).
Proof.
  intros Hwf Hp Hrec. destruct (export_canonical g Hwf) as (C1 & C2 & C3 & C4).
  destruct (export_import_led_sections (s_height (g_led g)) (s_base_sym (g_led g)) (export g) C1 C2 C3 C4) as (E1 & E2 & E3 & E4 & E5).
  assert (Ec : map import_cand_raw (map export_cand (g_cands g)) = g_cands g).
  { rewrite map_map. rewrite (map_ext_in _ (fun k => k)); [apply map_id|]. intros k Hk. apply import_export_cand, Hp, Hk. }
  unfold recalc_all in Hrec. rewrite import_val. change (a_cands (export g)) with (map export_cand (g_cands g)). rewrite Ec.
  destruct (recalc_cands bipf (g_cands g)) as [[l1 kicks]| |]; cbn [obind] in *; try discriminate.
  injection Hrec as <-. eexists. split; [reflexivity|]. rewrite export_import_result. cbn [fst snd].
  rewrite E1, E2, E3.
  set (g1 := {| g_led := g_led g; g_res := g_res g; g_vals := g_vals g; g_cands := l1; g_deleted := g_deleted g; g_maxid := g_maxid g;
                g_wait := add_waits (g_wait g) kicks; g_pools := g_pools g; g_halts := g_halts g; g_cvotes := g_cvotes g;
                g_uvotes := g_uvotes g; g_maxgas := g_maxgas g; g_slashed := g_slashed g; g_reward := g_reward g; g_safe := g_safe g |}).
  cbn [a_cands a_wait].
  refine (conj eq_refl (conj _ _)).
  - intros o k c. change (a_wait (export g1)) with (export_wait (add_waits (g_wait g) kicks)).
    change (a_wait (export g)) with (export_wait (g_wait g)).
    rewrite !wl_get_sort, !wl_get_add_waits, wl_get_sort. unfold wl_get at 1. cbn [map sum_Z fold_right]. lia.
  - unfold same_rest. cbn [a_deleted a_halts a_vals a_pools a_accts a_coins a_frozen a_comm a_cvotes a_uvotes a_used a_maxgas a_slashed a_reward].
    change (a_used (export g)) with (set_of (s_used (g_led g))). rewrite (set_of_id _ (set_of_sorted _)).
    change (a_deleted (export g)) with (Ranking.sort_stable del_lt (g_deleted g)). rewrite (sort_idem fst del_lt del_lt_key).
    repeat split; reflexivity.
Qed.

(* ---- the new chain behaves like the original for every ledger continuation -------------------------------- *)
Theorem continues_alike bipf g g2 ops : wf_led (g_led g) ->
  import bipf (s_height (g_led g)) (s_base_sym (g_led g)) (export g) = Val g2 ->
  snd (grun g ops) = snd (grun g2 ops) /\ sim (g_led (fst (grun g ops))) (g_led (fst (grun g2 ops))).
Proof.
  intros Hwf Himp. assert (Hs : sim (g_led g) (g_led g2)).
  { rewrite import_val in Himp. destruct (recalc_cands bipf (map import_cand_raw (a_cands (export g)))) as [p| |]; cbn [obind] in Himp; try discriminate.
    injection Himp as <-. cbn [import_result g_led]. apply sim_import. exact Hwf. }
  destruct (grun_sim ops g g2 Hs) as [A B]. split; [exact B|exact A].
Qed.

(* ======================================================================================================== *)
(* 9. the export of a consistent state passes Verify                                                          *)
(* ======================================================================================================== *)
(* what the state holds of coin c, by kind *)
Definition st_bal (s : st) (c : Z) : Z := sum_Z (map (fun e : Z * Z * Z => if snd (fst e) =? c then snd e else 0) (s_bal s)).
Definition st_frozen (s : st) (c : Z) : Z := sum_Z (map (fun f : Z * Z * Z * Z => if snd (fst f) =? c then snd f else 0) (s_frozen s)).
Definition st_pools (g : gst) (c : Z) : Z :=
  sum_Z (map (fun p => (if ap_c0 p =? c then ap_r0 p else 0) + (if ap_c1 p =? c then ap_r1 p else 0)) (g_pools g)).
Definition st_stakes (g : gst) (c : Z) : Z :=
  sum_Z (map (fun k => vol_stk (Ranking.somes (k_slots k)) c + vol_stk (k_updates k) c) (g_cands g)).
Definition st_wait (g : gst) (c : Z) : Z := sum_Z (map (fun w : Z * Z * Z * Z => if snd (fst w) =? c then snd w else 0) (g_wait g)).

(* the same sums as C01 uses them (Proofs/LedgerCons.v: held = sum_coin + frozen_of) *)
Lemma st_bal_sum_coin s c : st_bal s c = sum_coin (s_bal s) c.
Proof. unfold st_bal, sum_coin. f_equal. apply map_ext. intros [[a c'] v]. reflexivity. Qed.
Lemma st_frozen_frozen_of s c : st_frozen s c = frozen_of (s_frozen s) c.
Proof. unfold st_frozen, frozen_of. f_equal. apply map_ext. intros [[[d a] c'] v]. reflexivity. Qed.

Definition coin_ok (s : st) (c : Z) : Prop := c = 0 \/ exists r, In r (s_coins s) /\ c_id r = c.
Definition is_token (g : gst) (r : coinrec) : Prop := find_res (g_res g) (c_id r) = None.

Definition wf_verify (b : Z) (g : gst) : Prop :=
  let s := g_led g in
  (forall a c, 0 <= get_bal (s_bal s) a c) /\
  ssorted (map c_id (s_coins s)) /\ wf_res (g_res g) /\
  0 <= g_slashed g /\
  g_vals g <> [] /\ NoDup (map av_pub (g_vals g)) /\
  (forall v, In v (g_vals g) -> (exists k, In k (g_cands g) /\ k_pub k = av_pub v) /\ 0 <= av_total v /\ 0 <= av_accum v) /\
  (forall e, In e (s_bal s) -> coin_ok s (snd (fst e))) /\
  (forall k, In k (g_cands g) ->
     NoDup (map (fun x => (Ranking.s_owner x, Ranking.s_coin x)) (Ranking.somes (k_slots k))) /\
     forall x, In x (Ranking.somes (k_slots k)) -> coin_ok s (Ranking.s_coin x)) /\
  (forall r, In r (s_coins s) -> c_sym r <> b) /\
  (forall w, In w (g_wait g) -> 0 <= snd w /\ coin_ok s (snd (fst w))) /\
  (forall f, In f (s_frozen s) -> s_height s <= due_of f /\ 0 <= snd f /\ coin_ok s (snd (fst f))) /\
  (* C01: the recorded volume of every coin is what the state holds of it; a token is never staked *)
  (forall r, In r (s_coins s) ->
     c_vol r = st_bal s (c_id r) + st_pools g (c_id r) + st_frozen s (c_id r) + st_stakes g (c_id r) + st_wait g (c_id r) /\
     (is_token g r -> st_stakes g (c_id r) = 0 /\ st_wait g (c_id r) = 0)).


Lemma sum_map_add {A} (f h : A -> Z) l : sum_Z (map (fun x => f x + h x) l) = sum_Z (map f l) + sum_Z (map h l).
Proof. induction l as [|x r IH]; [reflexivity|]. cbn [map]. rewrite !sumZ_cons, IH. lia. Qed.

Lemma sum_map_zero {A} (f : A -> Z) l : (forall x, In x l -> f x = 0) -> sum_Z (map f l) = 0.
Proof. induction l as [|x r IH]; intros H; [reflexivity|]. cbn [map]. rewrite sumZ_cons, H, IH; [lia| |left; reflexivity]. intros y Hy. apply H. right. exact Hy. Qed.

Lemma sum_filter_zero {A} (f : A -> Z) (p : A -> bool) l : (forall x, In x l -> p x = false -> f x = 0) ->
  sum_Z (map f (filter p l)) = sum_Z (map f l).
Proof.
  induction l as [|x r IH]; intros H; [reflexivity|]. cbn [filter map].
  assert (Hr : forall y, In y r -> p y = false -> f y = 0) by (intros y Hy; apply H; right; exact Hy).
  destruct (p x) eqn:E; cbn [map]; rewrite !sumZ_cons, IH by exact Hr; [reflexivity|]. rewrite (H x (or_introl eq_refl) E). lia.
Qed.

Lemma sum_indicator (U : list Z) a0 v : NoDup U -> In a0 U -> sum_Z (map (fun a => if a0 =? a then v else 0) U) = v.
Proof.
  induction 1 as [|x r Hni Hnd IH]; intros Hin; [contradiction|]. cbn [map]. rewrite sumZ_cons. destruct Hin as [->|Hin].
  - rewrite Z.eqb_refl. rewrite sum_map_zero; [lia|]. intros y Hy. destruct (a0 =? y) eqn:E; [|reflexivity]. exfalso. apply Hni. replace a0 with y by lia. exact Hy.
  - rewrite (IH Hin). destruct (a0 =? x) eqn:E; [|lia]. exfalso. apply Hni. replace x with a0 by lia. exact Hin.
Qed.

Lemma sum_by_addr (U : list Z) l c : NoDup U -> (forall e, In e l -> In (fst (fst e)) U) ->
  sum_Z (map (fun a => get_bal l a c) U) = sum_Z (map (fun e : Z * Z * Z => if snd (fst e) =? c then snd e else 0) l).
Proof.
  intros Hnd. induction l as [|[[a0 c0] v] r IH]; intros H.
  - apply sum_map_zero. intros. reflexivity.
  - cbn [map fst snd]. rewrite sumZ_cons, <- IH by (intros e He; apply H; right; exact He).
    rewrite (map_ext _ (fun a => (if a0 =? a then (if c0 =? c then v else 0) else 0) + get_bal r a c)).
    + rewrite sum_map_add, sum_indicator; [reflexivity|exact Hnd|]. apply (H (a0, c0, v)). left. reflexivity.
    + intros a. rewrite get_bal_cons. unfold hit. destruct (a0 =? a), (c0 =? c); reflexivity.
Qed.

Lemma vol_accounts_export g c : (forall a c, 0 <= get_bal (s_bal (g_led g)) a c) -> vol_accounts (export g) c = st_bal (g_led g) c.
Proof.
  intros Hn. set (s := g_led g). unfold vol_accounts, st_bal. cbn [export a_accts]. fold s.
  change (fun x : aacct => sum_Z (map (fun cv : Z * Z => if fst cv =? c then snd cv else 0) (aa_bal x))) with (fun x => look (aa_bal x) c).
  unfold export_accts. rewrite sum_filter_zero.
  - rewrite map_map. rewrite (map_ext _ (fun a => get_bal (s_bal s) a c)) by (intros a; apply look_acct_of, Hn).
    apply sum_by_addr; [apply ssorted_nodup, set_of_sorted|]. intros e He. apply universe_in. left. eauto.
  - intros x _ Hx. apply negb_false_iff, acct_empty_inv in Hx. destruct Hx as (E & _). rewrite E. reflexivity.
Qed.

Lemma vol_frozen_export g c : (forall f, In f (s_frozen (g_led g)) -> s_height (g_led g) <= due_of f) -> vol_frozen (export g) c = st_frozen (g_led g) c.
Proof.
  intros H. unfold vol_frozen, st_frozen. cbn [export a_frozen]. unfold export_frozen. rewrite (sum_sort due_lt).
  rewrite filter_all; [reflexivity|]. intros f Hf. specialize (H f Hf). lia.
Qed.

Lemma vol_cands_export g c : vol_cands (export g) c = st_stakes g c.
Proof. unfold vol_cands, st_stakes. cbn [export a_cands]. rewrite map_map. reflexivity. Qed.
Lemma vol_wait_export g c : vol_wait (export g) c = st_wait g c.
Proof. unfold vol_wait, st_wait. cbn [export a_wait]. unfold export_wait. apply sum_sort. Qed.
Lemma vol_pools_export g c : vol_pools (export g) c = st_pools g c.
Proof. reflexivity. Qed.

Lemma coin_known_export g c : ssorted (map c_id (s_coins (g_led g))) -> coin_ok (g_led g) c -> coin_known (export g) c = true.
Proof.
  intros Hs [->|(r & Hr & <-)]; unfold coin_known; [reflexivity|]. apply orb_true_iff. right. apply existsb_exists.
  exists (export_coin (g_led g) (g_res g) r). split; [|cbn [export_coin ac_id]; lia].
  cbn [export a_coins]. unfold export_coins. rewrite (sort_sorted_id c_id coin_lt coin_lt_key) by (apply ksorted_of_ssorted, Hs).
  apply in_map. exact Hr.
Qed.

Lemma nodup_zz_spec l : NoDup l -> nodup_zz l = true.
Proof.
  induction 1 as [|[x y] r Hni Hnd IH]; [reflexivity|]. cbn [nodup_zz]. rewrite IH, andb_true_r.
  apply negb_true_iff, not_true_is_false. intros H. apply existsb_exists in H. destruct H as ([x' y'] & Hin & E). cbn [fst snd] in E.
  apply Hni. replace (x, y) with (x', y'); [exact Hin|]. f_equal; lia.
Qed.

Theorem export_verifies b g : wf_verify b g -> verify b (export g) = true.
Proof.
  intros (Hn & Hs & Hres & Hsl & Hv0 & Hvn & Hv & Hbc & Hk & Hsym & Hw & Hf & Hcons).
  set (s := g_led g) in *.
  assert (Hfh : forall f, In f (s_frozen s) -> s_height s <= due_of f) by (intros f Hf'; apply Hf; exact Hf').
  assert (Esort : Ranking.sort_stable coin_lt (s_coins s) = s_coins s) by (apply (sort_sorted_id c_id coin_lt coin_lt_key), ksorted_of_ssorted, Hs).
  unfold verify. repeat (apply andb_true_iff; split).
  - cbn [export a_slashed]. lia.
  - cbn [export a_vals]. destruct (g_vals g); [contradiction|reflexivity].
  - cbn [export a_vals]. apply nodup_z_spec. exact Hvn.
  - cbn [export a_vals a_cands]. apply forallb_forall. intros v Hin. destruct (Hv v Hin) as ((k & Hk' & E) & H1 & H2).
    repeat (apply andb_true_iff; split); try lia. apply existsb_exists. exists (export_cand k). split; [apply in_map; exact Hk'|cbn [export_cand ak_pub]; lia].
  - apply nodup_z_spec, ssorted_nodup. exact (proj1 (export_accts_canon s)).
  - apply forallb_forall. intros x Hx. apply forallb_forall. intros cv Hcv. cbn [export a_accts] in Hx. fold s in Hx.
    unfold export_accts in Hx. apply filter_In in Hx. destruct Hx as [Hx _]. apply in_map_iff in Hx. destruct Hx as (a & <- & _).
    cbn [acct_of aa_bal] in Hcv. apply in_map_iff in Hcv. destruct Hcv as (c & <- & Hc). apply filter_In in Hc. destruct Hc as [Hc Hp].
    cbn [fst snd]. apply andb_true_iff. split; [lia|]. apply coin_known_export; [exact Hs|].
    apply coins_of_in in Hc. destruct Hc as (e & He & _ & <-). apply Hbc. exact He.
  - cbn [export a_cands]. apply forallb_forall. intros k' Hk'. apply in_map_iff in Hk'. destruct Hk' as (k & <- & Hin).
    destruct (Hk k Hin) as [H1 H2]. cbn [export_cand ak_stakes]. apply andb_true_iff. split; [apply nodup_zz_spec; exact H1|].
    apply forallb_forall. intros x Hx. apply coin_known_export; [exact Hs|]. apply H2. exact Hx.
  - cbn [export a_coins]. fold s. unfold export_coins. rewrite Esort. apply forallb_forall. intros c Hc. apply in_map_iff in Hc.
    destruct Hc as (r & <- & Hr). cbn [export_coin ac_sym]. apply negb_true_iff. specialize (Hsym r Hr). lia.
  - cbn [export a_coins]. fold s. unfold export_coins. rewrite Esort, map_map. cbn [export_coin ac_id]. apply nodup_z_spec, ssorted_nodup. exact Hs.
  - apply forallb_forall. intros c Hc. cbn [export a_coins] in Hc. fold s in Hc. unfold export_coins in Hc. rewrite Esort in Hc.
    apply in_map_iff in Hc. destruct Hc as (r & <- & Hr). destruct (Hcons r Hr) as [Hvol Htk].
    unfold coin_volume_ok. cbn [export_coin ac_id ac_crr ac_vol].
    rewrite (vol_accounts_export g _ Hn), vol_pools_export, (vol_frozen_export g _ Hfh), vol_cands_export, vol_wait_export. fold s.
    destruct (find_res (g_res g) (c_id r)) as [p|] eqn:F; cbn [fst].
    + apply find_res_in in F. specialize (Hres _ F). cbn [snd] in Hres. destruct (fst p =? 0) eqn:E; lia.
    + destruct (Htk F) as [E1 E2]. cbn [Z.eqb]. lia.
  - cbn [export a_wait]. apply forallb_forall. intros w Hw'. apply (proj1 (sort_in wl_gt _ _)) in Hw'. destruct (Hw w Hw') as [H1 H2].
    apply andb_true_iff. split; [lia|]. apply coin_known_export; assumption.
  - cbn [export a_frozen]. fold s. apply forallb_forall. intros f Hf'. apply (proj1 (sort_in due_lt _ _)) in Hf'. apply filter_In in Hf'.
    destruct (Hf f (proj1 Hf')) as (_ & H1 & H2). apply andb_true_iff. split; [lia|]. apply coin_known_export; assumption.
Qed.

(* ======================================================================================================== *)
(* 10. the imported state is well formed again                                                                 *)
(* ======================================================================================================== *)
Lemma look_nonneg bal c : (forall cv, In cv bal -> 0 <= snd cv) -> 0 <= look bal c.
Proof.
  induction bal as [|[c' v] r IH]; intros H; [unfold look; cbn; lia|]. unfold look in *. cbn [map fst snd]. rewrite sumZ_cons.
  pose proof (H (c', v) (or_introl eq_refl)) as H0. cbn [snd] in H0.
  assert (0 <= sum_Z (map (fun cv : Z * Z => if fst cv =? c then snd cv else 0) r)) by (apply IH; intros cv Hcv; apply H; right; exact Hcv).
  destruct (c' =? c); lia.
Qed.

Lemma get_owner_in l sym o : get_owner l sym = Some o -> In (sym, o) l.
Proof.
  induction l as [|[s' a] r IH]; cbn [get_owner]; [discriminate|]. destruct (s' =? sym) eqn:E.
  - intros H. injection H as ->. left. f_equal. lia.
  - intros H. right. apply IH. exact H.
Qed.

Theorem wf_import h b a : canon_accts (a_accts a) -> canon_coins (a_coins a) -> canon_frozen h (a_frozen a) ->
  wf_led (import_led h b a).
Proof.
  intros [Hsa Hca] (Hsc & _ & _) [_ Hfh]. unfold wf_led. cbn [import_led s_bal s_coins s_ncoins s_symowner s_frozen s_height s_rpool].
  refine (conj _ (conj _ (conj _ (conj _ (conj _ eq_refl))))).
  - intros x c. destruct (in_dec Z.eq_dec x (map aa_addr (a_accts a))) as [Hin|Hni].
    + apply in_map_iff in Hin. destruct Hin as (y & <- & Hy). rewrite (get_bal_import_in _ Hsa y Hy). apply look_nonneg.
      intros cv Hcv. destruct (Hca y Hy) as (_ & Hp & _). specialize (Hp cv Hcv). lia.
    + rewrite get_bal_import_notin by exact Hni. lia.
  - rewrite map_map. exact Hsc.
  - rewrite map_length. reflexivity.
  - intros sym Ho. destruct (get_owner (import_owners (a_coins a)) sym) as [o|] eqn:E; [|contradiction].
    apply get_owner_in in E. unfold import_owners in E. apply in_flat_map in E. destruct E as (c & Hc & He).
    destruct (ac_owner c); [|contradiction]. destruct He as [He|[]]. injection He as <- _.
    exists (import_coin c). split; [apply in_map; exact Hc|reflexivity].
  - exact Hfh.
Qed.

(* the well-formedness of the ledger part as a boolean *)
Fixpoint ssortedb (l : list Z) : bool :=
  match l with [] => true | x :: r => forallb (fun y => x <? y) r && ssortedb r end.
Lemma ssortedb_spec l : ssortedb l = true -> ssorted l.
Proof.
  induction l as [|x r IH]; intros H; [exact I|]. cbn [ssortedb] in H. apply andb_true_iff in H. destruct H as [H1 H2].
  split; [|apply IH; exact H2]. intros y Hy. pose proof (proj1 (forallb_forall _ _) H1 y Hy). lia.
Qed.

Definition wf_ledb (s : st) : bool :=
  forallb (fun e : Z * Z * Z => 0 <=? get_bal (s_bal s) (fst (fst e)) (snd (fst e))) (s_bal s) &&
  ssortedb (map c_id (s_coins s)) &&
  (s_ncoins s =? Z.of_nat (length (s_coins s))) &&
  forallb (fun e : Z * Z => existsb (fun r => c_sym r =? fst e) (s_coins s)) (s_symowner s) &&
  forallb (fun f => s_height s <=? due_of f) (s_frozen s) &&
  (s_rpool s =? 0).

Lemma bal_nonneg_b l :
  forallb (fun e : Z * Z * Z => 0 <=? get_bal l (fst (fst e)) (snd (fst e))) l = true -> forall a c, 0 <= get_bal l a c.
Proof.
  intros H a c. destruct (existsb (fun e : Z * Z * Z => (fst (fst e) =? a) && (snd (fst e) =? c)) l) eqn:E.
  - apply existsb_exists in E. destruct E as (e & He & E). pose proof (proj1 (forallb_forall _ _) H e He) as H'.
    replace a with (fst (fst e)) by lia. replace c with (snd (fst e)) by lia. lia.
  - rewrite get_bal_no_entry; [lia|]. intros e He [E1 E2].
    assert (existsb (fun e : Z * Z * Z => (fst (fst e) =? a) && (snd (fst e) =? c)) l = true); [|congruence].
    apply existsb_exists. exists e. split; [exact He|lia].
Qed.

Lemma wf_ledb_spec s : wf_ledb s = true -> wf_led s.
Proof.
  unfold wf_ledb. intros H. repeat (apply andb_true_iff in H; destruct H as [H ?]).
  refine (conj _ (conj _ (conj _ (conj _ (conj _ _))))).
  - apply bal_nonneg_b. exact H.
  - apply ssortedb_spec. assumption.
  - lia.
  - intros sym Ho. destruct (get_owner (s_symowner s) sym) as [o|] eqn:E; [|contradiction]. apply get_owner_in in E.
    match goal with Hf : forallb _ (s_symowner s) = true |- _ => pose proof (proj1 (forallb_forall _ _) Hf _ E) as Hx end.
    apply existsb_exists in Hx. destruct Hx as (r & Hr & Er). exists r. split; [exact Hr|cbn [fst] in Er; lia].
  - intros f Hf. match goal with Hq : forallb _ (s_frozen s) = true |- _ => pose proof (proj1 (forallb_forall _ _) Hq f Hf) end. lia.
  - lia.
Qed.

(* ======================================================================================================== *)
(* 11. the candidate id counter comes back (fix 9497f5f)                                                       *)
(* ======================================================================================================== *)
Lemma fold_max_perm l l' : Permutation l l' -> fold_right Z.max 0 l = fold_right Z.max 0 l'.
Proof. induction 1; cbn [fold_right]; [reflexivity|rewrite IHPermutation; reflexivity|lia|congruence]. Qed.

(* every id ever issued belongs to a live or to a deleted candidate: the counter is their maximum *)
Definition maxid_inv (g : gst) : Prop :=
  g_maxid g = Z.max (fold_right Z.max 0 (map k_id (g_cands g))) (fold_right Z.max 0 (map fst (g_deleted g))).

Theorem import_maxid bipf g g2 : maxid_inv g ->
  import bipf (s_height (g_led g)) (s_base_sym (g_led g)) (export g) = Val g2 -> g_maxid g2 = g_maxid g.
Proof.
  intros Hinv Himp. rewrite import_val in Himp.
  destruct (recalc_cands bipf (map import_cand_raw (a_cands (export g)))) as [p| |]; cbn [obind] in Himp; try discriminate.
  injection Himp as <-. cbn [import_result g_maxid export a_cands a_deleted]. rewrite Hinv, !map_map. cbn [export_cand ak_id].
  f_equal. apply fold_max_perm, Permutation_map, RankingFacts.sort_stable_perm.
Qed.
