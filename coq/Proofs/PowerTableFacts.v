(* PowerTableFacts.v — only validators recorded as present (and not dropped) carry voting power. *)
From Minter Require Import Base PowerTable.
From Coq Require Import ZArith List Bool Lia.
Import ListNotations.
Open Scope Z_scope.

Lemma sumZ_cons x l : sum_Z (x :: l) = x + sum_Z l. Proof. reflexivity. Qed.

Lemma table_app l1 l2 : table (l1 ++ l2) = table l1 ++ table l2.
Proof. unfold table. apply filter_app. Qed.

(* a validator that is not recorded present, or is being dropped, changes neither the table, nor the total,
   nor any vote sum - wherever it stands in the list and whether or not it voted *)
Lemma not_present_irrelevant l1 v l2 voters :
  in_table v = false ->
  table (l1 ++ v :: l2) = table (l1 ++ l2) /\
  total_power (l1 ++ v :: l2) = total_power (l1 ++ l2) /\
  voted_power (l1 ++ v :: l2) voters = voted_power (l1 ++ l2) voters.
Proof.
  intros H. assert (E : table (l1 ++ v :: l2) = table (l1 ++ l2)).
  { rewrite !table_app. unfold table at 2. cbn [filter]. rewrite H. reflexivity. }
  split; [exact E|]. unfold total_power, raw_total, voted_power. rewrite E. split; reflexivity.
Qed.

Lemma in_table_spec v : in_table v = true <-> v_status v = 1 /\ v_drop v = false.
Proof.
  unfold in_table. rewrite andb_true_iff, Z.eqb_eq, negb_true_iff. tauto.
Qed.

Lemma table_members l v : In v (table l) <-> In v l /\ v_status v = 1 /\ v_drop v = false.
Proof. unfold table. rewrite filter_In, in_table_spec. tauto. Qed.

Lemma sum_filter_le (f : vrec -> bool) (l : list vrec) :
  (forall v, In v l -> 0 <= v_stake v) -> 0 <= sum_Z (map v_stake (filter f l)) <= sum_Z (map v_stake l).
Proof.
  induction l as [|v l IH]; intros Hp; [cbn; lia|].
  assert (Hl : forall x, In x l -> 0 <= v_stake x) by (intros x Hx; apply Hp; right; exact Hx).
  pose proof (Hp v (or_introl eq_refl)) as Hv. specialize (IH Hl). cbn [filter map].
  destruct (f v); cbn [map]; rewrite ?sumZ_cons; lia.
Qed.

(* the votes counted never exceed the total: with stakes >= 0 *)
Lemma voted_le_total l voters : (forall v, In v l -> 0 <= v_stake v) -> 0 <= voted_power l voters <= total_power l.
Proof.
  intros Hp. unfold voted_power, total_power, raw_total.
  assert (Ht : forall v, In v (table l) -> 0 <= v_stake v) by (intros v Hv; apply Hp; apply table_members in Hv; tauto).
  pose proof (sum_filter_le (fun v => existsb (Z.eqb (v_key v)) voters) (table l) Ht) as H.
  destruct (Z.eqb_spec (sum_Z (map v_stake (table l))) 0); lia.
Qed.
