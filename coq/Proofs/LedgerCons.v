(* LedgerCons.v — conservation of value on the ledger model: custom coins (volume = holdings)
   and the base coin (holdings + reward pool constant over transactions). *)
From Minter Require Import Base Ledger LedgerFacts LedgerTx LedgerProps.
From Coq Require Import ZArith List Bool Lia.
Import ListNotations.
Open Scope Z_scope.

(* recorded volume of coin id c, and what is frozen in coin c *)
Definition vol_of (l : list coinrec) (c : Z) : Z := sum_Z (map (fun r => if c_id r =? c then c_vol r else 0) l).
Definition frozen_of (l : list (Z * Z * Z * Z)) (c : Z) : Z :=
  sum_Z (map (fun f : Z * Z * Z * Z => let '(_, _, c', v) := f in if c' =? c then v else 0) l).
Definition held (s : st) (c : Z) : Z := sum_coin (s_bal s) c + frozen_of (s_frozen s) c.

Lemma vol_of_app a b c : vol_of (a ++ b) c = vol_of a c + vol_of b c.
Proof. unfold vol_of. rewrite map_app, sumZ_app. reflexivity. Qed.
Lemma frozen_of_app a b c : frozen_of (a ++ b) c = frozen_of a c + frozen_of b c.
Proof. unfold frozen_of. rewrite map_app, sumZ_app. reflexivity. Qed.

Lemma vol_upd_coin l id f c :
  (forall r, c_id (f r) = c_id r) ->
  vol_of (upd_coin l id f) c =
  vol_of l c + match find_coin l id with Some r => if id =? c then c_vol (f r) - c_vol r else 0 | None => 0 end.
Proof.
  intros Hf. induction l as [|r l IH]; [cbn; lia|].
  cbn [upd_coin find_coin]. destruct (Z.eqb_spec (c_id r) id) as [E|E].
  - unfold vol_of. cbn [map]. rewrite !sumZ_cons, Hf, E. destruct (id =? c); lia.
  - unfold vol_of in *. cbn [map]. rewrite !sumZ_cons, IH. lia.
Qed.

Lemma find_upd_coin l id f id' : (forall r, c_id (f r) = c_id r) ->
  (find_coin (upd_coin l id f) id' = None <-> find_coin l id' = None).
Proof.
  intros Hf. induction l as [|r l IH]; [tauto|]. cbn [upd_coin].
  destruct (Z.eqb_spec (c_id r) id) as [E|E]; cbn [find_coin]; rewrite ?Hf.
  - destruct (c_id r =? id'); [split; discriminate|tauto].
  - destruct (c_id r =? id'); [split; discriminate|exact IH].
Qed.

Lemma find_coin_app l r id : find_coin (l ++ [r]) id = None -> find_coin l id = None.
Proof. induction l as [|x l IH]; [reflexivity|]. cbn [app find_coin]. destruct (c_id x =? id); [discriminate|exact IH]. Qed.

(* an effect list is "guarded" when every volume change targets a coin that exists at that point *)
Fixpoint evol_ok (coins : list coinrec) (l : list eff) : Prop :=
  match l with
  | [] => True
  | EVol c _ :: r => find_coin coins c <> None /\ evol_ok coins r
  | _ :: r => evol_ok coins r
  end.

Lemma evol_ok_mono : forall l coins coins',
  (forall id, find_coin coins id <> None -> find_coin coins' id <> None) -> evol_ok coins l -> evol_ok coins' l.
Proof.
  induction l as [|e l IH]; intros coins coins' Hm; [auto|].
  destruct e; cbn [evol_ok]; try (apply IH; exact Hm).
  intros [H1 H2]. split; [apply Hm; exact H1|apply (IH coins coins' Hm H2)].
Qed.

Lemma apply_effs_vol : forall l s c, evol_ok (s_coins s) l ->
  vol_of (s_coins (apply_effs s l)) c = vol_of (s_coins s) c + vol_deltas l c.
Proof.
  induction l as [|e l IH]; intros s c Hok; [unfold vol_deltas; cbn; lia|].
  rewrite apply_effs_cons. unfold vol_deltas. cbn [map]. rewrite sumZ_cons. fold (vol_deltas l c).
  destruct e; cbn [evol_ok] in Hok; cbn [vol_delta];
    try (rewrite IH by exact Hok; cbn [apply_eff s_coins]; lia).
  - (* EVol *)
    destruct Hok as [Hex Hok]. rewrite IH.
    + cbn [apply_eff set_coins s_coins]. rewrite vol_upd_coin by reflexivity.
      destruct (find_coin (s_coins s) c0) as [r|]; [|contradiction]. cbn [c_vol]. destruct (c0 =? c); lia.
    + cbn [apply_eff set_coins s_coins]. eapply evol_ok_mono; [|exact Hok].
      intros id Hid Hn. apply Hid. eapply find_upd_coin; [|exact Hn]. reflexivity.
  - (* ENewCoin *)
    rewrite IH.
    + cbn [apply_eff s_coins]. rewrite vol_of_app. unfold vol_of at 2. cbn. lia.
    + cbn [apply_eff s_coins]. eapply evol_ok_mono; [|exact Hok].
      intros id Hid Hn. apply Hid. eapply find_coin_app. exact Hn.
  - (* EVersion *)
    rewrite IH.
    + cbn [apply_eff set_coins s_coins]. rewrite vol_upd_coin by reflexivity.
      destruct (find_coin (s_coins s) c0); cbn [c_vol]; [destruct (c0 =? c)|]; lia.
    + cbn [apply_eff set_coins s_coins]. eapply evol_ok_mono; [|exact Hok].
      intros id Hid Hn. apply Hid. eapply find_upd_coin; [|exact Hn]. reflexivity.
Qed.

Lemma apply_effs_frozen_of l s c : frozen_of (s_frozen (apply_effs s l)) c = frozen_of (s_frozen s) c + frozen_deltas l c.
Proof.
  rewrite apply_effs_frozen, frozen_of_app. f_equal.
  unfold frozen_deltas, frozen_effs, frozen_of. induction l as [|e l IH]; [reflexivity|].
  cbn [flat_map map]. rewrite map_app, sumZ_app, sumZ_cons, IH. destruct e; cbn; lia.
Qed.

Lemma apply_effs_held l s c : held (apply_effs s l) c = held s c + coin_deltas l c + frozen_deltas l c.
Proof. unfold held. rewrite apply_effs_sum_coin, apply_effs_frozen_of. lia. Qed.

Lemma evol_ok_app coins a b : evol_ok coins a -> evol_ok coins b -> evol_ok coins (a ++ b).
Proof.
  induction a as [|e a IH]; intros Ha Hb; [exact Hb|]. cbn [app].
  destruct e; cbn [evol_ok] in *; try (apply IH; assumption). destruct Ha as [H1 H2]. split; [exact H1|apply IH; assumption].
Qed.

Lemma evol_ok_items coins sender (items : list (Z * Z * Z)) :
  evol_ok coins (flat_map (fun it : Z * Z * Z => let '(c, to, v) := it in [EBal sender c (- v); EBal to c v]) items).
Proof. induction items as [|[[c to] v] r IH]; [exact I|]. cbn [flat_map app evol_ok]. exact IH. Qed.

(* the effect list of an accepted transaction is guarded *)
Lemma run_evol_ok s t effs : run s t = inr effs -> evol_ok (s_coins s) effs.
Proof.
  intros H. run_inv H; subst effs; unfold fee_effs; cbn [app evol_ok];
    try (apply evol_ok_app; [apply evol_ok_items|exact I]); repeat split; try congruence.
Qed.

(* new coins get the next id *)
Lemma in_items_newcoin sender (items : list (Z * Z * Z)) r :
  ~ In (ENewCoin r) (flat_map (fun it : Z * Z * Z => let '(c, to, v) := it in [EBal sender c (- v); EBal to c v]) items).
Proof.
  induction items as [|[[c to] v] l IH]; [intros []|]. cbn [flat_map app In].
  intros [H|[H|H]]; [discriminate|discriminate|exact (IH H)].
Qed.

Ltac in_list H :=
  repeat (cbn [In app] in H;
          lazymatch type of H with
          | _ \/ _ => destruct H as [H|H]
          | False => contradiction
          | In _ (_ ++ _) => apply in_app_or in H
          | _ = _ => idtac
          | _ => fail
          end; try discriminate H).

Lemma run_newcoin_id s t effs r : run s t = inr effs -> In (ENewCoin r) effs -> c_id r = s_ncoins s + 1.
Proof.
  intros H Hin. run_inv H; subst effs; unfold fee_effs in Hin; cbn [In app] in Hin;
    repeat match type of Hin with
           | _ \/ _ => destruct Hin as [Hin|Hin]; try discriminate Hin
           | In _ (_ ++ _) => apply in_app_or in Hin
           | False => contradiction
           end;
    try (exfalso; eapply in_items_newcoin; eassumption);
    try (cbn [In] in Hin; destruct Hin as [Hin|[]]; discriminate Hin);
    try (injection Hin as <-; reflexivity).
Qed.

Lemma apply_effs_ncoins_nonneg : forall l s, (forall r, In (ENewCoin r) l -> 0 <= c_id r) -> 0 <= s_ncoins s -> 0 <= s_ncoins (apply_effs s l).
Proof.
  induction l as [|e l IH]; intros s Hl Hs; [exact Hs|]. rewrite apply_effs_cons. apply IH.
  - intros r Hr. apply Hl. right. exact Hr.
  - destruct e; cbn [apply_eff set_coins s_ncoins]; try exact Hs. apply Hl. left. reflexivity.
Qed.

(* ---- a delivered transaction conserves every coin --------------------------------------------- *)
Lemma deliver_conserves s t s' code c :
  deliver s t = (s', code) -> 0 <= s_ncoins s ->
  vol_of (s_coins s') c - held s' c - (if c =? 0 then s_rpool s' else 0)
  = vol_of (s_coins s) c - held s c - (if c =? 0 then s_rpool s else 0)
  /\ 0 <= s_ncoins s'.
Proof.
  unfold deliver. intros HD Hn. destruct (gate s t) as [c0|] eqn:EG.
  { injection HD as <- _. split; [reflexivity|exact Hn]. }
  destruct (run s t) as [c0|effs] eqn:ER.
  - destruct (failed_branch s t c0) as [c' effs'] eqn:EF. injection HD as <- _.
    destruct (failed_branch_shape _ _ _ _ _ EF) as [->|(payer & com & EP & EC & Hb & _ & ->)]; [split; [reflexivity|exact Hn]|].
    split; [|cbn; exact Hn].
    rewrite apply_effs_held, apply_effs_rpool, apply_effs_vol by (cbn; exact I).
    destruct (calc_commission_cases _ _ _ EC) as [[Eg _]|[Eg ->]];
      unfold coin_deltas, frozen_deltas, rpool_deltas, vol_deltas; sums;
      cbn [coin_delta frozen_delta rpool_delta vol_delta sum_Z fold_right].
    + rewrite Eg. eqbs; lia.
    + rewrite Z.min_r by lia. eqbs; lia.
  - destruct (symbol_branch_effs s t) as (sp & Hsp & Hse). destruct (symbol_branch s t) as [c' effs']. cbn [snd] in Hse.
    injection HD as <- _.
    destruct (run_conserves _ _ _ c ER Hn) as [HC HV0].
    pose proof (run_evol_ok _ _ _ ER) as Hok.
    assert (Hn1 : 0 <= s_ncoins (apply_effs s effs)).
    { apply apply_effs_ncoins_nonneg; [|exact Hn]. intros r Hr. rewrite (run_newcoin_id _ _ _ _ ER Hr). lia. }
    split.
    + destruct Hse as [[-> _]| ->].
      * cbn [apply_effs fold_left]. rewrite apply_effs_held, apply_effs_rpool, apply_effs_vol by exact Hok.
        revert HC. eqbs; lia.
      * rewrite apply_effs_held, apply_effs_rpool, apply_effs_vol by (cbn; exact I).
        rewrite apply_effs_held, apply_effs_rpool, apply_effs_vol by exact Hok.
        unfold coin_deltas, frozen_deltas, rpool_deltas, vol_deltas in *. sums.
        cbn [coin_delta frozen_delta rpool_delta vol_delta sum_Z fold_right]. unfold zero_address.
        revert HC. eqbs; subst; rewrite ?HV0; lia.
    + destruct Hse as [[-> _]| ->]; [exact Hn1|].
      destruct (apply_effs_coins_same [ERpool (- sp); EBal zero_address 0 sp] (apply_effs s effs) eq_refl) as [_ ->]. exact Hn1.
Qed.

(* ---- block phases ------------------------------------------------------------------------------- *)
Lemma frozen_filter_split (p : Z * Z * Z * Z -> bool) l c :
  frozen_of (filter p l) c + frozen_of (filter (fun f => negb (p f)) l) c = frozen_of l c.
Proof.
  induction l as [|f l IH]; [reflexivity|]. cbn [filter]. unfold frozen_of in *.
  destruct (p f); cbn [negb map]; rewrite ?sumZ_cons; lia.
Qed.

Lemma frozen_due_rest (l : list (Z * Z * Z * Z)) h c :
  frozen_of (filter (fun f : Z * Z * Z * Z => let '(d, _, _, _) := f in d =? h) l) c
  + frozen_of (filter (fun f : Z * Z * Z * Z => let '(d, _, _, _) := f in negb (d =? h)) l) c = frozen_of l c.
Proof.
  induction l as [|[[[d a] c0] v] l IH]; [reflexivity|]. cbn [filter]. unfold frozen_of in *.
  destruct (d =? h); cbn [negb map]; rewrite ?sumZ_cons; lia.
Qed.

Lemma coin_deltas_matured (l : list (Z * Z * Z * Z)) c :
  coin_deltas (map (fun f : Z * Z * Z * Z => let '(_, a, c, v) := f in EBal a c v) l) c = frozen_of l c /\
  frozen_deltas (map (fun f : Z * Z * Z * Z => let '(_, a, c, v) := f in EBal a c v) l) c = 0 /\
  coin_effs (map (fun f : Z * Z * Z * Z => let '(_, a, c, v) := f in EBal a c v) l) = [] /\
  rpool_deltas (map (fun f : Z * Z * Z * Z => let '(_, a, c, v) := f in EBal a c v) l) = 0.
Proof.
  unfold coin_deltas, frozen_deltas, frozen_of, rpool_deltas, coin_effs.
  induction l as [|[[[d a] c0] v] l (I1 & I2 & I3 & I4)]; [repeat split|].
  cbn [map filter coin_delta frozen_delta rpool_delta]. rewrite !sumZ_cons, I1, I2, I3, I4. repeat split; lia.
Qed.

Lemma begin_block_conserves s h c :
  vol_of (s_coins (begin_block s h)) c = vol_of (s_coins s) c /\ held (begin_block s h) c = held s c /\
  s_rpool (begin_block s h) = s_rpool s /\ s_ncoins (begin_block s h) = s_ncoins s.
Proof.
  unfold begin_block.
  set (due := filter (fun f : Z * Z * Z * Z => let '(d, _, _, _) := f in d =? h) (s_frozen s)).
  set (rest := filter (fun f : Z * Z * Z * Z => let '(d, _, _, _) := f in negb (d =? h)) (s_frozen s)).
  destruct (coin_deltas_matured due c) as (D1 & D2 & D3 & D4).
  destruct (apply_effs_coins_same _ (set_frozen (set_height s h) rest) D3) as [E1 E2].
  rewrite E1, E2, apply_effs_held, apply_effs_rpool, D1, D2, D4. cbn [set_frozen set_height s_coins s_ncoins s_rpool].
  repeat split; try lia. unfold held. cbn [s_bal s_frozen set_frozen set_height].
  pose proof (frozen_due_rest (s_frozen s) h c) as HS. fold due rest in HS. lia.
Qed.

(* ---- histories ------------------------------------------------------------------------------------ *)
Definition gap (s : st) (c : Z) : Z := vol_of (s_coins s) c - held s c.

(* what EndBlock hands over to the validators (accrued by Model/Rewards.v) along a history *)
Fixpoint handed (s : st) (ops : list op) : Z :=
  match ops with
  | [] => 0
  | o :: r => (match o with OpEnd => s_rpool s | _ => 0 end) + handed (step s o) r
  end.

Lemma step_conserves s o c : 0 <= s_ncoins s ->
  gap (step s o) c - (if c =? 0 then s_rpool (step s o) else 0)
  = gap s c - (if c =? 0 then s_rpool s else 0) + (if c =? 0 then match o with OpEnd => s_rpool s | _ => 0 end else 0)
  /\ 0 <= s_ncoins (step s o).
Proof.
  intros Hn. unfold gap. destruct o as [t|h|]; cbn [step].
  - destruct (deliver s t) as [s' code] eqn:ED. cbn [fst].
    destruct (deliver_conserves _ _ _ _ c ED Hn) as [H1 H2]. split; [|exact H2]. destruct (c =? 0); lia.
  - destruct (begin_block_conserves s h c) as (A & B & C & D). rewrite A, B, C, D. split; [destruct (c =? 0); lia|exact Hn].
  - unfold end_block, held. cbn [s_coins s_bal s_frozen s_rpool s_ncoins]. split; [destruct (c =? 0); lia|exact Hn].
Qed.

Lemma history_conserves ops : forall s c, 0 <= s_ncoins s ->
  gap (run_ops s ops) c - (if c =? 0 then s_rpool (run_ops s ops) else 0)
  = gap s c - (if c =? 0 then s_rpool s else 0) + (if c =? 0 then handed s ops else 0).
Proof.
  induction ops as [|o ops IH]; intros s c Hn; [cbn; destruct (c =? 0); lia|].
  unfold run_ops. cbn [fold_left handed]. fold (run_ops (step s o) ops).
  destruct (step_conserves s o c Hn) as [H1 H2]. rewrite (IH _ c H2). destruct (c =? 0); lia.
Qed.
