(* RewardRuleFacts.v — lemmas about Model/RewardRule.v (property C28). *)
From Minter Require Import Base Consts RewardRule.
From Coq Require Import ZArith List Bool Lia ZifyBool.
Import ListNotations.
Open Scope Z_scope.

(* ---- the constants, as the literals of the property text ----------------------------------- *)
Lemma cap_literal : rw_total_emission = 10 ^ 10 * 10 ^ 18.
Proof. reflexivity. Qed.
Lemma step_literal : rw_step = 10 * 10 ^ 18.
Proof. reflexivity. Qed.
Lemma drop_literal : rw_drop = -10.
Proof. reflexivity. Qed.
Lemma pct_literal : rw_pct = 100.
Proof. reflexivity. Qed.
Lemma K_literal : rw_K = 350 * 10 ^ 18.
Proof. reflexivity. Qed.
Lemma root_literal : rw_root = 4.
Proof. reflexivity. Qed.
Lemma gap_literal : rw_gap_ns = 3 * 3600 * 10 ^ 9.
Proof. reflexivity. Qed.
Lemma window_literals : rw_hour_from = 12 /\ rw_hour_to = 14 /\ rw_period_offset = 1.
Proof. repeat split. Qed.

Global Opaque rw_total_emission rw_step rw_K rw_gap_ns.

(* ---- SetReward ------------------------------------------------------------------------------- *)
Lemma set_reward_frame : forall s nr ns,
  rs_price (set_reward s nr ns) = rs_price s /\ rs_emission (set_reward s nr ns) = rs_emission s /\
  rs_burned (set_reward s nr ns) = rs_burned s /\ rs_minted (set_reward s nr ns) = rs_minted s.
Proof.
  intros s nr ns. unfold set_reward.
  destruct ((rs_safe s =? ns) && (ns =? 0)) eqn:E; cbn [rs_price rs_emission rs_burned rs_minted]; auto.
Qed.

Lemma set_reward_cases : forall s nr ns,
  (rs_safe s = 0 /\ ns = 0 /\ set_reward s nr ns = s) \/
  (rs_reward (set_reward s nr ns) = nr /\ rs_safe (set_reward s nr ns) = ns).
Proof.
  intros s nr ns. unfold set_reward.
  destruct ((rs_safe s =? ns) && (ns =? 0)) eqn:E.
  - left. repeat split; try lia.
  - right. cbn [rs_reward rs_safe]. auto.
Qed.

(* ---- the percentage: floor of the exact value ------------------------------------------------- *)
Lemma pct_change_floor : forall R0 R1 r0 r1, 0 < R1 -> 0 < r0 ->
  let d := pct_change R0 R1 r0 r1 in
  d * (R1 * r0) <= 100 * (r1 * R0 - R1 * r0) < (d + 1) * (R1 * r0).
Proof.
  intros R0 R1 r0 r1 HR1 Hr0 d. subst d. unfold pct_change. rewrite pct_literal.
  assert (Hb : 0 < r0 * R1) by nia.
  set (a := 100 * (r1 * R0 - R1 * r0)).
  assert (Hc : R1 * r0 = r0 * R1) by ring. rewrite Hc. clear Hc.
  set (b := r0 * R1) in *.
  pose proof (Z.mul_div_le a b Hb) as H1.
  pose proof (Z.mul_succ_div_gt a b Hb) as H2.
  unfold Z.succ in H2. set (q := a / b) in *. split; lia.
Qed.

(* floor(pct) <= -10 exactly when the new price is below 91 % of the stored one *)
Lemma drop_iff : forall R0 R1 r0 r1, 0 < R1 -> 0 < r0 ->
  (pct_change R0 R1 r0 r1 <= -10 <-> 100 * (r1 * R0) < 91 * (R1 * r0)).
Proof.
  intros R0 R1 r0 r1 HR1 Hr0.
  pose proof (pct_change_floor R0 R1 r0 r1 HR1 Hr0) as H. cbv zeta in H.
  assert (Hb : 0 < R1 * r0) by nia.
  set (d := pct_change R0 R1 r0 r1) in *. set (b := R1 * r0) in *.
  split; intro G; nia.
Qed.

(* ---- UpdatePriceFix --------------------------------------------------------------------------- *)
Lemma update_some_inv : forall o t r0 r1 pc p' nr ns,
  update_price_fix (Some o) t r0 r1 pc = Val (p', nr, ns) ->
  r0 <> 0 /\ pr_r0 o <> 0 /\ pr_r1 o <> 0 /\ ns = pc /\ nr = pr_last p' /\
  pr_t p' = t /\ pr_r0 p' = r0 /\ pr_r1 p' = r1 /\
  let d := pct_change (pr_r0 o) (pr_r1 o) r0 r1 in
  (d <= rw_drop /\ pr_last p' = 0 /\ pr_off p' = true) \/
  (rw_drop < d /\ pr_off o = true /\ pr_last o < pc /\ pr_last o + rw_step < pc /\
     pr_last p' = pr_last o + rw_step /\ pr_off p' = true) \/
  (rw_drop < d /\ pr_off o = true /\ pr_last o < pc /\ pc <= pr_last o + rw_step /\
     pr_last p' = pc /\ pr_off p' = false) \/
  (rw_drop < d /\ (pr_off o = false \/ pc <= pr_last o) /\ pr_last p' = pc /\ pr_off p' = false).
Proof.
  intros o t r0 r1 pc p' nr ns H. unfold update_price_fix in H.
  destruct (r0 =? 0) eqn:E0; [discriminate|].
  destruct (pr_r0 o =? 0) eqn:E1; [discriminate|].
  destruct (pr_r1 o =? 0) eqn:E2; [discriminate|].
  cbv zeta in H.
  destruct (pct_change (pr_r0 o) (pr_r1 o) r0 r1 <=? rw_drop) eqn:Ed.
  - inversion H; subst; clear H. cbn [pr_t pr_r0 pr_r1 pr_last pr_off mk_price].
    repeat split; try lia. all: left; split; [lia|auto].
  - destruct (pr_off o && (pr_last o <? pc)) eqn:Eo.
    + destruct (pc - (pr_last o + rw_step) <=? 0) eqn:Eb.
      * inversion H; subst; clear H. cbn [pr_t pr_r0 pr_r1 pr_last pr_off mk_price].
        repeat split; try lia. all: right; right; left.
        all: destruct (pr_off o) eqn:Eoff; [|discriminate]. all: repeat split; try lia.
      * inversion H; subst; clear H. cbn [pr_t pr_r0 pr_r1 pr_last pr_off mk_price].
        repeat split; try lia. all: right; left.
        all: destruct (pr_off o) eqn:Eoff; [|discriminate]. all: repeat split; try lia.
    + inversion H; subst; clear H. cbn [pr_t pr_r0 pr_r1 pr_last pr_off mk_price].
      repeat split; try lia. all: right; right; right.
      all: split; [lia|]. all: split; [|auto].
      all: destruct (pr_off o) eqn:Eoff; [right; cbn in Eo; lia|left; reflexivity].
Qed.

Lemma update_none_inv : forall t r0 r1 pc p' nr ns,
  update_price_fix None t r0 r1 pc = Val (p', nr, ns) ->
  r0 <> 0 /\ nr = pc /\ ns = pc /\ p' = mk_price t r0 r1 pc false.
Proof.
  intros t r0 r1 pc p' nr ns H. unfold update_price_fix in H.
  destruct (r0 =? 0) eqn:E0; [discriminate|]. inversion H; subst. repeat split; lia.
Qed.

Lemma drop_switches_off : forall o t r0 r1 pc p' nr ns,
  update_price_fix (Some o) t r0 r1 pc = Val (p', nr, ns) ->
  pct_change (pr_r0 o) (pr_r1 o) r0 r1 <= -10 ->
  nr = 0 /\ ns = pc /\ pr_off p' = true /\ pr_last p' = 0.
Proof.
  intros o t r0 r1 pc p' nr ns H Hd.
  destruct (update_some_inv _ _ _ _ _ _ _ _ H) as (_ & _ & _ & Hns & Hnr & _ & _ & _ & Hc).
  cbv zeta in Hc. rewrite drop_literal in Hc.
  destruct Hc as [Hc|[Hc|[Hc|Hc]]]; try lia.
  all: destruct Hc as (_ & Hl & Ho); repeat split; auto; lia.
Qed.

Lemma recovery_step : forall o t r0 r1 pc p' nr ns,
  update_price_fix (Some o) t r0 r1 pc = Val (p', nr, ns) ->
  -10 < pct_change (pr_r0 o) (pr_r1 o) r0 r1 ->
  pr_off o = true -> pr_last o < pc ->
  ns = pc /\
  ((pr_last o + 10 * 10 ^ 18 < pc /\ nr = pr_last o + 10 * 10 ^ 18 /\ pr_last p' = nr /\ pr_off p' = true) \/
   (pc <= pr_last o + 10 * 10 ^ 18 /\ nr = pc /\ pr_last p' = pc /\ pr_off p' = false)).
Proof.
  intros o t r0 r1 pc p' nr ns H Hd Hoff Hlt.
  destruct (update_some_inv _ _ _ _ _ _ _ _ H) as (_ & _ & _ & Hns & Hnr & _ & _ & _ & Hc).
  cbv zeta in Hc. rewrite drop_literal in Hc. rewrite <- step_literal.
  split; [exact Hns|].
  destruct Hc as [Hc|[Hc|[Hc|Hc]]].
  - lia.
  - left. destruct Hc as (_ & _ & _ & Hs & Hl & Ho). repeat split; auto; lia.
  - right. destruct Hc as (_ & _ & _ & Hs & Hl & Ho). repeat split; auto; lia.
  - destruct Hc as (_ & [Hf|Hf] & _); [congruence|lia].
Qed.

Lemma recovered : forall o t r0 r1 pc p' nr ns,
  update_price_fix (Some o) t r0 r1 pc = Val (p', nr, ns) ->
  -10 < pct_change (pr_r0 o) (pr_r1 o) r0 r1 ->
  pr_off o = false \/ pc <= pr_last o ->
  nr = pc /\ ns = pc /\ pr_last p' = pc /\ pr_off p' = false.
Proof.
  intros o t r0 r1 pc p' nr ns H Hd Hor.
  destruct (update_some_inv _ _ _ _ _ _ _ _ H) as (_ & _ & _ & Hns & Hnr & _ & _ & _ & Hc).
  cbv zeta in Hc. rewrite drop_literal in Hc.
  destruct Hc as [Hc|[Hc|[Hc|Hc]]].
  - lia.
  - destruct Hc as (_ & Ho & Hl & _). destruct Hor; [congruence|lia].
  - destruct Hc as (_ & Ho & Hl & _). destruct Hor; [congruence|lia].
  - destruct Hc as (_ & _ & Hl & Ho). repeat split; auto; lia.
Qed.

(* several qualifying updates in a row, none of them a drop, the price-derived level staying pc *)
Fixpoint run_updates (o : price_rec) (us : list (Z * Z * Z)) (pc : Z) : outcome price_rec :=
  match us with
  | [] => Val o
  | (t, r0, r1) :: rest =>
    obind (update_price_fix (Some o) t r0 r1 pc) (fun x => run_updates (fst (fst x)) rest pc)
  end.

Fixpoint no_drops (R0 R1 : Z) (us : list (Z * Z * Z)) : Prop :=
  match us with
  | [] => True
  | (t, r0, r1) :: rest => -10 < pct_change R0 R1 r0 r1 /\ no_drops r0 r1 rest
  end.

Lemma recovered_stays : forall us o pc o',
  run_updates o us pc = Val o' -> no_drops (pr_r0 o) (pr_r1 o) us ->
  pr_off o = false -> pr_last o = pc -> pr_off o' = false /\ pr_last o' = pc.
Proof.
  induction us as [|[[t r0] r1] rest IH]; intros o pc o' H Hn Hoff Hl.
  - cbn in H. inversion H; subst. auto.
  - cbn [run_updates] in H. destruct Hn as [Hd Hn].
    destruct (update_price_fix (Some o) t r0 r1 pc) as [[[p' nr] ns]| |] eqn:E; cbn [obind fst] in H; try discriminate.
    pose proof (update_some_inv _ _ _ _ _ _ _ _ E) as (_ & _ & _ & _ & _ & _ & Hr0 & Hr1 & _).
    destruct (recovered _ _ _ _ _ _ _ _ E Hd (or_introl Hoff)) as (_ & _ & Hl' & Ho').
    apply (IH p' pc o' H); auto. rewrite Hr0, Hr1. exact Hn.
Qed.

Lemma recovery_iter : forall us o pc o',
  run_updates o us pc = Val o' -> no_drops (pr_r0 o) (pr_r1 o) us ->
  pr_off o = true -> pr_last o < pc ->
  let n := Z.of_nat (length us) in
  pr_last o' = Z.min (pr_last o + n * (10 * 10 ^ 18)) pc /\
  pr_off o' = (pr_last o + n * (10 * 10 ^ 18) <? pc).
Proof.
  induction us as [|[[t r0] r1] rest IH]; intros o pc o' H Hn Hoff Hl n; subst n.
  - cbn in H. inversion H; subst. cbn [length Z.of_nat]. split; [lia|]. rewrite Hoff. lia.
  - cbn [run_updates] in H. destruct Hn as [Hd Hn].
    destruct (update_price_fix (Some o) t r0 r1 pc) as [[[p' nr] ns]| |] eqn:E; cbn [obind fst] in H; try discriminate.
    pose proof (update_some_inv _ _ _ _ _ _ _ _ E) as (_ & _ & _ & _ & _ & _ & Hr0 & Hr1 & _).
    rewrite <- Hr0, <- Hr1 in Hn.
    assert (Hlen : Z.of_nat (length ((t, r0, r1) :: rest)) = Z.of_nat (length rest) + 1) by (cbn [length]; lia).
    rewrite Hlen. set (m := Z.of_nat (length rest)) in *. assert (Hm : 0 <= m) by lia.
    destruct (recovery_step _ _ _ _ _ _ _ _ E Hd Hoff Hl) as (_ & [Hc|Hc]).
    + destruct Hc as (Hs & Hnr & Hl' & Ho').
      assert (Hlt' : pr_last p' < pc) by lia.
      destruct (IH p' pc o' H Hn Ho' Hlt') as (A & B). fold m in A, B.
      rewrite A, B. replace (pr_last p') with (pr_last o + 10 * 10 ^ 18) by lia.
      split; [f_equal; ring|f_equal; ring].
    + destruct Hc as (Hs & Hnr & Hl' & Ho').
      destruct (recovered_stays rest p' pc o' H Hn Ho' Hl') as (A & B).
      rewrite A, B. split; [nia|]. symmetry. apply Z.ltb_ge. nia.
Qed.

(* ---- BeginBlock -------------------------------------------------------------------------------- *)
Definition is_some {A} (o : option A) : bool := match o with Some _ => true | None => false end.

Lemma begin_block_inv : forall s h period hour t pool pc s',
  begin_block s h period hour t pool pc = Val s' ->
  (rw_total_emission <= rs_emission s /\ s' = set_reward s 0 0) \/
  (rs_emission s < rw_total_emission /\
   ((should_update h period hour t (rs_price s) (is_some pool) = false /\ s' = s) \/
    (exists r0 r1 p' nr ns, pool = Some (r0, r1) /\ period <> 0 /\
       should_update h period hour t (rs_price s) (is_some pool) = true /\
       update_price_fix (rs_price s) t r0 r1 pc = Val (p', nr, ns) /\
       s' = set_reward (with_price s (Some p')) nr ns))).
Proof.
  intros s h period hour t pool pc s' H. unfold begin_block in H.
  destruct (rs_emission s <? rw_total_emission) eqn:Ec.
  - right. split; [lia|].
    destruct pool as [[r0 r1]|].
    + destruct (period =? 0) eqn:Ep; [discriminate|]. cbn [is_some].
      destruct (should_update h period hour t (rs_price s) true) eqn:Es.
      * right. destruct (update_price_fix (rs_price s) t r0 r1 pc) as [[[p' nr] ns]| |] eqn:Eu; cbn [obind] in H; try discriminate.
        inversion H; subst. exists r0, r1, p', nr, ns. repeat split; auto. lia.
      * left. inversion H; subst. auto.
    + left. inversion H; subst. cbn [is_some]. unfold should_update. cbn [andb]. auto.
  - left. inversion H; subst. split; [lia|reflexivity].
Qed.

(* the update test with the literals of the property text *)
Lemma should_update_spec : forall h period hour t p pe,
  should_update h period hour t p pe = true <->
  pe = true /\ h mod period = 1 /\
  (p = None \/ (12 <= hour <= 14 /\ t - stored_time p > 3 * 3600 * 10 ^ 9)).
Proof.
  intros h period hour t p pe. unfold should_update, in_window.
  destruct window_literals as (Hf & Ht & Ho). rewrite Hf, Ht, Ho. rewrite <- gap_literal.
  destruct p as [o|]; cbn [is_zero_time orb]; split; intro H.
  - repeat split; try lia. all: right; lia.
  - destruct H as (Hp & Hm & [Hn|Hw]); [discriminate|]. lia.
  - repeat split; try lia. all: left; reflexivity.
  - destruct H as (Hp & Hm & _). lia.
Qed.

Lemma reward_changes_only_in_window : forall s h period hour t pool pc s',
  begin_block s h period hour t pool pc = Val s' ->
  rs_reward s' <> rs_reward s \/ rs_safe s' <> rs_safe s \/ rs_price s' <> rs_price s ->
  (rs_emission s < 10 ^ 10 * 10 ^ 18 /\
   is_some pool = true /\ h mod period = 1 /\
   (rs_price s = None \/ (12 <= hour <= 14 /\ t - stored_time (rs_price s) > 3 * 3600 * 10 ^ 9))) \/
  (10 ^ 10 * 10 ^ 18 <= rs_emission s /\ rs_reward s' = 0 /\ rs_safe s' = 0 /\ rs_price s' = rs_price s).
Proof.
  intros s h period hour t pool pc s' H Hch. rewrite <- cap_literal.
  destruct (begin_block_inv _ _ _ _ _ _ _ _ H) as [(Hc & Hs)|(Hc & [(Hn & Hs)|Hu])].
  - right. subst s'. split; [exact Hc|].
    destruct (set_reward_frame s 0 0) as (Hp & _).
    destruct (set_reward_cases s 0 0) as [(_ & _ & He)|(Hr & Hsf)].
    + rewrite He in Hch. exfalso. destruct Hch as [X|[X|X]]; apply X; reflexivity.
    + auto.
  - subst s'. exfalso. destruct Hch as [X|[X|X]]; apply X; reflexivity.
  - left. destruct Hu as (r0 & r1 & p' & nr & ns & Hp & _ & Hs & _ & _).
    split; [exact Hc|]. apply should_update_spec in Hs. exact Hs.
Qed.

(* and in the window the record is rewritten with the block's time and the pool's reserves *)
Lemma window_update : forall s h period hour t r0 r1 pc s',
  rs_emission s < 10 ^ 10 * 10 ^ 18 ->
  begin_block s h period hour t (Some (r0, r1)) pc = Val s' ->
  h mod period = 1 -> 12 <= hour <= 14 -> t - stored_time (rs_price s) > 3 * 3600 * 10 ^ 9 ->
  exists p', rs_price s' = Some p' /\ pr_t p' = t /\ pr_r0 p' = r0 /\ pr_r1 p' = r1 /\
             (rs_safe s' = pc /\ rs_reward s' = pr_last p' \/ rs_safe s = 0 /\ pc = 0 /\ rs_reward s' = rs_reward s /\ rs_safe s' = 0).
Proof.
  intros s h period hour t r0 r1 pc s' Hc H Hm Hh Hg. rewrite <- cap_literal in Hc.
  destruct (begin_block_inv _ _ _ _ _ _ _ _ H) as [(Hc' & _)|(_ & [(Hn & _)|Hu])].
  - lia.
  - exfalso. assert (Ht : should_update h period hour t (rs_price s) (is_some (Some (r0, r1))) = true).
    { apply should_update_spec. cbn [is_some]. repeat split; auto. }
    congruence.
  - destruct Hu as (r0' & r1' & p' & nr & ns & Hp & _ & _ & Hu & Hs). inversion Hp; subst r0' r1'; clear Hp.
    exists p'. subst s'.
    destruct (set_reward_frame (with_price s (Some p')) nr ns) as (Hpr & _). rewrite Hpr. cbn [with_price rs_price].
    assert (Hinv : pr_t p' = t /\ pr_r0 p' = r0 /\ pr_r1 p' = r1 /\ ns = pc /\ nr = pr_last p').
    { destruct (rs_price s) as [o|].
      - destruct (update_some_inv _ _ _ _ _ _ _ _ Hu) as (_ & _ & _ & A & B & C & D & E & _). auto.
      - destruct (update_none_inv _ _ _ _ _ _ _ Hu) as (_ & A & B & C). subst p'. cbn. auto. }
    destruct Hinv as (A & B & C & D & E). repeat split; auto.
    destruct (set_reward_cases (with_price s (Some p')) nr ns) as [(X & Y & Z0)|(X & Y)].
    + right. rewrite Z0. cbn [with_price rs_safe rs_reward] in *. repeat split; auto; lia.
    + left. split; congruence.
Qed.

(* a price record, once present, stays present: the t.IsZero() disjunct is dead after InitChain *)
Lemma price_stays_some : forall s h period hour t pool pc s',
  begin_block s h period hour t pool pc = Val s' -> rs_price s <> None -> rs_price s' <> None.
Proof.
  intros s h period hour t pool pc s' H Hs.
  destruct (begin_block_inv _ _ _ _ _ _ _ _ H) as [(_ & E)|(_ & [(_ & E)|Hu])].
  - subst s'. destruct (set_reward_frame s 0 0) as (Hp & _). congruence.
  - subst s'. exact Hs.
  - destruct Hu as (r0 & r1 & p' & nr & ns & _ & _ & _ & _ & E). subst s'.
    destruct (set_reward_frame (with_price s (Some p')) nr ns) as (Hp & _). rewrite Hp. cbn. discriminate.
Qed.

(* ---- EndBlock ---------------------------------------------------------------------------------- *)
Lemma end_block_below : forall s more s' burn mint,
  end_block s more = (s', (burn, mint)) -> rs_emission s < 10 ^ 10 * 10 ^ 18 ->
  rs_emission s' = rs_emission s + more + rs_safe s /\
  burn = Z.max (rs_safe s - rs_reward s) 0 /\
  rs_burned s' = rs_burned s + burn /\
  mint = more + rs_reward s + burn /\ rs_minted s' = rs_minted s + mint /\
  rs_reward s' = rs_reward s /\ rs_safe s' = rs_safe s /\ rs_price s' = rs_price s.
Proof.
  intros s more s' burn mint H Hc. rewrite <- cap_literal in Hc. unfold end_block in H.
  destruct (rs_emission s <? rw_total_emission) eqn:Ec; [|lia]. cbv zeta in H.
  inversion H; subst; clear H. cbn [rs_emission rs_burned rs_minted rs_reward rs_safe rs_price].
  destruct (0 <? rs_safe s - rs_reward s) eqn:Ed; repeat split; lia.
Qed.

Lemma end_block_at_cap : forall s more,
  10 ^ 10 * 10 ^ 18 <= rs_emission s -> end_block s more = (s, (0, 0)).
Proof.
  intros s more Hc. rewrite <- cap_literal in Hc. unfold end_block.
  destruct (rs_emission s <? rw_total_emission) eqn:Ec; [lia|reflexivity].
Qed.

(* ---- well-formed states: 0 <= reward <= safe, stored level non-negative ---------------------- *)
Definition last_nonneg (p : option price_rec) : Prop :=
  match p with Some o => 0 <= pr_last o | None => True end.
Definition wf (s : rstate) : Prop := 0 <= rs_reward s <= rs_safe s /\ last_nonneg (rs_price s).

Lemma wf_begin : forall s h period hour t pool pc s',
  begin_block s h period hour t pool pc = Val s' -> 0 <= pc -> wf s -> wf s'.
Proof.
  intros s h period hour t pool pc s' H Hpc (Hr & Hl).
  destruct (begin_block_inv _ _ _ _ _ _ _ _ H) as [(_ & E)|(_ & [(_ & E)|Hu])].
  - subst s'. destruct (set_reward_frame s 0 0) as (Hp & _). unfold wf. rewrite Hp. split; [|exact Hl].
    destruct (set_reward_cases s 0 0) as [(_ & _ & E)|(A & B)]; [rewrite E; exact Hr|lia].
  - subst s'. split; assumption.
  - destruct Hu as (r0 & r1 & p' & nr & ns & _ & _ & _ & Hu & E). subst s'.
    destruct (set_reward_frame (with_price s (Some p')) nr ns) as (Hp & _). unfold wf. rewrite Hp.
    cbn [with_price rs_price last_nonneg].
    assert (Hx : ns = pc /\ nr = pr_last p' /\ 0 <= pr_last p' <= pc).
    { destruct (rs_price s) as [o|].
      - pose proof step_literal as Hst.
        destruct (update_some_inv _ _ _ _ _ _ _ _ Hu) as (_ & _ & _ & A & B & _ & _ & _ & Hc). cbv zeta in Hc.
        cbn [last_nonneg] in Hl. repeat split; auto; destruct Hc as [Hc|[Hc|[Hc|Hc]]]; lia.
      - destruct (update_none_inv _ _ _ _ _ _ _ Hu) as (_ & A & B & C). subst p'. cbn. lia. }
    destruct Hx as (A & B & C). split; [|lia].
    destruct (set_reward_cases (with_price s (Some p')) nr ns) as [(_ & _ & E)|(X & Y)].
    + rewrite E. cbn [with_price rs_reward rs_safe]. exact Hr.
    + lia.
Qed.

Lemma wf_end : forall s more, wf s -> wf (fst (end_block s more)).
Proof.
  intros s more (Hr & Hl). unfold end_block.
  destruct (rs_emission s <? rw_total_emission); cbn [fst]; split; auto.
Qed.

Lemma wf_genesis : forall T R0 R1 last off e, 0 <= last -> wf (genesis_state T R0 R1 last off e).
Proof. intros. unfold wf, genesis_state. cbn. lia. Qed.

(* with reward <= safe, what a block creates in base coin is what it adds to the emission *)
Lemma minted_equals_emission : forall s more s' burn mint,
  end_block s more = (s', (burn, mint)) -> wf s ->
  mint = rs_emission s' - rs_emission s /\ burn = rs_safe s - rs_reward s \/
  10 ^ 10 * 10 ^ 18 <= rs_emission s /\ mint = 0 /\ burn = 0 /\ s' = s.
Proof.
  intros s more s' burn mint H (Hr & _).
  destruct (Z_lt_le_dec (rs_emission s) (10 ^ 10 * 10 ^ 18)) as [Hc|Hc].
  - left. destruct (end_block_below _ _ _ _ _ H Hc) as (A & B & _ & D & _). lia.
  - right. rewrite (end_block_at_cap s more Hc) in H. inversion H; subst. auto.
Qed.

(* ---- the cap ------------------------------------------------------------------------------------ *)
Lemma begin_block_at_cap : forall s h period hour t pool pc,
  10 ^ 10 * 10 ^ 18 <= rs_emission s -> begin_block s h period hour t pool pc = Val (set_reward s 0 0).
Proof.
  intros s h period hour t pool pc Hc. rewrite <- cap_literal in Hc. unfold begin_block.
  destruct (rs_emission s <? rw_total_emission) eqn:Ec; [lia|reflexivity].
Qed.

Lemma run_block_at_cap : forall period s b, 10 ^ 10 * 10 ^ 18 <= rs_emission s -> wf s ->
  exists s', rr_run_block period s b = Val s' /\ rs_emission s' = rs_emission s /\ rs_minted s' = rs_minted s /\
             rs_burned s' = rs_burned s /\ rs_price s' = rs_price s /\ rs_reward s' = 0 /\ rs_safe s' = 0 /\ wf s'.
Proof.
  intros period s b Hc (Hr & Hl). unfold rr_run_block. rewrite (begin_block_at_cap s _ _ _ _ _ _ Hc). cbn [obind].
  destruct (set_reward_frame s 0 0) as (Hp & He & Hb & Hm).
  assert (Hc' : 10 ^ 10 * 10 ^ 18 <= rs_emission (set_reward s 0 0)) by (rewrite He; exact Hc).
  rewrite (end_block_at_cap _ (rb_more b) Hc'). cbn [fst].
  exists (set_reward s 0 0). split; [reflexivity|]. repeat split; auto.
  - destruct (set_reward_cases s 0 0) as [(A & _ & E)|(A & B)]; [rewrite E; lia|exact A].
  - destruct (set_reward_cases s 0 0) as [(A & _ & E)|(A & B)]; [rewrite E; lia|exact B].
  - destruct (set_reward_cases s 0 0) as [(A & _ & E)|(A & B)]; [rewrite E; lia|lia].
  - destruct (set_reward_cases s 0 0) as [(A & _ & E)|(A & B)]; [rewrite E; lia|lia].
  - rewrite Hp. exact Hl.
Qed.

Lemma cap_stops : forall period bs s, 10 ^ 10 * 10 ^ 18 <= rs_emission s -> wf s ->
  exists s', rr_run_history period s bs = Val s' /\ rs_emission s' = rs_emission s /\ rs_minted s' = rs_minted s /\
             rs_burned s' = rs_burned s /\ rs_price s' = rs_price s /\
             (bs <> [] -> rs_reward s' = 0 /\ rs_safe s' = 0).
Proof.
  intros period bs. induction bs as [|b rest IH]; intros s Hc Hw.
  - exists s. cbn [rr_run_history]. do 5 (split; [reflexivity|]). intro X. exfalso. apply X. reflexivity.
  - destruct (run_block_at_cap period s b Hc Hw) as (s1 & H1 & He & Hm & Hb & Hp & Hr & Hs & Hw1).
    assert (Hc1 : 10 ^ 10 * 10 ^ 18 <= rs_emission s1) by lia.
    destruct (IH s1 Hc1 Hw1) as (s' & H2 & He2 & Hm2 & Hb2 & Hp2 & Hz).
    exists s'. cbn [rr_run_history]. rewrite H1. cbn [obind]. split; [exact H2|].
    repeat split; try congruence.
    + destruct rest as [|b' rest']; [cbn in H2; inversion H2; subst; exact Hr|apply Hz; discriminate].
    + destruct rest as [|b' rest']; [cbn in H2; inversion H2; subst; exact Hs|apply Hz; discriminate].
Qed.

(* below the cap a block adds exactly the safe reward (plus the locked-stake surplus of a payout
   block); so the cap can be overshot, by less than one block's addition *)
Lemma below_cap_mints : forall period s b s',
  rr_run_block period s b = Val s' -> rs_emission s < 10 ^ 10 * 10 ^ 18 ->
  rs_emission s' = rs_emission s + rb_more b + rs_safe s' /\
  rs_emission s' < 10 ^ 10 * 10 ^ 18 + rb_more b + rs_safe s'.
Proof.
  intros period s b s' H Hc. unfold rr_run_block in H.
  destruct (begin_block s (rb_height b) period (rb_hour b) (rb_time b) (rb_pool b) (rb_pc b)) as [s1| |] eqn:E; cbn [obind] in H; try discriminate.
  inversion H; subst s'; clear H.
  assert (He : rs_emission s1 = rs_emission s).
  { destruct (begin_block_inv _ _ _ _ _ _ _ _ E) as [(X & _)|(_ & [(_ & X)|Hu])].
    - rewrite <- cap_literal in Hc. lia.
    - subst s1. reflexivity.
    - destruct Hu as (r0 & r1 & p' & nr & ns & _ & _ & _ & _ & X). subst s1.
      destruct (set_reward_frame (with_price s (Some p')) nr ns) as (_ & Y & _). rewrite Y. reflexivity. }
  destruct (end_block s1 (rb_more b)) as [s2 [burn mint]] eqn:E2. cbn [fst].
  assert (Hc1 : rs_emission s1 < 10 ^ 10 * 10 ^ 18) by lia.
  destruct (end_block_below _ _ _ _ _ E2 Hc1) as (A & _ & _ & _ & _ & _ & G & _). lia.
Qed.

(* a stale genesis record with a zero BIP reserve makes the first update in the window panic *)
Lemma zero_stored_reserve_panics : forall s o h period hour t r0 r1 pc,
  rs_emission s < 10 ^ 10 * 10 ^ 18 -> rs_price s = Some o -> pr_r0 o = 0 -> r0 <> 0 -> period <> 0 ->
  h mod period = 1 -> 12 <= hour <= 14 -> t - pr_t o > 3 * 3600 * 10 ^ 9 ->
  begin_block s h period hour t (Some (r0, r1)) pc = Panic 2802.
Proof.
  intros s o h period hour t r0 r1 pc Hc Hp Hz Hr0 Hper Hm Hh Hg. rewrite <- cap_literal in Hc.
  unfold begin_block. destruct (rs_emission s <? rw_total_emission) eqn:Ec; [|lia].
  destruct (period =? 0) eqn:Ep; [lia|].
  assert (Hs : should_update h period hour t (rs_price s) true = true).
  { apply should_update_spec. rewrite Hp. cbn [stored_time]. repeat split; auto. }
  rewrite Hs, Hp. unfold update_price_fix.
  destruct (r0 =? 0) eqn:E0; [lia|]. destruct (pr_r0 o =? 0) eqn:E1; [reflexivity|lia].
Qed.

(* ---- the oracle check --------------------------------------------------------------------------- *)
Lemma pow4_lt_inv : forall a b, 0 <= a -> 0 <= b -> a ^ 4 < b ^ 4 -> a < b.
Proof.
  intros a b Ha Hb H. destruct (Z_lt_le_dec a b) as [L|L]; [exact L|].
  exfalso. assert (b ^ 4 <= a ^ 4) by (apply Z.pow_le_mono_l; lia). lia.
Qed.

Lemma price_count_ok_sound : forall r0 r1 x X,
  price_count_ok r0 r1 x = true -> is_root r0 r1 X ->
  Z.abs (x - X) <= x / 2 ^ 40 + 1.
Proof.
  intros r0 r1 x X H (HX0 & HXl & HXu). unfold price_count_ok, pc_tol in H. rewrite root_literal in *.
  cbv zeta in H. set (t := x / 2 ^ 40 + 1) in *.
  assert (Ht : 0 < t). { subst t. assert (0 <= x / 2 ^ 40) by (apply Z.div_pos; lia). lia. }
  set (lo := Z.max 0 (x - t)) in *. set (K4 := rw_K ^ 4) in *.
  assert (Hr0 : 0 < r0) by lia.
  assert (H1 : lo ^ 4 * r0 <= K4 * r1) by lia.
  assert (H2 : K4 * r1 < (x + t + 1) ^ 4 * r0) by lia.
  assert (A : lo ^ 4 < (X + 1) ^ 4).
  { apply (Z.mul_lt_mono_pos_r r0); [exact Hr0|]. lia. }
  assert (B : X ^ 4 < (x + t + 1) ^ 4).
  { apply (Z.mul_lt_mono_pos_r r0); [exact Hr0|]. lia. }
  apply pow4_lt_inv in A; [|lia|lia]. apply pow4_lt_inv in B; [|lia|lia].
  lia.
Qed.

(* ---- histories ----------------------------------------------------------------------------------- *)
Lemma end_block_price : forall s more, rs_price (fst (end_block s more)) = rs_price s.
Proof. intros s more. unfold end_block. destruct (rs_emission s <? rw_total_emission); reflexivity. Qed.

Lemma history_keeps_price : forall period bs s s',
  rr_run_history period s bs = Val s' -> rs_price s <> None -> rs_price s' <> None.
Proof.
  intros period bs. induction bs as [|b rest IH]; intros s s' H Hs.
  - cbn in H. inversion H; subst. exact Hs.
  - cbn [rr_run_history] in H. unfold rr_run_block in H.
    destruct (begin_block s (rb_height b) period (rb_hour b) (rb_time b) (rb_pool b) (rb_pc b)) as [s1| |] eqn:E; cbn [obind] in H; try discriminate.
    apply (IH _ _ H). rewrite end_block_price. exact (price_stays_some _ _ _ _ _ _ _ _ E Hs).
Qed.

Lemma wf_history : forall period bs s s',
  rr_run_history period s bs = Val s' -> Forall (fun b => 0 <= rb_pc b) bs -> wf s -> wf s'.
Proof.
  intros period bs. induction bs as [|b rest IH]; intros s s' H Hpc Hw.
  - cbn in H. inversion H; subst. exact Hw.
  - cbn [rr_run_history] in H. unfold rr_run_block in H. inversion Hpc as [|b0 l0 Hb Hrest]; subst.
    destruct (begin_block s (rb_height b) period (rb_hour b) (rb_time b) (rb_pool b) (rb_pc b)) as [s1| |] eqn:E; cbn [obind] in H; try discriminate.
    apply (IH _ _ H Hrest). apply wf_end. exact (wf_begin _ _ _ _ _ _ _ _ E Hb Hw).
Qed.
