(* CrashMain.v — crash during Commit: where recovery works (every write position up to the
   hash record, and every position after which the remaining writes change nothing), histories. *)
From Minter Require Import Base Persist PersistFacts PersistGen Crash CrashFacts CrashEvFacts CrashReplay.
From Coq Require Import ZArith Lia List Bool Arith.
Import ListNotations.
Open Scope Z_scope.

(* index of the write that makes Info report the new height: the height record, or the batch
   that carries it *)
Fixpoint height_index (ws : list write) : nat :=
  match ws with
  | [] => O
  | WApp (AHeight _) :: _ => O
  | WAppBatch _ :: _ => O
  | _ :: r => S (height_index r)
  end.

(* a crash position after which recovery is claimed: before the height write, or when the
   remaining writes change nothing on disk *)
Definition safe_point (ws : list write) (d : cdisk) (k : nat) : Prop :=
  (k <= height_index ws)%nat \/ apply_writes (firstn k ws) d = apply_writes ws d.

Lemma awrites_head m h hash : exists rest, awrites m h hash = AHash hash :: AHeight h :: rest.
Proof. unfold awrites. rewrite app_calls_eq. cbn [flat_map awrites_of_call app]. eexists. reflexivity. Qed.

Lemma height_index_app_other a b :
  forallb (fun w => negb (is_apw w)) a = true -> height_index (a ++ b) = (length a + height_index b)%nat.
Proof.
  induction a as [|w r IH]; [reflexivity|]. cbn [forallb]. intros H. apply andb_true_iff in H. destruct H as [Hw Hr].
  cbn [app length]. destruct w; try discriminate; cbn [height_index]; rewrite (IH Hr); reflexivity.
Qed.

Lemma height_index_shape batched wev wtr m h hash :
  forallb is_evw wev = true -> forallb is_trw wtr = true ->
  height_index (wev ++ wtr ++ app_ws batched m h hash) = (length wev + length wtr + (if batched then 0 else 1))%nat.
Proof.
  intros He Ht. destruct (kind_ev_notr _ He) as [_ E2]. destruct (kind_tr_noev _ Ht) as [_ T2].
  rewrite (height_index_app_other _ _ E2), (height_index_app_other _ _ T2).
  unfold app_ws. destruct batched; [cbn; lia|].
  destruct (awrites_head m h hash) as [rest ->]. cbn. lia.
Qed.

(* the three stores after a prefix of [wev ++ wtr ++ wap] *)
Lemma apply_prefix wev wtr wap d k :
  forallb is_evw wev = true -> forallb is_trw wtr = true -> forallb is_apw wap = true ->
  apply_writes (firstn k (wev ++ wtr ++ wap)) d =
  {| cd_app := aps (firstn (k - length wev - length wtr) wap) (cd_app d);
     cd_tree := trs (firstn (k - length wev) wtr) (cd_tree d);
     cd_ev := evs (firstn k wev) (cd_ev d) |}.
Proof.
  intros He Ht Ha. rewrite !firstn_app.
  apply (apply_three (firstn k wev) (firstn (k - length wev) wtr) (firstn (k - length wev - length wtr) wap) d);
    apply forallb_firstn; assumption.
Qed.

Section Main.
Variable keep : Z.
Variable batched : bool.
Hypothesis keep_pos : 1 <= keep.

Lemma run_block_prepare s b s' o ws :
  run_block keep batched s b = Val (s', o, ws) -> exists ps, prepare s b = Val ps.
Proof. unfold run_block. destruct (prepare s b); cbn [obind]; try discriminate. eexists. reflexivity. Qed.

Lemma behind_self s ps : cgood s -> behind keep s s ps.
Proof.
  intros ([[_ [F H]] _] & _ & EG). unfold behind.
  split; [apply aeq_refl|]. split; [exact F|]. split; [exact H|]. split; [reflexivity|].
  split; [exists O; reflexivity|]. split; [|exists O; reflexivity].
  rewrite (ecl_eload _ _ (egood_load _ EG)). reflexivity.
Qed.

(* Commit keeps a running node good *)
Lemma run_block_good s b s' o ws : cgood s -> run_block keep batched s b = Val (s', o, ws) -> cgood s'.
Proof.
  intros G R. destruct (run_block_prepare _ _ _ _ _ R) as [ps P].
  destruct (block_sim keep batched keep_pos s s b ps s' o ws G P R (behind_self s ps G)) as (l' & ws' & R' & _ & G').
  rewrite R in R'. inversion R'. subst. exact G'.
Qed.

Lemma run_blocks_good : forall bs s s' os, cgood s -> run_blocks keep batched s bs = Val (s', os) -> cgood s'.
Proof.
  induction bs as [|b r IH]; intros s s' os G R; cbn [run_blocks] in R.
  - inversion R. subst. exact G.
  - destruct (run_block keep batched s b) as [[[s1 o1] w1]| |] eqn:E; cbn [obind] in R; try discriminate.
    cbn [fst snd] in R.
    destruct (run_blocks keep batched s1 r) as [[s2 os2]| |] eqn:E2; cbn [obind] in R; try discriminate.
    inversion R. subst. exact (IH _ _ _ (run_block_good _ _ _ _ _ G E) E2).
Qed.

(* two good processes on the same disk *)
Lemma behind_same_disk l s ps : cgood l -> cgood s -> fst l = fst s -> behind keep l s ps.
Proof.
  intros (AGl & TGl & EGl) (AGs & TGs & EGs) E. unfold behind.
  assert (A : aeq (app_of l) (app_of s)) by (apply agood_aeq; [exact AGl|exact AGs|unfold app_of; cbn [fst]; rewrite E; reflexivity]).
  destruct AGl as [[_ [F H]] _].
  split; [exact A|]. split; [exact F|]. split; [exact H|].
  split.
  - destruct (tgood_load _ TGl) as (c1 & L1 & A1). destruct (tgood_load _ TGs) as (c2 & L2 & A2).
    rewrite L1, L2. rewrite (aeq_height _ _ A) in *. rewrite E in A1. congruence.
  - split; [exists O; rewrite E; reflexivity|]. split; [|exists O; rewrite E; reflexivity].
    rewrite (ecl_eload _ _ (egood_load _ EGl)). reflexivity.
Qed.

Lemma run_blocks_same_disk : forall bs l s s' os,
  cgood l -> cgood s -> fst l = fst s -> run_blocks keep batched s bs = Val (s', os) ->
  exists l', run_blocks keep batched l bs = Val (l', os) /\ fst l' = fst s' /\ cgood l' /\ cgood s'.
Proof.
  induction bs as [|b r IH]; intros l s s' os Gl Gs E R; cbn [run_blocks] in *.
  - inversion R. subst. exists l. split; [reflexivity|]. split; [exact E|]. split; assumption.
  - destruct (run_block keep batched s b) as [[[s1 o1] w1]| |] eqn:Eb; cbn [obind] in R; try discriminate.
    cbn [fst snd] in R.
    destruct (run_blocks keep batched s1 r) as [[s2 os2]| |] eqn:E2; cbn [obind] in R; try discriminate.
    inversion R. subst s' os. clear R.
    destruct (run_block_prepare _ _ _ _ _ Eb) as [ps P].
    destruct (block_sim keep batched keep_pos l s b ps s1 o1 w1 Gs P Eb (behind_same_disk l s ps Gl Gs E)) as (l1 & w1' & R1 & E1 & G1).
    rewrite R1. cbn [obind fst snd].
    destruct (IH l1 s1 s2 os2 G1 (run_block_good _ _ _ _ _ Gs Eb) E1 E2) as (l2 & R2 & E2' & G2 & G2').
    rewrite R2. cbn [obind fst snd]. exists l2. split; [reflexivity|]. split; [exact E2'|]. split; assumption.
Qed.

(* a process restarted on the disk of a good node is good *)
Lemma cgood_restart s : cgood s -> cgood (fst s, empty_cmem).
Proof.
  intros ([[C [F H]] S] & (c & T1 & T2 & T3) & (ce & E1 & E2)).
  assert (V : view_of (cd_app (fst s), empty_mem) = view_of (app_of s)) by exact C.
  assert (GH : get_height (cd_app (fst s), empty_mem) = get_height (app_of s)) by exact (f_equal v_height V).
  split; [|split].
  - split; [|apply restart_settled]. unfold app_of. cbn [fst snd cm_app empty_cmem].
    split; [reflexivity|]. split.
    + unfold flags_ok. cbn. repeat split; auto; discriminate.
    + rewrite V. exact H.
  - exists c. unfold app_of in *. cbn [fst snd cm_app cm_tree empty_cmem] in *. rewrite GH.
    split; [exact T1|]. split; [left; reflexivity|exact T3].
  - exists ce. cbn [fst snd cm_ev empty_cmem]. split; [exact E1|left; reflexivity].
Qed.

Lemma same_disk_view l s : cgood l -> cgood s -> fst l = fst s -> view_of (app_of l) = view_of (app_of s).
Proof.
  intros ([[Cl _] _] & _) ([[Cs _] _] & _) E. unfold coherent, restart in Cl, Cs.
  rewrite <- Cl, <- Cs. unfold app_of. cbn [fst]. rewrite E. reflexivity.
Qed.

(* ---- the crash ------------------------------------------------------------------------------------------ *)
Lemma crash_writes s b s' o ws k :
  run_block keep batched s b = Val (s', o, ws) ->
  crash keep batched s b k = Val (apply_writes (firstn k ws) (fst s), empty_cmem).
Proof.
  unfold run_block, crash. destruct (prepare s b) as [p| |]; cbn [obind]; try discriminate.
  destruct (commit_writes keep batched s p) as [[w m]| |]; cbn [obind]; try discriminate.
  cbn [fst snd]. intros H. inversion H. reflexivity.
Qed.

Lemma run_block_facts s b s' o ws :
  cgood s -> run_block keep batched s b = Val (s', o, ws) ->
  exists ps, prepare s b = Val ps /\
    ws = snd (ev_writes ps) ++ tree_ws keep (cd_tree (fst s)) (get_start (p_app ps)) (p_ver ps) (p_content ps) ++
         app_ws batched (snd (p_app ps)) (p_h ps) (p_content ps) /\
    p_h ps = get_height (app_of s) + 1 /\ p_ver ps = p_h ps /\
    v_height (o_view o) = p_h ps /\ o_hash o = p_content ps /\ fst s' = apply_writes ws (fst s).
Proof.
  intros G R. destruct (run_block_prepare _ _ _ _ _ R) as [ps P]. exists ps. split; [exact P|].
  destruct G as (AG & TG & EG).
  destruct (tgood_load _ TG) as (c0 & Lts & Hc0). destruct TG as (c0' & TG1 & TG2 & TG3).
  destruct (prepare_sim s s b ps (aeq_refl _) eq_refl P) as (ps2 & Pp2 & _ & EVs & FSs & TLs & FLs & HSs & STs & VERs & PHs).
  rewrite P in Pp2. inversion Pp2. subst ps2. clear Pp2.
  destruct AG as [[COH [FOK HPOS]] SET]. specialize (FLs FOK). specialize (VERs _ Lts). cbn [fst] in VERs.
  assert (HP' : 0 <= get_height (app_of s)) by exact HPOS.
  assert (Hfresh : aget (p_ver ps) (cd_tree (fst s)) = None) by (apply TG3; lia).
  unfold run_block in R. rewrite P in R. cbn [obind] in R.
  rewrite commit_writes_shape, (tree_writes_fresh keep _ _ _ Hfresh) in R. cbn [obind fst snd] in R.
  assert (KT : forallb is_trw (tree_ws keep (cd_tree (fst s)) (get_start (p_app ps)) (p_ver ps) (p_content ps)) = true).
  { unfold tree_ws. destruct ((get_start (p_app ps) <=? p_ver ps - keep - 1) && is_some (aget (p_ver ps - keep - 1) (cd_tree (fst s)))); reflexivity. }
  pose proof (apply_three _ _ _ (fst s) (ev_writes_kind ps) KT (app_ws_kind batched (snd (p_app ps)) (p_h ps) (p_content ps))) as FSW.
  set (W := snd (ev_writes ps) ++ tree_ws keep (cd_tree (fst s)) (get_start (p_app ps)) (p_ver ps) (p_content ps) ++
            app_ws batched (snd (p_app ps)) (p_h ps) (p_content ps)) in *.
  assert (Hh : p_h ps <> 0) by (rewrite PHs; lia).
  injection R as R1 R2 R3. subst s' o ws.
  split; [reflexivity|]. split; [exact PHs|]. split; [rewrite VERs, PHs; reflexivity|]. split; [|split; reflexivity].
  cbn [o_view]. unfold app_of. cbn [fst snd cm_app]. rewrite FSW. cbn [cd_app].
  rewrite aps_app_ws, <- FSs, <- surjective_pairing.
  rewrite (commit_mem_eq (fst (p_app ps)) (snd (p_app ps)) (p_h ps) (p_content ps)), <- !surjective_pairing.
  rewrite (commit_view _ _ _ Hh TLs FLs). reflexivity.
Qed.

(* a crash before the height write: the block is sent again and ends on the uncrashed disk *)
Lemma crash_before_height s b s' o ws k :
  cgood s -> run_block keep batched s b = Val (s', o, ws) -> (k <= height_index ws)%nat ->
  let sk := (apply_writes (firstn k ws) (fst s), empty_cmem) in
  fst (info sk) = v_height (o_view o) - 1 /\
  exists l' ws', run_block keep batched sk b = Val (l', o, ws') /\ fst l' = fst s' /\ cgood l'.
Proof.
  intros G R K sk.
  destruct (run_block_facts _ _ _ _ _ G R) as (ps & P & Wsh & PH & PV & OV & OH & FS).
  set (wev := snd (ev_writes ps)) in *.
  set (wtr := tree_ws keep (cd_tree (fst s)) (get_start (p_app ps)) (p_ver ps) (p_content ps)) in *.
  set (wap := app_ws batched (snd (p_app ps)) (p_h ps) (p_content ps)) in *.
  assert (KE : forallb is_evw wev = true) by apply ev_writes_kind.
  assert (KT : forallb is_trw wtr = true).
  { unfold wtr, tree_ws. destruct ((get_start (p_app ps) <=? p_ver ps - keep - 1) && is_some (aget (p_ver ps - keep - 1) (cd_tree (fst s)))); reflexivity. }
  assert (KA : forallb is_apw wap = true) by apply app_ws_kind.
  assert (DK : fst sk = {| cd_app := aps (firstn (k - length wev - length wtr) wap) (cd_app (fst s));
                           cd_tree := trs (firstn (k - length wev) wtr) (cd_tree (fst s));
                           cd_ev := evs (firstn k wev) (cd_ev (fst s)) |}).
  { unfold sk. cbn [fst]. rewrite Wsh. apply apply_prefix; assumption. }
  rewrite Wsh in K. unfold wap in K. rewrite (height_index_shape _ _ _ _ _ _ KE KT) in K. fold wap in K.
  (* the appdb of the crashed disk: untouched, or only the hash record written *)
  assert (NH : nohash (cd_app (fst sk)) = nohash (cd_app (fst s))).
  { rewrite DK. cbn [cd_app]. unfold wap, app_ws. destruct batched.
    - replace (k - length wev - length wtr)%nat with O by lia. reflexivity.
    - destruct (awrites_head (snd (p_app ps)) (p_h ps) (p_content ps)) as [rest ->]. cbn [map].
      destruct (k - length wev - length wtr)%nat as [|[|n]] eqn:En; [reflexivity| |lia].
      cbn [firstn]. unfold aps. cbn [fold_left apply_app apply_awrite]. reflexivity. }
  destruct G as (AG & TG & EG).
  assert (A : aeq (app_of sk) (app_of s)).
  { unfold app_of at 1. cbn [snd cm_app empty_cmem]. apply fresh_aeq; [exact AG|exact NH]. }
  pose proof (aeq_height _ _ A) as HK.
  split.
  { cbn [info fst]. rewrite HK, OV, PH. lia. }
  destruct (tgood_load _ TG) as (c0 & Lts & Hc0).
  destruct AG as [[COH [FOK HPOS]] SET].
  assert (B : behind keep sk s ps).
  { unfold behind. split; [exact A|]. split.
    - unfold app_of. cbn [snd cm_app empty_cmem]. unfold flags_ok. cbn. repeat split; auto; discriminate.
    - split; [rewrite HK; exact HPOS|]. split.
      + rewrite Lts. unfold load_tree. cbn [snd cm_tree empty_cmem]. rewrite HK, DK. cbn [cd_tree fst].
        fold wtr. unfold wtr. rewrite (tree_prefix_keeps keep _ _ _ _ _ (get_height (app_of s)) keep_pos) by lia.
        rewrite Hc0. reflexivity.
      + split; [exists (k - length wev)%nat; rewrite DK; reflexivity|].
        split; [reflexivity|]. exists k. rewrite DK. reflexivity. }
  exact (block_sim keep batched keep_pos sk s b ps s' o ws (conj (conj (conj COH (conj FOK HPOS)) SET) (conj TG EG)) P R B).
Qed.

Lemma run_block_obs s b s' o ws :
  run_block keep batched s b = Val (s', o, ws) -> o_view o = view_of (app_of s').
Proof.
  unfold run_block. destruct (prepare s b) as [p0| |]; cbn [obind]; try discriminate.
  destruct (commit_writes keep batched s p0) as [[w m]| |]; cbn [obind]; try discriminate.
  intros H. inversion H. reflexivity.
Qed.

Lemma commit_hash s h hash : d_hash (fst (commit true s h hash)) = Some hash.
Proof.
  destruct s as [d m]. destruct m as [mh ms mv mt mver dV me dE mp dP]. unfold commit.
  destruct mv; destruct dV; destruct dE; destruct dP; reflexivity.
Qed.

Lemma run_block_hash s b s' o ws :
  cgood s -> run_block keep batched s b = Val (s', o, ws) -> get_hash (app_of s') = Some (o_hash o).
Proof.
  intros G R. destruct (run_block_facts _ _ _ _ _ G R) as (ps & P & Wsh & PH & PV & OV & OH & FS).
  unfold get_hash, app_of. cbn [fst]. rewrite FS, Wsh.
  assert (KT : forallb is_trw (tree_ws keep (cd_tree (fst s)) (get_start (p_app ps)) (p_ver ps) (p_content ps)) = true).
  { unfold tree_ws. destruct ((get_start (p_app ps) <=? p_ver ps - keep - 1) && is_some (aget (p_ver ps - keep - 1) (cd_tree (fst s)))); reflexivity. }
  rewrite (apply_three _ _ _ (fst s) (ev_writes_kind ps) KT (app_ws_kind batched (snd (p_app ps)) (p_h ps) (p_content ps))).
  cbn [cd_app]. rewrite aps_app_ws, commit_hash, OH. reflexivity.
Qed.

(* the history after the crashed block *)
Definition obs_ok (info_h : Z) (sk_view : view) (sk_hash : option Z) (o : obs) (os obsr : list obs) : Prop :=
  (info_h = v_height (o_view o) - 1 /\ obsr = o :: os) \/
  (info_h = v_height (o_view o) /\ sk_view = o_view o /\ sk_hash = Some (o_hash o) /\ obsr = os).

Lemma recover_safe s b post s' o ws s3 os k :
  cgood s -> run_block keep batched s b = Val (s', o, ws) -> run_blocks keep batched s' post = Val (s3, os) ->
  safe_point ws (fst s) k ->
  exists sk sr obsr,
    crash keep batched s b k = Val sk /\
    recover keep batched sk (v_height (o_view o)) (b :: post) = Val (sr, obsr) /\
    obs_ok (fst (info sk)) (view_of (app_of sk)) (snd (info sk)) o os obsr /\
    fst sr = fst s3 /\ view_of (app_of sr) = view_of (app_of s3).
Proof.
  intros G R RP SP.
  exists (apply_writes (firstn k ws) (fst s), empty_cmem).
  rewrite (crash_writes _ _ _ _ _ k R).
  pose proof (run_block_good _ _ _ _ _ G R) as G'.
  destruct SP as [K|NOOP].
  - destruct (crash_before_height s b s' o ws k G R K) as (IH & l' & ws' & RB & EL & GL).
    destruct (run_blocks_same_disk post l' s' s3 os GL G' EL RP) as (l3 & RL & E3 & GL3 & GS3).
    exists l3, (o :: os). split; [reflexivity|]. split.
    + unfold recover. rewrite IH, Z.eqb_refl. cbn [run_blocks]. rewrite RB. cbn [obind fst snd]. rewrite RL. reflexivity.
    + split; [left; split; [exact IH|reflexivity]|]. split; [exact E3|exact (same_disk_view _ _ GL3 GS3 E3)].
  - destruct (run_block_facts _ _ _ _ _ G R) as (ps & P & Wsh & PH & PV & OV & OH & FS).
    rewrite NOOP, <- FS.
    pose proof (cgood_restart _ G') as GR.
    destruct (run_blocks_same_disk post (fst s', empty_cmem) s' s3 os GR G' eq_refl RP) as (l3 & RL & E3 & GL3 & GS3).
    destruct G' as ([[C' _] _] & _ & _).
    assert (V : view_of (app_of (fst s', empty_cmem)) = view_of (app_of s')) by exact C'.
    assert (IH : fst (info (fst s', empty_cmem)) = v_height (o_view o)).
    { cbn [info fst]. change (v_height (view_of (app_of (fst s', empty_cmem))) = v_height (o_view o)). rewrite V.
      rewrite (run_block_obs _ _ _ _ _ R). reflexivity. }
    exists l3, os. split; [reflexivity|]. split.
    + unfold recover. rewrite IH.
      destruct (Z.eqb_spec (v_height (o_view o)) (v_height (o_view o) - 1)) as [X|_]; [lia|].
      rewrite Z.eqb_refl. cbn [tl]. exact RL.
    + split; [|split; [exact E3|exact (same_disk_view _ _ GL3 GS3 E3)]]. right. split; [exact IH|].
      split; [rewrite V; symmetry; exact (run_block_obs _ _ _ _ _ R)|]. split; [|reflexivity].
      cbn [info snd]. change (v_hash (view_of (app_of (fst s', empty_cmem))) = Some (o_hash o)). rewrite V.
      exact (run_block_hash _ _ _ _ _ G R).
Qed.
End Main.

Lemma map_firstn_WApp n (l : list awrite) : map WApp (firstn n l) = firstn n (map WApp l).
Proof. revert n. induction l as [|a r IH]; intros [|n]; cbn; try reflexivity. rewrite IH. reflexivity. Qed.

(* ---- after the height write: Info reports the new height, the block is not sent again ------------ *)
Definition keeps_height (a : awrite) : bool := match a with AHeight _ | AHash _ => false | _ => true end.

Lemma awrites_tail m h hash : exists rest, awrites m h hash = AHash hash :: AHeight h :: rest /\ forallb keeps_height rest = true.
Proof.
  unfold awrites. rewrite app_calls_eq. cbn [flat_map awrites_of_call app]. eexists. split; [reflexivity|].
  rewrite !forallb_app.
  destruct (guard_val guard_FlushValidators m), (m_vals m), (guard_val guard_SaveBlocksTime m), (guard_val guard_SaveVersions m),
    (guard_val guard_SaveEmission m), (m_emission m), (guard_val guard_SavePrice m), (m_price m); reflexivity.
Qed.

Lemma aps_keeps_height : forall l d, forallb keeps_height l = true -> d_height (aps (map WApp l) d) = d_height d.
Proof.
  induction l as [|a r IH]; intros d H; [reflexivity|].
  cbn [forallb] in H. apply andb_true_iff in H. destruct H as [Ha Hr].
  unfold aps. cbn [map fold_left apply_app]. change (d_height (aps (map WApp r) (apply_awrite d a)) = d_height d).
  rewrite (IH _ Hr). destruct a; try discriminate; reflexivity.
Qed.

Lemma forallb_firstn_keeps n l : forallb keeps_height l = true -> forallb keeps_height (firstn n l) = true.
Proof. apply forallb_firstn. Qed.

Lemma crash_after_height_info keep s b s' o ws k :
  cgood s -> run_block keep false s b = Val (s', o, ws) -> (height_index ws < k)%nat ->
  fst (info (apply_writes (firstn k ws) (fst s), empty_cmem)) = v_height (o_view o).
Proof.
  intros G R K.
  destruct (run_block_facts keep false _ _ _ _ _ G R) as (ps & P & Wsh & PH & PV & OV & OH & FS).
  set (wev := snd (ev_writes ps)) in *.
  set (wtr := tree_ws keep (cd_tree (fst s)) (get_start (p_app ps)) (p_ver ps) (p_content ps)) in *.
  assert (KE : forallb is_evw wev = true) by apply ev_writes_kind.
  assert (KT : forallb is_trw wtr = true).
  { unfold wtr, tree_ws. destruct ((get_start (p_app ps) <=? p_ver ps - keep - 1) && is_some (aget (p_ver ps - keep - 1) (cd_tree (fst s)))); reflexivity. }
  rewrite Wsh in K. rewrite (height_index_shape false _ _ _ _ _ KE KT) in K.
  rewrite Wsh, (apply_prefix _ _ _ _ _ KE KT (app_ws_kind false _ _ _)).
  unfold info, app_of, get_height. cbn [fst snd cd_app cm_app empty_cmem empty_mem m_height]. cbn [Z.eqb].
  unfold app_ws. destruct (awrites_tail (snd (p_app ps)) (p_h ps) (p_content ps)) as (rest & -> & KR).
  destruct (k - length wev - length wtr)%nat as [|[|n]] eqn:En; [lia|lia|].
  cbn [map firstn]. rewrite <- map_firstn_WApp.
  unfold aps at 1. cbn [fold_left apply_app].
  change (fold_left apply_app (map WApp (firstn n rest)) ?d) with (aps (map WApp (firstn n rest)) d).
  rewrite (aps_keeps_height _ _ (forallb_firstn_keeps n rest KR)). cbn [apply_awrite d_height odef]. rewrite OV. reflexivity.
Qed.

(* InitChain leaves a good node *)
Lemma genesis_good : forall start content, 0 <= start -> cgood (genesis_cst start content).
Proof.
  intros start content H. unfold cgood, genesis_cst. split; [|split].
  - unfold agood, app_of. cbn [fst snd cd_app cm_app]. split; [|reflexivity].
    unfold good. split; [|split].
    + unfold coherent, restart. cbn [fst]. apply view_eq_intro; cbn; try reflexivity;
        destruct (Z.eqb_spec start 0); subst; reflexivity.
    + unfold flags_ok. cbn. repeat split; auto; try discriminate.
    + cbn. destruct (Z.eqb_spec start 0); cbn; lia.
  - unfold tgood, app_of. cbn [fst snd cd_app cm_app cd_tree cm_tree].
    assert (GH : get_height ({| d_height := Some start; d_hash := None; d_start := Some start; d_vals := Some [start]; d_times := None;
              d_versions := Some [(300, 0)]; d_emission := Some 0; d_price := Some [0] |},
              {| m_height := start; m_start := start; m_vals := None; m_times := []; m_versions := [(300, 0)]; m_dirtyV := false;
              m_emission := Some 0; m_dirtyE := false; m_price := Some [0]; m_dirtyP := true |}) = start).
    { unfold get_height. cbn. destruct (Z.eqb_spec start 0); reflexivity. }
    rewrite GH. exists content. cbn [aget]. rewrite Z.eqb_refl. split; [reflexivity|]. split; [right; reflexivity|].
    intros v Hv. destruct (Z.eqb_spec start v); [lia|reflexivity].
  - exists ([], []). split; [|right; reflexivity]. intros addr. destruct addr; reflexivity.
Qed.

(* with the appdb records in one batch every crash position is safe *)
Lemma batched_all_safe keep s b s' o ws k :
  1 <= keep -> cgood s -> run_block keep true s b = Val (s', o, ws) -> (k <= length ws)%nat -> safe_point ws (fst s) k.
Proof.
  intros K G R L. destruct (run_block_facts keep true _ _ _ _ _ G R) as (ps & P & Wsh & _).
  assert (KT : forallb is_trw (tree_ws keep (cd_tree (fst s)) (get_start (p_app ps)) (p_ver ps) (p_content ps)) = true).
  { unfold tree_ws. destruct ((get_start (p_app ps) <=? p_ver ps - keep - 1) && is_some (aget (p_ver ps - keep - 1) (cd_tree (fst s)))); reflexivity. }
  pose proof (height_index_shape true _ _ (snd (p_app ps)) (p_h ps) (p_content ps) (ev_writes_kind ps) KT) as HI.
  rewrite <- Wsh in HI.
  assert (LW : length ws = S (height_index ws)).
  { rewrite HI, Wsh, !app_length. unfold app_ws. cbn [length]. lia. }
  destruct (Nat.eq_dec k (length ws)) as [E|N].
  - right. subst k. rewrite firstn_all. reflexivity.
  - left. lia.
Qed.

