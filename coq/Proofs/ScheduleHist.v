(* ScheduleHist.v — histories of Model/Schedule.v with consecutive heights (C16): no step but the
   BeginBlock of a fund's own due height takes it out of the frozen funds; every fund is due in the
   future; the life cycle of one fund. *)
From Minter Require Import Base Consts Schedule ScheduleFacts ScheduleSteps ScheduleBlock.
From Minter Require Punish Ledger LedgerFacts.
From Coq Require Import ZArith List Bool Lia ZifyBool.
Import ListNotations.
Open Scope Z_scope.

(* every frozen fund is due strictly after the block being executed *)
Definition inv (s : st) : Prop := Forall (fun f => s_height s < f_due f) (s_frozen s).

(* Tendermint's heights are consecutive: the BeginBlocks of a history carry h+1, h+2, ... *)
Fixpoint consecutive (h : Z) (ops : list op) : Prop :=
  match ops with
  | [] => True
  | OpBegin h' _ :: r => h' = h + 1 /\ consecutive h' r
  | _ :: r => consecutive h r
  end.

Definition no_crash (outs : list out) : Prop := existsb is_crash outs = false.

(* ---- steps that are not a BeginBlock only append funds due in the future --------------------------- *)
Lemma run_accept_funds P s t effs :
  periods_pos P -> run P s t = Accept effs -> Forall (fun f => s_height s < f_due f) (fund_effs effs).
Proof.
  intros (HU & HM & HL) H.
  destruct (t_data t) as [cand coin value|from to coin value| |due coin value|cand coin value hr verdict] eqn:Ed.
  - destruct (run_unbond _ _ _ _ _ _ _ Ed H) as (_ & _ & _ & Hl). destruct (leave_accept_shape _ _ _ _ _ _ _ _ Hl) as [Hf _].
    rewrite Hf. constructor; [cbn; lia|constructor].
  - destruct (run_move _ _ _ _ _ _ _ _ Ed H) as (_ & _ & _ & _ & Hl). destruct (leave_accept_shape _ _ _ _ _ _ _ _ Hl) as [Hf _].
    rewrite Hf. constructor; [cbn; lia|constructor].
  - destruct (run_lockstake _ _ _ _ Ed H) as (_ & ->). constructor.
  - destruct (run_lock _ _ _ _ _ _ _ Ed H) as (Hdue & _ & _ & _ & ->). constructor; [cbn; lia|constructor].
  - destruct (run_delegate _ _ _ _ _ _ _ _ _ Ed H) as (_ & Hf & _). rewrite Hf. constructor.
Qed.

Lemma step_appends P s o s' x :
  periods_pos P -> step P s o = (s', x) -> (forall h ev, o <> OpBegin h ev) ->
  (exists new, s_frozen s' = s_frozen s ++ new /\ Forall (fun f => s_height s < f_due f) new) /\ s_height s' = s_height s.
Proof.
  intros HP H Hnb. destruct o as [t|h ev|cid isval|e]; cbn [step] in H.
  - unfold deliver in H. destruct (run P s t) as [c|effs|site] eqn:Er; injection H as <- <-.
    + destruct (failed_effs_shape s t) as [Hb _]. destruct (apply_effs_bal_only _ s Hb) as (_ & _ & _ & Hfz & _).
      destruct (apply_effs_static (failed_effs s t) s) as (Hh & _).
      split; [exists []; rewrite Hfz, app_nil_r; split; [reflexivity|constructor]|exact Hh].
    + destruct (apply_effs_static effs s) as (Hh & _).
      split; [exists (fund_effs effs); split; [apply apply_effs_frozen|apply (run_accept_funds _ _ _ _ HP Er)]|exact Hh].
    + split; [exists []; rewrite app_nil_r; split; [reflexivity|constructor]|reflexivity].
  - exfalso. exact (Hnb h ev eq_refl).
  - unfold remove_candidate in H. destruct (isval || negb (cand_exists s cid)); injection H as <- <-.
    + split; [exists []; rewrite app_nil_r; split; [reflexivity|constructor]|reflexivity].
    + split; [|reflexivity]. eexists. split; [reflexivity|].
      destruct HP as (HU & _). apply Forall_forall. intros f Hin. unfold removal_funds in Hin.
      apply in_app_or in Hin. destruct Hin as [Hin|Hin]; apply in_map_iff in Hin; destruct Hin as (e & <- & _); cbn; lia.
  - injection H as <- <-. destruct (apply_env_frame s e) as [Hf Hh].
    split; [exists []; rewrite app_nil_r; split; [exact Hf|constructor]|exact Hh].
Qed.

(* ---- BeginBlock at the next height ---------------------------------------------------------------------- *)
Lemma Forall2_In_l {A B} (R : A -> B -> Prop) l1 l2 x : Forall2 R l1 l2 -> In x l1 -> exists y, In y l2 /\ R x y.
Proof.
  intros H. induction H as [|a b l1 l2 Hab _ IH]; intros Hin; [destruct Hin|].
  destruct Hin as [<-|Hin]; [exists b; split; [left; reflexivity|exact Hab]|].
  destruct (IH Hin) as (y & Hy & Hr). exists y. split; [right; exact Hy|exact Hr].
Qed.
Lemma Forall2_In_r {A B} (R : A -> B -> Prop) l1 l2 y : Forall2 R l1 l2 -> In y l2 -> exists x, In x l1 /\ R x y.
Proof.
  intros H. induction H as [|a b l1 l2 Hab _ IH]; intros Hin; [destruct Hin|].
  destruct Hin as [<-|Hin]; [exists a; split; [left; reflexivity|exact Hab]|].
  destruct (IH Hin) as (x & Hx & Hr). exists x. split; [right; exact Hx|exact Hr].
Qed.

Lemma begin_inv P s h ev s' m :
  periods_pos P -> inv s -> h = s_height s + 1 -> begin_block P s h ev = (s', OBegin m) ->
  inv s' /\ s_height s' = h /\ Forall (fun f => f_due f = h) m /\
  (forall f, In f (s_frozen s) ->
     exists f', same_fund f f' /\ (if f_due f =? h then In f' m else In f' (s_frozen s'))).
Proof.
  intros (HU & _) Hinv Hh H.
  destruct (begin_block_spec P s h ev) as (s2 & Hbb & Hfz & Hht & _). cbn zeta in Hbb, Hfz.
  rewrite Hbb in H. injection H as <- <-.
  destruct (byz_all_spec P h ev (set_height s h)) as (_ & l1 & new & Hs1 & Hsame & Hnew).
  cbn [set_height s_frozen] in Hsame. rewrite Hs1 in Hfz. rewrite Hs1.
  split.
  { unfold inv. rewrite Hfz, Hht. apply Forall_app. split.
    - apply Forall_forall. intros g Hin. apply filter_In in Hin. destruct Hin as [Hin Hd].
      unfold due_at in Hd. apply in_app_or in Hin. destruct Hin as [Hin|Hin].
      + destruct (Forall2_In_r _ _ _ _ Hsame Hin) as (f & Hf & (E1 & _)).
        unfold inv in Hinv. rewrite Forall_forall in Hinv. specialize (Hinv f Hf). lia.
      + rewrite Forall_forall in Hnew. destruct (Hnew g Hin) as [E _]. lia.
    - apply Forall_forall. intros g Hin. unfold bounced in Hin. apply in_map_iff in Hin. destruct Hin as (f & <- & _). cbn. lia. }
  split; [exact Hht|].
  split. { apply Forall_forall. intros g Hin. apply filter_In in Hin. destruct Hin as [_ Hd]. unfold due_at in Hd. lia. }
  intros f Hf. destruct (Forall2_In_l _ _ _ _ Hsame Hf) as (f' & Hf' & Hsf). exists f'. split; [exact Hsf|].
  destruct Hsf as (E1 & _).
  destruct (f_due f =? h) eqn:Ed.
  - apply filter_In. split; [apply in_or_app; left; exact Hf'|unfold due_at; lia].
  - rewrite Hfz. apply in_or_app. left. apply filter_In. split; [apply in_or_app; left; exact Hf'|unfold due_at; lia].
Qed.

(* ---- histories ----------------------------------------------------------------------------------------------- *)
Lemma run_ops_cons P s o r :
  run_ops P s (o :: r) =
  let '(s', x) := step P s o in
  if is_crash x then (s, [x]) else let '(s'', xs) := run_ops P s' r in (s'', x :: xs).
Proof. reflexivity. Qed.

Lemma step_inv P s o s' x :
  periods_pos P -> inv s -> (forall h ev, o = OpBegin h ev -> h = s_height s + 1) ->
  step P s o = (s', x) -> is_crash x = false ->
  inv s' /\ s_height s' = match o with OpBegin h _ => h | _ => s_height s end.
Proof.
  intros HP Hinv Hc H Hx.
  destruct o as [t|h ev|cid isval|e].
  - destruct (step_appends _ _ _ _ _ HP H) as ((new & Hf & Hn) & Hh); [intros; discriminate|].
    split; [|exact Hh]. unfold inv. rewrite Hf, Hh. apply Forall_app. split; assumption.
  - cbn [step] in H. destruct (begin_block_out P s h ev) as (s0 & m & Hbo); rewrite Hbo in H; injection H as <- <-; pose proof Hbo as H.
    destruct (begin_inv _ _ _ _ _ _ HP Hinv (Hc h ev eq_refl) H) as (Hi & Hh & _). split; assumption.
  - destruct (step_appends _ _ _ _ _ HP H) as ((new & Hf & Hn) & Hh); [intros; discriminate|].
    split; [|exact Hh]. unfold inv. rewrite Hf, Hh. apply Forall_app. split; assumption.
  - destruct (step_appends _ _ _ _ _ HP H) as ((new & Hf & Hn) & Hh); [intros; discriminate|].
    split; [|exact Hh]. unfold inv. rewrite Hf, Hh. apply Forall_app. split; assumption.
Qed.

Lemma consecutive_head h o r : consecutive h (o :: r) ->
  (forall h' ev, o = OpBegin h' ev -> h' = h + 1) /\ consecutive (match o with OpBegin h' _ => h' | _ => h end) r.
Proof.
  destruct o as [t|h' ev|cid isval|e]; cbn [consecutive]; intros H.
  - split; [intros; discriminate|exact H].
  - destruct H as [-> H]. split; [intros ? ? E; injection E as <- _; reflexivity|exact H].
  - split; [intros; discriminate|exact H].
  - split; [intros; discriminate|exact H].
Qed.

(* along a history with consecutive heights every frozen fund stays due in the future: none is
   ever overdue, i.e. none is paid later than its due block *)
Lemma run_ops_inv P : periods_pos P -> forall ops s s' outs,
  inv s -> consecutive (s_height s) ops -> run_ops P s ops = (s', outs) ->
  inv s' /\ s_height s <= s_height s'.
Proof.
  intros HP. induction ops as [|o r IH]; intros s s' outs Hinv Hc H.
  - injection H as <- <-. split; [exact Hinv|lia].
  - rewrite run_ops_cons in H. destruct (step P s o) as [s1 x] eqn:Es.
    destruct (is_crash x) eqn:Ex; [injection H as <- <-; split; [exact Hinv|lia]|].
    destruct (run_ops P s1 r) as [s2 xs] eqn:Er. injection H as <- <-.
    destruct (consecutive_head _ _ _ Hc) as [Hb Hc'].
    destruct (step_inv _ _ _ _ _ HP Hinv Hb Es Ex) as [Hi1 Hh1].
    rewrite <- Hh1 in Hc'. destruct (IH _ _ _ Hi1 Hc' Er) as [Hi2 Hle].
    split; [exact Hi2|]. destruct o as [t|h' ev|cid isval|e]; try lia. specialize (Hb h' ev eq_refl). lia.
Qed.

(* the life cycle of one frozen fund: it stays frozen (a byzantine slash may lower its value, nothing
   else changes) in every state before its due height, and it is paid by the BeginBlock of exactly
   its due height *)
Lemma fund_lifecycle P : periods_pos P -> forall ops s s' outs f,
  inv s -> consecutive (s_height s) ops -> run_ops P s ops = (s', outs) -> no_crash outs ->
  In f (s_frozen s) ->
  (s_height s' < f_due f -> exists f', same_fund f f' /\ In f' (s_frozen s')) /\
  (f_due f <= s_height s' ->
     exists i ev m f', nth_error ops i = Some (OpBegin (f_due f) ev) /\ nth_error outs i = Some (OBegin m) /\
                       same_fund f f' /\ In f' m).
Proof.
  intros HP. induction ops as [|o r IH]; intros s s' outs f Hinv Hc H Hnc Hf.
  - injection H as <- <-. split.
    + intros _. exists f. split; [apply same_fund_refl|exact Hf].
    + intros Hle. unfold inv in Hinv. rewrite Forall_forall in Hinv. specialize (Hinv f Hf). lia.
  - rewrite run_ops_cons in H. destruct (step P s o) as [s1 x] eqn:Es.
    destruct (is_crash x) eqn:Ex.
    { injection H as <- <-. unfold no_crash in Hnc. cbn [existsb] in Hnc. rewrite Ex in Hnc. discriminate. }
    destruct (run_ops P s1 r) as [s2 xs] eqn:Er. injection H as <- <-.
    assert (Hnc' : no_crash xs) by (unfold no_crash in *; cbn [existsb] in Hnc; rewrite Ex in Hnc; exact Hnc).
    destruct (consecutive_head _ _ _ Hc) as [Hb Hc'].
    destruct (step_inv _ _ _ _ _ HP Hinv Hb Es Ex) as [Hi1 Hh1].
    rewrite <- Hh1 in Hc'.
    destruct (run_ops_inv P HP _ _ _ _ Hi1 Hc' Er) as [_ Hmono].
    assert (Hshift : forall g, f_due g = f_due f -> In g (s_frozen s1) -> fund -> same_fund f g ->
              (s_height s2 < f_due f -> exists f', same_fund f f' /\ In f' (s_frozen s2)) /\
              (f_due f <= s_height s2 ->
               exists i ev m f', nth_error (o :: r) i = Some (OpBegin (f_due f) ev) /\ nth_error (x :: xs) i = Some (OBegin m) /\
                                 same_fund f f' /\ In f' m)).
    { intros g Hdg Hg _ Hfg. destruct (IH _ _ _ g Hi1 Hc' Er Hnc' Hg) as [A B]. rewrite Hdg in A, B. split.
      - intros Hlt. destruct (A Hlt) as (f' & Hs & Hin). exists f'. split; [eapply same_fund_trans; eassumption|exact Hin].
      - intros Hle. destruct (B Hle) as (i & ev & m & f' & H1 & H2 & H3 & H4).
        exists (S i), ev, m, f'. cbn [nth_error]. split; [exact H1|]. split; [exact H2|].
        split; [eapply same_fund_trans; eassumption|exact H4]. }
    destruct o as [t|h ev|cid isval|e].
    + destruct (step_appends _ _ _ _ _ HP Es) as ((new & Hfz & _) & _); [intros; discriminate|].
      apply (Hshift f eq_refl); [rewrite Hfz; apply in_or_app; left; exact Hf|exact f|apply same_fund_refl].
    + cbn [step] in Es. destruct (begin_block_out P s h ev) as (s0 & m & Hbo); rewrite Hbo in Es; injection Es as <- <-; pose proof Hbo as Es.
      destruct (begin_inv _ _ _ _ _ _ HP Hinv (Hb h ev eq_refl) Es) as (_ & Hh & _ & Hpaid).
      destruct (Hpaid f Hf) as (f1 & Hsf & Hwhere).
      destruct (f_due f =? h) eqn:Ed.
      * assert (Hdh : f_due f = h) by lia. split; [intros Hlt; lia|]. intros _.
        exists O, ev, m, f1. cbn [nth_error]. rewrite Hdh. split; [reflexivity|]. split; [reflexivity|]. split; [exact Hsf|exact Hwhere].
      * pose proof Hsf as (E1 & _).
        exact (Hshift f1 E1 Hwhere f1 Hsf).
    + destruct (step_appends _ _ _ _ _ HP Es) as ((new & Hfz & _) & _); [intros; discriminate|].
      apply (Hshift f eq_refl); [rewrite Hfz; apply in_or_app; left; exact Hf|exact f|apply same_fund_refl].
    + destruct (step_appends _ _ _ _ _ HP Es) as ((new & Hfz & _) & _); [intros; discriminate|].
      apply (Hshift f eq_refl); [rewrite Hfz; apply in_or_app; left; exact Hf|exact f|apply same_fund_refl].
Qed.

(* whatever a history pays, it pays at the fund's own due height *)
Lemma paid_only_when_due P : periods_pos P -> forall ops s s' outs i h ev m f,
  inv s -> consecutive (s_height s) ops -> run_ops P s ops = (s', outs) ->
  nth_error ops i = Some (OpBegin h ev) -> nth_error outs i = Some (OBegin m) -> In f m -> f_due f = h.
Proof.
  intros HP. induction ops as [|o r IH]; intros s s' outs i h ev m f Hinv Hc H Hop Hout Hf.
  - destruct i; discriminate.
  - rewrite run_ops_cons in H. destruct (step P s o) as [s1 x] eqn:Es.
    destruct (is_crash x) eqn:Ex.
    { injection H as <- <-. destruct i as [|i]; cbn [nth_error] in Hout; [injection Hout as ->; discriminate|destruct i; discriminate]. }
    destruct (run_ops P s1 r) as [s2 xs] eqn:Er. injection H as <- <-.
    destruct (consecutive_head _ _ _ Hc) as [Hb Hc'].
    destruct (step_inv _ _ _ _ _ HP Hinv Hb Es Ex) as [Hi1 Hh1]. rewrite <- Hh1 in Hc'.
    destruct i as [|i]; cbn [nth_error] in Hop, Hout.
    + injection Hop as ->. injection Hout as ->. cbn [step] in Es.
      destruct (begin_inv _ _ _ _ _ _ HP Hinv (Hb h ev eq_refl) Es) as (_ & _ & Hall & _).
      rewrite Forall_forall in Hall. exact (Hall f Hf).
    + exact (IH _ _ _ _ _ _ _ _ Hi1 Hc' Er Hop Hout Hf).
Qed.

(* ---- nothing panics -------------------------------------------------------------------------------------------- *)
Lemma step_never_crashes P s o : is_crash (snd (step P s o)) = false.
Proof.
  destruct o as [t|h ev|cid isval|e]; cbn [step].
  - apply deliver_never_crashes.
  - reflexivity.
  - unfold remove_candidate. destruct (isval || negb (cand_exists s cid)); reflexivity.
  - reflexivity.
Qed.

Lemma run_ops_no_crash P : forall ops s, no_crash (snd (run_ops P s ops)) /\ length (snd (run_ops P s ops)) = length ops.
Proof.
  induction ops as [|o r IH]; intros s; [split; reflexivity|].
  rewrite run_ops_cons. pose proof (step_never_crashes P s o) as Hc. destruct (step P s o) as [s1 x]. cbn [snd] in Hc. rewrite Hc.
  destruct (IH s1) as [Hn Hl]. destruct (run_ops P s1 r) as [s2 xs]. cbn [snd] in *. unfold no_crash in *. cbn [existsb length]. rewrite Hc, Hn, Hl. split; reflexivity.
Qed.

Lemma fund_lifecycle_total P : periods_pos P -> forall ops s s' outs f,
  inv s -> consecutive (s_height s) ops -> run_ops P s ops = (s', outs) ->
  In f (s_frozen s) ->
  (s_height s' < f_due f -> exists f', same_fund f f' /\ In f' (s_frozen s')) /\
  (f_due f <= s_height s' ->
     exists i ev m f', nth_error ops i = Some (OpBegin (f_due f) ev) /\ nth_error outs i = Some (OBegin m) /\
                       same_fund f f' /\ In f' m).
Proof.
  intros HP ops s s' outs f Hinv Hc H Hf. apply (fund_lifecycle P HP ops s s' outs f Hinv Hc H); [|exact Hf].
  pose proof (proj1 (run_ops_no_crash P ops s)) as Hn. rewrite H in Hn. exact Hn.
Qed.
