(* CrashEvFacts.v — the events database and the state database under a crash in the middle of
   Commit: replaying the same block on any prefix of its writes ends on the same disk. *)
From Minter Require Import Base Persist Crash CrashFacts.
From Coq Require Import ZArith Lia List Bool Arith.
Import ListNotations.
Open Scope Z_scope.

(* ---- the write list acts on the three stores independently ------------------------------------ *)
Definition apply_ev (e : edisk) (w : write) : edisk :=
  match w with
  | WEnt addr pos a => let t := tbl_of addr e in with_tbl addr {| t_ents := set_at pos a (t_ents t); t_cnt := t_cnt t |} e
  | WCnt addr n => let t := tbl_of addr e in with_tbl addr {| t_ents := t_ents t; t_cnt := n |} e
  | WEvHeight h ids => {| e_addr := e_addr e; e_pk := e_pk e; e_heights := aset h ids (e_heights e) |}
  | _ => e
  end.
Definition apply_tree (t : list (Z * Z)) (w : write) : list (Z * Z) :=
  match w with WTreeSave v c => aset v c t | WTreeDelete v => adel v t | _ => t end.
Definition apply_app (d : disk) (w : write) : disk :=
  match w with WApp a => apply_awrite d a | WAppBatch l => apply_awrites l d | _ => d end.

Definition evs (ws : list write) (e : edisk) : edisk := fold_left apply_ev ws e.
Definition trs (ws : list write) (t : list (Z * Z)) : list (Z * Z) := fold_left apply_tree ws t.
Definition aps (ws : list write) (d : disk) : disk := fold_left apply_app ws d.

Lemma apply_write_split d w :
  apply_write d w = {| cd_app := apply_app (cd_app d) w; cd_tree := apply_tree (cd_tree d) w; cd_ev := apply_ev (cd_ev d) w |}.
Proof. destruct d as [a t e]. destruct w; cbn; try reflexivity; destruct e; reflexivity. Qed.

Lemma apply_writes_split : forall ws d,
  apply_writes ws d = {| cd_app := aps ws (cd_app d); cd_tree := trs ws (cd_tree d); cd_ev := evs ws (cd_ev d) |}.
Proof.
  induction ws as [|w r IH]; intros d.
  - destruct d; reflexivity.
  - unfold apply_writes in *. cbn [fold_left]. rewrite IH. rewrite apply_write_split. reflexivity.
Qed.

Lemma evs_app a b e : evs (a ++ b) e = evs b (evs a e).
Proof. apply fold_left_app. Qed.
Lemma trs_app a b t : trs (a ++ b) t = trs b (trs a t).
Proof. apply fold_left_app. Qed.
Lemma aps_app a b d : aps (a ++ b) d = aps b (aps a d).
Proof. apply fold_left_app. Qed.

(* kinds of writes *)
Definition is_evw (w : write) : bool := match w with WEnt _ _ _ | WCnt _ _ | WEvHeight _ _ => true | _ => false end.
Definition is_trw (w : write) : bool := match w with WTreeSave _ _ | WTreeDelete _ => true | _ => false end.
Definition is_apw (w : write) : bool := match w with WApp _ | WAppBatch _ => true | _ => false end.

Lemma evs_noev ws e : forallb (fun w => negb (is_evw w)) ws = true -> evs ws e = e.
Proof.
  revert e. induction ws as [|w r IH]; intros e H; [reflexivity|].
  cbn in H. apply andb_true_iff in H. destruct H as [Hw Hr]. unfold evs. cbn [fold_left].
  replace (apply_ev e w) with e by (destruct w; try reflexivity; discriminate). apply IH. exact Hr.
Qed.
Lemma trs_notr ws t : forallb (fun w => negb (is_trw w)) ws = true -> trs ws t = t.
Proof.
  revert t. induction ws as [|w r IH]; intros t H; [reflexivity|].
  cbn in H. apply andb_true_iff in H. destruct H as [Hw Hr]. unfold trs. cbn [fold_left].
  replace (apply_tree t w) with t by (destruct w; try reflexivity; discriminate). apply IH. exact Hr.
Qed.
Lemma aps_noap ws d : forallb (fun w => negb (is_apw w)) ws = true -> aps ws d = d.
Proof.
  revert d. induction ws as [|w r IH]; intros d H; [reflexivity|].
  cbn in H. apply andb_true_iff in H. destruct H as [Hw Hr]. unfold aps. cbn [fold_left].
  replace (apply_app d w) with d by (destruct w; try reflexivity; discriminate). apply IH. exact Hr.
Qed.

Lemma forallb_firstn {A} (f : A -> bool) n l : forallb f l = true -> forallb f (firstn n l) = true.
Proof.
  revert n. induction l as [|x r IH]; intros n H; destruct n; try reflexivity.
  cbn in *. apply andb_true_iff in H. destruct H as [Hx Hr]. rewrite Hx. cbn. apply IH. exact Hr.
Qed.

(* ---- id tables -------------------------------------------------------------------------------- *)
Lemma take_pad_app l x : take_pad (length l) (l ++ x) = l.
Proof. induction l as [|y r IH]; cbn; [reflexivity|]. rewrite IH. reflexivity. Qed.

Lemma take_pad_length l : take_pad (length l) l = l.
Proof. rewrite <- (app_nil_r l) at 2. apply take_pad_app. Qed.

Lemma set_at_length l a : set_at (length l) a l = l ++ [a].
Proof. induction l as [|y r IH]; cbn; [reflexivity|]. rewrite IH. reflexivity. Qed.

Lemma set_at_last l a b : set_at (length l) a (l ++ [b]) = l ++ [a].
Proof. induction l as [|y r IH]; cbn; [reflexivity|]. rewrite IH. reflexivity. Qed.

Lemma index_of_app_l a l x i : index_of a l = Some i -> index_of a (l ++ x) = Some i.
Proof.
  revert i. induction l as [|y r IH]; intros i; cbn; [discriminate|].
  destruct (y =? a); [trivial|]. destruct (index_of a r) as [j|] eqn:E; cbn; [|discriminate].
  intros H. rewrite (IH j eq_refl). exact H.
Qed.

Lemma index_of_app_new a l x : index_of a l = None -> index_of a (l ++ a :: x) = Some (length l).
Proof.
  induction l as [|y r IH]; cbn.
  - rewrite Z.eqb_refl. reflexivity.
  - destruct (y =? a); [discriminate|]. destruct (index_of a r) eqn:E; cbn; [discriminate|].
    intros _. rewrite (IH eq_refl). reflexivity.
Qed.

Definition mk (l : list Z) : tbl := {| t_ents := l; t_cnt := length l |}.
(* the tables on disk are exactly the caches: no entry beyond the counters *)
Definition ecl (e : edisk) (c : list Z * list Z) : Prop := forall addr, tbl_of addr e = mk (cget addr c).
Definition eload (e : edisk) : list Z * list Z := (tload (e_addr e), tload (e_pk e)).

Lemma cget_eload addr e : cget addr (eload e) = tload (tbl_of addr e).
Proof. destruct addr; reflexivity. Qed.

Lemma tload_mk l : tload (mk l) = l.
Proof. unfold tload, mk. cbn. apply take_pad_length. Qed.

Lemma ecl_eload e c : ecl e c -> eload e = c.
Proof.
  intros H. destruct c as [ca cp]. unfold eload.
  pose proof (H true) as Ha. pose proof (H false) as Hp. cbn in Ha, Hp. rewrite Ha, Hp, !tload_mk. reflexivity.
Qed.

Lemma tbl_of_with_same addr t e : tbl_of addr (with_tbl addr t e) = t.
Proof. destruct addr; reflexivity. Qed.
Lemma tbl_of_with_other addr addr' t e : addr' <> addr -> tbl_of addr' (with_tbl addr t e) = tbl_of addr' e.
Proof. destruct addr, addr'; try reflexivity; intros H; contradiction H; reflexivity. Qed.
Lemma cget_cset_same addr l c : cget addr (cset addr l c) = l.
Proof. destruct addr; reflexivity. Qed.
Lemma cget_cset_other addr addr' l c : addr' <> addr -> cget addr' (cset addr l c) = cget addr' c.
Proof. destruct addr, addr'; try reflexivity; intros H; contradiction H; reflexivity. Qed.

Lemma bool_dec2 (a b : bool) : a = b \/ a <> b.
Proof. destruct a, b; auto; right; discriminate. Qed.

(* one new key: both records written *)
Lemma ecl_new e c addr a :
  ecl e c ->
  ecl (evs [WEnt addr (length (cget addr c)) a; WCnt addr (S (length (cget addr c)))] e) (cset addr (cget addr c ++ [a]) c).
Proof.
  intros H addr'. unfold evs. cbn [fold_left apply_ev].
  destruct (bool_dec2 addr' addr) as [E|N].
  - subst addr'. rewrite !tbl_of_with_same. cbn [t_ents t_cnt]. rewrite cget_cset_same.
    rewrite (H addr). cbn [mk t_ents]. rewrite set_at_length. unfold mk. rewrite app_length. cbn [length].
    f_equal. lia.
  - rewrite !(tbl_of_with_other _ _ _ _ N). rewrite (cget_cset_other _ _ _ _ N). apply H.
Qed.

(* only the entry written, the counter not yet: invisible after a restart *)
Lemma eload_half e c addr a :
  ecl e c -> eload (evs [WEnt addr (length (cget addr c)) a] e) = c.
Proof.
  intros H. unfold evs. cbn [fold_left apply_ev].
  assert (G : forall addr', tload (tbl_of addr' (with_tbl addr {| t_ents := set_at (length (cget addr c)) a (t_ents (tbl_of addr e)); t_cnt := t_cnt (tbl_of addr e) |} e)) = cget addr' c).
  { intros addr'. destruct (bool_dec2 addr' addr) as [E|N].
    - subst addr'. rewrite tbl_of_with_same. rewrite (H addr). unfold tload. cbn [mk t_ents t_cnt].
      rewrite set_at_length. apply take_pad_app.
    - rewrite (tbl_of_with_other _ _ _ _ N), (H addr'). apply tload_mk. }
  unfold eload. destruct c as [ca cp].
  pose proof (G true) as Ga. pose proof (G false) as Gp. cbn [tbl_of cget fst snd] in Ga, Gp.
  change (e_addr ?x) with (tbl_of true x). change (e_pk ?x) with (tbl_of false x).
  cbn [tbl_of]. rewrite Ga, Gp. reflexivity.
Qed.

Lemma set_at_idem : forall n a l, set_at n a (set_at n a l) = set_at n a l.
Proof.
  induction n as [|n IH]; intros a l; destruct l as [|x r]; cbn; try reflexivity.
  - rewrite IH. reflexivity.
  - rewrite IH. reflexivity.
Qed.

Lemma apply_ev_ent_idem e addr pos a : apply_ev (apply_ev e (WEnt addr pos a)) (WEnt addr pos a) = apply_ev e (WEnt addr pos a).
Proof.
  cbn [apply_ev]. rewrite tbl_of_with_same. cbn [t_ents t_cnt]. rewrite set_at_idem.
  destruct addr; destruct e; reflexivity.
Qed.

Lemma apply_ev_height_idem e h ids : apply_ev (apply_ev e (WEvHeight h ids)) (WEvHeight h ids) = apply_ev e (WEvHeight h ids).
Proof. cbn [apply_ev e_addr e_pk e_heights]. rewrite aset_idem. reflexivity. Qed.

Lemma ecl_height e c h ids : ecl e c -> ecl (apply_ev e (WEvHeight h ids)) c.
Proof. intros H addr. specialize (H addr). destruct addr; exact H. Qed.

Lemma save_all_cons c addr a r :
  save_all c ((addr, a) :: r) =
  let '(c1, i, w) := save_key c addr a in
  let '(c2, ids, ws) := save_all c1 r in (c2, (addr, i) :: ids, w ++ ws).
Proof. reflexivity. Qed.

(* the caches of a process started on a prefix of the table writes extend the caches the block started from *)
Lemma ev_prefix : forall ms c e j c' ids ws,
  ecl e c -> save_all c ms = (c', ids, ws) ->
  forall addr, exists extra, tload (tbl_of addr (evs (firstn j ws) e)) = cget addr c ++ extra.
Proof.
  induction ms as [|[a0 a] r IH]; intros c e j c' ids ws He Hs addr.
  - cbn in Hs. inversion Hs. subst. rewrite firstn_nil. exists []. unfold evs. cbn [fold_left].
    rewrite (He addr), tload_mk, app_nil_r. reflexivity.
  - rewrite save_all_cons in Hs. unfold save_key in Hs.
    destruct (index_of a (cget a0 c)) as [i0|] eqn:Ei.
    + destruct (save_all c r) as [[c2 ids2] ws2] eqn:Er. injection Hs as E1 E2 E3. subst c' ids ws. cbn [app].
      exact (IH c e j c2 ids2 ws2 He Er addr).
    + destruct (save_all (cset a0 (cget a0 c ++ [a]) c) r) as [[c2 ids2] ws2] eqn:Er. injection Hs as E1 E2 E3. subst c' ids ws.
      cbn [app]. destruct j as [|[|j']].
      * exists []. cbn [firstn]. unfold evs. cbn [fold_left]. rewrite (He addr), tload_mk, app_nil_r. reflexivity.
      * exists []. cbn [firstn]. rewrite <- cget_eload, (eload_half e c a0 a He), app_nil_r. reflexivity.
      * cbn [firstn].
        change (evs (WEnt a0 (length (cget a0 c)) a :: WCnt a0 (S (length (cget a0 c))) :: firstn j' ws2) e)
          with (evs (firstn j' ws2) (evs [WEnt a0 (length (cget a0 c)) a; WCnt a0 (S (length (cget a0 c)))] e)).
        destruct (IH _ _ j' _ _ _ (ecl_new e c a0 a He) Er addr) as [extra Hx].
        rewrite Hx. destruct (bool_dec2 addr a0) as [E|N].
        -- subst addr. rewrite cget_cset_same, <- app_assoc. exists ([a] ++ extra). reflexivity.
        -- rewrite (cget_cset_other _ _ _ _ N). exists extra. reflexivity.
Qed.

(* replaying the table writes of a block on any prefix of them: same ids, same caches, same disk *)
Lemma ev_replay : forall ms c e j c' ids ws,
  ecl e c -> save_all c ms = (c', ids, ws) ->
  exists ws', save_all (eload (evs (firstn j ws) e)) ms = (c', ids, ws') /\
              evs ws' (evs (firstn j ws) e) = evs ws e /\ ecl (evs ws e) c'.
Proof.
  induction ms as [|[a0 a] r IH]; intros c e j c' ids ws He Hs.
  - cbn in Hs. inversion Hs. subst. rewrite firstn_nil. unfold evs. cbn [fold_left].
    exists []. rewrite (ecl_eload _ _ He). cbn. repeat split; try reflexivity. exact He.
  - pose proof (ev_prefix _ _ _ j _ _ _ He Hs a0) as [extra Hpre].
    rewrite save_all_cons in Hs. unfold save_key in Hs.
    destruct (index_of a (cget a0 c)) as [i0|] eqn:Ei.
    + destruct (save_all c r) as [[c2 ids2] ws2] eqn:Er. injection Hs as E1 E2 E3. subst c' ids ws. cbn [app] in *.
      destruct (IH c e j c2 ids2 ws2 He Er) as (ws' & R1 & R2 & R3).
      exists ws'. split; [|split; assumption].
      rewrite save_all_cons. unfold save_key. rewrite cget_eload, Hpre, (index_of_app_l _ _ _ _ Ei), R1. reflexivity.
    + destruct (save_all (cset a0 (cget a0 c ++ [a]) c) r) as [[c2 ids2] ws2] eqn:Er. injection Hs as E1 E2 E3. subst c' ids ws.
      cbn [app] in *.
      set (w1 := WEnt a0 (length (cget a0 c)) a) in *. set (w2 := WCnt a0 (S (length (cget a0 c)))) in *.
      pose proof (ecl_new e c a0 a He) as He1. fold w1 w2 in He1.
      assert (Hfull : evs (w1 :: w2 :: ws2) e = evs ws2 (evs [w1; w2] e)) by reflexivity.
      destruct j as [|[|j']].
      * cbn [firstn]. change (evs [] e) with e. rewrite (ecl_eload _ _ He).
        exists (w1 :: w2 :: ws2). split; [|split; [reflexivity|]].
        -- rewrite save_all_cons. unfold save_key. rewrite Ei. fold w1 w2. rewrite Er. reflexivity.
        -- rewrite Hfull. destruct (IH _ _ O _ _ _ He1 Er) as (_ & _ & _ & R3). exact R3.
      * cbn [firstn]. unfold w1 at 1 2. rewrite (eload_half e c a0 a He). fold w1.
        exists (w1 :: w2 :: ws2). split; [|split].
        -- rewrite save_all_cons. unfold save_key. rewrite Ei. fold w1 w2. rewrite Er. reflexivity.
        -- unfold evs, w1. cbn [fold_left]. rewrite apply_ev_ent_idem. reflexivity.
        -- rewrite Hfull. destruct (IH _ _ O _ _ _ He1 Er) as (_ & _ & _ & R3). exact R3.
      * cbn [firstn] in *.
        change (evs (w1 :: w2 :: firstn j' ws2) e) with (evs (firstn j' ws2) (evs [w1; w2] e)) in *.
        destruct (IH _ _ j' _ _ _ He1 Er) as (ws' & R1 & R2 & R3).
        exists ws'. split; [|split].
        -- rewrite save_all_cons. unfold save_key.
           pose proof (ev_prefix _ _ _ j' _ _ _ He1 Er a0) as [extra2 Hp2].
           rewrite cget_cset_same, <- app_assoc in Hp2. cbn [app] in Hp2.
           rewrite cget_eload, Hp2, (index_of_app_new _ _ _ Ei), R1. reflexivity.
        -- rewrite R2. symmetry. exact Hfull.
        -- rewrite Hfull. exact R3.
Qed.

(* saving the same keys again: nothing to write, the same ids *)
Lemma save_all_prefix : forall ms c c' ids ws,
  save_all c ms = (c', ids, ws) -> forall addr, exists extra, cget addr c' = cget addr c ++ extra.
Proof.
  induction ms as [|[a0 a] r IH]; intros c c' ids ws Hs addr.
  - cbn in Hs. inversion Hs. subst. exists []. rewrite app_nil_r. reflexivity.
  - rewrite save_all_cons in Hs. unfold save_key in Hs.
    destruct (index_of a (cget a0 c)) as [i0|] eqn:Ei.
    + destruct (save_all c r) as [[c2 ids2] ws2] eqn:Er. injection Hs as E1 E2 E3. subst c' ids ws. exact (IH _ _ _ _ Er addr).
    + destruct (save_all (cset a0 (cget a0 c ++ [a]) c) r) as [[c2 ids2] ws2] eqn:Er. injection Hs as E1 E2 E3. subst c' ids ws.
      destruct (IH _ _ _ _ Er addr) as [extra Hx]. rewrite Hx.
      destruct (bool_dec2 addr a0) as [E|N].
      * subst addr. rewrite cget_cset_same, <- app_assoc. exists ([a] ++ extra). reflexivity.
      * rewrite (cget_cset_other _ _ _ _ N). exists extra. reflexivity.
Qed.

Lemma save_all_again : forall ms c c' ids ws,
  save_all c ms = (c', ids, ws) -> save_all c' ms = (c', ids, []).
Proof.
  induction ms as [|[a0 a] r IH]; intros c c' ids ws Hs.
  - cbn in Hs. inversion Hs. subst. reflexivity.
  - rewrite save_all_cons in Hs. unfold save_key in Hs.
    destruct (index_of a (cget a0 c)) as [i0|] eqn:Ei.
    + destruct (save_all c r) as [[c2 ids2] ws2] eqn:Er. injection Hs as E1 E2 E3. subst c' ids ws.
      destruct (save_all_prefix _ _ _ _ _ Er a0) as [extra Hx].
      rewrite save_all_cons. unfold save_key. rewrite Hx, (index_of_app_l _ _ _ _ Ei), (IH _ _ _ _ Er). reflexivity.
    + destruct (save_all (cset a0 (cget a0 c ++ [a]) c) r) as [[c2 ids2] ws2] eqn:Er. injection Hs as E1 E2 E3. subst c' ids ws.
      destruct (save_all_prefix _ _ _ _ _ Er a0) as [extra Hx].
      rewrite cget_cset_same, <- app_assoc in Hx. cbn [app] in Hx.
      rewrite save_all_cons. unfold save_key. rewrite Hx, (index_of_app_new _ _ _ Ei), (IH _ _ _ _ Er). reflexivity.
Qed.

(* CommitEvents as a whole (table writes, then the record of the height) *)
Lemma ev_full : forall ms c e je c' ids ws h,
  ecl e c -> save_all c ms = (c', ids, ws) ->
  let wevs := ws ++ [WEvHeight h ids] in
  exists ws', save_all (eload (evs (firstn je wevs) e)) ms = (c', ids, ws') /\
              evs (ws' ++ [WEvHeight h ids]) (evs (firstn je wevs) e) = evs wevs e /\ ecl (evs wevs e) c'.
Proof.
  intros ms c e je c' ids ws h He Hs wevs.
  destruct (ev_replay ms c e je c' ids ws He Hs) as (ws' & R1 & R2 & R3).
  assert (Hcl : ecl (evs wevs e) c').
  { unfold wevs. rewrite evs_app. unfold evs at 1. cbn [fold_left]. apply ecl_height. exact R3. }
  destruct (Nat.le_gt_cases je (length ws)) as [L|G].
  - exists ws'. unfold wevs. rewrite firstn_app. replace (je - length ws)%nat with O by lia.
    cbn [firstn]. rewrite app_nil_r. split; [exact R1|]. split; [|exact Hcl].
    rewrite !evs_app, R2. reflexivity.
  - exists []. unfold wevs in *. rewrite firstn_all2 by (rewrite app_length; cbn; lia).
    rewrite (ecl_eload _ _ Hcl). split; [exact (save_all_again _ _ _ _ _ Hs)|]. split; [|exact Hcl].
    cbn [app]. rewrite evs_app. unfold evs at 1 3. cbn [fold_left]. apply apply_ev_height_idem.
Qed.

(* ---- the state database ----------------------------------------------------------------------- *)
Section Tree.
Variable keep : Z.

(* the tree writes of an ordinary Commit: the version is new *)
Definition tree_ws (t : list (Z * Z)) (start ver content : Z) : list write :=
  [WTreeSave ver content] ++
  (if (start <=? ver - keep - 1) && is_some (aget (ver - keep - 1) t) then [WTreeDelete (ver - keep - 1)] else []).

Lemma tree_writes_fresh d start p :
  aget (p_ver p) (cd_tree d) = None ->
  tree_writes keep d start p = Val (tree_ws (cd_tree d) start (p_ver p) (p_content p)).
Proof. intros H. unfold tree_writes, tree_ws. rewrite H. reflexivity. Qed.

(* replay on a prefix of the tree writes *)
Lemma tree_replay t start p jt d' :
  1 <= keep -> aget (p_ver p) t = None ->
  cd_tree d' = trs (firstn jt (tree_ws t start (p_ver p) (p_content p))) t ->
  exists wt, tree_writes keep d' start p = Val wt /\ trs wt (cd_tree d') = trs (tree_ws t start (p_ver p) (p_content p)) t /\
             forallb is_trw wt = true.
Proof.
  intros K Hf Hd. set (ver := p_ver p) in *. set (c := p_content p) in *.
  set (vdel := ver - keep - 1). assert (Hne : vdel <> ver) by (unfold vdel; lia).
  unfold tree_writes. fold ver c. unfold tree_ws in *. fold vdel in Hd |- *.
  destruct jt as [|jt].
  - cbn [firstn] in Hd. change (trs [] t) with t in Hd. rewrite Hd, Hf. cbn [obind].
    eexists. split; [reflexivity|]. split; [reflexivity|].
    destruct ((start <=? vdel) && is_some (aget vdel t)); reflexivity.
  - destruct ((start <=? vdel) && is_some (aget vdel t)) eqn:Ed.
    + (* [save; delete] *)
      destruct jt as [|jt].
      * cbn [app firstn] in Hd. unfold trs in Hd. cbn [fold_left apply_tree] in Hd.
        rewrite Hd, aget_aset_same, Z.eqb_refl. cbn [obind app].
        rewrite (aget_aset_other _ _ _ _ Hne), Ed.
        eexists. split; [reflexivity|]. split; reflexivity.
      * cbn [app firstn] in Hd. rewrite firstn_nil in Hd. unfold trs in Hd. cbn [fold_left apply_tree] in Hd.
        assert (Hv : aget ver (cd_tree d') = Some c).
        { rewrite Hd, (aget_adel_other _ _ _ (not_eq_sym Hne)). apply aget_aset_same. }
        rewrite Hv, Z.eqb_refl. cbn [obind app].
        assert (Hx : aget vdel (cd_tree d') = None) by (rewrite Hd; apply aget_adel_same).
        rewrite Hx. cbn [is_some]. rewrite andb_false_r.
        eexists. split; [reflexivity|]. split; [|reflexivity].
        unfold trs. cbn [fold_left apply_tree app]. exact Hd.
    + (* [save] *)
      cbn [app firstn] in Hd. rewrite firstn_nil in Hd. unfold trs in Hd. cbn [fold_left apply_tree] in Hd.
      rewrite Hd, aget_aset_same, Z.eqb_refl. cbn [obind app].
      rewrite (aget_aset_other _ _ _ _ Hne), Ed.
      eexists. split; [reflexivity|]. split; reflexivity.
Qed.

(* the version the crashed node loads is still there *)
Lemma tree_prefix_keeps t start ver content jt h :
  1 <= keep -> ver = h + 1 ->
  aget h (trs (firstn jt (tree_ws t start ver content)) t) = aget h t.
Proof.
  intros K Hv. unfold tree_ws.
  assert (N1 : h <> ver) by lia. assert (N2 : h <> ver - keep - 1) by lia.
  destruct ((start <=? ver - keep - 1) && is_some (aget (ver - keep - 1) t)); destruct jt as [|[|jt]]; cbn [app firstn]; try rewrite firstn_nil;
    unfold trs; cbn [fold_left apply_tree]; try reflexivity;
    try rewrite (aget_adel_other _ _ _ N2); rewrite (aget_aset_other _ _ _ _ N1); reflexivity.
Qed.

Lemma tree_ws_after t start ver content v :
  1 <= keep ->
  aget v (trs (tree_ws t start ver content) t) =
  if v =? ver then Some content
  else if (v =? ver - keep - 1) && (start <=? ver - keep - 1) then None else aget v t.
Proof.
  intros K. unfold tree_ws. assert (Hne : ver - keep - 1 <> ver) by lia.
  destruct (Z.eqb_spec v ver) as [E|N].
  - subst v. destruct ((start <=? ver - keep - 1) && is_some (aget (ver - keep - 1) t));
      unfold trs; cbn [app fold_left apply_tree]; try rewrite (aget_adel_other _ _ _ (not_eq_sym Hne)); apply aget_aset_same.
  - destruct (Z.eqb_spec v (ver - keep - 1)) as [E2|N2]; cbn [andb].
    + subst v. destruct (start <=? ver - keep - 1) eqn:Es; cbn [andb].
      * destruct (aget (ver - keep - 1) t) eqn:Eg; cbn [is_some]; unfold trs; cbn [app fold_left apply_tree].
        -- apply aget_adel_same.
        -- rewrite (aget_aset_other _ _ _ _ N). exact Eg.
      * unfold trs; cbn [app fold_left apply_tree]. apply aget_aset_other. exact N.
    + destruct ((start <=? ver - keep - 1) && is_some (aget (ver - keep - 1) t));
        unfold trs; cbn [app fold_left apply_tree]; try rewrite (aget_adel_other _ _ _ N2); apply aget_aset_other; exact N.
Qed.
End Tree.
