(* PersistFacts.v — a restarted appdb is observationally equal to one that never stopped. *)
From Minter Require Import Base Persist.
From Coq Require Import ZArith Lia List Bool.
Import ListNotations.
Open Scope Z_scope.

(* everything the caches hold is on disk: dropping them changes no getter *)
Definition coherent (s : st) : Prop := view_of (restart s) = view_of s.

Lemma view_eq_intro (a b : view) :
  v_height a = v_height b -> v_start a = v_start b -> v_hash a = v_hash b -> v_vals a = v_vals b ->
  v_times a = v_times b -> v_versions a = v_versions b -> v_emission a = v_emission b ->
  v_price a = v_price b -> a = b.
Proof. destruct a, b; cbn; intros; subst; reflexivity. Qed.

(* well-formed: a height was committed (heights are positive), times are non-empty after a block *)
Definition wf (s : st) : Prop :=
  let '(d, m) := s in
  (m_start m = 0 \/ d_start d = Some (m_start m)).

(* view-level semantics of the setters: the new view is a function of the old view *)
Definition vapply (v : view) (o : setop) : view :=
  match o with
  | SetVals l => {| v_height := v_height v; v_start := v_start v; v_hash := v_hash v; v_vals := l;
                    v_times := v_times v; v_versions := v_versions v; v_emission := v_emission v; v_price := v_price v |}
  | AddTime t => {| v_height := v_height v; v_start := v_start v; v_hash := v_hash v; v_vals := v_vals v;
                    v_times := last4 (v_times v ++ [t]); v_versions := v_versions v; v_emission := v_emission v; v_price := v_price v |}
  | AddVersion n h => {| v_height := v_height v; v_start := v_start v; v_hash := v_hash v; v_vals := v_vals v;
                    v_times := v_times v; v_versions := v_versions v ++ [(n, h)]; v_emission := v_emission v; v_price := v_price v |}
  | SetEmission e => {| v_height := v_height v; v_start := v_start v; v_hash := v_hash v; v_vals := v_vals v;
                    v_times := v_times v; v_versions := v_versions v; v_emission := Some e; v_price := v_price v |}
  | SetPrice p => {| v_height := v_height v; v_start := v_start v; v_hash := v_hash v; v_vals := v_vals v;
                    v_times := v_times v; v_versions := v_versions v; v_emission := v_emission v; v_price := Some p |}
  end.

Lemma last4_nonempty l t : last4 (l ++ [t]) <> [].
Proof.
  unfold last4. rewrite app_length. cbn [length].
  intros E. apply (f_equal (@length Z)) in E. rewrite skipn_length, app_length in E. cbn in E. lia.
Qed.

Lemma nonempty_match {A} (l dflt : list A) : l <> [] -> match l with [] => dflt | z :: l0 => z :: l0 end = l.
Proof. destruct l; [contradiction|reflexivity]. Qed.

Lemma app_one_nonempty {A} (l : list A) x : l ++ [x] <> [].
Proof. destruct l; discriminate. Qed.

Lemma view_apply_set s o : view_of (apply_set s o) = vapply (view_of s) o.
Proof.
  destruct s as [d m]. destruct o; unfold apply_set; apply view_eq_intro; unfold view_of, vapply;
    cbn [v_height v_start v_hash v_vals v_times v_versions v_emission v_price]; try reflexivity.
  - (* times after AddTime *)
    unfold get_times at 1. cbn [upd_mem m_times]. apply nonempty_match, last4_nonempty.
  - (* versions after AddVersion *)
    unfold get_versions at 1. cbn [upd_mem m_versions]. apply nonempty_match, app_one_nonempty.
Qed.

Lemma run_steps_view : forall steps s1 s2,
  view_of s1 = view_of s2 -> view_of (run_steps s1 steps) = view_of (run_steps s2 steps).
Proof.
  induction steps as [|f rest IH]; intros s1 s2 E; cbn [run_steps]; [exact E|].
  apply IH. rewrite E. destruct (f (view_of s2)); [|exact E].
  rewrite !view_apply_set, E. reflexivity.
Qed.

(* the times cache is non-empty once AddBlocksTime ran, and stays so *)
Definition times_loaded (s : st) : Prop := m_times (snd s) <> [].

Lemma apply_set_times_loaded s o : times_loaded s -> times_loaded (apply_set s o).
Proof.
  destruct s as [d m]; unfold times_loaded; destruct o; cbn; auto.
  intros _. apply last4_nonempty.
Qed.

Lemma run_steps_times_loaded : forall steps s, times_loaded s -> times_loaded (run_steps s steps).
Proof.
  induction steps as [|f rest IH]; intros s H; cbn [run_steps]; [exact H|].
  apply IH. destruct (f (view_of s)); [apply apply_set_times_loaded; exact H|exact H].
Qed.

(* invariants of the dirty flags: a set flag means the cache holds the value *)
Definition flags_ok (s : st) : Prop :=
  let m := snd s in
  (m_dirtyE m = false -> m_emission m = None \/ d_emission (fst s) = m_emission m) /\
  (m_dirtyP m = false -> m_price m = None) /\
  (m_dirtyV m = false -> m_versions m = [] \/ d_versions (fst s) = Some (m_versions m)) /\
  (m_start m = 0 \/ d_start (fst s) = Some (m_start m)) /\
  (m_height m = 0 \/ d_height (fst s) = Some (m_height m)) /\
  (m_dirtyV m = true -> m_versions m <> []).

Lemma apply_set_flags_ok s o : flags_ok s -> flags_ok (apply_set s o).
Proof.
  destruct s as [d m]. unfold flags_ok. cbn [fst snd].
  intros (A & B & C & D & E & F).
  destruct o; cbn; repeat split; auto; try discriminate.
  intros _. apply app_one_nonempty.
Qed.

Lemma run_steps_flags_ok : forall steps s, flags_ok s -> flags_ok (run_steps s steps).
Proof.
  induction steps as [|f rest IH]; intros s H; cbn [run_steps]; [exact H|].
  apply IH. destruct (f (view_of s)); [apply apply_set_flags_ok; exact H|exact H].
Qed.

(* the view after Commit, as a function of the view before and the commit arguments *)
Definition vcommit (v : view) (h hash : Z) : view :=
  {| v_height := h; v_start := v_start v; v_hash := Some hash; v_vals := v_vals v; v_times := v_times v;
     v_versions := v_versions v; v_emission := v_emission v; v_price := v_price v |}.

Lemma commit_view s h hash :
  h <> 0 -> times_loaded s -> flags_ok s -> view_of (commit true s h hash) = vcommit (view_of s) h hash.
Proof.
  intros Hh Ht HF. destruct s as [d m]. destruct m as [mh ms mv mt mver dV me dE mp dP].
  unfold times_loaded in Ht. cbn in Ht.
  destruct mt as [|t0 mt]; [contradiction|].
  destruct HF as (_ & _ & _ & _ & _ & FN). cbn in FN.
  unfold commit, view_of, vcommit, get_height, get_start, get_hash, get_vals, get_times, get_versions, get_emission, get_price.
  destruct mv; destruct dV; destruct dE; destruct dP; cbn;
    (destruct (Z.eqb_spec h 0); [contradiction|]);
    destruct mver; destruct me; destruct mp; try reflexivity; exfalso; apply FN; reflexivity.
Qed.

(* after Commit everything in the caches is on disk *)
Lemma commit_coherent s h hash :
  h <> 0 -> times_loaded s -> flags_ok s ->
  coherent (commit true s h hash) /\ flags_ok (commit true s h hash) /\ times_loaded (commit true s h hash).
Proof.
  intros Hh Ht HF. destruct s as [d m]. destruct m as [mh ms mv mt mver dV me dE mp dP].
  unfold times_loaded in *. cbn in Ht.
  destruct mt as [|t0 mt]; [contradiction|].
  unfold flags_ok in HF. cbn in HF. destruct HF as (FE & FP & FV & FS & FH & FN).
  split; [|split].
  - unfold coherent, restart, commit, view_of, get_height, get_start, get_hash, get_vals, get_times, get_versions, get_emission, get_price.
    destruct mv; destruct dV; destruct dE; destruct dP; destruct mver; destruct me; destruct mp; cbn;
      (destruct (Z.eqb_spec h 0); [contradiction|]);
      (destruct (Z.eqb_spec ms 0) as [E0|N0];
        [|destruct FS as [FS|FS]; [contradiction|rewrite FS]]);
      cbn; try reflexivity;
      repeat match goal with
      | H : ?a = ?a -> _ |- _ => specialize (H eq_refl)
      | H : true = false -> _ |- _ => clear H
      | H : false = true -> _ |- _ => clear H
      | H : _ \/ _ |- _ => destruct H
      | H : d_versions _ = _ |- _ => rewrite H
      | H : d_emission _ = _ |- _ => rewrite H
      end; cbn; try reflexivity; try discriminate; try (exfalso; apply FN; reflexivity).
  - unfold flags_ok, commit. cbn.
    destruct mv; destruct dV; destruct dE; destruct dP; cbn;
      repeat split; intros; auto; try discriminate;
      try (destruct me; auto; fail); try (destruct mver; auto; fail).
  - unfold times_loaded, commit.
    destruct mv; destruct dV; destruct dE; destruct dP; cbn; discriminate.
Qed.

(* ---- histories ---------------------------------------------------------------------------- *)
Definition good (s : st) : Prop := coherent s /\ flags_ok s /\ 0 <= v_height (view_of s).

Lemma restart_good s : good s -> good (restart s) /\ view_of (restart s) = view_of s.
Proof.
  intros (C & F & H). split; [|exact C].
  split; [|split].
  - unfold coherent. destruct s; reflexivity.
  - destruct s as [d m]. unfold flags_ok, restart. cbn. repeat split; auto; discriminate.
  - rewrite C. exact H.
Qed.

Lemma iter_restart_good : forall k s, good s -> good (iter_restart k s) /\ view_of (iter_restart k s) = view_of s.
Proof.
  induction k as [|k IH]; intros s G; cbn [iter_restart]; [split; [exact G|reflexivity]|].
  destruct (restart_good s G) as [G' E]. destruct (IH (restart s) G') as [G'' E'].
  split; [exact G''|]. rewrite E', E. reflexivity.
Qed.

Lemma run_block_good s1 s2 b :
  view_of s1 = view_of s2 -> good s1 -> good s2 ->
  view_of (run_block true s1 b) = view_of (run_block true s2 b) /\
  good (run_block true s1 b) /\ good (run_block true s2 b).
Proof.
  intros E (C1 & F1 & H1) (C2 & F2 & H2). unfold run_block.
  set (a1 := apply_set s1 (AddTime (b_time b))). set (a2 := apply_set s2 (AddTime (b_time b))).
  assert (Ea : view_of a1 = view_of a2) by (unfold a1, a2; rewrite !view_apply_set, E; reflexivity).
  assert (T1 : times_loaded a1) by (unfold a1, times_loaded; destruct s1; cbn; apply last4_nonempty).
  assert (T2 : times_loaded a2) by (unfold a2, times_loaded; destruct s2; cbn; apply last4_nonempty).
  assert (FA1 : flags_ok a1) by (apply apply_set_flags_ok; exact F1).
  assert (FA2 : flags_ok a2) by (apply apply_set_flags_ok; exact F2).
  set (r1 := run_steps a1 (b_steps b)). set (r2 := run_steps a2 (b_steps b)).
  assert (Er : view_of r1 = view_of r2) by (apply run_steps_view; exact Ea).
  assert (TR1 : times_loaded r1) by (apply run_steps_times_loaded; exact T1).
  assert (TR2 : times_loaded r2) by (apply run_steps_times_loaded; exact T2).
  assert (FR1 : flags_ok r1) by (apply run_steps_flags_ok; exact FA1).
  assert (FR2 : flags_ok r2) by (apply run_steps_flags_ok; exact FA2).
  (* the height is never touched by the setters *)
  assert (Hh : forall s o, v_height (view_of (apply_set s o)) = v_height (view_of s)).
  { intros s o. rewrite view_apply_set. destruct o; reflexivity. }
  assert (Hsteps : forall steps s, v_height (view_of (run_steps s steps)) = v_height (view_of s)).
  { induction steps as [|f rest IH]; intros s; cbn [run_steps]; [reflexivity|].
    rewrite IH. destruct (f (view_of s)); [apply Hh|reflexivity]. }
  assert (G1 : 0 <= get_height r1).
  { change (get_height r1) with (v_height (view_of r1)). unfold r1. rewrite Hsteps. unfold a1. rewrite Hh. exact H1. }
  assert (G2 : 0 <= get_height r2).
  { change (get_height r2) with (v_height (view_of r2)). unfold r2. rewrite Hsteps. unfold a2. rewrite Hh. exact H2. }
  assert (Eh : get_height r1 = get_height r2).
  { change (v_height (view_of r1) = v_height (view_of r2)). rewrite Er. reflexivity. }
  destruct (commit_coherent r1 (get_height r1 + 1) (b_hash b (view_of r1)) ltac:(lia) TR1 FR1) as (CC1 & CF1 & _).
  destruct (commit_coherent r2 (get_height r2 + 1) (b_hash b (view_of r2)) ltac:(lia) TR2 FR2) as (CC2 & CF2 & _).
  pose proof (commit_view r1 (get_height r1 + 1) (b_hash b (view_of r1)) ltac:(lia) TR1 FR1) as V1.
  pose proof (commit_view r2 (get_height r2 + 1) (b_hash b (view_of r2)) ltac:(lia) TR2 FR2) as V2.
  split; [rewrite V1, V2, Er, Eh; reflexivity|].
  split; (split; [assumption|split; [assumption|]]).
  - rewrite V1. cbn. lia.
  - rewrite V2. cbn. lia.
Qed.

(* the restart theorem on the appdb layer: every view after every block, and the final
   view, are the same with restarts (any number, after any blocks) as without *)
Lemma run_hist_restarts : forall h s1 s2,
  view_of s1 = view_of s2 -> good s1 -> good s2 ->
  snd (run_hist true s1 h) = snd (run_hist true s2 (no_restarts h)) /\
  view_of (fst (run_hist true s1 h)) = view_of (fst (run_hist true s2 (no_restarts h))).
Proof.
  induction h as [|[b k] rest IH]; intros s1 s2 E G1 G2.
  - cbn. split; [reflexivity|exact E].
  - change (no_restarts ((b, k) :: rest)) with ((b, O) :: no_restarts rest).
    cbn [run_hist iter_restart].
    destruct (run_block_good s1 s2 b E G1 G2) as (Eb & GB1 & GB2).
    destruct (iter_restart_good k _ GB1) as (GR & ER).
    specialize (IH (iter_restart k (run_block true s1 b)) (run_block true s2 b) ltac:(rewrite ER; exact Eb) GR GB2).
    destruct (run_hist true (iter_restart k (run_block true s1 b)) rest) as [sf1 vs1].
    destruct (run_hist true (run_block true s2 b) (no_restarts rest)) as [sf2 vs2].
    cbn [fst snd] in *. destruct IH as [IH1 IH2].
    split; [|exact IH2]. rewrite ER, Eb, IH1. reflexivity.
Qed.
