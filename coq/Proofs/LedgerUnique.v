(* LedgerUnique.v — C22: active tickers (version 0) are unique along every history of the ledger model,
   as long as no ticker's version counter wraps around (uint16). *)
From Minter Require Import Base Ledger LedgerFacts LedgerTx LedgerProps LedgerCons LedgerReg.
From Coq Require Import ZArith List Bool Lia.
Import ListNotations.
Open Scope Z_scope.

Definition act (sym : Z) (c : coinrec) : bool := (c_sym c =? sym) && (c_ver c =? 0).
Definition count_active (l : list coinrec) (sym : Z) : nat := length (filter (act sym) l).

(* the registry invariant: ids are distinct and at most the counter, at most one active coin per ticker *)
Definition uinv (s : st) : Prop :=
  NoDup (map c_id (s_coins s)) /\ ids_bounded s /\ forall sym, (count_active (s_coins s) sym <= 1)%nat.

Definition eff_ok (s : st) (e : eff) : Prop :=
  match e with
  | ENewCoin r => s_ncoins s < c_id r /\ c_ver r = 0 /\ count_active (s_coins s) (c_sym r) = 0%nat
  | EVersion c v => v <> 0
  | _ => True
  end.

Fixpoint effs_ok (s : st) (l : list eff) : Prop :=
  match l with [] => True | e :: l' => eff_ok s e /\ effs_ok (apply_eff s e) l' end.

Lemma upd_coin_count_same l id f sym :
  (forall r, c_sym (f r) = c_sym r /\ c_ver (f r) = c_ver r) ->
  count_active (upd_coin l id f) sym = count_active l sym.
Proof.
  intros Hf. unfold count_active. induction l as [|r l IH]; [reflexivity|].
  cbn [upd_coin]. destruct (c_id r =? id).
  - cbn [filter]. assert (E : act sym (f r) = act sym r) by (unfold act; destruct (Hf r) as [-> ->]; reflexivity).
    rewrite E. destruct (act sym r); reflexivity.
  - cbn [filter]. destruct (act sym r); cbn [length]; rewrite IH; reflexivity.
Qed.

Lemma upd_coin_count_le l id v sym :
  v <> 0 ->
  (count_active (upd_coin l id (fun r => {| c_id := c_id r; c_sym := c_sym r; c_ver := v; c_vol := c_vol r;
                                          c_max := c_max r; c_mint := c_mint r; c_burn := c_burn r |})) sym
   <= count_active l sym)%nat.
Proof.
  intros Hv. unfold count_active. induction l as [|r l IH]; [cbn; lia|].
  cbn [upd_coin]. destruct (c_id r =? id).
  - cbn [filter]. unfold act at 1. cbn [c_sym c_ver]. destruct (Z.eqb_spec v 0) as [->|_]; [congruence|].
    rewrite andb_false_r. destruct (act sym r); cbn [length]; lia.
  - cbn [filter]. destruct (act sym r); cbn [length]; lia.
Qed.

Lemma NoDup_snocZ (l : list Z) x : NoDup l -> ~ In x l -> NoDup (l ++ [x]).
Proof.
  induction l as [|a l IH]; intros Hn Hx; [constructor; [intros []|constructor]|].
  inversion Hn as [|? ? Ha Hl]; subst. cbn [app]. constructor.
  - intros Hin. apply in_app_or in Hin. destruct Hin as [Hin|[->|[]]]; [exact (Ha Hin)|apply Hx; left; reflexivity].
  - apply IH; [exact Hl|]. intros Hin. apply Hx. right. exact Hin.
Qed.

Lemma apply_eff_uinv s e : uinv s -> eff_ok s e -> uinv (apply_eff s e).
Proof.
  intros (Hn & Hb & Hc) He. destruct e; cbn [eff_ok] in He;
    try (split; [exact Hn|split; [exact Hb|exact Hc]]).
  - (* EVol *) cbn [apply_eff]. unfold uinv, ids_bounded. cbn [set_coins s_coins s_ncoins].
    split; [rewrite upd_coin_ids by reflexivity; exact Hn|]. split.
    + intros r Hr. apply (in_map c_id) in Hr. rewrite upd_coin_ids in Hr by reflexivity.
      apply in_map_iff in Hr. destruct Hr as (r0 & <- & Hr0). apply Hb. exact Hr0.
    + intros sym. rewrite upd_coin_count_same; [apply Hc|]. intros r0. split; reflexivity.
  - (* ENewCoin *) destruct He as (H1 & H2 & H3). cbn [apply_eff]. unfold uinv, ids_bounded. cbn [s_coins s_ncoins].
    split; [|split].
    + rewrite map_app. cbn [map]. apply NoDup_snocZ; [exact Hn|]. intros Hin. apply in_map_iff in Hin.
      destruct Hin as (r0 & E & Hr0). pose proof (Hb r0 Hr0). lia.
    + intros r0 Hr0. apply in_app_or in Hr0. destruct Hr0 as [Hr0|[<-|[]]]; [|lia]. pose proof (Hb r0 Hr0). lia.
    + intros sym. unfold count_active in *. rewrite filter_app, app_length. cbn [filter].
      destruct (act sym r) eqn:Ea; cbn [length]; [|pose proof (Hc sym); lia].
      unfold act in Ea. apply andb_true_iff in Ea. destruct Ea as [Ea _]. apply Z.eqb_eq in Ea. subst sym. rewrite H3. lia.
  - (* EVersion *) cbn [apply_eff]. unfold uinv, ids_bounded. cbn [set_coins s_coins s_ncoins].
    split; [rewrite upd_coin_ids by reflexivity; exact Hn|]. split.
    + intros r Hr. apply (in_map c_id) in Hr. rewrite upd_coin_ids in Hr by reflexivity.
      apply in_map_iff in Hr. destruct Hr as (r0 & <- & Hr0). apply Hb. exact Hr0.
    + intros sym. pose proof (upd_coin_count_le (s_coins s) c v sym He). pose proof (Hc sym). lia.
Qed.

Lemma effs_ok_uinv : forall l s, uinv s -> effs_ok s l -> uinv (apply_effs s l).
Proof.
  induction l as [|e l IH]; intros s Hu Ho; [exact Hu|].
  destruct Ho as [H1 H2]. rewrite apply_effs_cons. apply IH; [apply apply_eff_uinv; assumption|exact H2].
Qed.

(* effect lists that do not touch the registry *)
Definition plain_eff (e : eff) : bool := match e with ENewCoin _ | EVersion _ _ => false | _ => true end.

Lemma plain_effs_ok : forall l s, forallb plain_eff l = true -> effs_ok s l.
Proof.
  induction l as [|e l IH]; intros s H; [exact I|]. cbn [forallb] in H. apply andb_true_iff in H. destruct H as [H1 H2].
  split; [destruct e; try exact I; discriminate|apply IH; exact H2].
Qed.

Lemma effs_ok_app : forall l1 l2 s, effs_ok s l1 -> effs_ok (apply_effs s l1) l2 -> effs_ok s (l1 ++ l2).
Proof.
  induction l1 as [|e l1 IH]; intros l2 s H1 H2; [exact H2|]. destruct H1 as [A B]. cbn [app effs_ok]. split; [exact A|].
  apply IH; [exact B|]. rewrite apply_effs_cons in H2. exact H2.
Qed.

Lemma plain_items sender (items : list (Z * Z * Z)) :
  forallb plain_eff (flat_map (fun it : Z * Z * Z => let '(c, to, v) := it in [EBal sender c (- v); EBal to c v]) items) = true.
Proof. induction items as [|[[c to] v] r IH]; [reflexivity|]. cbn [flat_map app forallb plain_eff andb]. exact IH. Qed.

Lemma no_sym_count l sym : existsb (fun c => c_sym c =? sym) l = false -> count_active l sym = 0%nat.
Proof.
  unfold count_active. induction l as [|c l IH]; [reflexivity|]. cbn [existsb filter]. intros H.
  apply orb_false_iff in H. destruct H as [H1 H2]. unfold act at 1. rewrite H1. cbn [andb]. apply IH. exact H2.
Qed.

Lemma find_sym_in l sym ver c : find_sym l sym ver = Some c -> In c l /\ c_sym c = sym /\ c_ver c = ver.
Proof.
  induction l as [|r l IH]; [discriminate|]. cbn [find_sym].
  destruct ((c_sym r =? sym) && (c_ver r =? ver)) eqn:E.
  - intros H; injection H as <-. apply andb_true_iff in E. destruct E as [E1 E2]. apply Z.eqb_eq in E1, E2.
    split; [left; reflexivity|split; assumption].
  - intros H. destruct (IH H) as (A & B & C). split; [right; exact A|split; assumption].
Qed.

(* re-versioning the active coin of a ticker leaves the ticker without an active coin *)
Lemma reversion_count l sym old v :
  find_sym l sym 0 = Some old -> NoDup (map c_id l) -> (count_active l sym <= 1)%nat -> v <> 0 ->
  count_active (upd_coin l (c_id old) (fun r => {| c_id := c_id r; c_sym := c_sym r; c_ver := v; c_vol := c_vol r;
                                                   c_max := c_max r; c_mint := c_mint r; c_burn := c_burn r |})) sym = 0%nat.
Proof.
  intros Hf Hn Hc Hv. unfold count_active in *. revert Hf Hn Hc. induction l as [|c l IH]; [discriminate|].
  cbn [find_sym map filter upd_coin]. intros Hf Hn Hc. inversion Hn as [|? ? Hnot Hl]; subst.
  fold (act sym c) in *. change ((c_sym c =? sym) && (c_ver c =? 0)) with (act sym c) in Hf.
  destruct (act sym c) eqn:Ea.
  - injection Hf as <-. rewrite Z.eqb_refl. cbn [filter]. unfold act at 1. cbn [c_sym c_ver].
    destruct (Z.eqb_spec v 0) as [->|_]; [congruence|]. rewrite andb_false_r. cbn [length] in Hc.
    destruct (filter (act sym) l); [reflexivity|cbn [length] in Hc; lia].
  - destruct (find_sym_in _ _ _ _ Hf) as (Hin & _ & _).
    destruct (Z.eqb_spec (c_id c) (c_id old)) as [E|_].
    + exfalso. apply Hnot. rewrite E. apply in_map. exact Hin.
    + cbn [filter]. rewrite Ea. apply IH; assumption.
Qed.

Lemma max_version_ge : forall l sym acc, acc <= max_version l sym acc.
Proof.
  induction l as [|c l IH]; intros sym acc; cbn [max_version]; [lia|].
  destruct ((c_sym c =? sym) && (acc <? c_ver c)) eqn:E.
  - apply andb_true_iff in E. destruct E as [_ E]. apply Z.ltb_lt in E. pose proof (IH sym (c_ver c)). lia.
  - apply IH.
Qed.

(* the hypothesis under which uniqueness holds: recreating a ticker does not wrap its uint16 version counter *)
Definition recreate_bound (s : st) (t : tx) : Prop :=
  match t_data t with
  | RecreateToken sym _ _ _ _ _ => max_version (s_coins s) sym 0 + 1 < 2 ^ 16
  | _ => True
  end.

Lemma run_effs_ok s t effs : run s t = inr effs -> uinv s -> recreate_bound s t -> effs_ok s effs.
Proof.
  intros H Hu Hr. run_inv H; subst effs.
  all: try (apply plain_effs_ok; unfold fee_effs; cbn [app forallb plain_eff andb]; rewrite ?forallb_app, ?plain_items; reflexivity).
  - (* CreateToken *)
    cbn [effs_ok eff_ok apply_eff s_coins s_ncoins c_id c_ver c_sym]. repeat split; try lia.
    unfold sym_exists in E2. apply orb_false_iff in E2. destruct E2 as [_ E2]. apply no_sym_count. exact E2.
  - (* RecreateToken *)
    unfold recreate_bound in Hr. rewrite E in Hr.
    pose proof (max_version_ge (s_coins s) sym 0) as Hge.
    assert (Hv : (max_version (s_coins s) sym 0 + 1) mod Z.pow_pos 2 16 <> 0).
    { change (Z.pow_pos 2 16) with (2 ^ 16). rewrite Z.mod_small by lia. lia. }
    destruct Hu as (Hn & Hb & Hc).
    cbn [effs_ok eff_ok apply_eff set_coins s_coins s_ncoins c_id c_ver c_sym]. repeat split; try lia; try exact Hv.
    apply reversion_count; [assumption|exact Hn|apply Hc|exact Hv].
Qed.

Lemma deliver_uinv s t s' c : deliver s t = (s', c) -> uinv s -> recreate_bound s t -> uinv s'.
Proof.
  intros HD Hu Hr. destruct (deliver_cases _ _ _ _ HD) as [[-> _]|[(c0 & effs & _ & _ & EF & -> & _)|(effs & ER & _ & _ & ->)]].
  - exact Hu.
  - apply effs_ok_uinv; [exact Hu|]. apply plain_effs_ok.
    destruct (failed_branch_shape _ _ _ _ _ EF) as [->|(payer & com & _ & _ & _ & _ & ->)]; reflexivity.
  - apply effs_ok_uinv; [apply effs_ok_uinv; [exact Hu|exact (run_effs_ok _ _ _ ER Hu Hr)]|].
    apply plain_effs_ok. destruct (symbol_branch_effs s t) as (sp & _ & [[-> _]| ->]); reflexivity.
Qed.

Definition op_bound (s : st) (o : op) : Prop := match o with OpTx t => recreate_bound s t | _ => True end.

Lemma step_uinv s o : uinv s -> op_bound s o -> uinv (step s o).
Proof.
  intros Hu Hb. destruct o as [t|h|]; cbn [step].
  - destruct (deliver s t) as [s' c] eqn:ED. exact (deliver_uinv _ _ _ _ ED Hu Hb).
  - unfold begin_block.
    destruct (coin_deltas_matured (filter (fun f : Z * Z * Z * Z => let '(d, _, _, _) := f in d =? h) (s_frozen s)) 0) as (_ & _ & D3 & _).
    match goal with |- uinv (apply_effs ?s0 ?l) => destruct (apply_effs_coins_same l s0 D3) as [E1 E2] end.
    destruct Hu as (Hn & Hi & Hc). unfold uinv, ids_bounded. rewrite E1, E2. cbn [set_frozen set_height s_coins s_ncoins].
    split; [exact Hn|split; [exact Hi|exact Hc]].
  - exact Hu.
Qed.

(* the bound holds at every recreation along the history *)
Fixpoint ops_bound (s : st) (ops : list op) : Prop :=
  match ops with [] => True | o :: r => op_bound s o /\ ops_bound (step s o) r end.

Lemma run_ops_uinv : forall ops s, uinv s -> ops_bound s ops -> uinv (run_ops s ops).
Proof.
  induction ops as [|o ops IH]; intros s Hu Hb; [exact Hu|].
  destruct Hb as [H1 H2]. unfold run_ops. cbn [fold_left]. fold (run_ops (step s o) ops).
  apply IH; [apply step_uinv; assumption|exact H2].
Qed.

(* what the invariant says in plain words *)
Lemma uinv_unique s c1 c2 :
  uinv s -> In c1 (s_coins s) -> In c2 (s_coins s) -> c_ver c1 = 0 -> c_ver c2 = 0 -> c_sym c1 = c_sym c2 -> c1 = c2.
Proof.
  intros (Hn & _ & Hc) H1 H2 V1 V2 ES. specialize (Hc (c_sym c1)). unfold count_active in Hc.
  assert (A1 : In c1 (filter (act (c_sym c1)) (s_coins s))).
  { apply filter_In. split; [exact H1|]. unfold act. rewrite Z.eqb_refl, V1. reflexivity. }
  assert (A2 : In c2 (filter (act (c_sym c1)) (s_coins s))).
  { apply filter_In. split; [exact H2|]. unfold act. rewrite <- ES, Z.eqb_refl, V2. reflexivity. }
  destruct (filter (act (c_sym c1)) (s_coins s)) as [|x [|y l]]; [destruct A1| |cbn [length] in Hc; lia].
  destruct A1 as [<-|[]]. destruct A2 as [<-|[]]. reflexivity.
Qed.
