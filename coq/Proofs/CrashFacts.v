(* CrashFacts.v — lemmas about Model/Crash.v: the write list of Commit, replay after a crash. *)
From Minter Require Import Base Persist PersistFacts PersistGen Crash.
From Coq Require Import ZArith Lia List Bool Arith.
Import ListNotations.
Open Scope Z_scope.

(* ---- association lists ------------------------------------------------------------------------ *)
Lemma aset_idem {V} k (v : V) l : aset k v (aset k v l) = aset k v l.
Proof.
  induction l as [|[k' v'] r IH]; cbn.
  - rewrite Z.eqb_refl. reflexivity.
  - destruct (Z.eqb_spec k' k) as [E|N]; cbn.
    + rewrite Z.eqb_refl. reflexivity.
    + destruct (Z.eqb_spec k' k); [contradiction|]. rewrite IH. reflexivity.
Qed.

Lemma aget_aset_same {V} k (v : V) l : aget k (aset k v l) = Some v.
Proof.
  induction l as [|[k' v'] r IH]; cbn.
  - rewrite Z.eqb_refl. reflexivity.
  - destruct (Z.eqb_spec k' k) as [E|N]; cbn.
    + rewrite Z.eqb_refl. reflexivity.
    + destruct (Z.eqb_spec k' k); [contradiction|]. exact IH.
Qed.

Lemma aget_aset_other {V} k k2 (v : V) l : k2 <> k -> aget k2 (aset k v l) = aget k2 l.
Proof.
  intros N. induction l as [|[k' v'] r IH]; cbn.
  - destruct (Z.eqb_spec k k2); [congruence|reflexivity].
  - destruct (Z.eqb_spec k' k) as [E|N']; cbn.
    + subst. destruct (Z.eqb_spec k k2); [congruence|reflexivity].
    + destruct (Z.eqb_spec k' k2); [reflexivity|exact IH].
Qed.

Lemma aget_adel_same {V} k (l : list (Z * V)) : aget k (adel k l) = None.
Proof.
  induction l as [|[k' v'] r IH]; cbn; [reflexivity|].
  destruct (Z.eqb_spec k' k) as [E|N]; [exact IH|]. cbn.
  destruct (Z.eqb_spec k' k); [contradiction|exact IH].
Qed.

Lemma aget_adel_other {V} k k2 (l : list (Z * V)) : k2 <> k -> aget k2 (adel k l) = aget k2 l.
Proof.
  intros N. induction l as [|[k' v'] r IH]; cbn; [reflexivity|].
  destruct (Z.eqb_spec k' k) as [E|N']; cbn.
  - subst. destruct (Z.eqb_spec k k2); [congruence|exact IH].
  - destruct (Z.eqb_spec k' k2); [reflexivity|exact IH].
Qed.

Lemma adel_absent {V} k (l : list (Z * V)) : aget k l = None -> adel k l = l.
Proof.
  induction l as [|[k' v'] r IH]; cbn; [reflexivity|].
  destruct (Z.eqb_spec k' k) as [E|N]; [discriminate|]. intros H. rewrite IH by exact H. reflexivity.
Qed.

Lemma aset_present {V} k (v : V) l : aget k l = Some v -> aset k v l = l.
Proof.
  induction l as [|[k' v'] r IH]; cbn; [discriminate|].
  destruct (Z.eqb_spec k' k) as [E|N].
  - intros H. inversion H. subst. reflexivity.
  - intros H. rewrite IH by exact H. reflexivity.
Qed.

(* ---- the application database: what Commit leaves on disk ------------------------------------ *)
(* the disk if every pending Save* ran now *)
Definition ldisk (s : st) : disk :=
  let '(d, m) := s in
  {| d_height := d_height d; d_hash := d_hash d; d_start := d_start d;
     d_vals := match m_vals m with Some v => Some v | None => d_vals d end;
     d_times := match m_times m with [] => d_times d | l => Some l end;
     d_versions := if m_dirtyV m then Some (m_versions m) else d_versions d;
     d_emission := if m_dirtyE m then match m_emission m with Some e => Some e | None => d_emission d end else d_emission d;
     d_price := if m_dirtyP m then match m_price m with Some p => Some p | None => d_price d end else d_price d |}.

Definition set_hh (d : disk) (h hash : Z) : disk :=
  {| d_height := Some h; d_hash := Some hash; d_start := d_start d; d_vals := d_vals d; d_times := d_times d;
     d_versions := d_versions d; d_emission := d_emission d; d_price := d_price d |}.

Definition nohash (d : disk) : disk :=
  {| d_height := d_height d; d_hash := None; d_start := d_start d; d_vals := d_vals d; d_times := d_times d;
     d_versions := d_versions d; d_emission := d_emission d; d_price := d_price d |}.

Lemma disk_eq_intro (a b : disk) :
  d_height a = d_height b -> d_hash a = d_hash b -> d_start a = d_start b -> d_vals a = d_vals b ->
  d_times a = d_times b -> d_versions a = d_versions b -> d_emission a = d_emission b ->
  d_price a = d_price b -> a = b.
Proof. destruct a, b; cbn; intros; subst; reflexivity. Qed.

Lemma commit_fst s h hash : times_loaded s -> fst (commit true s h hash) = set_hh (ldisk s) h hash.
Proof.
  destruct s as [d m]. destruct m as [mh ms mv mt mver dV me dE mp dP].
  unfold times_loaded. cbn. intros Ht. destruct mt as [|t0 mt]; [contradiction|].
  unfold commit, set_hh, ldisk.
  destruct mv; destruct dV; destruct dE; destruct dP; destruct me; destruct mp; reflexivity.
Qed.

Lemma set_hh_nohash d1 d2 h hash : nohash d1 = nohash d2 -> set_hh d1 h hash = set_hh d2 h hash.
Proof.
  intros E. unfold set_hh.
  pose proof (f_equal d_start E) as E1. pose proof (f_equal d_vals E) as E2.
  pose proof (f_equal d_times E) as E3. pose proof (f_equal d_versions E) as E4.
  pose proof (f_equal d_emission E) as E5. pose proof (f_equal d_price E) as E6.
  cbn in *. rewrite E1, E2, E3, E4, E5, E6. reflexivity.
Qed.

(* the appdb writes of the model's write list are Persist.commit *)
Lemma app_calls_eq : app_calls = [1; 2; 3; 4; 5; 6; 7].
Proof. reflexivity. Qed.

Lemma awrites_commit d m h hash :
  apply_awrites (awrites m h hash) d = fst (commit true (d, m) h hash).
Proof.
  unfold awrites. rewrite app_calls_eq. destruct m as [mh ms mv mt mver dV me dE mp dP].
  unfold commit.
  destruct mv; destruct dV; destruct dE; destruct dP; destruct me; destruct mp; reflexivity.
Qed.

Lemma commit_mem_eq d m h hash : commit_mem m h = snd (commit true (d, m) h hash).
Proof.
  destruct m as [mh ms mv mt mver dV me dE mp dP]. unfold commit, commit_mem.
  destruct mv; destruct dV; destruct dE; destruct dP; reflexivity.
Qed.

Lemma apply_awrites_app l1 l2 d : apply_awrites (l1 ++ l2) d = apply_awrites l2 (apply_awrites l1 d).
Proof. unfold apply_awrites. apply fold_left_app. Qed.

(* the setters, on the "flushed" disk *)
Definition lset (d : disk) (v : view) (o : setop) : disk :=
  match o with
  | SetVals l => {| d_height := d_height d; d_hash := d_hash d; d_start := d_start d; d_vals := Some l; d_times := d_times d;
                    d_versions := d_versions d; d_emission := d_emission d; d_price := d_price d |}
  | AddTime t => {| d_height := d_height d; d_hash := d_hash d; d_start := d_start d; d_vals := d_vals d;
                    d_times := Some (last4 (v_times v ++ [t]));
                    d_versions := d_versions d; d_emission := d_emission d; d_price := d_price d |}
  | AddVersion n h => {| d_height := d_height d; d_hash := d_hash d; d_start := d_start d; d_vals := d_vals d; d_times := d_times d;
                    d_versions := Some (v_versions v ++ [(n, h)]); d_emission := d_emission d; d_price := d_price d |}
  | SetEmission e => {| d_height := d_height d; d_hash := d_hash d; d_start := d_start d; d_vals := d_vals d; d_times := d_times d;
                    d_versions := d_versions d; d_emission := Some e; d_price := d_price d |}
  | SetPrice p => {| d_height := d_height d; d_hash := d_hash d; d_start := d_start d; d_vals := d_vals d; d_times := d_times d;
                    d_versions := d_versions d; d_emission := d_emission d; d_price := Some p |}
  end.

Lemma nonempty_match_some (l : list Z) (dflt : option (list Z)) :
  l <> [] -> match l with [] => dflt | z :: l0 => Some (z :: l0) end = Some l.
Proof. destruct l; [contradiction|reflexivity]. Qed.

Lemma ldisk_apply_set s o : ldisk (apply_set s o) = lset (ldisk s) (view_of s) o.
Proof.
  destruct s as [d m]. destruct o; unfold apply_set, ldisk, lset, upd_mem; apply disk_eq_intro;
    cbn [d_height d_hash d_start d_vals d_times d_versions d_emission d_price m_vals m_times m_versions m_dirtyV m_emission m_dirtyE m_price m_dirtyP
         view_of v_times v_versions]; try reflexivity.
  apply nonempty_match_some, last4_nonempty.
Qed.

Lemma nohash_lset d v o : nohash (lset d v o) = lset (nohash d) (blind v) o.
Proof. destruct o; reflexivity. Qed.

Lemma blind_vapply v o : blind (vapply v o) = vapply (blind v) o.
Proof. destruct o; reflexivity. Qed.

(* two appdb states that block execution cannot tell apart and that flush to the same disk
   (the stored hash aside) *)
Definition aeq (s1 s2 : st) : Prop :=
  blind (view_of s1) = blind (view_of s2) /\ nohash (ldisk s1) = nohash (ldisk s2).

Lemma aeq_refl s : aeq s s.
Proof. split; reflexivity. Qed.

Lemma aeq_sym s1 s2 : aeq s1 s2 -> aeq s2 s1.
Proof. intros [A B]. split; symmetry; assumption. Qed.

Lemma aeq_trans s1 s2 s3 : aeq s1 s2 -> aeq s2 s3 -> aeq s1 s3.
Proof. intros [A B] [C D]. split; [rewrite A; exact C|rewrite B; exact D]. Qed.

Lemma aeq_apply_set s1 s2 o : aeq s1 s2 -> aeq (apply_set s1 o) (apply_set s2 o).
Proof.
  intros [A B]. split.
  - rewrite !view_apply_set, !blind_vapply, A. reflexivity.
  - rewrite !ldisk_apply_set, !nohash_lset, A, B. reflexivity.
Qed.

Lemma aeq_run_steps : forall steps s1 s2,
  aeq s1 s2 -> aeq (run_steps s1 (map blindf steps)) (run_steps s2 (map blindf steps)).
Proof.
  induction steps as [|f rest IH]; intros s1 s2 E; cbn [map run_steps]; [exact E|].
  apply IH. change (blindf f (view_of s1)) with (f (blind (view_of s1))).
  change (blindf f (view_of s2)) with (f (blind (view_of s2))). destruct E as [A B]. rewrite A.
  destruct (f (blind (view_of s2))); [apply aeq_apply_set|]; split; assumption.
Qed.

Lemma run_steps_blind_times_loaded steps s : times_loaded s -> times_loaded (run_steps s (map blindf steps)).
Proof. apply run_steps_times_loaded. Qed.

Lemma run_steps_blind_flags_ok steps s : flags_ok s -> flags_ok (run_steps s (map blindf steps)).
Proof. apply run_steps_flags_ok. Qed.

Lemma aeq_height s1 s2 : aeq s1 s2 -> get_height s1 = get_height s2.
Proof. intros [A _]. exact (f_equal v_height A). Qed.

Lemma aeq_start s1 s2 : aeq s1 s2 -> get_start s1 = get_start s2.
Proof. intros [A _]. exact (f_equal v_start A). Qed.

Lemma aeq_commit s1 s2 h hash :
  aeq s1 s2 -> times_loaded s1 -> times_loaded s2 ->
  fst (commit true s1 h hash) = fst (commit true s2 h hash).
Proof.
  intros [_ B] T1 T2. rewrite !commit_fst by assumption. apply set_hh_nohash. exact B.
Qed.

(* settled: nothing is pending, the caches only repeat the disk *)
Definition settled (s : st) : Prop := ldisk s = fst s.

Lemma commit_settled s h hash : times_loaded s -> settled (commit true s h hash).
Proof.
  destruct s as [d m]. destruct m as [mh ms mv mt mver dV me dE mp dP].
  unfold times_loaded. cbn. intros Ht. destruct mt as [|t0 mt]; [contradiction|].
  unfold settled, commit, ldisk.
  destruct mv; destruct dV; destruct dE; destruct dP; destruct me; destruct mp; reflexivity.
Qed.

Lemma restart_settled (d : disk) : settled (d, empty_mem).
Proof. destruct d; reflexivity. Qed.

Definition agood (s : st) : Prop := good s /\ settled s.

Lemma blind_view_nohash d1 d2 :
  nohash d1 = nohash d2 -> blind (view_of (d1, empty_mem)) = blind (view_of (d2, empty_mem)).
Proof.
  intros E. destruct d1, d2. unfold nohash in E. cbn in E. inversion E. subst. reflexivity.
Qed.

Lemma ldisk_empty d : ldisk (d, empty_mem) = d.
Proof. destruct d; reflexivity. Qed.

(* a freshly started process on a disk that differs from a good state's disk in the hash at most *)
Lemma fresh_aeq s d' : agood s -> nohash d' = nohash (fst s) -> aeq (d', empty_mem) s.
Proof.
  intros [[C _] S] E. split.
  - rewrite (blind_view_nohash _ _ E). unfold coherent, restart in C. rewrite C. reflexivity.
  - rewrite ldisk_empty, E. unfold settled in S. rewrite S. reflexivity.
Qed.

Lemma agood_aeq s1 s2 : agood s1 -> agood s2 -> fst s1 = fst s2 -> aeq s1 s2.
Proof.
  intros G1 G2 E. apply aeq_trans with (fst s1, empty_mem).
  - apply aeq_sym, fresh_aeq; [exact G1|reflexivity].
  - rewrite E. apply fresh_aeq; [exact G2|reflexivity].
Qed.

Lemma good_fresh d : 0 <= odef 0 (d_height d) -> good (d, empty_mem).
Proof.
  intros H. split; [reflexivity|]. split.
  - unfold flags_ok. cbn. repeat split; auto; discriminate.
  - cbn. destruct (d_height d); cbn in *; lia.
Qed.
