(* FloatFacts.v — sign facts about the big.Float model needed by the pool theorems. *)
From Minter Require Import Base Float Orders.
From Coq Require Import ZArith Lia Bool.
Open Scope Z_scope.

Lemma rnd_pos_nonneg p n e : 0 <= n -> 0 <= fst (rnd_pos p n e).
Proof.
  intros Hn. unfold rnd_pos.
  destruct (_ <=? _); cbn [fst]; [exact Hn|].
  assert (0 <= Z.shiftr n (bitlen n - p)) by (apply Z.shiftr_nonneg; exact Hn).
  destruct (_ || _); lia.
Qed.

Lemma quo_pos_nonneg p n d : 0 <= n -> 0 < d -> 0 <= fst (quo_pos p n d).
Proof.
  intros Hn Hd. unfold quo_pos. apply rnd_pos_nonneg.
  set (k := Z.max 0 _).
  assert (0 <= Z.shiftl n k) by (apply Z.shiftl_nonneg; exact Hn).
  assert (0 <= Z.shiftl n k / d) by (apply Z.div_pos; lia).
  destruct (_ =? 0); lia.
Qed.

Lemma fint_nonneg m e : 0 <= m -> 0 <= fint (m, e).
Proof.
  intros Hm. unfold fint.
  destruct (0 <=? e).
  - apply Z.shiftl_nonneg; exact Hm.
  - assert (0 <= Z.shiftr (Z.abs m) (- e)) by (apply Z.shiftr_nonneg; lia).
    assert (0 <= Z.sgn m) by lia. nia.
Qed.

Lemma of_rat_auto_int_nonneg n d : 0 <= n -> 0 < d -> 0 <= fint (of_rat_auto n d).
Proof.
  intros Hn Hd. unfold of_rat_auto.
  destruct (Z.eqb_spec n 0) as [|Hne]; [cbn; lia|].
  set (g := Z.gcd n d).
  assert (Hg : 0 < g) by (unfold g; pose proof (Z.gcd_nonneg n d); assert (Z.gcd n d <> 0) by (intros E; apply Z.gcd_eq_0_l in E; lia); lia).
  assert (Hgd : (g | d)) by apply Z.gcd_divide_r.
  assert (Hd' : 0 < d / g).
  { apply Z.div_str_pos. split; [exact Hg|]. apply Z.divide_pos_le; assumption. }
  assert (Hn' : 0 <= n / g) by (apply Z.div_pos; lia).
  pose proof (quo_pos_nonneg (Z.max (Z.max (bitlen (n / g)) (bitlen (d / g))) 64) (Z.abs (n / g)) (d / g) ltac:(lia) Hd') as Hq.
  destruct (quo_pos _ _ _) as [q e]. cbn [fst] in Hq.
  apply fint_nonneg. assert (0 <= Z.sgn (n / g)) by lia. nia.
Qed.

Lemma rat_mul_int_nonneg s b a : 0 < s -> 0 < b -> 0 <= a -> 0 <= rat_mul_int s b a.
Proof. intros; unfold rat_mul_int; apply of_rat_auto_int_nonneg; nia. Qed.

Lemma rat_div_int_nonneg s b a : 0 < s -> 0 < b -> 0 <= a -> 0 <= rat_div_int s b a.
Proof. intros; unfold rat_div_int; apply of_rat_auto_int_nonneg; nia. Qed.
