(* DetermFacts.v — C08: the lemmas that make each class of map loop independent of the
   iteration order, and the order-independence theorem for programs built from them. *)
From Coq Require Import ZArith List Bool Permutation Sorted Lia.
From Minter Require Import Determ.
Import ListNotations.

(* ---- collect, then sort by an injective key ----------------------------------------------------- *)
Section SortFacts.
Context {A K : Type}.
Variable key : A -> K.
Variable leb : K -> K -> bool.
Hypothesis leb_total : forall a b, leb a b = true \/ leb b a = true.
Hypothesis leb_trans : forall a b c, leb a b = true -> leb b c = true -> leb a c = true.
Hypothesis leb_antisym : forall a b, leb a b = true -> leb b a = true -> a = b.

Definition ord (x y : A) : Prop := leb (key x) (key y) = true.

Lemma sort_by_cons x l : sort_by key leb (x :: l) = insert_by key leb x (sort_by key leb l).
Proof. reflexivity. Qed.

Lemma insert_by_perm x l : Permutation (x :: l) (insert_by key leb x l).
Proof.
  induction l as [|y r IH]; cbn [insert_by].
  - apply Permutation_refl.
  - destruct (leb (key x) (key y)).
    + apply Permutation_refl.
    + eapply perm_trans; [apply perm_swap|]. apply perm_skip. exact IH.
Qed.

Lemma sort_by_perm l : Permutation l (sort_by key leb l).
Proof.
  induction l as [|x r IH].
  - apply Permutation_refl.
  - rewrite sort_by_cons. eapply perm_trans; [|apply insert_by_perm]. apply perm_skip. exact IH.
Qed.

Lemma insert_by_sorted x l : StronglySorted ord l -> StronglySorted ord (insert_by key leb x l).
Proof.
  induction l as [|y r IH]; intros Hs; cbn [insert_by].
  - constructor; constructor.
  - destruct (leb (key x) (key y)) eqn:Hxy.
    + constructor; [exact Hs|]. constructor; [exact Hxy|].
      inversion Hs as [|? ? Hr Hall]; subst.
      rewrite Forall_forall in *. intros z Hz. unfold ord in *. eapply leb_trans; [exact Hxy|]. apply Hall; exact Hz.
    + inversion Hs as [|? ? Hr Hall]; subst. constructor; [apply IH; exact Hr|].
      rewrite Forall_forall in *. intros z Hz.
      assert (Hin : In z (x :: r)).
      { eapply Permutation_in; [apply Permutation_sym; apply insert_by_perm|exact Hz]. }
      destruct Hin as [<-|Hin].
      * unfold ord. destruct (leb_total (key x) (key y)) as [H|H]; [congruence|exact H].
      * apply Hall; exact Hin.
Qed.

Lemma sort_by_sorted l : StronglySorted ord (sort_by key leb l).
Proof.
  induction l as [|x r IH].
  - constructor.
  - rewrite sort_by_cons. apply insert_by_sorted. exact IH.
Qed.

(* two sorted lists with the same elements and a key that is injective on them are equal *)
Lemma sorted_perm_unique l1 : forall l2,
  StronglySorted ord l1 -> StronglySorted ord l2 -> Permutation l1 l2 ->
  (forall x y, In x l1 -> In y l1 -> key x = key y -> x = y) -> l1 = l2.
Proof.
  induction l1 as [|a r1 IH]; intros l2 H1 H2 HP Hinj.
  - apply Permutation_nil in HP. symmetry; exact HP.
  - destruct l2 as [|b r2].
    + apply Permutation_sym in HP. apply Permutation_nil in HP. discriminate.
    + inversion H1 as [|? ? Hs1 Ha]; subst. inversion H2 as [|? ? Hs2 Hb]; subst.
      assert (Hab : a = b).
      { assert (Hb1 : In b (a :: r1)) by (eapply Permutation_in; [apply Permutation_sym; exact HP | left; reflexivity]).
        assert (Ha2 : In a (b :: r2)) by (eapply Permutation_in; [exact HP | left; reflexivity]).
        destruct Hb1 as [Hb1|Hb1]; [exact Hb1|]. destruct Ha2 as [Ha2|Ha2]; [symmetry; exact Ha2|].
        apply Hinj; [left; reflexivity|right; exact Hb1|].
        rewrite Forall_forall in Ha, Hb.
        apply leb_antisym; [apply Ha; exact Hb1|apply Hb; exact Ha2]. }
      subst b. f_equal. apply IH; [exact Hs1|exact Hs2| |].
      * eapply Permutation_cons_inv; exact HP.
      * intros x y Hx Hy. apply Hinj; right; assumption.
Qed.

(* THE lemma of the class collect_then_sort: whatever order the map was iterated in, the sorted
   slice is the same — provided the sort key is injective on the collected entries *)
Theorem sort_after_collect l1 l2 :
  Permutation l1 l2 ->
  (forall x y, In x l1 -> In y l1 -> key x = key y -> x = y) ->
  sort_by key leb l1 = sort_by key leb l2.
Proof.
  intros HP Hinj. apply sorted_perm_unique.
  - apply sort_by_sorted.
  - apply sort_by_sorted.
  - eapply perm_trans; [apply Permutation_sym; apply sort_by_perm|]. eapply perm_trans; [exact HP|apply sort_by_perm].
  - intros x y Hx Hy. apply Hinj; eapply Permutation_in; try (apply Permutation_sym; apply sort_by_perm); assumption.
Qed.
End SortFacts.

(* the counter-lemma: with a key that is not injective a (stable) sort keeps the iteration order
   of the tied entries, so two iteration orders CAN give two results *)
Lemma sort_noninjective_can_differ :
  exists l1 l2 : list (Z * Z), Permutation l1 l2 /\ sort_by fst Z.leb l1 <> sort_by fst Z.leb l2.
Proof.
  exists [(1, 10); (1, 20)]%Z, [(1, 20); (1, 10)]%Z. split.
  - apply perm_swap.
  - vm_compute. discriminate.
Qed.

(* ---- commutative folds ------------------------------------------------------------------------------ *)
Lemma fold_left_perm_in {S E : Type} (f : S -> E -> S) l1 l2 :
  Permutation l1 l2 ->
  (forall a x y, In x l1 -> In y l1 -> f (f a x) y = f (f a y) x) ->
  forall a, fold_left f l1 a = fold_left f l2 a.
Proof.
  intros HP. induction HP as [|x l l' HP IH|x y l|l l' l'' HP1 IH1 HP2 IH2]; intros Hc a.
  - reflexivity.
  - cbn [fold_left]. apply IH. intros b u v Hu Hv. apply Hc; right; assumption.
  - cbn [fold_left]. rewrite (Hc a y x); [reflexivity|left; reflexivity|right; left; reflexivity].
  - rewrite IH1 by exact Hc. apply IH2. intros b u v Hu Hv.
    apply Hc; eapply Permutation_in; try (apply Permutation_sym; exact HP1); assumption.
Qed.

Theorem commutative_fold {S E : Type} (f : S -> E -> S) l1 l2 :
  Permutation l1 l2 -> (forall a x y, f (f a x) y = f (f a y) x) ->
  forall a, fold_left f l1 a = fold_left f l2 a.
Proof. intros HP Hc. apply fold_left_perm_in; [exact HP|]. intros; apply Hc. Qed.

(* instances: sums of (projections of) the entries — big.Int Add/Sub, counters *)
Lemma sum_fold_commutes {E : Type} (g : E -> Z) l1 l2 :
  Permutation l1 l2 -> forall a : Z, fold_left (fun a x => a + g x)%Z l1 a = fold_left (fun a x => a + g x)%Z l2 a.
Proof. intros HP. apply commutative_fold; [exact HP|]. intros; lia. Qed.

(* building another map / a set: insertion into a canonical (sorted, unique) association list *)
Ltac zm_case :=
  match goal with
  | |- context [(?a <? ?b)%Z] => destruct (Z.ltb_spec a b)
  | |- context [(?a =? ?b)%Z] => destruct (Z.eqb_spec a b)
  end.

Lemma zm_set_comm {W : Type} (k1 k2 : Z) (w1 w2 : W) (m : list (Z * W)) :
  k1 <> k2 \/ w1 = w2 ->
  zm_set k1 w1 (zm_set k2 w2 m) = zm_set k2 w2 (zm_set k1 w1 m).
Proof.
  intros Hd. induction m as [|[k w] r IH].
  - cbn [zm_set]. repeat (zm_case; cbn [zm_set]; try lia; try reflexivity).
    destruct Hd as [Hd|Hd]; [lia|subst; reflexivity].
  - cbn [zm_set].
    repeat (zm_case; cbn [zm_set]; try lia; try reflexivity); try (rewrite IH; reflexivity);
      try (destruct Hd as [Hd|Hd]; [lia|subst; reflexivity]).
Qed.

Lemma set_insert_fold_commutes (l1 l2 : list Z) :
  Permutation l1 l2 -> forall m : list (Z * unit), fold_left (fun m k => zm_set k tt m) l1 m = fold_left (fun m k => zm_set k tt m) l2 m.
Proof. intros HP. apply commutative_fold; [exact HP|]. intros. apply zm_set_comm. right; reflexivity. Qed.

(* ---- find / exists with at most one match ------------------------------------------------------------ *)
Theorem unique_find {E : Type} (p : E -> bool) l1 l2 :
  Permutation l1 l2 ->
  (forall x y, In x l1 -> In y l1 -> p x = true -> p y = true -> x = y) ->
  find p l1 = find p l2.
Proof.
  intros HP Hu.
  destruct (find p l1) as [x|] eqn:H1; destruct (find p l2) as [y|] eqn:H2.
  - apply find_some in H1. apply find_some in H2. destruct H1 as [Hx Hpx]. destruct H2 as [Hy Hpy].
    f_equal. apply Hu; try assumption. eapply Permutation_in; [apply Permutation_sym; exact HP|exact Hy].
  - apply find_some in H1. destruct H1 as [Hx Hpx].
    assert (Hx2 : In x l2) by (eapply Permutation_in; [exact HP|exact Hx]).
    pose proof (find_none p l2 H2 x Hx2) as Hn. congruence.
  - apply find_some in H2. destruct H2 as [Hy Hpy].
    assert (Hy1 : In y l1) by (eapply Permutation_in; [apply Permutation_sym; exact HP|exact Hy]).
    pose proof (find_none p l1 H1 y Hy1) as Hn. congruence.
  - reflexivity.
Qed.

(* an `exists` loop (only the verdict is observed) needs no side condition at all *)
Lemma exists_any_order {E : Type} (p : E -> bool) l1 l2 : Permutation l1 l2 -> existsb p l1 = existsb p l2.
Proof.
  intros HP. induction HP as [|x l l' HP IH|x y l|l l' l'' HP1 IH1 HP2 IH2]; cbn [existsb].
  - reflexivity.
  - rewrite IH; reflexivity.
  - destruct (p x), (p y); reflexivity.
  - congruence.
Qed.

(* entries of a map: pairwise distinct keys, so equal keys mean the same entry *)
Lemma nodup_fst_inj {P W : Type} (l : list (P * W)) x y : NoDup (map fst l) -> In x l -> In y l -> fst x = fst y -> x = y.
Proof.
  induction l as [|u r IH]; intros Hnd Hx Hy He; [contradiction|].
  cbn [map] in Hnd. inversion Hnd as [|? ? Hnot Hnd']. clear Hnd.
  destruct Hx as [Hx|Hx]; destruct Hy as [Hy|Hy].
  - congruence.
  - exfalso. apply Hnot. rewrite Hx, He. apply in_map. exact Hy.
  - exfalso. apply Hnot. rewrite Hy, <- He. apply in_map. exact Hx.
  - apply IH; assumption.
Qed.

(* ---- per-entry independent updates: Set / Remove of distinct paths commute w.r.t. the final tree ---- *)
Section TreeFacts.
Context {P W : Type}.
Variable P_eq_dec : forall a b : P, {a = b} + {a <> b}.

Definition hits (k : P) (u : P * option W) : bool := if P_eq_dec (fst u) k then true else false.

Lemma apply_updates_lookup (l : list (P * option W)) : forall (t : tree (P := P) (W := W)) k,
  NoDup (map fst l) ->
  apply_updates P_eq_dec l t k = match find (hits k) l with Some u => snd u | None => t k end.
Proof.
  induction l as [|u r IH]; intros t k Hnd.
  - reflexivity.
  - cbn [apply_updates fold_left map] in *. inversion Hnd as [|? ? Hnot Hnd']; subst.
    change (fold_left (fun t0 u0 => upd P_eq_dec t0 (fst u0) (snd u0)) r (upd P_eq_dec t (fst u) (snd u)) k)
      with (apply_updates P_eq_dec r (upd P_eq_dec t (fst u) (snd u)) k).
    rewrite IH by exact Hnd'. cbn [find]. unfold hits at 2.
    destruct (P_eq_dec (fst u) k) as [He|He].
    + destruct (find (hits k) r) as [v|] eqn:Hf.
      * exfalso. apply find_some in Hf. destruct Hf as [Hin Hh]. unfold hits in Hh.
        destruct (P_eq_dec (fst v) k) as [Hv|]; [|discriminate].
        apply Hnot. rewrite He, <- Hv. apply in_map. exact Hin.
      * unfold upd. destruct (P_eq_dec (fst u) k); [reflexivity|contradiction].
    + destruct (find (hits k) r) as [v|]; [reflexivity|].
      unfold upd. destruct (P_eq_dec (fst u) k); [contradiction|reflexivity].
Qed.

(* THE lemma of the class per_entry_independent (tree = path -> option value, compared by lookup):
   updates of pairwise distinct paths give the same tree in any order *)
Theorem per_entry_independent (l1 l2 : list (P * option W)) (t : tree) :
  NoDup (map fst l1) -> Permutation l1 l2 ->
  forall k, apply_updates P_eq_dec l1 t k = apply_updates P_eq_dec l2 t k.
Proof.
  intros Hnd HP k.
  assert (Hnd2 : NoDup (map fst l2)).
  { eapply Permutation_NoDup; [|exact Hnd]. apply Permutation_map. exact HP. }
  rewrite !apply_updates_lookup by assumption.
  rewrite (unique_find (hits k) l1 l2 HP); [reflexivity|].
  intros x y Hx Hy Hpx Hpy. unfold hits in *.
  destruct (P_eq_dec (fst x) k) as [Ex|]; [|discriminate].
  destruct (P_eq_dec (fst y) k) as [Ey|]; [|discriminate].
  (* same path, both in a list without duplicate paths: same entry *)
  apply (nodup_fst_inj l1 x y Hnd Hx Hy). congruence.
Qed.

(* and with a duplicated path the last writer wins: the order matters *)
End TreeFacts.

Lemma same_path_updates_can_differ :
  exists (l1 l2 : list (Z * option Z)) k, Permutation l1 l2 /\
    apply_updates Z.eq_dec l1 (fun _ => None) k <> apply_updates Z.eq_dec l2 (fun _ => None) k.
Proof.
  exists [(1, Some 10); (1, Some 20)]%Z, [(1, Some 20); (1, Some 10)]%Z, 1%Z. split.
  - apply perm_swap.
  - vm_compute. discriminate.
Qed.

(* ---- programs ------------------------------------------------------------------------------------------ *)
Section ProgFacts.
Variables S E K : Type.
Variable leb : K -> K -> bool.
Hypothesis leb_total : forall a b, leb a b = true \/ leb b a = true.
Hypothesis leb_trans : forall a b c, leb a b = true -> leb b c = true -> leb a c = true.
Hypothesis leb_antisym : forall a b, leb a b = true -> leb b a = true -> a = b.
Variable E_eq_dec : forall a b : E, {a = b} + {a <> b}.
(* the states the program runs in (e.g. "candidate IDs are unique"): the side conditions are only
   required there, and the program has to stay there *)
Variable Inv : S -> Prop.

Definition valid (o : oracle E) : Prop := forall n l, Permutation l (o n l).

(* the side condition of each class, at the state in which the loop starts *)
Definition loop_ok (l : loop S E K) : Prop :=
  match l with
  | LCollectSort entries key use =>
      forall s, Inv s -> forall x y, In x (entries s) -> In y (entries s) -> key x = key y -> x = y
  | LFold entries f =>
      forall s, Inv s -> forall a x y, In x (entries s) -> In y (entries s) -> f (f a x) y = f (f a y) x
  | LFind entries p use =>
      forall s, Inv s -> forall x y, In x (entries s) -> In y (entries s) -> p s x = true -> p s y = true -> x = y
  | LPerEntry entries f =>
      forall s, Inv s -> forall a x y, In x (entries s) -> In y (entries s) -> x <> y -> f (f a x) y = f (f a y) x
  end.

Fixpoint wf (p : prog S E K) : Prop :=
  match p with
  | Skip => True
  | Step g => forall s, Inv s -> Inv (g s)
  | Seq a b => wf a /\ wf b
  | If c a b => wf a /\ wf b
  | ForEach items body => forall x, wf (body x)
  | Loop l => loop_ok l /\ forall o n s, valid o -> Inv s -> Inv (run_loop leb o l n s)
  end.

Lemma perm_of_valid o1 o2 n l : valid o1 -> valid o2 -> Permutation (o1 n l) (o2 n l).
Proof. intros V1 V2. eapply perm_trans; [apply Permutation_sym; apply V1|apply V2]. Qed.

Lemma in_of_valid o n l x : valid o -> In x (o n l) -> In x l.
Proof. intros V Hx. eapply Permutation_in; [apply Permutation_sym; apply V|exact Hx]. Qed.

Lemma run_loop_order_independent l o1 o2 n s :
  loop_ok l -> valid o1 -> valid o2 -> Inv s -> run_loop leb o1 l n s = run_loop leb o2 l n s.
Proof.
  intros Hok V1 V2 Hs. destruct l as [entries key use|entries f|entries p use|entries f]; cbn [run_loop loop_ok] in *.
  - f_equal. apply sort_after_collect; try assumption.
    + apply perm_of_valid; assumption.
    + intros x y Hx Hy. apply (Hok s Hs); [apply (in_of_valid o1 n _ _ V1 Hx)|apply (in_of_valid o1 n _ _ V1 Hy)].
  - apply fold_left_perm_in.
    + apply perm_of_valid; assumption.
    + intros a x y Hx Hy. apply (Hok s Hs); [apply (in_of_valid o1 n _ _ V1 Hx)|apply (in_of_valid o1 n _ _ V1 Hy)].
  - f_equal. apply unique_find.
    + apply perm_of_valid; assumption.
    + intros x y Hx Hy. apply (Hok s Hs); [apply (in_of_valid o1 n _ _ V1 Hx)|apply (in_of_valid o1 n _ _ V1 Hy)].
  - apply fold_left_perm_in.
    + apply perm_of_valid; assumption.
    + intros a x y Hx Hy. destruct (E_eq_dec x y) as [->|Hne]; [reflexivity|].
      apply (Hok s Hs); [apply (in_of_valid o1 n _ _ V1 Hx)|apply (in_of_valid o1 n _ _ V1 Hy)|exact Hne].
Qed.

Lemma run_inv p : wf p -> forall o, valid o -> forall n s, Inv s -> Inv (snd (run leb o p n s)).
Proof.
  induction p as [|g|a IHa b IHb|c a IHa b IHb|items body IH|l]; intros Hwf o V n s Hs; cbn [run wf] in *.
  - exact Hs.
  - apply Hwf; exact Hs.
  - destruct Hwf as [Ha Hb]. specialize (IHa Ha o V n s Hs). destruct (run leb o a n s) as [n1 s1]. apply IHb; assumption.
  - destruct Hwf as [Ha Hb]. destruct (c s); [apply IHa|apply IHb]; assumption.
  - generalize (items s). intros l. revert n s Hs. induction l as [|x r IHl]; intros n s Hs; cbn [fold_left].
    + exact Hs.
    + cbn [fst snd]. pose proof (IH x (Hwf x) o V n s Hs) as Hx.
      destruct (run leb o (body x) n s) as [n1 s1]. apply IHl. exact Hx.
  - cbn [snd]. apply Hwf; assumption.
Qed.

Theorem run_order_independent p : wf p ->
  forall o1 o2, valid o1 -> valid o2 -> forall n s, Inv s -> run leb o1 p n s = run leb o2 p n s.
Proof.
  induction p as [|g|a IHa b IHb|c a IHa b IHb|items body IH|l]; intros Hwf o1 o2 V1 V2 n s Hs; cbn [run wf] in *.
  - reflexivity.
  - reflexivity.
  - destruct Hwf as [Ha Hb]. rewrite (IHa Ha o1 o2 V1 V2 n s Hs).
    pose proof (run_inv a Ha o2 V2 n s Hs) as Hi. destruct (run leb o2 a n s) as [n1 s1]. apply IHb; assumption.
  - destruct Hwf as [Ha Hb]. destruct (c s); [apply IHa|apply IHb]; assumption.
  - generalize (items s). intros l. revert n s Hs. induction l as [|x r IHl]; intros n s Hs; cbn [fold_left].
    + reflexivity.
    + cbn [fst snd]. rewrite (IH x (Hwf x) o1 o2 V1 V2 n s Hs).
      pose proof (run_inv (body x) (Hwf x) o2 V2 n s Hs) as Hi.
      destruct (run leb o2 (body x) n s) as [n1 s1]. apply IHl. exact Hi.
  - destruct Hwf as [Hok _]. f_equal. apply run_loop_order_independent; assumption.
Qed.
End ProgFacts.

(* ---- the demo instance --------------------------------------------------------------------------------- *)
Lemma Zleb_total a b : (a <=? b)%Z = true \/ (b <=? a)%Z = true.
Proof. destruct (Z.leb_spec a b); [left; reflexivity|right; apply Z.leb_le; lia]. Qed.
Lemma Zleb_trans a b c : (a <=? b)%Z = true -> (b <=? c)%Z = true -> (a <=? c)%Z = true.
Proof. rewrite !Z.leb_le. lia. Qed.
Lemma Zleb_antisym a b : (a <=? b)%Z = true -> (b <=? a)%Z = true -> a = b.
Proof. rewrite !Z.leb_le. lia. Qed.
Lemma ZZ_eq_dec (a b : Z * Z) : {a = b} + {a <> b}.
Proof. decide equality; apply Z.eq_dec. Qed.

(* the dirty set is a map: its keys are pairwise distinct *)
Definition demo_inv (s : demo_state) : Prop := NoDup (map fst (d_dirty s)).

Lemma fold_keeps_dirty (f : demo_state -> Z * Z -> demo_state) :
  (forall s e, d_dirty (f s e) = d_dirty s) -> forall l s, d_dirty (fold_left f l s) = d_dirty s.
Proof.
  intros Hf l. induction l as [|e r IH]; intros s; cbn [fold_left].
  - reflexivity.
  - rewrite IH. apply Hf.
Qed.

Lemma demo_commit_wf : wf demo_state (Z * Z) Z Z.leb demo_inv demo_commit.
Proof.
  unfold demo_commit. cbn [wf loop_ok]. repeat split.
  - intros s Hs x y Hx Hy He. eapply nodup_fst_inj; eassumption.
  - intros o n s V Hs. exact Hs.
  - intros s Hs a x y Hx Hy. cbn. f_equal. lia.
  - intros o n s V Hs. cbn [run_loop]. unfold demo_inv. rewrite fold_keeps_dirty; [exact Hs|reflexivity].
  - intros s Hs x y Hx Hy Hpx Hpy. apply Z.eqb_eq in Hpx, Hpy. eapply nodup_fst_inj; try eassumption. congruence.
  - intros o n s V Hs. exact Hs.
  - intros s Hs a x y Hx Hy Hne. cbn. f_equal. apply zm_set_comm. left.
    intros He. apply Hne. eapply nodup_fst_inj; try eassumption. lia.
  - intros o n s V Hs. cbn [run_loop]. unfold demo_inv. rewrite fold_keeps_dirty; [exact Hs|reflexivity].
Qed.
