(* ScheduleSteps.v — step-level facts of Model/Schedule.v (C16): what an accepted / rejected
   transaction, a candidate removal, the byzantine loop and the maturity loop do. *)
From Minter Require Import Base Consts Schedule ScheduleFacts.
From Minter Require Punish Ledger LedgerFacts.
From Coq Require Import ZArith List Bool Lia ZifyBool.
Import ListNotations.
Open Scope Z_scope.

(* ---- leave: the shared part of Unbond and MoveStake ------------------------------------------------- *)
Lemma leave_accept s sender com cand coin value f effs :
  leave s sender com cand coin value f = Accept effs ->
  exists le, leave_effs s sender cand coin value = Val le /\ effs = EBal sender 0 (- com) :: le ++ [EFund f] /\
             com <= bal s sender 0 /\ leave_check s sender cand coin value = None.
Proof.
  unfold leave. intros H.
  destruct (leave_check s sender cand coin value) eqn:Ec; [discriminate|].
  destruct (bal s sender 0 <? com) eqn:Eb; [discriminate|].
  destruct (leave_effs s sender cand coin value) as [le| |site] eqn:El; try discriminate.
  injection H as <-. exists le. repeat split; try reflexivity. lia.
Qed.

(* leave_check passed for a positive value: leave_effs cannot dereference a missing stake
   (a non-positive value is rejected before, by fix e60f1c0) *)
Lemma leave_no_crash s sender cand coin value :
  0 < value -> leave_check s sender cand coin value = None -> exists le, leave_effs s sender cand coin value = Val le.
Proof.
  intros Hpos. unfold leave_check, leave_effs. destruct (wait_get s sender cand coin) as [wv|] eqn:Ew.
  - destruct (value <=? wv) eqn:E1.
    + intros _. destruct (value - wv <? 0) eqn:E2; [eexists; reflexivity|].
      destruct (0 <? value - wv) eqn:E3; [lia|eexists; reflexivity].
    + destruct (negb (cand_exists s cand)); [discriminate|].
      destruct (stake_get s cand sender coin) as [sv|] eqn:Es.
      * intros _. destruct (value - wv <? 0) eqn:E2; [eexists; reflexivity|].
        destruct (0 <? value - wv); eexists; reflexivity.
      * destruct (wv <? value) eqn:E4; [destruct (0 <? wv); discriminate|lia].
  - destruct (negb (cand_exists s cand)); [discriminate|].
    destruct (stake_get s cand sender coin) as [sv|] eqn:Es; [intros _; eexists; reflexivity|].
    destruct (0 <? value) eqn:E4; [discriminate|lia].
Qed.

(* an accepted Unbond / MoveStake: exactly one new fund of exactly the leaving value *)
Lemma leave_spec s sender com cand coin value f effs :
  leave s sender com cand coin value f = Accept effs -> entries_nodup (s_wait s) ->
  let s' := apply_effs s effs in
  s_frozen s' = s_frozen s ++ [f] /\
  staked s' cand sender coin = staked s cand sender coin - value /\
  (forall c' o' k', (cand, sender, coin) <> (c', o', k') -> staked s' c' o' k' = staked s c' o' k') /\
  (forall a c, bal s' a c = bal s a c - (if LedgerFacts.hit sender 0 a c then com else 0)) /\
  com <= bal s sender 0 /\ s_lock s' = s_lock s /\ entries_nodup (s_wait s').
Proof.
  intros H Hnd. destruct (leave_accept _ _ _ _ _ _ _ _ H) as (le & Hle & -> & Hcom & _).
  cbn zeta. rewrite apply_effs_cons, apply_effs_app.
  remember (apply_eff s (EBal sender 0 (- com))) as s0 eqn:Es0.
  assert (Hs1 : s_stakes s0 = s_stakes s) by (subst s0; reflexivity).
  assert (Hs2 : s_updates s0 = s_updates s) by (subst s0; reflexivity).
  assert (Hs3 : s_wait s0 = s_wait s) by (subst s0; reflexivity).
  assert (Hs4 : s_frozen s0 = s_frozen s) by (subst s0; reflexivity).
  assert (Hs5 : s_lock s0 = s_lock s) by (subst s0; reflexivity).
  (* leave_effs reads the candidate registry and the entries only: the same effects come out of s0 *)
  assert (Hle0 : leave_effs s0 sender cand coin value = Val le) by (subst s0; exact Hle).
  assert (Hnd0 : entries_nodup (s_wait s0)) by (rewrite Hs3; exact Hnd).
  destruct (leave_effs_spec _ _ _ _ _ _ Hle0 Hnd0) as (Hf & Hb & Hu0 & Hl0 & Hsum0 & Hother0 & Hnd0').
  rewrite Hs1, Hs3 in Hsum0. rewrite Hs2 in Hu0. rewrite Hs5 in Hl0.
  remember (apply_effs s0 le) as s1 eqn:Es1.
  change (apply_effs s1 [EFund f]) with (set_frozen s1 (s_frozen s1 ++ [f])).
  cbn [s_frozen s_stakes s_updates s_wait s_lock set_frozen].
  split. { subst s1. rewrite apply_effs_frozen, Hf, app_nil_r, Hs4. reflexivity. }
  split. { unfold staked. cbn [s_stakes s_updates s_wait set_frozen]. rewrite Hu0. lia. }
  split. { intros c' o' k' Hne. unfold staked. cbn [s_stakes s_updates s_wait set_frozen]. rewrite Hu0.
           destruct (Hother0 c' o' k' Hne) as [H1 H2]. rewrite H1, H2, Hs1, Hs3. reflexivity. }
  split. { intros a c. unfold bal at 1. cbn [s_bal set_frozen]. fold (bal s1 a c). subst s1. rewrite apply_effs_bal, Hb.
           subst s0. unfold bal. cbn [apply_eff s_bal set_bal]. rewrite LedgerFacts.get_bal_add_bal.
           destruct (LedgerFacts.hit sender 0 a c); lia. }
  split; [exact Hcom|]. split; [exact Hl0|exact Hnd0'].
Qed.

(* ---- Run, per transaction type -------------------------------------------------------------------------- *)
Ltac res_inv H := cbv beta zeta in H; repeat res_step H.

Lemma leave_reject_nonzero s sender com cand coin value f c : leave s sender com cand coin value f = Reject c -> c <> 0.
Proof.
  unfold leave, leave_check. intros H.
  repeat match type of H with
         | Reject _ = Reject _ => injection H as <-; try discriminate
         | Accept _ = Reject _ => discriminate H
         | Crash _ = Reject _ => discriminate H
         | (if ?b then _ else _) = Reject _ => destruct b
         | (match ?x with _ => _ end) = Reject _ => let E := fresh "E" in destruct x eqn:E
         end; try discriminate;
  repeat match goal with
         | E : (if ?b then _ else _) = Some _ |- _ => destruct b
         | E : (match ?x with _ => _ end) = Some _ |- _ => destruct x
         | E : Some _ = Some _ |- _ => injection E as <-
         | E : None = Some _ |- _ => discriminate E
         end; discriminate.
Qed.

Lemma run_reject_nonzero P s t c : run P s t = Reject c -> c <> 0.
Proof.
  unfold run. intros H. destruct (t_data t);
  repeat match type of H with
         | Reject _ = Reject _ => injection H as <-; discriminate
         | Accept _ = Reject _ => discriminate H
         | leave _ _ _ _ _ _ _ = Reject _ => exact (leave_reject_nonzero _ _ _ _ _ _ _ _ H)
         | (if ?b then _ else _) = Reject _ => destruct b
         end.
Qed.

Lemma negb_false_true b : negb b = false -> b = true.
Proof. destruct b; [reflexivity|discriminate]. Qed.

Lemma run_unbond P s t cand coin value effs :
  t_data t = Unbond cand coin value -> run P s t = Accept effs ->
  lock_until s (t_sender t) <= s_height s /\ 0 < value /\ coin_exists s coin = true /\
  leave s (t_sender t) (t_com t) cand coin value
        (mkfund (s_height s + p_unbond P) (t_sender t) (cand_id s cand) coin value 0) = Accept effs.
Proof.
  unfold run. intros -> H.
  destruct (s_height s <? lock_until s (t_sender t)) eqn:E1; [discriminate|].
  destruct (value <=? 0) eqn:E2; [discriminate|].
  destruct (negb (coin_exists s coin)) eqn:E3; [discriminate|].
  split; [lia|]. split; [lia|]. split; [apply negb_false_true, E3|exact H].
Qed.

Lemma run_move P s t from to coin value effs :
  t_data t = MoveStake from to coin value -> run P s t = Accept effs ->
  0 < value /\ from <> to /\ coin_exists s coin = true /\ cand_exists s to = true /\
  leave s (t_sender t) (t_com t) from coin value
        (mkfund (s_height s + p_move P) (t_sender t) (cand_id s from) coin value (cand_id s to)) = Accept effs.
Proof.
  unfold run. intros -> H.
  destruct (value <=? 0) eqn:E2; [discriminate|].
  destruct (from =? to) eqn:E1; [discriminate|].
  destruct (negb (coin_exists s coin)) eqn:E3; [discriminate|].
  destruct (negb (cand_exists s to)) eqn:E4; [discriminate|].
  split; [lia|]. split; [lia|]. split; [apply negb_false_true, E3|]. split; [apply negb_false_true, E4|exact H].
Qed.

Lemma run_lock P s t due coin value effs :
  t_data t = Lock due coin value -> run P s t = Accept effs ->
  s_height s < due /\ coin_exists s coin = true /\
  (coin <> 0 -> value <= bal s (t_sender t) coin) /\
  (if coin =? 0 then value + t_com t else t_com t) <= bal s (t_sender t) 0 /\
  effs = [EBal (t_sender t) 0 (- t_com t); EBal (t_sender t) coin (- value); EFund (mkfund due (t_sender t) 0 coin value 0)].
Proof.
  unfold run. intros -> H.
  destruct (due <=? s_height s) eqn:E1; [discriminate|].
  destruct (negb (coin_exists s coin)) eqn:E3; [discriminate|].
  apply negb_false_true in E3.
  destruct (if coin =? 0 then false else bal s (t_sender t) coin <? value) eqn:E4; [discriminate|].
  destruct (bal s (t_sender t) 0 <? (if coin =? 0 then value + t_com t else t_com t)) eqn:E5; [discriminate|].
  injection H as <-.
  split; [lia|]. split; [exact E3|]. split; [|split; [lia|reflexivity]].
  intros Hne. destruct (coin =? 0) eqn:E6; lia.
Qed.

Lemma run_lockstake P s t effs :
  t_data t = LockStake -> run P s t = Accept effs ->
  t_com t <= bal s (t_sender t) 0 /\
  effs = [EBal (t_sender t) 0 (- t_com t); ELock (t_sender t) (s_height s + p_lockstake P)].
Proof.
  unfold run. intros -> H.
  destruct (bal s (t_sender t) 0 <? t_com t) eqn:E1; [discriminate|]. injection H as <-. split; [lia|reflexivity].
Qed.

Lemma run_delegate P s t cand coin value hr verdict effs :
  t_data t = Delegate cand coin value hr verdict -> run P s t = Accept effs ->
  cand_exists s cand = true /\ fund_effs effs = [] /\
  (forall a c, bal_deltas effs a c = - (if LedgerFacts.hit (t_sender t) 0 a c then t_com t else 0)
                                    - (if LedgerFacts.hit (t_sender t) coin a c then value else 0)).
Proof.
  unfold run. intros -> H.
  destruct (negb (coin_exists s coin)); [discriminate|].
  destruct (negb hr); [discriminate|].
  destruct (value + match wait_get s (t_sender t) cand coin with Some wv => wv | None => 0 end <? 1); [discriminate|].
  destruct (negb (cand_exists s cand)) eqn:E4; [discriminate|].
  destruct (verdict =? 1); [discriminate|]. destruct (verdict =? 2); [discriminate|].
  destruct (bal s (t_sender t) 0 <? t_com t); [discriminate|].
  destruct (bal s (t_sender t) coin <? value); [discriminate|].
  destruct ((coin =? 0) && (bal s (t_sender t) 0 <? value + t_com t)); [discriminate|].
  injection H as <-. split; [apply negb_false_true, E4|].
  destruct (wait_get s (t_sender t) cand coin); cbn [app fund_effs flat_map]; (split; [reflexivity|]);
    intros a c; unfold bal_deltas; cbn [map bal_delta sum_Z fold_right];
    destruct (LedgerFacts.hit (t_sender t) 0 a c); destruct (LedgerFacts.hit (t_sender t) coin a c); lia.
Qed.

(* ---- DeliverTx ------------------------------------------------------------------------------------------------ *)
Lemma fund_effs_app a b : fund_effs (a ++ b) = fund_effs a ++ fund_effs b.
Proof. unfold fund_effs. apply flat_map_app. Qed.
Lemma bal_deltas_cons e l a c : bal_deltas (e :: l) a c = bal_delta a c e + bal_deltas l a c.
Proof. reflexivity. Qed.
Lemma bal_deltas_app l1 l2 a c : bal_deltas (l1 ++ l2) a c = bal_deltas l1 a c + bal_deltas l2 a c.
Proof. unfold bal_deltas. rewrite map_app. apply LedgerFacts.sumZ_app. Qed.

Lemma leave_effs_plain s sender cand coin value le :
  leave_effs s sender cand coin value = Val le -> fund_effs le = [] /\ (forall a c, bal_deltas le a c = 0).
Proof.
  unfold leave_effs. intros H.
  repeat match type of H with
         | Val _ = Val _ => injection H as <-
         | Panic _ = Val _ => discriminate H
         | (if ?b then _ else _) = Val _ => destruct b
         | (match ?x with _ => _ end) = Val _ => destruct x
         end; (split; [reflexivity|intros; reflexivity]).
Qed.

Lemma leave_accept_shape s sender com cand coin value f effs :
  leave s sender com cand coin value f = Accept effs ->
  fund_effs effs = [f] /\ (forall a c, bal_deltas effs a c = - (if LedgerFacts.hit sender 0 a c then com else 0)).
Proof.
  intros H. destruct (leave_accept _ _ _ _ _ _ _ _ H) as (le & Hle & -> & _ & _).
  destruct (leave_effs_plain _ _ _ _ _ _ Hle) as [Hf Hb]. split.
  - change (EBal sender 0 (- com) :: le ++ [EFund f]) with ([EBal sender 0 (- com)] ++ le ++ [EFund f]).
    rewrite !fund_effs_app, Hf. reflexivity.
  - intros a c. rewrite bal_deltas_cons, bal_deltas_app, Hb. unfold bal_deltas. cbn [map bal_delta sum_Z fold_right].
    destruct (LedgerFacts.hit sender 0 a c); lia.
Qed.

(* the funds an accepted transaction creates are due strictly after the current block, and an
   accepted transaction credits no balance *)
Lemma run_accept_shape P s t effs :
  periods_pos P -> wf_tx t -> run P s t = Accept effs ->
  Forall (fun f => s_height s < f_due f) (fund_effs effs) /\ (forall a c, bal_deltas effs a c <= 0).
Proof.
  intros (HU & HM & HL) (Hcom & Hffee & Hd) H. destruct (t_data t) as [cand coin value|from to coin value| |due coin value|cand coin value hr verdict] eqn:Ed.
  - destruct (run_unbond _ _ _ _ _ _ _ Ed H) as (_ & _ & _ & Hl). destruct (leave_accept_shape _ _ _ _ _ _ _ _ Hl) as [Hf Hb].
    rewrite Hf. split; [constructor; [cbn; lia|constructor]|]. intros a c. rewrite Hb. destruct (LedgerFacts.hit _ _ _ _); lia.
  - destruct (run_move _ _ _ _ _ _ _ _ Ed H) as (_ & _ & _ & _ & Hl). destruct (leave_accept_shape _ _ _ _ _ _ _ _ Hl) as [Hf Hb].
    rewrite Hf. split; [constructor; [cbn; lia|constructor]|]. intros a c. rewrite Hb. destruct (LedgerFacts.hit _ _ _ _); lia.
  - destruct (run_lockstake _ _ _ _ Ed H) as (_ & ->). split; [constructor|].
    intros a c. unfold bal_deltas. cbn [map bal_delta sum_Z fold_right]. destruct (LedgerFacts.hit _ _ _ _); lia.
  - destruct (run_lock _ _ _ _ _ _ _ Ed H) as (Hdue & _ & _ & _ & ->). split; [constructor; [cbn; lia|constructor]|].
    intros a c. unfold bal_deltas. cbn [map bal_delta sum_Z fold_right].
    destruct (LedgerFacts.hit (t_sender t) 0 a c); destruct (LedgerFacts.hit (t_sender t) coin a c); lia.
  - destruct (run_delegate _ _ _ _ _ _ _ _ _ Ed H) as (_ & Hf & Hb). rewrite Hf. split; [constructor|].
    intros a c. rewrite Hb. destruct (LedgerFacts.hit (t_sender t) 0 a c); destruct (LedgerFacts.hit (t_sender t) coin a c); lia.
Qed.

Lemma failed_effs_shape s t :
  forallb (fun e => match e with EBal _ _ _ => true | _ => false end) (failed_effs s t) = true /\
  (0 <= t_ffee t -> forall a c, bal_deltas (failed_effs s t) a c <= 0 /\
                                (a = t_sender t -> c = 0 -> - t_ffee t <= bal_deltas (failed_effs s t) a c) /\
                                ((a, c) <> (t_sender t, 0) -> bal_deltas (failed_effs s t) a c = 0)).
Proof.
  unfold failed_effs. destruct (0 <? bal s (t_sender t) 0) eqn:E; (split; [reflexivity|]); intros Hf a c;
    unfold bal_deltas; cbn [map bal_delta sum_Z fold_right].
  - destruct (LedgerFacts.hit (t_sender t) 0 a c) eqn:Eh.
    + split; [destruct (bal s (t_sender t) 0 <? t_ffee t) eqn:E2; lia|].
      split; [intros _ _; destruct (bal s (t_sender t) 0 <? t_ffee t) eqn:E2; lia|].
      intros Hne. exfalso. unfold LedgerFacts.hit in Eh. apply Hne. f_equal; lia.
    + split; [lia|]. split; [intros; lia|intros; lia].
  - split; [lia|]. split; [intros; lia|intros; lia].
Qed.

(* DeliverTx never removes or rewrites a frozen fund, never credits a balance, keeps the height *)
Lemma deliver_frame P s t s' x :
  periods_pos P -> wf_tx t -> deliver P s t = (s', x) ->
  (exists new, s_frozen s' = s_frozen s ++ new /\ Forall (fun f => s_height s < f_due f) new) /\
  (forall a c, bal s' a c <= bal s a c) /\
  s_height s' = s_height s /\ s_cands s' = s_cands s /\ s_deleted s' = s_deleted s.
Proof.
  intros HP Hwf. unfold deliver. destruct (run P s t) as [c|effs|site] eqn:Er; intros H; injection H as <- <-.
  - destruct (failed_effs_shape s t) as [Hb Hd]. destruct (apply_effs_bal_only _ s Hb) as (_ & _ & _ & Hfz & _).
    destruct (apply_effs_static (failed_effs s t) s) as (Hh & Hc & Hdl & _).
    split; [exists []; rewrite Hfz, app_nil_r; split; [reflexivity|constructor]|].
    split; [|repeat split; assumption]. intros a c0. rewrite apply_effs_bal. destruct Hwf as (_ & Hff & _).
    destruct (Hd Hff a c0) as (Hle & _). lia.
  - destruct (run_accept_shape _ _ _ _ HP Hwf Er) as [Hf Hb].
    destruct (apply_effs_static effs s) as (Hh & Hc & Hdl & _).
    split; [exists (fund_effs effs); split; [apply apply_effs_frozen|exact Hf]|].
    split; [|repeat split; assumption]. intros a c0. rewrite apply_effs_bal. specialize (Hb a c0). lia.
  - split; [exists []; rewrite app_nil_r; split; [reflexivity|constructor]|]. split; [intros; lia|repeat split].
Qed.

Lemma deliver_ok P s t s' : deliver P s t = (s', OTx 0) -> exists effs, run P s t = Accept effs /\ s' = apply_effs s effs.
Proof.
  unfold deliver. destruct (run P s t) as [c|effs|site] eqn:Er; intros H.
  - injection H as <- Hc. exfalso. exact (run_reject_nonzero _ _ _ _ Er Hc).
  - injection H as <-. exists effs. split; reflexivity.
  - discriminate H.
Qed.

(* ---- the three ways a transaction freezes coins ---------------------------------------------------------- *)
Lemma unbond_creates_fund P s t cand coin value s' :
  t_data t = Unbond cand coin value -> entries_nodup (s_wait s) ->
  step P s (OpTx t) = (s', OTx 0) ->
  s_frozen s' = s_frozen s ++ [mkfund (s_height s + p_unbond P) (t_sender t) (cand_id s cand) coin value 0] /\
  staked s' cand (t_sender t) coin = staked s cand (t_sender t) coin - value /\
  (forall c' o' k', (cand, t_sender t, coin) <> (c', o', k') -> staked s' c' o' k' = staked s c' o' k') /\
  0 < value /\ lock_until s (t_sender t) <= s_height s /\
  (forall a c, bal s' a c = bal s a c - (if LedgerFacts.hit (t_sender t) 0 a c then t_com t else 0)) /\
  entries_nodup (s_wait s').
Proof.
  intros Ed Hnd H. cbn [step] in H. destruct (deliver_ok _ _ _ _ H) as (effs & Hr & ->).
  destruct (run_unbond _ _ _ _ _ _ _ Ed Hr) as (Hlock & Hpos & _ & Hl).
  destruct (leave_spec _ _ _ _ _ _ _ _ Hl Hnd) as (H1 & H2 & H3 & H4 & _ & _ & H7).
  repeat split; assumption.
Qed.

Lemma move_creates_fund P s t from to coin value s' :
  t_data t = MoveStake from to coin value -> entries_nodup (s_wait s) ->
  step P s (OpTx t) = (s', OTx 0) ->
  s_frozen s' = s_frozen s ++ [mkfund (s_height s + p_move P) (t_sender t) (cand_id s from) coin value to] /\
  staked s' from (t_sender t) coin = staked s from (t_sender t) coin - value /\
  (forall c' o' k', (from, t_sender t, coin) <> (c', o', k') -> staked s' c' o' k' = staked s c' o' k') /\
  0 < value /\ cand_exists s to = true /\ to <> 0 /\
  (forall a c, bal s' a c = bal s a c - (if LedgerFacts.hit (t_sender t) 0 a c then t_com t else 0)) /\
  entries_nodup (s_wait s').
Proof.
  intros Ed Hnd H. cbn [step] in H. destruct (deliver_ok _ _ _ _ H) as (effs & Hr & ->).
  destruct (run_move _ _ _ _ _ _ _ _ Ed Hr) as (Hpos & _ & _ & Hto & Hl).
  destruct (cand_exists_id _ _ Hto) as [Hid Htopos]. rewrite Hid in Hl.
  destruct (leave_spec _ _ _ _ _ _ _ _ Hl Hnd) as (H1 & H2 & H3 & H4 & _ & _ & H7).
  repeat split; try assumption; try lia.
Qed.

Lemma lock_creates_fund P s t due coin value s' :
  t_data t = Lock due coin value ->
  step P s (OpTx t) = (s', OTx 0) ->
  s_frozen s' = s_frozen s ++ [mkfund due (t_sender t) 0 coin value 0] /\ s_height s < due /\
  (forall a c, bal s' a c = bal s a c - (if LedgerFacts.hit (t_sender t) 0 a c then t_com t else 0)
                                      - (if LedgerFacts.hit (t_sender t) coin a c then value else 0)) /\
  s_stakes s' = s_stakes s /\ s_updates s' = s_updates s /\ s_wait s' = s_wait s.
Proof.
  intros Ed H. cbn [step] in H. destruct (deliver_ok _ _ _ _ H) as (effs & Hr & ->).
  destruct (run_lock _ _ _ _ _ _ _ Ed Hr) as (Hdue & _ & _ & _ & ->).
  split; [reflexivity|]. split; [exact Hdue|]. split; [|repeat split].
  intros a c. rewrite apply_effs_bal. unfold bal_deltas. cbn [map bal_delta sum_Z fold_right].
  destruct (LedgerFacts.hit (t_sender t) 0 a c); destruct (LedgerFacts.hit (t_sender t) coin a c); lia.
Qed.

(* MoveStake is accepted only towards an existing candidate *)
Lemma move_target_exists P s t from to coin value s' :
  t_data t = MoveStake from to coin value -> step P s (OpTx t) = (s', OTx 0) -> cand_exists s to = true.
Proof.
  intros Ed H. cbn [step] in H. destruct (deliver_ok _ _ _ _ H) as (effs & Hr & ->).
  destruct (run_move _ _ _ _ _ _ _ _ Ed Hr) as (_ & _ & _ & Hto & _). exact Hto.
Qed.

(* ---- LockStake --------------------------------------------------------------------------------------------------- *)
Lemma lockstake_sets_until P s t s' :
  t_data t = LockStake -> step P s (OpTx t) = (s', OTx 0) -> lock_until s' (t_sender t) = s_height s + p_lockstake P.
Proof.
  intros Ed H. cbn [step] in H. destruct (deliver_ok _ _ _ _ H) as (effs & Hr & ->).
  destruct (run_lockstake _ _ _ _ Ed Hr) as (_ & ->).
  unfold lock_until. cbn [apply_effs fold_left apply_eff s_lock set_lock set_bal lock_of]. rewrite Z.eqb_refl. reflexivity.
Qed.

(* while the sender's stake is locked (LockStakeUntilBlock > current block) Unbond is rejected with
   UnbondBlocked whatever else it says, and only the failed-transaction fee is charged *)
Lemma locked_no_unbond P s t cand coin value s' x :
  t_data t = Unbond cand coin value -> s_height s < lock_until s (t_sender t) -> 0 <= t_ffee t ->
  step P s (OpTx t) = (s', x) ->
  x = OTx 416 /\
  s_stakes s' = s_stakes s /\ s_updates s' = s_updates s /\ s_wait s' = s_wait s /\ s_frozen s' = s_frozen s /\
  s_lock s' = s_lock s /\
  (forall a c, bal s' a c <= bal s a c) /\ bal s (t_sender t) 0 - t_ffee t <= bal s' (t_sender t) 0 /\
  (forall a c, (a, c) <> (t_sender t, 0) -> bal s' a c = bal s a c).
Proof.
  intros Ed Hlock Hff H. cbn [step] in H. unfold deliver, run in H. rewrite Ed in H.
  replace (s_height s <? lock_until s (t_sender t)) with true in H by lia.
  injection H as <- <-. split; [reflexivity|].
  destruct (failed_effs_shape s t) as [Hb Hd]. destruct (apply_effs_bal_only _ s Hb) as (H1 & H2 & H3 & H4 & H5).
  repeat split; try assumption.
  - intros a c. rewrite apply_effs_bal. destruct (Hd Hff a c) as (Hle & _). lia.
  - rewrite apply_effs_bal. destruct (Hd Hff (t_sender t) 0) as (_ & Hge & _). specialize (Hge eq_refl eq_refl). lia.
  - intros a c Hne. rewrite apply_effs_bal. destruct (Hd Hff a c) as (_ & _ & Hz). rewrite (Hz Hne). lia.
Qed.

(* ---- no transaction makes the node panic --------------------------------------------------------------------- *)
Lemma leave_never_crashes s sender com cand coin value f site :
  0 < value -> leave s sender com cand coin value f <> Crash site.
Proof.
  intros Hpos. unfold leave. destruct (leave_check s sender cand coin value) eqn:Ec; [discriminate|].
  destruct (bal s sender 0 <? com); [discriminate|].
  destruct (leave_no_crash _ _ _ _ _ Hpos Ec) as (le & ->). discriminate.
Qed.

Lemma run_never_crashes P s t site : run P s t <> Crash site.
Proof.
  unfold run. destruct (t_data t); cbv zeta;
    repeat match goal with |- (if ?b then _ else _) <> _ => let E := fresh "E" in destruct b eqn:E end;
    try discriminate; apply leave_never_crashes; lia.
Qed.

Lemma deliver_never_crashes P s t : is_crash (snd (deliver P s t)) = false.
Proof.
  unfold deliver. destruct (run P s t) as [c|effs|site] eqn:Er; [reflexivity|reflexivity|].
  exfalso. exact (run_never_crashes _ _ _ _ Er).
Qed.
