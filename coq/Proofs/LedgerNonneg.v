(* LedgerNonneg.v — C02 on the ledger model: balances, volumes and frozen funds never go negative,
   volumes never exceed the maximum supply. *)
From Minter Require Import Base Ledger LedgerFacts LedgerTx LedgerProps LedgerCons LedgerReg.
From Coq Require Import ZArith List Bool Lia.
Import ListNotations.
Open Scope Z_scope.

(* ---- the per-coin totals checkBalances computes for a multisend ------------------------------- *)
Definition tot_of (tot : list (Z * Z)) (k : Z) : Z := sum_Z (map (fun cv : Z * Z => if fst cv =? k then snd cv else 0) tot).
Definition items_sum (items : list (Z * Z * Z)) (k : Z) : Z :=
  sum_Z (map (fun it : Z * Z * Z => let '(c, _, v) := it in if c =? k then v else 0) items).

Lemma tot_of_add_total tot c v k : tot_of (add_total tot c v) k = tot_of tot k + (if c =? k then v else 0).
Proof.
  induction tot as [|[c' v'] r IH]; cbn [add_total].
  - unfold tot_of. cbn. lia.
  - destruct (Z.eqb_spec c' c) as [->|Hne].
    + unfold tot_of. cbn [map fst snd]. rewrite !sumZ_cons. destruct (c =? k); lia.
    + unfold tot_of in *. cbn [map fst snd]. rewrite !sumZ_cons, IH. lia.
Qed.

Lemma add_total_keys tot c v : NoDup (map fst tot) -> NoDup (map fst (add_total tot c v)) /\
  (forall k, In k (map fst (add_total tot c v)) <-> k = c \/ In k (map fst tot)).
Proof.
  induction tot as [|[c' v'] r IH]; cbn [add_total map fst]; intros Hnd.
  - split; [constructor; [intros []|constructor]|]. intros k. cbn. intuition congruence.
  - inversion Hnd as [|x l Hni Hnd']; subst. destruct (Z.eqb_spec c' c) as [->|Hne]; cbn [map fst].
    + split; [exact Hnd|]. intros k. cbn. intuition congruence.
    + destruct (IH Hnd') as [A B]. split.
      * constructor; [|exact A]. intros Hin. apply B in Hin. destruct Hin as [->|Hin]; [congruence|contradiction].
      * intros k. cbn. rewrite B. intuition congruence.
Qed.

Lemma totals_fold (items : list (Z * Z * Z)) : forall tot k, NoDup (map fst tot) ->
  let res := fold_left (fun tot (it : Z * Z * Z) => let '(c, _, v) := it in add_total tot c v) items tot in
  tot_of res k = tot_of tot k + items_sum items k /\ NoDup (map fst res).
Proof.
  induction items as [|[[c to] v] r IH]; intros tot k Hnd; cbn [fold_left].
  - unfold items_sum. cbn. split; [lia|exact Hnd].
  - destruct (add_total_keys tot c v Hnd) as [Hnd' _]. destruct (IH (add_total tot c v) k Hnd') as [A B].
    split; [|exact B]. cbn zeta in A. rewrite A, tot_of_add_total. unfold items_sum. cbn [map]. rewrite sumZ_cons. lia.
Qed.

Lemma tot_of_unique tot k v : NoDup (map fst tot) -> In (k, v) tot -> tot_of tot k = v.
Proof.
  induction tot as [|[c' v'] r IH]; [intros _ []|]. cbn [map fst]. intros Hnd [E|Hin].
  - injection E as -> ->. inversion Hnd as [|x l Hni _]; subst. unfold tot_of. cbn [map fst snd]. rewrite sumZ_cons, Z.eqb_refl.
    assert (sum_Z (map (fun cv : Z * Z => if fst cv =? k then snd cv else 0) r) = 0).
    { clear - Hni. induction r as [|[c2 v2] r IH]; [reflexivity|]. cbn [map fst snd]. rewrite sumZ_cons.
      destruct (Z.eqb_spec c2 k) as [->|_]; [exfalso; apply Hni; left; reflexivity|]. rewrite IH; [lia|]. intros H. apply Hni. right. exact H. }
    lia.
  - inversion Hnd as [|x l Hni Hnd']; subst. unfold tot_of. cbn [map fst snd]. rewrite sumZ_cons.
    destruct (Z.eqb_spec c' k) as [->|_]; [exfalso; apply Hni; apply (in_map fst) in Hin; exact Hin|]. fold (tot_of r k). rewrite (IH Hnd' Hin). lia.
Qed.

Lemma tot_of_absent tot k : ~ In k (map fst tot) -> tot_of tot k = 0.
Proof.
  induction tot as [|[c' v'] r IH]; [reflexivity|]. cbn [map fst]. intros Hni. unfold tot_of. cbn [map fst snd]. rewrite sumZ_cons.
  destruct (Z.eqb_spec c' k) as [->|_]; [exfalso; apply Hni; left; reflexivity|]. fold (tot_of r k). rewrite IH; [lia|]. intros H. apply Hni. right. exact H.
Qed.

(* the guard of checkBalances: the sender holds the total of every coin *)
Lemma multisend_guard (bal : Z -> Z) gc com items :
  forallb (fun cv : Z * Z => negb (bal (fst cv) <? snd cv)) (multisend_totals gc com items) = true ->
  (forall k, 0 <= bal k) ->
  forall k, (if gc =? k then com else 0) + items_sum items k <= bal k \/
            ((if gc =? k then com else 0) + items_sum items k = 0).
Proof.
  intros Hg Hb k. unfold multisend_totals in Hg.
  destruct (totals_fold items [(gc, com)] k) as [A B]; [cbn; constructor; [intros []|constructor]|]. cbn zeta in A, B.
  set (res := fold_left _ items [(gc, com)]) in *.
  assert (E0 : tot_of [(gc, com)] k = if gc =? k then com else 0) by (unfold tot_of; cbn; lia).
  rewrite E0 in A.
  destruct (in_dec Z.eq_dec k (map fst res)) as [Hin|Hni].
  - left. apply in_map_iff in Hin. destruct Hin as ([k' v] & Ek & Hin). cbn in Ek. subst k'.
    rewrite forallb_forall in Hg. specialize (Hg _ Hin). cbn [fst snd] in Hg. apply negb_true_iff, Z.ltb_ge in Hg.
    rewrite <- A, (tot_of_unique res k v B Hin). exact Hg.
  - right. rewrite <- A. apply tot_of_absent. exact Hni.
Qed.

Lemma items_bal_lower sender a k (items : list (Z * Z * Z)) :
  Forall (fun it : Z * Z * Z => 0 <= snd it) items ->
  - (if a =? sender then items_sum items k else 0)
  <= sum_Z (map (bal_delta a k) (flat_map (fun it : Z * Z * Z => let '(c, to, v) := it in [EBal sender c (- v); EBal to c v]) items)).
Proof.
  intros Hf. induction items as [|[[c0 to] v] r IH]; [cbn; destruct (a =? sender); cbn; lia|].
  inversion Hf as [|x l Hv Hr]; subst. cbn [snd] in Hv. specialize (IH Hr).
  cbn [flat_map]. sums. unfold items_sum in *. cbn [map]. rewrite sumZ_cons. cbn [bal_delta sum_Z fold_right].
  unfold hit. destruct (Z.eqb_spec a sender) as [->|Hne].
  - rewrite Z.eqb_refl. cbn [andb]. destruct (c0 =? k); destruct ((to =? sender) && _); lia.
  - replace (sender =? a) with false by (symmetry; apply Z.eqb_neq; congruence). cbn [andb].
    destruct ((to =? a) && (c0 =? k)); lia.
Qed.

(* ---- balances stay non-negative -------------------------------------------------------------------- *)
Definition bal_nonneg (s : st) : Prop := forall a k, 0 <= get_bal (s_bal s) a k.

Lemma run_bal_nonneg s t effs a k :
  run s t = inr effs -> wf_data (t_data t) -> 0 <= tx_price (s_prices s) t -> bal_nonneg s ->
  0 <= get_bal (s_bal s) a k + bal_deltas effs a k.
Proof.
  intros H Hwf Hp Hb. pose proof (Hb a k) as Hak. pose proof (Hb (sender_of t)) as Hs.
  run_inv H; subst effs; cbn [wf_data] in Hwf;
    match goal with Ec : calc_commission _ _ = Some ?z |- _ => pose proof (calc_commission_nonneg _ _ _ Hp Ec) end;
    decode_tests; unfold bal_deltas, fee_effs; sums.
  all: try (cbn [bal_delta sum_Z fold_right]; unfold hit;
            repeat match goal with |- context [?x =? ?y] => destruct (Z.eqb_spec x y) end; cbn [andb]; subst;
            repeat match goal with H : context [?x =? ?y] |- _ => destruct (Z.eqb_spec x y); try congruence end;
            try pose proof (Hb issuer coin); try pose proof (Hb issuer gascoin); lia).
  (* multisend *)
  pose proof (multisend_guard (fun c => get_bal (s_bal s) (sender_of t) c) (t_gas_coin t) z items E3 Hs k) as HG.
  pose proof (items_bal_lower (sender_of t) a k items Hwf) as HL.
  cbn [bal_delta sum_Z fold_right]. unfold hit.
  destruct (Z.eqb_spec a (sender_of t)) as [->|Hne].
  - rewrite Z.eqb_refl in *. cbn [andb]. destruct (t_gas_coin t =? k); lia.
  - replace (sender_of t =? a) with false by (symmetry; apply Z.eqb_neq; congruence). cbn [andb]. lia.
Qed.

(* a delivered transaction keeps every balance non-negative *)
Lemma deliver_bal_nonneg s t s' c :
  deliver s t = (s', c) -> wf_data (t_data t) -> 0 <= failed_price (s_prices s) t -> bal_nonneg s -> bal_nonneg s'.
Proof.
  intros HD Hwf Hfp Hb a k.
  destruct (deliver_cases _ _ _ _ HD) as [[-> _]|[(c0 & effs & _ & _ & EF & -> & _)|(effs & ER & EG & _ & ->)]].
  - apply Hb.
  - destruct (failed_branch_shape _ _ _ _ _ EF) as [->|(payer & com & EP & EC & Hpos & _ & ->)]; [apply Hb|].
    rewrite apply_effs_bal. unfold bal_deltas. sums. cbn [bal_delta sum_Z fold_right].
    pose proof (calc_commission_nonneg _ _ _ Hfp EC). pose proof (Hb a k).
    destruct (hit payer (t_gas_coin t) a k) eqn:Eh; [apply hit_true in Eh; destruct Eh as [<- <-]|]; lia.
  - destruct (gate_pass _ _ EG) as (_ & _ & _ & _ & _ & _ & Hp).
    rewrite !apply_effs_bal. pose proof (run_bal_nonneg _ _ _ a k ER Hwf Hp Hb). pose proof (symbol_effs_bal s t a k). lia.
Qed.

Lemma begin_block_bal_nonneg s h : bal_nonneg s -> (forall f, In f (s_frozen s) -> 0 <= snd f) -> bal_nonneg (begin_block s h).
Proof.
  intros Hb Hf a k. unfold begin_block. rewrite apply_effs_bal. cbn [set_frozen set_height s_bal].
  assert (0 <= bal_deltas (map (fun f : Z * Z * Z * Z => let '(_, a, c, v) := f in EBal a c v)
                              (filter (fun f : Z * Z * Z * Z => let '(d, _, _, _) := f in d =? h) (s_frozen s))) a k).
  { assert (Hd : forall f, In f (filter (fun f : Z * Z * Z * Z => let '(d, _, _, _) := f in d =? h) (s_frozen s)) -> 0 <= snd f)
      by (intros f Hin; apply filter_In in Hin; apply Hf; tauto).
    induction (filter _ (s_frozen s)) as [|[[[d a0] c0] v] r IH]; [unfold bal_deltas; cbn; lia|].
    unfold bal_deltas in *. cbn [map bal_delta]. rewrite sumZ_cons.
    pose proof (Hd _ (or_introl eq_refl)) as Hv. cbn [snd] in Hv.
    assert (0 <= sum_Z (map (bal_delta a k) (map (fun f : Z * Z * Z * Z => let '(_, a1, c, v0) := f in EBal a1 c v0) r)))
      by (apply IH; intros f Hin; apply Hd; right; exact Hin).
    destruct (hit a0 c0 a k); lia. }
  pose proof (Hb a k). lia.
Qed.

(* frozen funds are never negative: they are only created by Lock with a decoded (non-negative) value *)
Definition frozen_nonneg (s : st) : Prop := forall f, In f (s_frozen s) -> 0 <= snd f.

Lemma run_frozen_nonneg s t effs f : run s t = inr effs -> wf_data (t_data t) -> In f (frozen_effs effs) -> 0 <= snd f.
Proof.
  intros H Hwf Hin. run_inv H; subst effs; cbn [wf_data] in Hwf; unfold frozen_effs, fee_effs in Hin;
    cbn [flat_map app] in Hin; rewrite ?flat_map_app in Hin; cbn [flat_map app] in Hin;
    try (destruct Hin as [<-|[]]; cbn; lia); try contradiction.
  (* multisend *)
  apply in_app_or in Hin. destruct Hin as [Hin|[]].
  exfalso. clear - Hin. induction items as [|[[c0 to] v] r IH]; [exact Hin|]. cbn [flat_map app] in Hin. exact (IH Hin).
Qed.

Lemma deliver_frozen_nonneg s t s' c : deliver s t = (s', c) -> wf_data (t_data t) -> frozen_nonneg s -> frozen_nonneg s'.
Proof.
  intros HD Hwf Hf f Hin.
  destruct (deliver_cases _ _ _ _ HD) as [[-> _]|[(c0 & effs & _ & _ & EF & -> & _)|(effs & ER & EG & _ & ->)]].
  - apply Hf; exact Hin.
  - destruct (failed_branch_shape _ _ _ _ _ EF) as [->|(payer & com & _ & _ & _ & _ & ->)]; rewrite apply_effs_frozen in Hin;
      cbn in Hin; rewrite ?app_nil_r in Hin; apply Hf; exact Hin.
  - rewrite !apply_effs_frozen in Hin.
    assert (E : frozen_effs (snd (symbol_branch s t)) = []) by (destruct (symbol_branch_effs s t) as (sp & _ & [[-> _]| ->]); reflexivity).
    rewrite E, app_nil_r in Hin. apply in_app_or in Hin. destruct Hin as [Hin|Hin]; [apply Hf; exact Hin|exact (run_frozen_nonneg _ _ _ _ ER Hwf Hin)].
Qed.

(* along any history of well-formed transactions, balances and frozen funds stay non-negative *)
Lemma step_nonneg s o :
  (match o with OpTx t => wf_data (t_data t) /\ 0 <= failed_price (s_prices s) t | _ => True end) ->
  bal_nonneg s /\ frozen_nonneg s -> bal_nonneg (step s o) /\ frozen_nonneg (step s o).
Proof.
  intros Hw [Hb Hf]. destruct o as [t|h|]; cbn [step].
  - destruct Hw as [Hw1 Hw2]. destruct (deliver s t) as [s' c] eqn:ED. cbn [fst].
    split; [exact (deliver_bal_nonneg _ _ _ _ ED Hw1 Hw2 Hb)|exact (deliver_frozen_nonneg _ _ _ _ ED Hw1 Hf)].
  - split; [apply begin_block_bal_nonneg; assumption|].
    intros f Hin. unfold begin_block in Hin. rewrite apply_effs_frozen in Hin. cbn [set_frozen set_height s_frozen] in Hin.
    assert (E : forall l : list (Z * Z * Z * Z), frozen_effs (map (fun f : Z * Z * Z * Z => let '(_, a, c, v) := f in EBal a c v) l) = [])
      by (induction l as [|[[[d a0] c0] v] r IH]; [reflexivity|]; cbn [map]; unfold frozen_effs in *; cbn [flat_map app]; exact IH).
    rewrite E, app_nil_r in Hin. apply filter_In in Hin. apply Hf. tauto.
  - split; [exact Hb|exact Hf].
Qed.


(* ---- coin volumes stay within [1, max supply] --------------------------------------------------------- *)
Definition coins_ok (l : list coinrec) : Prop := forall r, In r l -> 1 <= c_vol r <= c_max r.

Lemma in_upd_coin l id f r : In r (upd_coin l id f) -> In r l \/ exists r0, find_coin l id = Some r0 /\ r = f r0.
Proof.
  induction l as [|x l IH]; [intros []|]. cbn [upd_coin find_coin]. destruct (c_id x =? id).
  - intros [<-|H]; [right; exists x; auto|left; right; exact H].
  - intros [<-|H]; [left; left; reflexivity|]. destruct (IH H) as [H'|H']; [left; right; exact H'|right; exact H'].
Qed.

Lemma items_coin_effs sender (items : list (Z * Z * Z)) :
  coin_effs (flat_map (fun it : Z * Z * Z => let '(c, to, v) := it in [EBal sender c (- v); EBal to c v]) items) = [].
Proof. induction items as [|[[c0 to] v] r IH]; [reflexivity|]. cbn [flat_map app]. unfold coin_effs in *. cbn [filter]. exact IH. Qed.

Lemma run_coins_ok s t effs :
  run s t = inr effs -> wf_data (t_data t) -> coins_ok (s_coins s) -> coins_ok (s_coins (apply_effs s effs)).
Proof.
  intros H Hwf Hc. run_inv H; subst effs; cbn [wf_data] in Hwf; decode_tests; unfold fee_effs, min_token_supply in *;
    cbn [apply_effs fold_left apply_eff s_coins set_coins app];
    try exact Hc.
  - (* multisend *)
    match goal with |- context [fold_left apply_eff (?a ++ ?b) ?s0] =>
      change (fold_left apply_eff (a ++ b) s0) with (apply_effs s0 (a ++ b)); rewrite apply_effs_app;
      destruct (apply_effs_coins_same a s0 (items_coin_effs _ _)) as [EQ1 _] end.
    cbn [apply_effs fold_left apply_eff s_coins]. rewrite EQ1. cbn [s_coins]. exact Hc.
  - (* create token *)
    intros r Hr. apply in_app_or in Hr. destruct Hr as [Hr|[<-|[]]]; [apply Hc; exact Hr|cbn; lia].
  - (* recreate token *)
    intros r Hr. apply in_app_or in Hr. destruct Hr as [Hr|[<-|[]]]; [|cbn; lia].
    apply in_upd_coin in Hr. destruct Hr as [Hr|(r0 & EF0 & ->)]; [apply Hc; exact Hr|]. cbn.
    assert (In r0 (s_coins s)) by (clear - EF0; induction (s_coins s) as [|x l IH]; [discriminate|]; cbn in EF0; destruct (c_id x =? _); [injection EF0 as <-; left; reflexivity|right; exact (IH EF0)]).
    apply Hc. assumption.
  - (* mint *)
    intros r Hr. apply in_upd_coin in Hr. destruct Hr as [Hr|(r0 & EF0 & ->)]; [apply Hc; exact Hr|]. cbn.
    assert (r0 = c) by congruence. subst r0.
    assert (In c (s_coins s)) by (clear - EF0; induction (s_coins s) as [|x l IH]; [discriminate|]; cbn in EF0; destruct (c_id x =? _); [injection EF0 as <-; left; reflexivity|right; exact (IH EF0)]).
    pose proof (Hc c H). lia.
  - (* burn *)
    intros r Hr. apply in_upd_coin in Hr. destruct Hr as [Hr|(r0 & EF0 & ->)]; [apply Hc; exact Hr|]. cbn.
    assert (r0 = c) by congruence. subst r0.
    assert (In c (s_coins s)) by (clear - EF0; induction (s_coins s) as [|x l IH]; [discriminate|]; cbn in EF0; destruct (c_id x =? _); [injection EF0 as <-; left; reflexivity|right; exact (IH EF0)]).
    pose proof (Hc c H). lia.
Qed.

Lemma deliver_coins_ok s t s' c : deliver s t = (s', c) -> wf_data (t_data t) -> coins_ok (s_coins s) -> coins_ok (s_coins s').
Proof.
  intros HD Hwf Hc.
  destruct (deliver_cases _ _ _ _ HD) as [[-> _]|[(c0 & effs & _ & _ & EF & -> & _)|(effs & ER & EG & _ & ->)]].
  - exact Hc.
  - destruct (failed_branch_shape _ _ _ _ _ EF) as [->|(payer & com & _ & _ & _ & _ & ->)]; [exact Hc|].
    destruct (apply_effs_coins_same [EBal payer (t_gas_coin t) (- Z.min (get_bal (s_bal s) payer (t_gas_coin t)) com);
                                     ERpool (Z.min (get_bal (s_bal s) payer (t_gas_coin t)) com)] s eq_refl) as [-> _]. exact Hc.
  - assert (E : coin_effs (snd (symbol_branch s t)) = []) by (destruct (symbol_branch_effs s t) as (sp & _ & [[-> _]| ->]); reflexivity).
    destruct (apply_effs_coins_same _ (apply_effs s effs) E) as [-> _]. exact (run_coins_ok _ _ _ ER Hwf Hc).
Qed.

(* ---- histories -------------------------------------------------------------------------------------------- *)
Definition inv2 (s : st) : Prop := bal_nonneg s /\ frozen_nonneg s /\ coins_ok (s_coins s).

Definition wf_tx_p (p : prices) (t : tx) : Prop := wf_data (t_data t) /\ 0 <= failed_price p t.
Definition wf_ops (p : prices) (ops : list op) : Prop := Forall (fun o => match o with OpTx t => wf_tx_p p t | _ => True end) ops.

Lemma step_prices s o : s_prices (step s o) = s_prices s.
Proof.
  destruct o as [t|h|]; cbn [step].
  - destruct (deliver s t) as [s' c] eqn:ED. cbn [fst].
    destruct (deliver_cases _ _ _ _ ED) as [[-> _]|[(c0 & effs & _ & _ & _ & -> & _)|(effs & _ & _ & _ & ->)]]; [reflexivity| |].
    + destruct (apply_effs_static effs s) as (A & _). exact A.
    + destruct (apply_effs_static (snd (symbol_branch s t)) (apply_effs s effs)) as (A & _). rewrite A.
      destruct (apply_effs_static effs s) as (B & _). exact B.
  - unfold begin_block. match goal with |- s_prices (apply_effs ?s0 ?l) = _ => destruct (apply_effs_static l s0) as (A & _); rewrite A end. reflexivity.
  - reflexivity.
Qed.

Lemma step_inv2 s o : (match o with OpTx t => wf_tx_p (s_prices s) t | _ => True end) -> inv2 s -> inv2 (step s o).
Proof.
  intros Hw (Hb & Hf & Hc).
  destruct (step_nonneg s o) as [A B]; [destruct o; [exact Hw|exact I|exact I]|split; assumption|].
  split; [exact A|]. split; [exact B|].
  destruct o as [t|h|]; cbn [step].
  - destruct (deliver s t) as [s' c] eqn:ED. cbn [fst]. exact (deliver_coins_ok _ _ _ _ ED (proj1 Hw) Hc).
  - unfold begin_block.
    destruct (coin_deltas_matured (filter (fun f : Z * Z * Z * Z => let '(d, _, _, _) := f in d =? h) (s_frozen s)) 0) as (_ & _ & D3 & _).
    match goal with |- coins_ok (s_coins (apply_effs ?s0 ?l)) => destruct (apply_effs_coins_same l s0 D3) as [-> _] end. exact Hc.
  - exact Hc.
Qed.

Lemma run_ops_inv2 ops : forall s, wf_ops (s_prices s) ops -> inv2 s -> inv2 (run_ops s ops).
Proof.
  induction ops as [|o ops IH]; intros s Hw Hi; [exact Hi|].
  inversion Hw as [|x l Ho Hr]; subst. unfold run_ops. cbn [fold_left]. apply IH.
  - rewrite step_prices. exact Hr.
  - apply step_inv2; assumption.
Qed.
