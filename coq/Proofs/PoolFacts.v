(* PoolFacts.v — lemmas about Model/Pool.v (all magnitudes, unbounded Z). *)
From Minter Require Import Base Consts Pool.
From Coq Require Import ZArith Lia Bool.
Open Scope Z_scope.

Lemma quot_div_nonneg a b : 0 <= a -> 0 < b -> Z.quot a b = a / b.
Proof. intros; apply Z.quot_div_nonneg; lia. Qed.

Lemma quo_val a b : b <> 0 -> quo a b = Val (Z.quot a b).
Proof. intros Hb; unfold quo; destruct (Z.eqb_spec b 0); [contradiction|reflexivity]. Qed.

Lemma ediv_val a b : 0 < b -> ediv a b = Val (a / b).
Proof.
  intros Hb; unfold ediv.
  destruct (Z.eqb_spec b 0); [lia|].
  destruct (Z.ltb_spec 0 b); [reflexivity|lia].
Qed.

(* floor-division facts in the shape nia likes *)
Lemma div_lo a b : 0 < b -> b * (a / b) <= a.
Proof. intros; apply Z.mul_div_le; lia. Qed.
Lemma div_hi a b : 0 < b -> a < b * (a / b + 1).
Proof. intros Hb. pose proof (Z.mod_pos_bound a b Hb). pose proof (Z.div_mod a b). nia. Qed.

Section Trade.
Variables r0 r1 : Z.
Hypothesis Hr0 : 0 < r0.
Hypothesis Hr1 : 0 < r1.

(* --- selling a of coin0 ------------------------------------------------- *)
Lemma buy_for_sell_spec a o :
  0 <= a -> calc_buy_for_sell r0 r1 a = Val o ->
  0 < o /\ o < r1 /\
  r0 * r1 * 1000000 <= ((a + r0) * 1000 - a * swap_commission) * ((r1 - o) * 1000) /\
  r0 * r1 <= (r0 + a) * (r1 - o).
Proof.
  intros Ha H. unfold calc_buy_for_sell, swap_commission in *.
  set (b0 := (a + r0) * 1000 - a * 2) in *.
  assert (Hb0 : 0 < b0) by (unfold b0; lia).
  rewrite quo_val in H by lia. cbn [obind] in H.
  rewrite quot_div_nonneg in H by nia.
  set (q := r0 * r1 * 1000000 / (b0 * 1000)) in *.
  destruct (Z.ltb_spec 0 (r1 - q - 1)) as [Hpos|Hneg]; [|discriminate].
  injection H as <-.
  assert (Hq0 : 0 <= q) by (apply Z.div_pos; nia).
  pose proof (div_hi (r0 * r1 * 1000000) (b0 * 1000) ltac:(lia)) as Hhi. fold q in Hhi.
  split; [lia|]. split; [lia|].
  replace (r1 - (r1 - q - 1)) with (q + 1) by lia.
  split; [nia|].
  assert (b0 <= 1000 * (a + r0)) by (unfold b0; lia).
  nia.
Qed.

Lemma buy_for_sell_check a o :
  0 < a -> calc_buy_for_sell r0 r1 a = Val o -> check_swap r0 r1 a 0 0 o = 0.
Proof.
  intros Ha H. destruct (buy_for_sell_spec a o ltac:(lia) H) as (Ho & Hlt & HK & _).
  unfold check_swap.
  destruct (Z.ltb_spec r0 0); [lia|].
  destruct (Z.ltb_spec r1 o); [lia|]. cbn [orb].
  destruct (Z.ltb_spec 0 0); [lia|].
  destruct (Z.ltb_spec 0 o); [|lia]. cbn [negb andb].
  replace (a - 0) with a by lia.
  destruct (Z.ltb_spec 0 a); [|lia]. cbn [negb andb].
  replace (0 - o + r1) with (r1 - o) by lia.
  replace ((r1 - o) * 1000 - 0 * swap_commission) with ((r1 - o) * 1000) by lia.
  destruct (Z.ltb_spec (((a + r0) * 1000 - a * swap_commission) * ((r1 - o) * 1000)) (r0 * r1 * 1000000)); [lia|reflexivity].
Qed.

Lemma swap_of_check a0in a1out :
  check_swap r0 r1 a0in 0 0 a1out = 0 ->
  swap r0 r1 a0in 0 0 a1out = Val (r0 + a0in, r1 - a1out).
Proof.
  unfold check_swap, swap. intros H.
  destruct ((r0 <? 0) || (r1 <? a1out)) eqn:E1; [discriminate|].
  destruct (negb (0 <? 0) && negb (0 <? a1out)) eqn:E2; [discriminate|].
  replace (a0in - 0) with a0in in * by lia.
  destruct (negb (0 <? a0in) && negb (0 <? 0 - a1out)) eqn:E3; [discriminate|].
  destruct (_ <? _) eqn:E4 in H; [discriminate|]. rewrite E4.
  replace (r1 + (0 - a1out)) with (r1 - a1out) by lia. reflexivity.
Qed.

(* PairSell cannot hit ErrorK / liquidity panics once the amount is computable *)
Lemma pair_sell_ok a o minOut :
  0 < a -> calc_buy_for_sell r0 r1 a = Val o -> minOut <= o ->
  pair_sell r0 r1 a minOut = Val (r0 + a, r1 - o, o).
Proof.
  intros Ha H Hm. unfold pair_sell. rewrite H.
  destruct (Z.ltb_spec o minOut); [lia|].
  rewrite (swap_of_check a o (buy_for_sell_check a o Ha H)). reflexivity.
Qed.

(* --- buying out of coin1 -------------------------------------------------- *)
Lemma sell_for_buy_spec out i :
  0 < out -> calc_sell_for_buy r0 r1 out = Val i ->
  out < r1 /\ 0 < i /\
  r0 * r1 * 1000000 <= ((i + r0) * 1000 - i * swap_commission) * ((r1 - out) * 1000) /\
  r0 * r1 <= (r0 + i) * (r1 - out).
Proof.
  intros Ho H. unfold calc_sell_for_buy, swap_commission in *.
  destruct (Z.ltb_spec r1 out); [discriminate|].
  destruct (Z.ltb_spec out r1) as [Hlt|]; cbn [negb] in H; [|discriminate].
  rewrite quo_val in H by lia. cbn [obind] in H.
  rewrite quo_val in H by lia. cbn [obind] in H.
  injection H as <-.
  rewrite (quot_div_nonneg (r0 * r1 * 1000000)) by nia.
  set (b1 := (r1 - out) * 1000).
  set (q := r0 * r1 * 1000000 / b1).
  assert (Hb1 : 0 < b1) by (unfold b1; lia).
  pose proof (div_hi (r0 * r1 * 1000000) b1 Hb1) as Hhi. fold q in Hhi.
  pose proof (div_lo (r0 * r1 * 1000000) b1 Hb1) as Hlo. fold q in Hlo.
  (* q >= r0*1000 because b1 <= r1*1000 *)
  assert (Hq : r0 * 1000 <= q).
  { unfold q. apply Z.div_le_lower_bound; [lia|]. unfold b1. nia. }
  rewrite quot_div_nonneg by lia.
  set (x := (q - r0 * 1000) / 998).
  pose proof (div_hi (q - r0 * 1000) 998 ltac:(lia)) as Hx. fold x in Hx.
  assert (0 <= x) by (apply Z.div_pos; lia).
  split; [lia|]. split; [lia|].
  assert (HK : r0 * r1 * 1000000 <= ((x + 1 + r0) * 1000 - (x + 1) * 2) * b1).
  { replace ((x + 1 + r0) * 1000 - (x + 1) * 2) with (998 * (x + 1) + r0 * 1000) by lia. nia. }
  split; [exact HK|].
  unfold b1 in HK.
  assert ((x + 1 + r0) * 1000 - (x + 1) * 2 <= 1000 * (r0 + (x + 1))) by lia.
  nia.
Qed.

Lemma sell_for_buy_check out i :
  0 < out -> calc_sell_for_buy r0 r1 out = Val i -> check_swap r0 r1 i 0 0 out = 0.
Proof.
  intros Ho H. destruct (sell_for_buy_spec out i Ho H) as (Hlt & Hi & HK & _).
  unfold check_swap.
  destruct (Z.ltb_spec r0 0); [lia|].
  destruct (Z.ltb_spec r1 out); [lia|]. cbn [orb].
  destruct (Z.ltb_spec 0 0); [lia|].
  destruct (Z.ltb_spec 0 out); [|lia]. cbn [negb andb].
  replace (i - 0) with i by lia.
  destruct (Z.ltb_spec 0 i); [|lia]. cbn [negb andb].
  replace (0 - out + r1) with (r1 - out) by lia.
  replace ((r1 - out) * 1000 - 0 * swap_commission) with ((r1 - out) * 1000) by lia.
  destruct (Z.ltb_spec (((i + r0) * 1000 - i * swap_commission) * ((r1 - out) * 1000)) (r0 * r1 * 1000000)); [lia|reflexivity].
Qed.

Lemma pair_buy_ok out i maxIn :
  0 < out -> calc_sell_for_buy r0 r1 out = Val i -> i <= maxIn ->
  pair_buy r0 r1 maxIn out = Val (r0 + i, r1 - out, i).
Proof.
  intros Ho H Hm. unfold pair_buy. rewrite H.
  destruct (Z.ltb_spec maxIn i); [lia|].
  rewrite (swap_of_check i out (sell_for_buy_check out i Ho H)). reflexivity.
Qed.

End Trade.

(* --- liquidity ------------------------------------------------------------- *)
Section Liquidity.
Variables r0 r1 total : Z.
Hypothesis Hr0 : 0 < r0.
Hypothesis Hr1 : 0 < r1.
Hypothesis Ht : 0 < total.

Lemma mint_spec a0 l n0 n1 :
  0 <= a0 -> mint r0 r1 a0 total = Val (l, n0, n1) ->
  0 < l /\ l = total * a0 / r0 /\ n0 = r0 + a0 /\ n1 = r1 + a0 * r1 / r0 /\ 0 <= a0 * r1 / r0.
Proof.
  intros Ha. unfold mint, calc_add_liquidity.
  rewrite !ediv_val by lia. cbn [obind].
  destruct (Z.ltb_spec 0 (total * a0 / r0)); [|discriminate].
  intros HH; injection HH as <- <- <-.
  repeat split; try lia. apply Z.div_pos; nia.
Qed.

(* add liquidity, then burn exactly the minted pool tokens: neither coin comes back in
   a larger amount than was put in *)
Lemma mint_then_burn a0 l n0 n1 x0 x1 m0 m1 :
  0 <= a0 -> mint r0 r1 a0 total = Val (l, n0, n1) ->
  burn n0 n1 l 0 0 (total + l) = Val (x0, x1, m0, m1) ->
  x0 <= a0 /\ x1 <= a0 * r1 / r0 /\ r0 <= m0 /\ r1 <= m1.
Proof.
  intros Ha Hm Hb.
  destruct (mint_spec a0 l n0 n1 Ha Hm) as (Hl & El & -> & -> & Ha1).
  unfold burn, amounts in Hb. rewrite !ediv_val in Hb by lia. cbn [obind] in Hb.
  destruct (_ || _); [discriminate|]. injection Hb as <- <- <- <-.
  set (a1 := a0 * r1 / r0) in *.
  assert (Hl0 : r0 * l <= total * a0) by (rewrite El; apply div_lo; lia).
  assert (Ha1lo : r0 * a1 <= a0 * r1) by (apply div_lo; lia).
  assert (Ha1hi : a0 * r1 < r0 * (a1 + 1)) by (apply div_hi; lia).
  assert (X0 : l * (r0 + a0) / (total + l) <= a0).
  { apply Z.div_le_upper_bound; [lia|]. nia. }
  assert (X1 : l * (r1 + a1) / (total + l) <= a1).
  { apply Z.lt_succ_r. apply Z.div_lt_upper_bound; [lia|].
    (* l*r1 < total*(a1+1) since r0*l*r1 <= total*a0*r1 < total*r0*(a1+1) *)
    assert (r0 * (l * r1) < r0 * (total * (a1 + 1))) by nia.
    assert (l * r1 < total * (a1 + 1)) by nia. nia. }
  lia.
Qed.

(* removing liquidity returns at most the proportional share, and leaves the reserves
   positive unless the whole supply is burned *)
Lemma burn_share l x0 x1 m0 m1 min0 min1 :
  0 <= l -> l <= total -> burn r0 r1 l min0 min1 total = Val (x0, x1, m0, m1) ->
  x0 * total <= l * r0 /\ x1 * total <= l * r1 /\ 0 <= x0 /\ 0 <= x1 /\
  m0 = r0 - x0 /\ m1 = r1 - x1 /\ 0 <= m0 /\ 0 <= m1 /\ (l < total -> 0 < m0 /\ 0 < m1).
Proof.
  intros Hl0 Hl Hb. unfold burn, amounts in Hb. rewrite !ediv_val in Hb by lia. cbn [obind] in Hb.
  destruct (_ || _); [discriminate|]. injection Hb as <- <- <- <-.
  pose proof (div_lo (l * r0) total Ht). pose proof (div_lo (l * r1) total Ht).
  assert (0 <= l * r0 / total) by (apply Z.div_pos; nia).
  assert (0 <= l * r1 / total) by (apply Z.div_pos; nia).
  assert (l * r0 / total <= r0) by (apply Z.div_le_upper_bound; nia).
  assert (l * r1 / total <= r1) by (apply Z.div_le_upper_bound; nia).
  repeat split; try lia.
  - assert (l * r0 / total < r0); [|lia]. apply Z.div_lt_upper_bound; nia.
  - assert (l * r1 / total < r1); [|lia]. apply Z.div_lt_upper_bound; nia.
Qed.

End Liquidity.

Lemma create_spec a0 a1 l n0 n1 :
  create a0 a1 = Val (l, n0, n1) -> minimum_liquidity < l /\ l = Z.sqrt (a0 * a1) /\ n0 = a0 /\ n1 = a1.
Proof.
  unfold create, starting_supply, isqrt.
  destruct (Z.ltb_spec minimum_liquidity (Z.sqrt (a0 * a1))); [|discriminate].
  intros H'; injection H' as <- <- <-. auto.
Qed.
