(* LedgerFacts.v — facts about Model/Ledger.v: what a list of primitive effects does to each
   component of the state, and what Run / the failed branch / the ticker branch produce. *)
From Minter Require Import Base Ledger.
From Coq Require Import ZArith List Bool Lia.
Import ListNotations.
Open Scope Z_scope.

(* ---- sums ------------------------------------------------------------------------------------ *)
Lemma sumZ_cons x l : sum_Z (x :: l) = x + sum_Z l. Proof. reflexivity. Qed.
Lemma sumZ_app a b : sum_Z (a ++ b) = sum_Z a + sum_Z b.
Proof. induction a as [|x a IH]; [reflexivity|]. rewrite <- app_comm_cons, !sumZ_cons, IH. lia. Qed.

(* ---- balances -------------------------------------------------------------------------------- *)
Definition hit (a c a' c' : Z) : bool := (a =? a') && (c =? c').

Lemma get_bal_cons a0 c0 v l a c :
  get_bal ((a0, c0, v) :: l) a c = (if hit a0 c0 a c then v else 0) + get_bal l a c.
Proof. reflexivity. Qed.

Lemma get_bal_add_bal l a c d a' c' :
  get_bal (add_bal l a c d) a' c' = get_bal l a' c' + (if hit a c a' c' then d else 0).
Proof.
  induction l as [|[[a0 c0] v] l IH]; cbn [add_bal].
  - rewrite get_bal_cons. unfold get_bal; cbn. lia.
  - destruct ((a0 =? a) && (c0 =? c)) eqn:E.
    + apply andb_prop in E. destruct E as [E1 E2]. apply Z.eqb_eq in E1, E2. subst a0 c0.
      rewrite !get_bal_cons. destruct (hit a c a' c'); lia.
    + rewrite !get_bal_cons, IH. lia.
Qed.

(* total amount of coin c over all balance entries *)
Definition sum_coin (l : list (Z * Z * Z)) (c : Z) : Z :=
  sum_Z (map (fun e => let '(_, c', v) := e in if c' =? c then v else 0) l).

Lemma sum_coin_cons a0 c0 v l c : sum_coin ((a0, c0, v) :: l) c = (if c0 =? c then v else 0) + sum_coin l c.
Proof. reflexivity. Qed.

Lemma sum_coin_add_bal l a c d c' :
  sum_coin (add_bal l a c d) c' = sum_coin l c' + (if c =? c' then d else 0).
Proof.
  induction l as [|[[a0 c0] v] l IH]; cbn [add_bal].
  - rewrite sum_coin_cons. unfold sum_coin; cbn. lia.
  - destruct ((a0 =? a) && (c0 =? c)) eqn:E.
    + apply andb_prop in E. destruct E as [_ E2]. apply Z.eqb_eq in E2. subst c0.
      rewrite !sum_coin_cons. destruct (c =? c'); lia.
    + rewrite !sum_coin_cons, IH. lia.
Qed.

(* ---- what an effect list does, component by component ------------------------------------------ *)
Definition bal_delta (a c : Z) (e : eff) : Z :=
  match e with EBal a' c' d => if hit a' c' a c then d else 0 | _ => 0 end.
Definition bal_deltas (l : list eff) (a c : Z) : Z := sum_Z (map (bal_delta a c) l).

Definition coin_delta (c : Z) (e : eff) : Z :=
  match e with EBal _ c' d => if c' =? c then d else 0 | _ => 0 end.
Definition coin_deltas (l : list eff) (c : Z) : Z := sum_Z (map (coin_delta c) l).

Definition rpool_delta (e : eff) : Z := match e with ERpool d => d | _ => 0 end.
Definition rpool_deltas (l : list eff) : Z := sum_Z (map rpool_delta l).

Definition nonce_effs (l : list eff) : list (Z * Z) :=
  flat_map (fun e => match e with ENonce a n => [(a, n)] | _ => [] end) l.
Definition coin_effs (l : list eff) : list eff :=
  filter (fun e => match e with EVol _ _ | ENewCoin _ | EVersion _ _ => true | _ => false end) l.
Definition owner_effs (l : list eff) : list (Z * Z) :=
  flat_map (fun e => match e with EOwner s a => [(s, a)] | _ => [] end) l.
Definition use_effs (l : list eff) : list Z :=
  flat_map (fun e => match e with EUse i => [i] | _ => [] end) l.
Definition msig_effs (l : list eff) : list (Z * (Z * list (Z * Z))) :=
  flat_map (fun e => match e with EMsig a t w => [(a, (t, w))] | _ => [] end) l.
Definition frozen_effs (l : list eff) : list (Z * Z * Z * Z) :=
  flat_map (fun e => match e with EFrozen h a c v => [(h, a, c, v)] | _ => [] end) l.

Lemma rev_cons_app {A} (x : A) l r : rev (x :: l) ++ r = rev l ++ x :: r.
Proof. cbn [rev]. rewrite <- app_assoc. reflexivity. Qed.

Lemma apply_effs_cons s e l : apply_effs s (e :: l) = apply_effs (apply_eff s e) l.
Proof. reflexivity. Qed.

Lemma apply_effs_app s l1 l2 : apply_effs s (l1 ++ l2) = apply_effs (apply_effs s l1) l2.
Proof. unfold apply_effs. apply fold_left_app. Qed.

Lemma apply_effs_bal : forall l s a c,
  get_bal (s_bal (apply_effs s l)) a c = get_bal (s_bal s) a c + bal_deltas l a c.
Proof.
  induction l as [|e l IH]; intros s a c; [unfold bal_deltas; cbn; lia|].
  rewrite apply_effs_cons, IH. unfold bal_deltas. cbn [map]. rewrite sumZ_cons.
  destruct e; cbn [apply_eff s_bal set_coins bal_delta]; try lia.
  rewrite get_bal_add_bal. lia.
Qed.

Lemma apply_effs_sum_coin : forall l s c,
  sum_coin (s_bal (apply_effs s l)) c = sum_coin (s_bal s) c + coin_deltas l c.
Proof.
  induction l as [|e l IH]; intros s c; [unfold coin_deltas; cbn; lia|].
  rewrite apply_effs_cons, IH. unfold coin_deltas. cbn [map]. rewrite sumZ_cons.
  destruct e; cbn [apply_eff s_bal set_coins coin_delta]; try lia.
  rewrite sum_coin_add_bal. lia.
Qed.

Lemma apply_effs_rpool : forall l s, s_rpool (apply_effs s l) = s_rpool s + rpool_deltas l.
Proof.
  induction l as [|e l IH]; intros s; [unfold rpool_deltas; cbn; lia|].
  rewrite apply_effs_cons, IH. unfold rpool_deltas. cbn [map]. rewrite sumZ_cons.
  destruct e; cbn [apply_eff s_rpool set_coins rpool_delta]; lia.
Qed.

Lemma apply_effs_nonce : forall l s, s_nonce (apply_effs s l) = rev (nonce_effs l) ++ s_nonce s.
Proof.
  induction l as [|e l IH]; intros s; [reflexivity|].
  rewrite apply_effs_cons, IH. unfold nonce_effs. cbn [flat_map].
  destruct e; cbn [apply_eff s_nonce set_coins app]; try reflexivity.
  symmetry; apply rev_cons_app.
Qed.

Lemma apply_effs_owner : forall l s, s_symowner (apply_effs s l) = rev (owner_effs l) ++ s_symowner s.
Proof.
  induction l as [|e l IH]; intros s; [reflexivity|].
  rewrite apply_effs_cons, IH. unfold owner_effs. cbn [flat_map].
  destruct e; cbn [apply_eff s_symowner set_coins app]; try reflexivity.
  symmetry; apply rev_cons_app.
Qed.

Lemma apply_effs_used : forall l s, s_used (apply_effs s l) = rev (use_effs l) ++ s_used s.
Proof.
  induction l as [|e l IH]; intros s; [reflexivity|].
  rewrite apply_effs_cons, IH. unfold use_effs. cbn [flat_map].
  destruct e; cbn [apply_eff s_used set_coins app]; try reflexivity.
  symmetry; apply rev_cons_app.
Qed.

Lemma apply_effs_msig : forall l s, s_msig (apply_effs s l) = rev (msig_effs l) ++ s_msig s.
Proof.
  induction l as [|e l IH]; intros s; [reflexivity|].
  rewrite apply_effs_cons, IH. unfold msig_effs. cbn [flat_map].
  destruct e; cbn [apply_eff s_msig set_coins app]; try reflexivity.
  symmetry; apply rev_cons_app.
Qed.

Lemma apply_effs_frozen : forall l s, s_frozen (apply_effs s l) = s_frozen s ++ frozen_effs l.
Proof.
  induction l as [|e l IH]; intros s; [cbn; rewrite app_nil_r; reflexivity|].
  rewrite apply_effs_cons, IH. unfold frozen_effs. cbn [flat_map].
  destruct e; cbn [apply_eff s_frozen set_coins app]; try reflexivity.
  rewrite <- app_assoc. reflexivity.
Qed.

Lemma apply_effs_coins_same : forall l s, coin_effs l = [] -> s_coins (apply_effs s l) = s_coins s /\ s_ncoins (apply_effs s l) = s_ncoins s.
Proof.
  induction l as [|e l IH]; intros s H; [split; reflexivity|].
  rewrite apply_effs_cons. unfold coin_effs in H. cbn [filter] in H.
  destruct e; try discriminate;
    match goal with |- context [apply_effs ?s' l] => destruct (IH s' H) as [A B]; rewrite A, B; split; reflexivity end.
Qed.

Lemma apply_effs_static : forall l s,
  s_prices (apply_effs s l) = s_prices s /\ s_height (apply_effs s l) = s_height s /\ s_base_sym (apply_effs s l) = s_base_sym s.
Proof.
  induction l as [|e l IH]; intros s; [repeat split|].
  rewrite apply_effs_cons. destruct (IH (apply_eff s e)) as (A & B & C). rewrite A, B, C.
  destruct e; repeat split.
Qed.

(* ---- the ticker branch never fails, and only moves value from the reward pool to the zero address *)
Lemma symbol_branch_ok s t : fst (symbol_branch s t) = cOK.
Proof. unfold symbol_branch. destruct (t_data t); try reflexivity. destruct (base_of _ _) as [sp|c]; [destruct (0 <? sp)|]; reflexivity. Qed.

Lemma symbol_branch_effs s t :
  exists sp, 0 <= sp /\ (snd (symbol_branch s t) = [] /\ sp = 0 \/ snd (symbol_branch s t) = [ERpool (- sp); EBal zero_address 0 sp]).
Proof.
  unfold symbol_branch. destruct (t_data t); try (exists 0; split; [lia|left; split; reflexivity]).
  destruct (base_of _ _) as [sp|c]; [|exists 0; split; [lia|left; split; reflexivity]].
  destruct (Z.ltb_spec 0 sp).
  - exists sp; split; [lia|right; reflexivity].
  - exists 0; split; [lia|left; split; reflexivity].
Qed.

(* ---- the failed branch: at most one debit of the payer, min(balance, fee) ------------------------ *)
Lemma failed_branch_shape s t code c effs :
  failed_branch s t code = (c, effs) ->
  effs = [] \/
  exists payer com,
    payer_of t = inl payer /\ calc_commission (t_gas_coin t) (failed_price (s_prices s) t) = Some com /\
    0 < get_bal (s_bal s) payer (t_gas_coin t) /\ c = code /\
    effs = [EBal payer (t_gas_coin t) (- Z.min (get_bal (s_bal s) payer (t_gas_coin t)) com);
            ERpool (Z.min (get_bal (s_bal s) payer (t_gas_coin t)) com)].
Proof.
  unfold failed_branch.
  destruct (failed_price_r (s_prices s) t) as [fp|c0]; [|intros H; injection H as _ <-; left; reflexivity].
  destruct (calc_commission _ _) as [com|] eqn:EC; [|intros H; injection H as _ <-; left; reflexivity].
  destruct (payer_of t) as [payer|c0] eqn:EP; [|intros H; injection H as _ <-; left; reflexivity].
  destruct (Z.ltb_spec 0 (get_bal (s_bal s) payer (t_gas_coin t))) as [Hb|Hb];
    [|intros H; injection H as _ <-; left; reflexivity].
  intros H; injection H as <- <-. right. exists payer, com. repeat split; auto.
  destruct (Z.ltb_spec (get_bal (s_bal s) payer (t_gas_coin t)) com) as [Hlt|Hge].
  - rewrite Z.min_l by lia. reflexivity.
  - rewrite Z.min_r by lia. reflexivity.
Qed.

(* the error codes of the price conversion are failure codes *)
Lemma conv_code p x c : conv p x = inr c -> c <> 0.
Proof.
  unfold conv. destruct (Orders.bfs_loop_x _ _ _ _) as [[o fs]| |]; [destruct (o <? 1)| |]; intros H; try discriminate; injection H as <-; discriminate.
Qed.

Lemma failed_price_r_code p t c : failed_price_r p t = inr c -> c <> 0.
Proof.
  unfold failed_price_r. destruct (p_pcoin p =? 0); [discriminate|].
  destruct (conv p (failed_table p t)) as [v|c0] eqn:E; [destruct (0 <? v); [discriminate|intros H; injection H as <-; discriminate]|].
  intros H; injection H as <-. exact (conv_code _ _ _ E).
Qed.

Lemma tx_price_r_code p t c : tx_price_r p t = inr c -> c <> 0.
Proof.
  unfold tx_price_r, base_of. destruct (table_price p t =? 0); [discriminate|]. destruct (p_pcoin p =? 0); [discriminate|]. apply conv_code.
Qed.
