(* OrdersPriority.v — C14: fills follow the book order, only the last may be partial, every
   fill is at the order's price up to one unit of rounding; closing and cancelling refund
   exactly. *)
From Minter Require Import Base Consts Pool Float Orders PoolFacts OrdersFacts.
From Coq Require Import ZArith Lia Bool List.
Import ListNotations.
Open Scope Z_scope.

(* "at its own price or better for its owner, up to one unit of rounding":
   the maker gives s and receives b against an order (B,S) *)
Definition price_ok (B S b s : Z) : Prop :=
  (s - 1) * B <= b * S \/ s * B <= (b + 1) * S.

Definition fill_ok (l : order) (f : fill) : Prop :=
  fid f = oid l /\ fowner f = oowner l /\
  0 <= fbuy f <= obuy l /\ 0 <= fsell f <= osell l /\
  price_ok (obuy l) (osell l) (fbuy f) (fsell f).

Definition full_fill (l : order) : fill := mkfill l (obuy l) (osell l).

(* the fills are a prefix of the book, all complete except possibly the last *)
Inductive fills_prefix : list order -> list fill -> Prop :=
| fp_nil : forall book, fills_prefix book []
| fp_last : forall l rest f, fill_ok l f -> fills_prefix (l :: rest) [f]
| fp_full : forall l rest fs, fills_prefix rest fs -> fills_prefix (l :: rest) (full_fill l :: fs).

Lemma fills_prefix_ids book fs :
  fills_prefix book fs -> map fid fs = map oid (firstn (length fs) book).
Proof.
  induction 1 as [book|l rest f (E & _)|l rest fs _ IH]; cbn; [reflexivity|congruence|].
  f_equal. exact IH.
Qed.

Section Spec.
Variable orc : Z -> Z -> Z -> Z -> Z.
Variable rmi rdi : Z -> Z -> Z -> Z.
(* what the float conversions must satisfy: floor or floor+1 of the exact quotient *)
Hypothesis Hrmi : forall s b a, 0 < s -> 0 < b -> 0 <= a -> s * a / b <= rmi s b a <= s * a / b + 1.
Hypothesis Hrdi : forall s b a, 0 < s -> 0 < b -> 0 <= a -> a * b / s <= rdi s b a <= a * b / s + 1.

Lemma bfs_partial_ok l ain o fs :
  0 < obuy l -> 0 < osell l -> 0 <= ain -> ain - com1001 ain <= obuy l ->
  bfs_partial rmi l ain = Val (o, fs) -> exists f, fs = [f] /\ fill_ok l f.
Proof.
  intros Hb Hs Ha Hle. unfold bfs_partial.
  set (amount0 := ain - com1001 ain) in *.
  pose proof (com1001_bounds ain Ha) as C.
  assert (H0 : 0 <= amount0) by (unfold amount0; lia).
  pose proof (Hrmi (osell l) (obuy l) amount0 Hs Hb H0) as R.
  set (a1r := rmi (osell l) (obuy l) amount0) in *.
  set (fl := osell l * amount0 / obuy l) in *.
  assert (Hfl : obuy l * fl <= osell l * amount0) by (apply div_lo; lia).
  assert (Hfl0 : 0 <= fl) by (apply Z.div_pos; nia).
  assert (HflS : amount0 < obuy l -> fl < osell l).
  { intros. apply Z.div_lt_upper_bound; nia. }
  assert (HflB : fl <= osell l).
  { apply Z.div_le_upper_bound; nia. }
  destruct (Z.eqb_spec a1r (osell l)) as [E1|N1]; cbn [andb].
  - destruct (Z.eqb_spec amount0 (obuy l)) as [E2|N2]; cbn [negb]; [|discriminate].
    destruct (Z.ltb_spec (osell l) a1r); [lia|].
    destruct (Z.ltb_spec a1r (osell l)); [lia|]. cbn [andb].
    intros HH; injection HH as <- <-. eexists; split; [reflexivity|].
    unfold fill_ok, mkfill, price_ok; cbn. repeat split; try lia; try (left; nia).
  - destruct (Z.ltb_spec (osell l) a1r) as [Hgt|Hle1].
    + destruct (Z.ltb_spec amount0 (obuy l)) as [Hlt|Hge].
      * destruct (Z.ltb_spec (osell l - 1) (osell l)); [|lia].
        destruct (Z.eqb_spec amount0 (obuy l)); [lia|]. cbn [andb].
        intros HH; injection HH as <- <-. eexists; split; [reflexivity|].
        unfold fill_ok, mkfill, price_ok; cbn.
        assert (fl < osell l) by auto.
        repeat split; try lia; try (left; nia).
      * assert (amount0 = obuy l) by lia.
        destruct (Z.ltb_spec (osell l) (osell l)); [lia|]. cbn [andb].
        intros HH; injection HH as <- <-. eexists; split; [reflexivity|].
        unfold fill_ok, mkfill, price_ok; cbn. repeat split; try lia; try (left; nia).
    + destruct (Z.ltb_spec a1r (osell l)) as [Hlt1|]; [|lia].
      destruct (Z.eqb_spec amount0 (obuy l)) as [E2|N2]; cbn [andb].
      * intros HH; injection HH as <- <-. eexists; split; [reflexivity|].
        unfold fill_ok, mkfill, price_ok; cbn. repeat split; try lia; try (left; nia).
      * intros HH; injection HH as <- <-. eexists; split; [reflexivity|].
        unfold fill_ok, mkfill, price_ok; cbn. repeat split; try lia; try (left; nia).
Qed.

Lemma bfs_final_nofills r0 r1 ain o fs : bfs_final r0 r1 ain = Val (o, fs) -> fs = [].
Proof.
  unfold bfs_final. destruct (calc_buy_for_sell _ _ _); [destruct (_ =? 0)| |]; intros HH; try discriminate; injection HH as _ <-; reflexivity.
Qed.

Lemma bfs_loop_prefix : forall book r0 r1 ain out fs,
  0 < r0 -> 0 < r1 -> 0 <= ain ->
  bfs_loop orc rmi r0 r1 ain book = Val (out, fs) -> fills_prefix book fs.
Proof.
  induction book as [|l rest IH]; intros r0 r1 ain out fs H0 H1 Ha; cbn [bfs_loop].
  - destruct (ain =? 0); [intros HH; injection HH as _ <-; constructor|].
    intros HH; rewrite (bfs_final_nofills _ _ _ _ _ HH); constructor.
  - destruct (ain =? 0); [intros HH; injection HH as _ <-; constructor|].
    destruct (Z.leb_spec (obuy l) 0) as [|Hb]; cbn [orb]; [discriminate|].
    destruct (Z.leb_spec (osell l) 0) as [|Hs]; [discriminate|].
    destruct (bfs_pre orc r0 r1 ain l) as [[|r0' r1' ain' d0 d1]| |] eqn:Epre; [| |discriminate|discriminate].
    + intros HH; rewrite (bfs_final_nofills _ _ _ _ _ HH); constructor.
    + destruct (bfs_pre_inv orc _ _ _ _ _ _ _ _ _ H0 H1 Ha Epre) as (-> & -> & -> & Q0 & Q1 & Q2 & QK & Q3).
      destruct (Z.leb_spec (ain - d0 - com1001 (ain - d0)) (obuy l)) as [Hpart|Hfull].
      * destruct (bfs_partial rmi l (ain - d0)) as [[o fs1]| |] eqn:Ep; [|discriminate|discriminate].
        intros HH; injection HH as _ <-.
        destruct (bfs_partial_ok l _ o fs1 Hb Hs Q3 Hpart Ep) as (f & -> & Hf).
        apply fp_last; exact Hf.
      * pose proof (com1000_bounds (obuy l) ltac:(lia)) as CS.
        pose proof (com1000_bounds (osell l) ltac:(lia)) as CB.
        pose proof (full_fill_covers (ain - d0) (obuy l) Q3 Hb Hfull) as Hcov.
        destruct (bfs_loop orc rmi _ _ _ rest) as [[o fs']| |] eqn:Erec; [|discriminate|discriminate].
        intros HH; injection HH as _ <-.
        apply fp_full. eapply IH; [| | |exact Erec]; lia.
Qed.

(* buy side *)
Lemma sfb_partial_ok l aout i fs :
  0 < obuy l -> 0 < osell l -> 0 <= aout -> aout + com0999 aout <= osell l ->
  sfb_partial rdi l aout = Val (i, fs) -> exists f, fs = [f] /\ fill_ok l f.
Proof.
  intros Hb Hs Ha Hle. unfold sfb_partial.
  set (amount1 := aout + com0999 aout) in *.
  pose proof (com0999_nonneg aout Ha) as C.
  assert (H0 : 0 <= amount1) by (unfold amount1; lia).
  assert (Eam : amount1 = aout + com0999 aout) by reflexivity. clearbody amount1.
  pose proof (Hrdi (osell l) (obuy l) amount1 Hs Hb H0) as R.
  set (a0r := rdi (osell l) (obuy l) amount1) in *.
  set (fl := amount1 * obuy l / osell l) in *.
  assert (Hfl : osell l * fl <= amount1 * obuy l) by (apply div_lo; lia).
  assert (Hfh : amount1 * obuy l < osell l * (fl + 1)) by (apply div_hi; lia).
  assert (Hfl0 : 0 <= fl) by (apply Z.div_pos; nia).
  assert (HflS : amount1 < osell l -> fl < obuy l).
  { intros. apply Z.div_lt_upper_bound; nia. }
  assert (HflE : amount1 = osell l -> fl = obuy l).
  { intros E. unfold fl. rewrite E, Z.mul_comm. apply Z.div_mul; lia. }
  destruct (Z.eqb_spec amount1 (osell l)) as [E1|N1]; cbn [andb].
  - specialize (HflE E1).
    destruct (Z.eqb_spec a0r (obuy l)) as [E2|N2]; cbn [negb andb].
    + destruct (Z.ltb_spec amount1 (osell l)); [lia|]. cbn [andb].
      intros HH; injection HH as <- <-. eexists; split; [reflexivity|].
      unfold fill_ok, mkfill, price_ok; cbn. repeat split; try lia; try (right; nia).
    + destruct (Z.ltb_spec a0r (obuy l)); cbn [negb]; [|discriminate].
      destruct (Z.ltb_spec amount1 (osell l)); [lia|]. cbn [andb].
      intros HH; injection HH as <- <-. eexists; split; [reflexivity|].
      unfold fill_ok, mkfill, price_ok; cbn. repeat split; try lia; try (right; nia).
  - assert (Hlt : amount1 < osell l) by lia. specialize (HflS Hlt).
    destruct (Z.ltb_spec amount1 (osell l)); [|lia]. cbn [andb].
    destruct (Z.eqb_spec a0r (obuy l)) as [E2|N2].
    + intros HH; injection HH as <- <-. eexists; split; [reflexivity|].
      unfold fill_ok, mkfill, price_ok; cbn. repeat split; try lia; try (right; nia).
    + intros HH; injection HH as <- <-. eexists; split; [reflexivity|].
      unfold fill_ok, mkfill, price_ok; cbn. repeat split; try lia; try (right; nia).
Qed.

Lemma sfb_final_nofills r0 r1 aout i fs : sfb_final r0 r1 aout = Val (i, fs) -> fs = [].
Proof.
  unfold sfb_final. destruct (calc_sell_for_buy _ _ _); [destruct (_ =? 0)|destruct (_ || _)|]; intros HH; try discriminate; injection HH as _ <-; reflexivity.
Qed.

Lemma sfb_loop_prefix : forall book r0 r1 aout i fs,
  0 < r0 -> 0 < r1 -> 0 <= aout ->
  sfb_loop orc rdi r0 r1 aout book = Val (i, fs) -> fills_prefix book fs.
Proof.
  induction book as [|l rest IH]; intros r0 r1 aout i fs H0 H1 Ha; cbn [sfb_loop].
  - destruct (aout =? 0); [intros HH; injection HH as _ <-; constructor|].
    intros HH; rewrite (sfb_final_nofills _ _ _ _ _ HH); constructor.
  - destruct (aout =? 0); [intros HH; injection HH as _ <-; constructor|].
    destruct (Z.leb_spec (obuy l) 0) as [|Hb]; cbn [orb]; [discriminate|].
    destruct (Z.leb_spec (osell l) 0) as [|Hs]; [discriminate|].
    destruct (sfb_pre orc r0 r1 aout l) as [[|r0' r1' aout' d0 d1]| |] eqn:Epre; [| |discriminate|discriminate].
    + intros HH; rewrite (sfb_final_nofills _ _ _ _ _ HH); constructor.
    + destruct (sfb_pre_inv orc _ _ _ _ _ _ _ _ _ H0 H1 Ha Epre) as (-> & -> & -> & Q0 & Q1 & Q2 & QK & Q3).
      destruct (Z.leb_spec (aout - d1 + com0999 (aout - d1)) (osell l)) as [Hpart|Hfull].
      * destruct (sfb_partial rdi l (aout - d1)) as [[o fs1]| |] eqn:Ep; [|discriminate|discriminate].
        intros HH; injection HH as _ <-.
        destruct (sfb_partial_ok l _ o fs1 Hb Hs Q3 Hpart Ep) as (f & -> & Hf).
        apply fp_last; exact Hf.
      * pose proof (com1000_bounds (obuy l) ltac:(lia)) as CS.
        pose proof (com1000_bounds (osell l) ltac:(lia)) as CB.
        pose proof (full_fill_covers_buy (aout - d1) (osell l) Q3 Hs Hfull) as Hcov.
        destruct (sfb_loop orc rdi _ _ _ rest) as [[o fs']| |] eqn:Erec; [|discriminate|discriminate].
        intros HH; injection HH as _ <-.
        apply fp_full. eapply IH; [| | |exact Erec]; lia.
Qed.

End Spec.

(* a partially filled order keeps its price: the remainder (B-b, S-s) is at the price S/B
   up to the same one unit *)
Lemma remainder_keeps_price B S b s :
  0 < B -> 0 < S -> 0 <= b <= B -> 0 <= s <= S -> price_ok B S b s ->
  (S - s) * B + B >= (B - b) * S \/ (S - s) * B + S >= (B - b) * S.
Proof. unfold price_ok. intros ? ? ? ? [H|H]; [left|right]; nia. Qed.

(* ---- closing below the minimum volume, cancelling ----------------------------------- *)
Definition no_id (id : Z) (book : list order) : Prop := forall l, In l book -> oid l <> id.

Lemma insert_order_in dir l book x : In x (insert_order dir l book) <-> x = l \/ In x book.
Proof.
  induction book as [|y rest IH]; cbn [insert_order].
  - cbn. intuition.
  - destruct (before dir l y); cbn [In].
    + intuition.
    + rewrite IH. intuition.
Qed.

Lemma take_order_some id book l :
  NoDup (map oid book) -> In l book -> oid l = id ->
  exists rest, take_order id book = Some (l, rest) /\ no_id id rest /\ (forall x, In x rest -> In x book).
Proof.
  induction book as [|y rest IH]; intros Hnd Hin Hid; [contradiction|].
  cbn [map] in Hnd. inversion Hnd as [|? ? Hnotin Hnd']; subst. cbn [take_order].
  destruct (Z.eqb_spec (oid y) (oid l)) as [Ey|Ny].
  - assert (l = y).
    { destruct Hin as [->|Hin]; [reflexivity|]. exfalso. apply Hnotin. rewrite Ey. apply in_map; exact Hin. }
    subst y. exists rest. split; [reflexivity|]. split.
    + intros z Hz E. apply Hnotin. rewrite <- E. apply in_map; exact Hz.
    + intros z Hz; right; exact Hz.
  - destruct Hin as [->|Hin]; [congruence|].
    destruct (IH Hnd' Hin eq_refl) as (r & E & A & B). rewrite E.
    exists (y :: r). split; [reflexivity|]. split.
    + intros z [<-|Hz]; [exact Ny|apply A; exact Hz].
    + intros z [<-|Hz]; [left; reflexivity|right; apply B; exact Hz].
Qed.

Lemma apply_fill_spec dir f book book' refunds :
  NoDup (map oid book) ->
  apply_fill dir f book = (book', refunds) ->
  forall l, In l book -> oid l = fid f ->
    let b := obuy l - fbuy f in let s := osell l - fsell f in
    (* empty: removed, nothing refunded *)
    (is_empty b s = true -> no_id (fid f) book' /\ refunds = []) /\
    (* non-empty but below the minimum volume: closed, exactly the remaining WantSell refunded *)
    (is_empty b s = false -> ((b <? minimum_order_volume) || (s <? minimum_order_volume)) = true ->
       no_id (fid f) book' /\ refunds = [(oid l, oowner l, s)]) /\
    (* otherwise the order stays with the reduced volumes and nothing is refunded *)
    (is_empty b s = false -> ((b <? minimum_order_volume) || (s <? minimum_order_volume)) = false ->
       refunds = [] /\ exists l', In l' book' /\ oid l' = oid l /\ obuy l' = b /\ osell l' = s /\ oowner l' = oowner l).
Proof.
  intros Hnd Happ l Hin Hid. cbn zeta.
  destruct (take_order_some (fid f) book l Hnd Hin Hid) as (rest & Et & Hno & _).
  unfold apply_fill in Happ. rewrite Et in Happ.
  destruct (is_empty _ _) eqn:Eemp.
  - injection Happ as <- <-. repeat split; try discriminate; auto.
  - destruct (_ || _) eqn:Elit.
    + injection Happ as <- <-. repeat split; try discriminate; auto.
    + injection Happ as <- <-. repeat split; try discriminate; auto.
      eexists. split; [apply insert_order_in; left; reflexivity|]. cbn. auto.
Qed.

Lemma remove_order_spec id book book' l :
  NoDup (map oid book) ->
  remove_order id book = Some (book', l) ->
  In l book /\ oid l = id /\ no_id id book' /\ remove_order id book' = None /\
  (forall x, In x book' -> In x book) /\ (forall x, In x book -> x = l \/ In x book').
Proof.
  revert book' l. induction book as [|x rest IH]; intros book' l Hnd; cbn [remove_order]; [discriminate|].
  cbn [map] in Hnd. inversion Hnd as [|? ? Hnotin Hnd']; subst.
  destruct (Z.eqb_spec (oid x) id) as [Ex|Nx].
  - intros HH; injection HH as <- <-.
    assert (Hrest : no_id id rest).
    { intros y Hy E. apply Hnotin. rewrite Ex, <- E. apply in_map; exact Hy. }
    assert (Hnone : remove_order id rest = None).
    { clear - Hrest. induction rest as [|y r IHr]; [reflexivity|]. cbn.
      destruct (Z.eqb_spec (oid y) id) as [E|_]; [exfalso; apply (Hrest y); [left; reflexivity|exact E]|].
      rewrite IHr; [reflexivity|]. intros z Hz. apply Hrest. right; exact Hz. }
    split; [left; reflexivity|]. split; [exact Ex|]. split; [exact Hrest|]. split; [exact Hnone|].
    split; [intros z Hz; right; exact Hz|]. intros z [<-|Hz]; [left; reflexivity|right; exact Hz].
  - destruct (remove_order id rest) as [[r y]|] eqn:Er; [|discriminate].
    intros HH; injection HH as <- <-.
    destruct (IH r y Hnd' eq_refl) as (A & B & C & D & E & F).
    split; [right; exact A|]. split; [exact B|].
    split; [intros z [<-|Hz]; [exact Nx|apply C; exact Hz]|].
    split; [cbn; destruct (Z.eqb_spec (oid x) id); [contradiction|]; rewrite D; reflexivity|].
    split; [intros z [<-|Hz]; [left; reflexivity|right; apply E; exact Hz]|].
    intros z [<-|Hz]; [right; left; reflexivity|]. destruct (F z Hz) as [->|Hz']; [left; reflexivity|right; right; exact Hz'].
Qed.
