(* LedgerReg.v — checks (C21), coin registry (C22) and fees (C27) on the ledger model. *)
From Minter Require Import Base Ledger LedgerFacts LedgerTx LedgerProps LedgerCons.
From Coq Require Import ZArith List Bool Lia.
Import ListNotations.
Open Scope Z_scope.

(* deliver in terms of effect lists *)
Lemma deliver_cases s t s' c :
  deliver s t = (s', c) ->
  (s' = s /\ c <> 0) \/
  (exists c0 effs, run s t = inl c0 /\ gate s t = None /\ failed_branch s t c0 = (c, effs) /\ s' = apply_effs s effs /\ c <> 0) \/
  (exists effs, run s t = inr effs /\ gate s t = None /\ c = 0 /\ s' = apply_effs (apply_effs s effs) (snd (symbol_branch s t))).
Proof.
  unfold deliver. destruct (gate s t) as [c0|] eqn:EG.
  - intros H; injection H as <- <-. left. split; [reflexivity|exact (gate_code _ _ _ EG)].
  - destruct (run s t) as [c0|effs] eqn:ER.
    + destruct (failed_branch s t c0) as [c' effs'] eqn:EF. intros H; injection H as <- <-. right; left.
      exists c0, effs'. repeat split; auto. exact (failed_branch_code _ _ _ _ _ EF (run_code_nonzero _ _ _ ER)).
    + pose proof (symbol_branch_ok s t) as Hs. destruct (symbol_branch s t) as [c' effs']. cbn [fst snd] in *. subst c'.
      intros H; injection H as <- <-. right; right. exists effs. repeat split; auto.
Qed.

(* ---- C21: checks -------------------------------------------------------------------------------- *)
Lemma used_grows l s id : In id (s_used s) -> In id (s_used (apply_effs s l)).
Proof. intros H. rewrite apply_effs_used. apply in_or_app. right. exact H. Qed.

Lemma deliver_used_grows s t s' c id : deliver s t = (s', c) -> In id (s_used s) -> In id (s_used s').
Proof.
  intros HD Hin. destruct (deliver_cases _ _ _ _ HD) as [[-> _]|[(c0 & effs & _ & _ & _ & -> & _)|(effs & _ & _ & _ & ->)]];
    [exact Hin|apply used_grows; exact Hin|apply used_grows, used_grows; exact Hin].
Qed.

Lemma step_used_grows s o id : In id (s_used s) -> In id (s_used (step s o)).
Proof.
  destruct o as [t|h|]; cbn [step]; intros Hin.
  - destruct (deliver s t) as [s' c] eqn:ED. exact (deliver_used_grows _ _ _ _ _ ED Hin).
  - unfold begin_block. apply used_grows. exact Hin.
  - exact Hin.
Qed.

Lemma run_ops_used_grows ops : forall s id, In id (s_used s) -> In id (s_used (run_ops s ops)).
Proof.
  induction ops as [|o ops IH]; intros s id Hin; [exact Hin|].
  unfold run_ops. cbn [fold_left]. apply IH. apply step_used_grows. exact Hin.
Qed.

Definition is_redeem (t : tx) (issuer coin gascoin value due id lock_state : Z) (chain_ok : bool) : Prop :=
  exists rawlen decodable nonce_len issuer_ok,
    t_data t = RedeemCheck rawlen decodable chain_ok nonce_len issuer_ok issuer coin gascoin value due id lock_state.

(* what a successful redemption required and did *)
Lemma redeem_spec s t s' issuer coin gascoin value due id lock_state chain_ok :
  is_redeem t issuer coin gascoin value due id lock_state chain_ok ->
  deliver s t = (s', 0) ->
  s_height s <= due /\ chain_ok = true /\ lock_state = 2 /\ t_gas_coin t = gascoin /\ t_gas_price t = 1 /\
  ~ In id (s_used s) /\ In id (s_used s') /\
  exists com, calc_commission gascoin (tx_price (s_prices s) t) = Some com /\
    s_rpool s' = s_rpool s + com /\
    forall a k, get_bal (s_bal s') a k =
                get_bal (s_bal s) a k + (if hit issuer gascoin a k then - com else 0) + (if hit issuer coin a k then - value else 0)
                + (if hit (sender_of t) coin a k then value else 0).
Proof.
  intros (rawlen & decodable & nonce_len & issuer_ok & Hd) HD.
  destruct (deliver_cases _ _ _ _ HD) as [[_ Hc]|[(c0 & effs & _ & _ & _ & _ & Hc)|(effs & ER & EG & _ & ->)]]; try congruence.
  assert (ES : snd (symbol_branch s t) = []) by (unfold symbol_branch; rewrite Hd; reflexivity).
  rewrite ES. cbn [apply_effs fold_left].
  unfold run in ER. rewrite Hd in ER. cbv beta zeta in ER. repeat run_step ER. subst effs.
  repeat match goal with H : negb _ = false |- _ => apply negb_false_iff in H end.
  repeat match goal with H : (_ =? _) = true |- _ => apply Z.eqb_eq in H end.
  repeat match goal with H : (_ <? _) = false |- _ => apply Z.ltb_ge in H end.
  match goal with H : existsb (Z.eqb id) (s_used s) = false |- _ => rename H into Hu end.
  split; [lia|]. split; [assumption|]. split; [lia|]. split; [assumption|]. split; [assumption|].
  split.
  { intros Hin. assert (existsb (Z.eqb id) (s_used s) = true) by (apply existsb_exists; exists id; split; [exact Hin|apply Z.eqb_refl]). congruence. }
  split; [rewrite apply_effs_used; cbn; left; reflexivity|].
  match goal with Ec : calc_commission _ _ = Some ?z |- _ => exists z; split; [congruence|] end.
  split; [rewrite apply_effs_rpool; unfold rpool_deltas; cbn; lia|].
  intros a k. rewrite apply_effs_bal. unfold bal_deltas. sums. cbn [bal_delta sum_Z fold_right].
  match goal with H : t_gas_coin t = gascoin |- _ => rewrite <- H end. lia.
Qed.

(* a used check can never be redeemed again *)
Lemma used_check_rejected s t issuer coin gascoin value due id lock_state chain_ok :
  is_redeem t issuer coin gascoin value due id lock_state chain_ok ->
  In id (s_used s) -> snd (deliver s t) <> 0 /\ check s t <> 0.
Proof.
  intros (rawlen & decodable & nonce_len & issuer_ok & Hd) Hin.
  assert (Hu : existsb (Z.eqb id) (s_used s) = true) by (apply existsb_exists; exists id; split; [exact Hin|apply Z.eqb_refl]).
  assert (HR : exists c, run s t = inl c).
  { unfold run. rewrite Hd. cbv beta zeta. rewrite Hu.
    repeat match goal with |- exists c, (if ?b then _ else _) = inl c => destruct b end; eexists; reflexivity. }
  destruct HR as [c0 HR].
  assert (Hchk : check s t <> 0).
  { unfold check. destruct (gate s t) eqn:EG; [exact (gate_code _ _ _ EG)|]. rewrite HR. exact (run_code_nonzero _ _ _ HR). }
  split; [|exact Hchk]. intros H0. apply Hchk. apply check_iff_deliver. exact H0.
Qed.

Lemma at_most_once s t s1 ops t' issuer coin gascoin value due id ls ch issuer' coin' gascoin' value' due' ls' ch' :
  is_redeem t issuer coin gascoin value due id ls ch -> deliver s t = (s1, 0) ->
  is_redeem t' issuer' coin' gascoin' value' due' id ls' ch' ->
  snd (deliver (run_ops s1 ops) t') <> 0.
Proof.
  intros Hr HD Hr'. destruct (redeem_spec _ _ _ _ _ _ _ _ _ _ _ Hr HD) as (_ & _ & _ & _ & _ & _ & Hin & _).
  apply (used_check_rejected _ _ _ _ _ _ _ _ _ _ Hr'). apply run_ops_used_grows. exact Hin.
Qed.

(* ---- C27: the fee of an accepted transaction ------------------------------------------------------ *)
Definition burn_of (s : st) (t : tx) : Z :=
  match t_data t with
  | CreateToken _ symlen _ _ _ _ _ _ =>
    match base_of (s_prices s) (t_gas_price t * ticker_price (s_prices s) symlen) with
    | inl sp => Z.max 0 sp
    | inr _ => 0
    end
  | _ => 0
  end.

Lemma symbol_branch_deltas s t :
  rpool_deltas (snd (symbol_branch s t)) = - burn_of s t /\
  forall a k, bal_deltas (snd (symbol_branch s t)) a k = if hit zero_address 0 a k then burn_of s t else 0.
Proof.
  unfold symbol_branch, burn_of. destruct (t_data t); try (split; [reflexivity|intros a k; destruct (hit _ _ _ _); reflexivity]).
  destruct (base_of _ _) as [sp|c]; [|split; [reflexivity|intros a k; destruct (hit _ _ _ _); reflexivity]].
  destruct (0 <? sp) eqn:E.
  - apply Z.ltb_lt in E. rewrite Z.max_r by lia. cbn [snd]. split; [unfold rpool_deltas; cbn; lia|].
    intros a k. unfold bal_deltas. cbn. destruct (hit _ _ _ _); lia.
  - apply Z.ltb_ge in E. rewrite Z.max_l by lia. cbn [snd]. split; [reflexivity|intros a k; destruct (hit _ _ _ _); reflexivity].
Qed.

(* an accepted transaction adds its commission to the reward pool; the ticker part of a coin
   creation is then moved from the reward pool to the zero address *)
Lemma accept_fee s t s' :
  deliver s t = (s', 0) ->
  exists com, calc_commission (t_gas_coin t) (tx_price (s_prices s) t) = Some com /\
              s_rpool s' = s_rpool s + com - burn_of s t.
Proof.
  intros HD.
  destruct (deliver_cases _ _ _ _ HD) as [[_ Hc]|[(c0 & effs & _ & _ & _ & _ & Hc)|(effs & ER & EG & _ & ->)]]; try congruence.
  destruct (run_rpool _ _ _ ER) as (com & EC & ERP). exists com. split; [exact EC|].
  destruct (symbol_branch_deltas s t) as [H1 H2]. rewrite !apply_effs_rpool, H1, ERP. lia.
Qed.

(* base-coin price table and base gas coin: the plain formula *)
Lemma accept_fee_base s t s' :
  deliver s t = (s', 0) -> t_gas_coin t = 0 -> p_pcoin (s_prices s) = 0 ->
  s_rpool s' = s_rpool s
               + t_gas_price t * (type_price (s_prices s) (t_data t) + (t_payload_len t + t_service_len t) * p_payload_byte (s_prices s))
               - burn_of s t.
Proof.
  intros HD Hg Hp. destruct (accept_fee _ _ _ HD) as (com & EC & ->). unfold calc_commission in EC. rewrite Hg in EC. cbn in EC.
  injection EC as <-. unfold tx_price, tx_price_r, base_of, table_price, data_len. rewrite Hp. cbn.
  destruct (Z.eqb_spec (t_gas_price t * (type_price (s_prices s) (t_data t) + (t_payload_len t + t_service_len t) * p_payload_byte (s_prices s))) 0); lia.
Qed.

(* price table denominated in a custom coin: the table price is converted through that coin's pool
   as ONE amount (gas price times unit price, then converted) *)
Lemma accept_fee_converted s t s' :
  deliver s t = (s', 0) -> t_gas_coin t = 0 -> table_price (s_prices s) t <> 0 ->
  exists v, base_of (s_prices s) (table_price (s_prices s) t) = inl v /\ 0 < v /\
            s_rpool s' = s_rpool s + v - burn_of s t.
Proof.
  intros HD Hg Hne. destruct (accept_fee _ _ _ HD) as (com & EC & ->). unfold calc_commission in EC. rewrite Hg in EC. cbn in EC.
  injection EC as <-.
  destruct (deliver_cases _ _ _ _ HD) as [[_ Hc]|[(c0 & effs & _ & _ & _ & _ & Hc)|(effs & _ & EG & _ & _)]]; try congruence.
  unfold gate in EG.
  destruct (negb (t_chain_ok t)); [discriminate|]. destruct (negb (coin_exists s (t_gas_coin t))); [discriminate|].
  destruct (max_payload_len <? _); [discriminate|]. destruct (max_service_len <? _); [discriminate|].
  destruct (msig_gate s t); [discriminate|]. destruct (negb (_ =? t_nonce t)); [discriminate|].
  unfold tx_price. unfold tx_price_r in *.
  destruct (Z.eqb_spec (table_price (s_prices s) t) 0) as [E0|_]; [contradiction|].
  destruct (base_of (s_prices s) (table_price (s_prices s) t)) as [v|c0]; [|discriminate]. cbn [negb andb] in EG.
  destruct (Z.ltb_spec 0 v); [|discriminate]. exists v. repeat split; auto.
Qed.

(* the burned ticker fee arrives at the zero address *)
Lemma burn_reaches_zero_address s t s' effs :
  deliver s t = (s', 0) -> run s t = inr effs ->
  get_bal (s_bal s') zero_address 0 = get_bal (s_bal s) zero_address 0 + bal_deltas effs zero_address 0 + burn_of s t.
Proof.
  intros HD ER.
  destruct (deliver_cases _ _ _ _ HD) as [[_ Hc]|[(c0 & effs0 & ER0 & _)|(effs0 & ER0 & EG & _ & ->)]]; try congruence.
  assert (effs0 = effs) by congruence. subst effs0.
  destruct (symbol_branch_deltas s t) as [_ H2]. rewrite !apply_effs_bal, H2. unfold hit. rewrite !Z.eqb_refl. cbn [andb]. lia.
Qed.

(* ---- C22: the coin registry ------------------------------------------------------------------------ *)
Ltac accepted_run HD ER :=
  let effs := fresh "effs" in
  destruct (deliver_cases _ _ _ _ HD) as [[_ Hc]|[(c0 & effs & _ & _ & _ & _ & Hc)|(effs & ER & EG & _ & ->)]]; try congruence.

Ltac decode_tests :=
  repeat match goal with
         | H : negb _ = false |- _ => apply negb_false_iff in H
         | H : negb _ = true |- _ => apply negb_true_iff in H
         | H : _ || _ = false |- _ => apply orb_false_iff in H; destruct H
         | H : _ && _ = false |- _ => apply andb_false_iff in H
         | H : (_ =? _) = true |- _ => apply Z.eqb_eq in H
         | H : (_ =? _) = false |- _ => apply Z.eqb_neq in H
         | H : (_ <? _) = false |- _ => apply Z.ltb_ge in H
         | H : (_ <? _) = true |- _ => apply Z.ltb_lt in H
         end.

(* minting: only the ticker owner, only the active (version 0) mintable coin, never above max supply *)
Lemma mint_spec s t s' coin value :
  t_data t = MintToken coin value -> deliver s t = (s', 0) ->
  exists c, find_coin (s_coins s) coin = Some c /\ coin <> 0 /\ c_mint c = true /\ c_ver c = 0 /\
            get_owner (s_symowner s) (c_sym c) = Some (sender_of t) /\ c_vol c + value <= c_max c /\
            vol_of (s_coins s') coin = vol_of (s_coins s) coin + value.
Proof.
  intros Hd HD. accepted_run HD ER.
  assert (ES : snd (symbol_branch s t) = []) by (unfold symbol_branch; rewrite Hd; reflexivity).
  rewrite ES. cbn [apply_effs fold_left].
  pose proof (run_evol_ok _ _ _ ER) as Hok.
  rewrite (apply_effs_vol _ _ coin Hok).
  unfold run in ER. rewrite Hd in ER. cbv beta zeta in ER. repeat run_step ER. subst effs. decode_tests.
  match goal with H : find_coin (s_coins s) coin = Some ?c |- _ => exists c end.
  repeat (split; [first [reflexivity|assumption|congruence|lia]|]).
  unfold vol_deltas, fee_effs. sums. cbn [vol_delta sum_Z fold_right]. rewrite Z.eqb_refl. lia.
Qed.

(* creating a token: fresh id = counter + 1, ticker not in use, the creator becomes its owner *)
Lemma createtoken_spec s t s' sym symlen symok namelen init maxs mintable burnable :
  t_data t = CreateToken sym symlen symok namelen init maxs mintable burnable -> deliver s t = (s', 0) ->
  sym_exists s sym = false /\ symok = true /\ 1 <= init <= maxs /\ maxs <= 10 ^ 33 /\
  s_ncoins s' = s_ncoins s + 1 /\
  s_coins s' = s_coins s ++ [{| c_id := s_ncoins s + 1; c_sym := sym; c_ver := 0; c_vol := init; c_max := maxs; c_mint := mintable; c_burn := burnable |}] /\
  get_owner (s_symowner s') sym = Some (sender_of t).
Proof.
  intros Hd HD. accepted_run HD ER.
  destruct (symbol_branch_effs s t) as (sp & _ & [[-> _]| ->]);
    unfold run in ER; rewrite Hd in ER; cbv beta zeta in ER; repeat run_step ER; subst effs; decode_tests;
    cbn [apply_effs fold_left apply_eff s_ncoins s_coins s_symowner set_coins c_id get_owner]; rewrite ?Z.eqb_refl;
    unfold min_token_supply, max_coin_supply in *;
    repeat (split; [first [reflexivity|assumption|lia]|]); reflexivity.
Qed.

(* changing the owner and recreating: only by the ticker owner *)
Lemma editowner_spec s t s' sym newowner :
  t_data t = EditCoinOwner sym newowner -> deliver s t = (s', 0) ->
  get_owner (s_symowner s) sym = Some (sender_of t) /\ get_owner (s_symowner s') sym = Some newowner /\ s_coins s' = s_coins s.
Proof.
  intros Hd HD. accepted_run HD ER.
  assert (ES : snd (symbol_branch s t) = []) by (unfold symbol_branch; rewrite Hd; reflexivity).
  rewrite ES. unfold run in ER. rewrite Hd in ER. cbv beta zeta in ER. repeat run_step ER. subst effs. decode_tests.
  cbn [apply_effs fold_left apply_eff s_symowner s_coins set_coins get_owner]. rewrite Z.eqb_refl.
  repeat (split; [first [reflexivity|assumption|congruence]|]). reflexivity.
Qed.

Lemma recreate_spec s t s' sym namelen init maxs mintable burnable :
  t_data t = RecreateToken sym namelen init maxs mintable burnable -> deliver s t = (s', 0) ->
  exists old, find_sym (s_coins s) sym 0 = Some old /\ get_owner (s_symowner s) sym = Some (sender_of t) /\
    1 <= init <= maxs /\ maxs <= 10 ^ 33 /\ s_ncoins s' = s_ncoins s + 1 /\
    s_coins s' = upd_coin (s_coins s) (c_id old)
                          (fun r => {| c_id := c_id r; c_sym := c_sym r; c_ver := (max_version (s_coins s) sym 0 + 1) mod 2 ^ 16;
                                       c_vol := c_vol r; c_max := c_max r; c_mint := c_mint r; c_burn := c_burn r |})
                 ++ [{| c_id := s_ncoins s + 1; c_sym := sym; c_ver := 0; c_vol := init; c_max := maxs; c_mint := mintable; c_burn := burnable |}] /\
    s_symowner s' = s_symowner s.
Proof.
  intros Hd HD. accepted_run HD ER.
  assert (ES : snd (symbol_branch s t) = []) by (unfold symbol_branch; rewrite Hd; reflexivity).
  rewrite ES. unfold run in ER. rewrite Hd in ER. cbv beta zeta in ER. repeat run_step ER. subst effs. decode_tests.
  unfold min_token_supply, max_coin_supply in *.
  cbn [apply_effs fold_left apply_eff s_ncoins s_coins s_symowner set_coins c_id].
  eexists. repeat (split; [first [reflexivity|eassumption|congruence|lia]|]). reflexivity.
Qed.

(* the coins counter never decreases, and every coin id is at most the counter: ids are never reused *)
Definition ids_bounded (s : st) : Prop := forall r, In r (s_coins s) -> c_id r <= s_ncoins s.

Lemma upd_coin_ids l id f : (forall r, c_id (f r) = c_id r) -> map c_id (upd_coin l id f) = map c_id l.
Proof.
  intros Hf. induction l as [|r l IH]; [reflexivity|]. cbn [upd_coin]. destruct (c_id r =? id); cbn [map]; rewrite ?Hf, ?IH; reflexivity.
Qed.

(* new coins of an effect list get increasing ids above the counter *)
Fixpoint new_ok (n : Z) (l : list eff) : Prop :=
  match l with
  | [] => True
  | ENewCoin r :: l' => n < c_id r /\ new_ok (c_id r) l'
  | _ :: l' => new_ok n l'
  end.

Lemma apply_effs_ids : forall l s, new_ok (s_ncoins s) l -> ids_bounded s ->
  ids_bounded (apply_effs s l) /\ s_ncoins s <= s_ncoins (apply_effs s l).
Proof.
  induction l as [|e l IH]; intros s Hn Hb; [split; [exact Hb|cbn; lia]|].
  rewrite apply_effs_cons.
  assert (Hupd : forall id f, (forall r, c_id (f r) = c_id r) -> forall r, In r (upd_coin (s_coins s) id f) -> c_id r <= s_ncoins s).
  { intros id f Hf r Hr. apply (in_map c_id) in Hr. rewrite upd_coin_ids in Hr by exact Hf.
    apply in_map_iff in Hr. destruct Hr as (r0 & <- & Hr0). apply Hb. exact Hr0. }
  destruct e; cbn [new_ok] in Hn.
  1,2,6,7,8,9,10: match goal with |- ids_bounded (apply_effs ?s' _) /\ _ => destruct (IH s' Hn Hb) as [A B]; split; [exact A|exact B] end.
  - match goal with |- ids_bounded (apply_effs ?s' _) /\ _ => destruct (IH s' Hn) as [A B]; [|split; [exact A|exact B]] end.
    intros r Hr. cbn [apply_eff set_coins s_coins s_ncoins] in *. eapply Hupd; [|exact Hr]. reflexivity.
  - destruct Hn as [Hn1 Hn2]. destruct (IH (apply_eff s (ENewCoin r))) as [A B]; [exact Hn2| |].
    + intros r0 Hr0. cbn [apply_eff s_coins s_ncoins] in *. apply in_app_or in Hr0. destruct Hr0 as [Hr0|[<-|[]]]; [|lia].
      pose proof (Hb r0 Hr0). lia.
    + split; [exact A|]. change (s_ncoins (apply_eff s (ENewCoin r))) with (c_id r) in B. lia.
  - match goal with |- ids_bounded (apply_effs ?s' _) /\ _ => destruct (IH s' Hn) as [A B]; [|split; [exact A|exact B]] end.
    intros r Hr. cbn [apply_eff set_coins s_coins s_ncoins] in *. eapply Hupd; [|exact Hr]. reflexivity.
Qed.

Lemma new_ok_items n sender (items : list (Z * Z * Z)) rest :
  new_ok n (flat_map (fun it : Z * Z * Z => let '(c, to, v) := it in [EBal sender c (- v); EBal to c v]) items ++ rest) <-> new_ok n rest.
Proof. induction items as [|[[c to] v] r IH]; [tauto|]. cbn [flat_map app new_ok]. exact IH. Qed.

Lemma run_new_ok s t effs : run s t = inr effs -> new_ok (s_ncoins s) effs.
Proof.
  intros H. run_inv H; subst effs; unfold fee_effs; cbn [app new_ok c_id]; rewrite ?new_ok_items; cbn [new_ok]; try exact I; try (split; [lia|exact I]).
Qed.

Lemma symbol_new_ok s t n : new_ok n (snd (symbol_branch s t)).
Proof. destruct (symbol_branch_effs s t) as (sp & _ & [[-> _]| ->]); exact I. Qed.

Lemma deliver_ids s t s' c : deliver s t = (s', c) -> ids_bounded s -> ids_bounded s' /\ s_ncoins s <= s_ncoins s'.
Proof.
  intros HD Hb. destruct (deliver_cases _ _ _ _ HD) as [[-> _]|[(c0 & effs & _ & _ & EF & -> & _)|(effs & ER & _ & _ & ->)]].
  - split; [exact Hb|lia].
  - destruct (failed_branch_shape _ _ _ _ _ EF) as [->|(payer & com & _ & _ & _ & _ & ->)]; (apply apply_effs_ids; [exact I|exact Hb]).
  - destruct (apply_effs_ids effs s (run_new_ok _ _ _ ER) Hb) as [A B].
    destruct (apply_effs_ids (snd (symbol_branch s t)) (apply_effs s effs) (symbol_new_ok _ _ _) A) as [A' B']. split; [exact A'|lia].
Qed.

Lemma step_ids s o : ids_bounded s -> ids_bounded (step s o) /\ s_ncoins s <= s_ncoins (step s o).
Proof.
  intros Hb. destruct o as [t|h|]; cbn [step].
  - destruct (deliver s t) as [s' c] eqn:ED. exact (deliver_ids _ _ _ _ ED Hb).
  - destruct (begin_block_conserves s h 0) as (_ & _ & _ & En). rewrite En. split; [|lia].
    unfold begin_block.
    destruct (coin_deltas_matured (filter (fun f : Z * Z * Z * Z => let '(d, _, _, _) := f in d =? h) (s_frozen s)) 0) as (_ & _ & D3 & _).
    match goal with |- ids_bounded (apply_effs ?s0 ?l) => destruct (apply_effs_coins_same l s0 D3) as [E1 E2] end.
    intros r Hr. rewrite E1 in Hr. rewrite E2. cbn [set_frozen set_height s_coins s_ncoins] in *. apply Hb. exact Hr.
  - split; [exact Hb|cbn; lia].
Qed.

Lemma run_ops_ids ops : forall s, ids_bounded s -> ids_bounded (run_ops s ops) /\ s_ncoins s <= s_ncoins (run_ops s ops).
Proof.
  induction ops as [|o ops IH]; intros s Hb; [split; [exact Hb|cbn; lia]|].
  unfold run_ops. cbn [fold_left]. fold (run_ops (step s o) ops).
  destruct (step_ids s o Hb) as [A B]. destruct (IH _ A) as [A' B']. split; [exact A'|lia].
Qed.
