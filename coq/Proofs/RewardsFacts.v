(* RewardsFacts.v — accrual and payout facts (all integers, unbounded). *)
From Minter Require Import Base Consts Rewards PoolFacts.
From Coq Require Import ZArith Lia List Bool.
Import ListNotations.
Open Scope Z_scope.

Lemma sum_Z_cons x a : sum_Z (x :: a) = x + sum_Z a. Proof. reflexivity. Qed.

Lemma sum_Z_app a b : sum_Z (a ++ b) = sum_Z a + sum_Z b.
Proof. induction a as [|x a IH]; [reflexivity|]. rewrite <- app_comm_cons, !sum_Z_cons, IH. lia. Qed.

Lemma sum_Z_map_nonneg {A} (f : A -> Z) l : (forall x, In x l -> 0 <= f x) -> 0 <= sum_Z (map f l).
Proof.
  induction l as [|x l IH]; intros H; [cbn; lia|]. cbn [map]. rewrite sum_Z_cons.
  assert (0 <= f x) by (apply H; left; reflexivity).
  assert (0 <= sum_Z (map f l)) by (apply IH; intros y Hy; apply H; right; exact Hy). lia.
Qed.

Lemma sum_Z_map_add {A} (f g : A -> Z) l :
  sum_Z (map (fun x => f x + g x) l) = sum_Z (map f l) + sum_Z (map g l).
Proof. induction l as [|x l IH]; [reflexivity|]. cbn [map]. rewrite !sum_Z_cons, IH. lia. Qed.

Lemma sum_Z_map_ext {A} (f g : A -> Z) l : (forall x, f x = g x) -> sum_Z (map f l) = sum_Z (map g l).
Proof. intros H. induction l as [|x l IH]; [reflexivity|]. cbn [map]. rewrite !sum_Z_cons, IH, H. reflexivity. Qed.

(* ---- accrual -------------------------------------------------------------------------- *)
Definition accums (vals : list val) : Z := sum_Z (map vaccum vals).

Lemma dropped_back_sum vals :
  accums (fst (dropped_back vals)) + snd (dropped_back vals) = accums vals.
Proof.
  unfold dropped_back, accums. cbn [fst snd]. rewrite map_map.
  rewrite <- sum_Z_map_add. apply sum_Z_map_ext. intros v. destruct (vdrop v); cbn; lia.
Qed.

(* conservation of the accrual: what the validators hold afterwards plus the remainder sent
   to total-slashed is what they held before plus the block reward plus the fee pool *)
Lemma accrue_conserves reward pool vals vals' rem :
  accrue reward pool vals = (vals', rem) -> accums vals' + rem = accums vals + reward + pool.
Proof.
  unfold accrue. pose proof (dropped_back_sum vals) as D.
  destruct (dropped_back vals) as [vals1 back]. cbn [fst snd] in D.
  intros HH; injection HH as <- <-.
  set (rwt := reward + pool + back). set (total := total_power vals1).
  assert (E : accums (map (fun v => set_accum v (vaccum v + share rwt total v)) vals1)
              = accums vals1 + sum_Z (map (share rwt total) vals1)).
  { unfold accums. rewrite map_map. cbn [set_accum vaccum]. apply sum_Z_map_add. }
  rewrite E. unfold rwt. lia.
Qed.

Lemma total_power_pos vals : (forall v, In v vals -> 0 <= vstake v) -> 0 < total_power vals.
Proof.
  intros H. unfold total_power.
  assert (0 <= sum_Z (map (fun v => if counts v then vstake v else 0) vals)).
  { apply sum_Z_map_nonneg. intros v Hv. destruct (counts v); [apply H; exact Hv|lia]. }
  destruct (Z.eqb_spec (sum_Z (map (fun v => if counts v then vstake v else 0) vals)) 0); lia.
Qed.

(* the shares never exceed what is distributed: the remainder is non-negative *)
Lemma shares_le rwt total vals :
  0 <= rwt -> 0 < total -> (forall v, In v vals -> 0 <= vstake v) ->
  sum_Z (map (fun v => if counts v then vstake v else 0) vals) <= total ->
  sum_Z (map (share rwt total) vals) * total <= rwt * total.
Proof.
  intros Hr Ht Hs Hsum.
  assert (forall vs, (forall v, In v vs -> 0 <= vstake v) ->
          sum_Z (map (share rwt total) vs) * total <= rwt * sum_Z (map (fun v => if counts v then vstake v else 0) vs)).
  { induction vs as [|v vs IH]; intros Hvs; [cbn; lia|]. cbn [map]. rewrite !sum_Z_cons.
    assert (IH' := IH (fun x Hx => Hvs x (or_intror Hx))).
    unfold share at 1. destruct (counts v).
    - pose proof (div_lo (rwt * vstake v) total Ht). nia.
    - nia. }
  specialize (H vals Hs). nia.
Qed.

Lemma accrue_remainder_nonneg reward pool vals vals' rem :
  0 <= reward -> 0 <= pool -> (forall v, In v vals -> 0 <= vstake v /\ 0 <= vaccum v) ->
  accrue reward pool vals = (vals', rem) -> 0 <= rem.
Proof.
  intros Hr Hp Hv. unfold accrue.
  destruct (dropped_back vals) as [vals1 back] eqn:ED.
  intros HH; injection HH as _ <-.
  assert (Hback : 0 <= back).
  { unfold dropped_back in ED. injection ED as _ <-. apply sum_Z_map_nonneg.
    intros v Hin. destruct (vdrop v); [apply Hv; exact Hin|lia]. }
  assert (Hst1 : forall v, In v vals1 -> 0 <= vstake v).
  { unfold dropped_back in ED. injection ED as <- _. intros v Hin. apply in_map_iff in Hin.
    destruct Hin as (x & <- & Hx). destruct (vdrop x); cbn; apply Hv; exact Hx. }
  set (rwt := reward + pool + back). assert (0 <= rwt) by (unfold rwt; lia).
  pose proof (total_power_pos vals1 Hst1) as Ht.
  assert (Hsum : sum_Z (map (fun v => if counts v then vstake v else 0) vals1) <= total_power vals1).
  { unfold total_power. destruct (Z.eqb_spec (sum_Z (map (fun v => if counts v then vstake v else 0) vals1)) 0); lia. }
  pose proof (shares_le rwt (total_power vals1) vals1 H Ht Hst1 Hsum). nia.
Qed.

(* only validators recorded as present (and not dropped) accrue; a dropped validator's
   accumulated reward is reset (it went back to the pool) *)
Lemma accrue_only_present reward pool vals vals' rem :
  accrue reward pool vals = (vals', rem) ->
  Forall2 (fun v v' => vid v' = vid v /\
             (counts v = false -> vaccum v' = if vdrop v then 0 else vaccum v) /\
             (counts v = true -> vaccum v' = vaccum v + (reward + pool + snd (dropped_back vals)) * vstake v
                                                        / total_power (fst (dropped_back vals))))
          vals vals'.
Proof.
  unfold accrue. destruct (dropped_back vals) as [vals1 back] eqn:ED. cbn [fst snd].
  intros HH; injection HH as <- _.
  unfold dropped_back in ED. injection ED as <- <-.
  set (T := total_power _). set (B := sum_Z _).
  clearbody T B.
  induction vals as [|v vs IH]; cbn [map]; constructor; [|exact IH].
  unfold share, counts. destruct (vdrop v) eqn:Ed; cbn; rewrite ?Ed; cbn.
  - repeat split; intros; try discriminate; lia.
  - destruct (vpresent v); cbn; repeat split; intros; try discriminate; try lia.
Qed.

(* ---- payout ----------------------------------------------------------------------------- *)
(* potential: what has been assigned so far, net of the emission-funded surplus *)
Definition phi (st : pstate) : Z := ps_rem st + ps_dao st + ps_dev st + paid_total (ps_pays st) - ps_more st.

Lemma paid_total_app a b : paid_total (a ++ b) = paid_total a + paid_total b.
Proof. unfold paid_total. rewrite map_app, sum_Z_app. reflexivity. Qed.

Lemma paid_total_one p : paid_total [p] = p_amount p. Proof. unfold paid_total; cbn; lia. Qed.

(* one stake never increases phi; it decreases it only by the un-boosted share of a locked
   stake whose boosted reward rounds to nothing *)
Lemma pay_stake_phi cr sr period tA tS accum vtotal comm tr st s st' :
  0 <= tr -> 0 < vtotal -> 0 <= s_bip s ->
  pay_stake cr sr period tA tS accum vtotal comm tr st s = Val st' ->
  phi st' <= phi st /\ phi st - tr * s_bip s / vtotal <= phi st' /\
  ps_rem st' = ps_rem st - (if s_bip s =? 0 then 0 else tr * s_bip s / vtotal).
Proof.
  intros Htr Hv Hb. unfold pay_stake.
  destruct (Z.eqb_spec (s_bip s) 0) as [E0|N0].
  - intros HH; injection HH as <-. rewrite E0, Z.mul_0_r, Z.div_0_l by lia. lia.
  - rewrite ediv_val by lia. cbn [obind].
    set (reward := tr * s_bip s / vtotal).
    assert (Hr : 0 <= reward) by (apply Z.div_pos; nia).
    destruct (s_x3 s); cbn [negb].
    + destruct ((0 <? tA) && (0 <? accum)) eqn:EA.
      * apply andb_prop in EA. destruct EA as [EA1 EA2]. apply Z.ltb_lt in EA1.
        rewrite !ediv_val by lia. cbn [obind]. rewrite !ediv_val by lia. cbn [obind].
        match goal with |- context [if ?c <? 1 then _ else _] => destruct (Z.ltb_spec c 1) end;
          intros HH; injection HH as <-; unfold phi; cbn [ps_rem ps_dao ps_dev ps_more ps_pays];
          rewrite ?paid_total_app, ?paid_total_one; cbn [p_amount]; lia.
      * destruct (negb (0 <? tA) && negb (0 <? accum)) eqn:EB.
        -- destruct (Z.eq_dec tS 0) as [->|NS].
           ++ unfold ediv. cbn. discriminate.
           ++ destruct (ediv _ tS) as [safe0| |] eqn:Ed; cbn [obind]; [|discriminate|discriminate].
              match goal with |- context [if ?c <? 1 then _ else _] => destruct (Z.ltb_spec c 1) end;
                intros HH; injection HH as <-; unfold phi; cbn [ps_rem ps_dao ps_dev ps_more ps_pays];
                rewrite ?paid_total_app, ?paid_total_one; cbn [p_amount]; lia.
        -- destruct (Z.ltb_spec reward 1);
             intros HH; injection HH as <-; unfold phi; cbn [ps_rem ps_dao ps_dev ps_more ps_pays];
             rewrite ?paid_total_app, ?paid_total_one; cbn [p_amount]; lia.
    + destruct (Z.ltb_spec reward 1);
        intros HH; injection HH as <-; unfold phi; cbn [ps_rem ps_dao ps_dev ps_more ps_pays];
        rewrite ?paid_total_app, ?paid_total_one; cbn [p_amount]; lia.
Qed.

Definition bips (ss : list stake) : Z := sum_Z (map s_bip ss).

Lemma pay_stakes_phi cr sr period tA tS accum vtotal comm tr : forall ss st st',
  0 <= tr -> 0 < vtotal -> (forall s, In s ss -> 0 <= s_bip s) ->
  pay_stakes cr sr period tA tS accum vtotal comm tr st ss = Val st' ->
  phi st' <= phi st /\
  ps_rem st - tr * bips ss / vtotal <= ps_rem st' /\ ps_rem st' <= ps_rem st.
Proof.
  induction ss as [|s rest IH]; intros st st' Htr Hv Hb; cbn [pay_stakes].
  - intros HH; injection HH as <-. unfold bips; cbn. rewrite Z.mul_0_r, Z.div_0_l by lia. lia.
  - destruct (pay_stake cr sr period tA tS accum vtotal comm tr st s) as [st1| |] eqn:E1; cbn [obind]; [|discriminate|discriminate].
    intros E2.
    destruct (pay_stake_phi _ _ _ _ _ _ _ _ _ _ _ _ Htr Hv (Hb s (or_introl eq_refl)) E1) as (A1 & A2 & A3).
    destruct (IH st1 st' Htr Hv (fun x Hx => Hb x (or_intror Hx)) E2) as (B1 & B2 & B3).
    unfold bips in *. cbn [map]. rewrite sum_Z_cons. fold (bips rest) in *.
    assert (Hbr : 0 <= bips rest) by (apply sum_Z_map_nonneg; intros x Hx; apply Hb; right; exact Hx).
    assert (Hbs : 0 <= s_bip s) by (apply Hb; left; reflexivity).
    (* floor(a) + floor(b) <= floor(a+b) *)
    assert (Hfl : tr * s_bip s / vtotal + tr * bips rest / vtotal <= tr * (s_bip s + bips rest) / vtotal).
    { replace (tr * (s_bip s + bips rest)) with (tr * s_bip s + tr * bips rest) by ring.
      pose proof (div_lo (tr * s_bip s) vtotal Hv). pose proof (div_lo (tr * bips rest) vtotal Hv).
      apply Z.div_le_lower_bound; [lia|]. nia. }
    assert (H0s : 0 <= tr * s_bip s / vtotal) by (apply Z.div_pos; nia).
    split; [lia|]. destruct (Z.eqb_spec (s_bip s) 0) as [E0|_]; [rewrite E0 in *; rewrite ?Z.mul_0_r, ?Z.div_0_l in * by lia|]; lia.
Qed.

(* the payout of one validator *)
Lemma pay_validator_spec cr sr period tA tS accum vtotal comm raddr ss po :
  0 <= accum -> 0 <= comm <= 100 -> 0 < vtotal -> (forall s, In s ss -> 0 <= s_bip s) -> bips ss <= vtotal ->
  pay_validator cr sr period tA tS accum vtotal comm raddr ss = Val po ->
  (* never over-paid: everything paid, plus the remainder sent to total-slashed, is at most
     the accrued amount plus the locked-stake surplus (which is added to the emission) *)
  paid_total (po_pays po) + po_slashed po <= accum + po_more po /\ 0 <= po_slashed po.
Proof.
  intros Ha Hc Hv Hb Hsum. unfold pay_validator.
  set (dao0 := accum * dao_pct / 100). set (dev0 := accum * dev_pct / 100).
  set (tr := accum - dev0 - dao0). set (vr := tr * comm / 100).
  destruct (pay_stakes _ _ _ _ _ _ _ _ _ _ ss) as [st| |] eqn:E; cbn [obind]; [|discriminate|discriminate].
  destruct (Z.ltb_spec (ps_rem st) 0) as [|Hrem]; [discriminate|].
  intros HH; injection HH as <-. cbn [po_pays po_more po_slashed].
  assert (Hd0 : 0 <= dao0 /\ dao0 * 100 <= accum * dao_pct).
  { unfold dao0. split; [apply Z.div_pos; unfold dao_pct, dao_commission; lia|].
    pose proof (div_lo (accum * dao_pct) 100 ltac:(lia)). lia. }
  assert (Hv0 : 0 <= dev0 /\ dev0 * 100 <= accum * dev_pct).
  { unfold dev0. split; [apply Z.div_pos; unfold dev_pct, developers_commission; lia|].
    pose proof (div_lo (accum * dev_pct) 100 ltac:(lia)). lia. }
  assert (Htr : 0 <= tr) by (unfold tr, dao_pct, dev_pct, dao_commission, developers_commission in *; lia).
  assert (Hvr : 0 <= vr /\ vr <= tr).
  { unfold vr. split; [apply Z.div_pos; nia|]. apply Z.div_le_upper_bound; nia. }
  destruct (pay_stakes_phi _ _ _ _ _ _ _ _ (tr - vr) ss _ st ltac:(lia) Hv Hb E) as (P1 & _ & _).
  unfold phi in P1. cbn [ps_rem ps_dao ps_dev ps_more ps_pays] in P1.
  rewrite paid_total_one in P1. cbn [p_amount] in P1.
  rewrite paid_total_app. unfold paid_total at 2. cbn [map p_amount sum_Z fold_right].
  split; lia.
Qed.

(* with the stakes' bip values covered by the validator's total, the "Negative remainder"
   panic and the division by zero are unreachable *)
Lemma pay_validator_no_panic cr sr period tA tS accum vtotal comm raddr ss :
  0 <= accum -> 0 <= comm <= 100 -> 0 < vtotal -> vtotal <= tS \/ 0 < tA ->
  (forall s, In s ss -> 0 <= s_bip s) -> bips ss <= vtotal ->
  exists po, pay_validator cr sr period tA tS accum vtotal comm raddr ss = Val po.
Proof.
  intros Ha Hc Hv HtS Hb Hsum. unfold pay_validator.
  set (dao0 := accum * dao_pct / 100). set (dev0 := accum * dev_pct / 100).
  set (tr := accum - dev0 - dao0). set (vr := tr * comm / 100).
  assert (Hd0 : 0 <= dao0 /\ dao0 * 100 <= accum * dao_pct).
  { unfold dao0. split; [apply Z.div_pos; unfold dao_pct, dao_commission; lia|].
    pose proof (div_lo (accum * dao_pct) 100 ltac:(lia)). lia. }
  assert (Hv0 : 0 <= dev0 /\ dev0 * 100 <= accum * dev_pct).
  { unfold dev0. split; [apply Z.div_pos; unfold dev_pct, developers_commission; lia|].
    pose proof (div_lo (accum * dev_pct) 100 ltac:(lia)). lia. }
  assert (Htr : 0 <= tr) by (unfold tr, dao_pct, dev_pct, dao_commission, developers_commission in *; lia).
  assert (Hvr : 0 <= vr /\ vr <= tr).
  { unfold vr. split; [apply Z.div_pos; nia|]. apply Z.div_le_upper_bound; nia. }
  (* the stakes loop never fails *)
  assert (Hloop : forall ss st, exists st', pay_stakes cr sr period tA tS accum vtotal comm (tr - vr) st ss = Val st').
  { clear - Hv HtS. induction ss as [|s rest IH]; intros st; cbn [pay_stakes]; [eexists; reflexivity|].
    assert (exists st1, pay_stake cr sr period tA tS accum vtotal comm (tr - vr) st s = Val st1) as [st1 E1].
    { unfold pay_stake. destruct (s_bip s =? 0); [eexists; reflexivity|].
      rewrite ediv_val by lia. cbn [obind].
      destruct (negb (s_x3 s)); [destruct (_ <? 1); eexists; reflexivity|].
      destruct ((0 <? tA) && (0 <? accum)) eqn:EA.
      - apply andb_prop in EA. destruct EA as [EA1 _]. apply Z.ltb_lt in EA1.
        rewrite !ediv_val by lia. cbn [obind]. rewrite !ediv_val by lia. cbn [obind].
        destruct (_ <? 1); eexists; reflexivity.
      - destruct (negb (0 <? tA) && negb (0 <? accum)) eqn:EB.
        + apply andb_prop in EB. destruct EB as [EB1 _]. apply negb_true_iff in EB1. apply Z.ltb_ge in EB1.
          destruct HtS as [HtS|HtS]; [|lia].
          rewrite ediv_val by lia. cbn [obind]. destruct (_ <? 1); eexists; reflexivity.
        + destruct (_ <? 1); eexists; reflexivity. }
    rewrite E1. cbn [obind]. apply IH. }
  destruct (Hloop ss {| ps_rem := accum - dao0 - dev0 - vr; ps_dao := dao0; ps_dev := dev0; ps_more := 0;
                        ps_pays := [{| p_role := 1; p_owner := raddr; p_coin := 0; p_amount := vr |}] |}) as [st E].
  rewrite E. cbn [obind].
  destruct (pay_stakes_phi _ _ _ _ _ _ _ _ (tr - vr) ss _ st ltac:(lia) Hv Hb E) as (_ & P2 & _).
  cbn [ps_rem] in P2.
  assert ((tr - vr) * bips ss / vtotal <= tr - vr).
  { apply Z.div_le_upper_bound; [lia|]. assert (0 <= bips ss) by (apply sum_Z_map_nonneg; exact Hb). nia. }
  destruct (Z.ltb_spec (ps_rem st) 0); [unfold tr in *; lia|]. eexists; reflexivity.
Qed.

(* the split: DAO 10 %, developers 10 %, validator commission, plain delegators by bip share *)
Lemma pay_validator_split cr sr period tA tS accum vtotal comm raddr ss po :
  (forall s, In s ss -> s_x3 s = false) -> 0 < vtotal ->
  pay_validator cr sr period tA tS accum vtotal comm raddr ss = Val po ->
  let dao := accum * 10 / 100 in let dev := accum * 10 / 100 in
  let vr := (accum - dev - dao) * comm / 100 in
  let rest := accum - dev - dao - vr in
  po_more po = 0 /\
  po_pays po = [{| p_role := 1; p_owner := raddr; p_coin := 0; p_amount := vr |}]
               ++ map (fun s => {| p_role := 2; p_owner := s_owner s; p_coin := s_coin s; p_amount := rest * s_bip s / vtotal |})
                      (filter (fun s => negb (s_bip s =? 0) && negb (rest * s_bip s / vtotal <? 1)) ss)
               ++ [{| p_role := 3; p_owner := 0; p_coin := 0; p_amount := dao |};
                   {| p_role := 4; p_owner := 0; p_coin := 0; p_amount := dev |}].
Proof.
  intros Hx Hv. unfold pay_validator. cbn zeta.
  change dao_pct with 10. change dev_pct with 10.
  set (dao := accum * 10 / 100). set (vr := (accum - dao - dao) * comm / 100).
  set (rest := accum - dao - dao - vr).
  assert (Hloop : forall ss st st', (forall s, In s ss -> s_x3 s = false) ->
            pay_stakes cr sr period tA tS accum vtotal comm rest st ss = Val st' ->
            ps_dao st' = ps_dao st /\ ps_dev st' = ps_dev st /\ ps_more st' = ps_more st /\
            ps_pays st' = ps_pays st ++ map (fun s => {| p_role := 2; p_owner := s_owner s; p_coin := s_coin s; p_amount := rest * s_bip s / vtotal |})
                                           (filter (fun s => negb (s_bip s =? 0) && negb (rest * s_bip s / vtotal <? 1)) ss)).
  { clear - Hv. induction ss as [|s r IH]; intros st st' Hx; cbn [pay_stakes filter map].
    - intros HH; injection HH as <-. rewrite app_nil_r. auto.
    - unfold pay_stake at 1. rewrite (Hx s (or_introl eq_refl)). cbn [negb].
      destruct (Z.eqb_spec (s_bip s) 0); cbn [negb andb obind].
      + intros E. apply (IH st st' (fun x Hxx => Hx x (or_intror Hxx)) E).
      + rewrite ediv_val by lia. cbn [obind].
        destruct (Z.ltb_spec (rest * s_bip s / vtotal) 1); cbn [negb obind]; intros E;
          destruct (IH _ st' (fun x Hxx => Hx x (or_intror Hxx)) E) as (A & B & C & D);
          cbn [ps_dao ps_dev ps_more ps_pays] in *; repeat split; try assumption.
        rewrite D, <- app_assoc. reflexivity. }
  destruct (pay_stakes _ _ _ _ _ _ _ _ _ _ ss) as [st| |] eqn:E; cbn [obind]; [|discriminate|discriminate].
  destruct (ps_rem st <? 0); [discriminate|]. intros HH; injection HH as <-. cbn [po_more po_pays].
  destruct (Hloop ss _ st Hx E) as (A & B & C & D). cbn [ps_dao ps_dev ps_more ps_pays] in *.
  split; [exact C|]. rewrite D, A, B, <- app_assoc. reflexivity.
Qed.
