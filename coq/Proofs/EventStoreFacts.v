(* EventStoreFacts.v — the events store refines "a map from heights to batches" as long as the
   id tables stay below the width of their Go integer types; and it does not beyond. *)
From Minter Require Import Base EventStore.
From Coq Require Import ZArith Lia List Bool FMapPositive.
Import ListNotations.
Open Scope Z_scope.

(* ---- Go maps ------------------------------------------------------------------------------------ *)
Lemma key_pos_inj a b : key_pos a = key_pos b -> a = b.
Proof. destruct a, b; cbn; intros E; try discriminate; try reflexivity; inversion E; reflexivity. Qed.

Lemma zm_get_empty {A} k : zm_get k (@zm_empty A) = None.
Proof. unfold zm_get, zm_empty; cbn. apply PositiveMap.gempty. Qed.

Lemma zm_get_set_same {A} k (v : A) m : zm_get k (zm_set k v m) = Some v.
Proof. unfold zm_get, zm_set; cbn. apply PositiveMap.gss. Qed.

Lemma zm_get_set_other {A} k k' (v : A) m : k' <> k -> zm_get k' (zm_set k v m) = zm_get k' m.
Proof.
  intros N. unfold zm_get, zm_set; cbn. apply PositiveMap.gso.
  intros E. apply N. apply key_pos_inj. exact E.
Qed.

Lemma zm_get_set {A} k k' (v : A) m :
  zm_get k' (zm_set k v m) = if k' =? k then Some v else zm_get k' m.
Proof.
  destruct (k' =? k) eqn:E.
  - apply Z.eqb_eq in E. subst. apply zm_get_set_same.
  - apply Z.eqb_neq in E. apply zm_get_set_other. exact E.
Qed.

Lemma zm_len_set_new {A} k (v : A) m : zm_get k m = None -> zm_len (zm_set k v m) = zm_len m + 1.
Proof. intros E. unfold zm_set; cbn. rewrite E. reflexivity. Qed.

Lemma zm_len_set_old {A} k (v w : A) m : zm_get k m = Some w -> zm_len (zm_set k v m) = zm_len m.
Proof. intros E. unfold zm_set; cbn. rewrite E. reflexivity. Qed.

Lemma zm_get0_get k m v : zm_get k m = Some v -> zm_get0 k m = v.
Proof. intros E. unfold zm_get0. rewrite E. reflexivity. Qed.

(* ---- id tables against the list of known keys (in order of first appearance) ------------------- *)
Definition len (l : list Z) : Z := Z.of_nat (length l).

(* the key with id [id] when ids start at [base] *)
Definition tbl_get (base : Z) (l : list Z) (id : Z) : option Z :=
  if base <=? id then nth_error l (Z.to_nat (id - base)) else None.

Lemma tbl_get_Some base l id key : tbl_get base l id = Some key -> base <= id < base + len l /\ In key l.
Proof.
  unfold tbl_get, len. destruct (base <=? id) eqn:B; [|discriminate]. intros E.
  apply Z.leb_le in B. split.
  - assert (Z.to_nat (id - base) < length l)%nat by (apply nth_error_Some; congruence). lia.
  - eapply nth_error_In; eauto.
Qed.

Lemma tbl_get_beyond base l id : base + len l <= id -> tbl_get base l id = None.
Proof.
  intros H. destruct (tbl_get base l id) eqn:E; [|reflexivity].
  apply tbl_get_Some in E. lia.
Qed.

Lemma tbl_get_in_range base l id : base <= id < base + len l -> exists key, tbl_get base l id = Some key.
Proof.
  intros H. unfold tbl_get. replace (base <=? id) with true by (symmetry; apply Z.leb_le; lia).
  destruct (nth_error l (Z.to_nat (id - base))) eqn:E; [eauto|].
  apply nth_error_None in E. unfold len in H. lia.
Qed.

Lemma tbl_get_app base l l' id : id < base + len l -> tbl_get base (l ++ l') id = tbl_get base l id.
Proof.
  intros H. unfold tbl_get. destruct (base <=? id) eqn:B; [|reflexivity]. apply Z.leb_le in B.
  apply nth_error_app1. unfold len in H. lia.
Qed.

Lemma tbl_get_app_Some base l l' id key : tbl_get base l id = Some key -> tbl_get base (l ++ l') id = Some key.
Proof. intros E. rewrite tbl_get_app; [exact E|]. apply tbl_get_Some in E. lia. Qed.

Lemma tbl_get_last base l key : tbl_get base (l ++ [key]) (base + len l) = Some key.
Proof.
  unfold tbl_get, len. replace (base <=? base + Z.of_nat (length l)) with true by (symmetry; apply Z.leb_le; lia).
  replace (Z.to_nat (base + Z.of_nat (length l) - base)) with (length l) by lia.
  rewrite nth_error_app2 by lia. rewrite Nat.sub_diag. reflexivity.
Qed.

Lemma tbl_get_inj base l id id' key :
  NoDup l -> tbl_get base l id = Some key -> tbl_get base l id' = Some key -> id = id'.
Proof.
  intros ND E E'. pose proof (tbl_get_Some _ _ _ _ E) as [R _]. pose proof (tbl_get_Some _ _ _ _ E') as [R' _].
  unfold tbl_get in E, E'.
  replace (base <=? id) with true in E by (symmetry; apply Z.leb_le; lia).
  replace (base <=? id') with true in E' by (symmetry; apply Z.leb_le; lia).
  assert (Z.to_nat (id - base) = Z.to_nat (id' - base)).
  { eapply NoDup_nth_error; eauto.
    - apply nth_error_Some. congruence.
    - congruence. }
  lia.
Qed.

Lemma In_tbl_get base l key : In key l -> exists id, tbl_get base l id = Some key.
Proof.
  intros H. apply In_nth_error in H. destruct H as [n E].
  exists (base + Z.of_nat n). unfold tbl_get.
  replace (base <=? base + Z.of_nat n) with true by (symmetry; apply Z.leb_le; lia).
  replace (Z.to_nat (base + Z.of_nat n - base)) with n by lia. exact E.
Qed.

(* the cache pair holds exactly the first [k] entries of the table *)
Definition tbl_upto (base : Z) (l : list Z) (k : Z) (t : tbl) : Prop :=
  0 <= k <= len l /\
  zm_len (fst t) = k /\ zm_len (snd t) = k /\
  (forall id, zm_get id (fst t) = if id <? base + k then tbl_get base l id else None) /\
  (forall key id, zm_get key (snd t) = Some id <-> (id < base + k /\ tbl_get base l id = Some key)).

Lemma tbl_upto_empty base l : tbl_upto base l 0 tbl_empty.
Proof.
  unfold tbl_upto, tbl_empty; cbn [fst snd].
  split; [unfold len; lia|]. split; [reflexivity|]. split; [reflexivity|]. split.
  - intros id. rewrite zm_get_empty. destruct (id <? base + 0) eqn:E; [|reflexivity].
    apply Z.ltb_lt in E. unfold tbl_get. replace (base <=? id) with false by (symmetry; apply Z.leb_gt; lia). reflexivity.
  - intros key id. rewrite zm_get_empty. split; [discriminate|].
    intros [H1 H2]. apply tbl_get_Some in H2. lia.
Qed.

Lemma tbl_upto_app base l l' k t : tbl_upto base l k t -> tbl_upto base (l ++ l') k t.
Proof.
  intros (R & L1 & L2 & F & B). unfold tbl_upto. split; [|split; [exact L1|split; [exact L2|split]]].
  - unfold len in *. rewrite app_length. lia.
  - intros id. rewrite F. destruct (id <? base + k) eqn:E; [|reflexivity].
    apply Z.ltb_lt in E. symmetry. apply tbl_get_app. lia.
  - intros key id. rewrite B. split; intros [H1 H2]; (split; [exact H1|]).
    + apply tbl_get_app_Some. exact H2.
    + rewrite tbl_get_app in H2 by lia. exact H2.
Qed.

(* caching the next entry *)
Lemma tbl_entry_new base l k t key :
  NoDup l -> tbl_upto base l k t -> tbl_get base l (base + k) = Some key ->
  tbl_upto base l (k + 1) (cache_entry (base + k) key t).
Proof.
  intros ND (R & L1 & L2 & F & B) G.
  pose proof (tbl_get_Some _ _ _ _ G) as [RG _].
  assert (N1 : zm_get (base + k) (fst t) = None).
  { rewrite F. replace (base + k <? base + k) with false by (symmetry; apply Z.ltb_ge; lia). reflexivity. }
  assert (N2 : zm_get key (snd t) = None).
  { destruct (zm_get key (snd t)) as [id|] eqn:E; [|reflexivity].
    apply B in E. destruct E as [E1 E2]. pose proof (tbl_get_inj _ _ _ _ _ ND E2 G). lia. }
  unfold tbl_upto, cache_entry; cbn [fst snd]. split; [lia|]. split; [|split; [|split]].
  - rewrite zm_len_set_new by exact N1. lia.
  - rewrite zm_len_set_new by exact N2. lia.
  - intros id. rewrite zm_get_set. destruct (id =? base + k) eqn:E.
    + apply Z.eqb_eq in E. subst id.
      replace (base + k <? base + (k + 1)) with true by (symmetry; apply Z.ltb_lt; lia). symmetry. exact G.
    + apply Z.eqb_neq in E. rewrite F.
      destruct (id <? base + k) eqn:E1; destruct (id <? base + (k + 1)) eqn:E2; try reflexivity;
        try apply Z.ltb_lt in E1; try apply Z.ltb_lt in E2; try apply Z.ltb_ge in E1; try apply Z.ltb_ge in E2; lia.
  - intros key' id. rewrite zm_get_set. destruct (key' =? key) eqn:E.
    + apply Z.eqb_eq in E. subst key'. split.
      * intros H. inversion H. subst id. split; [lia|exact G].
      * intros [H1 H2]. f_equal. eapply tbl_get_inj; eauto.
    + apply Z.eqb_neq in E. rewrite B. split; intros [H1 H2].
      * split; [lia|exact H2].
      * split; [|exact H2]. assert (id <> base + k) by (intros ->; congruence). lia.
Qed.

(* caching an entry that is already there changes nothing observable *)
Lemma tbl_entry_old base l k t id key :
  tbl_upto base l k t -> id < base + k -> tbl_get base l id = Some key ->
  tbl_upto base l k (cache_entry id key t).
Proof.
  intros (R & L1 & L2 & F & B) Hid G.
  assert (P1 : zm_get id (fst t) = Some key).
  { rewrite F. replace (id <? base + k) with true by (symmetry; apply Z.ltb_lt; lia). exact G. }
  assert (P2 : zm_get key (snd t) = Some id) by (apply B; split; assumption).
  unfold tbl_upto, cache_entry; cbn [fst snd]. split; [exact R|]. split; [|split; [|split]].
  - rewrite (zm_len_set_old _ _ _ _ P1). exact L1.
  - rewrite (zm_len_set_old _ _ _ _ P2). exact L2.
  - intros id'. rewrite zm_get_set. destruct (id' =? id) eqn:E; [|apply F].
    apply Z.eqb_eq in E. subst id'. rewrite <- P1. apply F.
  - intros key' id'. rewrite zm_get_set. destruct (key' =? key) eqn:E; [|apply B].
    apply Z.eqb_eq in E. subst key'. rewrite <- P2. apply B.
Qed.

(* the loading loop: whatever prefix the cache holds, afterwards it holds the first [n] entries *)
Lemma load_loop base l dbt (ND : NoDup l)
  (DB : forall id, base <= id < base + len l -> zm_get id dbt = tbl_get base l id) :
  forall (j : nat) k t, tbl_upto base l k t -> Z.of_nat j <= len l ->
  let x := nat_rect (fun _ => (Z * tbl)%type) (base, t) (fun _ => load_step dbt) j in
  fst x = base + Z.of_nat j /\ tbl_upto base l (Z.max k (Z.of_nat j)) (snd x).
Proof.
  induction j as [|j IH]; intros k t T J; cbn [nat_rect].
  - cbn [fst snd]. split; [lia|]. replace (Z.max k (Z.of_nat 0)) with k by (destruct T; lia). exact T.
  - destruct (IH k t T ltac:(lia)) as [I1 I2]. clear IH.
    set (x := nat_rect (fun _ => (Z * tbl)%type) (base, t) (fun _ => load_step dbt) j) in *.
    unfold load_step. cbn [fst snd]. split; [lia|]. rewrite I1.
    destruct (tbl_get_in_range base l (base + Z.of_nat j) ltac:(lia)) as [key G].
    assert (V : zm_get0 (base + Z.of_nat j) dbt = key) by (apply zm_get0_get; rewrite DB by lia; exact G).
    rewrite V.
    destruct (Z.lt_ge_cases (Z.of_nat j) k) as [C|C].
    + replace (Z.max k (Z.of_nat (S j))) with k by lia. replace (Z.max k (Z.of_nat j)) with k in I2 by lia.
      apply tbl_entry_old; [exact I2|lia|exact G].
    + replace (Z.max k (Z.of_nat (S j))) with (Z.of_nat j + 1) by lia.
      replace (Z.max k (Z.of_nat j)) with (Z.of_nat j) in I2 by lia.
      apply tbl_entry_new; assumption.
Qed.

Lemma load_table_spec base l dbt k t :
  NoDup l -> (forall id, base <= id < base + len l -> zm_get id dbt = tbl_get base l id) ->
  tbl_upto base l k t -> tbl_upto base l (len l) (load_table base (len l) dbt t).
Proof.
  intros ND DB T. unfold load_table. rewrite iter_nat_of_Z by (unfold len; lia).
  pose proof (load_loop base l dbt ND DB (Z.abs_nat (len l)) k t T ltac:(unfold len; lia)) as [_ H].
  cbn zeta in H. replace (Z.max k (Z.of_nat (Z.abs_nat (len l)))) with (len l) in H by (destruct T; unfold len in *; lia).
  exact H.
Qed.

Lemma load_table_zero base n dbt t : n <= 0 -> load_table base n dbt t = t.
Proof.
  intros H. unfold load_table. destruct n; try lia; reflexivity.
Qed.

(* a table whose cache is complete, and its extension by one new key *)
Lemma tbl_full_get base l t id : tbl_upto base l (len l) t -> zm_get id (fst t) = tbl_get base l id.
Proof.
  intros (R & L1 & L2 & F & B). rewrite F. destruct (id <? base + len l) eqn:E; [reflexivity|].
  apply Z.ltb_ge in E. symmetry. apply tbl_get_beyond. exact E.
Qed.

Lemma tbl_full_hit base l t key id :
  tbl_upto base l (len l) t -> zm_get key (snd t) = Some id -> tbl_get base l id = Some key.
Proof. intros (R & L1 & L2 & F & B) E. apply B in E. tauto. Qed.

Lemma tbl_full_miss base l t key : tbl_upto base l (len l) t -> zm_get key (snd t) = None -> ~ In key l.
Proof.
  intros (R & L1 & L2 & F & B) E I. destruct (In_tbl_get base l key I) as [id G].
  assert (zm_get key (snd t) = Some id) by (apply B; split; [apply tbl_get_Some in G; lia|exact G]). congruence.
Qed.

Lemma NoDup_snoc (l : list Z) x : NoDup l -> ~ In x l -> NoDup (l ++ [x]).
Proof.
  induction l as [|y l IH]; intros ND NI; cbn.
  - constructor; [intros []|constructor].
  - inversion ND as [|? ? NY ND']; subst. constructor.
    + rewrite in_app_iff. cbn. intros [H|[H|[]]]; [tauto|]. subst. apply NI. left. reflexivity.
    + apply IH; [exact ND'|]. intros H. apply NI. right. exact H.
Qed.

Lemma len_snoc l x : len (l ++ [x]) = len l + 1.
Proof. unfold len. rewrite app_length. cbn. lia. Qed.

Lemma tbl_push base l t key :
  NoDup l -> ~ In key l -> tbl_upto base l (len l) t ->
  tbl_upto base (l ++ [key]) (len (l ++ [key])) (cache_entry (base + len l) key t).
Proof.
  intros ND NI T. rewrite len_snoc. apply tbl_entry_new.
  - apply NoDup_snoc; assumption.
  - apply tbl_upto_app. exact T.
  - apply tbl_get_last.
Qed.

Lemma db_push base l dbt key :
  (forall id, base <= id < base + len l -> zm_get id dbt = tbl_get base l id) ->
  forall id, base <= id < base + len (l ++ [key]) ->
  zm_get id (zm_set (base + len l) key dbt) = tbl_get base (l ++ [key]) id.
Proof.
  intros DB id R. rewrite len_snoc in R. rewrite zm_get_set. destruct (id =? base + len l) eqn:E.
  - apply Z.eqb_eq in E. subst id. symmetry. apply tbl_get_last.
  - apply Z.eqb_neq in E. rewrite tbl_get_app by lia. apply DB. lia.
Qed.

Lemma db_app base l l' dbt :
  (forall id, base <= id < base + len l -> zm_get id dbt = tbl_get base l id) -> l' = [] ->
  forall id, base <= id < base + len (l ++ l') -> zm_get id dbt = tbl_get base (l ++ l') id.
Proof. intros DB -> id. rewrite app_nil_r. apply DB. Qed.

(* ---- reading a stored batch against the tables -------------------------------------------------- *)
Definition decode (ks ads : list Z) (c : compact) : option event :=
  match c with
  | CReward role aid amount pid forcoin =>
    match tbl_get 1 ks pid, tbl_get 0 ads aid with
    | Some k, Some a => if role_ok role then Some (EReward role a amount k forcoin) else None
    | _, _ => None
    end
  | CSlash aid amount coin pid =>
    match tbl_get 1 ks pid, tbl_get 0 ads aid with
    | Some k, Some a => Some (ESlash a amount coin k)
    | _, _ => None
    end
  | CUnbond aid amount coin pid =>
    match tbl_get 0 ads aid with
    | Some a =>
      if pid =? 0 then Some (EUnbond a amount coin None)
      else match tbl_get 1 ks pid with Some k => Some (EUnbond a amount coin (Some k)) | None => None end
    | None => None
    end
  | CKick aid amount coin pid =>
    match tbl_get 1 ks pid, tbl_get 0 ads aid with
    | Some k, Some a => Some (EKick a amount coin k)
    | _, _ => None
    end
  | CJail pid until => match tbl_get 1 ks pid with Some k => Some (EJail k until) | None => None end
  | COrderExpired aid amount coin id =>
    match tbl_get 0 ads aid with Some a => Some (EOrderExpired id a coin amount) | None => None end
  | CUnlock aid amount coin =>
    match tbl_get 0 ads aid with Some a => Some (EUnlock a amount coin) | None => None end
  | CMove aid amount coin f t =>
    match tbl_get 1 ks f, tbl_get 1 ks t, tbl_get 0 ads aid with
    | Some kf, Some kt, Some a => Some (EMove a amount coin kf kt)
    | _, _, _ => None
    end
  | CRemoveCandidate pid => match tbl_get 1 ks pid with Some k => Some (ERemoveCandidate k) | None => None end
  | CPlain e => Some e
  end.

Fixpoint decode_all (ks ads : list Z) (l : list compact) : option (list event) :=
  match l with
  | [] => Some []
  | c :: rest =>
    match decode ks ads c, decode_all ks ads rest with
    | Some e, Some es => Some (e :: es)
    | _, _ => None
    end
  end.

Ltac app_lookups H :=
  repeat match type of H with
  | context [tbl_get ?b ?l ?i] =>
    let E := fresh "E" in destruct (tbl_get b l i) eqn:E;
    [rewrite (tbl_get_app_Some _ _ _ _ _ E)|try discriminate H]
  end.

Lemma decode_ext ks ads ks' ads' c e :
  decode ks ads c = Some e -> decode (ks ++ ks') (ads ++ ads') c = Some e.
Proof.
  destruct c; cbn [decode]; intros H; try exact H.
  - app_lookups H. exact H.
  - app_lookups H. exact H.
  - destruct (tbl_get 0 ads aid) eqn:E0; [|discriminate]. rewrite (tbl_get_app_Some _ _ _ _ _ E0).
    destruct (pkid =? 0); [exact H|]. app_lookups H. exact H.
  - app_lookups H. exact H.
  - app_lookups H. exact H.
  - app_lookups H. exact H.
  - app_lookups H. exact H.
  - app_lookups H. exact H.
  - app_lookups H. exact H.
Qed.

Lemma decode_all_ext ks ads ks' ads' l es :
  decode_all ks ads l = Some es -> decode_all (ks ++ ks') (ads ++ ads') l = Some es.
Proof.
  revert es. induction l as [|c l IH]; intros es H; cbn [decode_all] in *; [exact H|].
  destruct (decode ks ads c) eqn:D; [|discriminate].
  destruct (decode_all ks ads l) eqn:DA; [|discriminate].
  rewrite (decode_ext _ _ ks' ads' _ _ D), (IH _ eq_refl). exact H.
Qed.

Lemma decode_all_snoc ks ads l c es e :
  decode_all ks ads l = Some es -> decode ks ads c = Some e -> decode_all ks ads (l ++ [c]) = Some (es ++ [e]).
Proof.
  revert es. induction l as [|c0 l IH]; intros es H D; cbn [decode_all app] in *.
  - inversion H. subst. rewrite D. reflexivity.
  - destruct (decode ks ads c0); [|discriminate]. destruct (decode_all ks ads l) eqn:DA; [|discriminate].
    inversion H. subst. rewrite (IH _ eq_refl D). reflexivity.
Qed.

(* both caches complete *)
Definition warm (ks ads : list Z) (s : es_store) : Prop :=
  tbl_upto 1 ks (len ks) (s_pk s) /\ tbl_upto 0 ads (len ads) (s_ad s).

Lemma compile_decode ks ads s c e : warm ks ads s -> decode ks ads c = Some e -> es_compile s c = Val e.
Proof.
  intros [WP WA] H.
  assert (GP : forall id, zm_get id (fst (s_pk s)) = tbl_get 1 ks id) by (intros; apply tbl_full_get; exact WP).
  assert (GA : forall id, zm_get id (fst (s_ad s)) = tbl_get 0 ads id) by (intros; apply tbl_full_get; exact WA).
  destruct c; cbn [decode es_compile] in *; unfold zm_get0; rewrite ?GP, ?GA.
  - destruct (tbl_get 1 ks pkid); [|discriminate]. destruct (tbl_get 0 ads aid); [|discriminate].
    destruct (role_ok role); [|discriminate]. inversion H. reflexivity.
  - destruct (tbl_get 1 ks pkid); [|discriminate]. destruct (tbl_get 0 ads aid); [|discriminate]. inversion H. reflexivity.
  - destruct (tbl_get 0 ads aid); [|discriminate]. destruct (pkid =? 0) eqn:Z0.
    + apply Z.eqb_eq in Z0. subst pkid. inversion H. reflexivity.
    + destruct (tbl_get 1 ks pkid); [|discriminate]. inversion H. reflexivity.
  - destruct (tbl_get 1 ks pkid); [|discriminate]. destruct (tbl_get 0 ads aid); [|discriminate]. inversion H. reflexivity.
  - destruct (tbl_get 1 ks pkid); [|discriminate]. inversion H. reflexivity.
  - destruct (tbl_get 0 ads aid); [|discriminate]. inversion H. reflexivity.
  - destruct (tbl_get 0 ads aid); [|discriminate]. inversion H. reflexivity.
  - destruct (tbl_get 1 ks frompk); [|discriminate]. destruct (tbl_get 1 ks topk); [|discriminate].
    destruct (tbl_get 0 ads aid); [|discriminate]. inversion H. reflexivity.
  - destruct (tbl_get 1 ks pkid); [|discriminate]. inversion H. reflexivity.
  - inversion H. reflexivity.
Qed.

Lemma compile_all_decode ks ads s l es :
  warm ks ads s -> decode_all ks ads l = Some es -> es_compile_all s l = Val es.
Proof.
  intros Wm. revert es. induction l as [|c l IH]; intros es H; cbn [decode_all es_compile_all] in *.
  - inversion H. reflexivity.
  - destruct (decode ks ads c) eqn:D; [|discriminate]. destruct (decode_all ks ads l) eqn:DA; [|discriminate].
    rewrite (compile_decode _ _ _ _ _ Wm D), (IH _ eq_refl). inversion H. reflexivity.
Qed.

(* ---- the database side ------------------------------------------------------------------------------ *)
Definition cnt (o : option Z) : Z := match o with Some n => n | None => 0 end.

Definition disk_ok (ks ads : list Z) (d : es_disk) : Prop :=
  cnt (db_pkn d) = len ks /\ cnt (db_adn d) = len ads /\
  (forall id, 1 <= id < 1 + len ks -> zm_get id (db_pk d) = tbl_get 1 ks id) /\
  (forall id, 0 <= id < 0 + len ads -> zm_get id (db_ad d) = tbl_get 0 ads id).

Definition ext (l l' : list Z) : Prop := exists x, l' = l ++ x.
Lemma ext_refl l : ext l l. Proof. exists []. symmetry. apply app_nil_r. Qed.
Lemma ext_trans a b c : ext a b -> ext b c -> ext a c.
Proof. intros [x ->] [y ->]. exists (x ++ y). symmetry. apply app_assoc. Qed.

(* which keys and addresses an event hands to savePubKey / saveAddress *)
Definition ev_pks (e : event) : list Z :=
  match e with
  | EReward _ _ _ pk _ | ESlash _ _ _ pk | EKick _ _ _ pk | EJail pk _ => [pk]
  | EUnbond _ _ _ (Some pk) => [pk]
  | EMove _ _ _ pk topk => [pk; topk]
  | _ => []
  end.
Definition ev_ads (e : event) : list Z :=
  match e with
  | EReward _ a _ _ _ | ESlash a _ _ _ | EUnbond a _ _ _ | EKick a _ _ _
  | EOrderExpired _ a _ _ | EUnlock a _ _ | EMove a _ _ _ _ => [a]
  | _ => []
  end.

(* what the node emits: a defined role name, a non-negative amount, 32-bit coin and order ids *)
Definition u32_ok (x : Z) : Prop := 0 <= x < 2 ^ 32.
Definition event_wf (e : event) : Prop :=
  match e with
  | EReward role _ amount _ forcoin => role_ok role = true /\ 0 <= amount /\ u32_ok forcoin
  | ESlash _ amount coin _ | EUnbond _ amount coin _ | EKick _ amount coin _
  | EUnlock _ amount coin | EMove _ amount coin _ _ => 0 <= amount /\ u32_ok coin
  | EOrderExpired id _ coin amount => 0 <= amount /\ u32_ok coin /\ u32_ok id
  | _ => True
  end.

Lemma u32_id x : u32_ok x -> es_u32 x = x.
Proof. intros H. unfold es_u32. apply Z.mod_small. exact H. Qed.

Section Bounded.
Variable W : widths.
Variables P A : list Z.     (* every key / address that will ever be saved *)
Hypothesis Hwp : 0 <= w_pk W.
Hypothesis Hwa : 0 <= w_ad W.
Hypothesis HP : len P + 2 <= 2 ^ w_pk W.
Hypothesis HA : len A + 1 <= 2 ^ w_ad W.

Definition ev_in (e : event) : Prop := event_wf e /\ incl (ev_pks e) P /\ incl (ev_ads e) A.

Definition good (ks ads : list Z) (s : es_store) : Prop :=
  NoDup ks /\ NoDup ads /\ incl ks P /\ incl ads A /\ disk_ok ks ads (s_disk s) /\ warm ks ads s.

Lemma len_le_incl l l' : NoDup l -> incl l l' -> len l <= len l'.
Proof. intros ND I. unfold len. pose proof (NoDup_incl_length ND I). lia. Qed.

(* s' continues s with possibly longer tables, the stored batches and the pending list untouched *)
Definition cont (ks ads : list Z) (s : es_store) (ks' ads' : list Z) (s' : es_store) : Prop :=
  ext ks ks' /\ ext ads ads' /\ good ks' ads' s' /\
  db_ev (s_disk s') = db_ev (s_disk s) /\ s_pending s' = s_pending s.

Lemma cont_refl ks ads s : good ks ads s -> cont ks ads s ks ads s.
Proof. intros G. split; [apply ext_refl|]. split; [apply ext_refl|]. split; [exact G|]. split; reflexivity. Qed.

Lemma cont_trans ks ads s ks1 ads1 s1 ks2 ads2 s2 :
  cont ks ads s ks1 ads1 s1 -> cont ks1 ads1 s1 ks2 ads2 s2 -> cont ks ads s ks2 ads2 s2.
Proof.
  intros (E1 & E2 & G & D & Pn) (E1' & E2' & G' & D' & Pn').
  split; [eapply ext_trans; eauto|]. split; [eapply ext_trans; eauto|]. split; [exact G'|].
  split; congruence.
Qed.

Lemma save_address_ok ks ads s a :
  good ks ads s -> In a A ->
  exists ads', cont ks ads s ks ads' (fst (save_address W s a)) /\
               tbl_get 0 ads' (snd (save_address W s a)) = Some a.
Proof.
  intros (NDk & NDa & Ik & Ia & (C1 & C2 & D1 & D2) & (WP & WA)) InA.
  unfold save_address. destruct (zm_get a (snd (s_ad s))) as [id|] eqn:E; cbn [fst snd].
  - exists ads. split.
    + apply cont_refl. unfold good, disk_ok, warm. tauto.
    + eapply tbl_full_hit; eauto.
  - pose proof (tbl_full_miss _ _ _ _ WA E) as NI.
    assert (ND' : NoDup (ads ++ [a])) by (apply NoDup_snoc; assumption).
    assert (I' : incl (ads ++ [a]) A) by (apply incl_app; [exact Ia|intros x [<-|[]]; exact InA]).
    pose proof (len_le_incl _ _ ND' I') as LB. rewrite len_snoc in LB.
    assert (L2 : zm_len (snd (s_ad s)) = len ads) by (destruct WA as (_ & _ & L & _); exact L).
    assert (Wid : wrapa W (zm_len (snd (s_ad s))) = 0 + len ads).
    { rewrite L2. unfold wrapa. rewrite Z.mod_small; [lia|]. unfold len in *. lia. }
    rewrite Wid.
    pose proof (tbl_push 0 ads (s_ad s) a NDa NI WA) as T'.
    assert (Wc : wrapa W (zm_len (snd (cache_entry (0 + len ads) a (s_ad s)))) = len (ads ++ [a])).
    { destruct T' as (_ & _ & L & _). rewrite L. unfold wrapa. rewrite Z.mod_small; [reflexivity|].
      rewrite len_snoc. unfold len in *. lia. }
    exists (ads ++ [a]). split.
    + split; [apply ext_refl|]. split; [exists [a]; reflexivity|]. split; [|split; reflexivity].
      split; [exact NDk|]. split; [exact ND'|]. split; [exact Ik|]. split; [exact I'|]. split.
      * unfold disk_ok; cbn [s_disk db_pkn db_adn db_pk db_ad]. split; [exact C1|]. split; [rewrite Wc; reflexivity|].
        split; [exact D1|]. apply db_push. exact D2.
      * split; cbn [s_pk s_ad]; [exact WP|exact T'].
    + apply tbl_get_last.
Qed.

Lemma save_pubkey_ok ks ads s k :
  good ks ads s -> In k P ->
  exists ks', cont ks ads s ks' ads (fst (save_pubkey W s (Some k))) /\
              tbl_get 1 ks' (snd (save_pubkey W s (Some k))) = Some k.
Proof.
  intros (NDk & NDa & Ik & Ia & (C1 & C2 & D1 & D2) & (WP & WA)) InP.
  unfold save_pubkey. destruct (zm_get k (snd (s_pk s))) as [id|] eqn:E; cbn [fst snd].
  - exists ks. split.
    + apply cont_refl. unfold good, disk_ok, warm. tauto.
    + eapply tbl_full_hit; eauto.
  - pose proof (tbl_full_miss _ _ _ _ WP E) as NI.
    assert (ND' : NoDup (ks ++ [k])) by (apply NoDup_snoc; assumption).
    assert (I' : incl (ks ++ [k]) P) by (apply incl_app; [exact Ik|intros x [<-|[]]; exact InP]).
    pose proof (len_le_incl _ _ ND' I') as LB. rewrite len_snoc in LB.
    assert (L1 : zm_len (fst (s_pk s)) = len ks) by (destruct WP as (_ & L & _); exact L).
    assert (Wid : wrapp W (wrapp W (zm_len (fst (s_pk s))) + 1) = 1 + len ks).
    { rewrite L1. unfold wrapp. rewrite (Z.mod_small (len ks)) by (unfold len in *; lia).
      rewrite Z.mod_small; [lia|]. unfold len in *. lia. }
    rewrite Wid.
    pose proof (tbl_push 1 ks (s_pk s) k NDk NI WP) as T'.
    assert (Wc : wrapp W (zm_len (fst (cache_entry (1 + len ks) k (s_pk s)))) = len (ks ++ [k])).
    { destruct T' as (_ & L & _). rewrite L. unfold wrapp. rewrite Z.mod_small; [reflexivity|].
      rewrite len_snoc. unfold len in *. lia. }
    exists (ks ++ [k]). split.
    + split; [exists [k]; reflexivity|]. split; [apply ext_refl|]. split; [|split; reflexivity].
      split; [exact ND'|]. split; [exact NDa|]. split; [exact I'|]. split; [exact Ia|]. split.
      * unfold disk_ok; cbn [s_disk db_pkn db_adn db_pk db_ad]. split; [rewrite Wc; reflexivity|]. split; [exact C2|].
        split; [|exact D2]. apply db_push. exact D1.
      * split; cbn [s_pk s_ad]; [exact T'|exact WA].
    + apply tbl_get_last.
Qed.

Lemma cont_good ks ads s ks' ads' s' : cont ks ads s ks' ads' s' -> good ks' ads' s'.
Proof. intros (_ & _ & G & _). exact G. Qed.

Ltac do_addr G InA s1 aid ads1 C1 T1 :=
  match goal with
  | |- context [save_address W ?s ?a] =>
    let E := fresh "E" in
    pose proof (save_address_ok _ _ s a G InA) as (ads1 & C1 & T1);
    destruct (save_address W s a) as [s1 aid] eqn:E; cbn [fst snd] in C1, T1
  end.
Ltac do_pk G InP s1 pid ks1 C1 T1 :=
  match goal with
  | |- context [save_pubkey W ?s (Some ?k)] =>
    let E := fresh "E" in
    pose proof (save_pubkey_ok _ _ s k G InP) as (ks1 & C1 & T1);
    destruct (save_pubkey W s (Some k)) as [s1 pid] eqn:E; cbn [fst snd] in C1, T1
  end.

Lemma commit_item_ok ks ads s e :
  good ks ads s -> ev_in e ->
  exists ks' ads' c, cont ks ads s ks' ads' (fst (commit_item W s e)) /\
                     snd (commit_item W s e) = Val c /\ decode ks' ads' c = Some e.
Proof.
  intros G (WF & IP & IA).
  destruct e as [role addr amount pk forcoin|addr amount coin pk|addr amount coin opk|addr amount coin pk|pk until
                |id addr coin amount|addr amount coin|addr amount coin pk topk|pk|kind payload];
    cbn [ev_pks ev_ads event_wf] in WF, IP, IA; unfold commit_item.
  - (* reward *)
    destruct WF as (R & Am & FC).
    do_addr G (IA addr (or_introl eq_refl)) s1 aid ads1 C1 T1.
    do_pk (cont_good _ _ _ _ _ _ C1) (IP pk (or_introl eq_refl)) s2 pid ks2 C2 T2.
    exists ks2, ads1, (CReward role aid (Z.abs amount) pid (es_u32 forcoin)). cbn [fst snd].
    split; [eapply cont_trans; eauto|]. split; [rewrite R; reflexivity|].
    cbn [decode]. rewrite T2, T1, R, (Z.abs_eq _ Am), (u32_id _ FC). reflexivity.
  - (* slash *)
    destruct WF as (Am & Co).
    do_addr G (IA addr (or_introl eq_refl)) s1 aid ads1 C1 T1.
    do_pk (cont_good _ _ _ _ _ _ C1) (IP pk (or_introl eq_refl)) s2 pid ks2 C2 T2.
    exists ks2, ads1, (CSlash aid (Z.abs amount) (es_u32 coin) pid). cbn [fst snd].
    split; [eapply cont_trans; eauto|]. split; [reflexivity|].
    cbn [decode]. rewrite T2, T1, (Z.abs_eq _ Am), (u32_id _ Co). reflexivity.
  - (* unbond *)
    destruct WF as (Am & Co).
    do_addr G (IA addr (or_introl eq_refl)) s1 aid ads1 C1 T1.
    destruct opk as [pk|].
    + do_pk (cont_good _ _ _ _ _ _ C1) (IP pk (or_introl eq_refl)) s2 pid ks2 C2 T2.
      exists ks2, ads1, (CUnbond aid (Z.abs amount) (es_u32 coin) pid). cbn [fst snd].
      split; [eapply cont_trans; eauto|]. split; [reflexivity|].
      cbn [decode]. rewrite T1, T2, (Z.abs_eq _ Am), (u32_id _ Co).
      replace (pid =? 0) with false; [reflexivity|]. symmetry. apply Z.eqb_neq. apply tbl_get_Some in T2. lia.
    + cbn [save_pubkey].
      exists ks, ads1, (CUnbond aid (Z.abs amount) (es_u32 coin) 0). cbn [fst snd].
      split; [exact C1|]. split; [reflexivity|].
      cbn [decode]. rewrite T1, (Z.abs_eq _ Am), (u32_id _ Co). reflexivity.
  - (* kick *)
    destruct WF as (Am & Co).
    do_addr G (IA addr (or_introl eq_refl)) s1 aid ads1 C1 T1.
    do_pk (cont_good _ _ _ _ _ _ C1) (IP pk (or_introl eq_refl)) s2 pid ks2 C2 T2.
    exists ks2, ads1, (CKick aid (Z.abs amount) (es_u32 coin) pid). cbn [fst snd].
    split; [eapply cont_trans; eauto|]. split; [reflexivity|].
    cbn [decode]. rewrite T2, T1, (Z.abs_eq _ Am), (u32_id _ Co). reflexivity.
  - (* jail *)
    do_pk G (IP pk (or_introl eq_refl)) s2 pid ks2 C2 T2.
    exists ks2, ads, (CJail pid until). cbn [fst snd].
    split; [exact C2|]. split; [reflexivity|]. cbn [decode]. rewrite T2. reflexivity.
  - (* order expired *)
    destruct WF as (Am & Co & Id).
    do_addr G (IA addr (or_introl eq_refl)) s1 aid ads1 C1 T1.
    exists ks, ads1, (COrderExpired aid (Z.abs amount) (es_u32 coin) (es_u32 id)). cbn [fst snd].
    split; [exact C1|]. split; [reflexivity|].
    cbn [decode]. rewrite T1, (Z.abs_eq _ Am), (u32_id _ Co), (u32_id _ Id). reflexivity.
  - (* unlock *)
    destruct WF as (Am & Co).
    do_addr G (IA addr (or_introl eq_refl)) s1 aid ads1 C1 T1.
    exists ks, ads1, (CUnlock aid (Z.abs amount) (es_u32 coin)). cbn [fst snd].
    split; [exact C1|]. split; [reflexivity|].
    cbn [decode]. rewrite T1, (Z.abs_eq _ Am), (u32_id _ Co). reflexivity.
  - (* move *)
    destruct WF as (Am & Co).
    do_addr G (IA addr (or_introl eq_refl)) s1 aid ads1 C1 T1.
    do_pk (cont_good _ _ _ _ _ _ C1) (IP pk (or_introl eq_refl)) s2 pid ks2 C2 T2.
    do_pk (cont_good _ _ _ _ _ _ C2) (IP topk (or_intror (or_introl eq_refl))) s3 tid ks3 C3 T3.
    exists ks3, ads1, (CMove aid (Z.abs amount) (es_u32 coin) pid tid). cbn [fst snd].
    split; [eapply cont_trans; [eapply cont_trans|]; eauto|]. split; [reflexivity|].
    cbn [decode]. destruct C3 as ([x ->] & _). rewrite (tbl_get_app_Some _ _ x _ _ T2), T3, T1, (Z.abs_eq _ Am), (u32_id _ Co).
    reflexivity.
  - exists ks, ads, (CPlain (ERemoveCandidate pk)). cbn [fst snd].
    split; [apply cont_refl; exact G|]. split; reflexivity.
  - exists ks, ads, (CPlain (EOther kind payload)). cbn [fst snd].
    split; [apply cont_refl; exact G|]. split; reflexivity.
Qed.

Lemma commit_items_ok : forall items ks ads s acc done,
  good ks ads s -> Forall ev_in items -> decode_all ks ads (rev acc) = Some done ->
  exists ks' ads' data, cont ks ads s ks' ads' (fst (commit_items W s items acc)) /\
                        snd (commit_items W s items acc) = Val data /\
                        decode_all ks' ads' data = Some (done ++ items).
Proof.
  induction items as [|e items IH]; intros ks ads s acc done G F D; cbn [commit_items].
  - exists ks, ads, (rev_append acc []). cbn [fst snd]. split; [apply cont_refl; exact G|]. split; [reflexivity|].
    rewrite rev_append_rev, !app_nil_r. exact D.
  - inversion F as [|? ? Fe Fr]; subst.
    destruct (commit_item_ok ks ads s e G Fe) as (ks1 & ads1 & c & C1 & O1 & D1).
    destruct (commit_item W s e) as [s1 o] eqn:E. cbn [fst snd] in C1, O1. subst o.
    assert (D' : decode_all ks1 ads1 (rev (c :: acc)) = Some (done ++ [e])).
    { cbn [rev]. destruct C1 as ([x ->] & [y ->] & _). apply decode_all_snoc; [|exact D1].
      apply decode_all_ext. exact D. }
    destruct (IH ks1 ads1 s1 (c :: acc) (done ++ [e]) (cont_good _ _ _ _ _ _ C1) Fr D') as (ks2 & ads2 & data & C2 & O2 & D2).
    exists ks2, ads2, data. split; [eapply cont_trans; eauto|]. split; [exact O2|].
    rewrite <- app_assoc in D2. exact D2.
Qed.

Lemma load_cache_ok ks ads s kp ka :
  NoDup ks -> NoDup ads -> incl ks P -> disk_ok ks ads (s_disk s) ->
  tbl_upto 1 ks kp (s_pk s) -> tbl_upto 0 ads ka (s_ad s) -> (kp = 0 \/ (kp = len ks /\ ka = len ads)) ->
  warm ks ads (load_cache W s) /\ s_disk (load_cache W s) = s_disk s /\ s_pending (load_cache W s) = s_pending s.
Proof.
  intros NDk NDa Ik (C1 & C2 & D1 & D2) TP TA K.
  assert (L : zm_len (fst (s_pk s)) = kp) by (destruct TP as (_ & L & _); exact L).
  unfold load_cache. rewrite L. clear L. destruct (kp =? 0) eqn:E.
  - apply Z.eqb_eq in E. subst kp. cbn [s_disk s_pending]. split; [|split; reflexivity].
    split; cbn [s_pk s_ad].
    + unfold load_pubkeys. destruct (db_pkn (s_disk s)) as [count|] eqn:EC; cbn [cnt] in C1.
      * subst count. pose proof (len_le_incl _ _ NDk Ik) as LB.
        assert (Wb : wrapp W (len ks + 1) - 1 = len ks).
        { unfold wrapp. rewrite Z.mod_small; [lia|]. unfold len in *. lia. }
        rewrite Wb. eapply load_table_spec; eauto.
      * rewrite <- C1. exact TP.
    + unfold load_addresses. destruct (db_adn (s_disk s)) as [count|] eqn:EC; cbn [cnt] in C2.
      * subst count. eapply load_table_spec; eauto.
      * assert (ka = len ads) by (destruct TA as (R & _); lia). subst ka. exact TA.
  - apply Z.eqb_neq in E. destruct K as [K|[K1 K2]]; [contradiction|]. subst kp ka.
    split; [split; assumption|]. split; reflexivity.
Qed.

(* ---- the specification: a map from heights to batches ------------------------------------------- *)
Fixpoint alookup (h : Z) (l : list (Z * list event)) : option (list event) :=
  match l with
  | [] => None
  | (h', b) :: r => if h =? h' then Some b else alookup h r
  end.

Record ref := { r_pending : list event;               (* added since the last commit/restart, oldest first *)
                r_comm : list (Z * list event) }.     (* committed batches, latest first *)
Definition ref_init : ref := {| r_pending := []; r_comm := [] |}.

Definition ref_step (r : ref) (o : es_op) : ref * es_obs :=
  match o with
  | OAdd e => ({| r_pending := r_pending r ++ [e]; r_comm := r_comm r |}, BAck)
  | OCommit h => ({| r_pending := []; r_comm := (h, r_pending r) :: r_comm r |}, BCommit (Val tt))
  | ORestart => ({| r_pending := []; r_comm := r_comm r |}, BAck)
  | OLoad h => (r, BLoad (match alookup h (r_comm r) with Some b => Val b | None => Nil end))
  end.

Fixpoint ref_run (r : ref) (ops : list es_op) : list es_obs :=
  match ops with
  | [] => []
  | o :: rest => let '(r', b) := ref_step r o in b :: ref_run r' rest
  end.

Definition batches_ok (ks ads : list Z) (d : es_disk) (comm : list (Z * list event)) : Prop :=
  forall h, match zm_get h (db_ev d), alookup h comm with
            | Some cb, Some b => decode_all ks ads cb = Some b
            | None, None => True
            | _, _ => False
            end.

Definition Inv (r : ref) (s : es_store) : Prop :=
  exists ks ads kp ka,
    NoDup ks /\ NoDup ads /\ incl ks P /\ incl ads A /\ disk_ok ks ads (s_disk s) /\
    batches_ok ks ads (s_disk s) (r_comm r) /\
    tbl_upto 1 ks kp (s_pk s) /\ tbl_upto 0 ads ka (s_ad s) /\
    (kp = 0 \/ (kp = len ks /\ ka = len ads)) /\
    s_pending s = rev (r_pending r) /\ Forall ev_in (r_pending r).

Definition op_in (o : es_op) : Prop := match o with OAdd e => ev_in e | _ => True end.

Lemma Inv_init : Inv ref_init (es_new es_empty_disk).
Proof.
  exists [], [], 0, 0. split; [constructor|]. split; [constructor|]. split; [intros x []|]. split; [intros x []|].
  split.
  { unfold disk_ok; cbn. split; [reflexivity|]. split; [reflexivity|]. split; intros id H; unfold len in H; cbn in H; lia. }
  split.
  { intros h. cbn [es_new s_disk es_empty_disk db_ev ref_init r_comm alookup]. rewrite zm_get_empty. exact I. }
  split; [apply tbl_upto_empty|]. split; [apply tbl_upto_empty|]. split; [left; reflexivity|].
  split; [reflexivity|constructor].
Qed.

Lemma step_ok r s o :
  Inv r s -> op_in o ->
  snd (es_step W s o) = snd (ref_step r o) /\ Inv (fst (ref_step r o)) (fst (es_step W s o)).
Proof.
  intros (ks & ads & kp & ka & NDk & NDa & Ik & Ia & DO & BO & TP & TA & K & PE & PF) OI.
  destruct o as [e|h| |h]; cbn [es_step ref_step op_in] in *.
  - (* AddEvent *)
    cbn [fst snd]. split; [reflexivity|].
    exists ks, ads, kp, ka. unfold add_event; cbn [s_disk s_pk s_ad s_pending r_pending r_comm].
    repeat (split; [assumption|]). split.
    + rewrite rev_unit, PE. reflexivity.
    + apply Forall_app. split; [exact PF|constructor; [exact OI|constructor]].
  - (* CommitEvents *)
    destruct (load_cache_ok ks ads s kp ka NDk NDa Ik DO TP TA K) as (Wm & SD & SP).
    unfold es_commit. set (s0 := load_cache W s) in *.
    assert (G0 : good ks ads s0).
    { split; [exact NDk|]. split; [exact NDa|]. split; [exact Ik|]. split; [exact Ia|]. split; [rewrite SD; exact DO|exact Wm]. }
    assert (IT : rev_append (s_pending s0) [] = r_pending r).
    { rewrite rev_append_rev, app_nil_r, SP, PE. apply rev_involutive. }
    rewrite IT.
    destruct (commit_items_ok (r_pending r) ks ads s0 [] [] G0 PF eq_refl) as (ks' & ads' & data & C & O & D).
    destruct (commit_items W s0 (r_pending r) []) as [s1 o] eqn:E. cbn [fst snd] in C, O. subst o.
    cbn [fst snd]. split; [reflexivity|].
    destruct C as ([x Ex] & [y Ey] & (NDk' & NDa' & Ik' & Ia' & DO' & Wm') & EV & _).
    exists ks', ads', (len ks'), (len ads'). cbn [s_disk s_pk s_ad s_pending r_pending r_comm].
    split; [exact NDk'|]. split; [exact NDa'|]. split; [exact Ik'|]. split; [exact Ia'|].
    split; [exact DO'|]. split.
    + intros h'. cbn [db_ev alookup]. rewrite zm_get_set. destruct (h' =? h) eqn:Eh.
      * exact D.
      * rewrite EV, SD. subst ks' ads'. specialize (BO h').
        destruct (zm_get h' (db_ev (s_disk s))); destruct (alookup h' (r_comm r)); try exact BO.
        apply decode_all_ext. exact BO.
    + destruct Wm' as [W1 W2]. split; [exact W1|]. split; [exact W2|]. split; [right; split; reflexivity|].
      split; [reflexivity|constructor].
  - (* restart *)
    cbn [fst snd]. split; [reflexivity|].
    exists ks, ads, 0, 0. unfold es_restart, es_new; cbn [s_disk s_pk s_ad s_pending r_pending r_comm].
    repeat (split; [assumption|]). split; [apply tbl_upto_empty|]. split; [apply tbl_upto_empty|].
    split; [left; reflexivity|]. split; [reflexivity|constructor].
  - (* LoadEvents *)
    destruct (load_cache_ok ks ads s kp ka NDk NDa Ik DO TP TA K) as (Wm & SD & SP).
    unfold es_load. set (s0 := load_cache W s) in *. cbn [fst snd]. split.
    + f_equal. rewrite SD. specialize (BO h).
      destruct (zm_get h (db_ev (s_disk s))); destruct (alookup h (r_comm r)); try contradiction; [|reflexivity].
      eapply compile_all_decode; eauto.
    + exists ks, ads, (len ks), (len ads). rewrite SD, SP. destruct Wm as [W1 W2].
      repeat (split; [assumption|]). split; [right; split; reflexivity|]. split; assumption.
Qed.

Lemma run_ok : forall ops r s, Inv r s -> Forall op_in ops -> es_run W s ops = ref_run r ops.
Proof.
  induction ops as [|o ops IH]; intros r s I F; cbn [es_run ref_run]; [reflexivity|].
  inversion F as [|? ? Fo Fr]; subst.
  destruct (step_ok r s o I Fo) as [Eo I'].
  destruct (es_step W s o) as [s' b]. destruct (ref_step r o) as [r' b']. cbn [fst snd] in *.
  subst b'. f_equal. apply IH; assumption.
Qed.

End Bounded.

(* ---- the bounded theorem, stated on the operations alone -------------------------------------------- *)
Definition op_pks (o : es_op) : list Z := match o with OAdd e => ev_pks e | _ => [] end.
Definition op_ads (o : es_op) : list Z := match o with OAdd e => ev_ads e | _ => [] end.
Definition op_wf (o : es_op) : Prop := match o with OAdd e => event_wf e | _ => True end.
(* number of distinct validator keys / addresses handed to the store by a history *)
Definition distinct (l : list Z) : Z := Z.of_nat (length (nodup Z.eq_dec l)).
Definition distinct_pubkeys (ops : list es_op) : Z := distinct (flat_map op_pks ops).
Definition distinct_addresses (ops : list es_op) : Z := distinct (flat_map op_ads ops).

Theorem roundtrip_bounded W ops :
  0 <= w_pk W -> 0 <= w_ad W -> Forall op_wf ops ->
  distinct_pubkeys ops + 2 <= 2 ^ w_pk W -> distinct_addresses ops + 1 <= 2 ^ w_ad W ->
  es_run W (es_new es_empty_disk) ops = ref_run ref_init ops.
Proof.
  intros Hp Ha WF BP BA.
  apply (run_ok W (nodup Z.eq_dec (flat_map op_pks ops)) (nodup Z.eq_dec (flat_map op_ads ops)) Hp Ha BP BA).
  - apply (Inv_init W).
  - apply Forall_forall. intros o Io. pose proof (proj1 (Forall_forall _ _) WF o Io) as Wo.
    destruct o as [e|h| |h]; cbn [op_in]; try exact I.
    split; [exact Wo|]. split; intros x Hx; apply nodup_In; apply in_flat_map; exists (OAdd e); (split; [exact Io|exact Hx]).
Qed.

(* the specification after a history, and what a load then returns *)
Definition ref_after (ops : list es_op) : ref := fold_left (fun r o => fst (ref_step r o)) ops ref_init.

Lemma ref_run_snoc : forall ops r o,
  ref_run r (ops ++ [o]) = ref_run r ops ++ [snd (ref_step (fold_left (fun r o => fst (ref_step r o)) ops r) o)].
Proof.
  induction ops as [|o' ops IH]; intros r o; cbn [ref_run app fold_left].
  - destruct (ref_step r o). reflexivity.
  - destruct (ref_step r o') as [r' b] eqn:E. cbn [fst]. rewrite IH. reflexivity.
Qed.

Theorem load_returns_committed W ops h :
  0 <= w_pk W -> 0 <= w_ad W -> Forall op_wf ops ->
  distinct_pubkeys ops + 2 <= 2 ^ w_pk W -> distinct_addresses ops + 1 <= 2 ^ w_ad W ->
  last (es_run W (es_new es_empty_disk) (ops ++ [OLoad h])) BAck =
  BLoad (match alookup h (r_comm (ref_after ops)) with Some b => Val b | None => Nil end).
Proof.
  intros Hp Ha WF BP BA.
  rewrite (roundtrip_bounded W (ops ++ [OLoad h]) Hp Ha).
  - rewrite ref_run_snoc, last_last. reflexivity.
  - apply Forall_app. split; [exact WF|constructor; [exact I|constructor]].
  - unfold distinct_pubkeys in *. rewrite flat_map_app. cbn [flat_map op_pks app]. rewrite app_nil_r. exact BP.
  - unfold distinct_addresses in *. rewrite flat_map_app. cbn [flat_map op_ads app]. rewrite app_nil_r. exact BA.
Qed.

(* the specification itself: after  pre ; commit h ; mid  with no other commit at h in mid, the batch under
   h is what was added (and not dropped by a restart) at the end of pre *)
Definition commits_at (h : Z) (o : es_op) : bool := match o with OCommit h' => h' =? h | _ => false end.

Lemma ref_after_snoc ops o : ref_after (ops ++ [o]) = fst (ref_step (ref_after ops) o).
Proof. unfold ref_after. rewrite fold_left_app. reflexivity. Qed.

Lemma ref_committed pre h mid :
  existsb (commits_at h) mid = false ->
  alookup h (r_comm (ref_after (pre ++ OCommit h :: mid))) = Some (r_pending (ref_after pre)).
Proof.
  induction mid as [|o mid IH] using rev_ind; intros N.
  - change (pre ++ [OCommit h]) with (pre ++ [OCommit h]). rewrite ref_after_snoc. cbn [ref_step fst r_comm alookup].
    rewrite Z.eqb_refl. reflexivity.
  - rewrite existsb_app in N. apply orb_false_iff in N. destruct N as [N1 N2]. cbn [existsb] in N2. rewrite orb_false_r in N2.
    change (pre ++ OCommit h :: mid ++ [o]) with (pre ++ (OCommit h :: mid) ++ [o]). rewrite app_assoc, ref_after_snoc.
    specialize (IH N1). destruct o as [e|h'| |h']; cbn [ref_step fst r_comm alookup]; try exact IH.
    cbn [commits_at] in N2. rewrite Z.eqb_sym, N2. exact IH.
Qed.

(* ---- beyond the bound ---------------------------------------------------------------------------------
   the width-generic facts behind the refutation: at 2^w - 1 known keys the next id is 0 (the id of
   "no key") and the persisted counter becomes 0; at 2^w it is 1 again; and a counter of 2^w - 1
   makes loadPubKeys load nothing. *)
Lemma pow_w_pos w : 0 <= w -> 1 <= 2 ^ w.
Proof. intros H. pose proof (Z.pow_pos_nonneg 2 w ltac:(lia) H). lia. Qed.

Lemma pubkey_id_wraps_to_zero W s k :
  0 <= w_pk W -> zm_len (fst (s_pk s)) = 2 ^ w_pk W - 1 -> zm_get k (snd (s_pk s)) = None ->
  snd (save_pubkey W s (Some k)) = 0.
Proof.
  intros Hw L E. pose proof (pow_w_pos _ Hw). unfold save_pubkey. rewrite E. cbn [snd]. rewrite L.
  unfold wrapp. rewrite (Z.mod_small (2 ^ w_pk W - 1)) by lia.
  replace (2 ^ w_pk W - 1 + 1) with (2 ^ w_pk W) by lia. apply Z_mod_same_full.
Qed.

Lemma pubkey_counter_wraps_to_zero W s k :
  0 <= w_pk W -> zm_len (fst (s_pk s)) = 2 ^ w_pk W - 1 -> zm_get k (snd (s_pk s)) = None ->
  zm_get 0 (fst (s_pk s)) = None ->
  db_pkn (s_disk (fst (save_pubkey W s (Some k)))) = Some 0.
Proof.
  intros Hw L E E0. pose proof (pow_w_pos _ Hw).
  assert (I0 : wrapp W (wrapp W (zm_len (fst (s_pk s))) + 1) = 0).
  { rewrite L. unfold wrapp. rewrite (Z.mod_small (2 ^ w_pk W - 1)) by lia.
    replace (2 ^ w_pk W - 1 + 1) with (2 ^ w_pk W) by lia. apply Z_mod_same_full. }
  unfold save_pubkey. rewrite E. cbn [fst s_disk db_pkn]. rewrite I0. f_equal.
  unfold cache_entry. cbn [fst]. rewrite zm_len_set_new by exact E0. rewrite L.
  unfold wrapp. replace (2 ^ w_pk W - 1 + 1) with (2 ^ w_pk W) by lia. apply Z_mod_same_full.
Qed.

Lemma pubkey_id_collides_with_one W s k :
  1 <= w_pk W -> zm_len (fst (s_pk s)) = 2 ^ w_pk W -> zm_get k (snd (s_pk s)) = None ->
  snd (save_pubkey W s (Some k)) = 1.
Proof.
  intros Hw L E. unfold save_pubkey. rewrite E. cbn [snd]. rewrite L.
  assert (2 <= 2 ^ w_pk W).
  { replace (w_pk W) with (1 + (w_pk W - 1)) by lia. rewrite Z.pow_add_r by lia.
    pose proof (pow_w_pos (w_pk W - 1) ltac:(lia)). lia. }
  unfold wrapp. rewrite Z_mod_same_full. apply Z.mod_small. lia.
Qed.

Lemma load_pubkeys_at_limit W d t :
  0 <= w_pk W -> db_pkn d = Some (2 ^ w_pk W - 1) -> load_pubkeys W d t = t.
Proof.
  intros Hw E. unfold load_pubkeys. rewrite E. apply load_table_zero.
  unfold wrapp. replace (2 ^ w_pk W - 1 + 1) with (2 ^ w_pk W) by lia. rewrite Z_mod_same_full. lia.
Qed.

(* the specification never panics; so a history on which the store panics refutes the refinement *)
Definition is_panic (b : es_obs) : bool :=
  match b with BLoad (Panic _) | BCommit (Panic _) => true | _ => false end.

Lemma ref_never_panics : forall ops r, existsb is_panic (ref_run r ops) = false.
Proof.
  induction ops as [|o ops IH]; intros r; cbn [ref_run existsb]; [reflexivity|].
  destruct (ref_step r o) as [r' b] eqn:E. cbn [existsb]. rewrite IH, orb_false_r.
  destruct o; cbn [ref_step] in E; inversion E; subst; try reflexivity.
  cbn [is_panic]. destruct (alookup h (r_comm r')); reflexivity.
Qed.

Lemma panic_refutes W ops :
  existsb is_panic (es_run W (es_new es_empty_disk) ops) = true ->
  es_run W (es_new es_empty_disk) ops <> ref_run ref_init ops.
Proof. intros H E. rewrite E, ref_never_panics in H. discriminate. Qed.

(* decidable well-formedness, for concrete witnesses *)
Definition u32_okb (x : Z) : bool := (0 <=? x) && (x <? 2 ^ 32).
Definition event_wfb (e : event) : bool :=
  match e with
  | EReward role _ amount _ forcoin => role_ok role && (0 <=? amount) && u32_okb forcoin
  | ESlash _ amount coin _ | EUnbond _ amount coin _ | EKick _ amount coin _
  | EUnlock _ amount coin | EMove _ amount coin _ _ => (0 <=? amount) && u32_okb coin
  | EOrderExpired id _ coin amount => (0 <=? amount) && u32_okb coin && u32_okb id
  | _ => true
  end.
Definition op_wfb (o : es_op) : bool := match o with OAdd e => event_wfb e | _ => true end.

Lemma u32_okb_ok x : u32_okb x = true -> u32_ok x.
Proof. unfold u32_okb, u32_ok. intros H. apply andb_true_iff in H. destruct H as [H1 H2]. apply Z.leb_le in H1. apply Z.ltb_lt in H2. lia. Qed.

Lemma event_wfb_ok e : event_wfb e = true -> event_wf e.
Proof.
  destruct e; cbn [event_wfb event_wf]; intros H; try exact I;
    repeat match type of H with (_ && _) = true => let H1 := fresh in apply andb_true_iff in H; destruct H as [H H1] end;
    repeat match goal with
           | X : u32_okb _ = true |- _ => apply u32_okb_ok in X
           | X : (0 <=? _) = true |- _ => apply Z.leb_le in X
           end; tauto.
Qed.

Lemma ops_wfb_ok ops : forallb op_wfb ops = true -> Forall op_wf ops.
Proof.
  intros H. apply Forall_forall. intros o Io. pose proof (proj1 (forallb_forall _ _) H o Io) as Ho.
  destruct o; cbn [op_wf op_wfb] in *; try exact I. apply event_wfb_ok. exact Ho.
Qed.
