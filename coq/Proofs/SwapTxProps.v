(* SwapTxProps.v — the transaction-level lemmas behind C15 (Model/SwapTx.v): the simulated
   commission swap of the check phase against the delivered one, and for every accepted
   conversion: the limit is honoured by the amount actually applied, the tags equal the applied
   balance changes, a sell-all empties the balance.  All magnitudes, any oracle values. *)
From Minter Require Import Base Consts Pool PoolFacts SwapTx SwapTxFacts SwapTxRoute.
From Coq Require Import ZArith List Bool Lia.
Import ListNotations.
Open Scope Z_scope.

Ltac in_solve := repeat (progress (cbn [In app]) || rewrite in_app_iff); auto 14.

(* destructs the outermost test of H : <tests> = Accept effs tg *)
Ltac acc_step H :=
  lazymatch type of H with
  | Reject _ = Accept _ _ => discriminate H
  | TxPanic _ = Accept _ _ => discriminate H
  | (if ?b then _ else _) = Accept _ _ => let E := fresh "E" in destruct b eqn:E
  | (match ?x with _ => _ end) = Accept _ _ => let E := fresh "E" in destruct x eqn:E
  | (let '(_, _) := ?x in _) = Accept _ _ => let E := fresh "E" in destruct x eqn:E
  end.

(* ---- routes ------------------------------------------------------------------------------------------------ *)
Lemma lastc_app c l x : lastc c (l ++ [x]) = x.
Proof. revert c. induction l as [|y l IH]; intros c; [reflexivity|]. cbn [app lastc]. apply IH. Qed.

Lemma rev_route c0 r ck rest : rev (c0 :: r) = ck :: rest -> ck = lastc c0 r /\ lastc ck rest = c0.
Proof.
  intros H. assert (H' : c0 :: r = rev rest ++ [ck]).
  { rewrite <- (rev_involutive (c0 :: r)), H. reflexivity. }
  destruct (rev rest) as [|x l] eqn:Er.
  - cbn in H'. injection H' as -> ->. assert (rest = []) by (rewrite <- (rev_involutive rest), Er; reflexivity). subst. split; reflexivity.
  - cbn [app] in H'. injection H' as -> ->. split; [symmetry; apply lastc_app|].
    assert (rest = rev l ++ [x]) by (rewrite <- (rev_involutive rest), Er; reflexivity). subst rest. apply lastc_app.
Qed.

Lemma cons_ne (x : Z) l : x :: l <> [].
Proof. discriminate. Qed.

Lemma basic_check_route_shape w coins : basic_check_route w coins = None -> exists c0 c1 r, coins = c0 :: c1 :: r.
Proof. destruct coins as [|c0 [|c1 r]]; cbn; try discriminate. intros _. eauto. Qed.

Section Props.
Variables o_pr o_pa o_sr o_sa : Z -> Z -> Z -> Z -> Z.

(* ---- the commission ------------------------------------------------------------------------------------------- *)
Lemma calc_commission_pool w gas price c :
  calc_commission o_sa w gas price = Ok (c, true) ->
  gas <> 0 /\ 0 < c /\ exists g b, get_pool w gas 0 = Some (g, b).
Proof.
  unfold calc_commission. destruct (Z.eqb_spec gas 0); [discriminate|].
  destruct (price =? 0); [discriminate|].
  destruct (get_coin w gas) as [gc|]; [|discriminate].
  unfold commission_from_pool. destruct (get_pool w gas 0) as [[g b]|] eqn:Ep.
  - destruct (check_swap_buy g b max_coin_supply price) as [x|x|x]; cbn [rbind].
    + destruct (Z.ltb_spec 0 x); cbn [negb rbind].
      * destruct (commission_from_reserve o_sa gc price) as [|rr].
        -- intros HH. injection HH as <-. repeat split; eauto.
        -- destruct (rr <? x); intros HH; [discriminate|]. injection HH as <-. repeat split; eauto.
      * destruct (commission_from_reserve o_sa gc price); discriminate.
    + destruct (commission_from_reserve o_sa gc price); discriminate.
    + discriminate.
  - cbn [rbind]. destruct (commission_from_reserve o_sa gc price); discriminate.
Qed.

Lemma commission_deliver_shape w sender gas commission price is_pool minOut ce cib :
  commission_deliver w sender gas commission price is_pool minOut = Val (ce, cib) ->
  (is_pool = false -> forallb no_pool_eff ce = true) /\
  (is_pool = true -> exists g b d0, get_pool w gas 0 = Some (g, b) /\ sell_wo g b commission minOut = Val (d0, cib) /\
                     ce = [EPool gas 0 d0 (- cib); EBal burn_address gas (com1000 commission)]).
Proof.
  unfold commission_deliver. destruct is_pool.
  - destruct (get_pool w gas 0) as [[g b]|]; [|discriminate].
    destruct (sell_wo g b commission minOut) as [[d0 c]| |] eqn:E; try discriminate.
    intros HH. injection HH as <- <-. split; [discriminate|]. intros _. exists g, b, d0. auto.
  - destruct (negb (gas =? 0)); intros HH; injection HH as <- <-; split; try reflexivity; discriminate.
Qed.

Lemma sell_wo_shape r0 r1 a m d0 out : 0 < r0 -> 0 < r1 -> sell_wo r0 r1 a m = Val (d0, out) ->
  0 < a /\ d0 = sub1000 a /\ 0 < d0 /\ out = bfs_fun r0 r1 d0 /\ 0 < out /\ out < r1 /\ m <= out.
Proof.
  intros H0 H1. unfold sell_wo.
  destruct (Z.ltb_spec 0 a) as [Ha|]; cbn [negb]; [|discriminate].
  destruct (Z.ltb_spec 0 (a - com1000 a)) as [Ha'|]; cbn [negb]; [|discriminate].
  rewrite bfs_core_fun by lia.
  destruct (Z.ltb_spec 0 (bfs_fun r0 r1 (a - com1000 a))); cbn [negb]; [|discriminate].
  destruct (Z.ltb_spec (bfs_fun r0 r1 (a - com1000 a)) m); [discriminate|].
  intros HH. injection HH as <- <-. rewrite sub1000_pos by lia.
  pose proof (bfs_fun_bounds r0 r1 (a - com1000 a) H0 H1 ltac:(lia)). repeat split; lia.
Qed.

(* [inv] holds right after the commission part of the deliver phase: THE SIMULATION LEMMA.
   Every pool holds exactly what the check phase assumes for it, the commission pool included,
   from whichever side the route crosses it. *)
Lemma sim_init w sender gas price commission is_pool minOut ce cib extra :
  wf_pools w ->
  calc_commission o_sa w gas price = Ok (commission, is_pool) ->
  commission_deliver w sender gas commission price is_pool minOut = Val (ce, cib) ->
  forallb no_pool_eff extra = true ->
  inv w gas commission is_pool (apply_effs w (ce ++ extra)) [].
Proof.
  intros Hwf HC HD Hex a b r r' _ Hg Hs.
  destruct (commission_deliver_shape _ _ _ _ _ _ _ _ _ HD) as [Hnp Hp].
  unfold sim_reserves in Hs.
  destruct (is_pool && keq (pkey a b) (pkey gas 0)) eqn:E.
  2:{ injection Hs as <-. exists r. split.
      - rewrite apply_effs_pool_other; [exact Hg|].
        rewrite forallb_app. rewrite (no_pool_touches _ _ Hex), andb_true_r.
        destruct is_pool.
        + destruct (Hp eq_refl) as (g & b0 & d0 & _ & _ & ->). cbn [andb] in E. cbn. rewrite keq_sym, E. reflexivity.
        + apply no_pool_touches. apply Hnp. reflexivity.
      - destruct (Hwf a b r Hg). unfold conservative. lia. }
  apply andb_prop in E. destruct E as [-> Ek].
  destruct (calc_commission_pool _ _ _ _ HC) as (Hgas & Hc & g' & b' & Hpool').
  destruct (Hp eq_refl) as (g & b0 & d0 & Hpool & Hsw & ->).
  destruct (Hwf gas 0 (g, b0) Hpool) as [Hg0 Hb0]. cbn [fst snd] in Hg0, Hb0.
  destruct (sell_wo_shape g b0 commission minOut d0 cib Hg0 Hb0 Hsw) as (_ & Hd0 & Hd0p & Hcib & Hcibp & Hciblt & _).
  rewrite Hpool in Hs. rewrite bfs_wo_fun in Hs by lia. cbn [of_outcome rbind] in Hs.
  rewrite <- Hd0, <- Hcib in Hs.
  apply keq_eq in Ek.
  (* the delivered commission pool, in the orientation (gas, base) *)
  assert (Hdel : get_pool (apply_effs w ([EPool gas 0 d0 (- cib); EBal burn_address gas (com1000 commission)] ++ extra)) gas 0
                 = Some (g + d0, b0 - cib)).
  { rewrite apply_effs_app. rewrite apply_effs_pool_other by (apply no_pool_touches; exact Hex).
    rewrite apply_effs_cons. rewrite apply_effs_pool_other by reflexivity.
    rewrite (apply_eff_pool_same w gas 0 d0 (- cib) g b0 Hpool). replace (b0 + - cib) with (b0 - cib) by lia. reflexivity. }
  assert (Hab : (a = gas /\ b = 0) \/ (a = 0 /\ b = gas)).
  { unfold pkey in Ek. destruct (Z.ltb_spec a b), (Z.ltb_spec gas 0); injection Ek as -> ->; auto. }
  destruct Hab as [[-> ->]|[-> ->]].
  - (* hop gas coin -> base coin: buy = false takes the burned com1000 off, like the delivery *)
    rewrite Hpool in Hg. injection Hg as <-. cbn [fst snd] in Hs.
    rewrite Z.eqb_refl in Hs. cbn [andb] in Hs.
    unfold add_last_step in Hs.
    destruct (Z.ltb_spec commission 0); [lia|]. destruct (Z.ltb_spec cib 0); [lia|]. cbn [orb rbind] in Hs.
    destruct (Z.eqb_spec gas 0); [contradiction|]. cbn [andb] in Hs.
    injection Hs as <-. exists (g + d0, b0 - cib). split; [exact Hdel|].
    unfold conservative, add_last_step_pos. cbn [fst snd]. lia.
  - (* hop base coin -> gas coin: the pair is reversed, then the same *)
    rewrite get_pool_sym in Hg by auto. rewrite Hpool in Hg. injection Hg as <-. cbn [fst snd] in Hs.
    destruct (Z.eqb_spec gas 0); [contradiction|]. cbn [andb rbind] in Hs.
    rewrite Z.eqb_refl in Hs. cbn [andb] in Hs.
    unfold add_last_step in Hs.
    destruct (Z.ltb_spec (- cib) 0); [|lia]. cbn [orb] in Hs.
    destruct (Z.ltb_spec (- - commission) 0); [lia|]. destruct (Z.ltb_spec (- - cib) 0); [lia|]. cbn [orb] in Hs.
    unfold add_last_step_pos in Hs. cbn [negb] in Hs. injection Hs as <-.
    exists (b0 - cib, g + d0). split.
    + rewrite get_pool_sym by auto. rewrite Hdel. reflexivity.
    + unfold conservative. cbn [fst snd]. rewrite !Z.opp_involutive. lia.
Qed.

(* the two orientations, stated on their own (C15 simulation_exact / its refutation) *)
Lemma simulation_base_to_gas w sender gas price commission minOut ce cib r r' :
  wf_pools w -> calc_commission o_sa w gas price = Ok (commission, true) ->
  commission_deliver w sender gas commission price true minOut = Val (ce, cib) ->
  get_pool w 0 gas = Some r -> sim_reserves w gas commission true 0 gas r = Ok r' ->
  get_pool (apply_effs w ce) 0 gas = Some r'.
Proof.
  intros Hwf HC HD Hg Hs.
  destruct (calc_commission_pool _ _ _ _ HC) as (Hgas & Hc & _).
  destruct (commission_deliver_shape _ _ _ _ _ _ _ _ _ HD) as [_ Hp].
  destruct (Hp eq_refl) as (g & b0 & d0 & Hpool & Hsw & ->).
  destruct (Hwf gas 0 (g, b0) Hpool) as [Hg0 Hb0]. cbn [fst snd] in Hg0, Hb0.
  destruct (sell_wo_shape g b0 commission minOut d0 cib Hg0 Hb0 Hsw) as (_ & Hd0 & Hd0p & Hcib & Hcibp & Hciblt & _).
  unfold sim_reserves in Hs. rewrite pkey_sym, keq_refl in Hs. cbn [andb] in Hs.
  rewrite Hpool in Hs. rewrite bfs_wo_fun in Hs by lia. cbn [of_outcome rbind] in Hs. rewrite <- Hd0, <- Hcib in Hs.
  rewrite get_pool_sym in Hg by auto. rewrite Hpool in Hg. injection Hg as <-. cbn [fst snd] in Hs.
  destruct (Z.eqb_spec gas 0); [contradiction|]. cbn [andb rbind] in Hs. rewrite Z.eqb_refl in Hs. cbn [andb] in Hs.
  unfold add_last_step in Hs.
  destruct (Z.ltb_spec (- cib) 0); [|lia]. cbn [orb] in Hs.
  destruct (Z.ltb_spec (- - commission) 0); [lia|]. destruct (Z.ltb_spec (- - cib) 0); [lia|]. cbn [orb] in Hs.
  unfold add_last_step_pos in Hs. cbn [negb] in Hs. injection Hs as <-.
  rewrite get_pool_sym by auto. rewrite apply_effs_cons. rewrite apply_effs_pool_other by reflexivity.
  rewrite (apply_eff_pool_same w gas 0 d0 (- cib) g b0 Hpool). rewrite !Z.opp_involutive.
  f_equal. f_equal; lia.
Qed.

Lemma simulation_gas_to_base w sender gas price commission minOut ce cib r r' :
  wf_pools w -> calc_commission o_sa w gas price = Ok (commission, true) ->
  commission_deliver w sender gas commission price true minOut = Val (ce, cib) ->
  get_pool w gas 0 = Some r -> sim_reserves w gas commission true gas 0 r = Ok r' ->
  get_pool (apply_effs w ce) gas 0 = Some r'.
Proof.
  intros Hwf HC HD Hg Hs.
  destruct (calc_commission_pool _ _ _ _ HC) as (Hgas & Hc & _).
  destruct (commission_deliver_shape _ _ _ _ _ _ _ _ _ HD) as [_ Hp].
  destruct (Hp eq_refl) as (g & b0 & d0 & Hpool & Hsw & ->).
  destruct (Hwf gas 0 (g, b0) Hpool) as [Hg0 Hb0]. cbn [fst snd] in Hg0, Hb0.
  destruct (sell_wo_shape g b0 commission minOut d0 cib Hg0 Hb0 Hsw) as (_ & Hd0 & Hd0p & Hcib & Hcibp & Hciblt & _).
  unfold sim_reserves in Hs. rewrite keq_refl in Hs. cbn [andb] in Hs.
  rewrite Hpool in Hs. rewrite bfs_wo_fun in Hs by lia. cbn [of_outcome rbind] in Hs. rewrite <- Hd0, <- Hcib in Hs.
  rewrite Hpool in Hg. injection Hg as <-. cbn [fst snd] in Hs.
  rewrite Z.eqb_refl in Hs. cbn [andb] in Hs.
  unfold add_last_step in Hs.
  destruct (Z.ltb_spec commission 0); [lia|]. destruct (Z.ltb_spec cib 0); [lia|]. cbn [orb rbind] in Hs.
  destruct (Z.eqb_spec gas 0); [contradiction|]. cbn [andb] in Hs. injection Hs as <-.
  rewrite apply_effs_cons. rewrite apply_effs_pool_other by reflexivity.
  rewrite (apply_eff_pool_same w gas 0 d0 (- cib) g b0 Hpool). unfold add_last_step_pos.
  f_equal. f_equal; lia.
Qed.

Lemma hit_self0 s c c' : hit s c s c' = (c =? c').
Proof. unfold hit. rewrite Z.eqb_refl. reflexivity. Qed.

(* the commission through the pool is the CalculateSellForBuyWithOrders amount for the price *)
Lemma calc_commission_pool_val w gas price c :
  wf_pools w -> 0 < price -> calc_commission o_sa w gas price = Ok (c, true) ->
  exists g b, get_pool w gas 0 = Some (g, b) /\ 0 < g /\ 0 < b /\ price < b /\ c = add0999 (sfb_fun g b price).
Proof.
  intros Hwf Hp. unfold calc_commission. destruct (Z.eqb_spec gas 0); [discriminate|].
  destruct (price =? 0); [discriminate|].
  destruct (get_coin w gas) as [gc|]; [|discriminate].
  unfold commission_from_pool. destruct (get_pool w gas 0) as [[g b]|] eqn:Ep.
  2:{ cbn [rbind]. destruct (commission_from_reserve o_sa gc price); discriminate. }
  destruct (Hwf gas 0 (g, b) Ep) as [Hg Hb]. cbn [fst snd] in Hg, Hb.
  unfold check_swap_buy. rewrite sfb_wo_fun by lia.
  destruct (Z.ltb_spec price b) as [Hlt|]; cbn [rbind].
  2:{ destruct (commission_from_reserve o_sa gc price); discriminate. }
  destruct (max_coin_supply <? add0999 (sfb_fun g b price)); cbn [rbind].
  { destruct (commission_from_reserve o_sa gc price); discriminate. }
  destruct (negb (0 <? add0999 (sfb_fun g b price))); cbn [rbind].
  { destruct (commission_from_reserve o_sa gc price); discriminate. }
  destruct (commission_from_reserve o_sa gc price) as [|rr].
  - intros HH. injection HH as <-. exists g, b. auto.
  - destruct (rr <? add0999 (sfb_fun g b price)); intros HH; [discriminate|]. injection HH as <-. exists g, b. auto.
Qed.

(* without limit orders the commission swap of the deliver phase never panics and never returns less
   than the price it was computed for (with limit orders it can return one pip less, which made
   SellAllCoin — it demanded the price as minimum output until fix 1f18dbb — panic in DeliverTx;
   regression replay: vharness c15 sellall-panic) *)
Lemma commission_swap_meets_price w sender gas price c :
  wf_pools w -> 0 < price -> calc_commission o_sa w gas price = Ok (c, true) ->
  exists ce cib, commission_deliver w sender gas c price true 0 = Val (ce, cib) /\ price <= cib.
Proof.
  intros Hwf Hp HC.
  destruct (calc_commission_pool_val w gas price c Hwf Hp HC) as (g & b & Ep & Hg & Hb & Hlt & ->).
  unfold commission_deliver. rewrite Ep.
  assert (Hi : 0 < sfb_fun g b price).
  { unfold sfb_fun. destruct (Z.eqb_spec price 0); [lia|]. apply sfb_raw_pos; lia. }
  pose proof (add0999_ge (sfb_fun g b price) ltac:(lia)) as Hge.
  unfold sell_wo.
  destruct (Z.ltb_spec 0 (add0999 (sfb_fun g b price))); cbn [negb]; [|lia].
  pose proof (sub1000_add0999 (sfb_fun g b price) Hi) as Hsub. rewrite sub1000_pos in Hsub by lia. rewrite Hsub.
  destruct (Z.ltb_spec 0 (sfb_fun g b price)); cbn [negb]; [|lia].
  rewrite bfs_core_fun by lia.
  assert (Hback : price <= bfs_fun g b (sfb_fun g b price)).
  { unfold bfs_fun, sfb_fun. destruct (Z.eqb_spec price 0); [lia|].
    destruct (Z.eqb_spec (sfb_raw g b price) 0) as [E|_]; [pose proof (sfb_raw_pos g b price); lia|].
    pose proof (sell_then_buy_ge g b price Hg Hb Hp Hlt). lia. }
  destruct (Z.ltb_spec 0 (bfs_fun g b (sfb_fun g b price))); cbn [negb]; [|lia].
  destruct (Z.ltb_spec (bfs_fun g b (sfb_fun g b price)) 0); [lia|].
  eexists _, _. split; [reflexivity|exact Hback].
Qed.

(* the sender's balance changes of the commission part *)
Lemma commission_bal w sender gas commission price is_pool minOut ce cib (whole : bool) c :
  sender <> burn_address ->
  commission_deliver w sender gas commission price is_pool minOut = Val (ce, cib) ->
  bal_deltas (ce ++ (if whole then [] else [EBal sender gas (- commission)]) ++ [ERpool cib]) sender c =
  if whole then 0 else if gas =? c then - commission else 0.
Proof.
  intros Hsb HD. unfold commission_deliver in HD.
  assert (Hce : bal_deltas ce sender c = 0).
  { destruct is_pool.
    - destruct (get_pool w gas 0) as [[g b]|]; [|discriminate].
      destruct (sell_wo g b commission minOut) as [[d0 x]| |]; try discriminate. injection HD as <- <-.
      unfold bal_deltas. cbn [map bal_delta sum_Z fold_right]. unfold hit. destruct (Z.eqb_spec burn_address sender); [congruence|]. reflexivity.
    - destruct (negb (gas =? 0)); injection HD as <- <-; reflexivity. }
  rewrite !bal_deltas_app, Hce. destruct whole; unfold bal_deltas; cbn [map bal_delta sum_Z fold_right]; [lia|].
  rewrite hit_self0. destruct (gas =? c); lia.
Qed.

Lemma with_commission_accept w sender gas commission price is_pool minOut whole k mk effs tg :
  with_commission w sender gas commission price is_pool minOut whole k mk = Accept effs tg ->
  exists ce cib effs' t,
    commission_deliver w sender gas commission price is_pool minOut = Val (ce, cib) /\
    k (apply_effs w (ce ++ (if whole then [] else [EBal sender gas (- commission)]) ++ [ERpool cib])) = Val (effs', t) /\
    effs = (ce ++ (if whole then [] else [EBal sender gas (- commission)]) ++ [ERpool cib]) ++ effs' /\
    tg = mk cib t.
Proof.
  unfold with_commission.
  destruct (commission_deliver w sender gas commission price is_pool minOut) as [[ce cib]| |]; try discriminate.
  destruct (k _) as [[effs' t]| |] eqn:Ek; try discriminate.
  intros HH. injection HH as <- <-. exists ce, cib, effs', t. auto.
Qed.

Lemma extra_no_pool sender gas commission cib (whole : bool) :
  forallb no_pool_eff ((if whole then [] else [EBal sender gas (- commission)]) ++ [ERpool cib]) = true.
Proof. destruct whole; reflexivity. Qed.

(* ---- the observables of a transaction ------------------------------------------------------------------------------ *)
Definition first_coin (d : txdata) : Z :=
  match d with
  | SellPool (c :: _) _ _ | BuyPool (c :: _) _ _ | SellAllPool (c :: _) _ => c
  | SellCoin cs _ _ _ | BuyCoin _ _ cs _ | SellAllCoin cs _ _ => cs
  | _ => 0
  end.
Definition last_coin (d : txdata) : Z :=
  match d with
  | SellPool (c :: r) _ _ | BuyPool (c :: r) _ _ | SellAllPool (c :: r) _ => lastc c r
  | SellCoin _ _ cb _ | BuyCoin cb _ _ _ | SellAllCoin _ cb _ => cb
  | _ => 0
  end.
Definition min_to_buy (d : txdata) : option Z :=
  match d with
  | SellPool _ _ m | SellAllPool _ m | SellCoin _ _ _ m | SellAllCoin _ _ m => Some m
  | _ => None
  end.
Definition max_to_sell (d : txdata) : option Z :=
  match d with BuyPool _ _ m | BuyCoin _ _ _ m => Some m | _ => None end.
Definition is_sell_all (d : txdata) : bool :=
  match d with SellAllPool _ _ | SellAllCoin _ _ _ => true | _ => false end.

(* (credited to the sender in the last coin, debited from the sender in the first coin), the
   commission apart: a sell returns tx.return for the value sold (a sell-all: the balance less
   the commission), a buy returns the value bought for tx.return *)
Definition amounts (w : world) (t : tx) (tg : tags) : Z * Z :=
  match t_data t with
  | SellPool _ v _ | SellCoin _ v _ _ => (tag_return tg, v)
  | SellAllPool _ _ | SellAllCoin _ _ _ => (tag_return tg, bal w (t_sender t) (first_coin (t_data t)) - tag_commission tg)
  | BuyPool _ v _ | BuyCoin _ v _ _ => (v, tag_return tg)
  end.

Definition b2z (b : bool) (v : Z) : Z := if b then v else 0.

(* the amount the CHECK phase of a pool transaction arrives at (what it compares with the limit) *)
Definition check_amount (w : world) (t : tx) : option Z :=
  let gas := commission_coin t in
  let price := tx_price (w_prices w) t in
  match calc_commission o_sa w gas price with
  | Ok (commission, is_pool) =>
    match t_data t with
    | SellPool (c0 :: rest) v m =>
      match sell_route_check w gas commission is_pool [] c0 v rest m with Ok s => Some s | _ => None end
    | SellAllPool (c0 :: rest) m =>
      match sell_route_check w gas commission is_pool [] c0 (bal w (t_sender t) c0 - commission) rest m with Ok s => Some s | _ => None end
    | BuyPool coins v m =>
      match rev coins with
      | ck :: rest => match buy_route_check w gas commission is_pool [] ck v rest m with Ok s => Some s | _ => None end
      | [] => None
      end
    | _ => None
    end
  | _ => None
  end.

(* what an accepted transaction yields, type by type *)
Record accepted (w : world) (t : tx) (effs : list eff) (tg : tags) : Prop := {
  acc_limit_min : forall m, min_to_buy (t_data t) = Some m -> m <= tag_return tg;
  acc_limit_max : forall m, max_to_sell (t_data t) = Some m -> tag_return tg <= m;
  acc_credit : In (EBal (t_sender t) (last_coin (t_data t)) (fst (amounts w t tg))) effs;
  acc_debit : is_sell_all (t_data t) = false -> In (EBal (t_sender t) (first_coin (t_data t)) (- snd (amounts w t tg))) effs;
  acc_bal : forall c, bal_deltas effs (t_sender t) c =
                      b2z (last_coin (t_data t) =? c) (fst (amounts w t tg))
                      - b2z (first_coin (t_data t) =? c) (snd (amounts w t tg))
                      - b2z (commission_coin t =? c) (tag_commission tg);
  acc_sell_amount : is_sell_all (t_data t) = true -> tag_sell_amount tg = Some (bal w (t_sender t) (first_coin (t_data t)));
  acc_exact : forall s, check_amount w t = Some s -> tag_return tg = s
}.

Lemma hit_self s c c' : hit s c s c' = (c =? c').
Proof. unfold hit. rewrite Z.eqb_refl. reflexivity. Qed.

Ltac bal_calc := repeat (rewrite bal_deltas_cons || rewrite bal_deltas_app); cbn [bal_delta]; rewrite ?hit_self.

Lemma bal_deltas_nil a c : bal_deltas [] a c = 0. Proof. reflexivity. Qed.
Lemma bal_deltas_if (b : bool) l a c : bal_deltas (if b then l else []) a c = if b then bal_deltas l a c else 0.
Proof. destruct b; reflexivity. Qed.

Ltac bancor_exact EC :=
  let s0 := fresh "s0" in let Hs0 := fresh "Hs0" in
  intros s0 Hs0; unfold check_amount in Hs0; cbn [t_data] in Hs0;
  match type of Hs0 with context [calc_commission ?o ?w ?g ?p] => destruct (calc_commission o w g p) as [[? ?]| |] end; discriminate Hs0.

Theorem run_accepted w t effs tg :
  wf_pools w -> t_sender t <> burn_address ->
  run o_pr o_pa o_sr o_sa w t true = Accept effs tg -> accepted w t effs tg.
Proof.
  intros Hwf Hsb HR. unfold run in HR. change (negb true) with false in HR. cbv beta iota in HR.
  destruct t as [sender gasc gp plen data]. cbn [t_sender t_data] in *.
  set (gas := commission_coin _) in *. set (price := tx_price (w_prices w) _) in *.
  destruct data as [coins value vmin|coins value vmax|coins vmin|csell value cbuy vmin|cbuy value csell vmax|csell cbuy vmin].
  - (* SellSwapPool *)
    destruct (basic_check_route w coins) eqn:Eb; [discriminate|].
    destruct (basic_check_route_shape w coins Eb) as (c0 & c1 & r & ->).
    destruct (calc_commission o_sa w gas price) as [[commission is_pool]| |] eqn:EC; try discriminate.
    destruct (sell_route_check w gas commission is_pool [] c0 value (c1 :: r) vmin) as [s| |] eqn:ES; try discriminate.
    repeat acc_step HR. cbn [negb] in HR.
    destruct (with_commission_accept _ _ _ _ _ _ _ _ _ _ _ _ HR) as (ce & cib & effs' & tt & HD & Hk & -> & ->).
    destruct (sell_route_deliver _ sender c0 value (c1 :: r) true) as [[er out]| |] eqn:ER; try discriminate.
    injection Hk as <- <-.
    pose proof (sim_init w sender gas price commission is_pool 0 ce cib _ Hwf EC HD (extra_no_pool sender gas commission cib false)) as HI.
    pose proof (sell_route_first_pos _ _ _ _ _ _ _ _ _ ER) as Hpos.
    destruct (sell_route_sound w gas commission is_pool sender vmin _ _ _ _ _ _ _ _ _ _ HI (Z.lt_le_incl _ _ Hpos) eq_refl ES ER) as [S1 S2].
    destruct (sell_route_bal sender _ _ _ _ _ _ _ Hsb (cons_ne _ _) ER) as (B1 & B2 & B3).
    constructor; cbn [min_to_buy max_to_sell last_coin first_coin amounts t_data t_sender is_sell_all mk_tags ret_tags tag_return tag_commission tag_sell_amount fst snd].
    + intros m Hm. injection Hm as <-. specialize (S2 (cons_ne _ _)). lia.
    + discriminate.
    + in_solve.
    + intros _. specialize (B2 eq_refl). in_solve.
    + intros c. cbv beta iota. rewrite bal_deltas_app, B3, (commission_bal w sender gas commission price is_pool 0 ce cib false c Hsb HD).
      unfold b2z. cbn [andb]. fold gas. destruct (gas =? c), (c0 =? c), (lastc c0 (c1 :: r) =? c); lia.
    + discriminate.
    + intros s0 Hs0. unfold check_amount in Hs0. cbn [t_data t_sender] in Hs0. fold gas price in Hs0. rewrite EC in Hs0.
      cbv beta iota in Hs0. rewrite ES in Hs0. injection Hs0 as <-. cbn [mk_tags ret_tags tag_return]. lia.
  - (* BuySwapPool *)
    destruct (basic_check_route w coins) eqn:Eb; [discriminate|].
    destruct (basic_check_route_shape w coins Eb) as (c0 & c1 & r & ->).
    destruct (calc_commission o_sa w gas price) as [[commission is_pool]| |] eqn:EC; try discriminate.
    destruct (rev (c0 :: c1 :: r)) as [|ck rest] eqn:Erev; [discriminate|].
    destruct (rev_route _ _ _ _ Erev) as [Hck Hc0].
    assert (Hrest : rest <> []).
    { intros ->. apply (f_equal (@length Z)) in Erev. rewrite rev_length in Erev. discriminate. }
    destruct (buy_route_check w gas commission is_pool [] ck value rest vmax) as [need| |] eqn:ES; try discriminate.
    repeat acc_step HR. cbn [negb] in HR.
    destruct (with_commission_accept _ _ _ _ _ _ _ _ _ _ _ _ HR) as (ce & cib & effs' & tt & HD & Hk & -> & ->).
    destruct (buy_route_deliver _ sender ck value rest true) as [[er ain]| |] eqn:ER; try discriminate.
    injection Hk as <- <-.
    pose proof (sim_init w sender gas price commission is_pool 0 ce cib _ Hwf EC HD (extra_no_pool sender gas commission cib false)) as HI.
    destruct rest as [|cs rest']; [congruence|].
    pose proof (buy_route_first_pos _ _ _ _ _ _ _ _ _ ER) as Hpos.
    destruct (buy_route_sound w gas commission is_pool sender vmax _ _ _ _ _ _ _ _ _ _ HI (Z.lt_le_incl _ _ Hpos) eq_refl ES ER) as [S1 S2].
    destruct (buy_route_bal sender _ _ _ _ _ _ _ Hsb (cons_ne _ _) ER) as (B1 & B2 & B3).
    rewrite Hc0 in B1, B3. rewrite Hck in B2, B3.
    constructor; cbn [min_to_buy max_to_sell last_coin first_coin amounts t_data t_sender is_sell_all mk_tags ret_tags tag_return tag_commission tag_sell_amount fst snd].
    + discriminate.
    + intros m Hm. injection Hm as <-. specialize (S2 (cons_ne _ _)). lia.
    + specialize (B2 eq_refl). in_solve.
    + intros _. in_solve.
    + intros c. cbv beta iota. rewrite bal_deltas_app, B3, (commission_bal w sender gas commission price is_pool 0 ce cib false c Hsb HD).
      unfold b2z. cbn [andb]. fold gas. destruct (gas =? c), (c0 =? c), (lastc c0 (c1 :: r) =? c); lia.
    + discriminate.
    + intros s0 Hs0. unfold check_amount in Hs0. cbn [t_data t_sender] in Hs0. fold gas price in Hs0. rewrite EC in Hs0.
      cbv beta iota in Hs0. rewrite Erev in Hs0. rewrite ES in Hs0. injection Hs0 as <-. cbn [mk_tags ret_tags tag_return]. lia.
  - (* SellAllSwapPool *)
    destruct (basic_check_route w coins) eqn:Eb; [discriminate|].
    destruct (basic_check_route_shape w coins Eb) as (c0 & c1 & r & ->).
    destruct (calc_commission o_sa w gas price) as [[commission is_pool]| |] eqn:EC; try discriminate.
    destruct (Z.ltb_spec 0 (bal w sender c0 - commission)) as [Hpos|]; cbn [negb] in HR; [|discriminate].
    destruct (sell_route_check w gas commission is_pool [] c0 (bal w sender c0 - commission) (c1 :: r) vmin) as [s| |] eqn:ES; try discriminate.
    cbn [negb] in HR.
    destruct (with_commission_accept _ _ _ _ _ _ _ _ _ _ _ _ HR) as (ce & cib & effs' & tt & HD & Hk & -> & ->).
    destruct (sell_route_deliver _ sender c0 (bal w sender c0 - commission) (c1 :: r) true) as [[er out]| |] eqn:ER; try discriminate.
    injection Hk as <- <-.
    pose proof (sim_init w sender gas price commission is_pool 0 ce cib _ Hwf EC HD (extra_no_pool sender gas commission cib false)) as HI.
    destruct (sell_route_sound w gas commission is_pool sender vmin _ _ _ _ _ _ _ _ _ _ HI (Z.lt_le_incl _ _ Hpos) eq_refl ES ER) as [S1 S2].
    destruct (sell_route_bal sender _ _ _ _ _ _ _ Hsb (cons_ne _ _) ER) as (B1 & B2 & B3).
    constructor; cbn [min_to_buy max_to_sell last_coin first_coin amounts t_data t_sender is_sell_all mk_tags ret_tags tag_return tag_commission tag_sell_amount fst snd].
    + intros m Hm. injection Hm as <-. specialize (S2 (cons_ne _ _)). lia.
    + discriminate.
    + in_solve.
    + discriminate.
    + intros c. cbv beta iota. rewrite bal_deltas_app, B3, (commission_bal w sender gas commission price is_pool 0 ce cib false c Hsb HD).
      unfold b2z. cbn [andb]. fold gas. change gas with c0. destruct (c0 =? c), (lastc c0 (c1 :: r) =? c); lia.
    + reflexivity.
    + intros s0 Hs0. unfold check_amount in Hs0. cbn [t_data t_sender] in Hs0. fold gas price in Hs0. rewrite EC in Hs0.
      cbv beta iota in Hs0. rewrite ES in Hs0. injection Hs0 as <-. cbn [mk_tags ret_tags tag_return]. lia.
  - (* SellCoin *)
    destruct (basic_check_coins w csell cbuy); [discriminate|].
    destruct (calc_commission o_sa w gas price) as [[commission is_pool]| |] eqn:EC; try discriminate.
    repeat acc_step HR; cbn [negb] in HR;
    (destruct (with_commission_accept _ _ _ _ _ _ _ _ _ _ _ _ HR) as (ce & cib & effs' & tt & HD & Hk & -> & ->);
     injection Hk as <- <-;
     constructor; cbn [min_to_buy max_to_sell last_coin first_coin amounts t_data t_sender is_sell_all mk_tags ret_tags tag_return tag_commission tag_sell_amount fst snd];
     [ intros m Hm; injection Hm as <-; lia | discriminate | in_solve | intros _; in_solve | | discriminate | bancor_exact EC ];
     intros c; cbv beta iota; rewrite bal_deltas_app, (commission_bal w sender gas commission price is_pool 0 ce cib false c Hsb HD);
     bal_calc; rewrite ?bal_deltas_if; bal_calc; rewrite ?bal_deltas_nil; unfold b2z; fold gas;
     destruct (gas =? c), (csell =? c), (cbuy =? c), (negb (csell =? 0)), (negb (cbuy =? 0)); lia).
  - (* BuyCoin *)
    destruct (basic_check_coins w csell cbuy); [discriminate|].
    destruct (calc_commission o_sa w gas price) as [[commission is_pool]| |] eqn:EC; try discriminate.
    repeat acc_step HR; cbn [negb] in HR;
    (destruct (with_commission_accept _ _ _ _ _ _ _ _ _ _ _ _ HR) as (ce & cib & effs' & tt & HD & Hk & -> & ->);
     injection Hk as <- <-;
     constructor; cbn [min_to_buy max_to_sell last_coin first_coin amounts t_data t_sender is_sell_all mk_tags ret_tags tag_return tag_commission tag_sell_amount fst snd];
     [ discriminate | intros m Hm; injection Hm as <-; lia | in_solve | intros _; in_solve | | discriminate | bancor_exact EC ];
     intros c; cbv beta iota; rewrite bal_deltas_app, (commission_bal w sender gas commission price is_pool 0 ce cib false c Hsb HD);
     bal_calc; rewrite ?bal_deltas_if; bal_calc; rewrite ?bal_deltas_nil; unfold b2z; fold gas;
     destruct (gas =? c), (csell =? c), (cbuy =? c), (negb (csell =? 0)), (negb (cbuy =? 0)); lia).
  - (* SellAllCoin *)
    destruct (basic_check_coins w csell cbuy); [discriminate|].
    destruct (calc_commission o_sa w gas price) as [[commission is_pool]| |] eqn:EC; try discriminate.
    repeat acc_step HR; cbn [negb] in HR;
    (destruct (with_commission_accept _ _ _ _ _ _ _ _ _ _ _ _ HR) as (ce & cib & effs' & tt & HD & Hk & -> & ->);
     injection Hk as <- <-;
     constructor; cbn [min_to_buy max_to_sell last_coin first_coin amounts t_data t_sender is_sell_all mk_tags ret_tags tag_return tag_commission tag_sell_amount fst snd];
     [ intros m Hm; injection Hm as <-; lia | discriminate | in_solve | discriminate | | reflexivity | bancor_exact EC ];
     intros c; cbv beta iota; rewrite bal_deltas_app, (commission_bal w sender gas commission price is_pool 0 ce cib true c Hsb HD);
     bal_calc; rewrite ?bal_deltas_if; bal_calc; rewrite ?bal_deltas_nil; unfold b2z; fold gas; change gas with csell;
     destruct (csell =? c), (cbuy =? c), (negb (csell =? 0)), (negb (cbuy =? 0)); lia).
Qed.

End Props.
