(* BancorCheck.v — the tolerance predicate: what it transfers to an oracle value, the soundness and
   completeness of the cheap decision procedure [check_within], the full functions with the float
   branch as an oracle, and the dispatcher's verdict (model 12). *)
From Minter Require Import Base Bancor BancorFacts.
From Coq Require Import ZArith Lia Bool.
Open Scope Z_scope.

(* ================================================================================================ *)
(* 1. tolerance transfer: |f - ideal| <= (n/d) ideal + 1                                             *)
(* ================================================================================================ *)
Section Tolerance.
Variables n d : Z.
Hypothesis Hn : 0 <= n <= d.
Hypothesis Hd : 0 < d.

Lemma within_split f i :
  within n d f i <-> (f - i) * d <= n * i + d /\ (i - f) * d <= n * i + d.
Proof.
  unfold within. destruct (Z.abs_spec (f - i)) as [[H E]|[H E]]; rewrite E; split; intros G; nia.
Qed.

Lemma within_refl i : 0 <= i -> within n d i i.
Proof. intros Hi. apply within_split. nia. Qed.

(* never negative, up to the one unit of truncation *)
Lemma within_nonneg f i : 0 <= i -> within n d f i -> -1 <= f.
Proof. intros Hi H. apply within_split in H. nia. Qed.

(* an upper bound of the exact value bounds the oracle value up to the tolerance *)
Lemma within_upper f i b : 0 <= i -> i <= b -> within n d f i -> (f - b) * d <= n * b + d.
Proof. intros Hi Hb H. apply within_split in H. nia. Qed.

(* monotonicity of the exact value gives monotonicity of the oracle values up to the tolerance *)
Lemma within_mono f f' i i' : 0 <= i -> i <= i' -> within n d f i -> within n d f' i' ->
  (f - f') * d <= n * (i + i') + 2 * d.
Proof. intros Hi Hii H H'. apply within_split in H. apply within_split in H'. nia. Qed.

Lemma within_mono' f f' i i' : 0 <= i -> i <= i' -> within n d f i -> within n d f' i' ->
  (f - f') * d <= 2 * n * i' + 2 * d.
Proof. intros Hi Hii H H'. pose proof (within_mono f f' i i' Hi Hii H H'). nia. Qed.

End Tolerance.

(* ================================================================================================ *)
(* 2. check_within decides [within] against the largest_sat without computing it                    *)
(* ================================================================================================ *)
Lemma cdiv_spec a b : 0 < b -> a <= b * cdiv a b < a + b.
Proof.
  intros Hb. unfold cdiv.
  pose proof (Z.div_mod (- a) b ltac:(lia)). pose proof (Z.mod_pos_bound (- a) b Hb). nia.
Qed.

Lemma fdiv_spec a b : 0 < b -> b * (a / b) <= a < b * (a / b + 1).
Proof. intros Hb. split; [apply div_lo|apply div_hi]; assumption. Qed.

Section Check.
Variable P : Z -> bool.
Variables hi n d : Z.
Hypothesis Hhi : 0 <= hi.
Hypothesis Hdc : down_closed P 0 hi.
Hypothesis Hp0 : P 0 = true.
Hypothesis Hn : 0 <= n < d.

Let v := largest_sat P 0 hi.

Lemma lower_test lb :
  ((lb <=? 0) || ((lb <=? hi) && P lb)) = true <-> lb <= v.
Proof.
  destruct (largest_sat_spec P 0 hi Hhi Hdc Hp0) as (Hv & Hpv & Hmax). fold v in Hv, Hpv, Hmax.
  destruct (Z.leb_spec lb 0) as [H0|H0]; cbn [orb].
  - split; intros _; [lia|reflexivity].
  - destruct (Z.leb_spec lb hi) as [H1|H1]; cbn [andb].
    + split; intros G.
      * apply largest_sat_ge; try assumption; lia.
      * apply (Hdc lb v); try lia; assumption.
    + split; intros G; [discriminate|lia].
Qed.

Lemma upper_test ub :
  ((0 <=? ub) && ((hi <=? ub) || negb (P (ub + 1)))) = true <-> v <= ub.
Proof.
  destruct (largest_sat_spec P 0 hi Hhi Hdc Hp0) as (Hv & Hpv & Hmax). fold v in Hv, Hpv, Hmax.
  destruct (Z.leb_spec 0 ub) as [H0|H0]; cbn [andb].
  - destruct (Z.leb_spec hi ub) as [H1|H1]; cbn [orb].
    + split; intros _; [lia|reflexivity].
    + split; intros G.
      * destruct (P (ub + 1)) eqn:E; [discriminate|].
        pose proof (largest_sat_lt P 0 hi (ub + 1) Hhi Hdc Hp0 ltac:(lia) E). fold v in H. lia.
      * destruct (Z.eq_dec v (ub + 1)) as [E|E]; [lia|].
        rewrite (Hmax (ub + 1) ltac:(lia) ltac:(lia)). reflexivity.
  - split; intros G; [discriminate|lia].
Qed.

Theorem check_within_iff f : check_within P hi n d f = true <-> within n d f v.
Proof.
  unfold check_within.
  pose proof (cdiv_spec ((f - 1) * d) (d + n) ltac:(lia)) as HL.
  pose proof (fdiv_spec ((f + 1) * d) (d - n) ltac:(lia)) as HU.
  set (lb := cdiv ((f - 1) * d) (d + n)) in *. set (ub := (f + 1) * d / (d - n)) in *.
  rewrite andb_true_iff, lower_test, upper_test.
  rewrite (within_split n d ltac:(lia) ltac:(lia)).
  destruct (largest_sat_spec P 0 hi Hhi Hdc Hp0) as (Hv & _ & _). fold v in Hv.
  split; intros [A B]; split; nia.
Qed.

End Check.

(* ================================================================================================ *)
(* 3. the full functions: integer branch exact, float branch = oracle                               *)
(* ================================================================================================ *)
Definition bancor_ideal (k s r c a : Z) : Z :=
  match k with
  | 1 => ideal_purchase_return s r c a
  | 2 => ideal_purchase_amount s r c a
  | 3 => ideal_sale_return s r c a
  | _ => ideal_sale_amount s r c a
  end.

Lemma bancor_domain_spec k s r c a : bancor_domain k s r c a = true ->
  1 <= k <= 4 /\ 0 < s /\ 0 < r /\ 10 <= c <= 100 /\ 0 <= a /\ (k = 3 -> a <= s) /\ (k = 4 -> a <= r).
Proof.
  unfold bancor_domain. rewrite !andb_true_iff.
  intros ((((((((H1 & H2) & H3) & H4) & H5) & H6) & H7) & H8) & H9).
  apply Z.leb_le in H1, H2, H5, H6, H7. apply Z.ltb_lt in H3, H4.
  repeat split; try lia.
  - intros ->. cbn in H8. apply Z.leb_le in H8. exact H8.
  - intros ->. cbn in H9. apply Z.leb_le in H9. exact H9.
Qed.

Lemma bancor_ideal_nonneg k s r c a : bancor_domain k s r c a = true -> 0 <= bancor_ideal k s r c a.
Proof.
  intros H. destruct (bancor_domain_spec _ _ _ _ _ H) as (Hk & Hs & Hr & Hc & Ha & H3 & H4).
  assert (K : k = 1 \/ k = 2 \/ k = 3 \/ k = 4) by lia.
  destruct K as [ -> | [ -> | [ -> | -> ] ] ]; cbn [bancor_ideal].
  - apply ideal_purchase_return_spec; assumption.
  - apply ideal_purchase_amount_spec; assumption.
  - apply ideal_sale_return_spec; try assumption. split; [assumption|apply H3; reflexivity].
  - apply ideal_sale_amount_spec; try assumption. split; [assumption|apply H4; reflexivity].
Qed.

(* the integer branches of the code are exact *)
Lemma bancor_int_exact k s r c a v : bancor_domain k s r c a = true ->
  bancor_int k s r c a = Some v -> v = Val (bancor_ideal k s r c a).
Proof.
  intros H Hi. destruct (bancor_domain_spec _ _ _ _ _ H) as (Hk & Hs & Hr & Hc & Ha & H3 & H4).
  assert (K : k = 1 \/ k = 2 \/ k = 3 \/ k = 4) by lia.
  destruct K as [ -> | [ -> | [ -> | -> ] ] ]; cbn [bancor_ideal bancor_int] in *.
  - apply code_purchase_return_int_exact; assumption.
  - apply code_purchase_amount_int_exact; assumption.
  - apply code_sale_return_int_exact; try assumption. split; [assumption|apply H3; reflexivity].
  - apply code_sale_amount_int_exact; try assumption. split; [assumption|apply H4; reflexivity].
Qed.

Lemma eps_ok : 0 <= eps_num < eps_den.
Proof. unfold eps_num, eps_den. split; [lia|]. reflexivity. Qed.

Lemma bancor_float_ok_iff k s r c a f : bancor_domain k s r c a = true ->
  (bancor_float_ok k s r c a f = true <-> within eps_num eps_den f (bancor_ideal k s r c a)).
Proof.
  intros H. destruct (bancor_domain_spec _ _ _ _ _ H) as (Hk & Hs & Hr & Hc & Ha & H3 & H4).
  assert (K : k = 1 \/ k = 2 \/ k = 3 \/ k = 4) by lia.
  destruct K as [ -> | [ -> | [ -> | -> ] ] ]; cbn [bancor_ideal bancor_float_ok].
  - apply check_within_iff; try exact eps_ok.
    + apply (pr_hi_nn s r c); assumption.
    + apply pr_dc; assumption.
    + apply pr_zero; assumption.
  - apply check_within_iff; try exact eps_ok.
    + apply (pa_hi_nn s r c); assumption.
    + apply pa_dc; assumption.
    + apply pa_zero; assumption.
  - apply check_within_iff; try exact eps_ok.
    + lia.
    + apply sr_dc; assumption.
    + apply sr_zero; try assumption. split; [assumption|apply H3; reflexivity].
  - apply check_within_iff; try exact eps_ok.
    + lia.
    + apply sa_dc; assumption.
    + apply sa_zero; try assumption. split; [assumption|apply H4; reflexivity].
Qed.

(* the dispatcher's verdict: ok = 1 exactly when the Go value is the exact curve value (integer
   branch) resp. within eps of it (float branch) *)
Theorem run_bancor_op_spec k s r c a f : bancor_domain k s r c a = true ->
  (exists v, bancor_int k s r c a = Some (Val v) /\ v = bancor_ideal k s r c a /\
             run_bancor_op [k; s; r; c; a; f] = [0; if f =? v then 1 else 0]) \/
  (bancor_int k s r c a = None /\
   run_bancor_op [k; s; r; c; a; f] = [1; if bancor_float_ok k s r c a f then 1 else 0] /\
   (bancor_float_ok k s r c a f = true <-> within eps_num eps_den f (bancor_ideal k s r c a))).
Proof.
  intros H. unfold run_bancor_op. rewrite H. cbn [negb].
  destruct (bancor_int k s r c a) as [o|] eqn:E.
  - pose proof (bancor_int_exact _ _ _ _ _ _ H E) as ->. left.
    exists (bancor_ideal k s r c a). repeat split; reflexivity.
  - right. repeat split; try reflexivity; apply bancor_float_ok_iff; assumption.
Qed.

Theorem run_bancor_op_sound k s r c a f b : bancor_domain k s r c a = true ->
  run_bancor_op [k; s; r; c; a; f] = [b; 1] -> within eps_num eps_den f (bancor_ideal k s r c a).
Proof.
  intros H R. pose proof eps_ok as He.
  destruct (run_bancor_op_spec k s r c a f H) as [(v & _ & Hv & R')|(_ & R' & Hiff)]; rewrite R' in R.
  - destruct (Z.eqb_spec f v) as [->|]; [|discriminate]. subst v.
    apply within_refl; try lia. apply bancor_ideal_nonneg; assumption.
  - destruct (bancor_float_ok k s r c a f); [|discriminate]. apply Hiff. reflexivity.
Qed.

Section Oracle.
Variable orc : oracle.
Variables n d : Z.
Hypothesis Hn : 0 <= n <= d.
Hypothesis Hd : 0 < d.

(* the correspondence obligation (validated on samples by the C12 check, not proved): on the float
   branch the Go value is within the tolerance of the exact curve value *)
Definition oracle_ok : Prop :=
  forall k s r c a, bancor_domain k s r c a = true -> bancor_int k s r c a = None ->
    within n d (orc s r c a) (bancor_ideal k s r c a).

Definition bancor_fun (k : Z) : Z -> Z -> Z -> Z -> outcome Z :=
  match k with
  | 1 => purchase_return orc | 2 => purchase_amount orc | 3 => sale_return orc | _ => sale_amount orc
  end.

Theorem bancor_fun_within k s r c a : oracle_ok -> bancor_domain k s r c a = true ->
  exists v, bancor_fun k s r c a = Val v /\ within n d v (bancor_ideal k s r c a).
Proof.
  intros Ho H. pose proof (Ho k s r c a H) as Hf. pose proof (bancor_int_exact k s r c a) as Hi.
  pose proof (bancor_ideal_nonneg _ _ _ _ _ H) as Hnn.
  destruct (bancor_domain_spec _ _ _ _ _ H) as (Hk & _).
  assert (K : k = 1 \/ k = 2 \/ k = 3 \/ k = 4) by lia.
  destruct K as [ -> | [ -> | [ -> | -> ] ] ]; cbn [bancor_fun bancor_int bancor_ideal] in *;
    unfold purchase_return, purchase_amount, sale_return, sale_amount.
  - destruct (code_purchase_return_int s r c a) as [o|].
    + rewrite (Hi o H eq_refl). eexists; split; [reflexivity|apply within_refl; assumption].
    + eexists; split; [reflexivity|apply Hf; reflexivity].
  - destruct (code_purchase_amount_int s r c a) as [o|].
    + rewrite (Hi o H eq_refl). eexists; split; [reflexivity|apply within_refl; assumption].
    + eexists; split; [reflexivity|apply Hf; reflexivity].
  - destruct (code_sale_return_int s r c a) as [o|].
    + rewrite (Hi o H eq_refl). eexists; split; [reflexivity|apply within_refl; assumption].
    + eexists; split; [reflexivity|apply Hf; reflexivity].
  - destruct (code_sale_amount_int s r c a) as [o|].
    + rewrite (Hi o H eq_refl). eexists; split; [reflexivity|apply within_refl; assumption].
    + eexists; split; [reflexivity|apply Hf; reflexivity].
Qed.

End Oracle.
