(* CandAuthFacts.v — candidate settings change only by the owner; on/off switching also by the control address. *)
From Minter Require Import CandAuth.
From Coq Require Import ZArith List Bool Lia.
Import ListNotations.
Open Scope Z_scope.

Definition sender_of_cop (o : cop) : Z :=
  match o with CEdit s _ _ _ => s | CCommission s _ => s | COn s => s | COff s => s end.

(* the settings proper: everything but the on/off switch *)
Definition settings (c : cand) : Z * Z * Z * Z := (ca_owner c, ca_control c, ca_reward c, ca_commission c).

Lemma cstep_settings c o ok :
  settings (fst (cstep c o ok)) <> settings c -> sender_of_cop o = ca_owner c /\ snd (cstep c o ok) = 0.
Proof.
  unfold cstep. destruct (authorized c o) eqn:EA; cbn [negb]; [|intros H; exfalso; apply H; reflexivity].
  destruct ok; cbn [negb]; [|intros H; exfalso; apply H; reflexivity].
  destruct o; cbn [fst snd settings sender_of_cop authorized is_owner is_controller] in *; intros H.
  - apply Z.eqb_eq in EA. split; [exact EA|reflexivity].
  - apply Z.eqb_eq in EA. split; [exact EA|reflexivity].
  - exfalso. apply H. reflexivity.
  - exfalso. apply H. reflexivity.
Qed.

Lemma cstep_switch c o ok :
  ca_online (fst (cstep c o ok)) <> ca_online c ->
  (sender_of_cop o = ca_owner c \/ sender_of_cop o = ca_control c) /\ snd (cstep c o ok) = 0.
Proof.
  unfold cstep. destruct (authorized c o) eqn:EA; cbn [negb]; [|intros H; exfalso; apply H; reflexivity].
  destruct ok; cbn [negb]; [|intros H; exfalso; apply H; reflexivity].
  destruct o; cbn [fst snd sender_of_cop authorized is_owner is_controller ca_online] in *; intros H;
    try (exfalso; apply H; reflexivity).
  - apply orb_true_iff in EA. destruct EA as [E|E]; apply Z.eqb_eq in E; split; auto.
  - apply orb_true_iff in EA. destruct EA as [E|E]; apply Z.eqb_eq in E; split; auto.
Qed.

Lemma cstep_rejected c o ok : snd (cstep c o ok) <> 0 -> fst (cstep c o ok) = c.
Proof.
  unfold cstep. destruct (authorized c o); cbn [negb]; [|reflexivity].
  destruct ok; cbn [negb]; [|reflexivity]. destruct o; cbn [snd]; intros H; exfalso; apply H; reflexivity.
Qed.

Lemma unauthorized_code c o ok : authorized c o = false -> cstep c o ok = (c, cIsNotOwnerOfCandidate).
Proof. intros H. unfold cstep. rewrite H. reflexivity. Qed.

(* along any history: whenever a step changes the settings, its sender is the owner recorded right before it;
   whenever it flips the switch, its sender is that owner or that control address *)
Fixpoint steps_ok (c : cand) (ops : list (cop * bool)) : Prop :=
  match ops with
  | [] => True
  | (o, ok) :: r =>
    let c' := fst (cstep c o ok) in
    (settings c' <> settings c -> sender_of_cop o = ca_owner c) /\
    (ca_online c' <> ca_online c -> sender_of_cop o = ca_owner c \/ sender_of_cop o = ca_control c) /\
    steps_ok c' r
  end.

Lemma history_ok : forall ops c, steps_ok c ops.
Proof.
  induction ops as [|[o ok] r IH]; intros c; [exact I|]. cbn [steps_ok]. split; [|split].
  - intros H. exact (proj1 (cstep_settings c o ok H)).
  - intros H. exact (proj1 (cstep_switch c o ok H)).
  - apply IH.
Qed.
