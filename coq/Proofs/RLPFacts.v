(* RLPFacts.v — the RLP codec of Model/RLP.v is a bijection between well-formed items and
   accepted byte strings; typed round trips; signature-value facts. *)
From Minter Require Import Base RLP.
From Coq Require Import ZArith List Bool Lia ZifyBool.
Import ListNotations.
Open Scope Z_scope.

Definition byte (b : Z) : Prop := 0 <= b < 256.

Lemma is_byte_spec : forall b, is_byte b = true <-> byte b.
Proof. intros b; unfold is_byte, byte; lia. Qed.

Lemma forallb_bytes : forall l, forallb is_byte l = true <-> Forall byte l.
Proof.
  intros l; rewrite forallb_forall, Forall_forall.
  split; intros H x Hx; apply is_byte_spec; auto.
Qed.

Lemma len_app : forall {A} (a b : list A), len (a ++ b) = len a + len b.
Proof. intros; unfold len; rewrite app_length; lia. Qed.
Lemma len_cons : forall {A} (x : A) l, len (x :: l) = 1 + len l.
Proof. intros; unfold len; cbn [length]; lia. Qed.
Lemma len_nonneg : forall {A} (l : list A), 0 <= len l.
Proof. intros; unfold len; lia. Qed.
Lemma len_rev : forall {A} (l : list A), len (rev l) = len l.
Proof. intros; unfold len; rewrite rev_length; reflexivity. Qed.

(* ---- powers ------------------------------------------------------------------------ *)
Lemma pow2_S : forall f : nat, 2 ^ Z.of_nat (S f) = 2 * 2 ^ Z.of_nat f.
Proof. intros; rewrite Nat2Z.inj_succ, Z.pow_succ_r by lia; reflexivity. Qed.
Lemma pow256_S : forall k : nat, 256 ^ Z.of_nat (S k) = 256 * 256 ^ Z.of_nat k.
Proof. intros; rewrite Nat2Z.inj_succ, Z.pow_succ_r by lia; reflexivity. Qed.
Lemma pow2_pos : forall f : nat, 0 < 2 ^ Z.of_nat f.
Proof. intros; apply Z.pow_pos_nonneg; lia. Qed.
Lemma pow256_pos : forall k : nat, 0 < 256 ^ Z.of_nat k.
Proof. intros; apply Z.pow_pos_nonneg; lia. Qed.

(* ---- little-endian digits ------------------------------------------------------------ *)
Lemma le_bytes_0 : forall f, le_bytes f 0 = [].
Proof. destruct f; reflexivity. Qed.

Lemma from_le_nonneg : forall l, Forall byte l -> 0 <= from_le l.
Proof.
  induction l as [|b l IH]; intros H; cbn [from_le]; [lia|].
  inversion H as [|? ? Hb Hl]; subst. specialize (IH Hl). unfold byte in Hb. lia.
Qed.

Lemma from_le_bound : forall l, Forall byte l -> from_le l < 256 ^ len l.
Proof.
  induction l as [|b l IH]; intros H.
  - cbn. lia.
  - inversion H as [|? ? Hb Hl]; subst. specialize (IH Hl).
    unfold len in *. cbn [length from_le]. rewrite pow256_S. unfold byte in Hb. lia.
Qed.

(* canonical little-endian digit list: bytes, most significant (last) digit non-zero *)
Lemma from_le_pos : forall l, Forall byte l -> l <> [] -> last l 1 <> 0 -> 0 < from_le l.
Proof.
  induction l as [|b l IH]; intros H Hne Hlast; [congruence|].
  inversion H as [|? ? Hb Hl]; subst. cbn [from_le]. unfold byte in Hb.
  destruct l as [|c l'].
  - cbn in Hlast. cbn [from_le]. lia.
  - assert (Hp : 0 < from_le (c :: l')).
    { apply IH; [assumption|discriminate|exact Hlast]. }
    lia.
Qed.

Lemma from_le_le_bytes : forall f n, 0 <= n < 2 ^ Z.of_nat f -> from_le (le_bytes f n) = n.
Proof.
  induction f as [|f IH]; intros n Hn.
  - cbn in Hn. cbn. lia.
  - cbn [le_bytes]. destruct (n <=? 0) eqn:E.
    + cbn. lia.
    + cbn [from_le]. rewrite IH.
      * pose proof (Z.div_mod n 256 ltac:(lia)). lia.
      * rewrite pow2_S in Hn. split; [apply Z.div_pos; lia|].
        apply Z.div_lt_upper_bound; lia.
Qed.

Lemma le_bytes_from_le : forall l f, Forall byte l -> last l 1 <> 0 ->
  from_le l < 2 ^ Z.of_nat f -> le_bytes f (from_le l) = l.
Proof.
  induction l as [|b l IH]; intros f H Hlast Hlt.
  - cbn. apply le_bytes_0.
  - inversion H as [|? ? Hb Hl]; subst.
    assert (Hpos : 0 < from_le (b :: l)) by (apply from_le_pos; [assumption|discriminate|assumption]).
    pose proof (from_le_nonneg l Hl) as Hnn.
    destruct f as [|f]; [change (2 ^ Z.of_nat 0) with 1 in Hlt; lia|].
    cbn [from_le] in *. cbn [le_bytes].
    destruct (b + 256 * from_le l <=? 0) eqn:E; [lia|].
    unfold byte in Hb.
    assert (Hm : (b + 256 * from_le l) mod 256 = b).
    { replace (b + 256 * from_le l) with (b + from_le l * 256) by lia.
      rewrite Z_mod_plus_full. apply Z.mod_small; lia. }
    assert (Hd : (b + 256 * from_le l) / 256 = from_le l).
    { replace (b + 256 * from_le l) with (b + from_le l * 256) by lia.
      rewrite Z.div_add by lia. rewrite (Z.div_small b 256) by lia. lia. }
    rewrite Hm, Hd. f_equal.
    destruct l as [|c l'].
    + cbn. apply le_bytes_0.
    + apply IH; [assumption|exact Hlast|]. rewrite pow2_S in Hlt. lia.
Qed.

Lemma le_bytes_bytes : forall f n, Forall byte (le_bytes f n).
Proof.
  induction f as [|f IH]; intros n; cbn [le_bytes]; [constructor|].
  destruct (n <=? 0); constructor; [|apply IH].
  unfold byte. apply Z.mod_pos_bound; lia.
Qed.

Lemma le_bytes_last : forall f n, 0 <= n < 2 ^ Z.of_nat f -> last (le_bytes f n) 1 <> 0.
Proof.
  induction f as [|f IH]; intros n Hn.
  - cbn. lia.
  - cbn [le_bytes]. destruct (n <=? 0) eqn:E; [cbn; lia|].
    rewrite pow2_S in Hn.
    assert (Hq : 0 <= n / 256 < 2 ^ Z.of_nat f).
    { split; [apply Z.div_pos; lia|apply Z.div_lt_upper_bound; lia]. }
    specialize (IH (n / 256) Hq).
    destruct (le_bytes f (n / 256)) as [|c l'] eqn:El.
    + cbn [last].
      assert (Hz : n / 256 = 0).
      { rewrite <- (from_le_le_bytes f (n / 256) Hq), El. reflexivity. }
      pose proof (Z.div_mod n 256 ltac:(lia)). lia.
    + exact IH.
Qed.

Lemma le_bytes_length : forall f n k, n < 256 ^ Z.of_nat k -> (length (le_bytes f n) <= k)%nat.
Proof.
  induction f as [|f IH]; intros n k Hn; cbn [le_bytes]; [cbn; lia|].
  destruct (n <=? 0) eqn:E; [cbn; lia|].
  destruct k as [|k]; [change (256 ^ Z.of_nat 0) with 1 in Hn; lia|].
  cbn [length]. apply le_n_S. apply IH.
  rewrite pow256_S in Hn. apply Z.div_lt_upper_bound; lia.
Qed.

(* ---- big-endian ---------------------------------------------------------------------- *)
Lemma fuel_ok : forall n, 0 <= n -> n < 2 ^ Z.of_nat (S (Z.to_nat (Z.log2 n))).
Proof.
  intros n Hn. rewrite Nat2Z.inj_succ, Z2Nat.id by apply Z.log2_nonneg.
  destruct (Z.eq_dec n 0) as [->|Hne]; [cbn; lia|].
  apply Z.log2_spec. lia.
Qed.

Lemma hd_rev_last : forall (l : list Z) d, hd d (rev l) = last l d.
Proof.
  intros l d. rewrite <- (rev_involutive l) at 2.
  destruct (rev l) as [|a r]; [reflexivity|].
  cbn [rev hd]. rewrite last_last. reflexivity.
Qed.

Lemma Forall_rev_byte : forall l, Forall byte l -> Forall byte (rev l).
Proof. intros l H. apply Forall_forall. intros x Hx. rewrite Forall_forall in H. apply H, in_rev, Hx. Qed.

Lemma from_be_to_be : forall n, 0 <= n -> from_be (to_be n) = n.
Proof.
  intros n Hn. unfold from_be, to_be. rewrite rev_involutive.
  apply from_le_le_bytes. split; [assumption|apply fuel_ok; assumption].
Qed.

Lemma to_be_bytes : forall n, Forall byte (to_be n).
Proof. intros; unfold to_be; apply Forall_rev_byte, le_bytes_bytes. Qed.

Lemma to_be_hd : forall n, 0 <= n -> hd 1 (to_be n) <> 0.
Proof.
  intros n Hn. unfold to_be. rewrite hd_rev_last. apply le_bytes_last.
  split; [assumption|apply fuel_ok; assumption].
Qed.

Lemma to_be_len : forall n k, n < 256 ^ Z.of_nat k -> len (to_be n) <= Z.of_nat k.
Proof.
  intros n k Hn. unfold to_be. rewrite len_rev. unfold len.
  apply Nat2Z.inj_le. apply le_bytes_length; assumption.
Qed.

Lemma to_be_nonempty : forall n, 0 < n -> to_be n <> [].
Proof.
  intros n Hn E. pose proof (from_be_to_be n ltac:(lia)) as H. rewrite E in H. cbn in H. lia.
Qed.

Lemma to_be_from_be : forall bs, Forall byte bs -> hd 1 bs <> 0 -> to_be (from_be bs) = bs.
Proof.
  intros bs Hb Hh. unfold to_be, from_be.
  assert (Hr : Forall byte (rev bs)) by (apply Forall_rev_byte; assumption).
  rewrite le_bytes_from_le.
  - apply rev_involutive.
  - assumption.
  - rewrite <- hd_rev_last, rev_involutive. assumption.
  - apply fuel_ok. apply from_le_nonneg; assumption.
Qed.

Lemma from_be_nonneg : forall bs, Forall byte bs -> 0 <= from_be bs.
Proof. intros; unfold from_be; apply from_le_nonneg, Forall_rev_byte; assumption. Qed.

Lemma from_be_bound : forall bs, Forall byte bs -> from_be bs < 256 ^ len bs.
Proof.
  intros bs H. unfold from_be. rewrite <- len_rev. apply from_le_bound, Forall_rev_byte; assumption.
Qed.

Lemma to_be_0 : to_be 0 = [].
Proof. reflexivity. Qed.

(* ---- take ---------------------------------------------------------------------------- *)
Lemma take_app : forall a b, take (len a) (a ++ b) = Some (a, b).
Proof.
  intros a b. unfold take.
  assert (H1 : (len a <? 0) = false) by (pose proof (len_nonneg a); lia).
  assert (H2 : (len (a ++ b) <? len a) = false) by (rewrite len_app; pose proof (len_nonneg b); lia).
  rewrite H1, H2. cbn [orb]. unfold len. rewrite Nat2Z.id.
  rewrite firstn_app, Nat.sub_diag, firstn_all, firstn_O, app_nil_r.
  rewrite skipn_app, Nat.sub_diag, skipn_all, skipn_O. reflexivity.
Qed.

Lemma take_inv : forall n l p r, take n l = Some (p, r) -> l = p ++ r /\ len p = n.
Proof.
  intros n l p r H. unfold take in H.
  destruct ((n <? 0) || (len l <? n)) eqn:E; [discriminate|].
  inversion H; subst. split; [symmetry; apply firstn_skipn|].
  unfold len in *. rewrite firstn_length_le by lia. lia.
Qed.

(* ---- headers -------------------------------------------------------------------------- *)
(* the encoding of a value given its kind and payload *)
Definition enc_val (isl : bool) (p : list Z) : list Z :=
  if isl then enc_len 192 (len p) ++ p else enc_str p.

Lemma enc_len_short : forall off n, n < 56 -> enc_len off n = [off + n].
Proof. intros off n H. unfold enc_len. destruct (n <? 56) eqn:E; [reflexivity|lia]. Qed.

Lemma enc_len_long : forall off n, 56 <= n -> enc_len off n = (off + 55 + len (to_be n)) :: to_be n.
Proof. intros off n H. unfold enc_len. destruct (n <? 56) eqn:E; [lia|reflexivity]. Qed.

Lemma pow64 : 256 ^ Z.of_nat 8 = 2 ^ 64.
Proof. reflexivity. Qed.

Lemma to_be_len8 : forall n, 56 <= n < 2 ^ 64 -> 1 <= len (to_be n) <= 8.
Proof.
  intros n H. split.
  - pose proof (to_be_nonempty n ltac:(lia)) as Hne.
    destruct (to_be n) as [|b0 l]; [congruence|]. rewrite len_cons. pose proof (len_nonneg l). lia.
  - apply (to_be_len n 8%nat). rewrite pow64. lia.
Qed.

Lemma single_or_not : forall p : list Z, (exists x, p = [x]) \/ (forall x, p <> [x]).
Proof.
  destruct p as [|x [|y p']].
  - right; intros; discriminate.
  - left; eauto.
  - right; intros; discriminate.
Qed.

Lemma enc_str_ns : forall p, (forall x, p <> [x]) -> enc_str p = enc_len 128 (len p) ++ p.
Proof.
  intros p H. destruct p as [|x [|y p']]; try reflexivity. exfalso; apply (H x); reflexivity.
Qed.

Lemma match_ns : forall {A} (p : list Z) (f : Z -> A) (d : A), (forall x, p <> [x]) ->
  match p with [x] => f x | _ => d end = d.
Proof.
  intros A p f d H. destruct p as [|x [|y p']]; try reflexivity. exfalso; apply (H x); reflexivity.
Qed.

Lemma parse_long_enc : forall n p r, 56 <= n < 2 ^ 64 -> len p = n ->
  parse_long (len (to_be n)) (to_be n ++ p ++ r) = Some (p, r).
Proof.
  intros n p r Hn Hp. unfold parse_long. rewrite take_app.
  pose proof (to_be_nonempty n ltac:(lia)) as Hne.
  pose proof (to_be_hd n ltac:(lia)) as Hhd.
  pose proof (from_be_to_be n ltac:(lia)) as Hfb.
  destruct (to_be n) as [|b0 lb'] eqn:E; [congruence|].
  cbn [hd] in Hhd.
  destruct (b0 =? 0) eqn:E0; [lia|].
  cbv zeta. rewrite Hfb. destruct (n <? 56) eqn:E56; [lia|].
  rewrite <- Hp. apply take_app.
Qed.

Lemma parse_header_enc : forall isl p r, len p < 2 ^ 64 ->
  parse_header (enc_val isl p ++ r) = Some (isl, p, r).
Proof.
  intros isl p r Hlen. pose proof (len_nonneg p) as Hnn.
  destruct isl; unfold enc_val.
  - (* list *)
    destruct (Z_lt_ge_dec (len p) 56) as [Hs|Hl].
    + rewrite enc_len_short by assumption. cbn [app]. unfold parse_header.
      destruct (192 + len p <? 128) eqn:E1; [lia|].
      destruct (192 + len p <? 184) eqn:E2; [lia|].
      destruct (192 + len p <? 192) eqn:E3; [lia|].
      destruct (192 + len p <? 248) eqn:E4; [|lia].
      replace (192 + len p - 192) with (len p) by lia. rewrite take_app. reflexivity.
    + rewrite enc_len_long by lia. pose proof (to_be_len8 (len p) ltac:(lia)) as H8.
      cbn [app]. rewrite <- app_assoc. unfold parse_header.
      remember (192 + 55 + len (to_be (len p))) as h eqn:Hh.
      destruct (h <? 128) eqn:E1; [lia|].
      destruct (h <? 184) eqn:E2; [lia|].
      destruct (h <? 192) eqn:E3; [lia|].
      destruct (h <? 248) eqn:E4; [lia|].
      destruct (h <? 256) eqn:E5; [|lia].
      replace (h - 247) with (len (to_be (len p))) by lia.
      rewrite parse_long_enc by (try reflexivity; lia). reflexivity.
  - (* string *)
    destruct (single_or_not p) as [[x ->]|Hns].
    + cbn [enc_str]. destruct (x <? 128) eqn:Ex.
      * cbn [app]. unfold parse_header. rewrite Ex. reflexivity.
      * change (enc_len 128 1) with [129]. cbn [app]. unfold parse_header.
        change (129 <? 128) with false. change (129 <? 184) with true. cbv iota.
        change (129 - 128) with (len [x]). change (x :: r) with ([x] ++ r).
        rewrite take_app. rewrite Ex. reflexivity.
    + rewrite enc_str_ns by assumption.
      destruct (Z_lt_ge_dec (len p) 56) as [Hs|Hl].
      * rewrite enc_len_short by assumption. cbn [app]. unfold parse_header.
        destruct (128 + len p <? 128) eqn:E1; [lia|].
        destruct (128 + len p <? 184) eqn:E2; [|lia].
        replace (128 + len p - 128) with (len p) by lia. rewrite take_app.
        apply match_ns. assumption.
      * rewrite enc_len_long by lia. pose proof (to_be_len8 (len p) ltac:(lia)) as H8.
        cbn [app]. rewrite <- app_assoc. unfold parse_header.
        remember (128 + 55 + len (to_be (len p))) as h eqn:Hh.
        destruct (h <? 128) eqn:E1; [lia|].
        destruct (h <? 184) eqn:E2; [lia|].
        destruct (h <? 192) eqn:E3; [|lia].
        replace (h - 183) with (len (to_be (len p))) by lia.
        rewrite parse_long_enc by (try reflexivity; lia). reflexivity.
Qed.

Lemma parse_long_inv : forall ll t p r, Forall byte t -> 1 <= ll <= 8 ->
  parse_long ll t = Some (p, r) ->
  t = to_be (len p) ++ p ++ r /\ 56 <= len p < 2 ^ 64 /\ len (to_be (len p)) = ll.
Proof.
  intros ll t p r Ht Hll H. unfold parse_long in H.
  destruct (take ll t) as [[lb t']|] eqn:Et; [|discriminate].
  apply take_inv in Et as [Ht' Hlb]. subst t.
  apply Forall_app in Ht as [Hblb Hbt'].
  destruct lb as [|b0 lb']; [discriminate|].
  destruct (b0 =? 0) eqn:E0; [discriminate|].
  cbv zeta in H.
  destruct (from_be (b0 :: lb') <? 56) eqn:E56; [discriminate|].
  apply take_inv in H as [Hpr Hp]. subst t'.
  assert (Hcan : to_be (from_be (b0 :: lb')) = b0 :: lb').
  { apply to_be_from_be; [assumption|cbn [hd]; lia]. }
  pose proof (from_be_bound (b0 :: lb') Hblb) as Hbd.
  assert (Hpow : 256 ^ len (b0 :: lb') <= 256 ^ 8) by (apply Z.pow_le_mono_r; lia).
  change (256 ^ 8) with (2 ^ 64) in Hpow.
  rewrite Hp, Hcan. split; [reflexivity|]. split; [lia|assumption].
Qed.

Lemma parse_header_inv : forall b isl p r, Forall byte b ->
  parse_header b = Some (isl, p, r) ->
  b = enc_val isl p ++ r /\ len p < 2 ^ 64 /\ Forall byte p /\ Forall byte r.
Proof.
  intros b isl p r Hb H. destruct b as [|h t]; [discriminate|].
  inversion Hb as [|? ? Hh Ht]; subst. unfold byte in Hh. unfold parse_header in H.
  destruct (h <? 128) eqn:E1.
  { inversion H; subst. unfold enc_val. cbn [enc_str]. rewrite E1.
    split; [reflexivity|]. split; [cbn; lia|]. split; [constructor; [unfold byte; lia|constructor]|assumption]. }
  destruct (h <? 184) eqn:E2.
  { destruct (take (h - 128) t) as [[p0 r0]|] eqn:Et; [|discriminate].
    apply take_inv in Et as [Ht' Hp0]. subst t. apply Forall_app in Ht as [Hbp Hbr].
    destruct (single_or_not p0) as [[x ->]|Hns].
    - destruct (x <? 128) eqn:Ex; [discriminate|]. inversion H; subst.
      unfold enc_val. cbn [enc_str]. rewrite Ex. change (enc_len 128 1) with [129].
      change (len [x]) with 1 in Hp0.
      split; [cbn [app]; f_equal; lia|]. split; [cbn; lia|]. split; assumption.
    - rewrite match_ns in H by assumption. inversion H; subst.
      unfold enc_val. rewrite enc_str_ns by assumption. rewrite enc_len_short by lia.
      split; [cbn [app]; f_equal; lia|]. split; [lia|]. split; assumption. }
  destruct (h <? 192) eqn:E3.
  { destruct (parse_long (h - 183) t) as [[p0 r0]|] eqn:El; [|discriminate].
    cbn [tag3] in H. inversion H; subst.
    apply parse_long_inv in El as (Ht' & Hlen & Hll); [|assumption|lia].
    assert (Hns : forall x, p <> [x]) by (intros x ->; cbn in Hlen; lia).
    unfold enc_val. rewrite enc_str_ns by assumption. rewrite enc_len_long by lia.
    rewrite Ht' in Ht. apply Forall_app in Ht as [_ Ht]. apply Forall_app in Ht as [Hbp Hbr].
    split; [cbn [app]; rewrite <- app_assoc, <- Ht'; f_equal; lia|]. split; [lia|]. split; assumption. }
  destruct (h <? 248) eqn:E4.
  { destruct (take (h - 192) t) as [[p0 r0]|] eqn:Et; [|discriminate].
    cbn [tag3] in H. inversion H; subst.
    apply take_inv in Et as [Ht' Hp0]. subst t. apply Forall_app in Ht as [Hbp Hbr].
    unfold enc_val. rewrite enc_len_short by lia.
    split; [cbn [app]; f_equal; lia|]. split; [lia|]. split; assumption. }
  destruct (h <? 256) eqn:E5; [|discriminate].
  destruct (parse_long (h - 247) t) as [[p0 r0]|] eqn:El; [|discriminate].
  cbn [tag3] in H. inversion H; subst.
  apply parse_long_inv in El as (Ht' & Hlen & Hll); [|assumption|lia].
  unfold enc_val. rewrite enc_len_long by lia.
  rewrite Ht' in Ht. apply Forall_app in Ht as [_ Ht]. apply Forall_app in Ht as [Hbp Hbr].
  split; [cbn [app]; rewrite <- app_assoc, <- Ht'; f_equal; lia|]. split; [lia|]. split; assumption.
Qed.

(* ---- items ------------------------------------------------------------------------------ *)
Fixpoint item_ind' (P : item -> Prop) (HS : forall bs, P (Str bs))
  (HL : forall l, Forall P l -> P (Lst l)) (i : item) : P i :=
  match i with
  | Str bs => HS bs
  | Lst l => HL l ((fix go (l : list item) : Forall P l :=
                      match l with
                      | [] => Forall_nil P
                      | x :: r => Forall_cons x (item_ind' P HS HL x) (go r)
                      end) l)
  end.

(* well-formed items: bytes are bytes, and every payload is shorter than 2^64 bytes (the Go
   encoder's sizes are uint64; the length-of-length field has at most 8 bytes) *)
Inductive wf_item : item -> Prop :=
| wf_Str : forall bs, Forall byte bs -> len bs < 2 ^ 64 -> wf_item (Str bs)
| wf_Lst : forall l, Forall wf_item l -> len (enc_list l) < 2 ^ 64 -> wf_item (Lst l).

Lemma encode_val_str : forall bs, encode (Str bs) = enc_val false bs.
Proof. reflexivity. Qed.
Lemma encode_val_lst : forall l, encode (Lst l) = enc_val true (enc_list l).
Proof. reflexivity. Qed.
Lemma enc_list_cons : forall x l, enc_list (x :: l) = encode x ++ enc_list l.
Proof. reflexivity. Qed.

Lemma enc_len_length : forall off n, (1 <= length (enc_len off n))%nat.
Proof. intros off n. unfold enc_len. destruct (n <? 56); cbn [length]; lia. Qed.

Lemma enc_val_length : forall isl p, (1 <= length (enc_val isl p))%nat /\
  (isl = true -> length p < length (enc_val isl p))%nat.
Proof.
  intros isl p. destruct isl; unfold enc_val.
  - rewrite app_length. pose proof (enc_len_length 192 (len p)). lia.
  - split; [|discriminate].
    destruct p as [|x [|y p']]; cbn [enc_str].
    + rewrite app_length. pose proof (enc_len_length 128 (len (@nil Z))). lia.
    + destruct (x <? 128); [cbn; lia|]. rewrite app_length. pose proof (enc_len_length 128 1). lia.
    + rewrite app_length. pose proof (enc_len_length 128 (len (x :: y :: p'))). lia.
Qed.

Lemma dec_items_nil : forall f, dec_items f [] = Some [].
Proof. destruct f; reflexivity. Qed.

Lemma dec_items_step : forall f b isl p r, parse_header b = Some (isl, p, r) ->
  dec_items (S f) b =
  match dec_items f r with
  | None => None
  | Some rest =>
    if isl then match dec_items f p with None => None | Some xs => Some (Lst xs :: rest) end
    else Some (Str p :: rest)
  end.
Proof. intros f b isl p r H. destruct b as [|h t]; [discriminate|]. cbn [dec_items]. rewrite H. reflexivity. Qed.

(* decoding the encoding of i followed by a tail that decodes to [is] *)
Definition dec_ok (i : item) : Prop :=
  wf_item i -> forall f tail is, (length (encode i ++ tail) <= f)%nat ->
  (forall f', (length tail <= f')%nat -> dec_items f' tail = Some is) ->
  dec_items f (encode i ++ tail) = Some (i :: is).

Lemma dec_items_list : forall l, Forall dec_ok l -> Forall wf_item l ->
  forall f, (length (enc_list l) <= f)%nat -> dec_items f (enc_list l) = Some l.
Proof.
  induction l as [|x l IH]; intros HP Hwf f Hf.
  - apply dec_items_nil.
  - inversion HP as [|? ? Hx HPl]; subst. inversion Hwf as [|? ? Hwx Hwl]; subst.
    rewrite enc_list_cons in *. apply Hx; [assumption|assumption|].
    intros f' Hf'. apply IH; assumption.
Qed.

Lemma dec_ok_all : forall i, dec_ok i.
Proof.
  induction i as [bs|l IH] using item_ind'; unfold dec_ok; intros Hwf f tail is Hf Htail.
  - inversion Hwf as [? Hb Hl|]; subst. rewrite encode_val_str in *.
    rewrite app_length in Hf. pose proof (enc_val_length false bs) as [H1 _].
    destruct f as [|f]; [lia|].
    rewrite (dec_items_step f _ false bs tail) by (apply parse_header_enc; assumption).
    rewrite Htail by lia. reflexivity.
  - inversion Hwf as [|? Hall Hl]; subst. rewrite encode_val_lst in *.
    rewrite app_length in Hf. pose proof (enc_val_length true (enc_list l)) as [H1 H2].
    specialize (H2 eq_refl).
    destruct f as [|f]; [lia|].
    rewrite (dec_items_step f _ true (enc_list l) tail) by (apply parse_header_enc; assumption).
    rewrite Htail by lia.
    rewrite (dec_items_list l IH Hall) by lia. reflexivity.
Qed.

Lemma enc_len_bytes : forall off n, off = 128 \/ off = 192 -> 0 <= n < 2 ^ 64 -> Forall byte (enc_len off n).
Proof.
  intros off n Hoff Hn. destruct (Z_lt_ge_dec n 56) as [Hs|Hl].
  - rewrite enc_len_short by assumption. constructor; [unfold byte; lia|constructor].
  - rewrite enc_len_long by lia. pose proof (to_be_len8 n ltac:(lia)).
    constructor; [unfold byte; lia|apply to_be_bytes].
Qed.

Lemma enc_val_bytes : forall isl p, Forall byte p -> len p < 2 ^ 64 -> Forall byte (enc_val isl p).
Proof.
  intros isl p Hp Hl. pose proof (len_nonneg p).
  destruct isl; unfold enc_val.
  - apply Forall_app; split; [apply enc_len_bytes; lia|assumption].
  - destruct (single_or_not p) as [[x ->]|Hns].
    + cbn [enc_str]. destruct (x <? 128); [assumption|].
      apply Forall_app; split; [apply enc_len_bytes; lia|assumption].
    + rewrite enc_str_ns by assumption.
      apply Forall_app; split; [apply enc_len_bytes; lia|assumption].
Qed.

Lemma encode_bytes : forall i, wf_item i -> Forall byte (encode i).
Proof.
  induction i as [bs|l IH] using item_ind'; intros Hwf.
  - inversion Hwf; subst. rewrite encode_val_str. apply enc_val_bytes; assumption.
  - inversion Hwf as [|? Hall Hl]; subst. rewrite encode_val_lst. apply enc_val_bytes; [|assumption].
    clear Hl Hwf. induction l as [|x l IHl]; [constructor|].
    inversion IH; subst. inversion Hall; subst. rewrite enc_list_cons.
    apply Forall_app; split; auto.
Qed.

(* ---- the two round trips ------------------------------------------------------------------ *)
Theorem decode_encode : forall i, wf_item i -> decode (encode i) = Some i.
Proof.
  intros i Hwf. unfold decode.
  assert (Hb : forallb is_byte (encode i) = true) by (apply forallb_bytes, encode_bytes; assumption).
  rewrite Hb.
  pose proof (dec_ok_all i Hwf (length (encode i)) [] []) as H.
  rewrite app_nil_r in H. rewrite H; [reflexivity|lia|]. intros; apply dec_items_nil.
Qed.

Lemma dec_items_inv : forall f b is, Forall byte b -> dec_items f b = Some is ->
  enc_list is = b /\ Forall wf_item is.
Proof.
  induction f as [|f IH]; intros b is Hb H.
  - destruct b; cbn in H; [|discriminate]. inversion H; subst. split; [reflexivity|constructor].
  - destruct b as [|h t].
    { cbn in H. inversion H; subst. split; [reflexivity|constructor]. }
    cbn [dec_items] in H.
    destruct (parse_header (h :: t)) as [[[isl p] r]|] eqn:Eph; [|discriminate].
    apply parse_header_inv in Eph as (Hbeq & Hplen & Hpb & Hrb); [|assumption].
    destruct (dec_items f r) as [rest|] eqn:Er; [|discriminate].
    apply IH in Er as [Hr1 Hr2]; [|assumption].
    destruct isl.
    + destruct (dec_items f p) as [xs|] eqn:Ep; [|discriminate].
      apply IH in Ep as [Hp1 Hp2]; [|assumption].
      inversion H; subst is. split.
      * rewrite enc_list_cons, encode_val_lst, Hp1, Hr1. symmetry; assumption.
      * constructor; [|assumption]. constructor; [assumption|]. rewrite Hp1; assumption.
    + inversion H; subst is. split.
      * rewrite enc_list_cons, encode_val_str, Hr1. symmetry; assumption.
      * constructor; [|assumption]. constructor; assumption.
Qed.

Lemma decode_inv : forall b i, decode b = Some i -> encode i = b /\ wf_item i /\ Forall byte b.
Proof.
  intros b i H. unfold decode in H.
  destruct (forallb is_byte b) eqn:Eb; [|discriminate].
  apply forallb_bytes in Eb.
  destruct (dec_items (length b) b) as [[|i' [|j l]]|] eqn:Ed; try discriminate.
  inversion H; subst i'.
  apply dec_items_inv in Ed as [He Hw]; [|assumption].
  rewrite enc_list_cons in He. cbn [enc_list flat_map] in He. rewrite app_nil_r in He.
  inversion Hw; subst. auto.
Qed.

Theorem encode_decode : forall b i, decode b = Some i -> encode i = b.
Proof. intros b i H. apply decode_inv in H. tauto. Qed.

Theorem decode_wf : forall b i, decode b = Some i -> wf_item i.
Proof. intros b i H. apply decode_inv in H. tauto. Qed.

(* no second encoding: two accepted byte strings with the same value are the same string *)
Corollary decode_injective : forall b1 b2 i, decode b1 = Some i -> decode b2 = Some i -> b1 = b2.
Proof. intros b1 b2 i H1 H2. apply encode_decode in H1, H2. congruence. Qed.

Corollary encode_injective : forall i1 i2, wf_item i1 -> wf_item i2 -> encode i1 = encode i2 -> i1 = i2.
Proof.
  intros i1 i2 H1 H2 He. apply decode_encode in H1, H2. rewrite He in H1. congruence.
Qed.

(* accepted strings are exactly the encodings of well-formed items *)
Corollary decode_accepts_iff : forall b, (exists i, decode b = Some i) <-> (exists i, wf_item i /\ encode i = b).
Proof.
  intros b; split; intros [i H].
  - exists i. apply decode_inv in H. tauto.
  - destruct H as [Hw He]. exists i. rewrite <- He. apply decode_encode; assumption.
Qed.

(* ---- typed layer: integers ---------------------------------------------------------------- *)
(* value range of an integer field of at most w bytes (w < 0: big.Int, unbounded) *)
Definition uint_ok (w z : Z) : Prop := 0 <= z /\ (0 <= w -> z < 256 ^ w).

Lemma wf_enc_uint : forall z, 0 <= z -> wf_item (enc_uint z) \/ 2 ^ 64 <= len (to_be z).
Proof.
  intros z Hz. destruct (Z_lt_ge_dec (len (to_be z)) (2 ^ 64)) as [H|H]; [left|right; lia].
  constructor; [apply to_be_bytes|assumption].
Qed.

Theorem dec_enc_uint : forall w z, uint_ok w z -> dec_uint w (enc_uint z) = Some z.
Proof.
  intros w z [Hz Hw]. unfold dec_uint, enc_uint.
  assert (Hchk : (0 <=? w) && (w <? len (to_be z)) = false).
  { destruct (0 <=? w) eqn:E0; [|reflexivity]. cbn [andb].
    assert (H : len (to_be z) <= Z.of_nat (Z.to_nat w)).
    { apply to_be_len. rewrite Z2Nat.id by lia. apply Hw; lia. }
    rewrite Z2Nat.id in H by lia. lia. }
  rewrite Hchk.
  pose proof (from_be_to_be z Hz) as Hfb. pose proof (to_be_hd z Hz) as Hhd.
  destruct (to_be z) as [|b0 l] eqn:E.
  - cbn in Hfb. congruence.
  - cbn [hd] in Hhd. destruct (b0 =? 0) eqn:E0; [lia|]. rewrite Hfb. reflexivity.
Qed.

Theorem enc_dec_uint : forall w i z, wf_item i -> dec_uint w i = Some z ->
  enc_uint z = i /\ uint_ok w z.
Proof.
  intros w i z Hwf H. destruct i as [bs|l]; [|discriminate]. cbn [dec_uint] in H.
  inversion Hwf as [? Hb Hl|]; subst.
  destruct ((0 <=? w) && (w <? len bs)) eqn:Echk; [discriminate|].
  destruct bs as [|b0 bs'].
  - inversion H; subst. split; [reflexivity|]. split; [lia|]. intros Hw. apply Z.pow_pos_nonneg; lia.
  - destruct (b0 =? 0) eqn:E0; [discriminate|]. inversion H; subst z.
    unfold enc_uint. rewrite to_be_from_be by (try assumption; cbn [hd]; lia).
    split; [reflexivity|]. split; [apply from_be_nonneg; assumption|].
    intros Hw. pose proof (from_be_bound _ Hb) as Hbd.
    assert (Hp : 256 ^ len (b0 :: bs') <= 256 ^ w) by (apply Z.pow_le_mono_r; lia).
    lia.
Qed.

(* the widths with the literals of the Go types *)
Corollary dec_uint64_range : forall i z, wf_item i -> dec_uint 8 i = Some z -> 0 <= z < 2 ^ 64.
Proof. intros i z Hwf H. apply enc_dec_uint in H as [_ [H0 H1]]; [|assumption]. specialize (H1 ltac:(lia)). change (256 ^ 8) with (2 ^ 64) in H1. lia. Qed.
Corollary dec_uint32_range : forall i z, wf_item i -> dec_uint 4 i = Some z -> 0 <= z < 2 ^ 32.
Proof. intros i z Hwf H. apply enc_dec_uint in H as [_ [H0 H1]]; [|assumption]. specialize (H1 ltac:(lia)). change (256 ^ 4) with (2 ^ 32) in H1. lia. Qed.
Corollary dec_uint8_range : forall i z, wf_item i -> dec_uint 1 i = Some z -> 0 <= z < 2 ^ 8.
Proof. intros i z Hwf H. apply enc_dec_uint in H as [_ [H0 H1]]; [|assumption]. specialize (H1 ltac:(lia)). change (256 ^ 1) with (2 ^ 8) in H1. lia. Qed.

(* ---- typed layer: fields and structs --------------------------------------------------------- *)
Definition ty_ok (ty : fty) : Prop := match ty with TUint w => 0 <= w | _ => True end.

Definition has_type (ty : fty) (v : fval) : Prop :=
  match ty, v with
  | TUint w, VInt z => 0 <= z < 256 ^ w
  | TBig, VInt z => 0 <= z
  | TBytes, VBytes _ => True
  | _, _ => False
  end.

Lemma dec_enc_field : forall ty v, ty_ok ty -> has_type ty v -> dec_field ty (enc_field v) = Some v.
Proof.
  intros ty v Hok Ht. destruct ty as [w| |]; destruct v as [z|bs]; cbn [has_type] in Ht; try contradiction.
  - cbn [dec_field enc_field]. rewrite dec_enc_uint; [reflexivity|]. split; [lia|]. intros; lia.
  - cbn [dec_field enc_field]. rewrite dec_enc_uint; [reflexivity|]. split; [lia|]. intros; lia.
  - reflexivity.
Qed.

Lemma enc_dec_field : forall ty i v, ty_ok ty -> wf_item i -> dec_field ty i = Some v ->
  enc_field v = i /\ has_type ty v.
Proof.
  intros ty i v Hok Hwf H. destruct ty as [w| |]; cbn [dec_field] in H.
  - destruct (dec_uint w i) as [z|] eqn:E; [|discriminate]. inversion H; subst v.
    apply enc_dec_uint in E as [He [H0 H1]]; [|assumption]. cbn [ty_ok] in Hok.
    split; [assumption|]. cbn [has_type]. specialize (H1 Hok). lia.
  - destruct (dec_uint (-1) i) as [z|] eqn:E; [|discriminate]. inversion H; subst v.
    apply enc_dec_uint in E as [He [H0 H1]]; [|assumption].
    split; [assumption|exact H0].
  - destruct i as [bs|l]; [|discriminate]. inversion H; subst v. split; [reflexivity|exact I].
Qed.

Lemma dec_enc_fields : forall tys vs, Forall ty_ok tys -> Forall2 has_type tys vs ->
  dec_fields tys (map enc_field vs) = Some vs.
Proof.
  induction tys as [|ty tys IH]; intros vs Hok H2; inversion H2; subst; [reflexivity|].
  inversion Hok; subst. cbn [map dec_fields].
  rewrite dec_enc_field by assumption. rewrite IH by assumption. reflexivity.
Qed.

Lemma enc_dec_fields : forall tys l vs, Forall ty_ok tys -> Forall wf_item l ->
  dec_fields tys l = Some vs -> map enc_field vs = l /\ Forall2 has_type tys vs.
Proof.
  induction tys as [|ty tys IH]; intros l vs Hok Hwf H.
  - destruct l; [|discriminate]. inversion H; subst. split; [reflexivity|constructor].
  - destruct l as [|i l]; [discriminate|]. cbn [dec_fields] in H.
    inversion Hok; subst. inversion Hwf; subst.
    destruct (dec_field ty i) as [v|] eqn:Ef; [|discriminate].
    destruct (dec_fields tys l) as [vs'|] eqn:Efs; [|discriminate].
    inversion H; subst vs.
    apply enc_dec_field in Ef as [He Ht]; [|assumption|assumption].
    apply IH in Efs as [Hes Hts]; [|assumption|assumption].
    split; [cbn [map]; congruence|constructor; assumption].
Qed.

(* well-formed field values of a struct: each in the range of its Go type, bytes are bytes,
   and the whole encoding stays below the 2^64 size limit *)
Definition wf_vals (tys : list fty) (vs : list fval) : Prop :=
  Forall2 has_type tys vs /\ wf_item (Lst (map enc_field vs)).

Section Struct.
  Context {T : Type}.
  Variable tys : list fty.
  Variable to_vals : T -> list fval.
  Variable of_vals : list fval -> option T.
  Hypothesis tys_ok : Forall ty_ok tys.
  Hypothesis of_to : forall t, of_vals (to_vals t) = Some t.
  Hypothesis to_of : forall vs t, of_vals vs = Some t -> vs = to_vals t.

  Definition enc_s (t : T) : item := Lst (map enc_field (to_vals t)).
  Definition dec_s (b : list Z) : option T :=
    match decode b with
    | Some i => match dec_struct tys i with Some vs => of_vals vs | None => None end
    | None => None
    end.

  Lemma struct_dec_enc : forall t, wf_vals tys (to_vals t) -> dec_s (encode (enc_s t)) = Some t.
  Proof.
    intros t [Hty Hwf]. unfold dec_s, enc_s. rewrite decode_encode by assumption.
    cbn [dec_struct]. rewrite dec_enc_fields by assumption. apply of_to.
  Qed.

  Lemma struct_enc_dec : forall b t, dec_s b = Some t ->
    encode (enc_s t) = b /\ wf_vals tys (to_vals t).
  Proof.
    intros b t H. unfold dec_s in H.
    destruct (decode b) as [i|] eqn:Ed; [|discriminate].
    apply decode_inv in Ed as (He & Hwf & _).
    destruct (dec_struct tys i) as [vs|] eqn:Es; [|discriminate].
    destruct i as [bs|l]; [discriminate|]. cbn [dec_struct] in Es.
    inversion Hwf as [|? Hall Hlen]; subst.
    apply enc_dec_fields in Es as [Hm Ht]; [|assumption|assumption].
    apply to_of in H. subst vs. unfold enc_s, wf_vals. rewrite Hm. auto.
  Qed.
End Struct.

(* ---- Transaction, Signature, Check ------------------------------------------------------------ *)
Ltac tys_ok_tac := repeat (apply Forall_cons; [cbn [ty_ok]; try exact I; lia|]); apply Forall_nil.
Ltac dvs vs H := destruct vs as [|[?z|?bs] vs]; simpl in H; try discriminate.
Ltac inv_forall2 :=
  repeat match goal with
         | H : Forall2 _ (_ :: _) (_ :: _) |- _ => inversion H; clear H; subst
         | H : Forall2 _ [] [] |- _ => clear H
         end.

Lemma tx_tys_ok : Forall ty_ok tx_tys.
Proof. unfold tx_tys. tys_ok_tac. Qed.
Lemma tx_of_to : forall t, tx_of_vals (tx_vals t) = Some t.
Proof. destruct t; reflexivity. Qed.
Lemma tx_to_of : forall vs t, tx_of_vals vs = Some t -> vs = tx_vals t.
Proof.
  intros vs t H. unfold tx_of_vals in H.
  dvs vs H. dvs vs H. dvs vs H. dvs vs H. dvs vs H. dvs vs H. dvs vs H. dvs vs H. dvs vs H. dvs vs H.
  destruct vs; [|discriminate]. inversion H; subst. reflexivity.
Qed.

Lemma sig_tys_ok : Forall ty_ok sig_tys.
Proof. unfold sig_tys. tys_ok_tac. Qed.
Lemma sig_of_to : forall s, sig_of_vals (sig_vals s) = Some s.
Proof. destruct s; reflexivity. Qed.
Lemma sig_to_of : forall vs s, sig_of_vals vs = Some s -> vs = sig_vals s.
Proof.
  intros vs s H. unfold sig_of_vals in H.
  dvs vs H. dvs vs H. dvs vs H.
  destruct vs; [|discriminate]. inversion H; subst. reflexivity.
Qed.

Lemma chk_tys_ok : Forall ty_ok chk_tys.
Proof. unfold chk_tys. tys_ok_tac. Qed.
Lemma chk_of_to : forall k, chk_of_vals (chk_vals k) = Some k.
Proof. destruct k; reflexivity. Qed.
Lemma chk_to_of : forall vs k, chk_of_vals vs = Some k -> vs = chk_vals k.
Proof.
  intros vs k H. unfold chk_of_vals in H.
  dvs vs H. dvs vs H. dvs vs H. dvs vs H. dvs vs H. dvs vs H. dvs vs H. dvs vs H. dvs vs H. dvs vs H.
  destruct vs; [|discriminate]. inversion H; subst. reflexivity.
Qed.

(* well-formed structs: every integer in the range of its Go type, and the item well-formed *)
Definition wf_tx (t : tx) : Prop :=
  0 <= t_nonce t < 2 ^ 64 /\ 0 <= t_chain t < 2 ^ 8 /\ 0 <= t_gasprice t < 2 ^ 32 /\
  0 <= t_gascoin t < 2 ^ 32 /\ 0 <= t_type t < 2 ^ 8 /\ 0 <= t_sigtype t < 2 ^ 8 /\
  wf_item (enc_tx t).
Definition wf_sig (s : sig) : Prop :=
  0 <= s_v s /\ 0 <= s_r s /\ 0 <= s_s s /\ wf_item (enc_sig s).
Definition wf_chk (k : chk) : Prop :=
  0 <= k_chain k < 2 ^ 8 /\ 0 <= k_due k < 2 ^ 64 /\ 0 <= k_coin k < 2 ^ 32 /\ 0 <= k_value k /\
  0 <= k_gascoin k < 2 ^ 32 /\ 0 <= k_lock k /\ 0 <= k_v k /\ 0 <= k_r k /\ 0 <= k_s k /\
  wf_item (enc_chk k).

Lemma wf_tx_vals : forall t, wf_tx t <-> wf_vals tx_tys (tx_vals t).
Proof.
  intros t. unfold wf_tx, wf_vals, tx_tys, tx_vals. fold (enc_tx t). split.
  - intros (H1 & H2 & H3 & H4 & H5 & H6 & Hw). split; [|assumption].
    repeat (apply Forall2_cons; [cbn [has_type]; try exact I; lia|]). apply Forall2_nil.
  - intros [H2 Hw]. inv_forall2. cbn [has_type] in *. repeat split; try assumption; lia.
Qed.
Lemma wf_sig_vals : forall s, wf_sig s <-> wf_vals sig_tys (sig_vals s).
Proof.
  intros s. unfold wf_sig, wf_vals, sig_tys, sig_vals. fold (enc_sig s). split.
  - intros (H1 & H2 & H3 & Hw). split; [|assumption].
    repeat (apply Forall2_cons; [cbn [has_type]; try exact I; lia|]). apply Forall2_nil.
  - intros [H2 Hw]. inv_forall2. cbn [has_type] in *. repeat split; try assumption; lia.
Qed.
Lemma wf_chk_vals : forall k, wf_chk k <-> wf_vals chk_tys (chk_vals k).
Proof.
  intros k. unfold wf_chk, wf_vals, chk_tys, chk_vals. fold (enc_chk k). split.
  - intros (H1 & H2 & H3 & H4 & H5 & H6 & H7 & H8 & H9 & Hw). split; [|assumption].
    repeat (apply Forall2_cons; [cbn [has_type]; try exact I; lia|]). apply Forall2_nil.
  - intros [H2 Hw]. inv_forall2. cbn [has_type] in *. repeat split; try assumption; lia.
Qed.

Theorem dec_tx_enc_tx : forall t, wf_tx t -> dec_tx (encode (enc_tx t)) = Some t.
Proof.
  intros t H. apply wf_tx_vals in H.
  exact (struct_dec_enc tx_tys tx_vals tx_of_vals tx_tys_ok tx_of_to t H).
Qed.
Theorem enc_tx_dec_tx : forall b t, dec_tx b = Some t -> encode (enc_tx t) = b /\ wf_tx t.
Proof.
  intros b t H.
  destruct (struct_enc_dec tx_tys tx_vals tx_of_vals tx_tys_ok tx_to_of b t H) as [He Hw].
  split; [exact He|apply wf_tx_vals; exact Hw].
Qed.

Theorem dec_sig_enc_sig : forall s, wf_sig s -> dec_sig (encode (enc_sig s)) = Some s.
Proof.
  intros s H. apply wf_sig_vals in H.
  exact (struct_dec_enc sig_tys sig_vals sig_of_vals sig_tys_ok sig_of_to s H).
Qed.
Theorem enc_sig_dec_sig : forall b s, dec_sig b = Some s -> encode (enc_sig s) = b /\ wf_sig s.
Proof.
  intros b s H.
  destruct (struct_enc_dec sig_tys sig_vals sig_of_vals sig_tys_ok sig_to_of b s H) as [He Hw].
  split; [exact He|apply wf_sig_vals; exact Hw].
Qed.

Theorem dec_chk_enc_chk : forall k, wf_chk k -> dec_chk (encode (enc_chk k)) = Some k.
Proof.
  intros k H. apply wf_chk_vals in H.
  exact (struct_dec_enc chk_tys chk_vals chk_of_vals chk_tys_ok chk_of_to k H).
Qed.
Theorem enc_chk_dec_chk : forall b k, dec_chk b = Some k -> encode (enc_chk k) = b /\ wf_chk k.
Proof.
  intros b k H.
  destruct (struct_enc_dec chk_tys chk_vals chk_of_vals chk_tys_ok chk_to_of b k H) as [He Hw].
  split; [exact He|apply wf_chk_vals; exact Hw].
Qed.

(* ---- signature values ------------------------------------------------------------------------ *)
Lemma secp_N_odd : secp_N = 2 * secp_half_N + 1.
Proof. vm_compute. reflexivity. Qed.
Lemma secp_half_pos : 0 < secp_half_N.
Proof. vm_compute. reflexivity. Qed.

Lemma v_offset : forall a, 0 <= a < 256 ->
  (((a - 27) mod 256 = 0 \/ (a - 27) mod 256 = 1) <-> (a = 27 \/ a = 28)).
Proof. intros a Ha. Z.div_mod_to_equations. lia. Qed.

(* the accepted signature values, in the literals of the property: V is 27 or 28,
   0 < r < N, 0 < s <= N/2 *)
Lemma validate_sig_spec : forall v r s,
  validate_sig v r s = true <->
  (Z.abs v = 27 \/ Z.abs v = 28) /\ 1 <= r < secp_N /\ 1 <= s <= secp_half_N.
Proof.
  intros v r s. unfold validate_sig. cbv zeta.
  pose proof secp_N_odd as HN. pose proof secp_half_pos as Hh.
  destruct (256 <=? Z.abs v) eqn:E; [lia|].
  pose proof (v_offset (Z.abs v) ltac:(lia)) as Hm.
  remember ((Z.abs v - 27) mod 256) as m eqn:Em. clear Em.
  remember secp_N as N eqn:EN. remember secp_half_N as hN eqn:EhN. clear EN EhN.
  lia.
Qed.

Theorem high_s_rejected : forall v v' r s,
  validate_sig v r s = true -> validate_sig v' r (secp_N - s) = false.
Proof.
  intros v v' r s H. apply validate_sig_spec in H.
  destruct (validate_sig v' r (secp_N - s)) eqn:E; [|reflexivity].
  apply validate_sig_spec in E. pose proof secp_N_odd. lia.
Qed.

Theorem bad_v_rejected : forall v r s, Z.abs v <> 27 -> Z.abs v <> 28 -> validate_sig v r s = false.
Proof.
  intros v r s H1 H2. destruct (validate_sig v r s) eqn:E; [|reflexivity].
  apply validate_sig_spec in E. lia.
Qed.

Corollary bad_v_rejected_nonneg : forall v r s, 0 <= v -> v <> 27 -> v <> 28 -> validate_sig v r s = false.
Proof. intros v r s H0 H1 H2. apply bad_v_rejected; lia. Qed.

Theorem bad_rs_rejected : forall v r s,
  r <= 0 \/ secp_N <= r \/ s <= 0 \/ secp_half_N < s -> validate_sig v r s = false.
Proof.
  intros v r s H. destruct (validate_sig v r s) eqn:E; [|reflexivity].
  apply validate_sig_spec in E. lia.
Qed.

(* ---- the signed bytes determine the signed fields ----------------------------------------------- *)
Lemma enc_val_length_le : forall isl p, (length p <= length (enc_val isl p))%nat.
Proof.
  intros isl p. destruct isl; unfold enc_val.
  - rewrite app_length. lia.
  - destruct p as [|x [|y p']]; cbn [enc_str].
    + cbn; lia.
    + destruct (x <? 128); [cbn; lia|]. rewrite app_length. cbn [length]. lia.
    + rewrite app_length. lia.
Qed.

Lemma enc_list_app : forall l1 l2, enc_list (l1 ++ l2) = enc_list l1 ++ enc_list l2.
Proof. intros; unfold enc_list; apply flat_map_app. Qed.

Lemma wf_Lst_prefix : forall l1 l2, wf_item (Lst (l1 ++ l2)) -> wf_item (Lst l1).
Proof.
  intros l1 l2 H. inversion H as [|? Hall Hlen]; subst.
  apply Forall_app in Hall as [H1 _]. constructor; [assumption|].
  rewrite enc_list_app, len_app in Hlen. pose proof (len_nonneg (enc_list l2)). lia.
Qed.

Lemma to_be_inj : forall a b, 0 <= a -> 0 <= b -> to_be a = to_be b -> a = b.
Proof.
  intros a b Ha Hb H.
  rewrite <- (from_be_to_be a Ha), <- (from_be_to_be b Hb), H. reflexivity.
Qed.

(* the fields covered by Transaction.Hash() *)
Definition signed_fields (t : tx) :=
  (t_nonce t, t_chain t, t_gasprice t, t_gascoin t, t_type t, t_data t, t_payload t, t_service t, t_sigtype t).

Theorem signing_bytes_injective : forall t1 t2, wf_tx t1 -> wf_tx t2 ->
  signing_bytes t1 = signing_bytes t2 -> signed_fields t1 = signed_fields t2.
Proof.
  intros t1 t2 (A1 & A2 & A3 & A4 & A5 & A6 & Aw) (B1 & B2 & B3 & B4 & B5 & B6 & Bw) H.
  unfold signing_bytes in H.
  assert (W1 : wf_item (signing_item t1)).
  { unfold signing_item. apply (wf_Lst_prefix _ (map enc_field (skipn 9 (tx_vals t1)))).
    rewrite <- map_app, firstn_skipn. exact Aw. }
  assert (W2 : wf_item (signing_item t2)).
  { unfold signing_item. apply (wf_Lst_prefix _ (map enc_field (skipn 9 (tx_vals t2)))).
    rewrite <- map_app, firstn_skipn. exact Bw. }
  apply encode_injective in H; [|assumption|assumption].
  unfold signing_item, tx_vals in H. cbn [firstn map enc_field] in H.
  inversion H as [[E1 E2 E3 E4 E5 E6 E7 E8 E9]].
  apply to_be_inj in E1, E2, E3, E4, E5, E9; try lia.
  unfold signed_fields. congruence.
Qed.

(* ---- Sender ---------------------------------------------------------------------------------------- *)
Section SenderFacts.
  Variable keccak : list Z -> Z.
  Variable recover : Z -> Z -> Z -> Z -> option Z.

  (* a sender is only ever produced for valid signature values ... *)
  Lemma sender_valid : forall t sg a, sender keccak recover t sg = Some a ->
    validate_sig (s_v sg) (s_r sg) (s_s sg) = true.
  Proof. intros t sg a H. unfold sender in H. destruct (validate_sig _ _ _); [reflexivity|discriminate]. Qed.

  (* ... it is the key recovered from the hash of the nine signed fields and the signature ... *)
  Lemma sender_is_recovered : forall t sg a, sender keccak recover t sg = Some a ->
    recover (keccak (signing_bytes t)) ((Z.abs (s_v sg) - 27) mod 256) (s_r sg) (s_s sg) = Some a.
  Proof. intros t sg a H. unfold sender in H. destruct (validate_sig _ _ _); [assumption|discriminate]. Qed.

  (* ... and the (V', R, N - S) rewriting of an accepted signature has no sender *)
  Theorem sender_high_s_twin : forall t t' sg a v', sender keccak recover t sg = Some a ->
    sender keccak recover t' {| s_v := v'; s_r := s_r sg; s_s := secp_N - s_s sg |} = None.
  Proof.
    intros t t' sg a v' H. apply sender_valid in H. unfold sender. cbn [s_v s_r s_s].
    rewrite (high_s_rejected _ v' _ _ H). reflexivity.
  Qed.
End SenderFacts.

(* ---- explicit sufficient conditions for well-formedness ---------------------------------------------- *)
Definition fval_ok (v : fval) : Prop :=
  match v with VInt z => 0 <= z | VBytes bs => Forall byte bs end.

Lemma enc_list_In_length : forall x l, In x l -> (length (encode x) <= length (enc_list l))%nat.
Proof.
  intros x l. induction l as [|y l IH]; intros Hin; [contradiction|].
  rewrite enc_list_cons, app_length. destruct Hin as [->|Hin]; [lia|]. specialize (IH Hin). lia.
Qed.

Lemma wf_struct_intro : forall vs, Forall fval_ok vs ->
  len (enc_list (map enc_field vs)) < 2 ^ 64 -> wf_item (Lst (map enc_field vs)).
Proof.
  intros vs Hok Hlen. constructor; [|assumption].
  apply Forall_forall. intros i Hi. apply in_map_iff in Hi as [v [<- Hv]].
  rewrite Forall_forall in Hok. specialize (Hok v Hv).
  assert (Hin : In (enc_field v) (map enc_field vs)) by (apply in_map; assumption).
  apply enc_list_In_length in Hin.
  destruct v as [z|bs]; cbn [enc_field fval_ok] in *.
  - unfold enc_uint in *. rewrite encode_val_str in Hin.
    pose proof (enc_val_length_le false (to_be z)).
    constructor; [apply to_be_bytes|]. unfold len in *. lia.
  - rewrite encode_val_str in Hin. pose proof (enc_val_length_le false bs).
    constructor; [assumption|]. unfold len in *. lia.
Qed.

Lemma enc_val_length_ub : forall isl p, len p < 2 ^ 64 -> len (enc_val isl p) <= len p + 9.
Proof.
  intros isl p Hp. pose proof (len_nonneg p).
  assert (Hl : forall off, len (enc_len off (len p)) <= 9).
  { intros off. destruct (Z_lt_ge_dec (len p) 56).
    - rewrite enc_len_short by assumption. cbn. lia.
    - rewrite enc_len_long by lia. rewrite len_cons. pose proof (to_be_len8 (len p) ltac:(lia)). lia. }
  destruct isl; unfold enc_val.
  - rewrite len_app. specialize (Hl 192). lia.
  - destruct (single_or_not p) as [[x ->]|Hns].
    + cbn [enc_str]. destruct (x <? 128); cbn; lia.
    + rewrite enc_str_ns by assumption. rewrite len_app. specialize (Hl 128). lia.
Qed.

Lemma enc_uint_len_ub : forall z k, 0 <= z < 256 ^ Z.of_nat k -> Z.of_nat k <= 8 -> len (encode (enc_uint z)) <= 17.
Proof.
  intros z k Hz Hk. unfold enc_uint. rewrite encode_val_str.
  pose proof (to_be_len z k ltac:(lia)) as H.
  pose proof (enc_val_length_ub false (to_be z) ltac:(lia)). lia.
Qed.

(* transactions with in-range integers and byte fields shorter than 2^60 bytes are well-formed *)
Theorem wf_tx_intro : forall t,
  0 <= t_nonce t < 2 ^ 64 -> 0 <= t_chain t < 2 ^ 8 -> 0 <= t_gasprice t < 2 ^ 32 ->
  0 <= t_gascoin t < 2 ^ 32 -> 0 <= t_type t < 2 ^ 8 -> 0 <= t_sigtype t < 2 ^ 8 ->
  Forall byte (t_data t) -> Forall byte (t_payload t) -> Forall byte (t_service t) ->
  Forall byte (t_sigdata t) ->
  len (t_data t) < 2 ^ 60 -> len (t_payload t) < 2 ^ 60 -> len (t_service t) < 2 ^ 60 ->
  len (t_sigdata t) < 2 ^ 60 ->
  wf_tx t.
Proof.
  intros t H1 H2 H3 H4 H5 H6 B1 B2 B3 B4 L1 L2 L3 L4.
  unfold wf_tx. repeat (split; [assumption|]).
  unfold enc_tx. apply wf_struct_intro.
  - unfold tx_vals. repeat (apply Forall_cons; [cbn [fval_ok]; try assumption; lia|]). apply Forall_nil.
  - unfold tx_vals. cbn [map enc_field]. unfold enc_list. cbn [flat_map]. rewrite app_nil_r.
    repeat rewrite len_app.
    pose proof (enc_uint_len_ub (t_nonce t) 8%nat ltac:(rewrite pow64; lia) ltac:(lia)).
    pose proof (enc_uint_len_ub (t_chain t) 1%nat ltac:(change (256 ^ Z.of_nat 1) with (2 ^ 8); lia) ltac:(lia)).
    pose proof (enc_uint_len_ub (t_gasprice t) 4%nat ltac:(change (256 ^ Z.of_nat 4) with (2 ^ 32); lia) ltac:(lia)).
    pose proof (enc_uint_len_ub (t_gascoin t) 4%nat ltac:(change (256 ^ Z.of_nat 4) with (2 ^ 32); lia) ltac:(lia)).
    pose proof (enc_uint_len_ub (t_type t) 1%nat ltac:(change (256 ^ Z.of_nat 1) with (2 ^ 8); lia) ltac:(lia)).
    pose proof (enc_uint_len_ub (t_sigtype t) 1%nat ltac:(change (256 ^ Z.of_nat 1) with (2 ^ 8); lia) ltac:(lia)).
    repeat rewrite encode_val_str.
    pose proof (enc_val_length_ub false (t_data t) ltac:(lia)).
    pose proof (enc_val_length_ub false (t_payload t) ltac:(lia)).
    pose proof (enc_val_length_ub false (t_service t) ltac:(lia)).
    pose proof (enc_val_length_ub false (t_sigdata t) ltac:(lia)).
    change (encode (enc_uint (t_nonce t))) with (enc_val false (to_be (t_nonce t))) in *.
    change (encode (enc_uint (t_chain t))) with (enc_val false (to_be (t_chain t))) in *.
    change (encode (enc_uint (t_gasprice t))) with (enc_val false (to_be (t_gasprice t))) in *.
    change (encode (enc_uint (t_gascoin t))) with (enc_val false (to_be (t_gascoin t))) in *.
    change (encode (enc_uint (t_type t))) with (enc_val false (to_be (t_type t))) in *.
    change (encode (enc_uint (t_sigtype t))) with (enc_val false (to_be (t_sigtype t))) in *.
    lia.
Qed.
