(* CoinSupplyFacts.v — along any sequence of conversions the volume stays within [0, max supply] and the reserve at
   or above the minimum reserve. *)
From Minter Require Import Base CoinSupply.
From Coq Require Import ZArith List Bool Lia.
Import ListNotations.
Open Scope Z_scope.

Definition binv (c : bcoin) : Prop := 0 <= b_vol c <= b_max c /\ min_coin_reserve <= b_res c.

(* what the callers guarantee about the amounts: nothing negative is minted or deposited, nobody burns more coins
   than exist (a seller's balance is part of the volume: C01), nothing negative is paid out *)
Definition bop_ok (c : bcoin) (o : bop) : Prop :=
  match o with
  | BMint minted deposit => 0 <= minted /\ 0 <= deposit
  | BBurn burned paid => 0 <= burned <= b_vol c /\ 0 <= paid
  end.

Lemma bstep_inv c o : binv c -> bop_ok c o -> binv (fst (bstep c o)) /\ b_max (fst (bstep c o)) = b_max c.
Proof.
  intros (Hv & Hr) Ho. destruct o as [minted deposit|burned paid]; cbn [bstep bop_ok] in *.
  - destruct (Z.ltb_spec (b_max c) (b_vol c + minted)); cbn [fst]; unfold binv; cbn [b_vol b_res b_max]; split; try reflexivity; split; lia.
  - destruct (Z.ltb_spec (b_res c - paid) min_coin_reserve); cbn [fst]; unfold binv; cbn [b_vol b_res b_max]; split; try reflexivity; split; lia.
Qed.

Lemma bstep_rejected c o : snd (bstep c o) <> 0 -> fst (bstep c o) = c.
Proof.
  destruct o as [m d|b p]; cbn [bstep].
  - destruct (b_max c <? b_vol c + m); cbn [fst snd]; [reflexivity|intros H; exfalso; apply H; reflexivity].
  - destruct (b_res c - p <? min_coin_reserve); cbn [fst snd]; [reflexivity|intros H; exfalso; apply H; reflexivity].
Qed.

(* the amounts are acceptable at every step of the sequence *)
Fixpoint bops_ok (c : bcoin) (ops : list bop) : Prop :=
  match ops with [] => True | o :: r => bop_ok c o /\ bops_ok (fst (bstep c o)) r end.

Lemma brun_inv : forall ops c, binv c -> bops_ok c ops -> binv (brun c ops) /\ b_max (brun c ops) = b_max c.
Proof.
  induction ops as [|o r IH]; intros c Hi Ho; [split; [exact Hi|reflexivity]|].
  destruct Ho as [H1 H2]. destruct (bstep_inv c o Hi H1) as [A B].
  unfold brun. cbn [fold_left]. fold (brun (fst (bstep c o)) r). destruct (IH _ A H2) as [A' B']. split; [exact A'|congruence].
Qed.

(* a purchase that would lift the volume above the maximum supply is refused with code 112, whatever it would cost *)
Lemma mint_above_cap_refused c minted deposit :
  b_max c < b_vol c + minted -> bstep c (BMint minted deposit) = (c, cCoinSupplyOverflow).
Proof. intros H. cbn [bstep]. destruct (Z.ltb_spec (b_max c) (b_vol c + minted)); [reflexivity|lia]. Qed.

Lemma mint_accepted_iff c minted deposit :
  snd (bstep c (BMint minted deposit)) = 0 <-> b_vol c + minted <= b_max c.
Proof.
  cbn [bstep]. destruct (Z.ltb_spec (b_max c) (b_vol c + minted)); cbn [snd]; unfold cCoinSupplyOverflow; split; intros; try lia; try reflexivity; discriminate.
Qed.
