(* ScheduleFacts.v — facts about Model/Schedule.v (C16): what each step does to the frozen funds,
   the balances and the stake / update / waitlist entries; the invariant "every frozen fund is due
   in the future" along histories with consecutive heights; the life cycle of one fund. *)
From Minter Require Import Base Consts Schedule.
From Minter Require Punish Ledger LedgerFacts.
From Coq Require Import ZArith List Bool Lia ZifyBool.
Import ListNotations.
Open Scope Z_scope.

(* ---- entries ------------------------------------------------------------------------------------- *)
Lemma esum_cons e l c o k : esum (e :: l) c o k = (if ekey c o k e then e_value e else 0) + esum l c o k.
Proof. reflexivity. Qed.
Lemma esum_app a b c o k : esum (a ++ b) c o k = esum a c o k + esum b c o k.
Proof. unfold esum. rewrite map_app. apply LedgerFacts.sumZ_app. Qed.

Lemma ekey_set_value c o k e v : ekey c o k (set_value e v) = ekey c o k e.
Proof. reflexivity. Qed.

(* subtracting from the first matching entry lowers the total by exactly that much *)
Lemma esum_esub l c o k d v : efind l c o k = Some v -> esum (esub l c o k d) c o k = esum l c o k - d.
Proof.
  induction l as [|e l IH]; cbn [efind esub]; [discriminate|].
  destruct (ekey c o k e) eqn:E; intros H.
  - rewrite !esum_cons, ekey_set_value, E. cbn [set_value e_value]. lia.
  - rewrite !esum_cons, E, (IH H). lia.
Qed.

Lemma ekey_other c o k c' o' k' e : ekey c o k e = true -> (c, o, k) <> (c', o', k') -> ekey c' o' k' e = false.
Proof.
  unfold ekey. intros H Hne. apply andb_prop in H. destruct H as [H H3]. apply andb_prop in H. destruct H as [H1 H2].
  apply Z.eqb_eq in H1, H2, H3.
  destruct (e_cand e =? c') eqn:E1; [|reflexivity]. destruct (e_owner e =? o') eqn:E2; [|reflexivity].
  destruct (e_coin e =? k') eqn:E3; [|reflexivity].
  apply Z.eqb_eq in E1, E2, E3. exfalso. apply Hne. congruence.
Qed.

Lemma esum_esub_other l c o k d c' o' k' : (c, o, k) <> (c', o', k') -> esum (esub l c o k d) c' o' k' = esum l c' o' k'.
Proof.
  intros Hne. induction l as [|e l IH]; [reflexivity|]. cbn [esub].
  destruct (ekey c o k e) eqn:E.
  - rewrite !esum_cons, ekey_set_value, (ekey_other _ _ _ _ _ _ _ E Hne). reflexivity.
  - rewrite !esum_cons, IH. reflexivity.
Qed.

Lemma esum_edel l c o k : esum (edel l c o k) c o k = 0.
Proof.
  unfold edel. induction l as [|e l IH]; [reflexivity|]. cbn [filter].
  destruct (ekey c o k e) eqn:E; cbn [negb]; [exact IH|]. rewrite esum_cons, E, IH. reflexivity.
Qed.

Lemma esum_edel_other l c o k c' o' k' : (c, o, k) <> (c', o', k') -> esum (edel l c o k) c' o' k' = esum l c' o' k'.
Proof.
  intros Hne. unfold edel. induction l as [|e l IH]; [reflexivity|]. cbn [filter].
  destruct (ekey c o k e) eqn:E; cbn [negb].
  - rewrite esum_cons, (ekey_other _ _ _ _ _ _ _ E Hne), IH. reflexivity.
  - rewrite !esum_cons, IH. reflexivity.
Qed.

Lemma ekey_refl c o k v : ekey c o k {| e_cand := c; e_owner := o; e_coin := k; e_value := v |} = true.
Proof. unfold ekey. cbn. rewrite !Z.eqb_refl. reflexivity. Qed.

Lemma esum_eadd l c o k v : esum (eadd l c o k v) c o k = esum l c o k + v.
Proof.
  induction l as [|e l IH]; cbn [eadd].
  - rewrite esum_cons, ekey_refl. cbn. unfold esum. cbn. lia.
  - destruct (ekey c o k e) eqn:E.
    + rewrite !esum_cons, ekey_set_value, E. cbn. lia.
    + rewrite !esum_cons, E, IH. lia.
Qed.

Lemma esum_eadd_other l c o k v c' o' k' : (c, o, k) <> (c', o', k') -> esum (eadd l c o k v) c' o' k' = esum l c' o' k'.
Proof.
  intros Hne. induction l as [|e l IH]; cbn [eadd].
  - rewrite esum_cons. rewrite (ekey_other c o k c' o' k' _ (ekey_refl c o k v) Hne). reflexivity.
  - destruct (ekey c o k e) eqn:E.
    + rewrite !esum_cons, ekey_set_value, (ekey_other _ _ _ _ _ _ _ E Hne). reflexivity.
    + rewrite !esum_cons, IH. reflexivity.
Qed.

(* at most one waitlist item per (candidate, owner, coin): AddToList merges *)
Definition ecount (l : list entry) (c o k : Z) : nat := length (filter (ekey c o k) l).
Definition entries_nodup (l : list entry) : Prop := forall c o k, (ecount l c o k <= 1)%nat.

Lemma ecount_zero_esum l c o k : ecount l c o k = O -> esum l c o k = 0.
Proof.
  unfold ecount. induction l as [|e l IH]; [reflexivity|]. cbn [filter].
  destruct (ekey c o k e) eqn:E; [discriminate|]. intros H. rewrite esum_cons, E, (IH H). reflexivity.
Qed.

Lemma efind_nodup_esum l c o k v : efind l c o k = Some v -> (ecount l c o k <= 1)%nat -> esum l c o k = v.
Proof.
  unfold ecount. induction l as [|e l IH]; cbn [efind filter]; [discriminate|].
  destruct (ekey c o k e) eqn:E; intros H Hn.
  - injection H as <-. rewrite esum_cons, E. cbn [length] in Hn.
    rewrite (ecount_zero_esum l c o k); [lia|]. unfold ecount. lia.
  - rewrite esum_cons, E. rewrite (IH H Hn). lia.
Qed.

Lemma ecount_edel l c o k c' o' k' : (ecount (edel l c o k) c' o' k' <= ecount l c' o' k')%nat.
Proof.
  unfold ecount, edel. induction l as [|e l IH]; [cbn; lia|]. cbn [filter].
  destruct (ekey c o k e); cbn [negb filter]; destruct (ekey c' o' k' e); cbn [length]; lia.
Qed.

Lemma ecount_edel_same l c o k : ecount (edel l c o k) c o k = O.
Proof.
  unfold ecount, edel. induction l as [|e l IH]; [reflexivity|]. cbn [filter].
  destruct (ekey c o k e) eqn:E; cbn [negb filter]; [exact IH|]. rewrite E. exact IH.
Qed.

Lemma ecount_eadd l c o k v c' o' k' :
  ecount (eadd l c o k v) c' o' k' =
  (ecount l c' o' k' + (if ekey c' o' k' {| e_cand := c; e_owner := o; e_coin := k; e_value := v |}
                        then match ecount l c o k with O => 1 | S _ => 0 end else 0))%nat.
Proof.
  unfold ecount. induction l as [|e l IH]; cbn [eadd filter length].
  - destruct (ekey c' o' k' _); reflexivity.
  - destruct (ekey c o k e) eqn:E.
    + cbn [filter length]. rewrite ekey_set_value.
      destruct (ekey c' o' k' e); destruct (ekey c' o' k' _); cbn [length]; lia.
    + cbn [filter]. destruct (ekey c' o' k' e); cbn [length]; rewrite IH; lia.
Qed.

Lemma ekey_same_key c o k c' o' k' v :
  ekey c' o' k' {| e_cand := c; e_owner := o; e_coin := k; e_value := v |} = true -> c' = c /\ o' = o /\ k' = k.
Proof. unfold ekey. cbn. lia. Qed.

Lemma nodup_edel l c o k : entries_nodup l -> entries_nodup (edel l c o k).
Proof. intros H c' o' k'. pose proof (ecount_edel l c o k c' o' k'). specialize (H c' o' k'). lia. Qed.

Lemma nodup_eadd l c o k v : entries_nodup l -> entries_nodup (eadd l c o k v).
Proof.
  intros H c' o' k'. rewrite ecount_eadd. pose proof (H c' o' k') as H1.
  destruct (ekey c' o' k' _) eqn:E; [|lia].
  apply ekey_same_key in E. destruct E as (-> & -> & ->).
  destruct (ecount l c o k) eqn:E2; lia.
Qed.

Lemma nodup_eadd_edel l c o k v : entries_nodup l -> entries_nodup (eadd (edel l c o k) c o k v).
Proof. intros H. apply nodup_eadd, nodup_edel, H. Qed.

(* ---- effects ------------------------------------------------------------------------------------------- *)
Definition fund_effs (l : list eff) : list fund := flat_map (fun e => match e with EFund f => [f] | _ => [] end) l.
Definition bal_delta (a c : Z) (e : eff) : Z :=
  match e with EBal a' c' d => if LedgerFacts.hit a' c' a c then d else 0 | _ => 0 end.
Definition bal_deltas (l : list eff) (a c : Z) : Z := sum_Z (map (bal_delta a c) l).

Lemma apply_effs_cons s e l : apply_effs s (e :: l) = apply_effs (apply_eff s e) l.
Proof. reflexivity. Qed.
Lemma apply_effs_app s l1 l2 : apply_effs s (l1 ++ l2) = apply_effs (apply_effs s l1) l2.
Proof. unfold apply_effs. apply fold_left_app. Qed.

Lemma apply_effs_frozen : forall l s, s_frozen (apply_effs s l) = s_frozen s ++ fund_effs l.
Proof.
  induction l as [|e l IH]; intros s; [cbn; rewrite app_nil_r; reflexivity|].
  rewrite apply_effs_cons, IH. destruct e; cbn [apply_eff fund_effs flat_map]; cbn; try reflexivity.
  rewrite <- app_assoc. reflexivity.
Qed.

Lemma apply_effs_bal : forall l s a c, bal (apply_effs s l) a c = bal s a c + bal_deltas l a c.
Proof.
  induction l as [|e l IH]; intros s a c; [unfold bal_deltas; cbn; lia|].
  rewrite apply_effs_cons, IH. unfold bal_deltas. cbn [map]. rewrite LedgerFacts.sumZ_cons.
  destruct e; cbn [apply_eff bal_delta]; unfold bal; cbn [s_bal set_bal set_stakes set_updates set_wait set_frozen set_lock]; try lia.
  rewrite LedgerFacts.get_bal_add_bal. lia.
Qed.

Lemma apply_effs_static : forall l s,
  s_height (apply_effs s l) = s_height s /\ s_cands (apply_effs s l) = s_cands s /\
  s_deleted (apply_effs s l) = s_deleted s /\ s_coins (apply_effs s l) = s_coins s.
Proof.
  induction l as [|e l IH]; intros s; [repeat split|].
  rewrite apply_effs_cons. destruct (IH (apply_eff s e)) as (H1 & H2 & H3 & H4).
  rewrite H1, H2, H3, H4. destruct e; repeat split.
Qed.

Definition touches_entries (e : eff) : bool :=
  match e with EStakeSub _ _ _ _ | EUpdAdd _ _ _ _ | EWaitDel _ _ _ | EWaitAdd _ _ _ _ | ELock _ _ => true | _ => false end.

(* a list of balance effects leaves everything but the balances alone *)
Lemma apply_effs_bal_only : forall l s, forallb (fun e => match e with EBal _ _ _ => true | _ => false end) l = true ->
  let s' := apply_effs s l in
  s_stakes s' = s_stakes s /\ s_updates s' = s_updates s /\ s_wait s' = s_wait s /\ s_frozen s' = s_frozen s /\ s_lock s' = s_lock s.
Proof.
  induction l as [|e l IH]; intros s H; [repeat split|].
  cbn [forallb] in H. apply andb_prop in H. destruct H as [He Hl].
  destruct e; try discriminate. cbn zeta. rewrite apply_effs_cons.
  destruct (IH (apply_eff s (EBal a c d)) Hl) as (H1 & H2 & H3 & H4 & H5).
  rewrite H1, H2, H3, H4, H5. repeat split.
Qed.

(* ---- transactions ----------------------------------------------------------------------------------------- *)
Definition wf_tx (t : tx) : Prop :=
  0 <= t_com t /\ 0 <= t_ffee t /\
  match t_data t with
  | Unbond _ _ v => True | MoveStake _ _ _ v => True | LockStake => True
  | Lock _ _ v => 0 <= v | Delegate _ _ v _ _ => 0 <= v
  end.

Definition periods_pos (P : periods) : Prop := 0 < p_unbond P /\ 0 < p_move P /\ 0 < p_lockstake P.

Lemma testnet_periods_pos : periods_pos testnet_periods.
Proof. unfold periods_pos; cbn. repeat split; reflexivity. Qed.
Lemma mainnet_periods_pos : periods_pos mainnet_periods.
Proof. unfold periods_pos; cbn. repeat split; reflexivity. Qed.

Lemma cand_exists_id s c : cand_exists s c = true -> cand_id s c = c /\ 0 < c.
Proof.
  unfold cand_exists, cand_id. intros H. apply andb_prop in H. destruct H as [H1 H2].
  rewrite H1, H2. cbn. split; [reflexivity|lia].
Qed.

Definition staked (s : st) (c o k : Z) : Z := esum (s_stakes s) c o k + esum (s_updates s) c o k + esum (s_wait s) c o k.

(* destructs the outermost test of H : <tests> = Accept effs *)
Ltac res_step H :=
  lazymatch type of H with
  | Reject _ = Accept _ => discriminate H
  | Crash _ = Accept _ => discriminate H
  | Accept _ = Accept _ => injection H as H
  | (if ?b then _ else _) = Accept _ => let E := fresh "E" in destruct b eqn:E
  | (match ?x with _ => _ end) = Accept _ => let E := fresh "E" in destruct x eqn:E
  end.

(* what leave_effs does to the stake and waitlist totals of the key, and nothing else *)
Lemma leave_effs_spec s sender cand coin value effs :
  leave_effs s sender cand coin value = Val effs -> entries_nodup (s_wait s) ->
  let s' := apply_effs s effs in
  fund_effs effs = [] /\ (forall a c, bal_deltas effs a c = 0) /\
  s_updates s' = s_updates s /\ s_lock s' = s_lock s /\
  esum (s_stakes s') cand sender coin + esum (s_wait s') cand sender coin =
    esum (s_stakes s) cand sender coin + esum (s_wait s) cand sender coin - value /\
  (forall c' o' k', (cand, sender, coin) <> (c', o', k') ->
     esum (s_stakes s') c' o' k' = esum (s_stakes s) c' o' k' /\ esum (s_wait s') c' o' k' = esum (s_wait s) c' o' k') /\
  entries_nodup (s_wait s').
Proof.
  unfold leave_effs, wait_get, stake_get. intros H Hnd.
  destruct (cand_id s cand =? 0) eqn:Eid.
  - (* no waitlist item can be found *)
    destruct (cand_exists s cand) eqn:Eex; [|discriminate].
    destruct (efind (s_stakes s) cand sender coin) as [sv|] eqn:Es; [|discriminate].
    injection H as <-. cbn [apply_effs fold_left apply_eff s_stakes s_wait s_updates s_lock set_stakes fund_effs flat_map app].
    split; [reflexivity|]. split; [intros; reflexivity|]. split; [reflexivity|]. split; [reflexivity|].
    split; [rewrite (esum_esub _ _ _ _ _ _ Es); lia|].
    split; [|exact Hnd]. intros c' o' k' Hne. split; [apply esum_esub_other, Hne|reflexivity].
  - destruct (efind (s_wait s) cand sender coin) as [wv|] eqn:Ew.
    + pose proof (efind_nodup_esum _ _ _ _ _ Ew (Hnd cand sender coin)) as Hw.
      destruct (value - wv <? 0) eqn:E1.
      * injection H as <-. cbn [apply_effs fold_left apply_eff s_stakes s_wait s_updates s_lock set_wait fund_effs flat_map app].
        split; [reflexivity|]. split; [intros; reflexivity|]. split; [reflexivity|]. split; [reflexivity|].
        split; [rewrite esum_eadd, esum_edel; lia|].
        split; [|apply nodup_eadd_edel, Hnd]. intros c' o' k' Hne. split; [reflexivity|].
        rewrite (esum_eadd_other _ _ _ _ _ _ _ _ Hne), (esum_edel_other _ _ _ _ _ _ _ Hne). reflexivity.
      * destruct (0 <? value - wv) eqn:E2.
        -- destruct (cand_exists s cand) eqn:Eex; [|discriminate].
           destruct (efind (s_stakes s) cand sender coin) as [sv|] eqn:Es; [|discriminate].
           injection H as <-.
           cbn [apply_effs fold_left apply_eff s_stakes s_wait s_updates s_lock set_wait set_stakes fund_effs flat_map app].
           split; [reflexivity|]. split; [intros; reflexivity|]. split; [reflexivity|]. split; [reflexivity|].
           split; [rewrite (esum_esub _ _ _ _ _ _ Es), esum_edel; lia|].
           split; [|apply nodup_edel, Hnd]. intros c' o' k' Hne.
           split; [apply esum_esub_other, Hne|apply esum_edel_other, Hne].
        -- injection H as <-. cbn [apply_effs fold_left apply_eff s_stakes s_wait s_updates s_lock set_wait fund_effs flat_map app].
           split; [reflexivity|]. split; [intros; reflexivity|]. split; [reflexivity|]. split; [reflexivity|].
           split; [rewrite esum_edel; lia|].
           split; [|apply nodup_edel, Hnd]. intros c' o' k' Hne. split; [reflexivity|apply esum_edel_other, Hne].
    + destruct (cand_exists s cand) eqn:Eex; [|discriminate].
      destruct (efind (s_stakes s) cand sender coin) as [sv|] eqn:Es; [|discriminate].
      injection H as <-. cbn [apply_effs fold_left apply_eff s_stakes s_wait s_updates s_lock set_stakes fund_effs flat_map app].
      split; [reflexivity|]. split; [intros; reflexivity|]. split; [reflexivity|]. split; [reflexivity|].
      split; [rewrite (esum_esub _ _ _ _ _ _ Es); lia|].
      split; [|exact Hnd]. intros c' o' k' Hne. split; [apply esum_esub_other, Hne|reflexivity].
Qed.
