(* LocksetFacts.v — the lockset discipline excludes races; tables checked by all_guarded
   induce disciplined threads; memoising queries are invisible to the executor. *)
From Minter Require Import Lockset.
From Coq Require Import List Bool Arith ZArith String Lia.
Import ListNotations.

(* ---- small facts ------------------------------------------------------------------- *)
Lemma holds_m_in : forall h m, holds_m h m = true -> exists md, In (m, md) h.
Proof.
  intros h m H. unfold holds_m in H. apply existsb_exists in H.
  destruct H as [[m' md] [Hin Heq]]. cbn in Heq. apply String.eqb_eq in Heq. subst m'.
  exists md; exact Hin.
Qed.

Lemma holds_w_in : forall h m, holds_w h m = true -> In (m, MW) h.
Proof.
  intros h m H. unfold holds_w in H. apply existsb_exists in H.
  destruct H as [[m' md] [Hin Heq]]. cbn in Heq. apply andb_true_iff in Heq.
  destruct Heq as [He Hw]. apply String.eqb_eq in He. subst m'.
  destruct md; cbn in Hw; [discriminate | exact Hin].
Qed.

Lemma holds_m_false_neq : forall h m x, holds_m h m = false -> In x h -> fst x <> m.
Proof.
  intros h m x H Hin Heq. unfold holds_m in H.
  assert (Ht : existsb (fun y => String.eqb (fst y) m) h = true).
  { apply existsb_exists. exists x. split; [exact Hin | apply String.eqb_eq; exact Heq]. }
  rewrite H in Ht. discriminate.
Qed.

Lemma in_drop_m : forall h m x, In x (drop_m h m) -> In x h /\ fst x <> m.
Proof.
  intros h m x H. unfold drop_m in H. apply filter_In in H. destruct H as [Hin Hn].
  split; [exact Hin |]. intro Heq. apply String.eqb_eq in Heq. cbn beta in Hn. rewrite Heq in Hn. discriminate.
Qed.

Lemma in_remove_one : forall i j l, In j l -> j <> i -> In j (remove_one i l).
Proof.
  intros i j l. induction l as [| a r IH]; intros Hin Hne; [exact Hin |].
  cbn. destruct (Nat.eqb a i) eqn:E.
  - apply Nat.eqb_eq in E. destruct Hin as [Ha | Hr]; [subst; contradiction | exact Hr].
  - destruct Hin as [Ha | Hr]; [left; exact Ha | right; apply IH; assumption].
Qed.

(* ---- the invariant ------------------------------------------------------------------- *)
(* what thread i really holds in lock state L *)
Definition actually_holds (L : locks) (i : tid) (x : mutex * mode) : Prop :=
  match snd x with
  | MW => writer (L (fst x)) = Some i
  | MR => In i (readers (L (fst x)))
  end.

Definition wf_locks (L : locks) : Prop :=
  forall m j, writer (L m) = Some j -> readers (L m) = [].

Definition inv (guard : field -> list mutex) (c : config) : Prop :=
  wf_locks (c_locks c) /\
  forall i, exists h, run_ls guard h (c_progs c i) <> None /\
                      forall x, In x h -> actually_holds (c_locks c) i x.

Lemma upd_lock_same : forall L m s, upd_lock L m s m = s.
Proof. intros. unfold upd_lock. rewrite String.eqb_refl. reflexivity. Qed.

Lemma upd_lock_other : forall L m s m', m' <> m -> upd_lock L m s m' = L m'.
Proof.
  intros. unfold upd_lock. destruct (String.eqb m' m) eqn:E; [| reflexivity].
  apply String.eqb_eq in E. contradiction.
Qed.

Lemma inv_init : forall guard P,
  (forall i, thread_ok guard (P i) = true) -> inv guard (init P).
Proof.
  intros guard P H. split.
  - intros m j Hw. cbn in Hw. discriminate.
  - intro i. exists []. split.
    + specialize (H i). unfold thread_ok in H. cbn. destruct (run_ls guard [] (P i)); [discriminate | discriminate].
    + intros x [].
Qed.

(* a step of thread i does not take away what another thread holds *)
Lemma exec_others : forall L i a L' j x,
  exec L i a = Some L' -> j <> i -> actually_holds L j x -> actually_holds L' j x.
Proof.
  intros L i a L' j [m' md'] Hex Hne Hh. unfold actually_holds in *. cbn [fst snd] in *.
  destruct a as [m md | m | f | f]; cbn in Hex.
  - destruct md.
    + (* Acq R *)
      destruct (writer (L m)) eqn:Ew; [discriminate |]. inversion Hex; subst L'; clear Hex.
      destruct (String.eqb m' m) eqn:E.
      * apply String.eqb_eq in E. subst m'. rewrite upd_lock_same. cbn.
        destruct md'; [right; exact Hh | rewrite Ew in Hh; discriminate].
      * rewrite upd_lock_other; [exact Hh | intro; subst; rewrite String.eqb_refl in E; discriminate].
    + (* Acq W *)
      destruct (L m) as [rs w] eqn:Em. destruct rs; [| discriminate]. destruct w; [discriminate |].
      inversion Hex; subst L'; clear Hex.
      destruct (String.eqb m' m) eqn:E.
      * apply String.eqb_eq in E. subst m'. rewrite Em in Hh. cbn in Hh.
        destruct md'; [contradiction | discriminate].
      * rewrite upd_lock_other; [exact Hh | intro; subst; rewrite String.eqb_refl in E; discriminate].
  - (* Rel *)
    destruct (writer (L m)) as [k |] eqn:Ew.
    + destruct (Nat.eqb k i) eqn:Ek; [| discriminate]. apply Nat.eqb_eq in Ek. subst k.
      inversion Hex; subst L'; clear Hex.
      destruct (String.eqb m' m) eqn:E.
      * apply String.eqb_eq in E. subst m'. rewrite upd_lock_same. cbn.
        destruct md'; [exact Hh |]. rewrite Ew in Hh. inversion Hh. subst. contradiction.
      * rewrite upd_lock_other; [exact Hh | intro; subst; rewrite String.eqb_refl in E; discriminate].
    + destruct (existsb (Nat.eqb i) (readers (L m))); [| discriminate].
      inversion Hex; subst L'; clear Hex.
      destruct (String.eqb m' m) eqn:E.
      * apply String.eqb_eq in E. subst m'. rewrite upd_lock_same. cbn.
        destruct md'; [apply in_remove_one; assumption | rewrite Ew in Hh; discriminate].
      * rewrite upd_lock_other; [exact Hh | intro; subst; rewrite String.eqb_refl in E; discriminate].
  - inversion Hex; subst; exact Hh.
  - inversion Hex; subst; exact Hh.
Qed.

(* locks of other mutexes are untouched by an action on m *)
Lemma exec_other_mutex : forall L i m a L' x,
  exec L i a = Some L' ->
  (a = Rel m \/ exists md, a = Acq m md) -> fst x <> m ->
  actually_holds L i x -> actually_holds L' i x.
Proof.
  intros L i m a L' [m' md'] Hex Ha Hne Hh. unfold actually_holds in *. cbn [fst snd] in *.
  assert (Hsame : L' m' = L m').
  { destruct Ha as [Ha | [md Ha]]; subst a; cbn in Hex.
    - destruct (writer (L m)) as [k |].
      + destruct (Nat.eqb k i); [| discriminate]. inversion Hex; subst. apply upd_lock_other; exact Hne.
      + destruct (existsb (Nat.eqb i) (readers (L m))); [| discriminate].
        inversion Hex; subst. apply upd_lock_other; exact Hne.
    - destruct md.
      + destruct (writer (L m)); [discriminate |]. inversion Hex; subst. apply upd_lock_other; exact Hne.
      + destruct (L m) as [rs w]. destruct rs; [| discriminate]. destruct w; [discriminate |].
        inversion Hex; subst. apply upd_lock_other; exact Hne. }
  rewrite Hsame. exact Hh.
Qed.

Lemma exec_wf : forall L i a L', exec L i a = Some L' -> wf_locks L -> wf_locks L'.
Proof.
  intros L i a L' Hex Hwf m0 j Hw.
  destruct a as [m md | m | f | f]; cbn in Hex.
  - destruct md.
    + destruct (writer (L m)) eqn:Ew; [discriminate |]. inversion Hex; subst L'; clear Hex.
      destruct (String.eqb m0 m) eqn:E.
      * apply String.eqb_eq in E. subst m0. rewrite upd_lock_same in Hw. cbn in Hw. discriminate.
      * assert (m0 <> m) by (intro; subst; rewrite String.eqb_refl in E; discriminate).
        rewrite upd_lock_other in * by assumption. eapply Hwf; eassumption.
    + destruct (L m) as [rs w] eqn:Em. destruct rs; [| discriminate]. destruct w; [discriminate |].
      inversion Hex; subst L'; clear Hex.
      destruct (String.eqb m0 m) eqn:E.
      * apply String.eqb_eq in E. subst m0. rewrite upd_lock_same. reflexivity.
      * assert (m0 <> m) by (intro; subst; rewrite String.eqb_refl in E; discriminate).
        rewrite upd_lock_other in * by assumption. eapply Hwf; eassumption.
  - destruct (writer (L m)) as [k |] eqn:Ew.
    + destruct (Nat.eqb k i); [| discriminate]. inversion Hex; subst L'; clear Hex.
      destruct (String.eqb m0 m) eqn:E.
      * apply String.eqb_eq in E. subst m0. rewrite upd_lock_same in Hw. cbn in Hw. discriminate.
      * assert (m0 <> m) by (intro; subst; rewrite String.eqb_refl in E; discriminate).
        rewrite upd_lock_other in * by assumption. eapply Hwf; eassumption.
    + destruct (existsb (Nat.eqb i) (readers (L m))); [| discriminate].
      inversion Hex; subst L'; clear Hex.
      destruct (String.eqb m0 m) eqn:E.
      * apply String.eqb_eq in E. subst m0. rewrite upd_lock_same in Hw. cbn in Hw. discriminate.
      * assert (m0 <> m) by (intro; subst; rewrite String.eqb_refl in E; discriminate).
        rewrite upd_lock_other in * by assumption. eapply Hwf; eassumption.
  - inversion Hex; subst. eapply Hwf; eassumption.
  - inversion Hex; subst. eapply Hwf; eassumption.
Qed.

Lemma inv_step : forall guard c c', inv guard c -> step c c' -> inv guard c'.
Proof.
  intros guard c c' [Hwf Hth] Hst. destruct Hst as [L P i a rest L' HP Hex]. cbn in *.
  split; [eapply exec_wf; eassumption |].
  intro j. cbn [c_locks c_progs]. destruct (Nat.eqb j i) eqn:Eji.
  - (* the moving thread *)
    apply Nat.eqb_eq in Eji. subst j. destruct (Hth i) as [h [Hok Hh]]. rewrite HP in Hok.
    unfold upd_prog; cbn beta. rewrite Nat.eqb_refl.
    destruct a as [m md | m | f | f]; cbn in Hok.
    + destruct (holds_m h m) eqn:Ehm; [contradiction |].
      exists ((m, md) :: h). split; [exact Hok |].
      intros x [Hx | Hx].
      * subst x. unfold actually_holds. cbn [fst snd]. cbn in Hex. destruct md.
        -- destruct (writer (L m)); [discriminate |]. inversion Hex; subst. rewrite upd_lock_same. cbn. left; reflexivity.
        -- destruct (L m) as [rs w]. destruct rs; [| discriminate]. destruct w; [discriminate |].
           inversion Hex; subst. rewrite upd_lock_same. reflexivity.
      * eapply exec_other_mutex; [exact Hex | right; exists md; reflexivity | | apply Hh; exact Hx].
        eapply holds_m_false_neq; eassumption.
    + destruct (holds_m h m) eqn:Ehm; [| contradiction].
      exists (drop_m h m). split; [exact Hok |].
      intros x Hx. apply in_drop_m in Hx. destruct Hx as [Hin Hne].
      eapply exec_other_mutex; [exact Hex | left; reflexivity | exact Hne | apply Hh; exact Hin].
    + destruct (read_ok h (guard f)); [| contradiction].
      exists h. split; [exact Hok |]. cbn in Hex. inversion Hex; subst. exact Hh.
    + destruct (write_ok h (guard f)); [| contradiction].
      exists h. split; [exact Hok |]. cbn in Hex. inversion Hex; subst. exact Hh.
  - (* another thread *)
    assert (Hne : j <> i) by (intro; subst; rewrite Nat.eqb_refl in Eji; discriminate).
    destruct (Hth j) as [h [Hok Hh]]. exists h. unfold upd_prog; cbn beta. rewrite Eji.
    split; [exact Hok |]. intros x Hx. eapply exec_others; [exact Hex | exact Hne | apply Hh; exact Hx].
Qed.

Lemma inv_reach : forall guard c0 c, inv guard c0 -> reach c0 c -> inv guard c.
Proof.
  intros guard c0 c H0 Hr. induction Hr as [| c c' Hr IH Hst]; [exact H0 |].
  eapply inv_step; [exact IH | exact Hst].
Qed.

(* a thread allowed to write f holds every guard of f for writing, and there is one *)
Lemma write_ok_all : forall h gs, write_ok h gs = true ->
  gs <> [] /\ forall g, In g gs -> In (g, MW) h.
Proof.
  intros h gs H. unfold write_ok in H. destruct gs as [| g0 r]; [discriminate |].
  split; [discriminate |]. intros g Hg. rewrite forallb_forall in H.
  apply holds_w_in. apply H. exact Hg.
Qed.

(* a thread allowed to access f (read or write) holds some guard of f *)
Lemma read_ok_some : forall h gs, read_ok h gs = true -> exists g md, In g gs /\ In (g, md) h.
Proof.
  intros h gs H. unfold read_ok in H. apply existsb_exists in H. destruct H as [g [Hg Hh]].
  apply holds_m_in in Hh. destruct Hh as [md Hin]. exists g, md. split; assumption.
Qed.

Lemma write_ok_some : forall h gs, write_ok h gs = true -> exists g md, In g gs /\ In (g, md) h.
Proof.
  intros h gs H. destruct (write_ok_all h gs H) as [Hne Hall].
  destruct gs as [| g0 r]; [contradiction |]. exists g0, MW. split; [left; reflexivity |].
  apply Hall. left; reflexivity.
Qed.

(* under the invariant: a writer of f excludes every other accessor of f *)
Lemma inv_writer_excludes : forall guard c i j f wj,
  inv guard c -> i <> j ->
  next_access (c_progs c i) = Some (f, true) ->
  next_access (c_progs c j) = Some (f, wj) -> False.
Proof.
  intros guard c i j f wj [Hwf Hth] Hne Hi Hj.
  destruct (Hth i) as [hi [Hoki Hhi]]. destruct (Hth j) as [hj [Hokj Hhj]].
  destruct (c_progs c i) as [| ai ri] eqn:Epi; [discriminate |].
  destruct ai as [? ? | ? | fi | fi]; cbn in Hi; try discriminate. inversion Hi; subst fi; clear Hi.
  cbn in Hoki. destruct (write_ok hi (guard f)) eqn:Ewi; [| contradiction].
  destruct (write_ok_all _ _ Ewi) as [_ Hall].
  assert (Hmj : exists g md, In g (guard f) /\ In (g, md) hj).
  { destruct (c_progs c j) as [| aj rj] eqn:Epj; [discriminate |].
    destruct aj as [? ? | ? | fj | fj]; cbn in Hj; try discriminate; inversion Hj; subst fj; cbn in Hokj.
    - destruct (read_ok hj (guard f)) eqn:Er; [| contradiction]. apply read_ok_some; exact Er.
    - destruct (write_ok hj (guard f)) eqn:Ew; [| contradiction]. apply write_ok_some; exact Ew. }
  destruct Hmj as [g [md [Hg Hin]]].
  pose proof (Hhi _ (Hall g Hg)) as Hwi. unfold actually_holds in Hwi. cbn [fst snd] in Hwi.
  apply Hhj in Hin. unfold actually_holds in Hin. cbn [fst snd] in Hin. destruct md.
  - rewrite (Hwf _ _ Hwi) in Hin. contradiction.
  - rewrite Hwi in Hin. inversion Hin. contradiction.
Qed.

Lemma inv_no_race : forall guard c, inv guard c -> ~ race c.
Proof.
  intros guard c Hinv [i [j [f [wi [wj [Hne [Hi [Hj Hw]]]]]]]].
  destruct wi.
  - eapply inv_writer_excludes; [exact Hinv | exact Hne | exact Hi | exact Hj].
  - cbn in Hw. subst wj.
    eapply inv_writer_excludes; [exact Hinv | intro; apply Hne; symmetry; eassumption | exact Hj | exact Hi].
Qed.

Lemma lockset_race_free : forall guard P,
  (forall i, thread_ok guard (P i) = true) ->
  forall c, reach (init P) c -> ~ race c.
Proof.
  intros guard P H c Hr. eapply inv_no_race. eapply inv_reach; [apply inv_init; exact H | exact Hr].
Qed.

(* ---- from the table to disciplined threads ------------------------------------------ *)
Lemma run_ls_app : forall guard p q h,
  run_ls guard h (p ++ q) =
  match run_ls guard h p with Some h' => run_ls guard h' q | None => None end.
Proof.
  intros guard p q. induction p as [| a r IH]; intro h; [reflexivity |].
  destruct a as [m md | m | f | f]; cbn.
  - destruct (holds_m h m); [reflexivity | apply IH].
  - destruct (holds_m h m); [apply IH | reflexivity].
  - destruct (read_ok h (guard f)); [apply IH | reflexivity].
  - destruct (write_ok h (guard f)); [apply IH | reflexivity].
Qed.

Lemma all_guarded_site : forall guard tbl a,
  all_guarded guard tbl = true -> In a tbl -> relevant tbl a = true -> site_guarded guard a = true.
Proof.
  intros guard tbl a H Hin Hrel. unfold all_guarded in H. rewrite forallb_forall in H.
  specialize (H a Hin). unfold site_ok in H. rewrite Hrel in H. exact H.
Qed.

(* a thread that performs any sequence of relevant table sites, each as its critical section *)
Lemma table_thread_ok : forall guard tbl sites,
  all_guarded guard tbl = true ->
  (forall a, In a sites -> In a tbl /\ relevant tbl a = true) ->
  thread_ok guard (flat_map block_of sites) = true.
Proof.
  intros guard tbl sites H Hs. unfold thread_ok.
  assert (Hrun : run_ls guard [] (flat_map block_of sites) = Some []).
  { induction sites as [| a r IH]; [reflexivity |]. cbn [flat_map]. rewrite run_ls_app.
    destruct (Hs a (or_introl eq_refl)) as [Hin Hrel].
    pose proof (all_guarded_site guard tbl a H Hin Hrel) as Hg. unfold site_guarded in Hg.
    destruct (run_ls guard [] (block_of a)) as [h' |]; [| discriminate].
    destruct h'; [| discriminate]. apply IH. intros b Hb. apply Hs. right; exact Hb. }
  rewrite Hrun. reflexivity.
Qed.

Lemma table_race_free : forall guard tbl (S : tid -> list access),
  all_guarded guard tbl = true ->
  (forall i a, In a (S i) -> In a tbl /\ relevant tbl a = true) ->
  forall c, reach (init (fun i => flat_map block_of (S i))) c -> ~ race c.
Proof.
  intros guard tbl S H HS c Hr. eapply lockset_race_free; [| exact Hr].
  intro i. eapply table_thread_ok; [exact H | intros a Ha; eapply HS; exact Ha].
Qed.

(* the table minus the reported sites is guarded (what unguarded_keys means) *)
Lemma existsb_eqb_in : forall (x : string) l, existsb (String.eqb x) l = true <-> In x l.
Proof.
  intros x l. rewrite existsb_exists. split.
  - intros [y [Hin He]]. apply String.eqb_eq in He. subst. exact Hin.
  - intro Hin. exists x. split; [exact Hin | apply String.eqb_refl].
Qed.

Lemma in_dedup : forall x l, In x l -> In x (dedup l).
Proof.
  intros x l. induction l as [| y r IH]; intro Hin; [exact Hin |].
  cbn. destruct (existsb (String.eqb y) r) eqn:E.
  - destruct Hin as [Hy | Hr]; [| apply IH; exact Hr].
    subst y. apply IH. apply existsb_eqb_in. exact E.
  - destruct Hin as [Hy | Hr]; [left; exact Hy | right; apply IH; exact Hr].
Qed.

Lemma unguarded_keys_complete : forall guard tbl a,
  In a tbl -> site_ok guard tbl a = false -> In (site_key a) (unguarded_keys guard tbl).
Proof.
  intros guard tbl a Hin Hbad. unfold unguarded_keys. apply in_dedup. apply in_map.
  apply filter_In. split; [exact Hin | rewrite Hbad; reflexivity].
Qed.

(* every relevant site whose key is not reported is guarded *)
Lemma unreported_sites_guarded : forall guard tbl a,
  In a tbl -> relevant tbl a = true -> ~ In (site_key a) (unguarded_keys guard tbl) ->
  site_guarded guard a = true.
Proof.
  intros guard tbl a Hin Hrel Hnot.
  destruct (site_ok guard tbl a) eqn:E.
  - unfold site_ok in E. rewrite Hrel in E. exact E.
  - exfalso. apply Hnot. apply unguarded_keys_complete; assumption.
Qed.

(* threads that avoid the reported sites are race free among themselves *)
Lemma table_race_free_except : forall guard tbl (S : tid -> list access),
  (forall i a, In a (S i) -> In a tbl /\ relevant tbl a = true /\
                             ~ In (site_key a) (unguarded_keys guard tbl)) ->
  forall c, reach (init (fun i => flat_map block_of (S i))) c -> ~ race c.
Proof.
  intros guard tbl S HS c Hr. eapply lockset_race_free; [| exact Hr].
  intro i. unfold thread_ok.
  assert (Hrun : run_ls guard [] (flat_map block_of (S i)) = Some []).
  { specialize (HS i). induction (S i) as [| a r IH]; [reflexivity |]. cbn [flat_map]. rewrite run_ls_app.
    destruct (HS a (or_introl eq_refl)) as [Hin [Hrel Hnot]].
    pose proof (unreported_sites_guarded guard tbl a Hin Hrel Hnot) as Hg. unfold site_guarded in Hg.
    destruct (run_ls guard [] (block_of a)) as [h' |]; [| discriminate].
    destruct h'; [| discriminate]. apply IH. intros b Hb. apply HS. right; exact Hb. }
  rewrite Hrun. reflexivity.
Qed.

(* ---- memoisation ---------------------------------------------------------------------- *)
Section MemoFacts.
  Variable truth : key -> val.

  Definition veq (c1 c2 : cache) : Prop := forall k, view truth c1 k = view truth c2 k.

  Lemma view_cset : forall c k v k',
    view truth (cset c k v) k' = if Z.eqb k' k then v else view truth c k'.
  Proof. intros. unfold view, cset. destruct (Z.eqb k' k); reflexivity. Qed.

  Lemma veq_cset : forall c1 c2 k v, veq c1 c2 -> veq (cset c1 k v) (cset c2 k v).
  Proof. intros c1 c2 k v H k'. rewrite !view_cset. destruct (Z.eqb k' k); [reflexivity | apply H]. Qed.

  (* a memoising store leaves the logical content unchanged *)
  Lemma veq_memo : forall c k, veq (cset c k (view truth c k)) c.
  Proof.
    intros c k k'. rewrite view_cset. destruct (Z.eqb k' k) eqn:E; [| reflexivity].
    apply Z.eqb_eq in E. subst. reflexivity.
  Qed.

  Lemma veq_trans : forall a b c, veq a b -> veq b c -> veq a c.
  Proof. intros a b c H1 H2 k. rewrite H1. apply H2. Qed.

  Lemma veq_sym : forall a b, veq a b -> veq b a.
  Proof. intros a b H k. symmetry. apply H. Qed.

  Lemma qfill_memo_veq : forall c k v,
    v = truth k -> veq (fst (mstep truth c (QFill k v))) c.
  Proof.
    intros c k v Hv. cbn. destruct (c k) eqn:E; [intro; reflexivity |].
    subst v. intro k'. rewrite view_cset. destruct (Z.eqb k' k) eqn:Ek; [| reflexivity].
    apply Z.eqb_eq in Ek. subst. unfold view. rewrite E. reflexivity.
  Qed.

  (* executor steps only depend on the logical content *)
  Lemma mstep_exec_veq : forall c1 c2 a,
    is_query a = false -> veq c1 c2 ->
    veq (fst (mstep truth c1 a)) (fst (mstep truth c2 a)) /\
    snd (mstep truth c1 a) = snd (mstep truth c2 a).
  Proof.
    intros c1 c2 a Hq H. destruct a as [k | k v | k v | k v]; cbn in *; try discriminate.
    - rewrite (H k). split; [apply veq_cset; exact H | reflexivity].
    - split; [apply veq_cset; exact H | reflexivity].
  Qed.

  Lemma memo_transparent_gen : forall tr c1 c2,
    memo_only truth tr = true -> veq c1 c2 ->
    snd (mrun truth c1 tr) = snd (mrun truth c2 (erase tr)) /\
    veq (fst (mrun truth c1 tr)) (fst (mrun truth c2 (erase tr))).
  Proof.
    induction tr as [| a r IH]; intros c1 c2 Hm H; [split; [reflexivity | exact H] |].
    cbn in Hm. apply andb_true_iff in Hm. destruct Hm as [Ha Hr].
    destruct (is_query a) eqn:Eq.
    - (* a query store: no output, same logical content; erased on the right *)
      destruct a as [k | k v | k v | k v]; try discriminate. apply Z.eqb_eq in Ha.
      assert (Hv : veq (fst (mstep truth c1 (QFill k v))) c2).
      { eapply veq_trans; [apply qfill_memo_veq; exact Ha | exact H]. }
      cbn [erase filter is_query negb]. change (filter (fun a => negb (is_query a)) r) with (erase r).
      cbn [mrun]. destruct (mstep truth c1 (QFill k v)) as [c1' o1] eqn:Es.
      assert (Ho : o1 = []) by (cbn in Es; inversion Es; reflexivity). subst o1.
      cbn [fst] in Hv. specialize (IH c1' c2 Hr Hv).
      destruct (mrun truth c1' r) as [cA oA]. cbn [fst snd] in *. exact IH.
    - (* an executor action, kept on the right *)
      assert (Hk : erase (a :: r) = a :: erase r) by (unfold erase; cbn; rewrite Eq; reflexivity).
      rewrite Hk. cbn [mrun].
      destruct (mstep_exec_veq c1 c2 a Eq H) as [Hv Ho].
      destruct (mstep truth c1 a) as [c1' o1]. destruct (mstep truth c2 a) as [c2' o2].
      cbn [fst snd] in *. subst o2. specialize (IH c1' c2' Hr Hv).
      destruct (mrun truth c1' r) as [cA oA]. destruct (mrun truth c2' (erase r)) as [cB oB].
      cbn [fst snd] in *. destruct IH as [IHo IHv]. split; [rewrite IHo; reflexivity | exact IHv].
  Qed.

  Lemma memo_transparent : forall tr c,
    memo_only truth tr = true ->
    snd (mrun truth c tr) = snd (mrun truth c (erase tr)) /\
    forall k, view truth (fst (mrun truth c tr)) k = view truth (fst (mrun truth c (erase tr))) k.
  Proof. intros tr c Hm. apply memo_transparent_gen; [exact Hm | intro; reflexivity]. Qed.

  Lemma erase_memo_only : forall tr, memo_only truth (erase tr) = true.
  Proof.
    induction tr as [| a r IH]; [reflexivity |]. unfold erase in *. cbn.
    destruct a as [k | k v | k v | k v]; cbn; exact IH.
  Qed.

  Lemma erase_idem : forall tr, erase (erase tr) = erase tr.
  Proof.
    induction tr as [| a r IH]; [reflexivity |]. unfold erase in *. cbn.
    destruct a as [k | k v | k v | k v]; cbn; try rewrite IH; reflexivity.
  Qed.

  (* two interleavings of the same executor program with any memoising queries agree *)
  Lemma memo_interleaving_independent : forall tr1 tr2 c,
    memo_only truth tr1 = true -> memo_only truth tr2 = true -> erase tr1 = erase tr2 ->
    snd (mrun truth c tr1) = snd (mrun truth c tr2) /\
    forall k, view truth (fst (mrun truth c tr1)) k = view truth (fst (mrun truth c tr2)) k.
  Proof.
    intros tr1 tr2 c H1 H2 He.
    destruct (memo_transparent tr1 c H1) as [Ho1 Hv1].
    destruct (memo_transparent tr2 c H2) as [Ho2 Hv2].
    rewrite He in Ho1, Hv1. split.
    - rewrite Ho1, Ho2. reflexivity.
    - intro k. rewrite Hv1, Hv2. reflexivity.
  Qed.
End MemoFacts.
