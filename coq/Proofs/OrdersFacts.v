(* OrdersFacts.v — the order-crossing trade keeps the reserve product, for ANY value of
   the float/sqrt oracle. *)
From Minter Require Import Base Consts Pool Float Orders PoolFacts.
From Coq Require Import ZArith Lia Bool List.
Import ListNotations.
Open Scope Z_scope.

Definition sumb (fs : list fill) : Z := sum_Z (map fbuy fs).
Definition sums (fs : list fill) : Z := sum_Z (map fsell fs).

Lemma half_oc_1 : half_oc = 1. Proof. reflexivity. Qed.

Lemma ceil_quo_nonneg a d : 0 <= a -> 0 < d ->
  ceil_quo a d * d >= a /\ (ceil_quo a d - 1) * d < a \/ (a = 0 /\ ceil_quo a d = 0).
Proof.
  intros Ha Hd. unfold ceil_quo.
  rewrite Z.quot_div_nonneg, Z.rem_mod_nonneg by lia.
  pose proof (Z.div_mod a d ltac:(lia)) as E. pose proof (Z.mod_pos_bound a d Hd) as Hm.
  set (q := a / d) in *. set (r := a mod d) in *.
  destruct (Z.ltb_spec 0 r).
  - left. split; nia.
  - assert (r = 0) by lia. destruct (Z.eq_dec a 0) as [Ea|Ea].
    + right. split; [exact Ea|]. assert (q = 0) by nia. lia.
    + left. assert (0 < q) by nia. split; nia.
Qed.

Lemma ceil_quo_bounds a d : 0 <= a -> 1 < d -> 0 <= ceil_quo a d <= a.
Proof.
  intros Ha Hd. destruct (ceil_quo_nonneg a d Ha ltac:(lia)) as [[H1 H2]|[-> ->]]; [|lia].
  split; nia.
Qed.

Lemma com1000_bounds a : 0 <= a -> 0 <= com1000 a <= a.
Proof. intros; unfold com1000; rewrite half_oc_1, Z.mul_1_r; apply ceil_quo_bounds; lia. Qed.
Lemma com1001_bounds a : 0 <= a -> 0 <= com1001 a <= a.
Proof. intros; unfold com1001; rewrite half_oc_1; apply ceil_quo_bounds; lia. Qed.
Lemma com0999_nonneg a : 0 <= a -> 0 <= com0999 a.
Proof.
  intros; unfold com0999; rewrite half_oc_1.
  destruct (ceil_quo_nonneg a (1000 - 1) H ltac:(lia)) as [[H1 H2]|[-> ->]]; nia.
Qed.

(* if the input net of the 1/1001 commission exceeds the order's WantBuy, the input covers
   WantBuy plus its 1/1000 commission: the remaining input stays non-negative *)
Lemma full_fill_covers ain b :
  0 <= ain -> 0 < b -> b < ain - com1001 ain -> b + com1000 b <= ain.
Proof.
  intros Ha Hb H. unfold com1001, com1000 in *. rewrite half_oc_1, ?Z.mul_1_r in *.
  destruct (ceil_quo_nonneg ain (1000 + 1) Ha ltac:(lia)) as [[A1 A2]|[-> E]]; [|rewrite E in H; lia].
  destruct (ceil_quo_nonneg b 1000 ltac:(lia) ltac:(lia)) as [[B1 B2]|[-> _]]; [|lia].
  nia.
Qed.

(* the buy side: if the wanted output plus 1/999 exceeds WantSell, the remaining wanted
   output stays non-negative after the full fill *)
Lemma full_fill_covers_buy aout s :
  0 <= aout -> 0 < s -> s < aout + com0999 aout -> s - com1000 s <= aout.
Proof.
  intros Ha Hs H. unfold com0999, com1000 in *. rewrite half_oc_1, ?Z.mul_1_r in *.
  destruct (ceil_quo_nonneg aout (1000 - 1) Ha ltac:(lia)) as [[A1 A2]|[-> E]]; [|rewrite E in H; lia].
  destruct (ceil_quo_nonneg s 1000 ltac:(lia) ltac:(lia)) as [[B1 B2]|[-> _]]; [|lia].
  nia.
Qed.

Lemma sumb_cons f fs : sumb (f :: fs) = fbuy f + sumb fs. Proof. reflexivity. Qed.
Lemma sums_cons f fs : sums (f :: fs) = fsell f + sums fs. Proof. reflexivity. Qed.

Section Loop.
Variable orc : Z -> Z -> Z -> Z -> Z.
Variable rmi rdi : Z -> Z -> Z -> Z.
Hypothesis Hrmi : forall s b a, 0 < s -> 0 < b -> 0 <= a -> 0 <= rmi s b a.
Hypothesis Hrdi : forall s b a, 0 < s -> 0 < b -> 0 <= a -> 0 <= rdi s b a.

(* what a completed calculation means for the pool: the reserves after the trade are
   R0 = r0 + in - (what makers receive), R1 = r1 - out + (what makers give) *)
Definition post_ok (r0 r1 ain out : Z) (fs : list fill) : Prop :=
  let R0 := r0 + ain - sumb fs in
  let R1 := r1 - out + sums fs in
  r0 * r1 <= R0 * R1 /\ r0 <= R0 /\ 0 < R1 /\ 0 <= out.

Lemma bfs_final_inv r0 r1 ain out fs :
  0 < r0 -> 0 < r1 -> 0 <= ain ->
  bfs_final r0 r1 ain = Val (out, fs) -> post_ok r0 r1 ain out fs.
Proof.
  intros H0 H1 Ha. unfold bfs_final, post_ok.
  destruct (calc_buy_for_sell r0 r1 ain) as [d| |] eqn:E; [|intros HH; injection HH as <- <-|discriminate].
  - destruct (_ =? 0); [|discriminate]. intros HH; injection HH as <- <-.
    destruct (buy_for_sell_spec r0 r1 H0 H1 ain d Ha E) as (Hd & Hlt & _ & HK).
    cbn [sumb sums map sum_Z fold_right]. repeat split; try lia; try nia.
  - cbn [sumb sums map sum_Z fold_right]. repeat split; try lia; try nia.
Qed.

Lemma add_amounts_inv r0 r1 l d0 d1 :
  0 < r0 -> 0 < r1 -> add_amounts orc r0 r1 l = Val (d0, d1) ->
  0 < d0 /\ 0 < d1 /\ d1 < r1 /\ r0 * r1 <= (r0 + d0) * (r1 - d1).
Proof.
  intros H0 H1. unfold add_amounts.
  destruct (Z.ltb_spec 0 (orc r0 r1 (obuy l) (osell l))) as [Hp|]; cbn [negb]; [|discriminate].
  destruct (calc_buy_for_sell _ _ _) as [a1| |] eqn:E; [|discriminate|discriminate].
  intros HH; injection HH as <- <-.
  destruct (buy_for_sell_spec r0 r1 H0 H1 (orc r0 r1 (obuy l) (osell l)) a1 (Z.lt_le_incl _ _ Hp) E) as (Hd & Hlt & _ & HK). lia.
Qed.

Lemma bfs_pre_inv r0 r1 ain l r0' r1' ain' d0 d1 :
  0 < r0 -> 0 < r1 -> 0 <= ain ->
  bfs_pre orc r0 r1 ain l = Val (PreGo r0' r1' ain' d0 d1) ->
  r0' = r0 + d0 /\ r1' = r1 - d1 /\ ain' = ain - d0 /\ 0 <= d0 /\ 0 <= d1 /\ 0 < r1' /\
  r0 * r1 <= r0' * r1' /\ 0 <= ain'.
Proof.
  intros H0 H1 Ha. unfold bfs_pre.
  destruct (_ <? _).
  - destruct (add_amounts orc r0 r1 l) as [[e0 e1]| |] eqn:E; [| |discriminate].
    + destruct (add_amounts_inv _ _ _ _ _ H0 H1 E) as (P0 & P1 & P2 & PK).
      destruct (Z.ltb_spec e0 ain); cbn [negb]; [|discriminate].
      destruct (_ =? 0); [|discriminate].
      intros HH; injection HH as <- <- <- <- <-. repeat split; lia.
    + intros HH; injection HH as <- <- <- <- <-. repeat split; lia.
  - intros HH; injection HH as <- <- <- <- <-. repeat split; lia.
Qed.

Lemma bfs_loop_inv : forall book r0 r1 ain out fs,
  0 < r0 -> 0 < r1 -> 0 <= ain ->
  bfs_loop orc rmi r0 r1 ain book = Val (out, fs) -> post_ok r0 r1 ain out fs.
Proof.
  induction book as [|l rest IH]; intros r0 r1 ain out fs H0 H1 Ha; cbn [bfs_loop].
  - destruct (Z.eqb_spec ain 0) as [->|].
    + intros HH; injection HH as <- <-. unfold post_ok; cbn. repeat split; try lia.
    + apply bfs_final_inv; assumption.
  - destruct (Z.eqb_spec ain 0) as [->|Hne].
    + intros HH; injection HH as <- <-. unfold post_ok; cbn. repeat split; try lia.
    + destruct (Z.leb_spec (obuy l) 0) as [|Hb]; cbn [orb]; [discriminate|].
      destruct (Z.leb_spec (osell l) 0) as [|Hs]; [discriminate|].
      destruct (bfs_pre orc r0 r1 ain l) as [[|r0' r1' ain' d0 d1]| |] eqn:Epre; [| |discriminate|discriminate].
      * apply bfs_final_inv; assumption.
      * destruct (bfs_pre_inv _ _ _ _ _ _ _ _ _ H0 H1 Ha Epre) as (-> & -> & -> & Q0 & Q1 & Q2 & QK & Q3).
        destruct (Z.leb_spec (ain - d0 - com1001 (ain - d0)) (obuy l)) as [Hpart|Hfull].
        -- (* partial fill *)
           unfold bfs_partial.
           set (amount0 := ain - d0 - com1001 (ain - d0)).
           set (a1r := rmi (osell l) (obuy l) amount0).
           destruct ((a1r =? osell l) && negb (amount0 =? obuy l)); [discriminate|].
           set (a1' := if osell l <? a1r then if amount0 <? obuy l then osell l - 1 else osell l else a1r).
           set (a1 := if (a1' <? osell l) && (amount0 =? obuy l) then osell l else a1').
           intros HH; injection HH as <- <-.
           pose proof (com1001_bounds (ain - d0) Q3) as C1.
           assert (Ham : 0 <= amount0) by (unfold amount0; lia).
           assert (Ha1r : 0 <= a1r) by (apply Hrmi; lia).
           assert (Ha1' : 0 <= a1').
           { unfold a1'. destruct (_ <? _); [destruct (_ <? _); lia|exact Ha1r]. }
           assert (Ha1 : 0 <= a1).
           { unfold a1. destruct (_ && _); lia. }
           pose proof (com1000_bounds a1 Ha1) as C2.
           unfold post_ok, mkfill. cbn [sumb sums map sum_Z fold_right fbuy fsell].
           fold amount0.
           replace (r0 + ain - (amount0 + 0)) with (r0 + d0 + com1001 (ain - d0)) by (unfold amount0; lia).
           replace (r1 - (d1 + (a1 - com1000 a1)) + (a1 + 0)) with (r1 - d1 + com1000 a1) by lia.
           repeat split; try lia; try nia.
        -- (* full fill, continue with the rest of the book *)
           pose proof (com1000_bounds (obuy l) ltac:(lia)) as CS.
           pose proof (com1000_bounds (osell l) ltac:(lia)) as CB.
           pose proof (full_fill_covers (ain - d0) (obuy l) Q3 Hb Hfull) as Hcov.
           destruct (bfs_loop orc rmi _ _ _ rest) as [[o fs']| |] eqn:Erec; [|discriminate|discriminate].
           intros HH; injection HH as <- <-.
           assert (IH' := fun A B C => IH _ _ _ _ _ A B C Erec).
           specialize (IH' ltac:(lia) ltac:(lia) ltac:(lia)). clear IH. rename IH' into IH.
           unfold post_ok in *. rewrite sumb_cons, sums_cons. cbn [mkfill fbuy fsell].
           destruct IH as (IK & I0 & I1 & I2).
           replace (r0 + ain - (obuy l + sumb fs')) with
               (r0 + d0 + com1000 (obuy l) + (ain - d0 - (obuy l + com1000 (obuy l))) - sumb fs') by lia.
           replace (r1 - (d1 + (osell l - com1000 (osell l)) + o) + (osell l + sums fs')) with
               (r1 - d1 + com1000 (osell l) - o + sums fs') by lia.
           repeat split; try lia.
           assert ((r0 + d0) * (r1 - d1) <= (r0 + d0 + com1000 (obuy l)) * (r1 - d1 + com1000 (osell l))) by nia.
           lia.
Qed.

(* PairV2.SellWithOrders: whatever the oracle answers, a completed trade leaves the
   product of the reserves no smaller and both reserves positive, and pays out less than
   the pool held *)
Lemma sell_with_orders_K dir r0 r1 book a m t :
  0 < r0 -> 0 < r1 ->
  sell_with_orders orc rmi dir r0 r1 book a m = Val t ->
  r0 * r1 <= t_r0 t * t_r1 t /\ r0 <= t_r0 t /\ 0 < t_r1 t /\ 0 < t_out t /\ m <= t_out t.
Proof.
  intros H0 H1. unfold sell_with_orders.
  destruct (Z.ltb_spec 0 a) as [Ha|]; cbn [negb]; [|discriminate].
  destruct (Z.ltb_spec 0 (a - com1000 a)) as [Hain|]; cbn [negb]; [|discriminate].
  destruct (bfs_loop orc rmi r0 r1 (a - com1000 a) book) as [[out fs]| |] eqn:E; [|discriminate|discriminate].
  destruct (Z.ltb_spec 0 out) as [Hout|]; cbn [negb]; [|discriminate].
  unfold calc_diff_pool.
  destruct (apply_fills dir fs book) as [book' refunds].
  destruct (Z.ltb_spec out m); [discriminate|].
  intros HH; injection HH as <-. cbn [t_r0 t_r1 t_out].
  pose proof (bfs_loop_inv book r0 r1 (a - com1000 a) out fs H0 H1 (Z.lt_le_incl _ _ Hain) E) as (PK & P0 & P1 & P2).
  fold (sumb fs) (sums fs).
  set (c0 := sum_Z (map (fun f => com1000 (fbuy f)) fs)).
  set (c1 := sum_Z (map (fun f => com1000 (fsell f)) fs)).
  replace (r0 + (a - com1000 a - (sumb fs + c0)) + c0) with (r0 + (a - com1000 a) - sumb fs) by lia.
  replace (r1 - (out - (sums fs - c1)) + c1) with (r1 - out + sums fs) by lia.
  repeat split; lia.
Qed.

(* ---- the buy side ---------------------------------------------------------------- *)
Definition post_ok_buy (r0 r1 i aout : Z) (fs : list fill) : Prop :=
  let R0 := r0 + i - sumb fs in
  let R1 := r1 - aout + sums fs in
  r0 * r1 <= R0 * R1 /\ r0 <= R0 /\ 0 < R1 /\ 0 <= i.

Lemma sell_for_buy_nil r0 r1 aout :
  0 < r0 -> 0 < r1 -> calc_sell_for_buy r0 r1 aout = Nil -> r1 <= aout.
Proof.
  intros H0 H1. unfold calc_sell_for_buy.
  destruct (Z.ltb_spec r1 aout); [lia|].
  destruct (Z.ltb_spec aout r1); cbn [negb]; [|lia].
  rewrite quo_val by lia. cbn [obind]. rewrite quo_val by (unfold swap_commission; lia). discriminate.
Qed.

Lemma sfb_final_inv r0 r1 aout i fs :
  0 < r0 -> 0 < r1 -> 0 < aout ->
  sfb_final r0 r1 aout = Val (i, fs) -> post_ok_buy r0 r1 i aout fs.
Proof.
  intros H0 H1 Ha. unfold sfb_final, post_ok_buy.
  destruct (calc_sell_for_buy r0 r1 aout) as [d| |] eqn:E; [| |discriminate].
  - destruct (_ =? 0); [|discriminate]. intros HH; injection HH as <- <-.
    destruct (sell_for_buy_spec r0 r1 H0 H1 aout d Ha E) as (Hlt & Hd & _ & HK).
    cbn [sumb sums map sum_Z fold_right]. repeat split; try lia; try nia.
  - pose proof (sell_for_buy_nil r0 r1 aout H0 H1 E).
    destruct (Z.ltb_spec r0 1); cbn [orb]; [discriminate|].
    destruct (Z.ltb_spec (r1 - aout) 1); [discriminate|lia].
Qed.

Lemma sfb_pre_inv r0 r1 aout l r0' r1' aout' d0 d1 :
  0 < r0 -> 0 < r1 -> 0 <= aout ->
  sfb_pre orc r0 r1 aout l = Val (PreGo r0' r1' aout' d0 d1) ->
  r0' = r0 + d0 /\ r1' = r1 - d1 /\ aout' = aout - d1 /\ 0 <= d0 /\ 0 <= d1 /\ 0 < r1' /\
  r0 * r1 <= r0' * r1' /\ 0 <= aout'.
Proof.
  intros H0 H1 Ha. unfold sfb_pre.
  destruct (_ <? _).
  - destruct (add_amounts orc r0 r1 l) as [[e0 e1]| |] eqn:E; [| |discriminate].
    + destruct (add_amounts_inv _ _ _ _ _ H0 H1 E) as (P0 & P1 & P2 & PK).
      destruct (Z.ltb_spec e1 aout); cbn [negb]; [|discriminate].
      destruct (_ =? 0); [|discriminate].
      intros HH; injection HH as <- <- <- <- <-. repeat split; lia.
    + intros HH; injection HH as <- <- <- <- <-. repeat split; lia.
  - intros HH; injection HH as <- <- <- <- <-. repeat split; lia.
Qed.

Lemma sfb_loop_inv : forall book r0 r1 aout i fs,
  0 < r0 -> 0 < r1 -> 0 <= aout ->
  sfb_loop orc rdi r0 r1 aout book = Val (i, fs) -> post_ok_buy r0 r1 i aout fs.
Proof.
  induction book as [|l rest IH]; intros r0 r1 aout i fs H0 H1 Ha; cbn [sfb_loop].
  - destruct (Z.eqb_spec aout 0) as [->|].
    + intros HH; injection HH as <- <-. unfold post_ok_buy; cbn. repeat split; try lia.
    + apply sfb_final_inv; try assumption; lia.
  - destruct (Z.eqb_spec aout 0) as [->|Hne].
    + intros HH; injection HH as <- <-. unfold post_ok_buy; cbn. repeat split; try lia.
    + destruct (Z.leb_spec (obuy l) 0) as [|Hb]; cbn [orb]; [discriminate|].
      destruct (Z.leb_spec (osell l) 0) as [|Hs]; [discriminate|].
      destruct (sfb_pre orc r0 r1 aout l) as [[|r0' r1' aout' d0 d1]| |] eqn:Epre; [| |discriminate|discriminate].
      * apply sfb_final_inv; try assumption; lia.
      * destruct (sfb_pre_inv _ _ _ _ _ _ _ _ _ H0 H1 Ha Epre) as (-> & -> & -> & Q0 & Q1 & Q2 & QK & Q3).
        destruct (Z.leb_spec (aout - d1 + com0999 (aout - d1)) (osell l)) as [Hpart|Hfull].
        -- unfold sfb_partial.
           set (amount1 := aout - d1 + com0999 (aout - d1)).
           assert (Eam : amount1 = aout - d1 + com0999 (aout - d1)) by reflexivity.
           clearbody amount1.
           set (a0r := rdi (osell l) (obuy l) amount1).
           destruct ((amount1 =? osell l) && negb (a0r =? obuy l) && negb (a0r <? obuy l)); [discriminate|].
           set (a0 := if (amount1 =? osell l) && negb (a0r =? obuy l) then obuy l else a0r).
           set (amount1' := if (amount1 <? osell l) && (a0 =? obuy l) then osell l else amount1).
           intros HH; injection HH as <- <-.
           pose proof (com0999_nonneg (aout - d1) Q3) as C1.
           assert (Ham : 0 <= amount1) by lia.
           assert (Ha0r : 0 <= a0r) by (apply Hrdi; lia).
           assert (Ha0 : 0 <= a0) by (unfold a0; destruct (_ && _); lia).
           assert (Ham' : amount1 <= amount1').
           { unfold amount1'. destruct (Z.ltb_spec amount1 (osell l)); cbn [andb]; [destruct (a0 =? obuy l); lia|lia]. }
           pose proof (com1000_bounds a0 Ha0) as C2.
           unfold post_ok_buy, mkfill. cbn [sumb sums map sum_Z fold_right fbuy fsell].
           replace (r0 + (d0 + (a0 + com1000 a0)) - (a0 + 0)) with (r0 + d0 + com1000 a0) by lia.
           assert (r1 - d1 <= r1 - aout + (amount1' + 0)) by lia.
           repeat split; try lia; try nia.
        -- pose proof (com1000_bounds (obuy l) ltac:(lia)) as CS.
           pose proof (com1000_bounds (osell l) ltac:(lia)) as CB.
           pose proof (full_fill_covers_buy (aout - d1) (osell l) Q3 Hs Hfull) as Hcov.
           destruct (sfb_loop orc rdi _ _ _ rest) as [[i' fs']| |] eqn:Erec; [|discriminate|discriminate].
           intros HH; injection HH as <- <-.
           assert (IH' := fun A B C => IH _ _ _ _ _ A B C Erec).
           specialize (IH' ltac:(lia) ltac:(lia) ltac:(lia)). clear IH. rename IH' into IH.
           unfold post_ok_buy in *. rewrite sumb_cons, sums_cons. cbn [mkfill fbuy fsell].
           destruct IH as (IK & I0 & I1 & I2).
           replace (r0 + (d0 + (obuy l + com1000 (obuy l)) + i') - (obuy l + sumb fs')) with
               (r0 + d0 + com1000 (obuy l) + i' - sumb fs') by lia.
           replace (r1 - aout + (osell l + sums fs')) with
               (r1 - d1 + com1000 (osell l) - (aout - d1 - (osell l - com1000 (osell l))) + sums fs') by lia.
           repeat split; try lia.
           assert ((r0 + d0) * (r1 - d1) <= (r0 + d0 + com1000 (obuy l)) * (r1 - d1 + com1000 (osell l))) by nia.
           lia.
Qed.

Lemma buy_with_orders_K dir r0 r1 book m o t :
  0 < r0 -> 0 < r1 ->
  buy_with_orders orc rdi dir r0 r1 book m o = Val t ->
  r0 * r1 <= t_r0 t * t_r1 t /\ r0 <= t_r0 t /\ 0 < t_r1 t /\ t_out t = o /\ 0 < t_in t.
Proof.
  intros H0 H1. unfold buy_with_orders.
  destruct (Z.ltb_spec 0 o) as [Ho|]; cbn [negb]; [|discriminate].
  destruct (sfb_loop orc rdi r0 r1 o book) as [[i fs]| |] eqn:E; [|discriminate|discriminate].
  destruct (Z.ltb_spec 0 i) as [Hi|]; cbn [negb]; [|discriminate].
  unfold calc_diff_pool.
  destruct (apply_fills dir fs book) as [book' refunds].
  destruct (Z.ltb_spec m o); [discriminate|].
  intros HH; injection HH as <-. cbn [t_r0 t_r1 t_out t_in].
  pose proof (sfb_loop_inv book r0 r1 o i fs H0 H1 (Z.lt_le_incl _ _ Ho) E) as (PK & P0 & P1 & P2).
  fold (sumb fs) (sums fs).
  set (c0 := sum_Z (map (fun f => com1000 (fbuy f)) fs)).
  set (c1 := sum_Z (map (fun f => com1000 (fsell f)) fs)).
  replace (r0 + (i - (sumb fs + c0)) + c0) with (r0 + i - sumb fs) by lia.
  replace (r1 - (o - (sums fs - c1)) + c1) with (r1 - o + sums fs) by lia.
  pose proof (com0999_nonneg i ltac:(lia)).
  repeat split; lia.
Qed.

End Loop.
