(* ScheduleBlock.v — block-level facts of Model/Schedule.v (C16): the byzantine loop, the maturity
   loop, candidate removal, the environment steps. *)
From Minter Require Import Base Consts Schedule ScheduleFacts ScheduleSteps.
From Minter Require Punish Ledger LedgerFacts.
From Coq Require Import ZArith List Bool Lia ZifyBool.
Import ListNotations.
Open Scope Z_scope.

(* the same fund up to its value (a byzantine slash lowers the value, nothing else) *)
Definition same_fund (f f' : fund) : Prop :=
  f_due f' = f_due f /\ f_owner f' = f_owner f /\ f_cand f' = f_cand f /\ f_coin f' = f_coin f /\ f_move f' = f_move f.

Lemma same_fund_refl f : same_fund f f.
Proof. repeat split. Qed.
Lemma same_fund_trans f g k : same_fund f g -> same_fund g k -> same_fund f k.
Proof. unfold same_fund. intros (A1 & A2 & A3 & A4 & A5) (B1 & B2 & B3 & B4 & B5). repeat split; congruence. Qed.

Lemma punish_fund_same a b cid f : same_fund f (Punish.punish_fund a b cid (f, 0)).
Proof. unfold Punish.punish_fund. destruct (Punish.fund_hit a b cid f); repeat split. Qed.

(* everything but the stake slots and the frozen funds *)
Definition static (s s' : st) : Prop :=
  s_height s' = s_height s /\ s_bal s' = s_bal s /\ s_coins s' = s_coins s /\ s_cands s' = s_cands s /\
  s_deleted s' = s_deleted s /\ s_updates s' = s_updates s /\ s_wait s' = s_wait s /\ s_lock s' = s_lock s.

Lemma static_refl s : static s s.
Proof. repeat split. Qed.
Lemma static_trans a b c : static a b -> static b c -> static a c.
Proof.
  unfold static. intros (A1 & A2 & A3 & A4 & A5 & A6 & A7 & A8) (B1 & B2 & B3 & B4 & B5 & B6 & B7 & B8).
  repeat split; congruence.
Qed.

(* ---- the byzantine loop ------------------------------------------------------------------------------ *)
Lemma Forall2_map_r {A B} (R : A -> B -> Prop) (g : A -> B) l : (forall x, R x (g x)) -> Forall2 R l (map g l).
Proof. intros H. induction l; constructor; auto. Qed.

Lemma byz_one_spec P h s ev :
  static s (byz_one P h s ev) /\
  exists l1 new, s_frozen (byz_one P h s ev) = l1 ++ new /\ Forall2 same_fund (s_frozen s) l1 /\
                 Forall (fun f => f_due f = h + p_unbond P /\ f_move f = 0) new.
Proof.
  destruct ev as [[cid online] isval]. unfold byz_one.
  destruct (negb (cand_exists s cid && online && isval)).
  - split; [apply static_refl|]. exists (s_frozen s), []. rewrite app_nil_r.
    split; [reflexivity|]. split; [|constructor].
    clear. induction (s_frozen s); constructor; [apply same_fund_refl|assumption].
  - split; [repeat split|]. eexists _, _. cbn [s_frozen set_frozen]. split; [reflexivity|].
    split; [apply Forall2_map_r; intros f; apply punish_fund_same|].
    apply Forall_forall. intros f Hin. apply in_map_iff in Hin. destruct Hin as (e & <- & _). split; reflexivity.
Qed.

Lemma Forall2_same_trans l1 l2 l3 : Forall2 same_fund l1 l2 -> Forall2 same_fund l2 l3 -> Forall2 same_fund l1 l3.
Proof.
  intros H. revert l3. induction H as [|x y l1 l2 Hxy _ IH]; intros l3 H3; inversion H3; subst; constructor.
  - eapply same_fund_trans; eassumption.
  - apply IH. assumption.
Qed.

Lemma byz_all_spec P h : forall evid s,
  static s (byz_all P h s evid) /\
  exists l1 new, s_frozen (byz_all P h s evid) = l1 ++ new /\ Forall2 same_fund (s_frozen s) l1 /\
                 Forall (fun f => f_due f = h + p_unbond P /\ f_move f = 0) new.
Proof.
  induction evid as [|ev evid IH]; intros s.
  - split; [apply static_refl|]. exists (s_frozen s), []. cbn [byz_all fold_left]. rewrite app_nil_r.
    split; [reflexivity|]. split; [|constructor].
    induction (s_frozen s); constructor; [apply same_fund_refl|assumption].
  - unfold byz_all. cbn [fold_left]. fold (byz_all P h (byz_one P h s ev) evid).
    destruct (byz_one_spec P h s ev) as (Hst1 & la & na & Hf1 & Hsame1 & Hnew1).
    destruct (IH (byz_one P h s ev)) as (Hst2 & lb & nb & Hf2 & Hsame2 & Hnew2).
    split; [eapply static_trans; eassumption|].
    rewrite Hf1 in Hsame2. apply Forall2_app_inv_l in Hsame2. destruct Hsame2 as (lb1 & lb2 & Hs1 & Hs2 & ->).
    exists lb1, (lb2 ++ nb). split; [rewrite Hf2, app_assoc; reflexivity|].
    split; [eapply Forall2_same_trans; eassumption|].
    apply Forall_app. split; [|exact Hnew2].
    clear - Hnew1 Hs2. induction Hs2 as [|x y l l' Hxy _ IH]; [constructor|].
    inversion Hnew1 as [|? ? [Hd Hm] Hr]; subst. constructor; [|apply IH, Hr].
    destruct Hxy as (E1 & _ & _ & _ & E5). split; congruence.
Qed.

(* one piece of evidence that applies: the candidate's stake slots become funds of 95 % due one
   unbond period later, its frozen funds in [h, h + unbond] keep 95 %, everything else is untouched *)
Lemma byzantine_creates_funds P h s cid :
  cand_exists s cid = true ->
  let s' := byz_one P h s (cid, true, true) in
  s_frozen s' = map (fun f => Punish.punish_fund h (h + p_unbond P) cid (f, 0)) (s_frozen s) ++
                map (fun e => mkfund (h + p_unbond P) (e_owner e) cid (e_coin e) (e_value e * 95 / 100) 0)
                    (filter (of_cand cid) (s_stakes s)) /\
  s_stakes s' = map (fun e => if of_cand cid e then set_value e 0 else e) (s_stakes s) /\
  static s s'.
Proof.
  intros Hex. unfold byz_one. rewrite Hex. cbn [andb negb]. cbn zeta. cbn [s_frozen s_stakes set_frozen set_stakes].
  split; [reflexivity|]. split; [reflexivity|repeat split].
Qed.

(* ---- the maturity loop ------------------------------------------------------------------------------------ *)
Definition credit (m : list fund) (a c : Z) : Z :=
  sum_Z (map (fun f => if (f_move f =? 0) && (f_owner f =? a) && (f_coin f =? c) then f_value f else 0) m).
Definition arrival (f : fund) : entry :=
  {| e_cand := f_move f; e_owner := f_owner f; e_coin := f_coin f; e_value := f_value f |}.
(* a matured move whose target is in the list arrives; one whose target was removed bounces *)
Definition arrives (s : st) (f : fund) : bool := negb (f_move f =? 0) && cand_exists s (f_move f).
Definition bounces (s : st) (f : fund) : bool := negb (f_move f =? 0) && negb (cand_exists s (f_move f)).
Definition arrivals (s : st) (m : list fund) : list entry := map arrival (filter (arrives s) m).
Definition bounced (P : periods) (h : Z) (s : st) (m : list fund) : list fund := map (bounce_fund P h) (filter (bounces s) m).

Lemma cand_exists_cands s s' c : s_cands s' = s_cands s -> cand_exists s' c = cand_exists s c.
Proof. unfold cand_exists. intros ->. reflexivity. Qed.

Lemma filter_cands_ext s s' (m : list fund) : s_cands s' = s_cands s ->
  filter (arrives s') m = filter (arrives s) m /\ filter (bounces s') m = filter (bounces s) m.
Proof.
  intros H. split; apply filter_ext; intros f; unfold arrives, bounces; rewrite (cand_exists_cands _ _ _ H); reflexivity.
Qed.

Lemma mature_all_spec P h : forall m s, let s' := mature_all P h s m in
  (forall a c, bal s' a c = bal s a c + credit m a c) /\
  s_updates s' = s_updates s ++ arrivals s m /\
  s_frozen s' = s_frozen s ++ bounced P h s m /\
  s_stakes s' = s_stakes s /\ s_wait s' = s_wait s /\ s_cands s' = s_cands s /\
  s_deleted s' = s_deleted s /\ s_height s' = s_height s /\ s_lock s' = s_lock s /\ s_coins s' = s_coins s.
Proof.
  induction m as [|f m IH]; intros s; cbn zeta.
  - unfold mature_all, credit, arrivals, bounced. cbn. rewrite !app_nil_r. repeat split. intros; lia.
  - unfold mature_all. cbn [fold_left]. fold (mature_all P h (mature_one P h s f) m).
    specialize (IH (mature_one P h s f)). cbn zeta in IH.
    destruct IH as (Hb & Hu & Hfz & Hs & Hw & Hcs & Hd & Hh & Hl & Hco).
    assert (Hc1 : s_cands (mature_one P h s f) = s_cands s)
      by (unfold mature_one; destruct (f_move f =? 0); [reflexivity|destruct (cand_exists s (f_move f)); reflexivity]).
    destruct (filter_cands_ext _ _ m Hc1) as [Fa Fb].
    unfold arrivals, bounced in *. rewrite Fa in Hu. rewrite Fb in Hfz.
    rewrite Hu, Hfz, Hs, Hw, Hcs, Hd, Hh, Hl, Hco. clear Hu Hfz Hs Hw Hcs Hd Hh Hl Hco.
    split.
    { intros a c. rewrite Hb. unfold credit. cbn [map]. rewrite LedgerFacts.sumZ_cons. unfold mature_one.
      destruct (f_move f =? 0) eqn:Em; cbn [andb].
      - unfold bal. cbn [apply_eff s_bal set_bal]. rewrite LedgerFacts.get_bal_add_bal. unfold LedgerFacts.hit. lia.
      - destruct (cand_exists s (f_move f)); unfold bal; cbn [apply_eff s_bal set_updates set_frozen]; lia. }
    unfold mature_one. cbn [filter]. unfold arrives, bounces.
    destruct (f_move f =? 0) eqn:Em; cbn [negb andb]; [repeat split|].
    destruct (cand_exists s (f_move f)) eqn:Ex; cbn [negb map].
    + split; [cbn [apply_eff s_updates set_updates]; rewrite <- app_assoc; reflexivity|]. repeat split.
    + split; [reflexivity|]. split; [cbn [apply_eff s_frozen set_frozen]; rewrite <- app_assoc; reflexivity|]. repeat split.
Qed.

(* ---- BeginBlock --------------------------------------------------------------------------------------------- *)
Lemma begin_block_spec P s h evid :
  let s1 := byz_all P h (set_height s h) evid in
  let m := filter (due_at h) (s_frozen s1) in
  exists s', begin_block P s h evid = (s', OBegin m) /\
  s_frozen s' = filter (fun f => negb (due_at h f)) (s_frozen s1) ++ bounced P h s m /\
  s_height s' = h /\
  (forall a c, bal s' a c = bal s a c + credit m a c) /\
  s_updates s' = s_updates s ++ arrivals s m /\
  s_stakes s' = s_stakes s1 /\ s_wait s' = s_wait s /\ s_cands s' = s_cands s /\ s_deleted s' = s_deleted s /\
  s_lock s' = s_lock s /\ s_coins s' = s_coins s.
Proof.
  cbn zeta. unfold begin_block. cbn zeta. set (s1 := byz_all P h (set_height s h) evid).
  set (m := filter (due_at h) (s_frozen s1)).
  set (s0 := set_frozen s1 (filter (fun f => negb (due_at h f)) (s_frozen s1))).
  eexists. split; [reflexivity|].
  destruct (mature_all_spec P h m s0) as (Hb & Hu & Hfz & Hs & Hw & Hcs & Hd & Hh & Hl & Hco).
  destruct (byz_all_spec P h evid (set_height s h)) as ((S1 & S2 & S3 & S4 & S5 & S6 & S7 & S8) & _).
  fold s1 in S1, S2, S3, S4, S5, S6, S7, S8. cbn [set_height s_height s_bal s_coins s_cands s_deleted s_updates s_wait s_lock] in *.
  assert (Hc0 : s_cands s0 = s_cands s) by exact S4.
  destruct (filter_cands_ext _ _ m Hc0) as [Fa Fb]. unfold arrivals, bounced in *. rewrite Fa in Hu. rewrite Fb in Hfz.
  split; [rewrite Hfz; reflexivity|]. split; [rewrite Hh; exact S1|].
  split. { intros a c. rewrite Hb. unfold bal. cbn [s0 s_bal set_frozen]. rewrite S2. reflexivity. }
  split; [rewrite Hu; cbn [s0 s_updates set_frozen]; rewrite S6; reflexivity|].
  split; [rewrite Hs; reflexivity|]. split; [rewrite Hw; exact S7|]. split; [rewrite Hcs; exact S4|].
  split; [rewrite Hd; exact S5|]. split; [rewrite Hl; exact S8|rewrite Hco; exact S3].
Qed.

(* BeginBlock never panics *)
Lemma begin_block_out P s h evid : exists s' m, begin_block P s h evid = (s', OBegin m).
Proof. eexists _, _. reflexivity. Qed.

(* ---- candidate removal ------------------------------------------------------------------------------------------ *)
Lemma esum_filter_out l cid o k : esum (filter (fun e => negb (of_cand cid e)) l) cid o k = 0.
Proof.
  induction l as [|e l IH]; [reflexivity|]. cbn [filter]. unfold of_cand at 1.
  destruct (e_cand e =? cid) eqn:E; cbn [negb]; [exact IH|].
  rewrite esum_cons, IH. unfold ekey. rewrite E. reflexivity.
Qed.

Lemma esum_filter_other l cid c o k : c <> cid -> esum (filter (fun e => negb (of_cand cid e)) l) c o k = esum l c o k.
Proof.
  intros Hne. induction l as [|e l IH]; [reflexivity|]. cbn [filter]. unfold of_cand at 1.
  destruct (e_cand e =? cid) eqn:E; cbn [negb].
  - rewrite esum_cons, IH. unfold ekey. replace (e_cand e =? c) with false by lia. reflexivity.
  - rewrite !esum_cons, IH. reflexivity.
Qed.

Lemma removal_creates_funds P s cid s' x :
  cand_exists s cid = true -> step P s (OpRemove cid false) = (s', x) ->
  let leaving := filter (of_cand cid) (s_stakes s) ++ filter (of_cand cid) (s_updates s) in
  let created := map (fun e => mkfund (s_height s + p_unbond P) (e_owner e) cid (e_coin e) (e_value e) 0) leaving in
  x = ORemove created /\ s_frozen s' = s_frozen s ++ created /\
  (forall o k, esum (s_stakes s') cid o k = 0 /\ esum (s_updates s') cid o k = 0) /\
  (forall c o k, c <> cid -> esum (s_stakes s') c o k = esum (s_stakes s) c o k /\ esum (s_updates s') c o k = esum (s_updates s) c o k) /\
  cand_exists s' cid = false /\ cand_id s' cid = cid /\
  s_wait s' = s_wait s /\ s_bal s' = s_bal s /\ s_height s' = s_height s /\ s_lock s' = s_lock s.
Proof.
  intros Hex. cbn [step]. unfold remove_candidate. rewrite Hex. cbn [orb negb]. intros H. injection H as <- <-.
  cbn zeta. unfold removal_funds, removal_fund. rewrite <- map_app.
  cbn [s_frozen s_stakes s_updates s_wait s_bal s_height s_lock set_frozen set_cands set_updates set_stakes].
  split; [reflexivity|]. split; [reflexivity|].
  split; [intros o k; split; apply esum_filter_out|].
  split; [intros c o k Hne; split; apply esum_filter_other; exact Hne|].
  destruct (cand_exists_id _ _ Hex) as [_ Hpos].
  split. { unfold cand_exists. cbn [s_cands set_frozen set_cands]. unfold mem.
           replace (existsb (Z.eqb cid) (filter (fun c => negb (c =? cid)) (s_cands s))) with false; [apply andb_false_r|].
           symmetry. apply not_true_is_false. intros Hx. apply existsb_exists in Hx. destruct Hx as (y & Hin & Hy).
           apply filter_In in Hin. lia. }
  split. { unfold cand_id. cbn [s_cands s_deleted set_frozen set_cands]. unfold mem at 2. cbn [existsb]. rewrite Z.eqb_refl.
           replace (0 <? cid) with true by lia. rewrite orb_true_r. reflexivity. }
  repeat split.
Qed.

(* a validator is never removed *)
Lemma removal_keeps_validator P s cid : step P s (OpRemove cid true) = (s, ORemove []).
Proof. reflexivity. Qed.

(* ---- the environment never touches the frozen funds ------------------------------------------------------- *)
Lemma apply_env_frame s e : s_frozen (apply_env s e) = s_frozen s /\ s_height (apply_env s e) = s_height s.
Proof.
  destruct e as [a c v|cand ss|cand us|c o k v|c status|c|a u]; cbn [apply_env]; try (split; reflexivity).
  destruct (status =? 1); [split; reflexivity|]. destruct (status =? 2); split; reflexivity.
Qed.

Lemma apply_env_wait_nodup s e : entries_nodup (s_wait s) -> entries_nodup (s_wait (apply_env s e)).
Proof.
  intros H. destruct e as [a c v|cand ss|cand us|c o k v|c status|c|a u]; cbn [apply_env]; try exact H.
  - destruct v; cbn [s_wait set_wait]; [apply nodup_eadd_edel, H|apply nodup_edel, H].
  - destruct (status =? 1); [exact H|]. destruct (status =? 2); exact H.
Qed.

