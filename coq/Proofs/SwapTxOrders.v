(* SwapTxOrders.v — the pool trades of Model/SwapTx.v (no limit orders) are the order-crossing
   trades of Model/Orders.v on an empty book, for any value of the float / sqrt oracles. *)
From Minter Require Import Base Consts Pool Float Orders SwapTx SwapTxBook.
From Coq Require Import ZArith List Bool Lia.
Import ListNotations.
Open Scope Z_scope.

Section Tie.
Variable orc : Z -> Z -> Z -> Z -> Z.
Variables rmi rdi : Z -> Z -> Z -> Z.

Lemma bfs_core_empty_book r0 r1 a :
  bfs_loop orc rmi r0 r1 a [] = match bfs_core r0 r1 a with Val o => Val (o, []) | Nil => Nil | Panic s => Panic s end.
Proof.
  unfold bfs_core. cbn [bfs_loop]. destruct (a =? 0); [reflexivity|]. unfold bfs_final.
  destruct (calc_buy_for_sell r0 r1 a); try reflexivity. destruct (check_swap r0 r1 a 0 0 a0 =? 0); reflexivity.
Qed.

Lemma sfb_core_empty_book r0 r1 out :
  sfb_loop orc rdi r0 r1 out [] = match sfb_core r0 r1 out with Val i => Val (i, []) | Nil => Nil | Panic s => Panic s end.
Proof.
  unfold sfb_core. cbn [sfb_loop]. destruct (out =? 0); [reflexivity|]. unfold sfb_final.
  destruct (calc_sell_for_buy r0 r1 out); try reflexivity.
  - destruct (check_swap r0 r1 a 0 0 out =? 0); reflexivity.
  - destruct ((r0 <? 1) || (r1 - out <? 1)); reflexivity.
Qed.

(* PairSellWithOrders on an empty book: same outcome; what the taker pays and receives, the
   new reserves and the burned commission are those of sell_wo *)
Lemma sell_wo_empty_book dir r0 r1 a m :
  match sell_with_orders orc rmi dir r0 r1 [] a m, sell_wo r0 r1 a m with
  | Val t, Val (d0, out) => t_in t = a /\ t_out t = out /\ t_r0 t = r0 + d0 /\ t_r1 t = r1 - out /\ t_fills t = [] /\ t_burn t = com1000 a
  | Panic s, Panic s' => s = s'
  | _, _ => False
  end.
Proof.
  unfold sell_with_orders, sell_wo.
  destruct (negb (0 <? a)); [reflexivity|].
  destruct (negb (0 <? a - com1000 a)); [reflexivity|].
  rewrite bfs_core_empty_book.
  destruct (bfs_core r0 r1 (a - com1000 a)) as [o| |s]; try reflexivity.
  destruct (negb (0 <? o)); [reflexivity|].
  unfold calc_diff_pool. cbn [map sum_Z fold_right apply_fills].
  destruct (o <? m); [reflexivity|]. cbn [t_in t_out t_r0 t_r1 t_fills t_burn]. repeat split; lia.
Qed.

Lemma buy_wo_empty_book dir r0 r1 mx out :
  match buy_with_orders orc rdi dir r0 r1 [] mx out, buy_wo r0 r1 mx out with
  | Val t, Val (d0, ain) => t_in t = ain /\ t_out t = out /\ t_r0 t = r0 + d0 /\ t_r1 t = r1 - out /\ t_fills t = [] /\ t_burn t = com1000 ain
  | Panic s, Panic s' => s = s'
  | _, _ => False
  end.
Proof.
  unfold buy_with_orders, buy_wo.
  destruct (negb (0 <? out)); [reflexivity|].
  rewrite sfb_core_empty_book.
  destruct (sfb_core r0 r1 out) as [i| |s]; try reflexivity.
  destruct (negb (0 <? i)); [reflexivity|].
  unfold calc_diff_pool. cbn [map sum_Z fold_right apply_fills].
  destruct (mx <? out); [reflexivity|]. cbn [t_in t_out t_r0 t_r1 t_fills t_burn]. repeat split; lia.
Qed.

End Tie.

(* ---- with limit orders: the single hop gas coin -> base coin of Model/SwapTxBook.v ------------------------- *)
(* AddLastSwapStepWithOrders(commission, commissionInBaseCoin, false) leaves the check phase with
   exactly the reserves and the order book that PairSellWithOrders of the commission leaves the
   deliver phase with; the amount compared with MinimumValueToBuy is therefore the amount credited *)
Lemma book_simulate_is_delivery dir r0 r1 book commission t1 :
  sell_with_orders_x dir r0 r1 book commission 0 = Val t1 ->
  book_simulate dir r0 r1 book commission = Val (t_r0 t1, t_r1 t1, t_book t1, t_out t1).
Proof.
  unfold sell_with_orders_x, sell_with_orders, book_simulate, bfs_loop_x.
  destruct (Z.ltb_spec 0 commission) as [Hc|]; cbn [negb]; [|discriminate].
  destruct (negb (0 <? commission - com1000 commission)); [discriminate|].
  unfold sub1000. destruct (Z.ltb_spec 0 commission); [|lia].
  destruct (bfs_loop oracle_float rat_mul_int r0 r1 (commission - com1000 commission) book) as [[out fs]| |]; try discriminate.
  destruct (negb (0 <? out)); [discriminate|].
  destruct (calc_diff_pool (commission - com1000 commission) out fs) as [[[c0 c1] a0] a1].
  destruct (apply_fills dir fs book) as [book' refunds].
  destruct (out <? 0); [discriminate|]. intros HH. injection HH as <-. reflexivity.
Qed.

Theorem sell_single_book_exact dir r0 r1 book price value simulated delivered :
  sell_single_book dir r0 r1 book price value = Val (simulated, delivered) -> simulated = delivered.
Proof.
  unfold sell_single_book.
  destruct (book_commission dir r0 r1 book price) as [commission| |]; cbn [obind]; try discriminate.
  destruct (book_simulate dir r0 r1 book commission) as [[[[s0 s1] sbook] cib]| |] eqn:Esim; cbn [obind]; try discriminate.
  destruct (bfs_loop_x s0 s1 (sub1000 value) sbook) as [[sim fs]| |] eqn:Eb; try discriminate.
  destruct (sell_with_orders_x dir r0 r1 book commission 0) as [t1| |] eqn:E1; cbn [obind]; try discriminate.
  rewrite (book_simulate_is_delivery _ _ _ _ _ _ E1) in Esim. injection Esim as <- <- <- <-.
  destruct (sell_with_orders_x dir (t_r0 t1) (t_r1 t1) (t_book t1) value 0) as [t2| |] eqn:E2; cbn [obind]; try discriminate.
  intros HH. injection HH as <- <-.
  unfold sell_with_orders_x, sell_with_orders in E2. unfold bfs_loop_x in Eb.
  destruct (Z.ltb_spec 0 value) as [Hv|]; cbn [negb] in E2; [|discriminate].
  destruct (negb (0 <? value - com1000 value)); [discriminate|].
  unfold sub1000 in Eb. destruct (Z.ltb_spec 0 value); [|lia]. rewrite Eb in E2.
  destruct (negb (0 <? sim)); [discriminate|].
  destruct (calc_diff_pool (value - com1000 value) sim fs) as [[[c0 c1] a0] a1].
  destruct (apply_fills dir fs (t_book t1)) as [book' refunds].
  destruct (sim <? 0); [discriminate|]. injection E2 as <-. reflexivity.
Qed.
