(* RankingFacts.v — lemmas about Model/Ranking.v (C17). *)
From Minter Require Import Base Consts Ranking.
From Coq Require Import ZArith List Bool Lia Permutation Sorted ZifyBool.
Import ListNotations.
Open Scope Z_scope.

(* ---- generic list facts ---------------------------------------------------------------------- *)
Lemma filter_partition_perm {A} (p : A -> bool) (l : list A) :
  Permutation l (filter p l ++ filter (fun x => negb (p x)) l).
Proof.
  induction l as [|x l IH]; cbn; [constructor|].
  destruct (p x); cbn.
  - constructor. exact IH.
  - apply Permutation_cons_app. exact IH.
Qed.

Lemma in_firstn {A} (x : A) n l : In x (firstn n l) -> In x l.
Proof.
  intros H. rewrite <- (firstn_skipn n l). apply in_or_app. left. exact H.
Qed.

Lemma StronglySorted_filter {A} (R : A -> A -> Prop) (p : A -> bool) (l : list A) :
  StronglySorted R l -> StronglySorted R (filter p l).
Proof.
  induction 1 as [|x l Hs IH Hf]; cbn; [constructor|].
  destruct (p x); [|exact IH].
  constructor; [exact IH|].
  rewrite Forall_forall in *. intros y Hy. apply filter_In in Hy. apply Hf. tauto.
Qed.

Lemma StronglySorted_app_cross {A} (R : A -> A -> Prop) (l1 l2 : list A) :
  StronglySorted R (l1 ++ l2) -> forall a b, In a l1 -> In b l2 -> R a b.
Proof.
  induction l1 as [|x l1 IH]; cbn; intros Hs a b Ha Hb; [contradiction|].
  inversion Hs as [|? ? Hs' Hf]; subst.
  destruct Ha as [<-|Ha].
  - rewrite Forall_forall in Hf. apply Hf. apply in_or_app. right. exact Hb.
  - apply IH; assumption.
Qed.

Lemma StronglySorted_app_l {A} (R : A -> A -> Prop) (l1 l2 : list A) :
  StronglySorted R (l1 ++ l2) -> StronglySorted R l1.
Proof.
  induction l1 as [|x l1 IH]; cbn; intros Hs; [constructor|].
  inversion Hs as [|? ? Hs' Hf]; subst. constructor; [apply IH; exact Hs'|].
  rewrite Forall_forall in *. intros y Hy. apply Hf. apply in_or_app. left. exact Hy.
Qed.

Lemma StronglySorted_firstn {A} (R : A -> A -> Prop) (n : nat) (l : list A) :
  StronglySorted R l -> StronglySorted R (firstn n l).
Proof.
  intros Hs. rewrite <- (firstn_skipn n l) in Hs. eapply StronglySorted_app_l. exact Hs.
Qed.

Lemma StronglySorted_weaken {A} (R Q : A -> A -> Prop) (l : list A) :
  (forall a b, R a b -> Q a b) -> StronglySorted R l -> StronglySorted Q l.
Proof.
  intros HRQ. induction 1 as [|x l Hs IH Hf]; constructor; [exact IH|].
  rewrite Forall_forall in *. intros y Hy. apply HRQ. apply Hf. exact Hy.
Qed.

(* ---- the stable insertion sort ------------------------------------------------------------------ *)
Section SortFacts.
Context {A : Type}.
Variable less : A -> A -> bool.

Lemma insert_stable_perm x l : Permutation (insert_stable less x l) (x :: l).
Proof.
  induction l as [|y r IH]; cbn; [reflexivity|].
  destruct (less y x); [|reflexivity].
  rewrite IH. apply perm_swap.
Qed.

Lemma sort_stable_perm l : Permutation (sort_stable less l) l.
Proof.
  induction l as [|x l IH]; cbn; [constructor|].
  rewrite insert_stable_perm. constructor. exact IH.
Qed.

(* "a may stand before b": b is not strictly less than a *)
Definition ord (a b : A) : Prop := less b a = false.

Hypothesis less_asym : forall a b, less a b = true -> less b a = false.
Hypothesis ord_trans : forall a b c, less b a = false -> less c b = false -> less c a = false.

Lemma insert_stable_sorted x l :
  StronglySorted ord l -> StronglySorted ord (insert_stable less x l).
Proof.
  induction 1 as [|y r Hs IH Hf]; cbn.
  - constructor; constructor.
  - destruct (less y x) eqn:E.
    + constructor; [exact IH|].
      rewrite Forall_forall in *. intros z Hz.
      apply (Permutation_in _ (insert_stable_perm x r)) in Hz. destruct Hz as [<-|Hz].
      * unfold ord. apply less_asym. exact E.
      * apply Hf. exact Hz.
    + constructor; [constructor; assumption|].
      constructor; [exact E|].
      rewrite Forall_forall in *. intros z Hz. unfold ord in *.
      eapply ord_trans; [exact E|]. apply Hf. exact Hz.
Qed.

Lemma sort_stable_sorted l : StronglySorted ord (sort_stable less l).
Proof.
  induction l as [|x l IH]; cbn; [constructor|].
  apply insert_stable_sorted. exact IH.
Qed.

(* stability: the relative order of elements the comparator does not separate is kept *)
Lemma insert_stable_filter (p : A -> bool) x l :
  (forall y, In y l -> p y = true -> p x = true -> less y x = false) ->
  filter p (insert_stable less x l) = filter p (x :: l).
Proof.
  induction l as [|y r IH]; cbn; intros H; [reflexivity|].
  destruct (less y x) eqn:E; [|reflexivity].
  cbn. rewrite IH by (intros; apply H; auto).
  cbn. destruct (p y) eqn:Py; [|reflexivity].
  destruct (p x) eqn:Px; [|reflexivity].
  rewrite (H y (or_introl eq_refl) Py eq_refl) in E. discriminate.
Qed.
End SortFacts.

(* ---- the two candidate orders --------------------------------------------------------------------- *)
Lemma before_gt_asym a b : before_gt a b = true -> before_gt b a = false.
Proof. unfold before_gt. lia. Qed.
Lemma before_gt_trans a b c : before_gt b a = false -> before_gt c b = false -> before_gt c a = false.
Proof. unfold before_gt. lia. Qed.
Lemma before_lt_asym a b : before_lt a b = true -> before_lt b a = false.
Proof. unfold before_lt. lia. Qed.
Lemma before_lt_trans a b c : before_lt b a = false -> before_lt c b = false -> before_lt c a = false.
Proof. unfold before_lt. lia. Qed.
Lemma before_gt_stake a b : before_gt b a = false -> c_stake b <= c_stake a.
Proof. unfold before_gt. lia. Qed.
Lemma before_lt_stake a b : before_lt b a = false -> c_stake b <= c_stake a.
Proof. unfold before_lt. lia. Qed.
(* what the two orders do with ties *)
Lemma before_gt_tie a b : before_gt b a = false -> c_stake a = c_stake b -> c_id b <= c_id a.
Proof. unfold before_gt. lia. Qed.
Lemma before_lt_tie a b : before_lt b a = false -> c_stake a = c_stake b -> c_id a <= c_id b.
Proof. unfold before_lt. lia. Qed.

(* ---- GetNewCandidates ------------------------------------------------------------------------------ *)
Lemma new_validators_spec cands count :
  let vs := new_validators cands count in
  (length vs <= count)%nat /\
  (forall v, In v vs -> eligible v = true) /\
  StronglySorted (fun a b => before_gt b a = false) vs /\
  exists rest,
    Permutation cands (vs ++ rest) /\
    forall r, In r rest -> eligible r = true ->
      length vs = count /\ forall v, In v vs -> before_gt r v = false.
Proof.
  cbn zeta. unfold new_validators.
  set (sorted := sort_stable before_gt cands).
  set (F := filter eligible sorted).
  assert (HsS : StronglySorted (ord before_gt) sorted).
  { apply sort_stable_sorted; [exact before_gt_asym|exact before_gt_trans]. }
  assert (HsF : StronglySorted (ord before_gt) F) by (apply StronglySorted_filter; exact HsS).
  split; [apply firstn_le_length|].
  split.
  { intros v Hv. apply in_firstn in Hv. apply filter_In in Hv. tauto. }
  split.
  { apply StronglySorted_firstn. exact HsF. }
  exists (skipn count F ++ filter (fun x => negb (eligible x)) sorted).
  split.
  - rewrite app_assoc, firstn_skipn. unfold F.
    rewrite <- filter_partition_perm. symmetry. apply sort_stable_perm.
  - intros r Hr He. apply in_app_or in Hr. destruct Hr as [Hr|Hr].
    + split.
      * apply firstn_length_le.
        destruct (Nat.le_gt_cases count (length F)) as [Hle|Hgt]; [exact Hle|].
        rewrite skipn_all2 in Hr by lia. contradiction.
      * intros v Hv. rewrite <- (firstn_skipn count F) in HsF.
        exact (StronglySorted_app_cross _ _ _ HsF v r Hv Hr).
    + apply filter_In in Hr. rewrite He in Hr. destruct Hr as [_ Hr]. discriminate.
Qed.

(* ---- powers ------------------------------------------------------------------------------------------ *)
Lemma power_of_val total stake :
  0 < total -> 0 <= stake ->
  power_of total stake = Val (Z.max 1 (stake * power_scale / total)).
Proof.
  intros Ht Hs. unfold power_of, ediv.
  destruct (Z.eqb_spec total 0) as [|_]; [lia|].
  destruct (Z.ltb_spec 0 total) as [_|]; [|lia]. cbn [obind].
  assert (0 <= stake * power_scale / total).
  { apply Z.div_pos; [|lia]. unfold power_scale. lia. }
  destruct (Z.eqb_spec (stake * power_scale / total) 0) as [E|N]; f_equal; lia.
Qed.

Lemma powers_with_val total stakes :
  0 < total -> (forall s, In s stakes -> 0 <= s) ->
  powers_with total stakes = Val (map (fun s => Z.max 1 (s * power_scale / total)) stakes).
Proof.
  intros Ht. induction stakes as [|s r IH]; intros Hs; cbn [powers_with map]; [reflexivity|].
  rewrite power_of_val by (try apply Hs; cbn; auto). cbn [obind].
  rewrite IH by (intros; apply Hs; cbn; auto). reflexivity.
Qed.

Lemma sum_Z_cons x l : sum_Z (x :: l) = x + sum_Z l.
Proof. reflexivity. Qed.

Lemma sum_Z_nonneg l : (forall x, In x l -> 0 <= x) -> 0 <= sum_Z l.
Proof.
  induction l as [|y l IH]; intros Hp; [cbv; discriminate|].
  rewrite sum_Z_cons.
  assert (0 <= y) by (apply Hp; cbn; auto).
  assert (0 <= sum_Z l) by (apply IH; intros; apply Hp; cbn; auto). lia.
Qed.

Lemma sum_Z_pos_member l s : (forall x, In x l -> 0 <= x) -> In s l -> s <= sum_Z l.
Proof.
  induction l as [|x l IH]; intros Hp Hs; [destruct Hs|].
  rewrite sum_Z_cons.
  assert (0 <= sum_Z l) by (apply sum_Z_nonneg; intros; apply Hp; cbn; auto).
  assert (0 <= x) by (apply Hp; cbn; auto).
  destruct Hs as [<-|Hs]; [lia|].
  assert (s <= sum_Z l) by (apply IH; [intros; apply Hp; cbn; auto|exact Hs]). lia.
Qed.

Lemma power_mono total s1 s2 :
  0 < total -> s1 <= s2 ->
  Z.max 1 (s1 * power_scale / total) <= Z.max 1 (s2 * power_scale / total).
Proof.
  intros Ht Hle. apply Z.max_le_compat_l. apply Z.div_le_mono; [lia|].
  unfold power_scale. lia.
Qed.

Lemma eligible_iff c : eligible c = true <-> c_online c = true /\ min_validator_bip_stake <= c_stake c.
Proof. unfold eligible. rewrite andb_true_iff, Z.leb_le. tauto. Qed.

(* the statement of C17 for a general count *)
Lemma new_validators_top cands count :
  let vs := new_validators cands count in
  (length vs <= count)%nat /\
  (forall v, In v vs -> c_online v = true /\ min_validator_bip_stake <= c_stake v) /\
  StronglySorted (fun a b => c_stake b <= c_stake a) vs /\
  exists rest,
    Permutation cands (vs ++ rest) /\
    forall r, In r rest -> c_online r = true -> min_validator_bip_stake <= c_stake r ->
      length vs = count /\
      forall v, In v vs -> c_stake r <= c_stake v /\ (c_stake r = c_stake v -> c_id r <= c_id v).
Proof.
  destruct (new_validators_spec cands count) as (H1 & H2 & H3 & rest & H4 & H5). cbn zeta.
  split; [exact H1|]. split; [intros v Hv; apply eligible_iff; auto|].
  split; [eapply StronglySorted_weaken; [|exact H3]; intros a b; apply before_gt_stake|].
  exists rest. split; [exact H4|]. intros r Hr Ho Hm.
  destruct (H5 r Hr) as (L & Hb); [apply eligible_iff; auto|]. split; [exact L|].
  intros v Hv. specialize (Hb v Hv).
  split; [apply before_gt_stake; exact Hb|]. intros E. apply (before_gt_tie v r Hb). symmetry. exact E.
Qed.

Lemma Permutation_filter_length {A} (p : A -> bool) a b :
  Permutation a b -> length (filter p a) = length (filter p b).
Proof.
  induction 1 as [|x a b _ IH|x y a|a b c _ IH1 _ IH2]; cbn; try lia.
  - destruct (p x); cbn; lia.
  - destruct (p x), (p y); cbn; lia.
Qed.

(* fewer eligible candidates than seats: every one of them is selected *)
Lemma new_validators_all cands count :
  (length (filter eligible cands) <= count)%nat ->
  forall c, In c cands -> eligible c = true -> In c (new_validators cands count).
Proof.
  intros Hlen c Hc He. unfold new_validators.
  pose proof (sort_stable_perm before_gt cands) as Hp.
  rewrite firstn_all2.
  - apply filter_In. split; [|exact He]. apply (Permutation_in _ (Permutation_sym Hp)). exact Hc.
  - rewrite (Permutation_filter_length eligible _ _ Hp). exact Hlen.
Qed.

(* the selected stakes have a positive total, so the power division never panics *)
Lemma powers_no_panic cands count :
  exists ps, powers (map c_stake (new_validators cands count)) = Val ps /\
             length ps = length (new_validators cands count).
Proof.
  destruct (new_validators_spec cands count) as (_ & He & _). cbn zeta in He.
  set (vs := new_validators cands count) in *. unfold powers.
  assert (Hpos : forall s, In s (map c_stake vs) -> min_validator_bip_stake <= s).
  { intros s Hs. apply in_map_iff in Hs. destruct Hs as (v & <- & Hv). apply eligible_iff. auto. }
  assert (Hmin : 0 < min_validator_bip_stake) by reflexivity.
  destruct vs as [|v r] eqn:E.
  - exists []. split; reflexivity.
  - assert (c_stake v <= sum_Z (map c_stake (v :: r))).
    { apply sum_Z_pos_member; [intros x Hx; specialize (Hpos x Hx); lia|cbn; auto]. }
    assert (min_validator_bip_stake <= c_stake v) by (apply Hpos; cbn; auto).
    rewrite powers_with_val; [|lia|intros s Hs; specialize (Hpos s Hs); lia].
    eexists. split; [reflexivity|]. rewrite !map_length. reflexivity.
Qed.

Lemma powers_spec_general stakes :
  0 < sum_Z stakes -> (forall s, In s stakes -> 0 <= s) ->
  powers stakes = Val (map (fun s => Z.max 1 (s * power_scale / sum_Z stakes)) stakes) /\
  (forall s1 s2, s1 <= s2 ->
     Z.max 1 (s1 * power_scale / sum_Z stakes) <= Z.max 1 (s2 * power_scale / sum_Z stakes)) /\
  (forall s, In s stakes -> Z.max 1 (s * power_scale / sum_Z stakes) <= power_scale).
Proof.
  intros Ht Hp. split; [apply powers_with_val; assumption|].
  split; [intros; apply power_mono; assumption|].
  intros s Hs. pose proof (sum_Z_pos_member stakes s Hp Hs) as Hle.
  apply Z.max_lub; [unfold power_scale; lia|].
  apply Z.div_le_upper_bound; [lia|]. unfold power_scale in *. nia.
Qed.

(* ---- RecalculateStakesV2: who is deleted ------------------------------------------------------------- *)
Lemma to_delete_spec cands is_val max :
  let ranked := sort_stable before_lt cands in
  let del := to_delete cands is_val max in
  Permutation ranked cands /\
  StronglySorted (fun a b => before_lt b a = false) ranked /\
  (forall c, In c del -> is_val c = false /\ In c (skipn max ranked)) /\
  exists keep, Permutation cands (keep ++ del) /\
               forall c, In c keep -> is_val c = true \/ In c (firstn max ranked).
Proof.
  cbn zeta. unfold to_delete.
  set (ranked := sort_stable before_lt cands).
  split; [apply sort_stable_perm|].
  split; [apply sort_stable_sorted; [exact before_lt_asym|exact before_lt_trans]|].
  destruct (Nat.ltb_spec (length ranked) max) as [Hlt|Hge].
  - split; [intros c []|].
    exists cands. split; [rewrite app_nil_r; reflexivity|].
    intros c Hc. right. rewrite firstn_all2 by lia.
    apply (Permutation_in _ (Permutation_sym (sort_stable_perm before_lt cands))). exact Hc.
  - split.
    + intros c Hc. apply filter_In in Hc. destruct Hc as [Hin Hv].
      split; [destruct (is_val c); [discriminate|reflexivity]|exact Hin].
    + exists (firstn max ranked ++ filter is_val (skipn max ranked)). split.
      * rewrite <- app_assoc.
        rewrite <- (filter_partition_perm is_val (skipn max ranked)).
        rewrite firstn_skipn. symmetry. apply sort_stable_perm.
      * intros c Hc. apply in_app_or in Hc. destruct Hc as [Hc|Hc]; [right; exact Hc|].
        apply filter_In in Hc. left. tauto.
Qed.

Lemma ranked_cross cands max a b :
  In a (firstn max (sort_stable before_lt cands)) -> In b (skipn max (sort_stable before_lt cands)) ->
  before_lt b a = false.
Proof.
  intros Ha Hb.
  pose proof (sort_stable_sorted before_lt before_lt_asym before_lt_trans cands) as Hs.
  rewrite <- (firstn_skipn max (sort_stable before_lt cands)) in Hs.
  exact (StronglySorted_app_cross _ _ _ Hs a b Ha Hb).
Qed.

(* ---- value sums per (owner, coin) ----------------------------------------------------------------------- *)
Definition kv (k : Z -> Z -> bool) (s : stk) : Z := if k (s_owner s) (s_coin s) then s_value s else 0.
Definition vsum (k : Z -> Z -> bool) (l : list stk) : Z := sum_Z (map (kv k) l).
Definition fsum (k : Z -> Z -> bool) (l : list fund) : Z :=
  sum_Z (map (fun f => if k (f_owner f) (f_coin f) then f_value f else 0) l).

Lemma sum_Z_app a b : sum_Z (a ++ b) = sum_Z a + sum_Z b.
Proof. induction a as [|x a IH]; [reflexivity|]. cbn [app]. rewrite !sum_Z_cons, IH. lia. Qed.

Lemma vsum_app k a b : vsum k (a ++ b) = vsum k a + vsum k b.
Proof. unfold vsum. rewrite map_app. apply sum_Z_app. Qed.
Lemma vsum_cons k x l : vsum k (x :: l) = kv k x + vsum k l.
Proof. reflexivity. Qed.
Lemma vsum_nil k : vsum k [] = 0.
Proof. reflexivity. Qed.

Lemma vsum_perm k a b : Permutation a b -> vsum k a = vsum k b.
Proof.
  induction 1 as [|x a b _ IH|x y a|a b c _ IH1 _ IH2]; rewrite ?vsum_cons in *; lia.
Qed.

Lemma same_key_kv (k : Z -> Z -> bool) a b : same_key a b = true -> k (s_owner a) (s_coin a) = k (s_owner b) (s_coin b).
Proof.
  unfold same_key. intros H. apply andb_true_iff in H. destruct H as [H1 H2].
  apply Z.eqb_eq in H1, H2. rewrite H1, H2. reflexivity.
Qed.

Lemma delete_funds_sum k h unbond cid slots updates :
  fsum k (delete_funds h unbond cid slots updates) = vsum k (somes slots) + vsum k updates.
Proof.
  unfold delete_funds, fsum, vsum. rewrite map_app, sum_Z_app, !map_map. reflexivity.
Qed.

Lemma delete_funds_due h unbond cid slots updates :
  Forall (fun f => f_height f = h + unbond /\ f_cand f = cid) (delete_funds h unbond cid slots updates).
Proof.
  unfold delete_funds. apply Forall_app. split; apply Forall_forall; intros f Hf;
  apply in_map_iff in Hf; destruct Hf as (s & <- & _); cbn; auto.
Qed.

Lemma delete_funds_each h unbond cid slots updates :
  map (fun f => (f_owner f, f_coin f, f_value f)) (delete_funds h unbond cid slots updates)
  = map (fun s => (s_owner s, s_coin s, s_value s)) (somes slots ++ updates).
Proof. unfold delete_funds. rewrite !map_app, !map_map. reflexivity. Qed.

(* ---- recalculateStakes --------------------------------------------------------------------------------- *)
Section RecalcFacts.
Variable bipf : Z -> Z -> Z.

Definition fresh (s : stk) : Prop := s_bip s = bipf (s_coin s) (s_value s).

Lemma kv_rebip k s : kv k (rebip bipf s) = kv k s.
Proof. reflexivity. Qed.
Lemma vsum_map_rebip k l : vsum k (map (rebip bipf) l) = vsum k l.
Proof. unfold vsum. rewrite map_map. reflexivity. Qed.
Lemma fresh_rebip s : fresh (rebip bipf s).
Proof. reflexivity. Qed.

Lemma somes_rebip_slots slots : somes (rebip_slots bipf slots) = map (rebip bipf) (somes slots).
Proof.
  induction slots as [|[s|] r IH]; cbn; [reflexivity| |exact IH]. f_equal. exact IH.
Qed.
Lemma rebip_slots_length slots : length (rebip_slots bipf slots) = length slots.
Proof. apply map_length. Qed.

Lemma somes_cons_some {A} (x : A) l : somes (Some x :: l) = x :: somes l.
Proof. reflexivity. Qed.
Lemma somes_cons_none {A} (l : list (option A)) : somes (None :: l) = somes l.
Proof. reflexivity. Qed.

(* merge_into *)
Lemma merge_into_spec k u slots slots' :
  merge_into bipf u slots = Some slots' ->
  length slots' = length slots /\
  vsum k (somes slots') = vsum k (somes slots) + kv k u /\
  (Forall fresh (somes slots) -> Forall fresh (somes slots')).
Proof.
  revert slots'. induction slots as [|[s|] r IH]; cbn [merge_into]; intros slots' H; [discriminate| |].
  - destruct (same_key s u) eqn:E.
    + injection H as <-. split; [reflexivity|]. split.
      * rewrite !somes_cons_some, !vsum_cons. unfold kv. cbn [rebip add_value s_owner s_coin s_value].
        rewrite <- (same_key_kv k s u E). destruct (k (s_owner s) (s_coin s)); lia.
      * rewrite !somes_cons_some. intros Hf. inversion Hf; subst. constructor; [apply fresh_rebip|assumption].
    + destruct (merge_into bipf u r) as [r'|]; [|discriminate]. injection H as <-.
      destruct (IH r' eq_refl) as (L & S & F). split; [cbn; lia|]. split.
      * rewrite !somes_cons_some, !vsum_cons. lia.
      * rewrite !somes_cons_some. intros Hf. inversion Hf; subst. constructor; auto.
  - destruct (merge_into bipf u r) as [r'|]; [|discriminate]. injection H as <-.
    destruct (IH r' eq_refl) as (L & S & F). split; [cbn; lia|]. split; [exact S|exact F].
Qed.

Lemma apply_existing_spec k updates : forall slots s2 us,
  apply_existing bipf slots updates = (s2, us) ->
  length s2 = length slots /\
  vsum k (somes s2) + vsum k us = vsum k (somes slots) + vsum k updates /\
  (Forall fresh (somes slots) -> Forall fresh (somes s2)) /\
  (forall u, In u us -> In u updates).
Proof.
  induction updates as [|u r IH]; cbn [apply_existing]; intros slots s2 us H.
  - injection H as <- <-. rewrite vsum_nil. repeat split; auto.
  - destruct (merge_into bipf u slots) as [slots'|] eqn:M.
    + destruct (merge_into_spec k u slots slots' M) as (L & S & F).
      destruct (IH slots' s2 us H) as (L2 & S2 & F2 & I2).
      rewrite vsum_cons. repeat split; [lia|lia|auto|intros; right; auto].
    + destruct (apply_existing bipf slots r) as [s2' us'] eqn:A. injection H as <- <-.
      destruct (IH slots s2' us' A) as (L2 & S2 & F2 & I2).
      rewrite !vsum_cons. repeat split; [lia|lia|auto|].
      intros x [<-|Hx]; [left; reflexivity|right; auto].
Qed.

(* getFilteredUpdates *)
Lemma add_to_first_spec k u acc acc' :
  add_to_first u acc = Some acc' -> vsum k acc' = vsum k acc + kv k u.
Proof.
  revert acc'. induction acc as [|a r IH]; cbn [add_to_first]; intros acc' H; [discriminate|].
  destruct (same_key a u) eqn:E.
  - injection H as <-. rewrite !vsum_cons. unfold kv. cbn [add_value s_owner s_coin s_value].
    rewrite <- (same_key_kv k a u E). destruct (k (s_owner a) (s_coin a)); lia.
  - destruct (add_to_first u r) as [r'|]; [|discriminate]. injection H as <-.
    rewrite !vsum_cons. rewrite (IH r' eq_refl). lia.
Qed.

Lemma filtered_updates_sum k us :
  (forall u, In u us -> 0 <= s_value u) ->
  vsum k (filtered_updates us) = vsum k us.
Proof.
  unfold filtered_updates.
  assert (G : forall acc, (forall u, In u us -> 0 <= s_value u) ->
                          vsum k (fold_left filter_step us acc) = vsum k acc + vsum k us).
  { induction us as [|u r IH]; intros acc Hp; cbn [fold_left]; [rewrite vsum_nil; lia|].
    rewrite IH by (intros; apply Hp; cbn; auto). rewrite vsum_cons.
    assert (H0 : 0 <= s_value u) by (apply Hp; cbn; auto).
    unfold filter_step. destruct (Z.leb_spec (s_value u) 0) as [Hle|Hgt].
    - assert (kv k u = 0) by (unfold kv; destruct (k _ _); lia). lia.
    - destruct (add_to_first u acc) as [acc'|] eqn:A.
      + rewrite (add_to_first_spec k u acc acc' A). lia.
      + rewrite vsum_app, vsum_cons, vsum_nil. lia. }
  intros Hp. rewrite G by exact Hp. rewrite vsum_nil. lia.
Qed.

Lemma ordered_updates_sum k us :
  (forall u, In u us -> 0 <= s_value u) ->
  vsum k (ordered_updates bipf us) = vsum k us.
Proof.
  intros Hp. unfold ordered_updates. rewrite vsum_map_rebip.
  rewrite (vsum_perm k _ _ (sort_stable_perm bip_gt (filtered_updates us))).
  apply filtered_updates_sum. exact Hp.
Qed.

Lemma ordered_updates_fresh us : Forall fresh (ordered_updates bipf us).
Proof.
  unfold ordered_updates. apply Forall_forall. intros s Hs. apply in_map_iff in Hs.
  destruct Hs as (x & <- & _). apply fresh_rebip.
Qed.

(* find_slot *)
Definition full (slots : list (option stk)) : Prop := forall o, In o slots -> o <> None.

Lemma find_slot_range slots : forall i0 best i m,
  find_slot slots i0 best = Some (i, m) ->
  best = Some (i, m) \/ (i0 <= i < i0 + length slots)%nat.
Proof.
  induction slots as [|[s|] r IH]; cbn [find_slot length]; intros i0 best i m H.
  - left. exact H.
  - apply IH in H. destruct H as [H|H]; [|right; lia].
    destruct best as [[bi bm]|].
    + destruct (s_bip s <? bm); [injection H as <- <-; right; lia|left; exact H].
    + injection H as <- <-. right. lia.
  - injection H as <- <-. right. lia.
Qed.

(* with a free slot: the first free slot, competing value 0 *)
Lemma find_slot_free l1 l2 : forall i0 best,
  full l1 -> find_slot (l1 ++ None :: l2) i0 best = Some ((i0 + length l1)%nat, 0).
Proof.
  induction l1 as [|[s|] r IH]; cbn [find_slot app length]; intros i0 best Hf.
  - f_equal. f_equal. lia.
  - rewrite IH by (intros o Ho; apply Hf; cbn; auto). f_equal. f_equal. lia.
  - exfalso. apply (Hf None); cbn; auto.
Qed.

(* all slots occupied: the first slot holding the minimum bip value *)
Lemma find_slot_full slots : forall i0 best,
  full slots ->
  match find_slot slots i0 best with
  | None => best = None /\ slots = []
  | Some (i, m) =>
    (forall s, In (Some s) slots -> m <= s_bip s) /\
    (forall bi bm, best = Some (bi, bm) -> m <= bm) /\
    (best = Some (i, m) \/
     exists j s, i = (i0 + j)%nat /\ nth_error slots j = Some (Some s) /\ s_bip s = m /\
                 (forall j' s', (j' < j)%nat -> nth_error slots j' = Some (Some s') -> m < s_bip s') /\
                 (forall bi bm, best = Some (bi, bm) -> m < bm))
  end.
Proof.
  induction slots as [|[s|] r IH]; cbn [find_slot]; intros i0 best Hf.
  - destruct best as [[bi bm]|]; [|auto].
    split; [intros s []|]. split; [intros ? ? E; injection E as <- <-; lia|left; reflexivity].
  - assert (Hfr : full r) by (intros o Ho; apply Hf; cbn; auto).
    set (best' := match best with
                  | None => Some (i0, s_bip s)
                  | Some (_, m) => if s_bip s <? m then Some (i0, s_bip s) else best
                  end).
    specialize (IH (S i0) best' Hfr).
    destruct (find_slot r (S i0) best') as [[i m]|] eqn:F.
    + destruct IH as (Hmin & Hbest & Hwho).
      assert (Hb' : exists bi' bm', best' = Some (bi', bm')).
      { unfold best'. destruct best as [[bi bm]|]; [|eauto]. destruct (s_bip s <? bm); eauto. }
      destruct Hb' as (bi' & bm' & Eb').
      assert (Hm' : m <= bm') by (eapply Hbest; exact Eb').
      assert (Hbm' : bm' <= s_bip s).
      { unfold best' in Eb'. destruct best as [[bi bm]|].
        - destruct (Z.ltb_spec (s_bip s) bm); injection Eb' as <- <-; lia.
        - injection Eb' as <- <-. lia. }
      split.
      { intros t [E|Ht]; [injection E as <-; lia|apply Hmin; exact Ht]. }
      split.
      { intros bi bm E. subst best. unfold best' in Eb'.
        destruct (Z.ltb_spec (s_bip s) bm); injection Eb' as <- <-; lia. }
      destruct Hwho as [Hw|(j & t & Ei & En & Et & Hfirst & Hlt)].
      * (* the winner is best' *)
        rewrite Eb' in Hw. injection Hw as <- <-.
        unfold best' in Eb'. destruct best as [[bi bm]|].
        -- destruct (Z.ltb_spec (s_bip s) bm) as [Hl|Hg]; injection Eb' as <- <-.
           ++ right. exists O, s.
              refine (conj _ (conj _ (conj _ (conj _ _)))); [lia|reflexivity|reflexivity|intros ? ? Hj; lia|intros ? ? E; injection E as <- <-; lia].
           ++ left. reflexivity.
        -- injection Eb' as <- <-. right. exists O, s.
           refine (conj _ (conj _ (conj _ (conj _ _)))); [lia|reflexivity|reflexivity|intros ? ? Hj; lia|intros ? ? E; discriminate].
      * right. exists (S j), t. refine (conj _ (conj _ (conj _ (conj _ _)))); [lia|exact En|exact Et| |].
        -- intros j' s' Hj' Hn. destruct j' as [|j'']; cbn in Hn.
           ++ injection Hn as <-. specialize (Hlt _ _ Eb'). lia.
           ++ eapply Hfirst; [|exact Hn]. lia.
        -- intros bi bm E. subst best. specialize (Hlt _ _ Eb'). unfold best' in Eb'.
           destruct (Z.ltb_spec (s_bip s) bm); injection Eb' as <- <-; lia.
    + destruct IH as (Hb & _). unfold best' in Hb.
      destruct best as [[bi bm]|]; [destruct (s_bip s <? bm)|]; discriminate.
  - exfalso. apply (Hf None); cbn; auto.
Qed.

(* set_nth *)
Lemma set_nth_length {A} (x : A) l : forall i, length (set_nth i x l) = length l.
Proof. induction l as [|y r IH]; intros [|i]; cbn; auto. Qed.

Lemma set_nth_sum k u slots : forall i,
  (i < length slots)%nat ->
  vsum k (somes (set_nth i (Some u) slots))
  + vsum k (match nth i slots None with Some old => [old] | None => [] end)
  = vsum k (somes slots) + kv k u.
Proof.
  induction slots as [|o r IH]; intros i Hi; cbn in Hi; [lia|].
  destruct i as [|i]; cbn [set_nth nth].
  - destruct o as [old|]; rewrite ?somes_cons_some, ?somes_cons_none, ?vsum_cons, ?vsum_nil; lia.
  - specialize (IH i ltac:(lia)).
    destruct o as [s|]; rewrite ?somes_cons_some, ?somes_cons_none, ?vsum_cons; lia.
Qed.

Lemma set_nth_fresh u slots : forall i,
  fresh u -> Forall fresh (somes slots) -> Forall fresh (somes (set_nth i (Some u) slots)).
Proof.
  induction slots as [|o r IH]; intros i Hu Hf.
  - destruct i; exact Hf.
  - destruct i as [|i]; cbn [set_nth].
    + rewrite somes_cons_some. constructor; [exact Hu|].
      destruct o; [rewrite somes_cons_some in Hf; inversion Hf; assumption|exact Hf].
    + destruct o.
      * rewrite somes_cons_some in *. inversion Hf; subst. constructor; [assumption|apply IH; assumption].
      * rewrite somes_cons_none in *. apply IH; assumption.
Qed.

(* one placement *)
Lemma place_one_spec k slots u s' kicked :
  place_one slots u = Val (s', kicked) ->
  length s' = length slots /\
  vsum k (somes s') + vsum k kicked = vsum k (somes slots) + kv k u /\
  (fresh u -> Forall fresh (somes slots) -> Forall fresh (somes s')).
Proof.
  unfold place_one. destruct (find_slot slots 0 None) as [[i m]|] eqn:F.
  - destruct (s_bip u <? m).
    + intros H; injection H as <- <-. rewrite vsum_cons, vsum_nil. refine (conj _ (conj _ _)); [reflexivity|lia|auto].
    + intros H; injection H as <- <-.
      destruct (find_slot_range _ _ _ _ _ F) as [E|R]; [discriminate|].
      split; [apply set_nth_length|]. split; [apply set_nth_sum; lia|].
      intros. apply set_nth_fresh; assumption.
  - destruct (s_bip u <? 0); [|discriminate].
    intros H; injection H as <- <-. rewrite vsum_cons, vsum_nil. refine (conj _ (conj _ _)); [reflexivity|lia|auto].
Qed.

Lemma find_slot_some slots : forall i0 b, find_slot slots i0 (Some b) <> None.
Proof.
  induction slots as [|[t|] r IH]; cbn [find_slot]; intros i0 [bi bm].
  - discriminate.
  - destruct (s_bip t <? bm); apply IH.
  - discriminate.
Qed.

Lemma place_one_no_panic slots u : slots <> [] -> exists r, place_one slots u = Val r.
Proof.
  intros Hne. unfold place_one. destruct (find_slot slots 0 None) as [[i m]|] eqn:F.
  - destruct (s_bip u <? m); eauto.
  - exfalso. destruct slots as [|[s|] r]; [congruence| |cbn in F; discriminate].
    cbn [find_slot] in F. exact (find_slot_some _ _ _ F).
Qed.

Lemma place_all_spec k us : forall slots s' kicked,
  place_all slots us = Val (s', kicked) ->
  length s' = length slots /\
  vsum k (somes s') + vsum k kicked = vsum k (somes slots) + vsum k us /\
  (Forall fresh us -> Forall fresh (somes slots) -> Forall fresh (somes s')).
Proof.
  induction us as [|u r IH]; cbn [place_all]; intros slots s' kicked H.
  - injection H as <- <-. rewrite !vsum_nil. refine (conj _ (conj _ _)); [reflexivity|lia|auto].
  - destruct (place_one slots u) as [[s1 k1]| |] eqn:P1; cbn [obind fst snd] in H; try discriminate.
    destruct (place_all s1 r) as [[s2 k2]| |] eqn:P2; cbn [obind fst snd] in H; try discriminate.
    injection H as <- <-.
    destruct (place_one_spec k _ _ _ _ P1) as (L1 & S1 & F1).
    destruct (IH _ _ _ P2) as (L2 & S2 & F2).
    rewrite vsum_app, vsum_cons. refine (conj _ (conj _ _)); [lia|lia|].
    intros Hu Hs. inversion Hu; subst. auto.
Qed.

Lemma place_all_no_panic us : forall slots, slots <> [] -> exists r, place_all slots us = Val r.
Proof.
  induction us as [|u r IH]; cbn [place_all]; intros slots Hne; [eauto|].
  destruct (place_one_no_panic slots u Hne) as ([s1 k1] & P1). rewrite P1. cbn [obind fst snd].
  assert (Hne1 : s1 <> []).
  { destruct (place_one_spec (fun _ _ => true) _ _ _ _ P1) as (L & _).
    destruct s1; [destruct slots; [congruence|cbn in L; lia]|congruence]. }
  destruct (IH s1 Hne1) as ([s2 k2] & P2). rewrite P2. cbn. eauto.
Qed.

(* the whole recalculation of one candidate *)
Lemma recalc_slots_spec k slots updates r :
  (forall u, In u updates -> 0 <= s_value u) ->
  recalc_slots bipf slots updates = Val r ->
  length (r_slots r) = length slots /\
  vsum k (somes (r_slots r)) + vsum k (r_kicked r) = vsum k (somes slots) + vsum k updates /\
  r_total r = sum_Z (map s_bip (somes (r_slots r))) /\
  Forall fresh (somes (r_slots r)).
Proof.
  intros Hp. unfold recalc_slots.
  destruct (apply_existing bipf (rebip_slots bipf slots) updates) as [s2 us] eqn:A.
  destruct (apply_existing_spec k updates _ _ _ A) as (L2 & S2 & F2 & I2).
  destruct (place_all s2 (ordered_updates bipf us)) as [[s3 kicked]| |] eqn:P; cbn [obind]; try discriminate.
  intros H; injection H as <-. cbn [r_slots r_kicked r_total fst snd].
  destruct (place_all_spec k _ _ _ _ P) as (L3 & S3 & F3).
  rewrite ordered_updates_sum in S3 by (intros; apply Hp; auto).
  rewrite somes_rebip_slots, vsum_map_rebip in S2. rewrite rebip_slots_length in L2.
  refine (conj _ (conj _ (conj _ _))); [lia|lia|reflexivity|].
  apply F3; [apply ordered_updates_fresh|]. apply F2.
  rewrite somes_rebip_slots. apply Forall_forall. intros s Hs. apply in_map_iff in Hs.
  destruct Hs as (x & <- & _). apply fresh_rebip.
Qed.

Lemma recalc_slots_no_panic slots updates :
  slots <> [] -> exists r, recalc_slots bipf slots updates = Val r.
Proof.
  intros Hne. unfold recalc_slots.
  destruct (apply_existing bipf (rebip_slots bipf slots) updates) as [s2 us] eqn:A.
  destruct (apply_existing_spec (fun _ _ => true) updates _ _ _ A) as (L2 & _).
  rewrite rebip_slots_length in L2.
  assert (Hne2 : s2 <> []) by (destruct s2; [destruct slots; [congruence|cbn in L2; lia]|congruence]).
  destruct (place_all_no_panic (ordered_updates bipf us) s2 Hne2) as (p & P). rewrite P. cbn. eauto.
Qed.

(* ---- the kick rule, one incoming update against full slots ------------------------------------------ *)
Lemma kick_rule_full slots u :
  full slots -> slots <> [] ->
  exists i old,
    nth_error slots i = Some (Some old) /\
    (forall s, In (Some s) slots -> s_bip old <= s_bip s) /\
    (forall j s, (j < i)%nat -> nth_error slots j = Some (Some s) -> s_bip old < s_bip s) /\
    ((s_bip u < s_bip old /\ place_one slots u = Val (slots, [u])) \/
     (s_bip old <= s_bip u /\ place_one slots u = Val (set_nth i (Some u) slots, [old]))).
Proof.
  intros Hf Hne. pose proof (find_slot_full slots 0 None Hf) as H.
  unfold place_one. destruct (find_slot slots 0 None) as [[i m]|].
  - destruct H as (Hmin & _ & [E|(j & s & Ei & En & Es & Hfirst & _)]); [discriminate|].
    cbn in Ei. subst i. exists j, s. subst m.
    split; [exact En|]. split; [exact Hmin|]. split; [exact Hfirst|].
    destruct (Z.ltb_spec (s_bip u) (s_bip s)) as [Hl|Hg]; [left; auto|right].
    split; [exact Hg|]. f_equal. f_equal.
    assert (Hn : nth j slots None = Some s).
    { clear -En. revert j En. induction slots as [|o r IH]; intros [|j] En; cbn in *; try discriminate.
      - injection En as ->. reflexivity.
      - apply IH. exact En. }
    rewrite Hn. reflexivity.
  - destruct H as (_ & E). contradiction.
Qed.

(* with a free slot nobody is kicked *)
Lemma free_slot_no_kick l1 l2 u :
  full l1 -> 0 <= s_bip u ->
  place_one (l1 ++ None :: l2) u = Val (l1 ++ Some u :: l2, []).
Proof.
  intros Hf Hu. unfold place_one. rewrite (find_slot_free l1 l2 0 None Hf). cbn [Nat.add].
  destruct (Z.ltb_spec (s_bip u) 0); [lia|].
  assert (Hs : forall (x : option stk) l1 l2, set_nth (length l1) x (l1 ++ None :: l2) = l1 ++ x :: l2).
  { intros x a b. induction a as [|y a IH]; cbn; [reflexivity|]. f_equal. exact IH. }
  assert (Hn : forall l1 l2, nth (length l1) (l1 ++ @None stk :: l2) None = None).
  { intros a b. induction a as [|y a IH]; cbn; [reflexivity|exact IH]. }
  rewrite Hs, Hn. reflexivity.
Qed.

(* ---- losers are never larger than anybody who stays ------------------------------------------------- *)
Definition losers_below (slots : list (option stk)) (kicked : list stk) : Prop :=
  forall x s, In x kicked -> In (Some s) slots -> s_bip x <= s_bip s.

Lemma in_set_nth {A} (x y : A) l : forall i, In y (set_nth i x l) -> y = x \/ In y l.
Proof.
  induction l as [|z r IH]; intros [|i]; cbn; try tauto.
  - intros [<-|H]; auto.
  - intros [<-|H]; auto. destruct (IH i H); auto.
Qed.

Lemma set_nth_full {A} (x : A) (l : list (option A)) i :
  (forall o, In o l -> o <> None) -> forall o, In o (set_nth i (Some x) l) -> o <> None.
Proof.
  intros Hf o Ho. apply in_set_nth in Ho. destruct Ho as [->|Ho]; [discriminate|auto].
Qed.

Definition dflt : option stk := Some {| s_owner := 0; s_coin := 0; s_value := 0; s_bip := 0 |}.

Lemma find_slot_none_free slots : forall i0 best i m,
  ~ full slots -> find_slot slots i0 best = Some (i, m) ->
  m = 0 /\ (i0 <= i)%nat /\ nth (i - i0) slots dflt = None.
Proof.
  induction slots as [|[s|] r IH]; cbn [find_slot]; intros i0 best i m Hnf F.
  - exfalso. apply Hnf. intros o [].
  - assert (Hnr : ~ full r).
    { intros Hr. apply Hnf. intros o [<-|Ho]; [discriminate|auto]. }
    destruct (IH _ _ _ _ Hnr F) as (Hm & Hi & Hn).
    refine (conj Hm (conj _ _)); [lia|].
    replace (i - i0)%nat with (S (i - S i0)) by lia. exact Hn.
  - injection F as <- <-. refine (conj eq_refl (conj _ _)); [lia|].
    rewrite Nat.sub_diag. reflexivity.
Qed.

Lemma classic_full slots : full slots \/ ~ full slots.
Proof.
  induction slots as [|[s|] r IH].
  - left. intros o [].
  - destruct IH as [Hf|Hn]; [left|right].
    + intros o [<-|Ho]; [discriminate|auto].
    + intros Hf. apply Hn. intros o Ho. apply Hf. cbn. auto.
  - right. intros Hf. apply (Hf None); cbn; auto.
Qed.

Lemma place_one_losers slots u s' k1 kicked :
  0 <= s_bip u ->
  (kicked <> [] -> full slots) -> losers_below slots kicked ->
  place_one slots u = Val (s', k1) ->
  (kicked ++ k1 <> [] -> full s') /\ losers_below s' (kicked ++ k1).
Proof.
  intros Hu Hfull Hlow P.
  destruct (classic_full slots) as [Hf|Hnf].
  2:{ (* a free slot: nobody was kicked before, nobody is kicked now *)
    assert (kicked = []) by (destruct kicked; [reflexivity|exfalso; apply Hnf; apply Hfull; discriminate]).
    subst kicked. unfold place_one in P.
    destruct (find_slot slots 0 None) as [[i m]|] eqn:F.
    - destruct (find_slot_none_free _ _ _ _ _ Hnf F) as (-> & _ & Hn).
      destruct (Z.ltb_spec (s_bip u) 0); [lia|]. injection P as <- <-.
      rewrite Nat.sub_0_r in Hn.
      assert (Hk : match nth i slots None with Some old => [old] | None => [] end = []).
      { destruct (nth i slots None) eqn:E; [|reflexivity]. exfalso.
        destruct (find_slot_range _ _ _ _ _ F) as [?|R]; [discriminate|].
        rewrite (nth_indep slots None dflt) in E by lia.
        congruence. }
      rewrite Hk. cbn [app]. split; [intros C; congruence|intros x s []].
    - destruct (Z.ltb_spec (s_bip u) 0); [lia|discriminate]. }
  destruct slots as [|o0 r0] eqn:Es.
  { unfold place_one in P. cbn in P. destruct (Z.ltb_spec (s_bip u) 0); [lia|discriminate]. }
  rewrite <- Es in *.
  assert (Hne : slots <> []) by (rewrite Es; discriminate).
  destruct (kick_rule_full slots u Hf Hne) as (i & old & En & Hmin & _ & [(Hl & P')|(Hg & P')]);
    rewrite P' in P; injection P as <- <-.
  - split; [intros _; exact Hf|].
    intros x s Hx Hs. apply in_app_or in Hx. destruct Hx as [Hx|[<-|[]]]; [auto|].
    specialize (Hmin s Hs). lia.
  - split; [intros _ o Ho; exact (set_nth_full u slots i Hf o Ho)|].
    assert (Hold : In (Some old) slots) by (eapply nth_error_In; exact En).
    intros x s Hx Hs. apply in_set_nth in Hs.
    apply in_app_or in Hx. destruct Hx as [Hx|[<-|[]]].
    + destruct Hs as [E|Hs]; [injection E as ->|auto].
      specialize (Hlow x old Hx Hold). lia.
    + destruct Hs as [E|Hs]; [injection E as ->; lia|apply Hmin; exact Hs].
Qed.
Lemma place_all_losers us : forall slots kicked0 s' k,
  (forall u, In u us -> 0 <= s_bip u) ->
  (kicked0 <> [] -> full slots) -> losers_below slots kicked0 ->
  place_all slots us = Val (s', k) ->
  (kicked0 ++ k <> [] -> full s') /\ losers_below s' (kicked0 ++ k).
Proof.
  induction us as [|u r IH]; cbn [place_all]; intros slots kicked0 s' k Hp Hfull Hlow H.
  - injection H as <- <-. rewrite app_nil_r. auto.
  - destruct (place_one slots u) as [[s1 k1]| |] eqn:P1; cbn [obind fst snd] in H; try discriminate.
    destruct (place_all s1 r) as [[s2 k2]| |] eqn:P2; cbn [obind fst snd] in H; try discriminate.
    injection H as <- <-.
    destruct (place_one_losers slots u s1 k1 kicked0 (Hp u (or_introl eq_refl)) Hfull Hlow P1) as (Hf1 & Hl1).
    rewrite app_assoc.
    apply (IH s1 (kicked0 ++ k1) s2 k2); auto. intros; apply Hp; cbn; auto.
Qed.

Lemma in_somes {A} (x : A) l : In x (somes l) <-> In (Some x) l.
Proof.
  induction l as [|[y|] r IH]; cbn; [tauto| |].
  - rewrite IH. split; intros [E|H]; auto; [left; congruence|left; congruence].
  - rewrite IH. split; [auto|intros [E|H]; [discriminate|auto]].
Qed.

(* whoever is kicked during a recalculation is never larger than anybody who keeps a slot, and a
   kick only happens when every slot is occupied *)
Lemma recalc_slots_losers slots updates r :
  (forall c v, 0 <= bipf c v) ->
  recalc_slots bipf slots updates = Val r ->
  (r_kicked r <> [] -> full (r_slots r)) /\
  forall x s, In x (r_kicked r) -> In s (somes (r_slots r)) -> s_bip x <= s_bip s.
Proof.
  intros Hb. unfold recalc_slots.
  destruct (apply_existing bipf (rebip_slots bipf slots) updates) as [s2 us] eqn:A.
  destruct (place_all s2 (ordered_updates bipf us)) as [[s3 kicked]| |] eqn:P; cbn [obind]; try discriminate.
  intros H; injection H as <-. cbn [r_slots r_kicked fst snd].
  destruct (place_all_losers (ordered_updates bipf us) s2 [] s3 kicked) as (Hf & Hl).
  - intros u Hu. pose proof (ordered_updates_fresh us) as Hfr. rewrite Forall_forall in Hfr.
    rewrite (Hfr u Hu). apply Hb.
  - intros C; congruence.
  - intros x s [].
  - exact P.
  - cbn [app] in *. split; [exact Hf|]. intros x s Hx Hs. apply (Hl x s Hx). apply in_somes. exact Hs.
Qed.
End RecalcFacts.
