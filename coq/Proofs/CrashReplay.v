(* CrashReplay.v — a block executed on a disk that holds any prefix of that block's own Commit
   writes up to (and including) the hash record ends on the same disk as the uncrashed Commit;
   two good processes on the same disk continue identically. *)
From Minter Require Import Base Persist PersistFacts PersistGen Crash CrashFacts CrashEvFacts.
From Coq Require Import ZArith Lia List Bool Arith.
Import ListNotations.
Open Scope Z_scope.

(* ---- small facts about the setters ---------------------------------------------------------------- *)
Lemma fst_apply_set s o : fst (apply_set s o) = fst s.
Proof. destruct s as [d m]; destruct o; reflexivity. Qed.

Lemma fst_run_steps : forall steps s, fst (run_steps s steps) = fst s.
Proof.
  induction steps as [|f r IH]; intros s; cbn [run_steps]; [reflexivity|].
  rewrite IH. destruct (f (view_of s)); [apply fst_apply_set|reflexivity].
Qed.

Lemma height_apply_set s o : get_height (apply_set s o) = get_height s.
Proof.
  change (v_height (view_of (apply_set s o)) = v_height (view_of s)).
  rewrite view_apply_set. destruct o; reflexivity.
Qed.

Lemma height_run_steps : forall steps s, get_height (run_steps s steps) = get_height s.
Proof.
  induction steps as [|f r IH]; intros s; cbn [run_steps]; [reflexivity|].
  rewrite IH. destruct (f (view_of s)); [apply height_apply_set|reflexivity].
Qed.

Lemma start_apply_set s o : get_start (apply_set s o) = get_start s.
Proof.
  change (v_start (view_of (apply_set s o)) = v_start (view_of s)).
  rewrite view_apply_set. destruct o; reflexivity.
Qed.

Lemma start_run_steps : forall steps s, get_start (run_steps s steps) = get_start s.
Proof.
  induction steps as [|f r IH]; intros s; cbn [run_steps]; [reflexivity|].
  rewrite IH. destruct (f (view_of s)); [apply start_apply_set|reflexivity].
Qed.

Lemma addtime_loaded s t : times_loaded (apply_set s (AddTime t)).
Proof. destruct s as [d m]. unfold times_loaded. cbn. apply last4_nonempty. Qed.

(* ---- invariants of a running node ------------------------------------------------------------------ *)
Definition tgood (s : cst) : Prop :=
  exists c, aget (get_height (app_of s)) (cd_tree (fst s)) = Some c /\
            (cm_tree (snd s) = None \/ cm_tree (snd s) = Some (get_height (app_of s), c)) /\
            (forall v, get_height (app_of s) < v -> aget v (cd_tree (fst s)) = None).
Definition egood (s : cst) : Prop :=
  exists c, ecl (cd_ev (fst s)) c /\ (cm_ev (snd s) = None \/ cm_ev (snd s) = Some c).
Definition cgood (s : cst) : Prop := agood (app_of s) /\ tgood s /\ egood s.

Lemma tgood_load s : tgood s -> exists c, load_tree s = Val (get_height (app_of s), c) /\
  aget (get_height (app_of s)) (cd_tree (fst s)) = Some c.
Proof.
  intros (c & H1 & H2 & _). exists c. split; [|exact H1]. unfold load_tree.
  destruct H2 as [E|E]; rewrite E; [rewrite H1|]; reflexivity.
Qed.

Lemma egood_load s : egood s -> ecl (cd_ev (fst s)) (load_ev s).
Proof.
  intros (c & H1 & H2). unfold load_ev. destruct H2 as [E|E]; rewrite E; [|exact H1].
  change (ecl (cd_ev (fst s)) (eload (cd_ev (fst s)))). rewrite (ecl_eload _ _ H1). exact H1.
Qed.

(* ---- BeginBlock .. EndBlock on two indistinguishable appdb states --------------------------------- *)
Definition psim (pl ps : prep) : Prop :=
  aeq (p_app pl) (p_app ps) /\ p_h pl = p_h ps /\ p_ver pl = p_ver ps /\ p_content pl = p_content ps /\
  p_ment pl = p_ment ps /\ p_resp pl = p_resp ps.

Lemma prepare_sim l s blk ps :
  aeq (app_of l) (app_of s) -> load_tree l = load_tree s -> prepare s blk = Val ps ->
  exists pl, prepare l blk = Val pl /\ psim pl ps /\ p_ev pl = load_ev l /\
             fst (p_app pl) = cd_app (fst l) /\ times_loaded (p_app pl) /\
             (flags_ok (app_of l) -> flags_ok (p_app pl)) /\
             get_height (p_app pl) = get_height (app_of l) /\ get_start (p_app pl) = get_start (app_of l) /\
             (forall c, load_tree l = Val c -> p_ver pl = fst c + 1) /\ p_h pl = get_height (app_of l) + 1.
Proof.
  intros A T P. unfold prepare in *. rewrite T. destruct (load_tree s) as [[ver c]| |]; cbn [obind] in *; try discriminate.
  inversion P. subst ps. clear P. eexists. split; [reflexivity|].
  cbn [fst snd].
  assert (Eb : blind (view_of (app_of l)) = blind (view_of (app_of s))) by (destruct A; assumption).
  rewrite Eb.
  set (blk' := cb_prog blk c (blind (view_of (app_of s)))).
  assert (A1 : aeq (apply_set (app_of l) (AddTime (b_time blk'))) (apply_set (app_of s) (AddTime (b_time blk')))) by (apply aeq_apply_set; exact A).
  pose proof (aeq_run_steps (b_steps blk') _ _ A1) as A2.
  split; [|split; [|split; [|split; [|split; [|split; [|split; [|split]]]]]]]; cbn [p_app p_h p_ver p_content p_ment p_resp p_ev].
  - unfold psim. cbn [p_app p_h p_ver p_content p_ment p_resp].
    split; [exact A2|]. split; [rewrite (aeq_height _ _ A2); reflexivity|]. split; [reflexivity|].
    split; [|split; reflexivity]. destruct A2 as [A2v _]. rewrite A2v. reflexivity.
  - reflexivity.
  - rewrite fst_run_steps, fst_apply_set. reflexivity.
  - apply run_steps_blind_times_loaded, addtime_loaded.
  - intros F. apply run_steps_blind_flags_ok, apply_set_flags_ok. exact F.
  - rewrite height_run_steps, height_apply_set. reflexivity.
  - rewrite start_run_steps, start_apply_set. reflexivity.
  - intros c0 Hc. injection Hc as <-. reflexivity.
  - rewrite height_run_steps, height_apply_set. reflexivity.
Qed.

(* ---- the shape of the write list ---------------------------------------------------------------------- *)
Lemma map_flat_map {A B C} (g : B -> C) (f : A -> list B) l : map g (flat_map f l) = flat_map (fun x => map g (f x)) l.
Proof. induction l as [|x r IH]; cbn; [reflexivity|]. rewrite map_app, IH. reflexivity. Qed.

Definition app_ws (batched : bool) (m : mem) (h hash : Z) : list write :=
  if batched then [WAppBatch (awrites m h hash)] else map WApp (awrites m h hash).

Lemma commit_writes_shape keep batched s p :
  commit_writes keep batched s p =
  obind (tree_writes keep (fst s) (get_start (p_app p)) p) (fun wtree =>
    Val (snd (ev_writes p) ++ wtree ++ app_ws batched (snd (p_app p)) (p_h p) (p_content p),
         {| cm_app := commit_mem (snd (p_app p)) (p_h p); cm_tree := Some (p_ver p, p_content p); cm_ev := Some (fst (ev_writes p)) |})).
Proof.
  unfold commit_writes. destruct (ev_writes p) as [evc wev]. cbn [fst snd].
  destruct (tree_writes keep (fst s) (get_start (p_app p)) p) as [wtree| |]; cbn [obind]; try reflexivity.
  f_equal. f_equal. unfold app_ws, awrites. rewrite app_calls_eq. unfold commit_order.
  destruct batched; cbn [flat_map Z.eqb Z.ltb Z.compare Pos.compare Pos.compare_cont Pos.eqb app map];
    rewrite ?app_nil_r, ?map_app, <- ?app_assoc; reflexivity.
Qed.

Lemma aps_app_ws batched m h hash d : aps (app_ws batched m h hash) d = fst (commit true (d, m) h hash).
Proof.
  rewrite <- awrites_commit. unfold app_ws. destruct batched; [reflexivity|].
  generalize (awrites m h hash). intros l. revert d. induction l as [|a r IH]; intros d; [reflexivity|].
  unfold aps, apply_awrites in *. cbn [map fold_left apply_app]. apply IH.
Qed.

Lemma app_ws_kind batched m h hash : forallb is_apw (app_ws batched m h hash) = true.
Proof.
  unfold app_ws. destruct batched; [reflexivity|]. induction (awrites m h hash) as [|a r IH]; [reflexivity|exact IH].
Qed.

Lemma save_all_kind : forall ms c c' ids ws, save_all c ms = (c', ids, ws) -> forallb is_evw ws = true.
Proof.
  induction ms as [|[a0 a] r IH]; intros c c' ids ws Hs.
  - cbn in Hs. inversion Hs. reflexivity.
  - rewrite save_all_cons in Hs. unfold save_key in Hs.
    destruct (index_of a (cget a0 c)).
    + destruct (save_all c r) as [[c2 ids2] ws2] eqn:Er. injection Hs as E1 E2 E3. subst. exact (IH _ _ _ _ Er).
    + destruct (save_all _ r) as [[c2 ids2] ws2] eqn:Er. injection Hs as E1 E2 E3. subst. cbn. exact (IH _ _ _ _ Er).
Qed.

Lemma kind_ev_notr ws : forallb is_evw ws = true -> forallb (fun w => negb (is_trw w)) ws = true /\ forallb (fun w => negb (is_apw w)) ws = true.
Proof.
  induction ws as [|w r IH]; [split; reflexivity|]. cbn. intros H. apply andb_true_iff in H. destruct H as [Hw Hr].
  destruct (IH Hr) as [I1 I2]. rewrite I1, I2. destruct w; try discriminate; split; reflexivity.
Qed.
Lemma kind_tr_noev ws : forallb is_trw ws = true -> forallb (fun w => negb (is_evw w)) ws = true /\ forallb (fun w => negb (is_apw w)) ws = true.
Proof.
  induction ws as [|w r IH]; [split; reflexivity|]. cbn. intros H. apply andb_true_iff in H. destruct H as [Hw Hr].
  destruct (IH Hr) as [I1 I2]. rewrite I1, I2. destruct w; try discriminate; split; reflexivity.
Qed.
Lemma kind_ap_noev ws : forallb is_apw ws = true -> forallb (fun w => negb (is_evw w)) ws = true /\ forallb (fun w => negb (is_trw w)) ws = true.
Proof.
  induction ws as [|w r IH]; [split; reflexivity|]. cbn. intros H. apply andb_true_iff in H. destruct H as [Hw Hr].
  destruct (IH Hr) as [I1 I2]. rewrite I1, I2. destruct w; try discriminate; split; reflexivity.
Qed.

Lemma forallb_app_intro {A} (f : A -> bool) a b : forallb f a = true -> forallb f b = true -> forallb f (a ++ b) = true.
Proof. intros. rewrite forallb_app. apply andb_true_iff. split; assumption. Qed.

(* applying [wev ++ wtr ++ wap] of the three kinds *)
Lemma apply_three wev wtr wap d :
  forallb is_evw wev = true -> forallb is_trw wtr = true -> forallb is_apw wap = true ->
  apply_writes (wev ++ wtr ++ wap) d =
  {| cd_app := aps wap (cd_app d); cd_tree := trs wtr (cd_tree d); cd_ev := evs wev (cd_ev d) |}.
Proof.
  intros He Ht Ha. rewrite apply_writes_split.
  destruct (kind_ev_notr _ He) as [E1 E2]. destruct (kind_tr_noev _ Ht) as [T1 T2]. destruct (kind_ap_noev _ Ha) as [A1 A2].
  rewrite !aps_app, !trs_app, !evs_app.
  rewrite (aps_noap _ _ E2), (aps_noap _ _ T2), (trs_notr _ _ E1), (trs_notr _ _ A2), (evs_noev _ _ T1), (evs_noev _ _ A1).
  reflexivity.
Qed.

Lemma ev_writes_kind p : forallb is_evw (snd (ev_writes p)) = true.
Proof.
  unfold ev_writes. destruct (save_all (p_ev p) (p_ment p)) as [[c ids] ws] eqn:E. cbn [snd].
  apply forallb_app_intro; [exact (save_all_kind _ _ _ _ _ E)|reflexivity].
Qed.

(* ---- the simulation ------------------------------------------------------------------------------------ *)
Section Sim.
Variable keep : Z.
Variable batched : bool.
Hypothesis keep_pos : 1 <= keep.

(* the left state [l] is "behind or equal": indistinguishable appdb, the same loaded tree version,
   and on disk some prefix of the uncrashed block's events and tree writes *)
Definition behind (l s : cst) (ps : prep) : Prop :=
  aeq (app_of l) (app_of s) /\ flags_ok (app_of l) /\ 0 <= get_height (app_of l) /\
  load_tree l = load_tree s /\
  (exists jt, cd_tree (fst l) = trs (firstn jt (tree_ws keep (cd_tree (fst s)) (get_start (p_app ps)) (p_ver ps) (p_content ps))) (cd_tree (fst s))) /\
  load_ev l = eload (cd_ev (fst l)) /\
  (exists je, cd_ev (fst l) = evs (firstn je (snd (ev_writes ps))) (cd_ev (fst s))).

Lemma block_sim l s blk ps s' o ws :
  cgood s -> prepare s blk = Val ps -> run_block keep batched s blk = Val (s', o, ws) ->
  behind l s ps ->
  exists l' ws', run_block keep batched l blk = Val (l', o, ws') /\ fst l' = fst s' /\ cgood l'.
Proof.
  intros (AG & TG & EG) Pp R (A & FL & HL & LT & (jt & JT) & LE & (je & JE)).
  destruct (tgood_load _ TG) as (c0 & Lts & Hc0).
  destruct TG as (c0' & TG1 & TG2 & TG3).
  assert (c0' = c0) by congruence. subst c0'.
  pose proof (egood_load _ EG) as ECL.
  (* facts about the uncrashed prepare *)
  destruct (prepare_sim s s blk ps (aeq_refl _) eq_refl Pp) as (ps2 & Pp2 & _ & EVs & FSs & TLs & FLs & HSs & STs & VERs & PHs).
  rewrite Pp in Pp2. inversion Pp2. subst ps2. clear Pp2.
  destruct AG as [[COH [FOK HPOS]] SET].
  assert (HP' : 0 <= get_height (app_of s)) by exact HPOS.
  specialize (FLs FOK). specialize (VERs _ Lts). cbn [fst] in VERs.
  (* the left prepare *)
  destruct (prepare_sim l s blk ps A LT Pp) as (pl & Ppl & (PA & PH & PV & PC & PM & PR) & EVl & FSl & TLl & FLl & HSl & STl & _ & _).
  specialize (FLl FL).
  (* the version is new in the uncrashed tree *)
  assert (Hfresh : aget (p_ver ps) (cd_tree (fst s)) = None) by (apply TG3; lia).
  (* uncrashed writes *)
  unfold run_block in R. rewrite Pp in R. cbn [obind] in R.
  rewrite commit_writes_shape, (tree_writes_fresh keep _ _ _ Hfresh) in R. cbn [obind fst snd] in R.
  set (wtree := tree_ws keep (cd_tree (fst s)) (get_start (p_app ps)) (p_ver ps) (p_content ps)) in *.
  assert (Kwtree : forallb is_trw wtree = true).
  { unfold wtree, tree_ws. destruct ((get_start (p_app ps) <=? p_ver ps - keep - 1) && is_some (aget (p_ver ps - keep - 1) (cd_tree (fst s)))); reflexivity. }
  rewrite (apply_three _ _ _ _ (ev_writes_kind ps) Kwtree (app_ws_kind _ _ _ _)) in R.
  (* events of the left run *)
  unfold ev_writes in JE, R. rewrite EVs in JE, R.
  destruct (save_all (load_ev s) (p_ment ps)) as [[cE ids] wsE] eqn:ES. cbn [snd fst] in JE, R.
  destruct (ev_full _ _ _ je _ _ _ (p_h ps) ECL ES) as (wsE' & SE1 & SE2 & SE3).
  rewrite <- JE in SE1, SE2.
  (* tree of the left run *)
  assert (STeq : get_start (p_app pl) = get_start (p_app ps)) by (apply aeq_start; exact PA).
  destruct (tree_replay keep (cd_tree (fst s)) (get_start (p_app ps)) ps jt (fst l) keep_pos Hfresh JT) as (wt' & TW & TR & Kwt').
  (* the left run *)
  unfold run_block. rewrite Ppl. cbn [obind]. rewrite commit_writes_shape.
  assert (TWl : tree_writes keep (fst l) (get_start (p_app pl)) pl = Val wt').
  { rewrite <- TW. unfold tree_writes. rewrite PV, PC, STeq. reflexivity. }
  rewrite TWl. cbn [obind fst snd].
  assert (EWl : ev_writes pl = (cE, wsE' ++ [WEvHeight (p_h ps) ids])).
  { unfold ev_writes. rewrite EVl, LE, PM, SE1, PH. reflexivity. }
  rewrite EWl. cbn [fst snd].
  assert (Kev' : forallb is_evw (wsE' ++ [WEvHeight (p_h ps) ids]) = true).
  { apply forallb_app_intro; [exact (save_all_kind _ _ _ _ _ SE1)|reflexivity]. }
  rewrite (apply_three _ _ _ _ Kev' Kwt' (app_ws_kind _ _ _ _)).
  inversion R. subst s' o ws. clear R. cbn [fst].
  (* disk equality *)
  assert (DE : {| cd_app := aps (app_ws batched (snd (p_app pl)) (p_h pl) (p_content pl)) (cd_app (fst l));
                  cd_tree := trs wt' (cd_tree (fst l));
                  cd_ev := evs (wsE' ++ [WEvHeight (p_h ps) ids]) (cd_ev (fst l)) |} =
               {| cd_app := aps (app_ws batched (snd (p_app ps)) (p_h ps) (p_content ps)) (cd_app (fst s));
                  cd_tree := trs wtree (cd_tree (fst s));
                  cd_ev := evs (wsE ++ [WEvHeight (p_h ps) ids]) (cd_ev (fst s)) |}).
  { f_equal.
    - rewrite !aps_app_ws. rewrite <- FSl, <- FSs, <- !surjective_pairing, PH, PC.
      apply aeq_commit; assumption.
    - exact TR.
    - exact SE2. }
  assert (Hh : p_h pl <> 0) by (rewrite PH, PHs; lia).
  assert (Hhs : p_h ps <> 0) by (rewrite PHs; lia).
  assert (APP : forall D T E MT ME, app_of ({| cd_app := aps (app_ws batched (snd (p_app pl)) (p_h pl) (p_content pl)) D; cd_tree := T; cd_ev := E |},
                {| cm_app := commit_mem (snd (p_app pl)) (p_h pl); cm_tree := MT; cm_ev := ME |})
                = (aps (app_ws batched (snd (p_app pl)) (p_h pl) (p_content pl)) D, commit_mem (snd (p_app pl)) (p_h pl))) by reflexivity.
  assert (APPl : (aps (app_ws batched (snd (p_app pl)) (p_h pl) (p_content pl)) (cd_app (fst l)), commit_mem (snd (p_app pl)) (p_h pl))
                 = commit true (p_app pl) (p_h pl) (p_content pl)).
  { rewrite aps_app_ws, <- FSl, <- surjective_pairing.
    rewrite (commit_mem_eq (fst (p_app pl)) (snd (p_app pl)) (p_h pl) (p_content pl)), <- !surjective_pairing. reflexivity. }
  assert (APPs : (aps (app_ws batched (snd (p_app ps)) (p_h ps) (p_content ps)) (cd_app (fst s)), commit_mem (snd (p_app ps)) (p_h ps))
                 = commit true (p_app ps) (p_h ps) (p_content ps)).
  { rewrite aps_app_ws, <- FSs, <- surjective_pairing.
    rewrite (commit_mem_eq (fst (p_app ps)) (snd (p_app ps)) (p_h ps) (p_content ps)), <- !surjective_pairing. reflexivity. }
  eexists. eexists. split.
  { (* observations *)
    apply f_equal. apply f_equal2; [apply f_equal2; [reflexivity|]|reflexivity].
    cbn [fst snd].
    f_equal; [exact PR|exact PC| |rewrite DE, PH; reflexivity].
    unfold app_of. cbn [fst snd cd_app cm_app]. rewrite APPl, APPs.
    rewrite (commit_view _ _ _ Hh TLl FLl), (commit_view _ _ _ Hhs TLs FLs), PH, PC.
    destruct PA as [PAv _]. unfold vcommit.
    pose proof (f_equal v_start PAv) as Q1. pose proof (f_equal v_vals PAv) as Q2.
    pose proof (f_equal v_times PAv) as Q3. pose proof (f_equal v_versions PAv) as Q4.
    pose proof (f_equal v_emission PAv) as Q5. pose proof (f_equal v_price PAv) as Q6.
    cbn [blind v_start v_vals v_times v_versions v_emission v_price] in Q1, Q2, Q3, Q4, Q5, Q6. rewrite Q1, Q2, Q3, Q4, Q5, Q6. reflexivity. }
  split; [exact DE|].
  (* the left state after Commit is good *)
  unfold cgood. rewrite APP, APPl. split; [|split].
  - destruct (commit_coherent (p_app pl) (p_h pl) (p_content pl) Hh TLl FLl) as (CC & CF & _).
    split; [split; [exact CC|split; [exact CF|]]|apply commit_settled; exact TLl].
    rewrite (commit_view _ _ _ Hh TLl FLl). cbn. rewrite PH, PHs. lia.
  - unfold tgood. rewrite APP, APPl. cbn [fst snd cd_tree cm_tree].
    assert (GH : get_height (commit true (p_app pl) (p_h pl) (p_content pl)) = p_h pl).
    { change (v_height (view_of (commit true (p_app pl) (p_h pl) (p_content pl))) = p_h pl).
      rewrite (commit_view _ _ _ Hh TLl FLl). reflexivity. }
    rewrite GH. exists (p_content pl).
    assert (VH : p_ver ps = p_h ps) by (rewrite VERs, PHs; reflexivity).
    rewrite TR. unfold wtree.
    split; [|split].
    + rewrite (tree_ws_after keep _ _ _ _ _ keep_pos), PH, <- VH, Z.eqb_refl, PC. reflexivity.
    + right. rewrite PV, PH, VH. reflexivity.
    + intros v Hv. rewrite (tree_ws_after keep _ _ _ _ _ keep_pos).
      destruct (Z.eqb_spec v (p_ver ps)) as [E|N]; [lia|].
      destruct ((v =? p_ver ps - keep - 1) && (get_start (p_app ps) <=? p_ver ps - keep - 1)); [reflexivity|].
      apply TG3. lia.
  - exists cE. cbn [fst snd cd_ev cm_ev]. split; [|right; reflexivity].
    rewrite SE2. exact SE3.
Qed.
End Sim.
