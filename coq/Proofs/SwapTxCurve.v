(* C12 at the transaction level: what an accepted sell-all along the bonding curve returns, in the model of
   sell_all_coin.go (Model/SwapTx.v, tied to the node by model 19 of the correspondence). *)
From Minter Require Import Base SwapTx.
From Coq Require Import ZArith List Lia Bool.
Import ListNotations.
Open Scope Z_scope.

Section Curve.
Variables o_pr o_pa o_sr o_sa : Z -> Z -> Z -> Z -> Z.

(* the curve the sale happens on: when the fee came out of the sold coin's reserve (not through a pool), the coin's
   supply and reserve without the fee *)
Definition sell_all_curve (w : world) (csell commission price : Z) (is_pool : bool) : bcoin :=
  if negb is_pool && negb (csell =? 0) then adj (coin_or_base w csell) commission price else coin_or_base w csell.

Lemma with_commission_return w sender gas commission price is_pool minOut whole effs0 tg0 effs tg :
  with_commission w sender gas commission price is_pool minOut whole (fun _ => Val (effs0, tg0)) (mk_tags commission is_pool) = Accept effs tg ->
  tag_return tg = tag_return tg0.
Proof.
  unfold with_commission.
  destruct (commission_deliver w sender gas commission price is_pool minOut) as [[ce cib]| |s]; try discriminate.
  intros H; inversion H; subst; reflexivity.
Qed.

Theorem sell_all_coin_return_on_curve_after_fee w t csell cbuy vmin effs tg :
  t_data t = SellAllCoin csell cbuy vmin -> csell <> 0 ->
  run o_pr o_pa o_sr o_sa w t true = Accept effs tg ->
  exists commission is_pool,
    calc_commission o_sa w csell (tx_price (w_prices w) t) = Ok (commission, is_pool) /\
    let k := sell_all_curve w csell commission (tx_price (w_prices w) t) is_pool in
    let value := bal w (t_sender t) csell - commission in
    let bip := o_sr (bc_vol k) (bc_res k) (bc_crr k) value in
    0 < value /\ value <= bc_vol k /\
    tag_return tg = (if cbuy =? 0 then bip
                     else o_pr (bc_vol (coin_or_base w cbuy)) (bc_res (coin_or_base w cbuy)) (bc_crr (coin_or_base w cbuy)) bip).
Proof.
  intros Hd Hne. unfold run, commission_coin. rewrite Hd. cbv beta iota zeta.
  assert (Hz : (csell =? 0) = false) by (apply Z.eqb_neq; exact Hne).
  rewrite !Hz. cbn [negb].
  destruct (basic_check_coins w csell cbuy); [discriminate|].
  destruct (calc_commission o_sa w csell (tx_price (w_prices w) t)) as [[commission is_pool]|c|s]; try discriminate.
  destruct (negb (commission <? bal w (t_sender t) csell)); [discriminate|].
  destruct (negb (0 <? bal w (t_sender t) csell - commission)) eqn:Hpos; [discriminate|].
  replace (if negb is_pool && true then adj (coin_or_base w csell) commission (tx_price (w_prices w) t) else coin_or_base w csell)
    with (sell_all_curve w csell commission (tx_price (w_prices w) t) is_pool)
    by (unfold sell_all_curve; rewrite Hz; reflexivity).
  set (k := sell_all_curve w csell commission (tx_price (w_prices w) t) is_pool).
  unfold sale_return_and_check.
  destruct (bc_vol k <? bal w (t_sender t) csell - commission) eqn:Hv; [discriminate|].
  destruct (bc_res k - o_sr (bc_vol k) (bc_res k) (bc_crr k) (bal w (t_sender t) csell - commission) <? min_coin_reserve); [discriminate|].
  match goal with |- context [if ?b then Reject cCoinSupplyOverflow else _] => destruct b end; [discriminate|].
  match goal with |- context [if ?b then Reject cMinimumValueToBuyReached else _] => destruct b end; [discriminate|].
  intros H. apply with_commission_return in H. cbn [ret_tags tag_return] in H.
  exists commission, is_pool. split; [reflexivity|]. cbv zeta. fold k.
  apply negb_false_iff in Hpos. apply Z.ltb_lt in Hpos. apply Z.ltb_ge in Hv.
  split; [exact Hpos|]. split; [exact Hv|].
  rewrite H. destruct (cbuy =? 0); reflexivity.
Qed.
End Curve.
