(* C13 — swap pools never lose value to traders.  Theorems only; proofs are in Proofs/. *)
From Minter Require Import Base Consts Pool Float Orders PoolFacts OrdersFacts FloatFacts.
From Coq Require Import ZArith List.
Import ListNotations.
Open Scope Z_scope.

(* (1) plain pool trades: whenever the amount to receive/pay is computable, the trade is
   applied (no ErrorK / liquidity panic), pays out less than the reserve, and the product
   of the reserves does not decrease.  All magnitudes. *)
Theorem C13_sell_keeps_K : forall r0 r1 a o minOut,
  0 < r0 -> 0 < r1 -> 0 < a -> calc_buy_for_sell r0 r1 a = Val o -> minOut <= o ->
  pair_sell r0 r1 a minOut = Val (r0 + a, r1 - o, o) /\
  0 < o < r1 /\ r0 * r1 <= (r0 + a) * (r1 - o).
Proof.
  intros r0 r1 a o m H0 H1 Ha E Hm. split; [exact (pair_sell_ok r0 r1 H0 H1 a o m Ha E Hm)|].
  destruct (buy_for_sell_spec r0 r1 H0 H1 a o (Z.lt_le_incl _ _ Ha) E) as (A & B & _ & C). auto.
Qed.

Theorem C13_buy_keeps_K : forall r0 r1 out i maxIn,
  0 < r0 -> 0 < r1 -> 0 < out -> calc_sell_for_buy r0 r1 out = Val i -> i <= maxIn ->
  pair_buy r0 r1 maxIn out = Val (r0 + i, r1 - out, i) /\
  out < r1 /\ 0 < i /\ r0 * r1 <= (r0 + i) * (r1 - out).
Proof.
  intros r0 r1 out i m H0 H1 Ho E Hm. split; [exact (pair_buy_ok r0 r1 H0 H1 out i m Ho E Hm)|].
  destruct (sell_for_buy_spec r0 r1 H0 H1 out i Ho E) as (A & B & _ & C). auto.
Qed.

(* (2) trades that cross limit orders (PairV2.SellWithOrders / BuyWithOrders): for ANY
   value of the float/sqrt oracle and any order book, a completed trade leaves the
   reserve product no smaller, both reserves positive, and respects the limit. *)
Theorem C13_sell_with_orders_keeps_K : forall (orc : Z -> Z -> Z -> Z -> Z) dir r0 r1 book a m t,
  0 < r0 -> 0 < r1 ->
  sell_with_orders orc rat_mul_int dir r0 r1 book a m = Val t ->
  r0 * r1 <= t_r0 t * t_r1 t /\ r0 <= t_r0 t /\ 0 < t_r1 t /\ 0 < t_out t /\ m <= t_out t.
Proof. intros orc; exact (sell_with_orders_K orc rat_mul_int rat_mul_int_nonneg). Qed.

Theorem C13_buy_with_orders_keeps_K : forall (orc : Z -> Z -> Z -> Z -> Z) dir r0 r1 book m o t,
  0 < r0 -> 0 < r1 ->
  buy_with_orders orc rat_div_int dir r0 r1 book m o = Val t ->
  r0 * r1 <= t_r0 t * t_r1 t /\ r0 <= t_r0 t /\ 0 < t_r1 t /\ t_out t = o /\ 0 < t_in t.
Proof. intros orc; exact (buy_with_orders_K orc rat_div_int rat_div_int_nonneg). Qed.

(* (3) liquidity: add, then remove exactly the minted pool tokens: never more of either
   coin than was put in, and the pool keeps at least its previous reserves *)
Theorem C13_add_then_remove : forall r0 r1 total a0 l n0 n1 x0 x1 m0 m1,
  0 < r0 -> 0 < r1 -> 0 < total -> 0 <= a0 ->
  mint r0 r1 a0 total = Val (l, n0, n1) ->
  burn n0 n1 l 0 0 (total + l) = Val (x0, x1, m0, m1) ->
  x0 <= a0 /\ x1 <= n1 - r1 /\ r0 <= m0 /\ r1 <= m1.
Proof.
  intros r0 r1 total a0 l n0 n1 x0 x1 m0 m1 H0 H1 Ht Ha Hm Hb.
  destruct (mint_spec r0 r1 total H0 H1 a0 l n0 n1 Ha Hm) as (_ & _ & _ & En1 & _).
  destruct (mint_then_burn r0 r1 total H0 H1 Ht a0 l n0 n1 x0 x1 m0 m1 Ha Hm Hb) as (A & B & C & D).
  repeat split; try assumption. rewrite En1. replace (r1 + a0 * r1 / r0 - r1) with (a0 * r1 / r0) by ring. exact B.
Qed.

(* (4) removing liquidity returns at most the proportional share l/total of each reserve
   and never empties the pool unless the whole supply is burned *)
Theorem C13_remove_share : forall r0 r1 total l min0 min1 x0 x1 m0 m1,
  0 < r0 -> 0 < r1 -> 0 < total -> 0 <= l -> l <= total ->
  burn r0 r1 l min0 min1 total = Val (x0, x1, m0, m1) ->
  x0 * total <= l * r0 /\ x1 * total <= l * r1 /\ m0 = r0 - x0 /\ m1 = r1 - x1 /\
  (l < total -> 0 < m0 /\ 0 < m1).
Proof.
  intros r0 r1 total l min0 min1 x0 x1 m0 m1 H0 H1 Ht Hl0 Hl Hb.
  destruct (burn_share r0 r1 total H0 H1 Ht l x0 x1 m0 m1 min0 min1 Hl0 Hl Hb) as (A & B & _ & _ & C & D & _ & _ & E).
  auto.
Qed.

(* (5) pool creation mints sqrt(a0*a1) > minimum liquidity (1000, spec literal) *)
Theorem C13_create_min_liquidity : forall a0 a1 l n0 n1,
  create a0 a1 = Val (l, n0, n1) -> 1000 < l /\ l = Z.sqrt (a0 * a1) /\ n0 = a0 /\ n1 = a1.
Proof. exact create_spec. Qed.

(* non-vacuity: concrete states meet the hypotheses and exercise every branch *)
Example C13_sell_example :
  calc_buy_for_sell 1000000 2000000 5000 = Val 9930 /\
  pair_sell 1000000 2000000 5000 0 = Val (1005000, 1990070, 9930).
Proof. vm_compute. auto. Qed.

Example C13_orders_example :
  let book := [ {| oid := 1; obuy := 20000000000; osell := 39000000000; oowner := 7; oheight := 1 |} ] in
  match sell_with_orders oracle_float rat_mul_int true 1000000000000 2000000000000 book 60000000000 0 with
  | Val t => t_fills t <> [] /\ 1000000000000 * 2000000000000 <= t_r0 t * t_r1 t
  | _ => False
  end.
Proof. vm_compute. split; [discriminate|discriminate]. Qed.

Example C13_liquidity_example :
  mint 1000 3000 100 5000 = Val (500, 1100, 3300) /\
  burn 1100 3300 500 0 0 5500 = Val (100, 300, 1000, 3000).
Proof. vm_compute. auto. Qed.

Print Assumptions C13_sell_keeps_K.
Print Assumptions C13_buy_keeps_K.
Print Assumptions C13_sell_with_orders_keeps_K.
Print Assumptions C13_buy_with_orders_keeps_K.
Print Assumptions C13_add_then_remove.
Print Assumptions C13_remove_share.
Print Assumptions C13_create_min_liquidity.
