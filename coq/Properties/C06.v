(* C06 — CheckTx accepts exactly the transactions DeliverTx accepts.  Theorems only. *)
From Minter Require Import Base Consts Ledger LedgerFacts LedgerTx LedgerProps LedgerExample.
From Coq Require Import ZArith List.
Import ListNotations.
Open Scope Z_scope.

(* For any state and any (decodable) transaction, with the gas-price floor at 0 and an empty
   mempool, check mode accepts iff deliver mode, applied to the same state, accepts. *)
Theorem C06_check_iff_deliver : forall s t, check s t = 0 <-> snd (deliver s t) = 0.
Proof. exact check_iff_deliver. Qed.

(* check mode never changes the state (it returns only a code) — by construction of [check];
   and the deliver-only branches (failure fee, ticker-fee burn) never turn acceptance into
   rejection or vice versa *)
Theorem C06_ticker_branch_never_fails : forall s t, fst (symbol_branch s t) = 0.
Proof. exact symbol_branch_ok. Qed.

Example C06_example :
  check ex_state ex_send = 0 /\ snd (deliver ex_state ex_send) = 0 /\
  check ex_state ex_overspend = 107 /\ snd (deliver ex_state ex_overspend) = 107 /\
  (* a free ticker / gas price 0: accepted by both (the defect repaired by f5184b1) *)
  check ex_state (mk_tx 11 1 (CreateToken 4242 7 true 3 1000 5000 true true)) = 0.
Proof. vm_compute. repeat split. Qed.

(* tie to the two ABCI entry points (regenerated from coreV2/minter/blockchain.go on every run): CheckTx and
   DeliverTx hand the same block height, last committed height + 1, to the executor; the model's check and
   deliver take one state and one transaction and therefore one height *)
Example C06_entry_points_same_height : checktx_height_offset = delivertx_height_offset /\ delivertx_height_offset = 1.
Proof. split; reflexivity. Qed.

Print Assumptions C06_check_iff_deliver.
Print Assumptions C06_ticker_branch_never_fails.
