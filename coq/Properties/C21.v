(* C21 — a check pays out at most once, only to the holder of its password.  Theorems only.
   The signature scheme is abstract: the model receives the recovered issuer and whether the proof
   verifies for the redeemer (lock_state = 2) as data computed by the real primitives. *)
From Minter Require Import Base Ledger LedgerFacts LedgerTx LedgerProps LedgerCons LedgerReg LedgerExample.
From Coq Require Import ZArith List.
Import ListNotations.
Open Scope Z_scope.

(* A successful redemption happened at a block not after the due block (the code accepts the due
   block itself: "DueBlock: last block in which the check can be used"), on the right network, with a
   proof made with the check's password for the redeemer's own address, gas coin = the check's gas
   coin, gas price 1, and the check had not been used; it marks the check used, pays exactly the
   check's value of its coin from the issuer to the redeemer, and takes the fee from the issuer in
   the check's gas coin. *)
Theorem C21_redeem_spec : forall s t s' issuer coin gascoin value due id lock_state chain_ok,
  is_redeem t issuer coin gascoin value due id lock_state chain_ok ->
  deliver s t = (s', 0) ->
  s_height s <= due /\ chain_ok = true /\ lock_state = 2 /\ t_gas_coin t = gascoin /\ t_gas_price t = 1 /\
  ~ In id (s_used s) /\ In id (s_used s') /\
  exists com, calc_commission gascoin (tx_price (s_prices s) t) = Some com /\
    s_rpool s' = s_rpool s + com /\
    forall a k, get_bal (s_bal s') a k =
                get_bal (s_bal s) a k + (if hit issuer gascoin a k then - com else 0) + (if hit issuer coin a k then - value else 0)
                + (if hit (sender_of t) coin a k then value else 0).
Proof. exact redeem_spec. Qed.

(* the used set only grows along any history *)
Theorem C21_used_monotone : forall ops s id, In id (s_used s) -> In id (s_used (run_ops s ops)).
Proof. exact run_ops_used_grows. Qed.

(* a redeemed check can never be redeemed again: after a successful redemption, any redemption of a
   check with the same identity, by anybody, after any history, is rejected (in deliver and check mode) *)
Theorem C21_at_most_once : forall s t s1 ops t' issuer coin gascoin value due id ls ch issuer' coin' gascoin' value' due' ls' ch',
  is_redeem t issuer coin gascoin value due id ls ch -> deliver s t = (s1, 0) ->
  is_redeem t' issuer' coin' gascoin' value' due' id ls' ch' ->
  snd (deliver (run_ops s1 ops) t') <> 0.
Proof. exact at_most_once. Qed.

Example C21_example :
  let s1 := fst (deliver ex_state ex_redeem) in
  snd (deliver ex_state ex_redeem) = 0 /\ s_used s1 = [9001] /\
  snd (deliver s1 (mk_tx 11 1 (RedeemCheck 100 true true 4 true 12 0 0 250 60 9001 2))) = 503 /\
  (* expired: due block 49 < current block 50; a proof for another address; wrong network *)
  snd (deliver ex_state (mk_tx 13 1 (RedeemCheck 100 true true 4 true 12 0 0 250 49 9002 2))) = 502 /\
  snd (deliver ex_state (mk_tx 13 1 (RedeemCheck 100 true true 4 true 12 0 0 250 60 9002 1))) = 501 /\
  snd (deliver ex_state (mk_tx 13 1 (RedeemCheck 100 true false 4 true 12 0 0 250 60 9002 2))) = 115.
Proof. vm_compute. repeat split. Qed.

Print Assumptions C21_redeem_spec.
Print Assumptions C21_used_monotone.
Print Assumptions C21_at_most_once.
