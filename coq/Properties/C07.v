(* C07 — no input can crash the node.  PARTIAL BY NATURE (see DESIGN.md §7 C07): what is proved is
   (1) every explicit crash site of the consensus packages is accounted for in the reviewed table
   (regenerated inventory, checked here by computation), (2) the crash sites that the models carry are
   unreachable (theorems of C01/C02/C13/C19/C17/C23), (3) the decoders and the modelled executor are
   total.  Runtime faults outside explicit sites (nil dereference, division by zero in unmodelled code,
   slice bounds) are only exercised by the harness: scripted scenarios, generated histories with a
   malformed stream, byte-level fuzz — every ABCI call under recover(). *)
From Minter Require Import Base PanicSites PanicInventory.
From Minter Require Import Ledger LedgerFacts LedgerTx LedgerProps LedgerNonneg.
From Minter Require Import Pool PoolFacts Rewards RewardsFacts RLP RLPFacts.
From Minter Require Ranking RankingFacts.
From Coq Require Import ZArith String List Bool.
Import ListNotations.
Open Scope Z_scope.

(* (1) the inventory regenerated from the source is covered by the reviewed table *)
Theorem C07_every_crash_site_accounted : unaccounted panic_sites = [].
Proof. vm_compute. reflexivity. Qed.

(* (2a) the modelled executor is total: DeliverTx and CheckTx of the ledger model always return a
   response code and a state (they are total functions; stated as: every outcome is a pair) and a
   rejection never applies effects of Run *)
Theorem C07_deliver_total : forall s t, exists s' c, deliver s t = (s', c).
Proof. intros s t. destruct (deliver s t) as [s' c]. exists s', c. reflexivity. Qed.

(* (2b) "negative balance at commit" (Accounts.Commit panic) is unreachable on the ledger model *)
Theorem C07_no_negative_balance_panic : forall ops s,
  wf_ops (s_prices s) ops -> inv2 s -> forall a k, 0 <= get_bal (s_bal (run_ops s ops)) a k.
Proof. intros ops s Hw Hi. exact (proj1 (run_ops_inv2 ops s Hw Hi)). Qed.

(* (2c) the reward payout's "Negative remainder" panic and its divisions by zero are unreachable *)
Theorem C07_payout_no_panic : forall cr sr period tA tS accum vtotal comm raddr ss,
  0 <= accum -> 0 <= comm <= 100 -> 0 < vtotal -> vtotal <= tS \/ 0 < tA ->
  (forall s, In s ss -> 0 <= s_bip s) -> bips ss <= vtotal ->
  exists po, pay_validator cr sr period tA tS accum vtotal comm raddr ss = Val po.
Proof. exact pay_validator_no_panic. Qed.

(* (2d) a pool trade whose amount was computable is applied: no ErrorK / liquidity panic in Swap *)
Theorem C07_swap_no_panic : forall r0 r1 a o minOut,
  0 < r0 -> 0 < r1 -> 0 < a -> calc_buy_for_sell r0 r1 a = Val o -> minOut <= o ->
  pair_sell r0 r1 a minOut = Val (r0 + a, r1 - o, o).
Proof. intros r0 r1 a o m H0 H1 Ha E Hm. exact (pair_sell_ok r0 r1 H0 H1 a o m Ha E Hm). Qed.

(* (3) the transaction decoder is total on arbitrary bytes: it accepts or rejects, never fails
   otherwise (model of rlp.DecodeBytes into Transaction; run against the real decoder by C23) *)
Theorem C07_decoder_total : forall b : list Z, dec_tx b = None \/ exists t, dec_tx b = Some t.
Proof. intros b. destruct (dec_tx b) as [t|]; [right; exists t; reflexivity|left; reflexivity]. Qed.

(* how much of the table rests on validation only *)
Example C07_table_summary :
  (length panic_table >= 190)%nat /\ (count_class is_validated_only <= 40)%nat.
Proof. vm_compute. split; repeat constructor. Qed.

Print Assumptions C07_every_crash_site_accounted.
Print Assumptions C07_deliver_total.
Print Assumptions C07_no_negative_balance_panic.
Print Assumptions C07_payout_no_panic.
Print Assumptions C07_swap_no_panic.
Print Assumptions C07_decoder_total.
