(* C09 — a restarted node continues exactly like one that never stopped.
   Proved here for the appdb layer (height, hash, start height, validators, block times,
   versions, emission, price: caches, dirty flags, Save* guards, the Commit write order):
   complete and exact.  The state modules' caches (order-book sort lists, candidates, ...)
   are NOT modelled; for them the claim rests on the node-level restart differential of the
   check (assumption [modules_from_tree] in DESIGN.md) — C09 is partial in that respect. *)
From Minter Require Import Base Persist PersistFacts PersistGen.
From Coq Require Import ZArith List.
Import ListNotations.
Open Scope Z_scope.

(* ---- tie to the source (regenerated on every run by harness/cmd/xlate) -------------------
   The model's Commit performs the appdb writes in this order and with these guards; the
   translator extracts the same facts from blockchain.go / appdb.go.  [emission_guard_of_code]
   is the model parameter selected by what the code does today. *)
Definition zl_eq (a b : list Z) : bool := if list_eq_dec Z.eq_dec a b then true else false.

Definition emission_guard_of_code : bool :=
  (guard_SaveEmission =? 1) && (set_emission_raises_dirtyE =? 1) && (save_emission_clears_dirtyE =? 1).

Definition code_shape_ok : bool :=
  zl_eq commit_order [30; 40; 50; 8; 1; 2; 3; 4; 5; 6; 7; 9] &&   (* 8 / 9: AppDB.BeginCommit / EndCommit, the atomic batch of fix ba5358b *)
  (guard_SavePrice =? 2) && (guard_SaveVersions =? 3) && (guard_FlushValidators =? 4) &&
  (guard_SaveBlocksTime =? 0) && (set_price_raises_dirtyP =? 1) && (save_price_clears_dirtyP =? 0) &&
  (add_version_raises_dirtyV =? 1) && (save_versions_clears_dirtyV =? 1).

Theorem C09_model_matches_code_shape : code_shape_ok = true /\ emission_guard_of_code = true.
Proof. split; reflexivity. Qed.

(* the state InitChain leaves behind: whatever was written was saved *)
Definition initial_ok (s : st) : Prop := good s.

(* For every history of blocks (each block an arbitrary program over the appdb API that
   reads only through the getters), with any number of restarts after any blocks: the
   logical view (what every getter returns: height, hash, validators, block times,
   versions, emission, price) after every block, and at the end, equals that of the run
   without restarts.  Hence every response computed from those values is equal too. *)
Theorem C09_restart_transparent : forall (h : list (block * nat)) (s : st),
  initial_ok s ->
  snd (run_hist emission_guard_of_code s h) = snd (run_hist emission_guard_of_code s (no_restarts h)) /\
  view_of (fst (run_hist emission_guard_of_code s h)) = view_of (fst (run_hist emission_guard_of_code s (no_restarts h))).
Proof.
  intros h s G. change emission_guard_of_code with true.
  exact (run_hist_restarts h s s eq_refl G G).
Qed.

(* The tree before the fix (SaveEmission guarded by the price flag) violates it: a block that
   adds to the emission, two restarts around another such block, and the emission is lost. *)
Definition emit_block (t : Z) : block :=
  {| b_time := t;
     b_steps := [fun v => Some (SetEmission (odef 0 (v_emission v) + 100))];
     b_hash := fun _ => 7 |}.

Definition init_state : st :=
  ({| d_height := Some 99; d_hash := None; d_start := Some 99; d_vals := Some [1]; d_times := None;
      d_versions := Some [(300, 99)]; d_emission := Some 1000; d_price := Some [0; 1; 1; 74; 0] |}, empty_mem).

Theorem C09_refuted_before_fix :
  exists h, v_emission (view_of (fst (run_hist false init_state h)))
         <> v_emission (view_of (fst (run_hist false init_state (no_restarts h)))).
Proof.
  exists [(emit_block 10, 1%nat); (emit_block 15, 1%nat)].
  vm_compute. discriminate.
Qed.

(* non-vacuity: the initial state satisfies the hypothesis, and with the fix the same
   history keeps the emission *)
Example C09_init_good : initial_ok init_state.
Proof.
  unfold initial_ok, good, coherent. split; [reflexivity|]. split; [|vm_compute; discriminate].
  unfold flags_ok. cbn. repeat split; auto; discriminate.
Qed.

Example C09_fixed_history :
  v_emission (view_of (fst (run_hist true init_state [(emit_block 10, 1%nat); (emit_block 15, 2%nat)]))) = Some 1200.
Proof. vm_compute. reflexivity. Qed.

Print Assumptions C09_model_matches_code_shape.
Print Assumptions C09_restart_transparent.
Print Assumptions C09_refuted_before_fix.
