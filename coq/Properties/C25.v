(* C25 — concurrent queries never crash or perturb block execution.
   Part 1 (crash): Go maps fault, and Go's memory model gives no guarantee, exactly when two
   goroutines access one location concurrently and one access is a write.  The lockset discipline
   (every access to a shared field under one of its guard mutexes; writes under all of them in W mode)
   excludes that for every interleaving.  Generated/Locks.v is the table of all accesses to the
   shared fields of the state modules with the locks that must be held there, regenerated from /repo
   on every run; the sites the discipline does not cover are computed here and reported by the
   harness one by one (key c25-unguarded:<file>:<func>:<field>).
   Part 2 (perturb): queries only write caches; a query that stores, in one critical section, the
   value the committed tree holds for an absent key is invisible to the executor, for every
   interleaving.  A fill whose absence check and store are two critical sections is NOT (refuted). *)
From Minter Require Import Lockset LocksetFacts Locks.
From Coq Require Import List Bool ZArith String.
Import ListNotations.

Definition repo_guard : string -> list string := guard_of guard_table.

(* ---- part 1: the discipline excludes races ---------------------------------------------- *)

(* threads = arbitrary lists of Acq/Rel/Read/Write; thread_ok = well bracketed, no re-acquisition,
   every Read of f under a guard of f (R or W mode), every Write of f under all guards of f in W mode *)
Theorem C25_lockset_race_free : forall (guard : string -> list string) (P : nat -> thread),
  (forall i, thread_ok guard (P i) = true) ->
  forall c, reach (init P) c -> ~ race c.
Proof. exact lockset_race_free. Qed.

(* a table accepted by all_guarded: threads that execute any sequence of its (relevant) sites, each as
   the critical section the table describes, never race *)
Theorem C25_table_race_free : forall guard tbl (S : nat -> list access),
  all_guarded guard tbl = true ->
  (forall i a, In a (S i) -> In a tbl /\ relevant tbl a = true) ->
  forall c, reach (init (fun i => flat_map block_of (S i))) c -> ~ race c.
Proof. exact table_race_free. Qed.

(* the translator's list of unguarded sites is exactly what Coq's checker computes from the table *)
Example C25_unguarded_sites : unguarded_keys repo_guard accesses = xlate_unguarded.
Proof. vm_compute. reflexivity. Qed.

(* the tree as it is: threads that stay away from the reported sites never race, whatever the schedule *)
Theorem C25_repo_race_free_except_reported : forall (S : nat -> list access),
  (forall i a, In a (S i) -> In a accesses /\ relevant accesses a = true /\
                             ~ In (site_key a) xlate_unguarded) ->
  forall c, reach (init (fun i => flat_map block_of (S i))) c -> ~ race c.
Proof.
  intros S HS. apply (table_race_free_except repo_guard accesses S).
  intros i a Ha. rewrite C25_unguarded_sites. exact (HS i a Ha).
Qed.

(* with the reported sites removed the table satisfies the discipline; as it stands it does not
   (xlate_unguarded is not empty on the current tree: these are the findings) *)
Example C25_rest_of_table_guarded : all_guarded repo_guard (without xlate_unguarded accesses) = true.
Proof. vm_compute. reflexivity. Qed.

Example C25_all_guarded_iff_nothing_reported :
  all_guarded repo_guard accesses = match xlate_unguarded with [] => true | _ => false end.
Proof. vm_compute. reflexivity. Qed.

(* lock order: the pairs of mutexes that can be taken in opposite orders (deadlock candidates) are
   exactly those the harness reports (key c25-lock-order:<a>|<b>); deadlock freedom is NOT covered by
   the theorems above, the runtime search looks for the actual hang (key c25-deadlock:...) *)
Example C25_lock_order_cycles : lock_cycle_keys lock_order lock_nodes = xlate_lock_cycles.
Proof. vm_compute. reflexivity. Qed.

Example C25_lock_order_example :
  (* a-b-c on a cycle with a query-side edge a->b; d-e opposite orders but both in block execution only *)
  lock_cycle_keys [("a", "b", true, ""); ("b", "c", false, ""); ("c", "a", false, ""); ("d", "e", false, ""); ("e", "d", false, "")]%string
                  ["a"; "b"; "c"; "d"; "e"]%string
  = ["c25-lock-order:a|b"]%string.
Proof. vm_compute. reflexivity. Qed.

(* non-vacuity: a disciplined pair of threads (reader under RLock, writer under Lock) ... *)
Definition ex_guard (f : string) : list string := if String.eqb f "pairs" then ["muPairs"%string] else [].
Definition ex_reader : thread := [Acq "muPairs" MR; Read "pairs"; Rel "muPairs"].
Definition ex_writer : thread := [Acq "muPairs" MW; Read "pairs"; Write "pairs"; Rel "muPairs"].
Example C25_example_disciplined :
  thread_ok ex_guard ex_reader = true /\ thread_ok ex_guard ex_writer = true /\
  thread_ok ex_guard [Read "pairs"] = false /\
  thread_ok ex_guard [Acq "muPairs" MR; Write "pairs"; Rel "muPairs"] = false.
Proof. vm_compute. auto. Qed.

(* ... and the shape of SwapV2.swapPools against SwapV2.Pair: the reader takes no lock, a race is reachable *)
Example C25_example_race_reachable :
  let P := fun i : nat => match i with 0 => [Read "pairs"] | 1 => ex_writer | _ => [] end in
  exists c, reach (init P) c /\ race c.
Proof.
  intro P.
  (* thread 1 acquires, reads, and is about to write while thread 0 is about to read *)
  pose (L1 := upd_lock (fun _ => free_mutex) "muPairs" (MS [] (Some 1))).
  pose (P1 := upd_prog P 1 [Read "pairs"; Write "pairs"; Rel "muPairs"]).
  pose (P2 := upd_prog P1 1 [Write "pairs"; Rel "muPairs"]).
  exists (Cfg L1 P2). split.
  - eapply reach_step; [eapply reach_step; [apply reach_refl |] |].
    + apply (Step (fun _ => free_mutex) P 1 (Acq "muPairs" MW) [Read "pairs"; Write "pairs"; Rel "muPairs"] L1); reflexivity.
    + apply (Step L1 P1 1 (Read "pairs") [Write "pairs"; Rel "muPairs"] L1); reflexivity.
  - exists 0, 1, "pairs"%string, false, true. repeat split; auto.
Qed.

(* ---- part 2: memoising queries are invisible to the executor ------------------------------ *)

(* executor actions EGet/ESet, query actions QFill (atomic fill); memo_only: every fill stores truth k.
   The executor's outputs (responses) and the logical content (what Commit writes, hence the app hash)
   are those of the run without any query. *)
Theorem C25_memo_transparent : forall (truth : Z -> Z) (tr : list mact) (c : cache),
  memo_only truth tr = true ->
  snd (mrun truth c tr) = snd (mrun truth c (erase tr)) /\
  forall k, view truth (fst (mrun truth c tr)) k = view truth (fst (mrun truth c (erase tr))) k.
Proof. exact memo_transparent. Qed.

(* hence: two interleavings of the same executor program with any memoising queries agree *)
Theorem C25_memo_interleaving_independent : forall (truth : Z -> Z) tr1 tr2 c,
  memo_only truth tr1 = true -> memo_only truth tr2 = true -> erase tr1 = erase tr2 ->
  snd (mrun truth c tr1) = snd (mrun truth c tr2) /\
  forall k, view truth (fst (mrun truth c tr1)) k = view truth (fst (mrun truth c tr2)) k.
Proof. exact memo_interleaving_independent. Qed.

(* REFUTED without atomicity: a fill that checks absence in one critical section and stores in another
   (QStore: the shape of Accounts.get / Coins.get / WaitList.get / FrozenFunds.get: getFromMap under RLock,
   later setToMap under Lock) overwrites what the executor wrote in between, although it stores exactly
   the tree value: the executor then reads the stale value (lost update). *)
Theorem C25_memo_nonatomic_refuted :
  exists (truth : Z -> Z) (tr : list mact) (c : cache),
    memo_values truth tr = true /\
    snd (mrun truth c tr) <> snd (mrun truth c (erase tr)).
Proof.
  exists (fun _ => 0%Z), [ESet 1 5; QStore 1 0; EGet 1]%Z, (fun _ => None).
  split; [vm_compute; reflexivity | vm_compute; discriminate].
Qed.

(* non-vacuity of the hypothesis and of the conclusion: a trace with fills, executor reads before and after *)
Example C25_memo_example :
  let truth := fun k : Z => (k * 10)%Z in
  let tr := [QFill 1 10; EGet 1; ESet 2 7; QFill 2 20; QFill 3 30; EGet 2; EGet 3]%Z in
  memo_only truth tr = true /\
  snd (mrun truth (fun _ => None) tr) = [10; 7; 30]%Z /\
  snd (mrun truth (fun _ => None) (erase tr)) = [10; 7; 30]%Z.
Proof. vm_compute. auto. Qed.

(* the query-side writes of the current tree (functions reachable from the read-only interfaces that
   write a shared field).  Reviewed one by one:
   - fills of a cache with the decoded tree value: PairV2.order, SwapV2.GetOrder (orders), SwapV2.Pair/addPair
     (pool registry, also a negative entry for a missing pool), loadPools, PairV2.setSellOrders /
     setLoaded*Orders / updateDirtyOrders (id lists loaded from the tree), Candidates.loadDeletedCandidates,
     Accounts.GetBalance / setToMap, Coins.setToMap / setSymbol*ToMap, WaitList.setToMap, FrozenFunds.setToMap,
     AppDB.getLastHeight / GetStartHeight / GetVersions / Emission (lazy loads from the app database);
   - writes to a private copy made by AddLastSwapStep(WithOrders) (context-insensitive reachability):
     PairV2.update, MarkDirtyOrders, setUnsortedSellOrder, setDeletedSellOrderIDs;
   - NOT a fill: SwapV2.markDirtyOrders#1 (and markDirty#1) — the copy made by AddLastSwapStepWithOrders keeps
     the live pair's markDirtyOrders closure, so a query marks the live pair "orders dirty"; Commit then finds
     no dirty order and writes nothing (checked dynamically by the perturbation differential);
   - Coins.markDirty: reachable only through RCoins.SubReserve, which no query calls.
   A new entry breaks this Example: review it, then update the list. *)
Definition expected_query_writes : list string := [
  "PairV2.order:orderList.list"; "PairV2.MarkDirtyOrders:orderDirties.list";
  "PairV2.setUnsortedSellOrder:orderDirties.list"; "PairV2.setDeletedSellOrderIDs:orderDirties.list";
  "PairV2.setSellOrders:limits.ids"; "PairV2.setLoadedSellOrders:limits.ids";
  "PairV2.setLoadedBuyOrders:limits.ids"; "SwapV2.GetOrder:orderList.list";
  "PairV2.updateDirtyOrders:orderDirties.list"; "SwapV2.loadPools:SwapV2.loadedPools";
  "SwapV2.Pair:SwapV2.pairs"; "SwapV2.markDirty#1:SwapV2.dirties";
  "SwapV2.markDirtyOrders#1:SwapV2.dirtiesOrders"; "SwapV2.addPair:SwapV2.pairs";
  "PairV2.update:pairData.Reserve0"; "PairV2.update:pairData.Reserve1";
  "Candidates.loadDeletedCandidates:Candidates.deletedCandidates";
  "Accounts.GetBalance:Model.balances"; "Accounts.setToMapIfAbsent:Accounts.list";
  "Coins.markDirty:Coins.dirty"; "Coins.setToMapIfAbsent:Coins.list";
  "Coins.setSymbolInfoToMapIfAbsent:Coins.symbolsInfoList"; "Coins.setSymbolToMapIfAbsent:Coins.symbolsList";
  "WaitList.setToMapIfAbsent:WaitList.list"; "FrozenFunds.setToMapIfAbsent:FrozenFunds.list";
  "AppDB.GetVersions:AppDB.versions"; "AppDB.Emission:AppDB.emission"]%string.

Example C25_query_write_sites :
  query_write_keys accesses = xlate_query_writes /\ xlate_query_writes = expected_query_writes.
Proof. vm_compute. split; reflexivity. Qed.

(* ---- the static sites: reviewed / reported --------------------------------------------- *)
(* Every static site the translator finds (unguarded access, opposite lock orders, re-acquisition, non-atomic
   fill) is either REVIEWED here, with the argument why it cannot go wrong although it violates the letter of the
   discipline, or REPORTED by the harness under its key (Generated/Locks.unguarded.txt).  The translator carries
   the same reviewed list (harness/cmd/xlate/locks.go, reviewedSites, with source facts it re-checks on every
   run); this Example pins it, with the number of unguarded accesses of each site: a Lock removed anywhere makes a
   new key or changes a count, the site is then reported AND this file stops compiling.
   Not listed because the translator proves them irrelevant: Validators.Create (unreachable: no call site in the
   repo, checked on every run). *)
Definition reviewed_sites : list (string * Z * string) := [
  ("c25-unguarded:coreV2/state/swap/orderV2.go:PairV2.getDirtyOrdersList:orderDirties.list", 1,
   "len(p.dirtyOrders.list) before the RLock, a capacity hint; called from SwapV2.Commit under pair.lockOrders; dirtyOrders.list of a live pair is written only by MarkDirtyOrders, whose callers on a live pair hold lockOrders and run in block execution; queries write it on private copies only");
  ("c25-unguarded:coreV2/state/swap/swapV2.go:SwapV2.Commit:SwapV2.dirties", 1,
   "s.dirties = map{} under muPairs.RLock: every other access is the markDirty closure under muPairs.Lock (excluded by the RLock) or getOrderedDirtyPairs in Commit itself (same goroutine)");
  ("c25-unguarded:coreV2/state/swap/swapV2.go:SwapV2.Commit:SwapV2.dirtiesOrders", 1,
   "s.dirtiesOrders = map{} under muPairs.RLock: every other access is the markDirtyOrders closure under muPairs.Lock (excluded by the RLock) or getOrderedDirtyOrderPairs in Commit itself (same goroutine)");
  ("c25-lock-not-released:coreV2/state/candidates/candidates.go:Candidates.Commit:Candidates.muDeletedCandidates", 1,
   "returns the rlp encoding error with the lock still held (error path only): State.Commit hands the error to Blockchain.Commit, which panics on it - the process stops, nobody waits for the lock; rlp encoding of this type does not fail (re-checked by the translator: blockchain.go still panics on the error)");
  ("c25-lock-not-released:coreV2/state/waitlist/waitlist.go:WaitList.Commit:Model.lock", 1,
   "returns the rlp encoding error with the lock still held (error path only): State.Commit hands the error to Blockchain.Commit, which panics on it - the process stops, nobody waits for the lock; rlp encoding of this type does not fail (re-checked by the translator: blockchain.go still panics on the error)");
  ("c25-lock-not-released:coreV2/state/frozenfunds/frozen_funds.go:FrozenFunds.Commit:Model.lock", 1,
   "returns the rlp encoding error with the lock still held (error path only): State.Commit hands the error to Blockchain.Commit, which panics on it - the process stops, nobody waits for the lock; rlp encoding of this type does not fail (re-checked by the translator: blockchain.go still panics on the error)");
  ("c25-relock:coreV2/state/validators/validators.go:Validators.IsValidator->Validators.GetValidators:Validators.lock", 0,
   "RLock inside RLock deadlocks only if another goroutine asks for the write lock in between; IsValidator is called only by Candidates.DeleteCandidate (block execution); the write lock is requested by block execution itself and by Count(), reached only from IsDelegatorStakeAllowed (Delegate: DeliverTx, and CheckTx which the local ABCI client serialises with block execution); no API/CLI handler calls either (re-checked by the translator)")
]%string%Z.

Definition all_static_keys : list string :=
  (xlate_unguarded ++ xlate_lock_leaks ++ xlate_lock_cycles ++ xlate_relocks ++ xlate_nonatomic_fills)%list.

Definition is_reviewed (k : string) : bool := existsb (fun r => String.eqb (fst r) k) xlate_reviewed.

Example C25_static_sites_reviewed :
  (xlate_reviewed = map fst reviewed_sites) /\
  (filter (fun k => negb (is_reviewed k)) all_static_keys = xlate_reported) /\
  (forallb (fun r => existsb (String.eqb (fst r)) all_static_keys) xlate_reviewed = true).
Proof. vm_compute. repeat split; reflexivity. Qed.

(* what the harness reports on the current tree: GENUINE defects, each demonstrated on the real node by
   `vharness c25 ... child firsttouch-<kind>` (after a restart, a query for the object races the first transaction
   that touches it: the transaction's effect is missing from the committed tree; keys c25-lost-update:<kind>).
   Empty once docs/proposals/c25-lost-update-{coins,waitlist,frozenfunds}.diff are applied. *)
Definition expected_reported : list string := [].

Example C25_reported_sites : xlate_reported = expected_reported.
Proof. vm_compute. reflexivity. Qed.

Print Assumptions C25_lockset_race_free.
Print Assumptions C25_table_race_free.
Print Assumptions C25_repo_race_free_except_reported.
Print Assumptions C25_memo_transparent.
Print Assumptions C25_memo_interleaving_independent.
Print Assumptions C25_memo_nonatomic_refuted.
