(* C02 — amounts never go negative and coin volume never exceeds max supply.  Theorems only.
   Ledger model (balances, frozen funds, coin volumes); pool reserves stay positive: C13
   (Properties/C13.v: every trade / mint / burn leaves both reserves positive); stakes: C17/C18
   arithmetic; the whole node is watched by the sign monitor on every export. *)
From Minter Require Import Base Ledger LedgerFacts LedgerTx LedgerProps LedgerCons LedgerReg LedgerNonneg LedgerExample.
From Minter Require CoinSupply CoinSupplyFacts Consts.
From Coq Require Import ZArith List.
Import ListNotations.
Open Scope Z_scope.

(* Along every history of block phases and transactions whose decoded amounts are non-negative
   (RLP integers are unsigned) under a price table with a non-negative failure fee: every balance
   is >= 0, every frozen fund is >= 0, and every coin's volume is between 1 and its max supply. *)
Theorem C02_nothing_negative : forall ops s,
  wf_ops (s_prices s) ops ->
  (forall a k, 0 <= get_bal (s_bal s) a k) -> (forall f, In f (s_frozen s) -> 0 <= snd f) ->
  (forall r, In r (s_coins s) -> 1 <= c_vol r <= c_max r) ->
  let s' := run_ops s ops in
  (forall a k, 0 <= get_bal (s_bal s') a k) /\ (forall f, In f (s_frozen s') -> 0 <= snd f) /\
  (forall r, In r (s_coins s') -> 1 <= c_vol r <= c_max r).
Proof. intros ops s Hw Hb Hf Hc. exact (run_ops_inv2 ops s Hw (conj Hb (conj Hf Hc))). Qed.

(* one delivered transaction, accepted or rejected *)
Theorem C02_transaction_keeps_balances_nonneg : forall s t s' c,
  deliver s t = (s', c) -> wf_data (t_data t) -> 0 <= failed_price (s_prices s) t ->
  (forall a k, 0 <= get_bal (s_bal s) a k) -> forall a k, 0 <= get_bal (s_bal s') a k.
Proof. exact deliver_bal_nonneg. Qed.

Example C02_example :
  let ops := [OpBegin 50; OpTx ex_create; OpTx ex_mint; OpTx ex_lock; OpTx ex_overspend; OpTx (mk_tx 11 3 (BurnToken 1 1699)); OpEnd; OpBegin 51; OpBegin 52] in
  wf_ops ex_prices ops /\ vol_of (s_coins (run_ops ex_state ops)) 1 = 1 /\
  snd (deliver (run_ops ex_state ops) (mk_tx 11 4 (BurnToken 1 1))) = 206 /\
  snd (deliver (run_ops ex_state ops) (mk_tx 11 4 (Send 0 12 100000))) = 107.
Proof.
  split; [repeat constructor; cbn; vm_compute; try discriminate; auto|]. vm_compute. repeat split.
Qed.

(* bancor coins: along any sequence of conversions (coins bought: BuyCoin, SellCoin / SellAllCoin into the coin; coins
   sold or spent on commissions), with the amounts formula.go computes as arbitrary non-negative inputs, the volume
   stays within [0, max supply], the maximum supply itself never changes, and the reserve stays at or above the
   minimum reserve; a purchase that would exceed the maximum supply is refused with code 112 whatever its cost *)
Theorem C02_bancor_volume_within_max_supply : forall ops c,
  CoinSupplyFacts.binv c -> CoinSupplyFacts.bops_ok c ops ->
  CoinSupplyFacts.binv (CoinSupply.brun c ops) /\ CoinSupply.b_max (CoinSupply.brun c ops) = CoinSupply.b_max c.
Proof. exact CoinSupplyFacts.brun_inv. Qed.

Theorem C02_purchase_above_cap_refused : forall c minted deposit,
  CoinSupply.b_max c < CoinSupply.b_vol c + minted ->
  CoinSupply.bstep c (CoinSupply.BMint minted deposit) = (c, CoinSupply.cCoinSupplyOverflow).
Proof. exact CoinSupplyFacts.mint_above_cap_refused. Qed.

(* the literals of the model are the ones of the source (regenerated on every run) *)
Example C02_bancor_constants :
  CoinSupply.min_coin_reserve = Consts.min_coin_reserve_src /\ CoinSupply.cCoinSupplyOverflow = Consts.code_coin_supply_overflow /\
  CoinSupply.cCoinReserveUnderflow = Consts.code_coin_reserve_underflow.
Proof. vm_compute. repeat split. Qed.

Example C02_bancor_example :
  let c := {| CoinSupply.b_vol := 1000000; CoinSupply.b_res := CoinSupply.min_coin_reserve; CoinSupply.b_max := 1000100 |} in
  (* 200 coins cost about 2 base coins, but only 100 more may exist *)
  snd (CoinSupply.bstep c (CoinSupply.BMint 200 2)) = 112 /\ snd (CoinSupply.bstep c (CoinSupply.BMint 100 1)) = 0 /\
  CoinSupply.b_vol (CoinSupply.brun c [CoinSupply.BMint 100 1; CoinSupply.BMint 1 1; CoinSupply.BBurn 50 1]) = 1000050.
Proof. vm_compute. repeat split. Qed.

Print Assumptions C02_nothing_negative.
Print Assumptions C02_transaction_keeps_balances_nonneg.
Print Assumptions C02_bancor_volume_within_max_supply.
Print Assumptions C02_purchase_above_cap_refused.
