(* C02 — amounts never go negative and coin volume never exceeds max supply.  Theorems only.
   Ledger model (balances, frozen funds, coin volumes); pool reserves stay positive: C13
   (Properties/C13.v: every trade / mint / burn leaves both reserves positive); stakes: C17/C18
   arithmetic; the whole node is watched by the sign monitor on every export. *)
From Minter Require Import Base Ledger LedgerFacts LedgerTx LedgerProps LedgerCons LedgerReg LedgerNonneg LedgerExample.
From Coq Require Import ZArith List.
Import ListNotations.
Open Scope Z_scope.

(* Along every history of block phases and transactions whose decoded amounts are non-negative
   (RLP integers are unsigned) under a price table with a non-negative failure fee: every balance
   is >= 0, every frozen fund is >= 0, and every coin's volume is between 1 and its max supply. *)
Theorem C02_nothing_negative : forall ops s,
  wf_ops (s_prices s) ops ->
  (forall a k, 0 <= get_bal (s_bal s) a k) -> (forall f, In f (s_frozen s) -> 0 <= snd f) ->
  (forall r, In r (s_coins s) -> 1 <= c_vol r <= c_max r) ->
  let s' := run_ops s ops in
  (forall a k, 0 <= get_bal (s_bal s') a k) /\ (forall f, In f (s_frozen s') -> 0 <= snd f) /\
  (forall r, In r (s_coins s') -> 1 <= c_vol r <= c_max r).
Proof. intros ops s Hw Hb Hf Hc. exact (run_ops_inv2 ops s Hw (conj Hb (conj Hf Hc))). Qed.

(* one delivered transaction, accepted or rejected *)
Theorem C02_transaction_keeps_balances_nonneg : forall s t s' c,
  deliver s t = (s', c) -> wf_data (t_data t) -> 0 <= failed_price (s_prices s) t ->
  (forall a k, 0 <= get_bal (s_bal s) a k) -> forall a k, 0 <= get_bal (s_bal s') a k.
Proof. exact deliver_bal_nonneg. Qed.

Example C02_example :
  let ops := [OpBegin 50; OpTx ex_create; OpTx ex_mint; OpTx ex_lock; OpTx ex_overspend; OpTx (mk_tx 11 3 (BurnToken 1 1699)); OpEnd; OpBegin 51; OpBegin 52] in
  wf_ops ex_prices ops /\ vol_of (s_coins (run_ops ex_state ops)) 1 = 1 /\
  snd (deliver (run_ops ex_state ops) (mk_tx 11 4 (BurnToken 1 1))) = 206 /\
  snd (deliver (run_ops ex_state ops) (mk_tx 11 4 (Send 0 12 100000))) = 107.
Proof.
  split; [repeat constructor; cbn; vm_compute; try discriminate; auto|]. vm_compute. repeat split.
Qed.

Print Assumptions C02_nothing_negative.
Print Assumptions C02_transaction_keeps_balances_nonneg.
