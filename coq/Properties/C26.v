(* C26 — each signed transaction is charged at most once.  REFUTED for the code (known finding
   c26-failed-redelivery) with the strongest part that does hold.  Theorems only. *)
From Minter Require Import Base Ledger LedgerFacts LedgerTx LedgerProps LedgerExample.
From Coq Require Import ZArith List.
Import ListNotations.
Open Scope Z_scope.

(* the full statement "any later delivery after the first is rejected at no cost, whether the first
   delivery succeeded or failed" is FALSE for the faithful model: a transaction that fails inside Run
   is charged the failure fee, keeps its nonce valid, and is charged again when the same bytes are
   delivered again.  Witness: the over-spending Send of LedgerExample, delivered twice. *)
Theorem C26_refuted : exists s t,
  let '(s1, c1) := deliver s t in let '(s2, c2) := deliver s1 t in
  c1 <> 0 /\ c2 <> 0 /\
  get_bal (s_bal s1) (sender_of t) 0 < get_bal (s_bal s) (sender_of t) 0 /\
  get_bal (s_bal s2) (sender_of t) 0 < get_bal (s_bal s1) (sender_of t) 0.
Proof. exists ex_state, ex_overspend. vm_compute. repeat split; discriminate. Qed.

(* what does hold: after a SUCCESSFUL delivery, every later delivery of the same transaction, after
   any history, is rejected by the gate and leaves the whole state (all balances) untouched *)
Theorem C26_partial_after_success : forall s t s1 ops,
  deliver s t = (s1, 0) ->
  let s2 := run_ops s1 ops in exists c, c <> 0 /\ deliver s2 t = (s2, c).
Proof. intros s t s1 ops H. apply (no_replay s t s1 ops t H); [reflexivity|lia]. Qed.

(* and a delivery rejected by the gate (size, chain id, gas coin, signatures, nonce, price) never
   charges anything *)
Theorem C26_partial_gate_rejections_free : forall s t c, gate s t = Some c -> deliver s t = (s, c).
Proof. intros s t c H. unfold deliver. rewrite H. reflexivity. Qed.

(* and one failing delivery never charges more than the failure fee, nor more than the balance *)
Theorem C26_partial_one_failure_one_fee : forall s t s' c a k,
  deliver s t = (s', c) -> c <> 0 -> 0 <= failed_price (s_prices s) t -> t_gas_coin t = 0 ->
  get_bal (s_bal s) a k - get_bal (s_bal s') a k <= failed_price (s_prices s) t /\
  get_bal (s_bal s) a k - get_bal (s_bal s') a k <= Z.max 0 (get_bal (s_bal s) a k).
Proof.
  intros s t s' c a k HD Hc Hfp Hg.
  destruct (reject_frame _ _ _ _ HD Hc) as (_ & payer & fee & _ & HF & _ & HB). rewrite HB.
  destruct (hit payer (t_gas_coin t) a k) eqn:Eh; [|lia].
  apply hit_true in Eh. destruct Eh as [<- <-].
  destruct (Z.eq_dec fee 0) as [->|Hfee]; [lia|].
  destruct (HF Hfee) as (com & EC & Hb & ->). unfold calc_commission in EC. rewrite Hg in EC. cbn in EC. injection EC as <-. lia.
Qed.

Print Assumptions C26_refuted.
Print Assumptions C26_partial_after_success.
Print Assumptions C26_partial_gate_rejections_free.
Print Assumptions C26_partial_one_failure_one_fee.
