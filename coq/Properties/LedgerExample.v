(* LedgerExample.v — a small concrete ledger state and transactions used by the non-vacuity
   examples of the ledger properties (C01, C03-C06, C21, C22, C26, C27). *)
From Minter Require Import Base Ledger.
From Coq Require Import ZArith List.
Import ListNotations.
Open Scope Z_scope.

Definition ex_prices : prices :=
  {| p_payload_byte := 2; p_send := 10; p_multisend_base := 10; p_multisend_delta := 5; p_ticker3 := 1000000; p_ticker4 := 100000;
     p_ticker5 := 10000; p_ticker6 := 1000; p_ticker7 := 100; p_create_token := 0; p_recreate_token := 10000; p_mint := 100;
     p_burn := 100; p_lock := 100; p_redeem := 30; p_create_multisig := 100; p_edit_owner := 10000; p_failed := 1;
     p_pcoin := 0; p_prc := 0; p_prb := 0 |}.

(* accounts 11, 12, 13 with 100000 base coin each; block 50 *)
Definition ex_state : st :=
  {| s_bal := [(11, 0, 100000); (12, 0, 100000); (13, 0, 100000)]; s_nonce := []; s_coins := []; s_symowner := []; s_ncoins := 0;
     s_rpool := 0; s_used := []; s_msig := []; s_frozen := []; s_height := 50; s_prices := ex_prices; s_base_sym := 777 |}.

Definition mk_tx (sender nonce : Z) (d : txdata) : tx :=
  {| t_nonce := nonce; t_chain_ok := true; t_gas_price := 1; t_gas_coin := 0; t_payload_len := 3; t_service_len := 0;
     t_sig := SigSingle sender; t_data := d |}.

Definition ex_send : tx := mk_tx 11 1 (Send 0 12 500).
Definition ex_overspend : tx := mk_tx 11 1 (Send 0 12 5000000).
Definition ex_create : tx := mk_tx 11 1 (CreateToken 4242 7 true 3 1000 5000 true true).
Definition ex_mint : tx := mk_tx 11 2 (MintToken 1 700).
Definition ex_redeem : tx := mk_tx 13 1 (RedeemCheck 100 true true 4 true 12 0 0 250 60 9001 2).
Definition ex_lock : tx := mk_tx 12 1 (Lock 52 0 4000).
