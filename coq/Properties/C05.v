(* C05 — value leaves an account only with that account's authorization.  Theorems only.
   (balances and candidate settings; the stake / order clauses are checked on the node by monitors) *)
From Minter Require Import Base Ledger LedgerFacts LedgerTx LedgerProps LedgerExample.
From Minter Require CandAuth CandAuthFacts.
From Coq Require Import ZArith List.
Import ListNotations.
Open Scope Z_scope.

(* If a delivered transaction (accepted or rejected) decreases a balance of account a, then the
   multisig gate passed (for a single signature it is vacuous: the sender IS the recovered
   signer) and a is the transaction's sender or the issuer of the check being redeemed. *)
Theorem C05_debit_authorized : forall s t s' c a k,
  deliver s t = (s', c) -> wf_data (t_data t) -> 0 <= failed_price (s_prices s) t ->
  get_bal (s_bal s') a k < get_bal (s_bal s) a k ->
  msig_gate s t = None /\ (a = sender_of t \/ issuer_of t = Some a).
Proof. exact debit_authorized. Qed.

(* the multisig gate: distinct recovered signers, all recoverable, at most 32 and at most the
   number of owners, and the (uint32) sum of the listed owners' weights reaches the threshold *)
Theorem C05_multisig_gate : forall s t m signers,
  t_sig t = SigMulti m signers -> msig_gate s t = None ->
  exists thr ws total,
    find_msig (s_msig s) m = Some (thr, ws) /\ Z.of_nat (length signers) <= 32 /\
    (length signers <= length ws)%nat /\ msig_total ws signers [] 0 = inl total /\ thr <= total.
Proof.
  intros s t m signers Hs. unfold msig_gate. rewrite Hs.
  destruct (find_msig (s_msig s) m) as [[thr ws]|]; [|discriminate].
  destruct (Z.ltb_spec 32 (Z.of_nat (length signers))); [discriminate|].
  destruct (Z.ltb_spec (Z.of_nat (length ws)) (Z.of_nat (length signers))); [discriminate|]. cbn [orb].
  destruct (msig_total ws signers [] 0) as [total|c] eqn:E; [|discriminate].
  destruct (Z.ltb_spec total thr); [discriminate|]. intros _.
  exists thr, ws, total. repeat split; auto; lia.
Qed.

(* balances after blocks: maturing frozen funds only credit *)
Example C05_example :
  (* account 13 redeems a check issued by 12: 12 is debited although 13 signed; nobody else is *)
  let s1 := fst (deliver ex_state ex_redeem) in
  snd (deliver ex_state ex_redeem) = 0 /\ get_bal (s_bal s1) 12 0 = 100000 - 250 - 36 /\
  get_bal (s_bal s1) 13 0 = 100000 + 250 /\ get_bal (s_bal s1) 11 0 = 100000.
Proof. vm_compute. repeat split. Qed.


(* candidate settings (owner, control and reward address, commission) change only by the owner recorded right
   before the transaction; the on/off switch flips only by that owner or that control address; a sender who is
   neither gets code 406 and nothing changes - along every history of the four candidate transactions, whatever
   the outcome of their other checks *)
Theorem C05_candidate_settings_by_owner_only : forall ops c, CandAuthFacts.steps_ok c ops.
Proof. exact CandAuthFacts.history_ok. Qed.

Theorem C05_candidate_unauthorized_rejected : forall c o ok,
  CandAuth.authorized c o = false -> CandAuth.cstep c o ok = (c, CandAuth.cIsNotOwnerOfCandidate).
Proof. exact CandAuthFacts.unauthorized_code. Qed.

Example C05_candidate_example :
  let c := {| CandAuth.ca_owner := 11; CandAuth.ca_control := 12; CandAuth.ca_reward := 11; CandAuth.ca_online := true; CandAuth.ca_commission := 10 |} in
  (* the control address may switch the candidate off, but may not re-point the addresses or change the commission *)
  snd (CandAuth.cstep c (CandAuth.COff 12) true) = 0 /\ CandAuth.ca_online (fst (CandAuth.cstep c (CandAuth.COff 12) true)) = false /\
  CandAuth.cstep c (CandAuth.CEdit 12 12 12 12) true = (c, 406) /\ CandAuth.cstep c (CandAuth.CCommission 12 50) true = (c, 406) /\
  CandAuth.ca_owner (fst (CandAuth.cstep c (CandAuth.CEdit 11 13 13 13) true)) = 13 /\ CandAuth.cstep c (CandAuth.COn 13) true = (c, 406).
Proof. vm_compute. repeat split. Qed.

Print Assumptions C05_debit_authorized.
Print Assumptions C05_multisig_gate.
Print Assumptions C05_candidate_settings_by_owner_only.
Print Assumptions C05_candidate_unauthorized_rejected.
