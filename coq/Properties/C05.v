(* C05 — value leaves an account only with that account's authorization.  Theorems only.
   (balances; the stake / order / candidate clauses are checked on the node by monitors) *)
From Minter Require Import Base Ledger LedgerFacts LedgerTx LedgerProps LedgerExample.
From Coq Require Import ZArith List.
Import ListNotations.
Open Scope Z_scope.

(* If a delivered transaction (accepted or rejected) decreases a balance of account a, then the
   multisig gate passed (for a single signature it is vacuous: the sender IS the recovered
   signer) and a is the transaction's sender or the issuer of the check being redeemed. *)
Theorem C05_debit_authorized : forall s t s' c a k,
  deliver s t = (s', c) -> wf_data (t_data t) -> 0 <= failed_price (s_prices s) t ->
  get_bal (s_bal s') a k < get_bal (s_bal s) a k ->
  msig_gate s t = None /\ (a = sender_of t \/ issuer_of t = Some a).
Proof. exact debit_authorized. Qed.

(* the multisig gate: distinct recovered signers, all recoverable, at most 32 and at most the
   number of owners, and the (uint32) sum of the listed owners' weights reaches the threshold *)
Theorem C05_multisig_gate : forall s t m signers,
  t_sig t = SigMulti m signers -> msig_gate s t = None ->
  exists thr ws total,
    find_msig (s_msig s) m = Some (thr, ws) /\ Z.of_nat (length signers) <= 32 /\
    (length signers <= length ws)%nat /\ msig_total ws signers [] 0 = inl total /\ thr <= total.
Proof.
  intros s t m signers Hs. unfold msig_gate. rewrite Hs.
  destruct (find_msig (s_msig s) m) as [[thr ws]|]; [|discriminate].
  destruct (Z.ltb_spec 32 (Z.of_nat (length signers))); [discriminate|].
  destruct (Z.ltb_spec (Z.of_nat (length ws)) (Z.of_nat (length signers))); [discriminate|]. cbn [orb].
  destruct (msig_total ws signers [] 0) as [total|c] eqn:E; [|discriminate].
  destruct (Z.ltb_spec total thr); [discriminate|]. intros _.
  exists thr, ws, total. repeat split; auto; lia.
Qed.

(* balances after blocks: maturing frozen funds only credit *)
Example C05_example :
  (* account 13 redeems a check issued by 12: 12 is debited although 13 signed; nobody else is *)
  let s1 := fst (deliver ex_state ex_redeem) in
  snd (deliver ex_state ex_redeem) = 0 /\ get_bal (s_bal s1) 12 0 = 100000 - 250 - 36 /\
  get_bal (s_bal s1) 13 0 = 100000 + 250 /\ get_bal (s_bal s1) 11 0 = 100000.
Proof. vm_compute. repeat split. Qed.

Print Assumptions C05_debit_authorized.
Print Assumptions C05_multisig_gate.
