(* C08 — execution is deterministic across node instances: the results do not depend on map
   iteration order.

   The Go runtime randomises the order of `range` over a map.  Model/Determ.v makes that order an
   explicit ORACLE (an arbitrary permutation of the map's entries, a fresh one for every executed
   loop).  The theorems say: every loop of one of the four classes gives the same result for any
   two permutations, provided the side condition of its class holds, and so does every program
   built from such loops and deterministic code.  Generated/MapRanges.v (regenerated from /repo by
   harness/cmd/xlate/mapranges.go on every run) lists every `range` over a map in the packages the
   consensus engine links, each with the class the translator computed from the loop's shape;
   C08_sites_classified fails to compile as soon as one of them is Unknown or OrderDependent.

   What is NOT proved here (validated by the multi-process differential `vharness c08` only):
   iteration order inside libraries (IAVL, tm-db, tmjson/amino), and scheduling of the background
   snapshot goroutine. *)
From Coq Require Import ZArith List String Bool Permutation.
From Minter Require Import Determ DetermFacts MapRanges.
Import ListNotations.

(* ---- the four classes, each over arbitrary entry / key types --------------------------------------- *)

(* collect_then_sort: for any two iteration orders l1 l2 of the same entries and a sort by a key
   that is injective on the entries (under a total order on keys), the sorted slice is the same *)
Theorem C08_sort_after_collect : forall (A K : Type) (key : A -> K) (leb : K -> K -> bool),
  (forall a b, leb a b = true \/ leb b a = true) ->
  (forall a b c, leb a b = true -> leb b c = true -> leb a c = true) ->
  (forall a b, leb a b = true -> leb b a = true -> a = b) ->
  forall l1 l2 : list A, Permutation l1 l2 ->
  (forall x y, In x l1 -> In y l1 -> key x = key y -> x = y) ->
  sort_by key leb l1 = sort_by key leb l2.
Proof. intros A K key leb Ht Htr Ha. exact (sort_after_collect key leb Ht Htr Ha). Qed.

(* ... and the side condition is needed: a stable sort on a non-injective key keeps the map order
   of tied entries *)
Theorem C08_sort_noninjective_can_differ :
  exists l1 l2 : list (Z * Z), Permutation l1 l2 /\ sort_by fst Z.leb l1 <> sort_by fst Z.leb l2.
Proof. exact sort_noninjective_can_differ. Qed.

(* commutative_fold *)
Theorem C08_commutative_fold : forall (S E : Type) (f : S -> E -> S) (l1 l2 : list E),
  Permutation l1 l2 -> (forall a x y, f (f a x) y = f (f a y) x) ->
  forall a, fold_left f l1 a = fold_left f l2 a.
Proof. exact @commutative_fold. Qed.

(* instances: big.Int sums; insertion into a set / building a map under distinct keys *)
Theorem C08_sum_any_order : forall (E : Type) (g : E -> Z) (l1 l2 : list E),
  Permutation l1 l2 -> forall a : Z, fold_left (fun a x => a + g x)%Z l1 a = fold_left (fun a x => a + g x)%Z l2 a.
Proof. exact @sum_fold_commutes. Qed.

Theorem C08_set_insert_any_order : forall l1 l2 : list Z,
  Permutation l1 l2 -> forall m : list (Z * unit),
  fold_left (fun m k => zm_set k tt m) l1 m = fold_left (fun m k => zm_set k tt m) l2 m.
Proof. exact set_insert_fold_commutes. Qed.

(* exists_or_find_unique *)
Theorem C08_unique_find : forall (E : Type) (p : E -> bool) (l1 l2 : list E),
  Permutation l1 l2 ->
  (forall x y, In x l1 -> In y l1 -> p x = true -> p y = true -> x = y) ->
  find p l1 = find p l2.
Proof. exact @unique_find. Qed.

Theorem C08_exists_any_order : forall (E : Type) (p : E -> bool) (l1 l2 : list E),
  Permutation l1 l2 -> existsb p l1 = existsb p l2.
Proof. exact @exists_any_order. Qed.

(* per_entry_independent: updates of pairwise distinct records / paths, applied in any order, give
   the same finite map (map = path -> option value, compared by lookup).
   SCOPE: this is a statement about the key/value CONTENT.  It must NOT be used to justify a loop
   that calls tree.Set/Remove in map order: the IAVL root hash is not a function of the content - an
   AVL tree's shape depends on the order of insertions (observed with `vharness c08` on a tree with
   the sort of getOrderedDirtyAccounts removed: identical state exports, different app hashes).
   The translator therefore classifies every map loop whose body writes the tree as OrderDependent,
   and the class is used for in-memory per-entry effects only (no site of the pinned tree needs it:
   every Commit goes through a collect-then-sort). *)
Theorem C08_per_entry_independent : forall (P W : Type) (P_eq_dec : forall a b : P, {a = b} + {a <> b})
  (l1 l2 : list (P * option W)) (t : tree),
  NoDup (map fst l1) -> Permutation l1 l2 ->
  forall k, apply_updates P_eq_dec l1 t k = apply_updates P_eq_dec l2 t k.
Proof. exact @per_entry_independent. Qed.

Theorem C08_same_path_updates_can_differ :
  exists (l1 l2 : list (Z * option Z)) k, Permutation l1 l2 /\
    apply_updates Z.eq_dec l1 (fun _ => None) k <> apply_updates Z.eq_dec l2 (fun _ => None) k.
Proof. exact same_path_updates_can_differ. Qed.

(* ---- programs: any two oracles give the same final state (responses, events, tree content are
   all part of S) and execute the same number of map loops ------------------------------------------- *)
Theorem C08_order_independent : forall (S E K : Type) (leb : K -> K -> bool),
  (forall a b, leb a b = true \/ leb b a = true) ->
  (forall a b c, leb a b = true -> leb b c = true -> leb a c = true) ->
  (forall a b, leb a b = true -> leb b a = true -> a = b) ->
  (forall a b : E, {a = b} + {a <> b}) ->
  forall (Inv : S -> Prop) (p : prog S E K),
  wf S E K leb Inv p ->
  forall o1 o2 : oracle E, valid E o1 -> valid E o2 ->
  forall n s, Inv s -> run leb o1 p n s = run leb o2 p n s.
Proof. intros S E K leb Ht Htr Ha Hd Inv p. exact (run_order_independent S E K leb Ht Htr Ha Hd Inv p). Qed.

(* ---- the tie to /repo: the regenerated inventory ----------------------------------------------------- *)
Definition all_classified : bool := sites_classified (map_ranges ++ go_statements).
Definition none_order_dependent : bool := sites_order_independent map_ranges.

Theorem C08_sites_classified : all_classified = true /\ none_order_dependent = true.
Proof. split; vm_compute; reflexivity. Qed.

Example C08_inventory_count : Z.of_nat (List.length map_ranges) = map_ranges_count /\ (0 < map_ranges_count)%Z.
Proof. vm_compute. split; reflexivity. Qed.

(* ---- non-vacuity ---------------------------------------------------------------------------------------- *)
(* the demo program (collect+sort+commit, a sum, a unique find, per-entry tree writes) meets the
   side conditions on every state whose dirty set has pairwise distinct keys ... *)
Example C08_demo_wf : wf demo_state (Z * Z) Z Z.leb demo_inv demo_commit.
Proof. exact demo_commit_wf. Qed.

(* ... hence any two iteration orders agree on it; two concrete ones evaluated *)
Example C08_demo_any_order : forall o1 o2, valid (Z * Z) o1 -> valid (Z * Z) o2 ->
  run Z.leb o1 demo_commit 0 demo_init = run Z.leb o2 demo_commit 0 demo_init.
Proof.
  intros o1 o2 V1 V2.
  apply (C08_order_independent demo_state (Z * Z) Z Z.leb Zleb_total Zleb_trans Zleb_antisym ZZ_eq_dec demo_inv demo_commit demo_commit_wf o1 o2 V1 V2).
  unfold demo_inv. cbn. repeat (constructor; [cbn; intuition discriminate|]). constructor.
Qed.

Example C08_demo_runs :
  run Z.leb o_id demo_commit 0 demo_init = run Z.leb o_rev demo_commit 0 demo_init /\
  d_log (snd (run Z.leb o_rev demo_commit 0 demo_init)) = [1; 7; 8; 9]%Z /\
  d_total (snd (run Z.leb o_rev demo_commit 0 demo_init)) = 22%Z /\
  d_found (snd (run Z.leb o_rev demo_commit 0 demo_init)) = Some (7, 3)%Z /\
  d_tree (snd (run Z.leb o_rev demo_commit 0 demo_init)) = [(1, 10); (7, 3); (8, 4); (9, 5); (101, 10); (107, 3); (108, 4); (109, 5)]%Z.
Proof. vm_compute. repeat split; reflexivity. Qed.

(* events emitted in map order (a shape that is none of the classes) do depend on the order *)
Example C08_unsorted_events_differ :
  d_log (snd (run Z.leb o_id demo_bad 0 demo_init)) <> d_log (snd (run Z.leb o_rev demo_bad 0 demo_init)).
Proof. vm_compute. discriminate. Qed.

Print Assumptions C08_sort_after_collect.
Print Assumptions C08_sort_noninjective_can_differ.
Print Assumptions C08_commutative_fold.
Print Assumptions C08_sum_any_order.
Print Assumptions C08_set_insert_any_order.
Print Assumptions C08_unique_find.
Print Assumptions C08_exists_any_order.
Print Assumptions C08_per_entry_independent.
Print Assumptions C08_same_path_updates_can_differ.
Print Assumptions C08_order_independent.
Print Assumptions C08_sites_classified.
