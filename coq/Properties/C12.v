(* C12 — bancor conversions follow the bonding-curve formulas.

   What is proved here, for ALL magnitudes (unbounded Z), every reserve ratio 10 <= c <= 100:
   the exact curve values (ideal_*: the Bancor formulas with exact rational powers, truncated) are the
   largest integers satisfying the defining inequalities, are never negative, never exceed the
   reserve, are monotone in the amount; selling the entire supply returns exactly the reserve;
   selling what was bought never returns more than was paid; the integer branches of formula.go
   (amount = 0, crr = 100, sell = supply) return exactly the curve value; any value within the
   tolerance |f - ideal| <= 2^-33 ideal + 1 of the curve satisfies the approximate forms; the
   dispatcher's check (model 12) accepts a Go result iff it is within that tolerance.
   At the transaction level (run c12tx): an accepted sell-all of a reserve-backed coin returns the formulas applied to
   the curve after the fee (C12_tx_sell_all_on_the_curve_after_the_fee, any formula values).
   What is NOT proved but validated on every run (harness c12): that the 100-bit big.Float branch of
   formula.go is within the tolerance (hypothesis [oracle_ok] of C12_full_functions). *)
From Minter Require Import Base Bancor BancorFacts BancorCheck SwapTx SwapTxCurve.
From Coq Require Import ZArith List.
Import ListNotations.
Open Scope Z_scope.

(* ---- the exact values are the formulas: largest integers satisfying the inequalities ---------- *)
(* purchase return = floor (s ((1 + d/r)^(c/100) - 1)) *)
Theorem C12_purchase_return_formula : forall s r c d, 0 < s -> 0 < r -> 10 <= c <= 100 -> 0 <= d ->
  let y := ideal_purchase_return s r c d in
  0 <= y /\ (y + s) ^ 100 * r ^ c <= (r + d) ^ c * s ^ 100 /\
  (forall y', y < y' -> (r + d) ^ c * s ^ 100 < (y' + s) ^ 100 * r ^ c).
Proof. intros s r c d Hs Hr Hc. exact (ideal_purchase_return_formula s r c Hs Hr Hc d). Qed.

(* purchase amount = floor (r (((w + s)/s)^(100/c) - 1)) *)
Theorem C12_purchase_amount_formula : forall s r c w, 0 < s -> 0 < r -> 10 <= c <= 100 -> 0 <= w ->
  let x := ideal_purchase_amount s r c w in
  0 <= x /\ (x + r) ^ c * s ^ 100 <= r ^ c * (w + s) ^ 100 /\
  (forall x', x < x' -> r ^ c * (w + s) ^ 100 < (x' + r) ^ c * s ^ 100).
Proof. intros s r c w Hs Hr Hc. exact (ideal_purchase_amount_formula s r c Hs Hr Hc w). Qed.

(* sale return = floor (r (1 - (1 - a/s)^(100/c))): never negative, never above the reserve *)
Theorem C12_sale_return_formula : forall s r c a, 0 < s -> 0 < r -> 10 <= c <= 100 -> 0 <= a <= s ->
  let y := ideal_sale_return s r c a in
  0 <= y <= r /\ r ^ c * (s - a) ^ 100 <= (r - y) ^ c * s ^ 100 /\
  (forall y', y < y' -> y' <= r -> (r - y') ^ c * s ^ 100 < r ^ c * (s - a) ^ 100).
Proof. intros s r c a Hs Hr Hc. exact (ideal_sale_return_formula s r c Hs Hr Hc a). Qed.

(* sale amount = floor (s (1 - ((r - w)/r)^(c/100))): never negative, never above the supply *)
Theorem C12_sale_amount_formula : forall s r c w, 0 < s -> 0 < r -> 10 <= c <= 100 -> 0 <= w <= r ->
  let x := ideal_sale_amount s r c w in
  0 <= x <= s /\ s ^ 100 * (r - w) ^ c <= (s - x) ^ 100 * r ^ c /\
  (forall x', x < x' -> x' <= s -> (s - x') ^ 100 * r ^ c < s ^ 100 * (r - w) ^ c).
Proof. intros s r c w Hs Hr Hc. exact (ideal_sale_amount_formula s r c Hs Hr Hc w). Qed.

(* the bisection is generic: with enough fuel (log2_up of the interval, proved adequate) it returns
   the largest element of [lo, hi] satisfying any downward-closed predicate *)
Theorem C12_search_correct : forall P lo hi,
  lo <= hi -> down_closed P lo hi -> P lo = true ->
  lo <= largest_sat P lo hi <= hi /\ P (largest_sat P lo hi) = true /\
  (forall y, largest_sat P lo hi < y -> y <= hi -> P y = false).
Proof. exact largest_sat_spec. Qed.

Theorem C12_search_fuel_adequate : forall lo hi, lo <= hi -> hi + 1 - lo <= 2 ^ Z.of_nat (bisect_fuel lo hi).
Proof. exact bisect_fuel_ok. Qed.

(* ---- results do not decrease as the amount grows --------------------------------------------- *)
Theorem C12_monotone : forall s r c, 0 < s -> 0 < r -> 10 <= c <= 100 ->
  (forall d d', 0 <= d -> d <= d' -> ideal_purchase_return s r c d <= ideal_purchase_return s r c d') /\
  (forall w w', 0 <= w -> w <= w' -> ideal_purchase_amount s r c w <= ideal_purchase_amount s r c w') /\
  (forall a a', 0 <= a -> a <= a' -> a' <= s -> ideal_sale_return s r c a <= ideal_sale_return s r c a') /\
  (forall w w', 0 <= w -> w <= w' -> w' <= r -> ideal_sale_amount s r c w <= ideal_sale_amount s r c w').
Proof.
  intros s r c Hs Hr Hc. repeat split.
  - apply ideal_purchase_return_mono; assumption.
  - apply ideal_purchase_amount_mono; assumption.
  - apply ideal_sale_return_mono; assumption.
  - apply ideal_sale_amount_mono; assumption.
Qed.

(* ---- selling the entire supply returns exactly the reserve (curve and code) ------------------ *)
Theorem C12_sell_all : forall s r c, 0 < s -> 0 < r -> 10 <= c <= 100 ->
  ideal_sale_return s r c s = r /\ code_sale_return_int s r c s = Some (Val r).
Proof.
  intros s r c Hs Hr Hc. split; [apply ideal_sale_return_all; assumption|].
  unfold code_sale_return_int. destruct (Z.eqb_spec s 0); [lia|]. rewrite Z.eqb_refl. reflexivity.
Qed.

(* ---- buying and then selling what was bought never returns more than was paid ---------------- *)
Theorem C12_round_trip : forall s r c d, 0 < s -> 0 < r -> 10 <= c <= 100 -> 0 <= d ->
  ideal_sale_return (s + ideal_purchase_return s r c d) (r + d) c (ideal_purchase_return s r c d) <= d.
Proof. intros s r c d Hs Hr Hc. exact (ideal_round_trip s r c Hs Hr Hc d). Qed.

(* ---- crr = 100: the curve is the floor division formula.go computes -------------------------- *)
Theorem C12_crr_100 : forall s r, 0 < s -> 0 < r ->
  (forall d, 0 <= d -> ideal_purchase_return s r 100 d = s * d / r) /\
  (forall w, 0 <= w -> ideal_purchase_amount s r 100 w = w * r / s) /\
  (forall a, 0 <= a <= s -> ideal_sale_return s r 100 a = r * a / s) /\
  (forall w, 0 <= w <= r -> ideal_sale_amount s r 100 w = w * s / r).
Proof.
  intros s r Hs Hr. repeat split; intros.
  - apply ideal_purchase_return_100; assumption.
  - apply ideal_purchase_amount_100; assumption.
  - apply ideal_sale_return_100; assumption.
  - apply ideal_sale_amount_100; assumption.
Qed.

(* ---- the integer branches of the CODE (amount = 0, crr = 100, sell = supply) are exact: they do
        not panic and return the curve value, hence satisfy every statement above exactly -------- *)
Theorem C12_integer_branches_exact : forall s r c, 0 < s -> 0 < r -> 10 <= c <= 100 ->
  (forall d v, 0 <= d -> code_purchase_return_int s r c d = Some v -> v = Val (ideal_purchase_return s r c d)) /\
  (forall w v, 0 <= w -> code_purchase_amount_int s r c w = Some v -> v = Val (ideal_purchase_amount s r c w)) /\
  (forall a v, 0 <= a <= s -> code_sale_return_int s r c a = Some v -> v = Val (ideal_sale_return s r c a)) /\
  (forall w v, 0 <= w <= r -> code_sale_amount_int s r c w = Some v -> v = Val (ideal_sale_amount s r c w)).
Proof.
  intros s r c Hs Hr Hc. repeat split; intros.
  - apply code_purchase_return_int_exact; assumption.
  - apply code_purchase_amount_int_exact; assumption.
  - apply code_sale_return_int_exact; assumption.
  - apply code_sale_amount_int_exact; assumption.
Qed.

(* ---- tolerance transfer: a value f with |f - ideal| <= 2^-33 ideal + 1 (what the check validates
        for the float branch) satisfies the property's approximate forms ------------------------- *)
(* never negative beyond the unit of truncation; never above an upper bound b of the exact value by
   more than 2^-33 b + 1 (b = reserve for sale returns, b = supply for sale amounts) *)
Theorem C12_tolerance_transfer_bounds : forall f ideal b, 0 <= ideal -> ideal <= b ->
  within 1 (2 ^ 33) f ideal -> -1 <= f /\ (f - b) * 2 ^ 33 <= b + 2 ^ 33.
Proof.
  intros f i b Hi Hb H. split.
  - apply (within_nonneg 1 (2 ^ 33) ltac:(lia) ltac:(lia) f i Hi H).
  - pose proof (within_upper 1 (2 ^ 33) ltac:(lia) ltac:(lia) f i b Hi Hb H). lia.
Qed.

(* approximately monotone: if the exact values are ordered, f exceeds f' by at most 2^-33 (i + i') + 2 *)
Theorem C12_tolerance_transfer_monotone : forall f f' i i', 0 <= i -> i <= i' ->
  within 1 (2 ^ 33) f i -> within 1 (2 ^ 33) f' i' ->
  (f - f') * 2 ^ 33 <= (i + i') + 2 * 2 ^ 33.
Proof.
  intros f f' i i' Hi Hii H H'.
  pose proof (within_mono 1 (2 ^ 33) ltac:(lia) ltac:(lia) f f' i i' Hi Hii H H'). lia.
Qed.

(* approximate round trip.  PARTIAL: proved when the purchased amount y does not exceed the curve
   ((y+s)^100 r^c <= (r+d)^c s^100, e.g. y = the exact value or anything below it): then a sale result g
   within the tolerance of the exact sale of y returns at most d (1 + 2^-33) + 1.  Missing: a purchased
   amount above the curve (the tolerance allows 2^-33 ideal + 1 units more) is worth up to
   (100/c) (r+d)/(s+y) bips per unit on the sale curve, which is not bounded by a multiple of d. *)
Theorem C12_tolerance_transfer_round_trip_partial : forall s r c d y g,
  0 < s -> 0 < r -> 10 <= c <= 100 -> 0 <= d -> 0 <= y ->
  (y + s) ^ 100 * r ^ c <= (r + d) ^ c * s ^ 100 ->
  within 1 (2 ^ 33) g (ideal_sale_return (s + y) (r + d) c y) ->
  (g - d) * 2 ^ 33 <= d + 2 ^ 33.
Proof.
  intros s r c d y g Hs Hr Hc Hd Hy Hp Hw.
  assert (Hok : pr_ok s r c d y = true) by (rewrite pr_ok_eq; apply Z.leb_le; exact Hp).
  clear Hp.
  pose proof (sale_of_purchase_le s r c Hs Hr Hc d y Hd Hy Hok) as Hle.
  destruct (ideal_sale_return_spec (s + y) (r + d) c ltac:(lia) ltac:(lia) Hc y ltac:(lia)) as (Hnn & _).
  pose proof (within_upper 1 (2 ^ 33) ltac:(lia) ltac:(lia) g _ d (proj1 Hnn) Hle Hw). lia.
Qed.

(* ---- the dispatcher's check (model 12) decides the tolerance exactly --------------------------- *)
Theorem C12_check_decides : forall k s r c a f, bancor_domain k s r c a = true ->
  (exists v, bancor_int k s r c a = Some (Val v) /\ v = bancor_ideal k s r c a /\
             run_bancor_op [k; s; r; c; a; f] = [0; if f =? v then 1 else 0]) \/
  (bancor_int k s r c a = None /\
   run_bancor_op [k; s; r; c; a; f] = [1; if bancor_float_ok k s r c a f then 1 else 0] /\
   (bancor_float_ok k s r c a f = true <-> within 1 (2 ^ 33) f (bancor_ideal k s r c a))).
Proof. exact run_bancor_op_spec. Qed.

Theorem C12_check_sound : forall k s r c a f b, bancor_domain k s r c a = true ->
  run_bancor_op [k; s; r; c; a; f] = [b; 1] -> within 1 (2 ^ 33) f (bancor_ideal k s r c a).
Proof. exact run_bancor_op_sound. Qed.

(* ---- the full functions (integer branch + oracle for the float branch) ------------------------ *)
Theorem C12_full_functions : forall orc k s r c a,
  oracle_ok orc 1 (2 ^ 33) -> bancor_domain k s r c a = true ->
  exists v, bancor_fun orc k s r c a = Val v /\ within 1 (2 ^ 33) v (bancor_ideal k s r c a).
Proof.
  intros orc k s r c a Ho Hd. apply bancor_fun_within; try assumption; lia.
Qed.

(* ---- non-vacuity ------------------------------------------------------------------------------ *)
(* supply 1000, reserve 500, crr 50 %: 300 bips buy floor(1000 (sqrt 1.6 - 1)) = 264 coins; selling them
   returns floor(800 (1 - (1000/1264)^2)) = 299 <= 300; buying 264 coins costs 298; 100 bips cost 105 coins *)
Example C12_curve_values :
  ideal_purchase_return 1000 500 50 300 = 264 /\
  ideal_sale_return 1264 800 50 264 = 299 /\
  ideal_purchase_amount 1000 500 50 264 = 298 /\
  ideal_sale_amount 1000 500 50 100 = 105 /\
  ideal_sale_return 1000 500 37 1000 = 500 /\
  ideal_purchase_return 1000 500 100 300 = 600.
Proof. vm_compute. repeat split. Qed.

(* the dispatcher: float branch accepted / rejected, integer branches, a panic observed *)
Example C12_dispatch_values :
  run_bancor_op [1; 1000; 500; 50; 300; 264] = [1; 1] /\
  run_bancor_op [1; 1000; 500; 50; 300; 266] = [1; 0] /\
  run_bancor_op [3; 1264; 800; 50; 264; 299] = [1; 1] /\
  run_bancor_op [3; 1000; 500; 37; 1000; 500] = [0; 1] /\
  run_bancor_op [1; 1000; 500; 100; 300; 600] = [0; 1] /\
  run_bancor_op [1; 1000; 500; 100; 300; 601] = [0; 0] /\
  run_bancor_op [4; 1000; 500; 50; 100] = [1; 0].
Proof. vm_compute. repeat split. Qed.

(* FINDING (recorded by the check under the monitor key c12-tolerance-above-2^96): for a coin at the maximal
   supply 10^33 (> 2^100, the mantissa of formula.go's big.Float) the real CalculatePurchaseReturn returns 6310
   for a deposit of 2 pip into a reserve of 94428938 * 10^21; the exact curve value is 6565 (accepted), the Go
   value is 3.9 % off (rejected by the exact check) *)
Example C12_go_value_outside_tolerance :
  run_bancor_op [1; 10 ^ 33; 94428938 * 10 ^ 21; 31; 2; 6310] = [1; 0] /\
  run_bancor_op [1; 10 ^ 33; 94428938 * 10 ^ 21; 31; 2; 6565] = [1; 1].
Proof. vm_compute. split; reflexivity. Qed.

(* ---- at the transaction level (sell_all_coin.go, model Model/SwapTx.v, run c12tx of the check) ---------------- *)
(* For ANY values of the four formula functions: an accepted sell-all of a reserve-backed coin returns the sale-return
   formula applied to the curve the sale happens on — the coin's supply and reserve WITHOUT the fee when the fee was
   converted through that coin's reserve (the DummyCoin of sell_all_coin.go), the untouched curve when it went through
   the coin's pool — for the whole balance minus the fee, followed by the purchase-return formula on the bought coin's
   curve when that is not the base coin. *)
Theorem C12_tx_sell_all_on_the_curve_after_the_fee :
  forall (o_pr o_pa o_sr o_sa : Z -> Z -> Z -> Z -> Z) w t csell cbuy vmin effs tg,
  t_data t = SellAllCoin csell cbuy vmin -> csell <> 0 ->
  run o_pr o_pa o_sr o_sa w t true = Accept effs tg ->
  exists commission is_pool,
    calc_commission o_sa w csell (tx_price (w_prices w) t) = Ok (commission, is_pool) /\
    let k := sell_all_curve w csell commission (tx_price (w_prices w) t) is_pool in
    let value := bal w (t_sender t) csell - commission in
    let bip := o_sr (bc_vol k) (bc_res k) (bc_crr k) value in
    0 < value /\ value <= bc_vol k /\
    tag_return tg = (if cbuy =? 0 then bip
                     else o_pr (bc_vol (coin_or_base w cbuy)) (bc_res (coin_or_base w cbuy)) (bc_crr (coin_or_base w cbuy)) bip).
Proof. exact sell_all_coin_return_on_curve_after_fee. Qed.

(* non-vacuity: a coin with supply 10^24, reserve 2*10^23; the holder of 10^22 sells all, the fee (price 10^17 base
   units) is converted through the reserve; with the stand-in formulas x/5 the fee is 2*10^16 coins, the sale is
   accepted and returns (10^22 - 2*10^16)/5 computed on the curve (10^24 - 2*10^16, 2*10^23 - 10^17) *)
Definition c12_o (_ _ _ x : Z) : Z := x / 5.
Definition c12_world : world :=
  {| w_pools := [];
     w_coins := [(3, {| bc_vol := 10 ^ 24; bc_res := 2 * 10 ^ 23; bc_crr := 100; bc_max := 10 ^ 30 |})];
     w_bal := [(7, 3, 10 ^ 22)];
     w_prices := {| pt_payload_byte := 0; pt_sell_bancor := 10 ^ 17; pt_buy_bancor := 10 ^ 17; pt_sell_all_bancor := 10 ^ 17;
                    pt_sell_pool_base := 0; pt_sell_pool_delta := 0; pt_buy_pool_base := 0; pt_buy_pool_delta := 0;
                    pt_sell_all_pool_base := 0; pt_sell_all_pool_delta := 0; pt_failed := 0 |} |}.
Definition c12_tx : tx := {| t_sender := 7; t_gas_coin := 3; t_gas_price := 1; t_payload_len := 0; t_data := SellAllCoin 3 0 0 |}.
Example C12_tx_nonvacuous :
  match run c12_o c12_o c12_o c12_o c12_world c12_tx true with
  | Accept _ tg => tag_return tg = (10 ^ 22 - 2 * 10 ^ 16) / 5 /\ tag_commission tg = 2 * 10 ^ 16 /\ tag_pool tg = false
  | _ => False
  end /\
  sell_all_curve c12_world 3 (2 * 10 ^ 16) (10 ^ 17) false =
    {| bc_vol := 10 ^ 24 - 2 * 10 ^ 16; bc_res := 2 * 10 ^ 23 - 10 ^ 17; bc_crr := 100; bc_max := 10 ^ 30 |}.
Proof. vm_compute. repeat split. Qed.

Print Assumptions C12_purchase_return_formula.
Print Assumptions C12_purchase_amount_formula.
Print Assumptions C12_sale_return_formula.
Print Assumptions C12_sale_amount_formula.
Print Assumptions C12_search_correct.
Print Assumptions C12_search_fuel_adequate.
Print Assumptions C12_monotone.
Print Assumptions C12_sell_all.
Print Assumptions C12_round_trip.
Print Assumptions C12_crr_100.
Print Assumptions C12_integer_branches_exact.
Print Assumptions C12_tolerance_transfer_bounds.
Print Assumptions C12_tolerance_transfer_monotone.
Print Assumptions C12_tolerance_transfer_round_trip_partial.
Print Assumptions C12_check_decides.
Print Assumptions C12_check_sound.
Print Assumptions C12_full_functions.
Print Assumptions C12_tx_sell_all_on_the_curve_after_the_fee.
