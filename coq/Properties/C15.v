(* C15 — swaps and conversions honour the user's slippage limits.  Theorems only.

   Model: Model/SwapTx.v — the six conversion transactions (SellSwapPool, BuySwapPool,
   SellAllSwapPool V260 with routes of 2..5 coins; SellCoin, BuyCoin, SellAllCoin), every gas coin
   kind, check phase and deliver phase transliterated separately; pools WITHOUT limit orders (the
   trades are Model/Orders.v's on an empty book: Proofs/SwapTxOrders.v); the four bonding-curve
   functions are arbitrary oracles.  All magnitudes; the only hypotheses are positive pool
   reserves and a sender that is not the burn address.

   Result.  The four statements of the property hold for every accepted transaction.  The limits
   are enforced ONLY in the check phase, on simulated amounts; they are honoured by the delivered
   amounts because the simulation is exact: C15_simulation_exact (every pool, both orientations
   of the commission pool, every route position) and C15_check_amount_delivered (tx.return IS the
   amount the check phase compared with the limit).  With limit orders: the single hop gas coin ->
   base coin through the commission pool (Model/SwapTxBook.v on Model/Orders.v, any float oracle
   value): C15_simulation_exact_with_orders; longer routes and buys with orders are watched by the
   node-level monitors only.

   History.  Until fix d03ff6d the check phase simulated the commission swap of a hop gas coin ->
   base coin with AddLastSwapStepWithOrders(.., true), i.e. with the burned 0.1 % of the commission
   still in the gas-coin reserve: spurious rejections without orders, violated limits with orders
   in the commission pool (866 pips below MinimumValueToBuy in the state of C15_regression_orders).
   Until fix 1f18dbb SellAllCoin demanded the price as minimum output of its commission swap and
   panicked in DeliverTx with an order in the commission pool.  The examples C15_regression_* pin
   the former witnesses; replays: vharness c15 sim | orders-limit | sellall-panic. *)
From Minter Require Import Base Consts Pool Float Orders SwapTx SwapTxBook SwapTxFacts SwapTxRoute SwapTxProps SwapTxOrders.
From Coq Require Import ZArith List Bool Lia.
Import ListNotations.
Open Scope Z_scope.

Section C15.
(* formula.CalculatePurchaseReturn / PurchaseAmount / SaleReturn / SaleAmount: any values *)
Variables o_pr o_pa o_sr o_sa : Z -> Z -> Z -> Z -> Z.
Notation run_tx := (run_tx o_pr o_pa o_sr o_sa).

Lemma run_tx_run w t effs tg : run_tx w t true = Accept effs tg -> run o_pr o_pa o_sr o_sa w t true = Accept effs tg.
Proof.
  unfold SwapTx.run_tx. destruct (get_coin w (commission_coin t)); [|discriminate].
  destruct (run o_pr o_pa o_sr o_sa w t true) as [c|e g|s]; [|auto|discriminate].
  destruct (failed_code o_sr o_sa w t c); discriminate.
Qed.

(* A successful sell (SellSwapPool, SellAllSwapPool, SellCoin, SellAllCoin) never credits less than
   the requested minimum to buy: the AddBalance applied to the sender in the last coin carries
   tx.return, and tx.return is at least MinimumValueToBuy. *)
Theorem C15_sell_min : forall w t effs tg vmin,
  wf_pools w -> t_sender t <> burn_address ->
  run_tx w t true = Accept effs tg -> min_to_buy (t_data t) = Some vmin ->
  In (EBal (t_sender t) (last_coin (t_data t)) (tag_return tg)) effs /\ vmin <= tag_return tg.
Proof.
  intros w t effs tg vmin Hwf Hsb HR Hm. apply run_tx_run in HR.
  destruct (run_accepted o_pr o_pa o_sr o_sa w t effs tg Hwf Hsb HR) as [A1 _ A3 _ _ _].
  split; [|exact (A1 vmin Hm)].
  unfold amounts in A3. destruct (t_data t); try discriminate; exact A3.
Qed.

(* A successful buy (BuySwapPool, BuyCoin) never debits more than the requested maximum to sell:
   the SubBalance applied to the sender in the first coin carries tx.return <= MaximumValueToSell
   (the commission is debited separately). *)
Theorem C15_buy_max : forall w t effs tg vmax,
  wf_pools w -> t_sender t <> burn_address ->
  run_tx w t true = Accept effs tg -> max_to_sell (t_data t) = Some vmax ->
  In (EBal (t_sender t) (first_coin (t_data t)) (- tag_return tg)) effs /\ tag_return tg <= vmax.
Proof.
  intros w t effs tg vmax Hwf Hsb HR Hm. apply run_tx_run in HR.
  destruct (run_accepted o_pr o_pa o_sr o_sa w t effs tg Hwf Hsb HR) as [_ A2 _ A4 _ _].
  split; [|exact (A2 vmax Hm)].
  unfold amounts in A4. destruct (t_data t); try discriminate; exact (A4 eq_refl).
Qed.

(* The amounts in the result tags equal the balance changes actually applied: for EVERY coin c
   (the first, last and commission coin may coincide in any way, e.g. a route that ends in the
   coin it starts from), the sender's balance after the transaction is the balance before
   + [c = last coin] what the tags say was bought - [c = first coin] what they say was sold
   - [c = commission coin] tx.commission_amount, where (bought, sold) =
   (tx.return, ValueToSell) for a sell, (tx.return, tx.sell_amount - tx.commission_amount) for a
   sell-all, (ValueToBuy, tx.return) for a buy. *)
Theorem C15_tags_truthful : forall w t effs tg c,
  wf_pools w -> t_sender t <> burn_address ->
  run_tx w t true = Accept effs tg ->
  bal (apply_effs w effs) (t_sender t) c =
    bal w (t_sender t) c
    + (if last_coin (t_data t) =? c then fst (amounts w t tg) else 0)
    - (if first_coin (t_data t) =? c then snd (amounts w t tg) else 0)
    - (if commission_coin t =? c then tag_commission tg else 0).
Proof.
  intros w t effs tg c Hwf Hsb HR. apply run_tx_run in HR.
  destruct (run_accepted o_pr o_pa o_sr o_sa w t effs tg Hwf Hsb HR) as [_ _ _ _ A5 _].
  rewrite apply_effs_bal, A5. unfold b2z. lia.
Qed.

(* A successful sell-all sells exactly the sender's balance minus the fee: tx.sell_amount is the
   balance before, the amount converted is that balance less tx.commission_amount (the fee is paid
   in the sold coin), and afterwards the sender holds nothing of the sold coin — or, when the
   route ends in the coin it started from, exactly what was bought. *)
Theorem C15_sell_all_exact : forall w t effs tg,
  wf_pools w -> t_sender t <> burn_address ->
  run_tx w t true = Accept effs tg -> is_sell_all (t_data t) = true ->
  tag_sell_amount tg = Some (bal w (t_sender t) (first_coin (t_data t))) /\
  snd (amounts w t tg) = bal w (t_sender t) (first_coin (t_data t)) - tag_commission tg /\
  commission_coin t = first_coin (t_data t) /\
  bal (apply_effs w effs) (t_sender t) (first_coin (t_data t)) =
    if last_coin (t_data t) =? first_coin (t_data t) then tag_return tg else 0.
Proof.
  intros w t effs tg Hwf Hsb HR Hs.
  pose proof (C15_tags_truthful w t effs tg (first_coin (t_data t)) Hwf Hsb HR) as HT.
  apply run_tx_run in HR.
  destruct (run_accepted o_pr o_pa o_sr o_sa w t effs tg Hwf Hsb HR) as [_ _ _ _ _ A6].
  split; [exact (A6 Hs)|].
  assert (Hcc : commission_coin t = first_coin (t_data t)).
  { unfold commission_coin, first_coin. destruct (t_data t) as [| |[|c l] ?| | |]; try discriminate; reflexivity. }
  assert (Ham : amounts w t tg = (tag_return tg, bal w (t_sender t) (first_coin (t_data t)) - tag_commission tg)).
  { unfold amounts. destruct (t_data t); try discriminate; reflexivity. }
  split; [rewrite Ham; reflexivity|]. split; [exact Hcc|].
  rewrite HT, Hcc, Z.eqb_refl, Ham. cbn [fst snd].
  destruct (last_coin (t_data t) =? first_coin (t_data t)); lia.
Qed.

(* ---- the crux: what the check phase assumes against what the deliver phase has ------------------ *)
(* Right after the commission part of the deliver phase every pool holds exactly the reserves the
   check phase evaluates its hop on: pools other than the commission pool are untouched, and the
   commission pool — crossed from the gas coin to the base coin or the other way round, at any
   position of the route — holds the simulated reserves. *)
Theorem C15_simulation_exact : forall w sender gas price commission is_pool ce cib a b r r',
  wf_pools w -> calc_commission o_sa w gas price = Ok (commission, is_pool) ->
  commission_deliver w sender gas commission price is_pool 0 = Val (ce, cib) ->
  get_pool w a b = Some r -> sim_reserves w gas commission is_pool a b r = Ok r' ->
  get_pool (apply_effs w ce) a b = Some r'.
Proof.
  intros w sender gas price commission is_pool ce cib a b r r' Hwf HC HD Hg Hs.
  destruct is_pool.
  - destruct (calc_commission_pool _ _ _ _ _ HC) as (Hgas & _).
    destruct (keq (pkey a b) (pkey gas 0)) eqn:Ek.
    + apply keq_eq in Ek.
      assert (Hab : (a = gas /\ b = 0) \/ (a = 0 /\ b = gas)).
      { unfold pkey in Ek. destruct (Z.ltb_spec a b), (Z.ltb_spec gas 0); injection Ek as -> ->; auto. }
      destruct Hab as [[-> ->]|[-> ->]].
      * eapply simulation_gas_to_base; eassumption.
      * eapply simulation_base_to_gas; eassumption.
    + unfold sim_reserves in Hs. rewrite Ek in Hs. cbn [andb] in Hs. injection Hs as <-.
      destruct (commission_deliver_shape _ _ _ _ _ _ _ _ _ HD) as [_ Hp].
      destruct (Hp eq_refl) as (g & b0 & d0 & _ & _ & ->).
      rewrite apply_effs_pool_other; [exact Hg|]. cbn. rewrite keq_sym, Ek. reflexivity.
  - unfold sim_reserves in Hs. cbn [andb] in Hs. injection Hs as <-.
    destruct (commission_deliver_shape _ _ _ _ _ _ _ _ _ HD) as [Hnp _].
    rewrite apply_effs_pool_other; [exact Hg|]. apply no_pool_touches. apply Hnp. reflexivity.
Qed.

(* ... and so, hop after hop (the pools of a route are pairwise different), the deliver phase
   computes the amounts the check phase computed: tx.return of an accepted pool transaction is the
   very amount that was compared with MinimumValueToBuy / MaximumValueToSell. *)
Theorem C15_check_amount_delivered : forall w t effs tg s,
  wf_pools w -> t_sender t <> burn_address ->
  run_tx w t true = Accept effs tg -> check_amount o_sa w t = Some s -> tag_return tg = s.
Proof.
  intros w t effs tg s Hwf Hsb HR Hs. apply run_tx_run in HR.
  destruct (run_accepted o_pr o_pa o_sr o_sa w t effs tg Hwf Hsb HR) as [_ _ _ _ _ _ A7]. exact (A7 s Hs).
Qed.

(* Without limit orders the commission swap of the deliver phase succeeds and returns at least the
   price it was computed for (tx.commission_in_base_coin >= the price of the transaction). *)
Theorem C15_commission_swap_meets_price : forall w sender gas price commission,
  wf_pools w -> 0 < price -> calc_commission o_sa w gas price = Ok (commission, true) ->
  exists ce cib, commission_deliver w sender gas commission price true 0 = Val (ce, cib) /\ price <= cib.
Proof. exact (commission_swap_meets_price o_sa). Qed.

End C15.

(* With limit orders, single hop gas coin -> base coin paid in the gas coin (Model/SwapTxBook.v;
   the float / sqrt steps of the order-crossing trade are Model/Orders.v's executable instances):
   the check phase continues with exactly the reserves and the order book the delivered commission
   swap leaves, and the amount it compares with MinimumValueToBuy is the amount credited. *)
Theorem C15_simulation_exact_with_orders : forall dir r0 r1 book commission t1,
  sell_with_orders_x dir r0 r1 book commission 0 = Val t1 ->
  book_simulate dir r0 r1 book commission = Val (t_r0 t1, t_r1 t1, t_book t1, t_out t1).
Proof. exact book_simulate_is_delivery. Qed.

Theorem C15_sell_min_with_orders : forall dir r0 r1 book price value simulated delivered,
  sell_single_book dir r0 r1 book price value = Val (simulated, delivered) -> simulated = delivered.
Proof. exact sell_single_book_exact. Qed.

(* ---- concrete instances: non-vacuity and the refutation witness ----------------------------------------- *)
Definition ex_zero : Z -> Z -> Z -> Z -> Z := fun _ _ _ _ => 0.
Definition ex_prices : ptable :=
  {| pt_payload_byte := 2000000000000000; pt_sell_bancor := 100000000000000000; pt_buy_bancor := 100000000000000000; pt_sell_all_bancor := 100000000000000000;
     pt_sell_pool_base := 100000000000000000; pt_sell_pool_delta := 50000000000000000; pt_buy_pool_base := 100000000000000000; pt_buy_pool_delta := 50000000000000000;
     pt_sell_all_pool_base := 100000000000000000; pt_sell_all_pool_delta := 50000000000000000; pt_failed := 1000000000000000 |}.
Definition ex_token (v : Z) : bcoin := {| bc_vol := v; bc_res := 0; bc_crr := 0; bc_max := 1000000000000000000000000000000000 |}.
(* coin 1: a token with a pool with the base coin (gas coin through the pool); coin 2: a token;
   coin 3: a bancor coin *)
Definition ex_world : world :=
  {| w_pools := [((0, 1), (1000000000000000000000, 1000000000000000000000)); ((1, 2), (500000000000000000000000, 700000000000000000000000))];
     w_coins := [(1, ex_token 10000000000000000000000000); (2, ex_token 10000000000000000000000000);
                 (3, {| bc_vol := 1000000000000000000000000; bc_res := 200000000000000000000000; bc_crr := 100; bc_max := 1000000000000000000000000000000 |})];
     w_bal := [(7, 0, 1000000000000000000000); (7, 1, 10000000000000000000000); (7, 2, 10000000000000000000000); (7, 3, 10000000000000000000000)];
     w_prices := ex_prices |}.
Definition ex_tx (d : txdata) (gas : Z) : tx :=
  {| t_sender := 7; t_gas_coin := gas; t_gas_price := 1; t_payload_len := 0; t_data := d |}.
Definition ex_run (t : tx) : txres := run_tx ex_zero ex_zero ex_zero ex_zero ex_world t true.
Definition ex_return (r : txres) : Z := match r with Accept _ tg => tag_return tg | _ => -1 end.
Definition ex_code (r : txres) : Z := match r with Reject c => c | Accept _ _ => 0 | TxPanic _ => -3 end.

Lemma ex_world_wf : wf_pools ex_world.
Proof.
  intros a b r H. unfold get_pool, ex_world in H. cbn [w_pools find_pool] in H.
  destruct (keq (0, 1) (pkey a b)).
  - injection H as <-. unfold orient. destruct (a <? b); cbn [fst snd]; lia.
  - destruct (keq (1, 2) (pkey a b)); [|discriminate]. injection H as <-. unfold orient. destruct (a <? b); cbn [fst snd]; lia.
Qed.

(* accepted conversions of every kind exist: a sell through the commission pool in the direct
   orientation, a two-hop buy ending in the commission pool, a sell-all, and a bancor sale *)
Example C15_nonvacuous :
  ex_code (ex_run (ex_tx (SellPool [1; 0] 100000000000000000000 90643920426620284400) 1)) = 0 /\
  ex_code (ex_run (ex_tx (BuyPool [2; 1; 0] 10000000000000000000 1000000000000000000000000000000000) 1)) = 0 /\
  ex_code (ex_run (ex_tx (SellAllPool [1; 0] 0) 0)) = 0 /\
  ex_code (ex_run (ex_tx (SellCoin 3 1000000000000000000000 0 0) 0)) = 0.
Proof. vm_compute. repeat split. Qed.

(* ---- regression: the witnesses of the two repaired findings ----------------------------------------------- *)
(* the sale that was refused (303) for the minimum 90643928694082248794 its delivery credits — the
   check phase computed 90643920426620284400 — is now accepted with exactly that minimum, refused
   one pip above it *)
Example C15_regression_spurious_rejection :
  ex_return (ex_run (ex_tx (SellPool [1; 0] 100000000000000000000 90643928694082248794) 1)) = 90643928694082248794 /\
  ex_run (ex_tx (SellPool [1; 0] 100000000000000000000 90643928694082248795) 1) = Reject cMinimumValueToBuyReached.
Proof. vm_compute. split; reflexivity. Qed.

(* a state read off the real node (vharness c15 -seed 2 orders-limit before the fix): the check phase
   accepted MinimumValueToBuy 246891514809770 and the delivery credited 246891514808904; now both
   are the delivered amount *)
Definition ex_order (i b s : Z) : order := {| oid := i; obuy := b; osell := s; oowner := 0; oheight := 0 |}.
Definition ex_book : list order :=
  [ex_order 35 864065200939403132242 1357270443746907575408; ex_order 36 391087390790023116679 614318636908768086801;
   ex_order 37 817691211559796108537 1284426351570595376000; ex_order 38 936757948568253600720 1471455944706934227974;
   ex_order 39 200176013394196029032 314435746552048888870; ex_order 40 953441356733556595812 1497662180971412136456].
Example C15_regression_orders :
  sell_single_book false 2000001193055817961065705 3141594527637487159725771 ex_book 100000000000000000 157648334999306
  = Val (246891514808904, 246891514808904).
Proof. vm_compute. reflexivity. Qed.

Print Assumptions C15_sell_min.
Print Assumptions C15_buy_max.
Print Assumptions C15_tags_truthful.
Print Assumptions C15_sell_all_exact.
Print Assumptions C15_simulation_exact.
Print Assumptions C15_check_amount_delivered.
Print Assumptions C15_commission_swap_meets_price.
Print Assumptions C15_simulation_exact_with_orders.
Print Assumptions C15_sell_min_with_orders.
Print Assumptions sell_wo_empty_book.
Print Assumptions buy_wo_empty_book.
