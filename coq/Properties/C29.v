(* C29 — a state-synced node behaves like one that replayed every block.

   Model (Model/Snapshot.v on the three-store model of Model/Crash.v): a snapshot of height h is the
   list of the appdb DISK records in the code's fixed order (empty ones skipped) followed by the
   tree export of version h; restore writes the records to a fresh node's disk and imports the tree
   version; the state is initialised lazily by the next BeginBlock.  Block execution is an arbitrary
   function of the loaded tree content and of what the appdb getters return.

   Result (current tree, i.e. with the C09 repair of SaveEmission): all three statements hold.
   * [C29_snapshot_deterministic]: nodes that committed the same blocks, with ANY process restarts
     in between, produce the same snapshot (the snapshot reads the disk only and every Commit leaves
     the same disk whatever the caches were — the coherence invariant of C09 extended to the three
     stores);
   * [C29_info_after_restore]: Info of the restored node = the producer's (height, app hash);
   * [C29_restore_equiv]: from then on the restored node and the producer observe the same
     responses, app hashes, getters (height, hash, validators, block times, versions, emission,
     price) and events for every later block.
   Every record that Commit writes is in the snapshot (tie below: snapshot_records and
   restore_records list all eight record names, and are read from disk).  One stated exception
   (hypothesis [emission_transportable]): an emission of exactly 0 is stored as the empty byte
   string, which Snapshot treats as "no record" (it is equally unreadable for the producer itself
   after a restart); excluded — no chain has emission 0.
   Proved for the appdb / tree-version / events-table layer; IAVL export / import, the cosmos-sdk
   chunk store and the state modules' caches are exercised by the node-level command c29. *)
From Minter Require Import Base Persist PersistFacts PersistGen Crash CrashFacts CrashEvFacts CrashReplay CrashMain Snapshot SnapshotFacts.
From Coq Require Import ZArith List Lia.
Import ListNotations.
Open Scope Z_scope.

(* ---- tie to the source (regenerated on every run by harness/cmd/xlate) ----------------------- *)
Definition c29_zl_eq (a b : list Z) : bool := if list_eq_dec Z.eq_dec a b then true else false.

(* the snapshot carries every record Commit / InitChain write (hash 30, height 31, validators 32,
   blockDelta 33, versions 34, emission 35, price 36, startHeight 37), reads them from disk, and
   Restore accepts exactly those names *)
Definition c29_code_shape_ok : bool :=
  c29_zl_eq snapshot_records [32; 31; 30; 34; 33; 37; 35; 36] &&
  c29_zl_eq restore_records [32; 31; 30; 34; 33; 37; 35; 36] &&
  (snapshot_reads_disk =? 1) &&
  forallb (fun c => existsb (Z.eqb c) snapshot_records) (37 :: save_record).

Theorem C29_model_matches_code_shape : c29_code_shape_ok = true.
Proof. reflexivity. Qed.

Definition node_ok (s : cst) : Prop := cgood s.
Definition emission_transportable (s : cst) : Prop := d_emission (cd_app (fst s)) <> Some 0.

(* Two nodes that start from the same state and commit the same blocks, each with its own process
   restarts (any number, after any blocks): a snapshot of any height is the same on both —
   the same items, or refused on both. *)
Theorem C29_snapshot_deterministic : forall keep s0 (h1 h2 : list (cblock * nat)) n1 n2 o1 o2 h,
  1 <= keep -> node_ok s0 -> map fst h1 = map fst h2 ->
  run_hist_c keep s0 h1 = Val (n1, o1) -> run_hist_c keep s0 h2 = Val (n2, o2) ->
  snapshot n1 h = snapshot n2 h /\ o1 = o2.
Proof.
  intros keep s0 h1 h2 n1 n2 o1 o2 h K G EM R1 R2.
  destruct (run_hist_same_disk keep K h2 h1 s0 s0 n2 o2 EM G G eq_refl R2) as (n1' & R1' & E & G1 & G2).
  rewrite R1 in R1'. injection R1' as <- <-.
  split.
  - apply snapshot_same_disk; assumption.
  - reflexivity.
Qed.

(* the restored node reports the producer's height and app hash *)
Theorem C29_info_after_restore : forall p h items,
  node_ok p -> emission_transportable p -> snapshot p h = Val items ->
  exists r, restore items = Val r /\ info r = info p /\ fst (info r) = h.
Proof.
  intros p h items G HE S.
  destruct (snapshot_restore p h items G HE S) as (c & m & R & Em & A & Eh & N0). subst m.
  eexists. split; [exact R|].
  pose proof (restored_rsim p h c G Eh A) as (Gr & _ & EA & _).
  pose proof (same_app_view _ _ Gr G EA) as V.
  split.
  - unfold info. apply f_equal2; [exact (f_equal v_height V)|exact (f_equal v_hash V)].
  - unfold info. cbn [fst]. rewrite Eh. exact (f_equal v_height V).
Qed.

(* From then on: for every continuation of the history, the restored node's run is defined and it
   observes block by block what the producer observes — responses, app hash, every getter, the
   events of the block — and ends with the same getters. *)
Theorem C29_restore_equiv : forall keep p h items post p' os,
  1 <= keep -> node_ok p -> emission_transportable p -> snapshot p h = Val items ->
  run_blocks keep false p post = Val (p', os) ->
  exists r r', restore items = Val r /\ run_blocks keep false r post = Val (r', os) /\
               view_of (app_of r') = view_of (app_of p').
Proof.
  intros keep p h items post p' os K G HE S R.
  destruct (snapshot_restore p h items G HE S) as (c & m & RS & Em & A & Eh & N0). subst m.
  pose proof (restored_rsim p h c G Eh A) as RSIM.
  destruct (run_blocks_rsim keep K post _ p p' os RSIM R) as (r' & RR & (Gr' & Gp' & EA' & _)).
  eexists. exists r'. split; [exact RS|]. split; [exact RR|].
  exact (same_app_view _ _ Gr' Gp' EA').
Qed.

(* the producer may itself have been restarted any number of times: the composition *)
Corollary C29_synced_equals_replaying : forall keep s0 (h1 h2 : list (cblock * nat)) n1 n2 o1 o2 h items post n2' os,
  1 <= keep -> node_ok s0 -> map fst h1 = map fst h2 ->
  run_hist_c keep s0 h1 = Val (n1, o1) ->          (* the producer of the snapshot, with its restarts *)
  run_hist_c keep s0 h2 = Val (n2, o2) ->          (* a node that executed every block, with its own *)
  emission_transportable n1 -> snapshot n1 h = Val items ->
  run_blocks keep false n2 post = Val (n2', os) ->
  exists r r', restore items = Val r /\ run_blocks keep false r post = Val (r', os) /\
               view_of (app_of r') = view_of (app_of n2').
Proof.
  intros keep s0 h1 h2 n1 n2 o1 o2 h items post n2' os K G EM R1 R2 HE S RP.
  destruct (run_hist_same_disk keep K h2 h1 s0 s0 n2 o2 EM G G eq_refl R2) as (n1' & R1' & E & G1 & G2).
  rewrite R1 in R1'. injection R1' as <- <-.
  assert (S2 : snapshot n2 h = Val items) by (rewrite <- S; symmetry; apply snapshot_same_disk; assumption).
  assert (HE2 : emission_transportable n2) by (unfold emission_transportable in *; rewrite <- E; exact HE).
  exact (C29_restore_equiv keep n2 h items post n2' os K G2 HE2 S2 RP).
Qed.

(* ---- non-vacuity ------------------------------------------------------------------------------------ *)
Definition c29_s0 : cst := genesis_cst 99 1.
Definition c29_b1 : cblock := op_block 2 1 1 1 1 [(true, 7); (false, 8); (true, 9)].
Definition c29_b2 : cblock := op_block 3 0 0 1 0 [(true, 9); (true, 10)].
Definition c29_b3 : cblock := op_block 4 1 0 1 1 [(false, 8); (false, 11)].

Example C29_genesis_ok : node_ok c29_s0.
Proof. apply genesis_good. lia. Qed.

Definition enc_item (it : sitem) : list Z :=
  match it with
  | SApp a => [enc_awrite a]
  | SStart h => [37; h]
  | STree v c => [0; v; c]
  end.

(* the snapshot of height 101 after two blocks: validators, height, hash, versions, blockDelta,
   startHeight, emission, price, then the tree version — the same with restarts after each block *)
Example C29_example_snapshot :
  match run_hist_c 1 c29_s0 [(c29_b1, 0%nat); (c29_b2, 0%nat)], run_hist_c 1 c29_s0 [(c29_b1, 2%nat); (c29_b2, 1%nat)] with
  | Val (n1, _), Val (n2, _) =>
    match snapshot n1 101, snapshot n2 101 with
    | Val i1, Val i2 => (flat_map enc_item i1, flat_map enc_item i2)
    | _, _ => ([], [])
    end
  | _, _ => ([], [])
  end = ([32; 31; 30; 34; 33; 37; 99; 35; 36; 0; 101; 3], [32; 31; 30; 34; 33; 37; 99; 35; 36; 0; 101; 3]).
Proof. vm_compute. reflexivity. Qed.

(* a snapshot of another height than the last committed one is refused *)
Example C29_example_refused :
  match run_hist_c 1 c29_s0 [(c29_b1, 0%nat); (c29_b2, 0%nat)] with
  | Val (n1, _) => snapshot n1 100
  | _ => Val []
  end = Nil.
Proof. vm_compute. reflexivity. Qed.

(* restore and continue with block 3: the restored node's observation equals the producer's
   (the events of block 3 name a public key the restored node has never seen: it gets id 1 there,
   id 2 on the producer, and resolves to the same key) *)
Example C29_example_continue :
  match run_hist_c 1 c29_s0 [(c29_b1, 1%nat); (c29_b2, 0%nat)] with
  | Val (p, _) =>
    match snapshot p 101 with
    | Val items =>
      match restore items, run_blocks 1 false p [c29_b3] with
      | Val r, Val (p', [o]) =>
        match run_blocks 1 false r [c29_b3] with
        | Val (r', [o']) => (o_events o, o_events o', v_height (o_view o'), v_times (o_view o), v_times (o_view o'), info r, info p)
        | _ => (None, None, 0, [], [], (0, None), (0, None))
        end
      | _, _ => (None, None, 0, [], [], (0, None), (0, None))
      end
    | _ => (None, None, 0, [], [], (0, None), (0, None))
    end
  | _ => (None, None, 0, [], [], (0, None), (0, None))
  end = (Some [8; 11], Some [8; 11], 102, [100; 101; 102], [100; 101; 102], (101, Some 3), (101, Some 3)).
Proof. vm_compute. reflexivity. Qed.

Print Assumptions C29_model_matches_code_shape.
Print Assumptions C29_snapshot_deterministic.
Print Assumptions C29_info_after_restore.
Print Assumptions C29_restore_equiv.
Print Assumptions C29_synced_equals_replaying.
