(* C17 — validator set and powers follow the stake ranking.  Theorems only.
   The statements carry the literals of the property text (64 validators, 1000 base coin =
   1000 * 10^18 pip, 10^8 power units, 100 candidates, 1000 delegation slots); the model takes
   them from Generated/Consts.v, so a changed constant in the Go source breaks these proofs. *)
From Minter Require Import Base Consts Ranking RankingFacts.
From Coq Require Import ZArith List Lia Permutation Sorted.
Import ListNotations.
Open Scope Z_scope.

(* (1) GetNewCandidates: at most 64, all online with at least 1000 base coin, in non-increasing
   stake order, a sub-multiset of the candidates; an eligible candidate is left out only when all
   64 seats are taken, and then every seated candidate has at least its stake (on equal stakes the
   code seats the larger ID first) *)
Theorem C17_validators_are_top : forall cands,
  let vs := new_validators cands (Z.to_nat validators_count) in
  (length vs <= 64)%nat /\
  (forall v, In v vs -> c_online v = true /\ 1000 * 10 ^ 18 <= c_stake v) /\
  StronglySorted (fun a b => c_stake b <= c_stake a) vs /\
  exists rest,
    Permutation cands (vs ++ rest) /\
    forall r, In r rest -> c_online r = true -> 1000 * 10 ^ 18 <= c_stake r ->
      length vs = 64%nat /\
      forall v, In v vs -> c_stake r <= c_stake v /\ (c_stake r = c_stake v -> c_id r <= c_id v).
Proof. intros cands. exact (new_validators_top cands 64). Qed.

(* fewer than (or exactly) 64 eligible candidates: all of them are validators *)
Theorem C17_all_eligible_when_few : forall cands,
  (length (filter (fun c => c_online c && (1000 * 10 ^ 18 <=? c_stake c)%Z) cands) <= 64)%nat ->
  forall c, In c cands -> c_online c = true -> 1000 * 10 ^ 18 <= c_stake c ->
  In c (new_validators cands (Z.to_nat validators_count)).
Proof.
  intros cands Hlen c Hc Ho Hm. apply (new_validators_all cands 64 Hlen c Hc).
  apply eligible_iff. split; [exact Ho|exact Hm].
Qed.

(* (2) powers: floor(stake * 10^8 / total), raised to 1 when it would be 0; monotone in the stake;
   never above 10^8; and for the stakes GetNewCandidates selects the division cannot panic *)
Theorem C17_powers_spec : forall stakes,
  0 < sum_Z stakes -> (forall s, In s stakes -> 0 <= s) ->
  powers stakes = Val (map (fun s => Z.max 1 (s * 10 ^ 8 / sum_Z stakes)) stakes) /\
  (forall s1 s2, s1 <= s2 -> Z.max 1 (s1 * 10 ^ 8 / sum_Z stakes) <= Z.max 1 (s2 * 10 ^ 8 / sum_Z stakes)) /\
  (forall s, In s stakes -> Z.max 1 (s * 10 ^ 8 / sum_Z stakes) <= 10 ^ 8).
Proof. exact powers_spec_general. Qed.

Theorem C17_powers_no_panic : forall cands,
  exists ps, powers (map c_stake (new_validators cands (Z.to_nat validators_count))) = Val ps /\
             length ps = length (new_validators cands (Z.to_nat validators_count)).
Proof. intros cands. exact (powers_no_panic cands 64). Qed.

(* (3) RecalculateStakesV2: the candidates are ranked by stake (ties: smaller ID first); exactly
   the non-validators from rank 101 on are deleted: no validator is deleted, nobody within the
   first 100 is deleted, and whoever stays is a validator or ranks within the first 100 *)
Theorem C17_beyond_100_removed : forall cands is_validator,
  let ranked := sort_stable before_lt cands in
  let del := to_delete cands is_validator (Z.to_nat max_candidates_kept) in
  Permutation ranked cands /\
  StronglySorted (fun a b => c_stake b <= c_stake a) ranked /\
  (forall a b, In a (firstn 100 ranked) -> In b (skipn 100 ranked) -> c_stake b <= c_stake a) /\
  (forall c, In c del -> is_validator c = false /\ In c (skipn 100 ranked)) /\
  exists keep, Permutation cands (keep ++ del) /\
               forall c, In c keep -> is_validator c = true \/ In c (firstn 100 ranked).
Proof.
  intros cands is_validator.
  destruct (to_delete_spec cands is_validator 100) as (H1 & H2 & H3 & H4). cbn zeta.
  split; [exact H1|]. split; [eapply StronglySorted_weaken; [|exact H2]; intros a b; apply before_lt_stake|].
  split; [intros a b Ha Hb; apply before_lt_stake; exact (ranked_cross cands 100 a b Ha Hb)|].
  split; [exact H3|exact H4].
Qed.

(* DeleteCandidate: every stake and every pending update of a removed candidate becomes one frozen
   fund of the same owner, coin and value, due at height + UnbondPeriod; sums are preserved for
   every set of (owner, coin) pairs *)
Theorem C17_removed_stakes_unbonded : forall height unbond cid slots updates,
  let funds := delete_funds height unbond cid slots updates in
  Forall (fun f => f_height f = height + unbond /\ f_cand f = cid) funds /\
  map (fun f => (f_owner f, f_coin f, f_value f)) funds
    = map (fun s => (s_owner s, s_coin s, s_value s)) (somes slots ++ updates) /\
  forall k, fsum k funds = vsum k (somes slots) + vsum k updates.
Proof.
  intros. split; [apply delete_funds_due|]. split; [apply delete_funds_each|].
  intros k. apply delete_funds_sum.
Qed.

(* (4) the kick rule: all 1000 slots occupied, one incoming update u.  Let `old` be the first slot
   holding the minimum bip value.  The code compares  old > u :  if so the update loses, otherwise
   (u >= old, equality included) the update takes the slot and `old` loses; the loser is in the
   kicked list as it is, with its full value; no other slot changes. *)
Theorem C17_kick_rule : forall slots u,
  length slots = 1000%nat -> (forall o, In o slots -> o <> None) ->
  exists i old,
    nth_error slots i = Some (Some old) /\
    (forall s, In (Some s) slots -> s_bip old <= s_bip s) /\
    (forall j s, (j < i)%nat -> nth_error slots j = Some (Some s) -> s_bip old < s_bip s) /\
    ((s_bip u < s_bip old /\ place_one slots u = Val (slots, [u])) \/
     (s_bip old <= s_bip u /\ place_one slots u = Val (set_nth i (Some u) slots, [old]))).
Proof.
  intros slots u Hl Hf. apply kick_rule_full; [exact Hf|]. intros ->. discriminate.
Qed.

(* as long as a slot is free the incoming update takes the first free slot and nobody is kicked *)
Theorem C17_free_slot_no_kick : forall l1 l2 u,
  (forall o, In o l1 -> o <> None) -> 0 <= s_bip u ->
  place_one (l1 ++ None :: l2) u = Val (l1 ++ Some u :: l2, []).
Proof. exact free_slot_no_kick. Qed.

(* the whole recalculation of one candidate, for any bip-value oracle: never more than 1000 slots,
   nothing lost — for every set of (owner, coin) pairs the values in the new slots plus the kicked
   values equal the old slots plus the updates —, totalBipStake is the sum of the slots' bip values
   and every slot carries the oracle's bip value of its (coin, value); no panic *)
Theorem C17_recalc_nothing_lost : forall bipf slots updates r,
  length slots = Z.to_nat max_delegators_per_candidate ->
  (forall u, In u updates -> 0 <= s_value u) ->
  recalc_slots bipf slots updates = Val r ->
  length (r_slots r) = 1000%nat /\
  (forall k, vsum k (somes (r_slots r)) + vsum k (r_kicked r) = vsum k (somes slots) + vsum k updates) /\
  r_total r = sum_Z (map s_bip (somes (r_slots r))) /\
  Forall (fun s => s_bip s = bipf (s_coin s) (s_value s)) (somes (r_slots r)).
Proof.
  intros bipf slots updates r Hl Hp H.
  split; [destruct (recalc_slots_spec bipf (fun _ _ => true) slots updates r Hp H) as (L & _); rewrite L; exact Hl|].
  split; [intros k; apply (recalc_slots_spec bipf k slots updates r Hp H)|].
  apply (recalc_slots_spec bipf (fun _ _ => true) slots updates r Hp H).
Qed.

Theorem C17_recalc_no_panic : forall bipf slots updates,
  length slots = Z.to_nat max_delegators_per_candidate ->
  exists r, recalc_slots bipf slots updates = Val r.
Proof. intros bipf slots updates Hl. apply recalc_slots_no_panic. intros ->. discriminate. Qed.

(* a kick happens only when every slot is occupied, and whoever was kicked is not larger (in bip
   value) than anybody holding a slot afterwards *)
Theorem C17_losers_not_larger : forall bipf slots updates r,
  (forall c v, 0 <= bipf c v) ->
  recalc_slots bipf slots updates = Val r ->
  (r_kicked r <> [] -> forall o, In o (r_slots r) -> o <> None) /\
  forall x s, In x (r_kicked r) -> In s (somes (r_slots r)) -> s_bip x <= s_bip s.
Proof. exact recalc_slots_losers. Qed.

(* ---- non-vacuity ------------------------------------------------------------------------------- *)
Definition e18 : Z := 10 ^ 18.
Definition mk (i : Z) (on : bool) (st : Z) : cand := {| c_id := i; c_online := on; c_stake := st |}.

(* 2 seats: an offline candidate, one below the minimum by 1 pip, a tie at the top (larger ID first) *)
Example C17_selection_example :
  map c_id (new_validators [ mk 1 true (5000 * e18); mk 2 true (1000 * e18 - 1); mk 3 false (9000 * e18);
                             mk 4 true (5000 * e18); mk 5 true (1000 * e18); mk 6 true (7000 * e18) ] 2) = [6; 4]
  /\ powers [7000 * e18; 5000 * e18] = Val [58333333; 41666666]
  /\ powers [10 ^ 30; 1000 * e18] = Val [99999999; 1]
  /\ powers [0; 0] = Panic 900.
Proof. vm_compute. auto. Qed.

(* 3 kept: ranks 4 and 5 (ties: smaller ID first) go, rank 6 is a validator and stays *)
Example C17_removal_example :
  map c_id (to_delete [ mk 1 false 50; mk 2 false 10; mk 3 false 70; mk 4 true 5; mk 5 false 10; mk 6 false 60 ]
                      c_online 3) = [2; 5]
  /\ map c_id (to_delete [ mk 1 false 50; mk 2 false 10 ] c_online 3) = [].
Proof. vm_compute. auto. Qed.

Definition sk (o v : Z) : stk := {| s_owner := o; s_coin := 0; s_value := v; s_bip := 0 |}.
Definition base_bip (c v : Z) : Z := v.
(* cap 3, full: owner 1 tops up; 7 replaces the minimum 5; then 6 ties with the new minimum 6 and
   replaces it; then 4 is too small and is kicked itself *)
Example C17_kick_example :
  exists r, recalc_slots base_bip [Some (sk 1 9); Some (sk 2 5); Some (sk 3 6)] [sk 4 7; sk 1 1; sk 5 6; sk 6 4] = Val r
  /\ map (fun s => (s_owner s, s_value s)) (somes (r_slots r)) = [(1, 10); (4, 7); (5, 6)]
  /\ map (fun s => (s_owner s, s_value s)) (r_kicked r) = [(2, 5); (3, 6); (6, 4)]
  /\ r_total r = 23.
Proof. eexists. vm_compute. auto. Qed.
(* a free slot: no kick; two updates of one delegator are merged first *)
Example C17_free_example :
  exists r, recalc_slots base_bip [Some (sk 1 9); None; None] [sk 4 7; sk 4 2; sk 5 1] = Val r
  /\ map (fun s => (s_owner s, s_value s)) (somes (r_slots r)) = [(1, 9); (4, 9); (5, 1)]
  /\ r_kicked r = [] /\ r_total r = 19.
Proof. eexists. vm_compute. auto. Qed.

Print Assumptions C17_validators_are_top.
Print Assumptions C17_all_eligible_when_few.
Print Assumptions C17_powers_spec.
Print Assumptions C17_powers_no_panic.
Print Assumptions C17_beyond_100_removed.
Print Assumptions C17_removed_stakes_unbonded.
Print Assumptions C17_kick_rule.
Print Assumptions C17_free_slot_no_kick.
Print Assumptions C17_recalc_nothing_lost.
Print Assumptions C17_recalc_no_panic.
Print Assumptions C17_losers_not_larger.
