(* C24 — events are stored and reloaded faithfully.

   "The events a node records for a height load back for that height unchanged, with the same
    addresses, public keys, coins and amounts.  This holds after restarts and however many
    distinct addresses and validator keys have appeared before."

   Model: Model/EventStore.v (coreV2/events/store.go + types.go; tmjson abstract).  The
   specification is the obvious one ([ref_step] in Proofs/EventStoreFacts.v): a map from heights
   to batches; AddEvent appends to the pending batch, CommitEvents h stores it under h, a restart
   drops what was not committed, LoadEvents h returns the batch last committed under h (nil if
   none).  "Faithfully" = the store, started on an empty database, produces exactly the
   observations of the specification, for every history of operations.

   RESULT: the full statement is FALSE for the code as it is ([C24_refuted], at the real
   widths: 65535 distinct validator keys, a restart, a load: the store panics in
   reward.compile).  Proved instead: [C24_roundtrip_partial] — the statement holds for every
   history in which at most 65534 distinct validator keys and at most 2^32-1 distinct addresses
   are handed to the store; the bound on keys is tight ([C24_refuted]).  The hypotheses
   [op_wf] say what the node emits: a defined role name, non-negative decimal amounts, coin and
   order ids below 2^32 (they are uint32 in the state; the store narrows them). *)
From Minter Require Import Base EventStore EventStoreFacts.
From Coq Require Import ZArith List Lia.
Import ListNotations.
Open Scope Z_scope.

(* ---- what holds ----------------------------------------------------------------------------------- *)
Theorem C24_roundtrip_partial : forall ops : list es_op,
  Forall op_wf ops ->
  distinct_pubkeys ops <= 65534 ->
  distinct_addresses ops <= 4294967295 ->
  es_run go_widths (es_new es_empty_disk) ops = ref_run ref_init ops.
Proof.
  intros ops WF BP BA. apply roundtrip_bounded; cbn [go_widths w_pk w_ad]; try lia; exact WF.
Qed.

(* the same for any widths of the two id types: fewer than 2^wp - 1 keys, fewer than 2^wa addresses *)
Theorem C24_roundtrip_partial_any_width : forall (W : widths) (ops : list es_op),
  0 <= w_pk W -> 0 <= w_ad W -> Forall op_wf ops ->
  distinct_pubkeys ops + 2 <= 2 ^ w_pk W -> distinct_addresses ops + 1 <= 2 ^ w_ad W ->
  es_run W (es_new es_empty_disk) ops = ref_run ref_init ops.
Proof. exact roundtrip_bounded. Qed.

(* in the words of the property: after any such history (adds, commits, restarts, loads in any
   order), LoadEvents h returns the batch last committed under h, or nil if there is none ... *)
Theorem C24_load_returns_committed : forall (ops : list es_op) (h : Z),
  Forall op_wf ops -> distinct_pubkeys ops <= 65534 -> distinct_addresses ops <= 4294967295 ->
  last (es_run go_widths (es_new es_empty_disk) (ops ++ [OLoad h])) BAck =
  BLoad (match alookup h (r_comm (ref_after ops)) with Some b => Val b | None => Nil end).
Proof.
  intros ops h WF BP BA. apply load_returns_committed; cbn [go_widths w_pk w_ad]; try lia; exact WF.
Qed.

(* ... where the batch committed under h is the list of events added before that commit *)
Theorem C24_committed_batch : forall (pre : list es_op) (h : Z) (mid : list es_op),
  existsb (commits_at h) mid = false ->
  alookup h (r_comm (ref_after (pre ++ OCommit h :: mid))) = Some (r_pending (ref_after pre)).
Proof. exact ref_committed. Qed.

(* ---- what does not hold ---------------------------------------------------------------------------- *)
(* the id arithmetic, for every width w of the pubkey id type (uint16: w = 16): with 2^w - 1 keys
   known, the next new key gets id 0 — the id CommitEvents uses for "no key" — and the persisted
   counter becomes 0; with 2^w known it gets id 1 again; and a persisted counter of 2^w - 1 makes
   loadPubKeys load nothing, because its loop bound count+1 is computed in the same width *)
Theorem C24_pubkey_id_wraps : forall (W : widths) (s : es_store) (k : Z),
  0 <= w_pk W -> zm_len (fst (s_pk s)) = 2 ^ w_pk W - 1 -> zm_get k (snd (s_pk s)) = None ->
  snd (save_pubkey W s (Some k)) = 0.
Proof. exact pubkey_id_wraps_to_zero. Qed.

Theorem C24_pubkey_counter_wraps : forall (W : widths) (s : es_store) (k : Z),
  0 <= w_pk W -> zm_len (fst (s_pk s)) = 2 ^ w_pk W - 1 -> zm_get k (snd (s_pk s)) = None ->
  zm_get 0 (fst (s_pk s)) = None ->
  db_pkn (s_disk (fst (save_pubkey W s (Some k)))) = Some 0.
Proof. exact pubkey_counter_wraps_to_zero. Qed.

Theorem C24_pubkey_id_collides : forall (W : widths) (s : es_store) (k : Z),
  1 <= w_pk W -> zm_len (fst (s_pk s)) = 2 ^ w_pk W -> zm_get k (snd (s_pk s)) = None ->
  snd (save_pubkey W s (Some k)) = 1.
Proof. exact pubkey_id_collides_with_one. Qed.

Theorem C24_restart_at_limit_loads_no_key : forall (W : widths) (d : es_disk) (t : tbl),
  0 <= w_pk W -> db_pkn d = Some (2 ^ w_pk W - 1) -> load_pubkeys W d t = t.
Proof. exact load_pubkeys_at_limit. Qed.

(* the witness at the real widths: reward events for the keys 1..65535, one commit, a restart, a
   load of that height.  (The list is generated; nothing here enumerates it in unary.) *)
Definition rewards_for_keys (n : Z) : list es_op :=
  snd (Z.iter n (fun x => (fst x - 1, OAdd (EReward 0 7 1 (fst x) 0) :: snd x)) (n, [])).
Definition witness_65535 : list es_op := rewards_for_keys 65535 ++ [OCommit 1; ORestart; OLoad 1].

Theorem C24_refuted : exists ops : list es_op,
  Forall op_wf ops /\ es_run go_widths (es_new es_empty_disk) ops <> ref_run ref_init ops.
Proof.
  exists witness_65535. split.
  - apply ops_wfb_ok. vm_compute. reflexivity.
  - apply panic_refutes. vm_compute. reflexivity.
Qed.

(* what the store answers on that history: a nil dereference in reward.compile (types.go:109) *)
Example C24_refuted_observation :
  last (es_run go_widths (es_new es_empty_disk) witness_65535) BAck = BLoad (Panic 109).
Proof. vm_compute. reflexivity. Qed.

(* the same defect in miniature (pubkey ids 2 bits wide, limit 2^2 - 1 = 3 keys), with the numbers
   of the bound visible: three distinct keys are one more than C24_roundtrip_partial_any_width
   admits, and they break it *)
Definition W2 : widths := {| w_pk := 2; w_ad := 32 |}.
Definition small_restart : list es_op :=
  [OAdd (EReward 2 7 100 11 0); OAdd (ESlash 7 5 0 12); OAdd (EJail 13 900); OCommit 1; ORestart; OLoad 1].

Example C24_refuted_small_restart :
  Forall op_wf small_restart /\ distinct_pubkeys small_restart = 3 /\
  es_run W2 (es_new es_empty_disk) small_restart <> ref_run ref_init small_restart.
Proof.
  split; [apply ops_wfb_ok; reflexivity|]. split; [reflexivity|]. apply panic_refutes. reflexivity.
Qed.

(* without any restart: the 4th key gets id 0, so an unbond event without a key loads back WITH
   that key; the 5th key gets id 1, so the events of the first key load back with the 5th *)
Definition small_no_restart : list es_op :=
  [OAdd (EJail 11 1); OAdd (EJail 12 2); OAdd (EJail 13 3); OCommit 1;
   OAdd (EJail 14 4); OAdd (EUnbond 7 5 0 None); OCommit 2; OLoad 2;
   OAdd (EJail 15 5); OCommit 3; OLoad 1].

Example C24_refuted_small_no_restart :
  Forall op_wf small_no_restart /\
  nth 7 (es_run W2 (es_new es_empty_disk) small_no_restart) BAck = BLoad (Val [EJail 14 4; EUnbond 7 5 0 (Some 14)]) /\
  nth 7 (ref_run ref_init small_no_restart) BAck = BLoad (Val [EJail 14 4; EUnbond 7 5 0 None]) /\
  nth 10 (es_run W2 (es_new es_empty_disk) small_no_restart) BAck = BLoad (Val [EJail 15 1; EJail 12 2; EJail 13 3]) /\
  nth 10 (ref_run ref_init small_no_restart) BAck = BLoad (Val [EJail 11 1; EJail 12 2; EJail 13 3]).
Proof. split; [apply ops_wfb_ok; reflexivity|]. repeat split; reflexivity. Qed.

(* ---- non-vacuity ------------------------------------------------------------------------------------ *)
(* a history meeting the hypotheses of C24_roundtrip_partial: all compacted kinds, a nil unbond
   key, restarts before and after commits (one with a pending event that is lost), a re-commit of a
   height, loads of committed and of never committed heights *)
Definition sample : list es_op :=
  [OAdd (EReward 2 1001 123456789012345678901234567890 501 0); OAdd (EUnbond 1002 5 4294967295 None);
   OAdd (EMove 1001 77 1 502 503); OAdd (ERemoveCandidate 504); OAdd (EOther 10 [3]);
   OCommit 10; ORestart;
   OAdd (EJail 501 18446744073709551615); ORestart;                    (* lost *)
   OAdd (EOrderExpired 4294967295 1003 2 9); OAdd (EUnlock 1002 1 0); OAdd (EKick 0 0 0 0);
   OCommit 11; OLoad 10; ORestart; OLoad 11; OLoad 12;
   OAdd (ESlash 1003 8 1 503); OAdd (EUnbond 1001 6 1 (Some 502)); OCommit 10; ORestart; OLoad 10].

Example C24_sample_meets_hypotheses :
  Forall op_wf sample /\ distinct_pubkeys sample = 4 /\ distinct_addresses sample = 4.
Proof. split; [apply ops_wfb_ok; reflexivity|]. split; reflexivity. Qed.

Example C24_sample_loads :
  filter (fun b => match b with BLoad _ => true | _ => false end) (es_run go_widths (es_new es_empty_disk) sample) =
  [BLoad (Val [EReward 2 1001 123456789012345678901234567890 501 0; EUnbond 1002 5 4294967295 None;
               EMove 1001 77 1 502 503; ERemoveCandidate 504; EOther 10 [3]]);
   BLoad (Val [EOrderExpired 4294967295 1003 2 9; EUnlock 1002 1 0; EKick 0 0 0 0]);
   BLoad Nil;
   BLoad (Val [ESlash 1003 8 1 503; EUnbond 1001 6 1 (Some 502)])].
Proof. vm_compute. reflexivity. Qed.

(* decided by the theorem, and visible here: when only address-keyed events were ever stored the
   pubkey cache stays empty, loadCache re-reads both tables on every call, and nothing is lost *)
Definition address_only : list es_op :=
  [OAdd (EUnlock 1001 1 0); OAdd (EOrderExpired 1 1002 2 9); OCommit 1; OAdd (EUnbond 1003 5 1 None); OCommit 2;
   ORestart; OAdd (EUnlock 1004 2 0); OCommit 3; OLoad 1; OLoad 2; ORestart; OLoad 3].

Example C24_address_only_restart :
  es_run go_widths (es_new es_empty_disk) address_only = ref_run ref_init address_only /\
  last (es_run go_widths (es_new es_empty_disk) address_only) BAck = BLoad (Val [EUnlock 1004 2 0]).
Proof. split; vm_compute; reflexivity. Qed.

Print Assumptions C24_roundtrip_partial.
Print Assumptions C24_roundtrip_partial_any_width.
Print Assumptions C24_load_returns_committed.
Print Assumptions C24_committed_batch.
Print Assumptions C24_pubkey_id_wraps.
Print Assumptions C24_pubkey_counter_wraps.
Print Assumptions C24_pubkey_id_collides.
Print Assumptions C24_restart_at_limit_loads_no_key.
Print Assumptions C24_refuted.
