(* C18 — misbehaviour is punished exactly and only once.  Theorems only.

   "Outside grace periods, a validator that misses more than 12 of the last 24 blocks is switched
    off and jailed for the jail period, and a jailed candidate cannot be switched back on before
    the jail ends.  A validator with byzantine evidence against it (unless already offline) loses
    the rounded-up 5 % of every stake and of every unbonding fund from it.  The rest of each stake
    is unbonded, the validator is dropped, and slashed value goes to the total-slashed pool."

   The model (Model/Punish.v) transliterates what the code does; its constants are regenerated
   from the Go source (Generated/Consts.v); the statements below use the property's literals. *)
From Minter Require Import Base Consts Punish PunishFacts.
From Coq Require Import ZArith List Bool Lia.
Import ListNotations.
Open Scope Z_scope.

(* ---- (1) the absent window ------------------------------------------------------------- *)

(* For every vote history of a validator (heights h0, h0+1, ...; it joined with an empty window,
   its candidate carrying JailedUntil = j0 from before)
   in which the count never exceeded 12: bit (j mod 24) of the window is exactly "absent at
   height j" for each of the last 24 heights j (heights before it joined count as signed — the
   prefix case of fewer than 24 blocks), hence the count is the number of misses among the last
   24 blocks; and nothing else happened to the validator or its candidate. *)
Theorem C18_window_exact : forall jp j0 h0 votes,
  never_exceeded 24 12 votes ->
  let st := run_votes jp (joined_with j0) h0 votes in
  let h := h0 - 1 + Z.of_nat (length votes) in
  (forall j, h - 23 <= j <= h ->
     nth (widx j) (v_win st) false =
     if j <? h0 then false else nth (Z.to_nat (j - h0)) (absences votes) false) /\
  count_absent (v_win st) = missed_last 24 votes /\
  length (v_win st) = 24%nat /\
  v_drop st = false /\ v_offline st = false /\ v_jail st = j0.
Proof. exact window_exact. Qed.

(* On the FIRST block h whose last 24 blocks contain more than 12 misses the validator is marked
   to drop, its candidate is set offline, the window is reset, and the candidate is jailed until
   h + JailPeriod iff the block is not a grace block (in a grace block JailedUntil keeps its
   old value j0); with at most 12 misses nothing happens. *)
Theorem C18_absent_punished : forall jp j0 h0 p s g,
  never_exceeded 24 12 p ->
  let votes := p ++ [(s, g)] in
  let h := h0 + Z.of_nat (length p) in
  let st := run_votes jp (joined_with j0) h0 votes in
  (12 < missed_last 24 votes ->
     s = false /\ v_drop st = true /\ v_offline st = true /\
     v_jail st = (if g then j0 else h + jp) /\ v_win st = fresh_window) /\
  (missed_last 24 votes <= 12 ->
     v_drop st = false /\ v_offline st = false /\ v_jail st = j0 /\
     count_absent (v_win st) = missed_last 24 votes).
Proof. exact absent_punished. Qed.

(* ---- (2) the jail gate ------------------------------------------------------------------- *)

(* SetCandidateOnline in block b is rejected exactly while b <= JailedUntil.  For a candidate
   jailed in block h (JailedUntil = h + JailPeriod) that is: in block h itself and in the
   JailPeriod following blocks h+1 .. h+JailPeriod; the first block that accepts is
   h + JailPeriod + 1. *)
Theorem C18_jail_blocks_on : forall h jp b,
  can_switch_on (h + jp) b = false <-> b <= h + jp.
Proof. intros. apply jail_gate. Qed.

(* ---- (3) slashing arithmetic --------------------------------------------------------------- *)

(* the slashed part is the rounded-up 5 %: the least s with 100 s >= 5 v; what is kept is
   floor(95 v / 100); they add up to v (no value appears or disappears) *)
Theorem C18_slash_is_ceil_5_percent : forall v,
  let s := slash_stake_value v in
  s = (5 * v + 99) / 100 /\ 5 * v <= 100 * s < 5 * v + 100 /\
  keep_stake v = 95 * v / 100 /\ keep_stake v + s = v /\
  slash_fund_value v = s /\ keep_fund v = keep_stake v.
Proof.
  intros v s. unfold s. rewrite slash_fund_ceil, slash_stake_ceil, keep_fund_floor, keep_stake_floor.
  pose proof (ceil5_spec v) as H. cbn zeta in H. pose proof (slash_stake_ceil v) as E.
  unfold slash_stake_value in E. rewrite keep_stake_floor in E. repeat split; try apply H; try reflexivity. lia.
Qed.

(* every stake v of the punished candidate: a frozen fund of floor(95v/100) for the same owner
   and coin, due at h + UnbondPeriod; fund + ceil(5v/100) = v; the stake becomes 0 (value and
   bip value).  Total-slashed grows by the sum of the base-coin slashes plus the sum of the
   (oracle) sale returns of the custom-coin slashes. *)
Theorem C18_slash_stakes_exact : forall h unbond cid ss,
  Forall3 (stake_spec h unbond cid) ss (punish_stakes_funds h unbond cid ss) (punish_stakes_left ss) /\
  punish_stakes_pool ss =
    sum_Z (map (fun sr => if k_coin (fst sr) =? 0 then (5 * k_value (fst sr) + 99) / 100 else snd sr) ss) /\
  punish_stakes_events ss = map (fun sr => (k_owner (fst sr), k_coin (fst sr), (5 * k_value (fst sr) + 99) / 100)) ss.
Proof. exact slash_stakes_exact. Qed.

(* frozen funds: exactly those of this candidate due in [h, h + UnbondPeriod] (both ends
   included) lose the rounded-up 5 %; every other fund is untouched, order and number preserved *)
Theorem C18_slash_funds_exact : forall h unbond cid fs,
  Forall2 (fund_spec h (h + unbond) cid) fs (punish_funds h (h + unbond) cid fs) /\
  punish_funds_pool h (h + unbond) cid fs =
    sum_Z (map (fun fr => if fund_hit h (h + unbond) cid (fst fr)
                          then (if f_coin (fst fr) =? 0 then (5 * f_value (fst fr) + 99) / 100 else snd fr) else 0) fs).
Proof. intros. apply punish_funds_exact. Qed.

Theorem C18_other_funds_untouched : forall h unbond cid fs n f ret,
  nth_error fs n = Some (f, ret) ->
  f_cand f <> cid \/ f_due f < h \/ h + unbond < f_due f ->
  nth_error (punish_funds h (h + unbond) cid fs) n = Some f.
Proof. intros. eapply other_funds_untouched; eauto. Qed.

(* funds in flight — created at h' <= h by an Unbond (UnbondPeriod) or a MoveStake (MovePeriod)
   and not yet released — are all inside the punished range, on both chain ids *)
Theorem C18_in_flight_funds_in_range : forall chain h h' period cid f,
  period = unbond_period chain \/ period = move_period chain ->
  h' <= h -> f_due f = h' + period -> h <= f_due f -> f_cand f = cid ->
  fund_hit h (h + unbond_period chain) cid f = true.
Proof. exact in_flight_in_range. Qed.

(* ---- (4) one piece of evidence; "only once"; "the validator is dropped" ------------------- *)

(* what one piece of evidence does when the guard lets it through: funds punished, stakes
   unbonded, validator stake 0 and marked to drop, candidate set offline, pool grown by exactly
   the two sums above *)
Theorem C18_evidence_applied : forall h u rf rs st,
  evidence_applies st = true ->
  let st' := evidence h u rf rs st in
  let fs := with_oracle (b_funds st) rf in
  let ss := with_oracle (b_stakes st) rs in
  b_status st' = 1 /\ b_listed st' = true /\ b_vdrop st' = true /\ b_vtotal st' = 0 /\
  b_stakes st' = punish_stakes_left ss /\
  b_funds st' = punish_funds h (h + u) (b_cid st) fs ++ punish_stakes_funds h u (b_cid st) ss /\
  b_pool st' = b_pool st + punish_funds_pool h (h + u) (b_cid st) fs + punish_stakes_pool ss.
Proof. exact evidence_applied. Qed.

(* "unless already offline": evidence against an unknown address, against a candidate that is
   offline (for whatever reason, in this or any later block), or against a candidate that is
   not in the validator list changes nothing *)
Theorem C18_offline_not_punished : forall h u rf rs st,
  b_known st = false \/ b_status st = 1 \/ b_listed st = false ->
  evidence h u rf rs st = st.
Proof. exact evidence_skipped. Qed.

(* only once: after one piece of evidence was processed, any further evidence against the same
   address — later in the same block (h' = h) or in a later block, with any oracle answers —
   changes nothing; k >= 1 pieces in one block act like a single one *)
Theorem C18_only_once : forall h u rf rs h' u' rf' rs' st,
  evidence h' u' rf' rs' (evidence h u rf rs st) = evidence h u rf rs st.
Proof. exact evidence_only_once. Qed.

Theorem C18_only_once_in_block : forall k h u rf rs st,
  evidence_k (S k) h u rf rs st = evidence h u rf rs st.
Proof. exact evidence_k_once. Qed.

(* the validator is dropped: marked to drop with stake 0 (C18_evidence_applied), and the
   validator update at the end of that block never re-admits it, whatever delegations are
   pending and however much room the validator set has *)
Theorem C18_dropped : forall h u rf rs st upd room,
  evidence_applies st = true -> readmitted (evidence h u rf rs st) upd room = false.
Proof. exact never_readmitted. Qed.

Definition c18_witness : bstate :=
  {| b_known := true; b_cid := 7; b_status := 2; b_listed := true; b_vtotal := 1000; b_vdrop := false;
     b_stakes := [ {| k_owner := 1; k_coin := 0; k_value := 1000; k_bip := 1000 |} ];
     b_funds := [ {| f_due := 150; f_owner := 2; f_cand := 7; f_coin := 0; f_value := 100; f_move := 0 |} ];
     b_pool := 0; b_events := [] |}.

(* ---- non-vacuity ---------------------------------------------------------------------------- *)

Definition absent_n (n : nat) (g : bool) : list (bool * bool) := repeat (false, g) n.

(* 12 misses: nothing; the 13th, outside grace, at height 1012: dropped, offline, jailed until
   1012 + 354; inside grace: dropped, offline, not jailed *)
Example C18_example_12 :
  let st := run_votes 354 joined 1000 (absent_n 12 false) in
  (v_drop st, v_offline st, v_jail st, count_absent (v_win st)) = (false, false, 0, 12).
Proof. vm_compute. reflexivity. Qed.

Example C18_example_13 :
  let st := run_votes 354 joined 1000 (absent_n 13 false) in
  (v_drop st, v_offline st, v_jail st, count_absent (v_win st)) = (true, true, 1012 + 354, 0).
Proof. vm_compute. reflexivity. Qed.

Example C18_example_13_grace :
  let st := run_votes 354 joined 1000 (absent_n 13 true) in
  (v_drop st, v_offline st, v_jail st) = (true, true, 0).
Proof. vm_compute. reflexivity. Qed.

(* alternating absences never reach 13 of 24: the hypotheses of C18_window_exact are met by a
   history of 60 blocks with 30 misses *)
Example C18_example_alternating :
  let votes := flat_map (fun _ => [(false, false); (true, false)]) (seq 0 30) in
  let st := run_votes 354 joined 1000 votes in
  missed_last 24 votes = 12 /\ (v_drop st, count_absent (v_win st)) = (false, 12).
Proof. vm_compute. auto. Qed.

(* 12 misses, 12 signed blocks, 12 signed: the first misses slide out; then 13 misses in 24 *)
Example C18_example_window_slides :
  let votes := absent_n 12 false ++ repeat (true, false) 12 ++ [(false, false)] in
  let st := run_votes 354 joined 1000 votes in
  missed_last 24 votes = 12 /\ v_drop st = false.
Proof. vm_compute. auto. Qed.

Example C18_example_jail_boundary :
  (can_switch_on (1012 + 354) (1012 + 354), can_switch_on (1012 + 354) (1012 + 355)) = (false, true).
Proof. vm_compute. reflexivity. Qed.

Example C18_example_slash :
  (slash_stake_value 100, slash_stake_value 101, slash_stake_value 1, slash_stake_value 0, keep_stake 1019) = (5, 6, 1, 0, 968).
Proof. vm_compute. reflexivity. Qed.

Example C18_example_evidence :
  let st' := evidence 100 531 [] [] c18_witness in
  (b_status st', b_vdrop st', b_vtotal st', b_pool st', map k_value (b_stakes st'),
   map (fun f => (f_due f, f_value f)) (b_funds st')) = (1, true, 0, 55, [0], [(150, 95); (631, 950)]).
Proof. vm_compute. reflexivity. Qed.

(* two pieces of evidence in one block: the second changes nothing (pool 55, funds 95 and 950) ... *)
Example C18_example_twice :
  let st' := evidence_k 2 100 531 [] [] c18_witness in
  (b_pool st', map f_value (b_funds st')) = (55, [95; 950]).
Proof. vm_compute. reflexivity. Qed.

(* ... whereas the rule before the repair b9d9852 (status left alone) slashed the same value twice:
   100 -> 95 -> 90, 1000 -> 950 -> 902, 108 instead of 55 into the pool, a zero-value fund *)
Example C18_example_before_repair :
  let twice := evidence_before_repair 100 531 (evidence_before_repair 100 531 c18_witness) in
  (b_pool twice, map f_value (b_funds twice)) = (108, [90; 902; 0]).
Proof. vm_compute. reflexivity. Qed.

Print Assumptions C18_window_exact.
Print Assumptions C18_absent_punished.
Print Assumptions C18_jail_blocks_on.
Print Assumptions C18_slash_is_ceil_5_percent.
Print Assumptions C18_slash_stakes_exact.
Print Assumptions C18_slash_funds_exact.
Print Assumptions C18_other_funds_untouched.
Print Assumptions C18_in_flight_funds_in_range.
Print Assumptions C18_evidence_applied.
Print Assumptions C18_offline_not_punished.
Print Assumptions C18_only_once.
Print Assumptions C18_only_once_in_block.
Print Assumptions C18_dropped.
