(* C27 — fees are exactly the price table times the gas price.  Theorems only.
   (base-coin price table and base gas coin on the ledger model; the pool route / reserve route of
   a custom gas coin: CalculateCommission is compared on the node, the pool arithmetic is C13) *)
From Minter Require Import Base Ledger LedgerFacts LedgerTx LedgerProps LedgerCons LedgerReg LedgerExample.
From Minter Require FeeRoute FeeRouteFacts.
From Coq Require Import ZArith List.
Import ListNotations.
Open Scope Z_scope.

(* base-coin price table: an accepted transaction paid in base coin adds gas price x (its type's price
   + (payload + service data bytes) x byte price) to the block's reward pool, less the ticker fee of a
   coin creation, which is moved from the reward pool to the zero address *)
Theorem C27_fee_formula : forall s t s',
  deliver s t = (s', 0) -> t_gas_coin t = 0 -> p_pcoin (s_prices s) = 0 ->
  s_rpool s' = s_rpool s
               + t_gas_price t * (type_price (s_prices s) (t_data t) + (t_payload_len t + t_service_len t) * p_payload_byte (s_prices s))
               - burn_of s t.
Proof. exact accept_fee_base. Qed.

(* price table denominated in a custom coin: the table price gas price x (type price + bytes x byte price)
   is converted through the pool of that coin as ONE amount, and that converted amount reaches the
   reward pool *)
Theorem C27_fee_converted_through_pool : forall s t s',
  deliver s t = (s', 0) -> t_gas_coin t = 0 ->
  t_gas_price t * (type_price (s_prices s) (t_data t) + (t_payload_len t + t_service_len t) * p_payload_byte (s_prices s)) <> 0 ->
  exists v, base_of (s_prices s) (t_gas_price t * (type_price (s_prices s) (t_data t) + (t_payload_len t + t_service_len t) * p_payload_byte (s_prices s))) = inl v
            /\ 0 < v /\ s_rpool s' = s_rpool s + v - burn_of s t.
Proof. intros s t s' HD Hg Hne. exact (accept_fee_converted s t s' HD Hg Hne). Qed.

Theorem C27_ticker_fee_burned : forall s t s' effs,
  deliver s t = (s', 0) -> run s t = inr effs ->
  get_bal (s_bal s') zero_address 0 = get_bal (s_bal s) zero_address 0 + bal_deltas effs zero_address 0 + burn_of s t.
Proof. exact burn_reaches_zero_address. Qed.

(* the per-type prices: one table entry per type; Multisend base + delta x (n - 1); coin creation
   = ticker price by symbol length + creation price *)
Theorem C27_type_prices : forall p coin to v items sym symlen ok nl i m mi bu,
  type_price p (Send coin to v) = p_send p /\
  type_price p (Multisend items) = p_multisend_base p + (Z.of_nat (length items) - 1) * p_multisend_delta p /\
  type_price p (CreateToken sym symlen ok nl i m mi bu) =
    (if symlen =? 3 then p_ticker3 p else if symlen =? 4 then p_ticker4 p else if symlen =? 5 then p_ticker5 p
     else if symlen =? 6 then p_ticker6 p else p_ticker7 p) + p_create_token p.
Proof. intros. repeat split. Qed.

(* a rejected transaction pays the failed-transaction price instead, capped by the balance (C03) *)
Theorem C27_failed_fee : forall s t s' c,
  deliver s t = (s', c) -> c <> 0 -> t_gas_coin t = 0 -> p_pcoin (s_prices s) = 0 -> 0 <= failed_price (s_prices s) t ->
  0 <= s_rpool s' - s_rpool s <= t_gas_price t * (p_failed (s_prices s) + (t_payload_len t + t_service_len t) * p_payload_byte (s_prices s)).
Proof.
  intros s t s' c HD Hc Hg Hp Hfp. destruct (reject_frame _ _ _ _ HD Hc) as (_ & payer & fee & _ & HF & -> & _).
  assert (E : failed_price (s_prices s) t = t_gas_price t * (p_failed (s_prices s) + (t_payload_len t + t_service_len t) * p_payload_byte (s_prices s)))
    by (unfold failed_price, failed_price_r, failed_table, data_len; rewrite Hp; reflexivity).
  destruct (Z.eq_dec fee 0) as [->|Hfee]; [lia|].
  destruct (HF Hfee) as (com & EC & Hb & ->). unfold calc_commission in EC. rewrite Hg in EC. cbn in EC. injection EC as <-. lia.
Qed.

(* a price table in coin 1 with pool reserves 2000 (coin 1) : 1000000 (base): the converted fee of gas
   price 3 is NOT three times the converted fee of gas price 1 (the pool is not linear) *)
Example C27_example_custom_price_coin :
  let p := {| p_payload_byte := 0; p_send := 10; p_multisend_base := 0; p_multisend_delta := 0; p_ticker3 := 0; p_ticker4 := 0; p_ticker5 := 0;
              p_ticker6 := 0; p_ticker7 := 0; p_create_token := 0; p_recreate_token := 0; p_mint := 0; p_burn := 0; p_lock := 0; p_redeem := 0;
              p_create_multisig := 0; p_edit_owner := 0; p_failed := 1; p_pcoin := 1; p_prc := 2000; p_prb := 1000000 |} in
  base_of p 10 = inl 4470 /\ base_of p 30 = inl 14264 /\ 3 * 4470 <> 14264.
Proof. vm_compute. repeat split; discriminate. Qed.

Example C27_example :
  s_rpool (fst (deliver ex_state ex_send)) = 10 + 3 * 2 /\
  (* 7-letter ticker: 100 burned to the zero address, creation price 0, 3 payload bytes stay in the pool *)
  s_rpool (fst (deliver ex_state ex_create)) = 6 /\ get_bal (s_bal (fst (deliver ex_state ex_create))) 0 0 = 100 /\
  s_rpool (fst (deliver ex_state ex_overspend)) = 1 + 3 * 2.
Proof. vm_compute. repeat split. Qed.

(* a commission paid in a custom coin that has both a reserve and a pool to the base coin takes the cheaper of
   the two routes (the pool on a tie); with one route only, that one; with none the transaction is refused *)
Theorem C27_cheaper_route : forall r p a rt, FeeRoute.choose_route (Some r) (Some p) = Some (a, rt) ->
  a = Z.min r p /\ a <= r /\ a <= p /\ (rt = FeeRoute.RBancor <-> r < p).
Proof.
  intros r p a rt H. destruct (FeeRouteFacts.choose_min _ _ _ _ H) as [A B]. destruct (FeeRouteFacts.choose_le _ _ _ _ H) as [C D].
  repeat split; auto; apply B.
Qed.

Theorem C27_route_is_an_available_quote : forall rq pq a rt, FeeRoute.choose_route rq pq = Some (a, rt) ->
  (rt = FeeRoute.RBancor /\ rq = Some a) \/ (rt = FeeRoute.RPool /\ pq = Some a).
Proof. exact FeeRouteFacts.choose_is_a_quote. Qed.

Theorem C27_no_route_refused : forall rq pq, FeeRoute.choose_route rq pq = None <-> rq = None /\ pq = None.
Proof. exact FeeRouteFacts.choose_none. Qed.

Print Assumptions C27_fee_formula.
Print Assumptions C27_fee_converted_through_pool.
Print Assumptions C27_ticker_fee_burned.
Print Assumptions C27_type_prices.
Print Assumptions C27_failed_fee.
Print Assumptions C27_cheaper_route.
Print Assumptions C27_route_is_an_available_quote.
Print Assumptions C27_no_route_refused.
