(* C03 — failed transactions change nothing but the failure fee.  Theorems only. *)
From Minter Require Import Base Ledger LedgerFacts LedgerTx LedgerProps LedgerExample.
From Coq Require Import ZArith List.
Import ListNotations.
Open Scope Z_scope.

(* When DeliverTx rejects a transaction (code <> 0), nonces, coins, ticker owners, the coin
   counter, used checks, multisig accounts and frozen funds are unchanged, and there are a payer
   and a fee such that: the fee is non-zero only if the payer is the sender (the check issuer for a
   redemption), it is min(payer's balance, failure fee) taken from a positive balance of the
   gas coin, it goes to the block's reward pool, and every balance other than the payer's
   gas-coin balance is unchanged. *)
Theorem C03_rejected_changes_only_the_fee : forall s t s' c,
  deliver s t = (s', c) -> c <> 0 ->
  same_but_balances s s' /\
  exists payer fee,
    (fee <> 0 -> payer_of t = inl payer) /\
    (fee <> 0 -> exists com, calc_commission (t_gas_coin t) (failed_price (s_prices s) t) = Some com /\
                             0 < get_bal (s_bal s) payer (t_gas_coin t) /\ fee = Z.min (get_bal (s_bal s) payer (t_gas_coin t)) com) /\
    s_rpool s' = s_rpool s + fee /\
    forall a k, get_bal (s_bal s') a k = get_bal (s_bal s) a k - (if hit payer (t_gas_coin t) a k then fee else 0).
Proof. exact reject_frame. Qed.

(* A transaction that DeliverTx accepts had the network's chain id and the next nonce, and
   increments exactly its sender's nonce by exactly one. *)
Theorem C03_accepted_increments_nonce : forall s t s',
  deliver s t = (s', 0) ->
  t_chain_ok t = true /\ t_nonce t = get_nonce (s_nonce s) (sender_of t) + 1 /\
  get_nonce (s_nonce s') (sender_of t) = get_nonce (s_nonce s) (sender_of t) + 1 /\
  forall a, a <> sender_of t -> get_nonce (s_nonce s') a = get_nonce (s_nonce s) a.
Proof. exact accept_nonce. Qed.

(* effects are produced only after every check passed: a rejection by the transaction's own
   checks (Run) yields no effect list at all *)
Theorem C03_run_rejects_without_effects : forall s t c, run s t = inl c -> c <> 0.
Proof. exact run_code_nonzero. Qed.

(* non-vacuity: an over-spending Send is rejected with InsufficientFunds and costs exactly the
   failure fee 1 + 3 bytes * 2; an affordable one is accepted *)
Example C03_example :
  snd (deliver ex_state ex_overspend) = 107 /\
  get_bal (s_bal (fst (deliver ex_state ex_overspend))) 11 0 = 100000 - 7 /\
  s_rpool (fst (deliver ex_state ex_overspend)) = 7 /\
  get_nonce (s_nonce (fst (deliver ex_state ex_overspend))) 11 = 0 /\
  snd (deliver ex_state ex_send) = 0 /\ get_nonce (s_nonce (fst (deliver ex_state ex_send))) 11 = 1.
Proof. vm_compute. repeat split. Qed.

Print Assumptions C03_rejected_changes_only_the_fee.
Print Assumptions C03_accepted_increments_nonce.
Print Assumptions C03_run_rejects_without_effects.
