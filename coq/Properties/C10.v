(* C10 — a crash at any point during Commit is recoverable.

   Model (Model/Crash.v): Blockchain.Commit is the ordered list of disk writes w_1..w_n over the
   events, state and application databases (order and guards taken from the regenerated
   Generated/PersistGen.v); [crash k] keeps w_1..w_k and drops every cache; recovery: Info reads
   (height, hash) from disk, the consensus engine re-sends every block above that height, saving
   an existing tree version succeeds iff the content is identical.  Block execution is an
   arbitrary function of the loaded tree content and of what the appdb getters return.

   Result.  TODAY'S CODE (repair ba5358b: Commit collects the seven appdb records between
   appDB.BeginCommit / EndCommit and writes them in one atomic batch; PersistGen.commit_order carries
   the codes 8 / 9, [C10_code_is_batched]): the property holds at full strength, for every k <= n
   ([C10_for_this_code], by [C10_repaired_recoverable]).
   HISTORY (the code before the repair, the UNBATCHED variant of the model, kept as theorems): the
   property as stated was FALSE: the height record was written second of seven separate appdb
   records; a crash after it and before the block times / validators / versions / emission / price
   records of the same Commit left a node that reports height h with records of height h-1
   ([C10_unbatched_refuted], smallest witness: k = index of the height write + 1).  What held
   ([C10_crash_recoverable_partial]): recovery exact for every crash position up to and including
   the hash record (inside the events writes, between the tree batch(es) and the appdb, after the
   hash) and for every position after which the remaining writes change nothing (k = n), and that
   is tight ([C10_unbatched_after_height_needs_equal_getters]).
   Proved for the appdb / tree-version / events-table layer; the state modules' in-memory caches
   are not modelled (assumption [modules_from_tree] of C09, checked by the node-level crash
   differential of the harness command c10). *)
From Minter Require Import Base Persist PersistFacts PersistGen Crash CrashFacts CrashEvFacts CrashReplay CrashMain.
From Coq Require Import ZArith List Lia.
Import ListNotations.
Open Scope Z_scope.

(* ---- tie to the source (regenerated on every run by harness/cmd/xlate) -----------------------
   The model's write list is computed from PersistGen.commit_order and the guard_ constants; what
   it additionally assumes about the code is checked here against the regenerated facts. *)
Definition c10_zl_eq (a b : list Z) : bool := if list_eq_dec Z.eq_dec a b then true else false.

Definition c10_code_shape_ok : bool :=
  (* Check, CommitEvents, State.Commit, then the appdb calls — as they are, or (repaired tree) between
     appDB.BeginCommit / EndCommit *)
  (c10_zl_eq commit_order [30; 40; 50; 1; 2; 3; 4; 5; 6; 7] || c10_zl_eq commit_order [30; 40; 50; 8; 1; 2; 3; 4; 5; 6; 7; 9]) &&
  c10_zl_eq save_record [30; 31; 32; 33; 34; 35; 36] &&              (* one record per appdb call, each a single Set *)
  c10_zl_eq state_commit_order [51; 52] &&                           (* tree.Commit, then tree.DeleteVersion *)
  c10_zl_eq tree_commit_order [60; 61] &&                            (* savers work in memory, then ONE SaveVersion *)
  c10_zl_eq tree_delete_order [62; 63] &&                            (* DeleteVersion only if the version exists *)
  c10_zl_eq events_commit_order [70; 71; 71; 70; 70; 71; 71; 70; 71; 71; 72] &&  (* keys first, the height record last *)
  c10_zl_eq events_saveAddress_writes [10; 11] &&                    (* entry, then counter *)
  c10_zl_eq events_savePubKey_writes [12; 13] &&
  (guard_SaveEmission =? 1) && (guard_SavePrice =? 2) && (guard_SaveVersions =? 3) && (guard_FlushValidators =? 4) &&
  (guard_SaveBlocksTime =? 0) && (save_emission_clears_dirtyE =? 1) && (save_price_clears_dirtyP =? 0) &&
  (save_versions_clears_dirtyV =? 1).

Theorem C10_model_matches_code_shape : c10_code_shape_ok = true.
Proof. reflexivity. Qed.

(* ---- the property ---------------------------------------------------------------------------------
   For a history [pre ++ b :: post] from a good state: when the process dies after the k-th write
   of the Commit of block b (height h), then
   * the crashed node restarts, Info reports h-1 or h (a height the consensus engine can replay
     from), and the run of the re-sent blocks is defined (no panic, no rejected tree version);
   * if h-1 is reported, block h is sent again and its responses, app hash, getters (height, hash,
     validators, block times, versions, emission, price) and stored events, and those of every
     later block, equal the uncrashed node's; if h is reported, the getters and the hash of the
     restarted node already equal the uncrashed node's after h, and every later block's
     observations are equal;
   * the final getters are equal.
   [ok] restricts the crash positions the statement is claimed for. *)
Definition crash_recoverable_at (keep : Z) (batched : bool) (ok : list write -> cdisk -> nat -> Prop)
    (s0 : cst) (pre : list cblock) (b : cblock) (post : list cblock) (k : nat) : Prop :=
  forall s1 obs1 s2 o2 ws s3 obs3,
    run_blocks keep batched s0 pre = Val (s1, obs1) ->
    run_block keep batched s1 b = Val (s2, o2, ws) ->
    run_blocks keep batched s2 post = Val (s3, obs3) ->
    (k <= length ws)%nat -> ok ws (fst s1) k ->
    exists sk sr obsr,
      crash keep batched s1 b k = Val sk /\
      recover keep batched sk (v_height (o_view o2)) (b :: post) = Val (sr, obsr) /\
      ((fst (info sk) = v_height (o_view o2) - 1 /\ obsr = o2 :: obs3) \/
       (fst (info sk) = v_height (o_view o2) /\ view_of (app_of sk) = o_view o2 /\
        snd (info sk) = Some (o_hash o2) /\ obsr = obs3)) /\
      view_of (app_of sr) = view_of (app_of s3).

Definition every_point : list write -> cdisk -> nat -> Prop := fun _ _ _ => True.

(* the state a node is in between blocks: caches coherent with the disk, the tree version of the
   stored height present and nothing above it, event tables without dangling entries.  InitChain
   establishes it ([C10_genesis_good]); Commit preserves it (CrashMain.run_block_good). *)
Definition node_ok (s : cst) : Prop := cgood s.

(* PARTIAL (what holds for the UNBATCHED variant, the code before the repair): every crash position before the height write —
   inside the events writes, after the tree batch, after the DeleteVersion batch, after the hash
   record — and every position after which the remaining writes change nothing (k = n). *)
Theorem C10_crash_recoverable_partial : forall keep s0 pre b post k,
  1 <= keep -> node_ok s0 -> crash_recoverable_at keep false safe_point s0 pre b post k.
Proof.
  intros keep s0 pre b post k K G s1 obs1 s2 o2 ws s3 obs3 R1 R2 R3 _ SP.
  pose proof (run_blocks_good keep false K _ _ _ _ G R1) as G1.
  destruct (recover_safe keep false K s1 b post s2 o2 ws s3 obs3 k G1 R2 R3 SP) as (sk & sr & obsr & C & RC & OK & _ & V).
  exists sk, sr, obsr. split; [exact C|]. split; [exact RC|]. split; [exact OK|exact V].
Qed.

(* in particular a crash right after the last write of Commit (the response not yet delivered) *)
Corollary C10_crash_after_last_write : forall keep s0 pre b post k,
  1 <= keep -> node_ok s0 -> crash_recoverable_at keep false (fun ws _ k => k = length ws) s0 pre b post k.
Proof.
  intros keep s0 pre b post k K G s1 obs1 s2 o2 ws s3 obs3 R1 R2 R3 L E.
  apply (C10_crash_recoverable_partial keep s0 pre b post k K G s1 obs1 s2 o2 ws s3 obs3 R1 R2 R3 L).
  right. subst k. rewrite firstn_all. reflexivity.
Qed.

(* REFUTED FOR THE UNBATCHED VARIANT (the code before the repair; kept for the record): the full
   statement (every k <= n) fails there.  Smallest witness: one block that only
   records its block time and the emission, crash right after the height write (k = 4 of the 7
   writes [events height; tree batch; hash; height; blockDelta; emission; price]): Info reports
   the new height, so the block is not sent again, but GetLastBlockTimeDelta / Emission answer
   with the records of the previous height. *)
Definition c10_s0 : cst := genesis_cst 99 1.
Definition c10_block : cblock := op_block 2 0 0 1 0 [].

Lemma C10_genesis_good : forall start content, 0 <= start -> node_ok (genesis_cst start content).
Proof. exact genesis_good. Qed.

Theorem C10_unbatched_refuted :
  exists keep s0 pre b post k,
    1 <= keep /\ node_ok s0 /\ ~ crash_recoverable_at keep false every_point s0 pre b post k.
Proof.
  exists 1, c10_s0, [], c10_block, [], 4%nat. split; [lia|]. split; [apply C10_genesis_good; lia|].
  intros H. unfold crash_recoverable_at in H.
  destruct (run_block 1 false c10_s0 c10_block) as [[[s2 o2] ws]| |] eqn:R; [|vm_compute in R; discriminate|vm_compute in R; discriminate].
  specialize (H c10_s0 [] s2 o2 ws s2 [] eq_refl R eq_refl).
  vm_compute in R. injection R as R1 R2 R3. subst s2 o2 ws.
  specialize (H ltac:(cbn; lia) I).
  destruct H as (sk & sr & obsr & C & _ & OK & _).
  vm_compute in C. injection C as C. subst sk.
  destruct OK as [[I1 _]|[_ [V _]]].
  - vm_compute in I1. discriminate.
  - vm_compute in V. discriminate.
Qed.

(* THE PROPERTY AT FULL STRENGTH, for the batched variant (today's code): with the seven appdb records
   written in one atomic batch, every crash position k <= n is recoverable. *)
Theorem C10_repaired_recoverable : forall keep s0 pre b post k,
  1 <= keep -> node_ok s0 -> crash_recoverable_at keep true every_point s0 pre b post k.
Proof.
  intros keep s0 pre b post k K G s1 obs1 s2 o2 ws s3 obs3 R1 R2 R3 L _.
  pose proof (run_blocks_good keep true K _ _ _ _ G R1) as G1.
  pose proof (batched_all_safe keep s1 b s2 o2 ws k K G1 R2 L) as SP.
  destruct (recover_safe keep true K s1 b post s2 o2 ws s3 obs3 k G1 R2 R3 SP) as (sk & sr & obsr & C & RC & OK & _ & V).
  exists sk, sr, obsr. split; [exact C|]. split; [exact RC|]. split; [exact OK|exact V].
Qed.

(* TIGHT: after the height write Info reports h, the block is not sent again, and the statement
   then requires the getters of the restarted node to equal the uncrashed node's already.  So for
   the positions excluded from the partial theorem the property holds only when the records not
   yet written happen not to change what any getter returns. *)
Theorem C10_unbatched_after_height_needs_equal_getters : forall keep s0 pre b post k s1 obs1 s2 o2 ws s3 obs3,
  1 <= keep -> node_ok s0 ->
  run_blocks keep false s0 pre = Val (s1, obs1) -> run_block keep false s1 b = Val (s2, o2, ws) ->
  run_blocks keep false s2 post = Val (s3, obs3) -> (height_index ws < k <= length ws)%nat ->
  crash_recoverable_at keep false every_point s0 pre b post k ->
  view_of (cd_app (apply_writes (firstn k ws) (fst s1)), empty_mem) = o_view o2.
Proof.
  intros keep s0 pre b post k s1 obs1 s2 o2 ws s3 obs3 K G R1 R2 R3 [K1 K2] H.
  pose proof (run_blocks_good keep false K _ _ _ _ G R1) as G1.
  destruct (H s1 obs1 s2 o2 ws s3 obs3 R1 R2 R3 K2 I) as (sk & sr & obsr & C & _ & OK & _).
  rewrite (crash_writes keep false _ _ _ _ _ k R2) in C. injection C as <-.
  pose proof (crash_after_height_info keep s1 b s2 o2 ws k G1 R2 K1) as IH.
  destruct OK as [[I1 _]|[_ [V _]]]; [rewrite IH in I1; lia|exact V].
Qed.

(* THE CODE AS IT IS TODAY: the regenerated PersistGen.commit_order decides the variant.  It carries
   appDB.BeginCommit / EndCommit (codes 8 / 9), so this is the full statement, for EVERY k. *)
Example C10_code_is_batched : code_batched = true.
Proof. reflexivity. Qed.

Theorem C10_for_this_code : forall keep s0 pre b post k,
  1 <= keep -> node_ok s0 -> crash_recoverable_at keep code_batched every_point s0 pre b post k.
Proof. rewrite C10_code_is_batched. exact C10_repaired_recoverable. Qed.

(* ---- non-vacuity ------------------------------------------------------------------------------------ *)
(* a block with events (two addresses, a public key), a new version, emission and a price update,
   then a second block; KeepLastStates = 1 so that the second block also deletes a tree version *)
Definition c10_b1 : cblock := op_block 2 1 1 1 1 [(true, 7); (false, 8); (true, 9); (true, 7)].
Definition c10_b2 : cblock := op_block 3 0 0 1 0 [(true, 9); (true, 10)].
Definition c10_b3 : cblock := op_block 4 0 0 1 0 [].

Definition c10_writes (keep : Z) (pre : list cblock) (b : cblock) : list Z :=
  match run_blocks keep false c10_s0 pre with
  | Val (s1, _) => match run_block keep false s1 b with Val (_, _, ws) => flat_map enc_write ws | _ => [-1] end
  | _ => [-1]
  end.

Example C10_write_list_block1 :
  c10_writes 1 [] c10_b1 =
  [10; 0; 11; 0; 12; 1; 13; 0; 10; 1; 11; 0; 14; 100; 20; 100; 30; 0; 31; 0; 32; 0; 33; 0; 34; 0; 35; 0; 36; 0].
Proof. vm_compute. reflexivity. Qed.

Example C10_write_list_block3_deletes :
  c10_writes 1 [c10_b1; c10_b2] c10_b3 = [14; 102; 20; 102; 21; 100; 30; 0; 31; 0; 33; 0; 35; 0; 36; 0].
Proof. vm_compute. reflexivity. Qed.

(* everything observed for a block, as integers *)
Definition enc_obs (o : obs) : list Z :=
  let v := o_view o in
  o_resp o ++ [o_hash o; v_height v; v_start v; odef (-1) (v_hash v)] ++ v_vals v ++ [-2] ++ v_times v ++ [-3] ++
  flat_map (fun p => [fst p; snd p]) (v_versions v) ++ [-4; odef (-1) (v_emission v)] ++ odef [-1] (v_price v) ++
  match o_events o with Some l => 1 :: l | None => [0] end.

Definition c10_straight (keep : Z) (batched : bool) (pre : list cblock) (b : cblock) (post : list cblock) : outcome (nat * nat * list (list Z)) :=
  obind (run_blocks keep batched c10_s0 pre) (fun r1 =>
  obind (run_block keep batched (fst r1) b) (fun r2 =>
  obind (run_blocks keep batched (fst (fst r2)) post) (fun r3 =>
    Val (length (snd r2), height_index (snd r2), map enc_obs (snd (fst r2) :: snd r3))))).

(* Info height after the crash, and the observations of the re-sent blocks *)
Definition c10_crashed (keep : Z) (batched : bool) (pre : list cblock) (b : cblock) (post : list cblock) (k : nat) : outcome (Z * list (list Z)) :=
  obind (run_blocks keep batched c10_s0 pre) (fun r1 =>
  obind (run_block keep batched (fst r1) b) (fun r2 =>
  obind (crash keep batched (fst r1) b k) (fun sk =>
  obind (recover keep batched sk (v_height (o_view (snd (fst r2)))) (b :: post)) (fun rr =>
    Val (fst (info sk), map enc_obs (snd rr)))))).

(* block 1 has 15 writes, the height record is the 10th (index 9) *)
Example C10_example_sizes :
  match c10_straight 1 false [] c10_b1 [c10_b2; c10_b3] with Val (n, hi, _) => (n, hi) | _ => (O, O) end = (15%nat, 9%nat).
Proof. vm_compute. reflexivity. Qed.

(* every crash position 0..9 of block 1 (inside the table writes of the events database, after
   the events height record, after the tree batch, after the hash record): Info reports 99, the
   block is sent again, and all three blocks are observed exactly as on the uncrashed node *)
Example C10_example_recovers_before_height :
  forallb (fun k =>
    match c10_crashed 1 false [] c10_b1 [c10_b2; c10_b3] k, c10_straight 1 false [] c10_b1 [c10_b2; c10_b3] with
    | Val (ih, obs), Val (_, _, obs') => (ih =? 99) && (if list_eq_dec (list_eq_dec Z.eq_dec) obs obs' then true else false)
    | _, _ => false
    end) (seq 0 10) = true.
Proof. vm_compute. reflexivity. Qed.

(* the same for the third block (DeleteVersion batch of KeepLastStates = 1 included), every position up to the hash *)
Example C10_example_recovers_block3 :
  forallb (fun k =>
    match c10_crashed 1 false [c10_b1; c10_b2] c10_b3 [c10_b2] k, c10_straight 1 false [c10_b1; c10_b2] c10_b3 [c10_b2] with
    | Val (ih, obs), Val (_, _, obs') => (ih =? 101) && (if list_eq_dec (list_eq_dec Z.eq_dec) obs obs' then true else false)
    | _, _ => false
    end) (seq 0 5) = true.
Proof. vm_compute. reflexivity. Qed.

(* positions 10..14 of block 1 (after the height record, before validators / blockDelta / versions /
   emission / price): Info reports 100, block 1 is not sent again, and the later blocks are observed
   differently from the uncrashed node *)
Example C10_example_fails_after_height :
  forallb (fun k =>
    match c10_crashed 1 false [] c10_b1 [c10_b2; c10_b3] k, c10_straight 1 false [] c10_b1 [c10_b2; c10_b3] with
    | Val (ih, obs), Val (_, _, obs') => (ih =? 100) && negb (if list_eq_dec (list_eq_dec Z.eq_dec) obs (tl obs') then true else false)
    | _, _ => false
    end) (seq 10 5) = true.
Proof. vm_compute. reflexivity. Qed.

(* with the batch, all 10 positions of block 1 recover (9 writes before the batch: Info 99; after it: Info 100) *)
Example C10_example_repaired :
  forallb (fun k =>
    match c10_crashed 1 true [] c10_b1 [c10_b2; c10_b3] k, c10_straight 1 true [] c10_b1 [c10_b2; c10_b3] with
    | Val (ih, obs), Val (n, _, obs') =>
      if (k <? n)%nat then (ih =? 99) && (if list_eq_dec (list_eq_dec Z.eq_dec) obs obs' then true else false)
      else (ih =? 100) && (if list_eq_dec (list_eq_dec Z.eq_dec) obs (tl obs') then true else false)
    | _, _ => false
    end) (seq 0 11) = true.
Proof. vm_compute. reflexivity. Qed.

(* the hypothesis 1 <= keep is needed: with KeepLastStates = 0 the version the restarted node must
   load is deleted by the DeleteVersion batch of the same Commit; a crash after that batch and before
   the height record leaves a node that cannot start (initState panics).  cmd/minter refuses
   keep_last_states < 1. *)
Example C10_example_keep0_unrecoverable :
  c10_crashed 0 false [c10_b1] c10_b2 [] 5 = Panic 199.
Proof. vm_compute. reflexivity. Qed.

Print Assumptions C10_model_matches_code_shape.
Print Assumptions C10_crash_recoverable_partial.
Print Assumptions C10_crash_after_last_write.
Print Assumptions C10_unbatched_refuted.
Print Assumptions C10_repaired_recoverable.
Print Assumptions C10_for_this_code.
Print Assumptions C10_code_is_batched.
Print Assumptions C10_unbatched_after_height_needs_equal_getters.
Print Assumptions C10_genesis_good.
