(* C19 — rewards are distributed proportionally and never over-paid.  Theorems only. *)
From Minter Require Import Base Consts Rewards PoolFacts RewardsFacts.
From Coq Require Import ZArith List Lia.
Import ListNotations.
Open Scope Z_scope.

(* (1) accrual of one block (Blockchain.EndBlock): what the validators hold afterwards plus
   the remainder sent to total-slashed is exactly what they held before plus the block
   reward plus the fee pool; the remainder is never negative *)
Theorem C19_accrual_conserves : forall reward pool vals vals' rem,
  accrue reward pool vals = (vals', rem) ->
  accums vals' + rem = accums vals + reward + pool.
Proof. exact accrue_conserves. Qed.

Theorem C19_accrual_remainder_nonneg : forall reward pool vals vals' rem,
  0 <= reward -> 0 <= pool -> (forall v, In v vals -> 0 <= vstake v /\ 0 <= vaccum v) ->
  accrue reward pool vals = (vals', rem) -> 0 <= rem.
Proof. exact accrue_remainder_nonneg. Qed.

(* (2) only validators recorded as present and not dropped accrue, each the floor of its
   stake-proportional share of (reward + fees + rewards returned by dropped validators);
   absent validators keep what they had; dropped validators' accrued rewards are reset
   (they went back into the distributed amount) *)
Theorem C19_accrual_only_present_proportional : forall reward pool vals vals' rem,
  accrue reward pool vals = (vals', rem) ->
  Forall2 (fun v v' => vid v' = vid v /\
             (counts v = false -> vaccum v' = if vdrop v then 0 else vaccum v) /\
             (counts v = true -> vaccum v' = vaccum v + (reward + pool + snd (dropped_back vals)) * vstake v
                                                        / total_power (fst (dropped_back vals))))
          vals vals'.
Proof. exact accrue_only_present. Qed.

Theorem C19_dropped_rewards_return : forall vals,
  accums (fst (dropped_back vals)) + snd (dropped_back vals) = accums vals.
Proof. exact dropped_back_sum. Qed.

(* (3) payout of one validator (Validators.PayRewardsV5Fix): never over-paid — everything
   paid plus the remainder sent to total-slashed is at most the accrued amount plus the
   locked-stake surplus po_more, which is exactly what the node adds to the emission *)
Theorem C19_no_overpay : forall cr sr period tA tS accum vtotal comm raddr ss po,
  0 <= accum -> 0 <= comm <= 100 -> 0 < vtotal -> (forall s, In s ss -> 0 <= s_bip s) -> bips ss <= vtotal ->
  pay_validator cr sr period tA tS accum vtotal comm raddr ss = Val po ->
  paid_total (po_pays po) + po_slashed po <= accum + po_more po /\ 0 <= po_slashed po.
Proof. exact pay_validator_spec. Qed.

(* (4) the "Negative remainder" panic and the divisions by zero are unreachable *)
Theorem C19_payout_no_panic : forall cr sr period tA tS accum vtotal comm raddr ss,
  0 <= accum -> 0 <= comm <= 100 -> 0 < vtotal -> vtotal <= tS \/ 0 < tA ->
  (forall s, In s ss -> 0 <= s_bip s) -> bips ss <= vtotal ->
  exists po, pay_validator cr sr period tA tS accum vtotal comm raddr ss = Val po.
Proof. exact pay_validator_no_panic. Qed.

(* (5) the split with the property's literals: 10 % DAO, 10 % developers, the validator's
   commission on the rest, delegators by bip share (floors), no emission surplus without
   locked stakes *)
Theorem C19_split : forall cr sr period tA tS accum vtotal comm raddr ss po,
  (forall s, In s ss -> s_x3 s = false) -> 0 < vtotal ->
  pay_validator cr sr period tA tS accum vtotal comm raddr ss = Val po ->
  let dao := accum * 10 / 100 in let dev := accum * 10 / 100 in
  let vr := (accum - dev - dao) * comm / 100 in
  let rest := accum - dev - dao - vr in
  po_more po = 0 /\
  po_pays po = [{| p_role := 1; p_owner := raddr; p_coin := 0; p_amount := vr |}]
               ++ map (fun s => {| p_role := 2; p_owner := s_owner s; p_coin := s_coin s; p_amount := rest * s_bip s / vtotal |})
                      (filter (fun s => negb (s_bip s =? 0) && negb (rest * s_bip s / vtotal <? 1)) ss)
               ++ [{| p_role := 3; p_owner := 0; p_coin := 0; p_amount := dao |};
                   {| p_role := 4; p_owner := 0; p_coin := 0; p_amount := dev |}].
Proof. exact pay_validator_split. Qed.

(* non-vacuity: a concrete accrual (one absent, one dropped validator) and a payout *)
Example C19_accrual_example :
  accrue 100 11 [ {| vid := 1; vstake := 30; vaccum := 5; vpresent := true; vdrop := false |};
                  {| vid := 2; vstake := 70; vaccum := 7; vpresent := false; vdrop := false |};
                  {| vid := 3; vstake := 0; vaccum := 9; vpresent := true; vdrop := true |};
                  {| vid := 4; vstake := 60; vaccum := 0; vpresent := true; vdrop := false |} ]
  = ([ {| vid := 1; vstake := 30; vaccum := 45; vpresent := true; vdrop := false |};
       {| vid := 2; vstake := 70; vaccum := 7; vpresent := false; vdrop := false |};
       {| vid := 3; vstake := 0; vaccum := 0; vpresent := true; vdrop := true |};
       {| vid := 4; vstake := 60; vaccum := 80; vpresent := true; vdrop := false |} ], 0).
Proof. vm_compute. reflexivity. Qed.

Example C19_payout_example :
  exists po, pay_validator 74 74 12 1000 0 1000 100 10 7
               [ {| s_owner := 1; s_coin := 0; s_bip := 60; s_x3 := false |};
                 {| s_owner := 2; s_coin := 0; s_bip := 40; s_x3 := false |} ] = Val po
             /\ paid_total (po_pays po) = 1000 /\ po_slashed po = 0 /\ po_more po = 0.
Proof. eexists. vm_compute. auto. Qed.

Print Assumptions C19_accrual_conserves.
Print Assumptions C19_accrual_remainder_nonneg.
Print Assumptions C19_accrual_only_present_proportional.
Print Assumptions C19_dropped_rewards_return.
Print Assumptions C19_no_overpay.
Print Assumptions C19_payout_no_panic.
Print Assumptions C19_split.
