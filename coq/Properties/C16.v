(* C16 — Staked coins leave staking only on schedule.

   "Coins leaving a stake (by unbonding, candidate removal or byzantine unbonding) return to the
   owner's balance exactly one unbond period after leaving, coins locked with a Lock transaction
   return exactly at their due block, and moved coins reach an existing target candidate exactly
   after the move period; nothing returns such coins earlier. A move is only ever credited to a
   candidate, never to the owner's balance, and it is only accepted towards a candidate that exists.
   While an account's stake is locked by LockStake it cannot be unbonded."

   Model: Model/Schedule.v (Unbond, MoveStake, LockStake, Lock, Delegate, candidate removal, the
   byzantine loop and the maturity loop of BeginBlock; every other activity of the node is an
   environment step that may rewrite balances, stakes, updates, waitlist and registries arbitrarily
   but has no access to the frozen funds).  The theorems hold for ARBITRARY positive periods; the
   periods of both chain ids (Generated/Consts.v) are positive.  Histories: arbitrary op lists whose
   BeginBlock heights are consecutive (hypothesis [consecutive], stated on the op list).

   PROVED in full (for the code after fix c9a3e76): leave_creates_fund (5 theorems),
   only_maturity_pays (step level) with no_fund_overdue / fund_lifecycle / paid_only_when_due
   (history level), move_target_exists, move_to_candidate_only, never_panics, locked_no_unbond,
   lockstake_sets_until.
   History: before c9a3e76 "moved coins reach an existing target candidate" was refuted — a target
   removed (ranked beyond 100) between acceptance and maturity made BeginBlock panic
   (Candidates.Delegate dereferenced the missing candidate; finding c16-move-target-removed, scenario
   move-target-removed of vharness c16).  Now such a move is unbonded: frozen again for one unbond
   period, then paid to the owner (C16_example_target_removed replays that history). *)
From Minter Require Import Base Consts Schedule ScheduleFacts ScheduleSteps ScheduleBlock ScheduleHist.
From Minter Require Punish Ledger LedgerFacts.
From Coq Require Import ZArith List Bool Lia.
Import ListNotations.
Open Scope Z_scope.

(* ---- 1. every way out of a stake creates a fund of exactly the leaving value, due exactly one period later ---- *)

(* Unbond: the sender's stake + waitlist total with the candidate drops by exactly [value], nothing
   else of anybody's stakes changes, and exactly one fund of [value] appears, due at exactly
   h + UnbondPeriod, bound for the balance (move_to = 0) *)
Theorem C16_leave_creates_fund : forall P s t cand coin value s',
  t_data t = Unbond cand coin value -> entries_nodup (s_wait s) ->
  step P s (OpTx t) = (s', OTx 0) ->
  s_frozen s' = s_frozen s ++ [mkfund (s_height s + p_unbond P) (t_sender t) (cand_id s cand) coin value 0] /\
  staked s' cand (t_sender t) coin = staked s cand (t_sender t) coin - value /\
  (forall c' o' k', (cand, t_sender t, coin) <> (c', o', k') -> staked s' c' o' k' = staked s c' o' k') /\
  0 < value /\ lock_until s (t_sender t) <= s_height s /\
  (forall a c, bal s' a c = bal s a c - (if LedgerFacts.hit (t_sender t) 0 a c then t_com t else 0)) /\
  entries_nodup (s_wait s').
Proof. exact unbond_creates_fund. Qed.

(* MoveStake: the same, due at exactly h + MovePeriod, bound for the target candidate (move_to = its id <> 0),
   which exists; no balance is credited: the only balance change is the sender's commission *)
Theorem C16_move_creates_fund : forall P s t from to coin value s',
  t_data t = MoveStake from to coin value -> entries_nodup (s_wait s) ->
  step P s (OpTx t) = (s', OTx 0) ->
  s_frozen s' = s_frozen s ++ [mkfund (s_height s + p_move P) (t_sender t) (cand_id s from) coin value to] /\
  staked s' from (t_sender t) coin = staked s from (t_sender t) coin - value /\
  (forall c' o' k', (from, t_sender t, coin) <> (c', o', k') -> staked s' c' o' k' = staked s c' o' k') /\
  0 < value /\ cand_exists s to = true /\ to <> 0 /\
  (forall a c, bal s' a c = bal s a c - (if LedgerFacts.hit (t_sender t) 0 a c then t_com t else 0)) /\
  entries_nodup (s_wait s').
Proof. exact move_creates_fund. Qed.

(* Lock: exactly one fund of the locked value due at exactly the requested block, which is in the
   future; the value leaves the sender's balance *)
Theorem C16_lock_creates_fund : forall P s t due coin value s',
  t_data t = Lock due coin value ->
  step P s (OpTx t) = (s', OTx 0) ->
  s_frozen s' = s_frozen s ++ [mkfund due (t_sender t) 0 coin value 0] /\ s_height s < due /\
  (forall a c, bal s' a c = bal s a c - (if LedgerFacts.hit (t_sender t) 0 a c then t_com t else 0)
                                      - (if LedgerFacts.hit (t_sender t) coin a c then value else 0)) /\
  s_stakes s' = s_stakes s /\ s_updates s' = s_updates s /\ s_wait s' = s_wait s.
Proof. exact lock_creates_fund. Qed.

(* candidate removal: every stake slot and every pending update of the candidate becomes a fund of
   the same owner, coin and value due at exactly h + UnbondPeriod, bound for the balance; nothing is
   left with the candidate, nobody else's entries change *)
Theorem C16_removal_creates_funds : forall P s cid s' x,
  cand_exists s cid = true -> step P s (OpRemove cid false) = (s', x) ->
  let leaving := filter (of_cand cid) (s_stakes s) ++ filter (of_cand cid) (s_updates s) in
  let created := map (fun e => mkfund (s_height s + p_unbond P) (e_owner e) cid (e_coin e) (e_value e) 0) leaving in
  x = ORemove created /\ s_frozen s' = s_frozen s ++ created /\
  (forall o k, esum (s_stakes s') cid o k = 0 /\ esum (s_updates s') cid o k = 0) /\
  (forall c o k, c <> cid -> esum (s_stakes s') c o k = esum (s_stakes s) c o k /\ esum (s_updates s') c o k = esum (s_updates s) c o k) /\
  cand_exists s' cid = false /\ cand_id s' cid = cid /\
  s_wait s' = s_wait s /\ s_bal s' = s_bal s /\ s_height s' = s_height s /\ s_lock s' = s_lock s.
Proof. exact removal_creates_funds. Qed.

(* byzantine unbonding: every stake slot of the punished candidate becomes a fund of the kept 95 %
   (floor) due at exactly h + UnbondPeriod, bound for the balance, and the slot keeps 0 *)
Theorem C16_byzantine_creates_funds : forall P h s cid,
  cand_exists s cid = true ->
  let s' := byz_one P h s (cid, true, true) in
  s_frozen s' = map (fun f => Punish.punish_fund h (h + p_unbond P) cid (f, 0)) (s_frozen s) ++
                map (fun e => mkfund (h + p_unbond P) (e_owner e) cid (e_coin e) (e_value e * 95 / 100) 0)
                    (filter (of_cand cid) (s_stakes s)) /\
  s_stakes s' = map (fun e => if of_cand cid e then set_value e 0 else e) (s_stakes s) /\
  static s s'.
Proof. exact byzantine_creates_funds. Qed.

(* ---- 2. only the BeginBlock of a fund's own due height pays it ------------------------------------------------ *)

(* step level.  A transaction, a candidate removal, an environment step: the frozen funds are only
   appended to (with funds due in the future) and a transaction credits no balance at all.
   BeginBlock h: the funds paid are exactly those due at exactly h (after the byzantine loop), they are
   exactly the ones removed (the moves among them whose target is gone come back as new funds due one
   unbond period later: [bounced]), and balances grow by exactly the values of the balance-bound ones. *)
Theorem C16_only_maturity_pays : forall P s o s' x,
  periods_pos P -> step P s o = (s', x) ->
  match o with
  | OpBegin h evid =>
    forall m, x = OBegin m ->
    let s1 := byz_all P h (set_height s h) evid in
    m = filter (due_at h) (s_frozen s1) /\
    s_frozen s' = filter (fun f => negb (due_at h f)) (s_frozen s1) ++ bounced P h s m /\
    (forall a c, bal s' a c = bal s a c + credit m a c)
  | OpTx t =>
    (exists new, s_frozen s' = s_frozen s ++ new /\ Forall (fun f => s_height s < f_due f) new) /\
    (wf_tx t -> forall a c, bal s' a c <= bal s a c)
  | _ =>
    exists new, s_frozen s' = s_frozen s ++ new /\ Forall (fun f => s_height s < f_due f) new
  end.
Proof.
  intros P s o s' x HP H. destruct o as [t|h ev|cid isval|e].
  - split; [apply (step_appends _ _ _ _ _ HP H); intros; discriminate|].
    intros Hwf. exact (proj1 (proj2 (deliver_frame _ _ _ _ _ HP Hwf H))).
  - intros m ->. cbn [step] in H. destruct (begin_block_spec P s h ev) as (s2 & Hbb & B & _ & C & _). cbn zeta in Hbb, B.
    rewrite Hbb in H. injection H as <- Hm. rewrite <- Hm in *. repeat split; assumption.
  - apply (step_appends _ _ _ _ _ HP H); intros; discriminate.
  - apply (step_appends _ _ _ _ _ HP H); intros; discriminate.
Qed.

(* history level, consecutive heights.  Not later: no fund is ever overdue. *)
Theorem C16_no_fund_overdue : forall P, periods_pos P -> forall ops s s' outs,
  inv s -> consecutive (s_height s) ops -> run_ops P s ops = (s', outs) ->
  inv s' /\ s_height s <= s_height s'.
Proof. exact run_ops_inv. Qed.

(* Not earlier, not later, not lost: a fund in the state stays frozen (same due block, owner,
   candidate, coin and target; only a byzantine slash may lower its value) in every later state
   below its due height, and it is paid by the BeginBlock of exactly its due height. *)
Theorem C16_fund_lifecycle : forall P, periods_pos P -> forall ops s s' outs f,
  inv s -> consecutive (s_height s) ops -> run_ops P s ops = (s', outs) ->
  In f (s_frozen s) ->
  (s_height s' < f_due f -> exists f', same_fund f f' /\ In f' (s_frozen s')) /\
  (f_due f <= s_height s' ->
     exists i ev m f', nth_error ops i = Some (OpBegin (f_due f) ev) /\ nth_error outs i = Some (OBegin m) /\
                       same_fund f f' /\ In f' m).
Proof. exact fund_lifecycle_total. Qed.

(* ... and whatever any BeginBlock of a history pays is due at exactly that block's height *)
Theorem C16_paid_only_when_due : forall P, periods_pos P -> forall ops s s' outs i h ev m f,
  inv s -> consecutive (s_height s) ops -> run_ops P s ops = (s', outs) ->
  nth_error ops i = Some (OpBegin h ev) -> nth_error outs i = Some (OBegin m) -> In f m -> f_due f = h.
Proof. exact paid_only_when_due. Qed.

(* the periods of both chains are positive *)
Theorem C16_periods_positive : periods_pos testnet_periods /\ periods_pos mainnet_periods.
Proof. split; [exact testnet_periods_pos|exact mainnet_periods_pos]. Qed.

(* ---- 3. moves ------------------------------------------------------------------------------------------------------ *)

(* MoveStake is accepted only towards a candidate that exists at that moment *)
Theorem C16_move_target_exists : forall P s t from to coin value s',
  t_data t = MoveStake from to coin value -> step P s (OpTx t) = (s', OTx 0) -> cand_exists s to = true.
Proof. exact move_target_exists. Qed.

(* a move is only ever credited to a candidate, never to the owner's balance: at a move's maturity no
   balance is credited with it ([credit] counts the funds without a move target only); it becomes a
   pending delegation of its owner with its target when that candidate is (still) in the list
   ([arrivals]), and otherwise — target removed in flight — a new fund of the same owner, origin
   candidate, coin and value, bound for the balance, due exactly one unbond period later ([bounced]):
   coins leaving staking through a removed candidate return one unbond period after leaving *)
Theorem C16_move_to_candidate_only : forall P s h evid s' m,
  step P s (OpBegin h evid) = (s', OBegin m) ->
  (forall a c, bal s' a c = bal s a c + credit m a c) /\
  s_updates s' = s_updates s ++ arrivals s m /\
  s_frozen s' = filter (fun f => negb (due_at h f)) (s_frozen (byz_all P h (set_height s h) evid)) ++ bounced P h s m /\
  (forall f, In f m -> f_move f <> 0 ->
     if cand_exists s (f_move f)
     then In {| e_cand := f_move f; e_owner := f_owner f; e_coin := f_coin f; e_value := f_value f |} (s_updates s')
     else In (mkfund (h + p_unbond P) (f_owner f) (f_cand f) (f_coin f) (f_value f) 0) (s_frozen s')).
Proof.
  intros P s h evid s' m H. cbn [step] in H.
  destruct (begin_block_spec P s h evid) as (s2 & Hbb & A & _ & B & C & _). cbn zeta in Hbb, A.
  rewrite Hbb in H. injection H as <- Hm. rewrite <- Hm in *.
  split; [exact B|]. split; [exact C|]. split; [exact A|].
  intros f Hin Hne. destruct (cand_exists s (f_move f)) eqn:Ex.
  - rewrite C. apply in_or_app. right. unfold arrivals. apply in_map_iff. exists f. split; [reflexivity|].
    apply filter_In. split; [exact Hin|]. unfold arrives. rewrite Ex. destruct (f_move f =? 0) eqn:E; [|reflexivity].
    apply Z.eqb_eq in E. contradiction.
  - rewrite A. apply in_or_app. right. unfold bounced. apply in_map_iff. exists f. split; [reflexivity|].
    apply filter_In. split; [exact Hin|]. unfold bounces. rewrite Ex. destruct (f_move f =? 0) eqn:E; [|reflexivity].
    apply Z.eqb_eq in E. contradiction.
Qed.

(* no step makes the node panic: BeginBlock always pays (a removed move target included), an accepted
   Unbond / MoveStake always finds the stake it subtracts from *)
Theorem C16_never_panics : forall P s o, is_crash (snd (step P s o)) = false.
Proof. exact step_never_crashes. Qed.

Theorem C16_begin_never_panics : forall P s h evid, exists s' m, step P s (OpBegin h evid) = (s', OBegin m).
Proof. exact begin_block_out. Qed.

(* the history that used to stop every node (finding c16-move-target-removed, fixed by c9a3e76), on
   testnet periods: account 7 moves 100 of its stake with candidate 1 towards candidate 2, which
   exists; candidate 2 is removed at the end of the same block (ranked beyond 100); 177 blocks later
   the move matures: nothing is credited, the 100 are frozen again; 531 blocks after that they arrive
   in the owner's balance *)
Definition w_state : st :=
  {| s_height := 1000; s_bal := [(7, 0, 1000)]; s_coins := []; s_cands := [1; 2]; s_deleted := [];
     s_stakes := [{| e_cand := 1; e_owner := 7; e_coin := 0; e_value := 5000 |}; {| e_cand := 2; e_owner := 8; e_coin := 0; e_value := 10 |}];
     s_updates := []; s_wait := []; s_frozen := []; s_lock := [] |}.
Definition w_move : tx := {| t_sender := 7; t_com := 1; t_ffee := 1; t_data := MoveStake 1 2 0 100 |}.
Definition w_ops (n : nat) : list op :=
  OpTx w_move :: OpRemove 2 false :: map (fun i => OpBegin (1000 + Z.of_nat i) []) (seq 1 n).

Lemma w_consecutive : forall n h, consecutive h (map (fun i => OpBegin (h + Z.of_nat i) []) (seq 1 n)).
Proof.
  induction n as [|n IH]; intros h; [exact I|].
  cbn [seq map consecutive]. split; [lia|].
  rewrite <- seq_shift, map_map.
  replace (map (fun i => OpBegin (h + Z.of_nat (S i)) []) (seq 1 n)) with (map (fun i => OpBegin (h + 1 + Z.of_nat i) []) (seq 1 n)).
  - replace (h + Z.of_nat 1) with (h + 1) by lia. apply IH.
  - apply map_ext. intros i. f_equal. lia.
Qed.

Example C16_example_target_removed :
  inv w_state /\ entries_nodup (s_wait w_state) /\ consecutive (s_height w_state) (w_ops (177 + 531)) /\
  cand_exists w_state 2 = true /\
  (* right before the move's due block: still frozen, bound for candidate 2 *)
  (let '(s1, outs) := run_ops testnet_periods w_state (w_ops 176) in
   s_frozen s1 = [mkfund 1177 7 1 0 100 2; mkfund 1531 8 2 0 10 0] /\ bal s1 7 0 = 1000 - 1 /\ cand_exists s1 2 = false) /\
  (* the due block: paid out as a move, no balance credited, no delegation: frozen again until 1177 + 531 *)
  (let '(s2, outs) := run_ops testnet_periods w_state (w_ops 177) in
   last outs OEnv = OBegin [mkfund 1177 7 1 0 100 2] /\
   s_frozen s2 = [mkfund 1531 8 2 0 10 0; mkfund (1177 + 531) 7 1 0 100 0] /\ bal s2 7 0 = 1000 - 1 /\ s_updates s2 = []) /\
  (* one unbond period later the coins are in the owner's balance, not a block earlier *)
  (let '(s3, outs) := run_ops testnet_periods w_state (w_ops (177 + 530)) in bal s3 7 0 = 1000 - 1) /\
  (let '(s4, outs) := run_ops testnet_periods w_state (w_ops (177 + 531)) in
   last outs OEnv = OBegin [mkfund 1708 7 1 0 100 0] /\ bal s4 7 0 = 1000 - 1 + 100 /\ s_frozen s4 = [] /\ no_crash outs).
Proof.
  split; [constructor|]. split; [intros c o k; cbn; lia|].
  split; [cbn [w_ops consecutive]; apply (w_consecutive (177 + 531) 1000)|].
  split; [reflexivity|]. vm_compute. repeat split; reflexivity.
Qed.

(* ---- 4. LockStake --------------------------------------------------------------------------------------------------- *)

(* while LockStakeUntilBlock > current block, Unbond is rejected with UnbondBlocked (416) whatever it
   says — from a stake or from the waitlist — and changes nothing but the failed-transaction fee *)
Theorem C16_locked_no_unbond : forall P s t cand coin value s' x,
  t_data t = Unbond cand coin value -> s_height s < lock_until s (t_sender t) -> 0 <= t_ffee t ->
  step P s (OpTx t) = (s', x) ->
  x = OTx 416 /\
  s_stakes s' = s_stakes s /\ s_updates s' = s_updates s /\ s_wait s' = s_wait s /\ s_frozen s' = s_frozen s /\
  s_lock s' = s_lock s /\
  (forall a c, bal s' a c <= bal s a c) /\ bal s (t_sender t) 0 - t_ffee t <= bal s' (t_sender t) 0 /\
  (forall a c, (a, c) <> (t_sender t, 0) -> bal s' a c = bal s a c).
Proof. exact locked_no_unbond. Qed.

(* an accepted LockStake locks until exactly current block + lock period *)
Theorem C16_lockstake_sets_until : forall P s t s',
  t_data t = LockStake -> step P s (OpTx t) = (s', OTx 0) -> lock_until s' (t_sender t) = s_height s + p_lockstake P.
Proof. exact lockstake_sets_until. Qed.

(* ---- non-vacuity ---------------------------------------------------------------------------------------------------- *)
Definition ex_state : st :=
  {| s_height := 500; s_bal := [(7, 0, 100000)]; s_coins := []; s_cands := [1; 2; 3]; s_deleted := [];
     s_stakes := [{| e_cand := 1; e_owner := 7; e_coin := 0; e_value := 5000 |};
                  {| e_cand := 3; e_owner := 7; e_coin := 0; e_value := 777 |};
                  {| e_cand := 3; e_owner := 9; e_coin := 0; e_value := 1001 |}];
     s_updates := [{| e_cand := 3; e_owner := 9; e_coin := 0; e_value := 50 |}];
     s_wait := [{| e_cand := 1; e_owner := 7; e_coin := 0; e_value := 30 |}]; s_frozen := []; s_lock := [(7, 502)] |}.
Definition mk (d : txdata) : op := OpTx {| t_sender := 7; t_com := 2; t_ffee := 1; t_data := d |}.
Definition blocks (from n : nat) : list op := map (fun i => OpBegin (Z.of_nat i) []) (seq from n).

(* block 500: unbond while locked (416), move while locked (accepted), lock until 503;
   block 501: still locked; block 502 = LockStakeUntilBlock: unbond of 100 (30 from the waitlist, 70 from
   the stake) accepted; candidate 3 removed at the end of the block; block 503: the Lock matures;
   block 600: evidence against candidate 1; block 677 = 500+177: the move arrives at candidate 2;
   blocks 1033 = 502+531 and 1131 = 600+531: the unbond, the removal funds and the byzantine funds mature *)
Definition ex_ops : list op :=
  [mk (Unbond 1 0 100); mk (MoveStake 1 2 0 1000); mk (Lock 503 0 40)] ++
  [OpBegin 501 []; mk (Unbond 1 0 100)] ++
  [OpBegin 502 []; mk (Unbond 1 0 100); OpRemove 3 false] ++
  blocks 503 97 ++ [OpBegin 600 [(1, true, true)]] ++ blocks 601 531.

Example C16_example_history :
  let '(s', outs) := run_ops testnet_periods ex_state ex_ops in
  firstn 8 outs = [OTx 416; OTx 0; OTx 0; OBegin []; OTx 416; OBegin []; OTx 0; ORemove [mkfund 1033 7 3 0 777 0; mkfund 1033 9 3 0 1001 0; mkfund 1033 9 3 0 50 0]] /\
  nth 8 outs OEnv = OBegin [mkfund 503 7 0 0 40 0] /\
  nth (8 + 97) outs OEnv = OBegin [] /\                                      (* block 600: the evidence; nothing due *)
  nth (8 + 97 + 77) outs OEnv = OBegin [mkfund 677 7 1 0 950 2] /\           (* the move of 1000, slashed to 95 %, arrives at candidate 2 *)
  nth (8 + 97 + 433) outs OEnv = OBegin [mkfund 1033 7 1 0 95 0; mkfund 1033 7 3 0 777 0; mkfund 1033 9 3 0 1001 0; mkfund 1033 9 3 0 50 0] /\
  nth (8 + 97 + 531) outs OEnv = OBegin [mkfund 1131 7 1 0 3733 0] /\         (* 95 % (floor) of the 3930 left with candidate 1 *)
  s_frozen s' = [] /\ no_crash outs /\ s_height s' = 1131 /\
  esum (s_updates s') 2 7 0 = 950 /\
  bal s' 7 0 = 100000 - 1 - 2 - (2 + 40) - 1 - 2 + 40 + 95 + 777 + 3733 /\ bal s' 9 0 = 1001 + 50.
Proof. vm_compute. repeat split; reflexivity. Qed.

Example C16_example_consecutive : inv ex_state /\ consecutive (s_height ex_state) ex_ops /\ entries_nodup (s_wait ex_state).
Proof.
  split; [constructor|]. split.
  - unfold ex_ops, blocks. cbn [app consecutive s_height ex_state mk]. split; [lia|]. split; [lia|].
    assert (Hb : forall n from h, Z.of_nat from = h + 1 -> forall tail, consecutive (h + Z.of_nat n) tail ->
                 consecutive h (map (fun i => OpBegin (Z.of_nat i) []) (seq from n) ++ tail)).
    { induction n as [|n IH]; intros from h Hf tail Ht; [cbn; replace (h + Z.of_nat 0) with h in Ht by lia; exact Ht|].
      cbn [seq map app consecutive]. split; [lia|]. apply IH; [lia|]. replace (Z.of_nat from + Z.of_nat n) with (h + Z.of_nat (S n)) by lia. exact Ht. }
    apply Hb; [reflexivity|]. cbn [app consecutive]. split; [reflexivity|].
    rewrite <- (app_nil_r (map _ (seq 601 531))). apply Hb; [reflexivity|exact I].
  - intros c o k. cbn. destruct (ekey c o k _); cbn; lia.
Qed.

(* the boundary of the lock: at block = LockStakeUntilBlock the Unbond is accepted, one block before it is not *)
Example C16_example_lock_boundary :
  snd (step testnet_periods (set_height ex_state 501) (mk (Unbond 1 0 100))) = OTx 416 /\
  snd (step testnet_periods (set_height ex_state 502) (mk (Unbond 1 0 100))) = OTx 0.
Proof. split; vm_compute; reflexivity. Qed.

(* a MoveStake of a locked stake is accepted (the property forbids unbonding only; the coins stay staked) *)
Example C16_example_move_while_locked :
  s_height ex_state < lock_until ex_state 7 /\ snd (step testnet_periods ex_state (mk (MoveStake 1 2 0 1000))) = OTx 0.
Proof. split; vm_compute; reflexivity. Qed.

Print Assumptions C16_leave_creates_fund.
Print Assumptions C16_move_creates_fund.
Print Assumptions C16_lock_creates_fund.
Print Assumptions C16_removal_creates_funds.
Print Assumptions C16_byzantine_creates_funds.
Print Assumptions C16_only_maturity_pays.
Print Assumptions C16_no_fund_overdue.
Print Assumptions C16_fund_lifecycle.
Print Assumptions C16_paid_only_when_due.
Print Assumptions C16_periods_positive.
Print Assumptions C16_move_target_exists.
Print Assumptions C16_move_to_candidate_only.
Print Assumptions C16_never_panics.
Print Assumptions C16_begin_never_panics.
Print Assumptions C16_example_target_removed.
Print Assumptions C16_locked_no_unbond.
Print Assumptions C16_lockstake_sets_until.
Print Assumptions C16_example_history.
