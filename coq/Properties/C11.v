(* C11 — Exported state round-trips through genesis.
   "Exporting the state at any height produces a genesis that passes validation.  A new chain started
    from that genesis exports the same state again: accounts, coins, candidates, stakes, waitlist, frozen
    funds, pools, orders, checks, votes and commissions.  That new chain also behaves like the original
    for subsequent transactions."

   Model: Model/Genesis.v (export, import, verify transliterated from CheckState.Export, State.Import,
   AppState.Verify); lemmas: Proofs/GenesisFacts.v.

   Verdict per sentence (for the code as it is now: fixes 49ebe8c, b66d393, 9497f5f are modelled)
   (a) "passes validation" — PROVED for every consistent state (C11_export_verifies).  Before fix b66d393 the
       token rule of Verify ignored frozen funds: C11_verify_regression keeps the witness (CreateToken, Lock of the
       token: the old rule rejects the export, the current rule accepts it).
   (b) "exports the same state again" — REFUTED as stated:
         C11_roundtrip_refuted       one pending delegation: Import recalculates the stakes at once;
       what holds: C11_roundtrip_partial (exact, full record equality, for states whose candidates are at a fixpoint
       of the recalculation — halt votes and deleted candidates included) and C11_roundtrip_general (in general the
       second export is the export of the state AFTER the stake recalculation of the next update block).
       Halt votes come back since fix 49ebe8c (C11_halt_votes_regression), the candidate id counter since fix 9497f5f
       (C11_maxid_restored).  Still lost: the safe reward (C11_hidden_state) and the positions of empty stake slots
       (C11_slots_refuted: equal exports, different exports after the same delegation).
   (c) "behaves like the original" — PROVED for every continuation of ledger operations of Model/Ledger.v
       (C11_continues_alike: equal response codes, observationally equal ledger states), for any well-formed
       ledger state; the imported state is well formed again (C11_import_wf). *)
From Minter Require Import Base Consts Ledger LedgerRun Genesis GenesisFacts.
From Minter Require Ranking.
From Coq Require Import ZArith List Bool Lia PeanoNat.
Import ListNotations.
Open Scope Z_scope.

(* ---- (a) ------------------------------------------------------------------------------------------------- *)
Theorem C11_export_verifies : forall (base_sym : Z) (g : gst),
  wf_verify base_sym g -> verify base_sym (export g) = true.
Proof. exact export_verifies. Qed.

(* ---- (b) ------------------------------------------------------------------------------------------------- *)
Theorem C11_roundtrip_partial : forall (bipf : Z -> Z -> Z) (g : gst),
  wf_g g -> (forall k, In k (g_cands g) -> cand_fix bipf k) ->
  exists g2, import bipf (s_height (g_led g)) (s_base_sym (g_led g)) (export g) = Val g2 /\ export g2 = export g.
Proof. exact roundtrip_partial. Qed.

Theorem C11_roundtrip_general : forall (bipf : Z -> Z -> Z) (g g1 : gst),
  wf_g g -> (forall k, In k (g_cands g) -> cand_packed k) ->
  recalc_all bipf g = Val g1 ->
  exists g2, import bipf (s_height (g_led g)) (s_base_sym (g_led g)) (export g) = Val g2 /\
    a_cands (export g2) = a_cands (export g1) /\
    (forall o k c, wl_get (a_wait (export g2)) o k c = wl_get (a_wait (export g1)) o k c) /\
    same_rest (export g2) (export g1).
Proof. exact roundtrip_general. Qed.

(* the candidate id counter is the maximum of the live and the deleted ids; Import restores it (fix 9497f5f) *)
Theorem C11_maxid_restored : forall (bipf : Z -> Z -> Z) (g g2 : gst),
  maxid_inv g -> import bipf (s_height (g_led g)) (s_base_sym (g_led g)) (export g) = Val g2 -> g_maxid g2 = g_maxid g.
Proof. exact import_maxid. Qed.

(* ---- (c) ------------------------------------------------------------------------------------------------- *)
Theorem C11_continues_alike : forall (bipf : Z -> Z -> Z) (g g2 : gst) (ops : list op),
  wf_led (g_led g) ->
  import bipf (s_height (g_led g)) (s_base_sym (g_led g)) (export g) = Val g2 ->
  snd (grun g ops) = snd (grun g2 ops) /\ sim (g_led (fst (grun g ops))) (g_led (fst (grun g2 ops))).
Proof. exact continues_alike. Qed.

Theorem C11_import_wf : forall (bipf : Z -> Z -> Z) (g g2 : gst),
  wf_g g -> import bipf (s_height (g_led g)) (s_base_sym (g_led g)) (export g) = Val g2 -> wf_led (g_led g2).
Proof.
  intros bipf g g2 Hwf Himp. destruct (export_canonical g Hwf) as (C1 & C2 & C3 & _).
  rewrite import_val in Himp. destruct (recalc_cands bipf (map import_cand_raw (a_cands (export g)))); cbn [obind] in Himp; try discriminate.
  injection Himp as <-. cbn [import_result g_led]. apply wf_import; assumption.
Qed.

(* ======================================================================================================== *)
(* concrete states: non-vacuity and the refutations (all by computation)                                      *)
(* ======================================================================================================== *)
Definition bip0 : Z -> Z -> Z := Ranking.bip_table [].
Definition mk (o c v b : Z) : Ranking.stk := {| Ranking.s_owner := o; Ranking.s_coin := c; Ranking.s_value := v; Ranking.s_bip := b |}.

(* accounts 5 and 7, a multisig account 11, token 1 (symbol 77, owner 5) held by 7, used checks, a base-coin Lock;
   one validator = candidate 1 with two stakes; one waitlist entry *)
Definition led0 : st :=
  {| s_bal := [(7, 0, 100); (5, 0, 50); (7, 1, 40); (7, 0, -20); (9, 0, 0)]; s_nonce := [(7, 3); (5, 1); (7, 2)];
     s_coins := [{| c_id := 1; c_sym := 77; c_ver := 0; c_vol := 40; c_max := 1000; c_mint := true; c_burn := false |}];
     s_symowner := [(77, 5)]; s_ncoins := 1; s_rpool := 0; s_used := [9; 3; 9]; s_msig := [(11, (2, [(5, 1); (7, 1)]))];
     s_frozen := [(30, 7, 0, 10); (20, 5, 0, 5); (30, 5, 0, 1)]; s_height := 10; s_prices := zero_prices; s_base_sym := 1 |}.
Definition cand1 (updates : list Ranking.stk) : cand :=
  {| k_id := 1; k_pub := 100; k_owner := 5; k_status := 2; k_total := 1500;
     k_slots := import_slots [mk 5 0 1000 1000; mk 7 0 500 500]; k_updates := updates |}.
Definition g0 : gst :=
  {| g_led := led0; g_res := []; g_vals := [{| av_pub := 100; av_total := 1500; av_accum := 3 |}];
     g_cands := [cand1 []]; g_deleted := []; g_maxid := 1; g_wait := [(5, 1, 0, 3)]; g_pools := []; g_halts := []; g_cvotes := []; g_uvotes := [];
     g_maxgas := 100000; g_slashed := 0; g_reward := 74; g_safe := 74 |}.

Lemma g0_wf_led : wf_led (g_led g0).
Proof. apply wf_ledb_spec. vm_compute. reflexivity. Qed.

Lemma g0_wf_g : wf_g g0.
Proof.
  refine (conj _ (conj _ _)).
  - apply ssortedb_spec. vm_compute. reflexivity.
  - intros e [].
  - cbn. repeat constructor. intros [].
Qed.

Lemma g0_cand_fix : forall k, In k (g_cands g0) -> cand_fix bip0 k.
Proof.
  intros k [<-|[]]. refine (conj eq_refl (conj _ (conj _ _))).
  - intros s Hs. vm_compute in Hs. destruct Hs as [<-|[<-|[]]]; reflexivity.
  - vm_compute. reflexivity.
  - apply Nat.leb_le. vm_compute. reflexivity.
Qed.

Ltac solve_coin_ok := first [left; reflexivity | right; eexists; split; [left; reflexivity|reflexivity]].

Lemma g0_wf_verify : wf_verify 1 g0.
Proof.
  - unfold wf_verify. refine (conj _ (conj _ (conj _ (conj _ (conj _ (conj _ (conj _ (conj _ (conj _ (conj _ (conj _ (conj _ _)))))))))))).
    + apply bal_nonneg_b. vm_compute. reflexivity.
    + apply ssortedb_spec. vm_compute. reflexivity.
    + intros e [].
    + vm_compute. discriminate.
    + discriminate.
    + cbn. repeat constructor. intros [].
    + intros v [<-|[]]. refine (conj _ (conj _ _)); [exists (cand1 []); split; [left; reflexivity|reflexivity]|vm_compute; discriminate|vm_compute; discriminate].
    + intros e He. cbn [g0 g_led led0 s_bal] in He. repeat (destruct He as [<-|He]; [cbn [fst snd]; solve_coin_ok|]). destruct He.
    + intros k [<-|[]]. split.
      * vm_compute. repeat constructor; cbn; intuition congruence.
      * intros x Hx. vm_compute in Hx. destruct Hx as [<-|[<-|[]]]; left; reflexivity.
    + intros r [<-|[]]. cbn. lia.
    + intros w [<-|[]]. cbn [fst snd]. split; [lia|left; reflexivity].
    + intros f Hf. cbn [g0 g_led led0 s_frozen] in Hf. repeat (destruct Hf as [<-|Hf]; [refine (conj _ (conj _ _)); [vm_compute; discriminate|cbn; lia|left; reflexivity]|]). destruct Hf.
    + intros r [<-|[]]. split; [vm_compute; reflexivity|]. intros _. split; vm_compute; reflexivity.
Qed.

(* non-vacuity of (a), (b), (c): the hypotheses hold for g0 and the conclusions are what the computation gives *)
Example C11_nonvacuous_verify : verify 1 (export g0) = true.
Proof. exact (C11_export_verifies 1 g0 g0_wf_verify). Qed.

Example C11_nonvacuous_roundtrip :
  exists g2, import bip0 10 1 (export g0) = Val g2 /\ export g2 = export g0 /\
             length (a_accts (export g0)) = 3%nat /\ length (a_frozen (export g0)) = 3%nat /\ a_used (export g0) = [3; 9].
Proof.
  destruct (C11_roundtrip_partial bip0 g0 g0_wf_g g0_cand_fix) as (g2 & E1 & E2).
  exists g2. refine (conj E1 (conj E2 _)). vm_compute. repeat split.
Qed.

(* a continuation with accepted and rejected transactions: Send 30 of the token from 7 to 5, a replay of it,
   a CreateToken by 5, a Lock of the base coin by 7, the next block's begin *)
Definition tx (nonce sender : Z) (d : txdata) : tx :=
  {| t_nonce := nonce; t_chain_ok := true; t_gas_price := 1; t_gas_coin := 0; t_payload_len := 0; t_service_len := 0;
     t_sig := SigSingle sender; t_data := d |}.
Definition cont0 : list op :=
  [OpBegin 11; OpTx (tx 4 7 (Send 1 5 30)); OpTx (tx 4 7 (Send 1 5 30)); OpTx (tx 2 5 (CreateToken 555 8 true 5 1000 1000 false false));
   OpTx (tx 5 7 (Lock 20 0 7)); OpEnd; OpBegin 12].

Example C11_nonvacuous_continuation :
  exists g2, import bip0 10 1 (export g0) = Val g2 /\
    snd (grun g0 cont0) = snd (grun g2 cont0) /\ snd (grun g0 cont0) = [0; 0; 101; 0; 0; 0; 0] /\
    export (fst (grun g0 cont0)) = export (fst (grun g2 cont0)).
Proof.
  destruct (C11_roundtrip_partial bip0 g0 g0_wf_g g0_cand_fix) as (g2 & E1 & _).
  exists g2. split; [exact E1|]. split; [exact (proj1 (C11_continues_alike bip0 g0 g2 cont0 g0_wf_led E1))|].
  vm_compute in E1. injection E1 as <-. vm_compute. split; reflexivity.
Qed.

(* ---- (a): the witness against the rule before fix b66d393, kept as a regression ----------------------------- *)
(* from g0 (which verifies): account 5 creates token 2 and locks 10 of it: real ledger steps, both accepted *)
Definition lock_ops : list op :=
  [OpBegin 11; OpTx (tx 2 5 (CreateToken 555 8 true 5 1000 1000 false false)); OpTx (tx 3 5 (Lock 50 2 10)); OpEnd].

Example C11_verify_regression :
  exists g ops, verify 1 (export g) = true /\ snd (grun g ops) = [0; 0; 0; 0] /\
                verify 1 (export (fst (grun g ops))) = true /\
                forallb (coin_volume_ok (export (fst (grun g ops)))) (a_coins (export (fst (grun g ops)))) = true /\
                forallb (coin_volume_ok_old (export (fst (grun g ops)))) (a_coins (export (fst (grun g ops)))) = false.
Proof. exists g0, lock_ops. vm_compute. repeat split. Qed.

(* ---- (b) refuted: one pending delegation -------------------------------------------------------------------- *)
(* g0 with a delegation of 200 by a new delegator 9 waiting for the next update block *)
Definition g_pending : gst :=
  {| g_led := led0; g_res := []; g_vals := g_vals g0; g_cands := [cand1 [mk 9 0 200 0]]; g_deleted := []; g_maxid := 1; g_wait := g_wait g0; g_pools := [];
     g_halts := []; g_cvotes := []; g_uvotes := []; g_maxgas := 100000; g_slashed := 0; g_reward := 74; g_safe := 74 |}.

Theorem C11_roundtrip_refuted :
  exists g g2, wf_g g /\ wf_led (g_led g) /\
    import bip0 (s_height (g_led g)) (s_base_sym (g_led g)) (export g) = Val g2 /\
    export g2 <> export g /\
    map ak_total (a_cands (export g)) = [1500] /\ map (fun k => length (ak_updates k)) (a_cands (export g)) = [1%nat] /\
    map ak_total (a_cands (export g2)) = [1700] /\ map (fun k => length (ak_updates k)) (a_cands (export g2)) = [0%nat].
Proof.
  assert (exists g2, import bip0 10 1 (export g_pending) = Val g2) as (g2 & E).
  { vm_compute. eexists. reflexivity. }
  exists g_pending, g2. refine (conj _ (conj _ (conj E _))).
  - refine (conj _ (conj _ _)); [apply ssortedb_spec; vm_compute; reflexivity|intros e []|cbn; repeat constructor; intros []].
  - apply wf_ledb_spec. vm_compute. reflexivity.
  - vm_compute in E. injection E as <-. split; [|vm_compute; repeat split]. intros H. apply (f_equal (fun a => map ak_total (a_cands a))) in H. vm_compute in H. discriminate H.
Qed.

(* ---- halt votes come back (fix 49ebe8c); before it the second export had none ------------------------------------ *)
Definition g_halt : gst :=
  {| g_led := led0; g_res := []; g_vals := g_vals g0; g_cands := g_cands g0; g_deleted := []; g_maxid := 1; g_wait := g_wait g0; g_pools := [];
     g_halts := [(500, 100)]; g_cvotes := []; g_uvotes := []; g_maxgas := 100000; g_slashed := 0; g_reward := 74; g_safe := 74 |}.

Example C11_halt_votes_regression :
  exists g2, import bip0 (s_height (g_led g_halt)) (s_base_sym (g_led g_halt)) (export g_halt) = Val g2 /\
    a_halts (export g_halt) = [(500, 100)] /\ a_halts (export g2) = [(500, 100)] /\ export g2 = export g_halt.
Proof.
  destruct (C11_roundtrip_partial bip0 g_halt g0_wf_g g0_cand_fix) as (g2 & E1 & E2).
  exists g2. refine (conj E1 (conj eq_refl (conj _ E2))). rewrite E2. reflexivity.
Qed.

(* ---- state that no export shows ----------------------------------------------------------------------------------- *)
(* g0 after candidates 2 and 3 were created and removed (the counter stays at 3) and during reward recovery:
   the counter comes back, the safe reward does not *)
Definition g_hidden : gst :=
  {| g_led := led0; g_res := []; g_vals := g_vals g0; g_cands := g_cands g0; g_deleted := [(3, 300); (2, 200)]; g_maxid := 3; g_wait := g_wait g0; g_pools := [];
     g_halts := []; g_cvotes := []; g_uvotes := []; g_maxgas := 100000; g_slashed := 0; g_reward := 74; g_safe := 90 |}.

Theorem C11_hidden_state :
  exists g g2,
    import bip0 (s_height (g_led g)) (s_base_sym (g_led g)) (export g) = Val g2 /\ export g2 = export g /\
    a_deleted (export g) = [(2, 200); (3, 300)] /\ maxid_inv g /\ g_maxid g = 3 /\ g_maxid g2 = 3 /\ g_safe g = 90 /\ g_safe g2 = 74.
Proof.
  assert (exists g2, import bip0 10 1 (export g_hidden) = Val g2) as (g2 & E).
  { vm_compute. eexists. reflexivity. }
  exists g_hidden, g2. refine (conj E _). vm_compute in E. injection E as <-. vm_compute. repeat split.
Qed.

(* ---- empty stake slots ------------------------------------------------------------------------------------------------ *)
(* slots [5; -; 7] (delegator 6 left) against the packed [5; 7; -]: the same export; after the same new
   delegation of 9 and one recalculation the exports list the stakes in different slot order *)
Definition cand_hole (updates : list Ranking.stk) : cand :=
  {| k_id := 1; k_pub := 100; k_owner := 5; k_status := 2; k_total := 1500;
     k_slots := [Some (mk 5 0 1000 1000); None; Some (mk 7 0 500 500); None]; k_updates := updates |}.
Definition cand_pack (updates : list Ranking.stk) : cand :=
  {| k_id := 1; k_pub := 100; k_owner := 5; k_status := 2; k_total := 1500;
     k_slots := [Some (mk 5 0 1000 1000); Some (mk 7 0 500 500); None; None]; k_updates := updates |}.
Definition with_cand (k : cand) : gst :=
  {| g_led := led0; g_res := []; g_vals := g_vals g0; g_cands := [k]; g_deleted := []; g_maxid := 1; g_wait := []; g_pools := [];
     g_halts := []; g_cvotes := []; g_uvotes := []; g_maxgas := 100000; g_slashed := 0; g_reward := 74; g_safe := 74 |}.

Theorem C11_slots_refuted :
  export (with_cand (cand_hole [])) = export (with_cand (cand_pack [])) /\
  exists g1 g2, recalc_all bip0 (with_cand (cand_hole [mk 9 0 200 0])) = Val g1 /\
                recalc_all bip0 (with_cand (cand_pack [mk 9 0 200 0])) = Val g2 /\
                map (fun k => map Ranking.s_owner (ak_stakes k)) (a_cands (export g1)) = [[5; 9; 7]] /\
                map (fun k => map Ranking.s_owner (ak_stakes k)) (a_cands (export g2)) = [[5; 7; 9]].
Proof.
  split; [reflexivity|]. eexists. eexists. split; [vm_compute; reflexivity|]. split; [vm_compute; reflexivity|]. vm_compute. split; reflexivity.
Qed.

Print Assumptions C11_export_verifies.
Print Assumptions C11_verify_regression.
Print Assumptions C11_maxid_restored.
Print Assumptions C11_roundtrip_partial.
Print Assumptions C11_roundtrip_general.
Print Assumptions C11_roundtrip_refuted.
Print Assumptions C11_halt_votes_regression.
Print Assumptions C11_hidden_state.
Print Assumptions C11_slots_refuted.
Print Assumptions C11_continues_alike.
Print Assumptions C11_import_wf.
Print Assumptions C11_nonvacuous_verify.
Print Assumptions C11_nonvacuous_roundtrip.
Print Assumptions C11_nonvacuous_continuation.
